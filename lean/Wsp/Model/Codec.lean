/-
  Binary codec: one definition per Go `AppendTo` / `TakeFrom` (DESIGN A.4), as
  repaired by the `fix:` commits (64-bit sizes, step > 0, absent series).
-/
import Wsp.Model.Value
namespace Wsp

/-! ### scalar types -/

def encTimestamp (t : Nat) : Bytes := be32 t
/-- ⟦Timestamp.TakeFrom⟧ -/
def decTimestamp (src : Bytes) : R (Nat × Bytes) :=
  if src.length < 4 then .error (.wantLarger 4) else .ok (de32 src, src.drop 4)

/-- ⟦Duration.AppendTo⟧ : `uint32(d)` big-endian -/
def encDuration (d : Int) : Bytes := be32 (u32 d)
/-- ⟦Duration.TakeFrom⟧ : `Duration(uint32)` -/
def decDuration (src : Bytes) : R (Int × Bytes) :=
  if src.length < 4 then .error (.wantLarger 4) else .ok (i32 (de32 src), src.drop 4)

def encValue (v : Val) : Bytes := be64 v
/-- ⟦Value.TakeFrom⟧ -/
def decValue (src : Bytes) : R (Val × Bytes) :=
  if src.length < 8 then .error (.wantLarger 8) else .ok (de64 src, src.drop 8)

def encPoint (p : Point) : Bytes := encTimestamp p.t ++ encValue p.v
/-- ⟦Point.TakeFrom⟧ -/
def decPoint (src : Bytes) : R (Point × Bytes) :=
  if src.length < 12 then .error (.wantLarger 12)
  else .ok (⟨de32 src, de64 (src.drop 4)⟩, src.drop 12)

/-! ### lists -/

def encValues : List Val → Bytes
  | [] => []
  | v :: vs => encValue v ++ encValues vs

/-- decode exactly `n` values (the loop of ⟦TimeSeries.TakeFrom⟧) -/
def decValues : Nat → Bytes → R (List Val × Bytes)
  | 0, src => .ok ([], src)
  | n+1, src =>
    match decValue src with
    | .error e => .error e
    | .ok (v, src) =>
      match decValues n src with
      | .error e => .error e
      | .ok (vs, src) => .ok (v :: vs, src)

def encPointsBody : List Point → Bytes
  | [] => []
  | p :: ps => encPoint p ++ encPointsBody ps

def decPointsBody : Nat → Bytes → R (List Point × Bytes)
  | 0, src => .ok ([], src)
  | n+1, src =>
    match decPoint src with
    | .error e => .error e
    | .ok (p, src) =>
      match decPointsBody n src with
      | .error e => .error e
      | .ok (ps, src) => .ok (p :: ps, src)

/-- `uint64` big-endian of a length -/
def be64Nat (n : Nat) : Bytes := be32 (n / 4294967296 % 4294967296) ++ be32 (n % 4294967296)
def de64Nat (b : Bytes) : Nat := de32 b * 4294967296 + de32 (b.drop 4)

/-- ⟦Points.AppendTo⟧ -/
def encPoints (ps : List Point) : Bytes := be64Nat ps.length ++ encPointsBody ps

/-- `math.MaxUint32 / pointSize` -/
def maxPointCount : Nat := 357913941

/-- ⟦Points.TakeFrom⟧ (repaired: counts that cannot occur in a file are an error). -/
def decPoints (src : Bytes) : R (List Point × Bytes) :=
  if src.length < 8 then .error (.wantLarger 8) else
  let count := de64Nat src
  if count > maxPointCount then .error (.err .invalid) else
  let src := src.drop 8
  let wanted := count * 12
  if src.length < wanted then .error (.wantLarger (8 + wanted)) else
  decPointsBody count src

/-- number of elements ⟦Points.TakeFrom⟧ allocates (ghost; 0 when it fails before `make`). -/
def decPointsAlloc (src : Bytes) : Nat :=
  if src.length < 8 then 0 else
  let count := de64Nat src
  if count > maxPointCount then 0 else
  if (src.drop 8).length < count * 12 then 0 else count

/-! ### time series -/

/-- ⟦TimeSeries.AppendTo⟧ ; `none` is Go's nil series (absent). -/
def encSeries : Option Series → Bytes
  | none => encTimestamp 0 ++ encTimestamp 0 ++ encDuration 0
  | some s => encTimestamp s.from_ ++ encTimestamp s.until_ ++ encDuration s.step ++ encValues s.values

/-- ⟦TimeSeries.TakeFrom⟧ (repaired). The absent series decodes to the zero series. -/
def decSeries (src : Bytes) : R (Series × Bytes) :=
  if src.length < 12 then .error (.wantLarger 12) else
  let f := de32 src
  let u := de32 (src.drop 4)
  let st := i32 (de32 (src.drop 8))
  let src := src.drop 12
  if st = 0 ∧ f = u then .ok (⟨f, u, st, []⟩, src) else
  if st ≤ 0 then .error (.err .invalid) else
  if u < f then .error (.err .invalid) else
  let n := (Int.tdiv ((u : Int) - (f : Int)) st).toNat
  let wanted := n * 8
  if src.length < wanted then .error (.wantLarger (12 + wanted)) else
  match decValues n src with
  | .error e => .error e
  | .ok (vs, src) => .ok (⟨f, u, st, vs⟩, src)

def decSeriesAlloc (src : Bytes) : Nat :=
  if src.length < 12 then 0 else
  let f := de32 src
  let u := de32 (src.drop 4)
  let st := i32 (de32 (src.drop 8))
  if st = 0 ∧ f = u then 0 else
  if st ≤ 0 then 0 else if u < f then 0 else
  let n := (Int.tdiv ((u : Int) - (f : Int)) st).toNat
  if (src.drop 12).length < n * 8 then 0 else n

/-! ### archive info and header -/

/-- ⟦ArchiveInfo.AppendTo⟧ -/
def encArch (a : Arch) : Bytes := be32 a.offset ++ encDuration a.step ++ be32 a.n

/-- ⟦ArchiveInfo.TakeFrom⟧ -/
def decArch (src : Bytes) : R (Arch × Bytes) :=
  if src.length < 12 then .error (.wantLarger 12)
  else .ok (⟨de32 src, i32 (de32 (src.drop 4)), de32 (src.drop 8)⟩, src.drop 12)

def encArchs : List Arch → Bytes
  | [] => []
  | a :: as => encArch a ++ encArchs as

def decArchs : Nat → Bytes → R (List Arch × Bytes)
  | 0, src => .ok ([], src)
  | n+1, src =>
    match decArch src with
    | .error e => .error e
    | .ok (a, src) =>
      match decArchs n src with
      | .error e => .error e
      | .ok (as, src) => .ok (a :: as, src)

/-- ⟦Header⟧ -/
structure Header where
  agg : Nat          -- AggregationMethod (an `int`; uint32 on the wire)
  maxRet : Int       -- Duration
  xff : UInt32       -- float32 bits
  count : Nat        -- archiveCount uint32
  archives : List Arch
  deriving Repr, DecidableEq, Inhabited

/-- ⟦Header.AppendTo⟧ -/
def encHeader (h : Header) : Bytes :=
  be32 (u32 h.agg) ++ encDuration h.maxRet ++ be32 h.xff.toNat ++ be32 h.count ++ encArchs h.archives

/-- ⟦validateAggregationMethod⟧ -/
def validAgg (m : Nat) : Bool := 1 ≤ m && m ≤ 6

/-- ⟦ArchiveInfo.validate⟧ (repaired: the retention must fit in 31 bits) -/
def Arch.valid (a : Arch) : Bool :=
  decide (0 < a.step) && decide (0 < a.n) && decide (a.step * (a.n : Int) ≤ 2147483647)

/-- the 64-bit size check at the top of ⟦ArchiveInfoList.validate⟧ (repaired) -/
def sizeFits : Nat → List Arch → Bool
  | _, [] => true
  | size, a :: as =>
    let size := size + a.n * 12
    if size > 4294967295 then false else sizeFits size as

/-- the main loop of ⟦ArchiveInfoList.validate⟧, with uint32 / int32 arithmetic as written -/
def validateLoop : Nat → List Arch → Bool
  | _, [] => true            -- not reached for a non-empty list
  | off, a :: rest =>
    if !a.valid then false else
    if a.offset ≠ off then false else
    match rest with
    | [] => true
    | nx :: _ =>
      if !(a.step < nx.step) then false else
      if Int.tmod nx.step a.step ≠ 0 then false else
      if a.maxRetention ≥ nx.maxRetention then false else
      if a.n < u32 (Int.tdiv nx.step a.step) then false else
      validateLoop (u32 ((off : Int) + (u32 ((a.n : Int) * 12) : Int))) rest

/-- first offset: `metaSize + uint32(len(aa))*archiveInfoListSize` -/
def firstOffset (k : Nat) : Nat := u32 (16 + (u32 ((u32 k : Int) * 12) : Int))

/-- ⟦ArchiveInfoList.validate⟧ -/
def validateArchs (as : List Arch) : Bool :=
  if as.length = 0 then false else
  if !sizeFits (16 + as.length * 12) as then false else
  validateLoop (firstOffset as.length) as

/-- ⟦ArchiveInfoList.fillOffset⟧ -/
def fillOffsetsFrom : Nat → List Arch → List Arch
  | _, [] => []
  | off, a :: as => { a with offset := off } :: fillOffsetsFrom (u32 ((off : Int) + (u32 ((a.n : Int) * 12) : Int))) as

def fillOffsets (as : List Arch) : List Arch := fillOffsetsFrom (firstOffset as.length) as

/-- ⟦Header.TakeFrom⟧ (repaired: size in 64 bits) -/
def decHeader (o : FOps) (src : Bytes) : R (Header × Bytes) :=
  if src.length < 16 then .error (.wantLarger 16) else
  let agg := de32 src
  let mr := i32 (de32 (src.drop 4))
  let xff := UInt32.ofNat (de32 (src.drop 8))
  let count := de32 (src.drop 12)
  let src := src.drop 16
  if !validAgg agg then .error (.err .invalid) else
  if !o.xffValid xff then .error (.err .invalid) else
  let wanted := count * 12
  if src.length < wanted then .error (.wantLarger (16 + wanted)) else
  match decArchs count src with
  | .error e => .error e
  | .ok (as, src) =>
    if !validateArchs as then .error (.err .invalid) else
    .ok (⟨agg, mr, xff, count, as⟩, src)

def decHeaderAlloc (o : FOps) (src : Bytes) : Nat :=
  if src.length < 16 then 0 else
  let agg := de32 src
  let xff := UInt32.ofNat (de32 (src.drop 8))
  let count := de32 (src.drop 12)
  if !validAgg agg then 0 else if !o.xffValid xff then 0 else
  if (src.drop 16).length < count * 12 then 0 else count

/-- ⟦NewHeader⟧ : `steps` are (secondsPerPoint, numberOfPoints) pairs. -/
def newHeader (o : FOps) (agg : Nat) (xff : UInt32) (lay : List (Int × Nat)) : R Header :=
  if !validAgg agg then .error (.err .invalid) else
  if !o.xffValid xff then .error (.err .invalid) else
  let as := fillOffsets (lay.map fun (s, n) => ⟨0, s, n⟩)
  if !validateArchs as then .error (.err .invalid) else
  match as.getLast? with
  | none => .error (.err .invalid)
  | some last => .ok ⟨agg, last.maxRetention, xff, u32 as.length, as⟩

/-- ⟦Header.Size⟧ -/
def Header.size (h : Header) : Nat := 16 + h.count * 12

/-- ⟦Header.ExpectedFileSize⟧ -/
def Header.expectedFileSize (h : Header) : Nat :=
  h.archives.foldl (fun sz a => sz + a.n * 12) h.size

end Wsp
