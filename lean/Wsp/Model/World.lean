/-
  Files and handles: the disk is kept apart from the handle's view and only `sync`
  copies the view to the disk (DESIGN §5 C05).  This is the state machine the driver
  runs for the library operations.
-/
import Wsp.Model.Whisper
namespace Wsp

/-- ⟦Create⟧ with an open flag that allows an existing file (no O_EXCL, no O_TRUNC): the file
    is cut or extended to the size of the new layout at once — what it held inside that size
    stays on the disk — and the header goes to the buffer only. -/
def recreateHandle (o : FOps) (agg : Nat) (xff : UInt32) (lay : List (Int × Nat)) (old : Bytes) : R (Bytes × Handle) :=
  match newHeader o agg xff lay with
  | .error e => .error e
  | .ok h =>
    let size := h.expectedFileSize
    let disk : Bytes := old.take size ++ List.replicate (size - old.length) 0
    match writeAt disk 0 (encHeader h) with
    | .error e => .error e
    | .ok view => .ok (disk, ⟨h, view⟩)

inductive LibOp
  | create (lay : List (Int × Nat)) (agg : Nat) (xff : UInt32)
  | createOver (lay : List (Int × Nat)) (agg : Nat) (xff : UInt32)   -- Create with O_RDWR|O_CREATE
  | open_
  | sync
  | drop                                   -- the handle is abandoned without Sync
  | upd (k : Int) (t : Nat) (v : Val) (now : Nat)
  | updMany (k : Int) (now : Nat) (pts : List Point)
  | setDisk (b : Bytes)                    -- another writer replaced the file
  | rmDisk
  deriving Repr

/-- result class of an operation, as the harness observes it -/
inductive OpObs
  | ok | noHandle | fault (f : Fault) | errExists | errNotExist
  deriving Repr, DecidableEq

/-- creating a file that is not there -/
def World.createFresh (o : FOps) (w : World) (lay : List (Int × Nat)) (agg : Nat) (xff : UInt32) : World × OpObs :=
  match createHandle o agg xff lay with
  | .ok (disk, h) => (⟨some disk, some h⟩, .ok)
  | .error e => (w, .fault e)

def World.step (o : FOps) (w : World) : LibOp → World × OpObs
  | .create lay agg xff =>
    match w.disk with
    | some _ => ({ w with h := none }, .errExists)
    | none => w.createFresh o lay agg xff
  | .createOver lay agg xff =>
    match w.disk with
    | none => w.createFresh o lay agg xff
    | some d =>
      match recreateHandle o agg xff lay d with
      | .ok (disk, h) => (⟨some disk, some h⟩, .ok)
      | .error e => ({ w with h := none }, .fault e)
  | .open_ =>
    match w.disk with
    | none => ({ w with h := none }, .errNotExist)
    | some d =>
      match openBytes o d with
      | .ok h => ({ w with h := some h }, .ok)
      | .error e => ({ w with h := none }, .fault e)
  | .sync =>
    match w.h with
    | none => (w, .noHandle)
    | some h => (⟨some h.view, some h⟩, .ok)
  | .drop => ({ w with h := none }, .ok)
  | .upd k t v now =>
    match w.h with
    | none => (w, .noHandle)
    | some h =>
      match h.updatePoint o k t v now with
      | .ok h' => ({ w with h := some h' }, .ok)
      | .error e => (w, .fault e)
  | .updMany k now pts =>
    match w.h with
    | none => (w, .noHandle)
    | some h =>
      match h.updateMany o pts k now with
      | .ok h' => ({ w with h := some h' }, .ok)
      | .error e => (w, .fault e)
  | .setDisk b => (⟨some b, none⟩, .ok)
  | .rmDisk => (⟨none, none⟩, .ok)

def World.run (o : FOps) (w : World) (ops : List LibOp) : World :=
  ops.foldl (fun w op => (w.step o op).1) w

end Wsp
