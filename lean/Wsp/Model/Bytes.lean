/-
  Big-endian byte codecs and the fault type (DESIGN §3.4).
-/
import Wsp.Model.Arith
namespace Wsp

abbrev Bytes := List UInt8

/-- Error classes; messages are never compared. -/
inductive ErrKind
  | invalid        -- validation / malformed input
  | outOfRange     -- ErrArchiveIDOutOfRange
  | rangeError     -- from > until
  | notCovered     -- timestamp not covered by any archive
  | io             -- read/write outside the file
  | notExist
  | exists_
  | mismatch       -- layouts differ
  | unalike        -- time ranges and steps unalike
  | other
  deriving Repr, DecidableEq, Inhabited

/-- Go panics and errors are results, never defaults. -/
inductive Fault
  | panic (why : String)
  | err (k : ErrKind)
  | wantLarger (n : Int)      -- *WantLargerBufferError{WantedBufSize: n}
  deriving Repr, DecidableEq, Inhabited

abbrev R (α : Type) := Except Fault α

def be32 (n : Nat) : Bytes :=
  [UInt8.ofNat (n / 16777216 % 256), UInt8.ofNat (n / 65536 % 256),
   UInt8.ofNat (n / 256 % 256), UInt8.ofNat (n % 256)]

/-- big-endian uint32 of the first four bytes (callers check the length first). -/
def de32 : Bytes → Nat
  | a :: b :: c :: d :: _ => a.toNat * 16777216 + b.toNat * 65536 + c.toNat * 256 + d.toNat
  | _ => 0

def be64 (v : UInt64) : Bytes :=
  be32 (v.toNat / 4294967296) ++ be32 (v.toNat % 4294967296)

def de64 (b : Bytes) : UInt64 :=
  UInt64.ofNat (de32 b * 4294967296 + de32 (b.drop 4))

/-- A stored value is its raw IEEE-754 bit pattern (DESIGN §3.3). -/
abbrev Val := UInt64

/-- `math.NaN()` -/
def nanBits : Val := 0x7FF8000000000001

structure Point where
  t : Nat
  v : Val
  deriving Repr, DecidableEq, Inhabited

/-- ⟦TimeSeries⟧ -/
structure Series where
  from_ : Nat
  until_ : Nat
  step : Int
  values : List Val
  deriving Repr, DecidableEq, Inhabited

end Wsp
