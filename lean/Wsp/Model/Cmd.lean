/-
  Command layer (cmd/*.go), L3 of DESIGN §3.1.
-/
import Wsp.Model.Whisper
namespace Wsp.Cmd

abbrev Tree := List (String × Bytes)

def stepCmd (_o : FOps) (_t : Tree) (_toks : List String) : Option (Tree × String) := none

end Wsp.Cmd
