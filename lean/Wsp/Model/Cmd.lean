/-
  Command layer (cmd/*.go), L3 of DESIGN §3.1: view, view-raw, diff, copy, sum, sum-copy,
  sum-diff over a tree of named files.  Outputs are *records* (archive, time, value bits),
  not text: number and time formatting are exercised by the harness, which parses the
  real output back into records.  Globbing is a parameter: the harness resolves patterns
  with filepath.Match over the names it created and passes the resulting lists.
-/
import Wsp.Model.World
namespace Wsp.Cmd
open Wsp.Handle

/-- path ↦ bytes of the file on disk -/
abbrev Tree := String → Option Bytes

def Tree.empty : Tree := fun _ => none
def Tree.get (t : Tree) (p : String) : Option Bytes := t p
def Tree.set (t : Tree) (p : String) (b : Bytes) : Tree := fun q => if q = p then some b else t q
def Tree.remove (t : Tree) (p : String) : Tree := fun q => if q = p then none else t q

/-- how a command ends -/
inductive Outcome
  | ok
  | diffFound
  | err (k : ErrKind)
  | panic
  deriving Repr, DecidableEq, Inhabited

def Outcome.ofFault : Fault → Outcome
  | .panic _ => .panic
  | .err k => .err k
  | .wantLarger _ => .err .invalid

/-- one printed record -/
structure Rec where
  arch : Nat
  t : Nat
  v : Val
  v2 : Option (Val × Val) := none     -- diff: (dest value, dest − src)
  deriving Repr, DecidableEq, Inhabited

/-! ### nil-safe accessors of ⟦TimeSeries⟧ (repaired) -/

def sFrom : Option Series → Nat | none => 0 | some s => s.from_
def sUntil : Option Series → Nat | none => 0 | some s => s.until_
def sStep : Option Series → Int | none => 0 | some s => s.step
def sValues : Option Series → List Val | none => [] | some s => s.values

/-- ⟦TimeSeries.Points⟧ : the i-th value belongs to `from + Duration(i)*step` (int32 product) -/
def seriesPointsFrom (from_ : Nat) (step : Int) : Nat → List Val → List Point
  | _, [] => []
  | i, v :: vs => ⟨tsAdd from_ (i32 ((i : Int) * step)), v⟩ :: seriesPointsFrom from_ step (i + 1) vs

def seriesPoints (s : Option Series) : List Point := seriesPointsFrom (sFrom s) (sStep s) 0 (sValues s)

/-- ⟦fetchTimeSeriesList⟧ -/
def fetchAll (h : Handle) (now from_ until_ : Nat) : Nat → List Arch → R (List (Option Series))
  | _, [] => .ok []
  | i, _ :: as =>
    match h.fetchFromArchive (i : Int) from_ until_ now with
    | .error e => .error e
    | .ok s =>
      match fetchAll h now from_ until_ (i + 1) as with
      | .error e => .error e
      | .ok rest => .ok (s :: rest)

def fetchList (h : Handle) (archiveID : Int) (from_ until_ now : Nat) : R (List (Option Series)) :=
  if archiveID = -1 then fetchAll h now from_ until_ 0 h.archs
  else if 0 ≤ archiveID ∧ archiveID < h.archs.length then
    match h.fetchFromArchive archiveID from_ until_ now with
    | .error e => .error e
    | .ok s => .ok ((List.range h.archs.length).map fun (i : Nat) => if (i : Int) = archiveID then s else none)
  else .error (.err .outOfRange)

/-- ⟦readWhisperFileLocal⟧ -/
def readFile (o : FOps) (t : Tree) (path : String) (archiveID : Int) (from_ until_ now : Nat) :
    R (Header × List (Option Series)) :=
  match t.get path with
  | none => .error (.err .notExist)
  | some b =>
    match openBytes o b with
    | .error _ => .error (.err .invalid)
    | .ok h =>
      match fetchList h archiveID from_ until_ now with
      | .error e => .error e
      | .ok l => .ok (h.hdr, l)

/-- ⟦ArchiveInfoList.Equal⟧ : steps and counts only -/
def layoutsEqual (a b : List Arch) : Bool :=
  a.length == b.length && (a.zip b).all fun (x, y) => x.step == y.step && x.n == y.n

/-- ⟦TimeSeriesList.AllEqualTimeRangeAndStep⟧ -/
def rangesEqual (a b : List (Option Series)) : Bool :=
  a.length == b.length && (a.zip b).all fun (x, y) =>
    sFrom x == sFrom y && sUntil x == sUntil y && sStep x == sStep y

/-- ⟦TimeSeries.DiffPoints⟧ / ⟦DiffPointsExcludeSrcNaN⟧ -/
def diffLoop (o : FOps) (exclNaN : Bool) (f1 f2 : Nat) (step : Int) : Nat → List Val → List Val → List Point × List Point
  | i, v :: vs, v2 :: vs2 =>
    let t := tsAdd f1 (i32 ((i : Int) * step))
    let t2 := tsAdd f2 (i32 ((i : Int) * step))
    let (r1, r2) := diffLoop o exclNaN f1 f2 step (i + 1) vs vs2
    if (t ≠ t2 ∨ !o.vEqual v v2) ∧ !(exclNaN ∧ o.isNaN v) then (⟨t, v⟩ :: r1, ⟨t2, v2⟩ :: r2) else (r1, r2)
  | _, _, _ => ([], [])

def diffPoints (o : FOps) (exclNaN : Bool) (s1 s2 : Option Series) : List Point × List Point :=
  if (sValues s1).length ≠ (sValues s2).length then (seriesPoints s1, seriesPoints s2)
  else diffLoop o exclNaN (sFrom s1) (sFrom s2) (sStep s1) 0 (sValues s1) (sValues s2)

/-- ⟦TimeSeriesList.Diff⟧ -/
def diffLists (o : FOps) (exclNaN : Bool) (a b : List (Option Series)) : List (List Point) × List (List Point) :=
  if a.length ≠ b.length then (a.map seriesPoints, b.map seriesPoints)
  else ((a.zip b).map fun (x, y) => (diffPoints o exclNaN x y).1, (a.zip b).map fun (x, y) => (diffPoints o exclNaN x y).2)

def allEmpty (pl : List (List Point)) : Bool := pl.all fun l => l.isEmpty

/-- records of ⟦PointsList.Print⟧ -/
def recsOf (pl : List (List Point)) : List Rec :=
  (pl.zipIdx).flatMap fun (pts, i) => pts.map fun p => ⟨i, p.t, p.v, none⟩

/-- records of ⟦printDiff⟧ : for each archive of the source header -/
def diffRecs (o : FOps) (k : Nat) (sp dp : List (List Point)) : List Rec :=
  (List.range k).flatMap fun i =>
    ((sp.getD i []).zip (dp.getD i [])).map fun (s, d) => ⟨i, s.t, s.v, some (d.v, o.vDiff d.v s.v)⟩

/-! ### commands -/

structure Window where
  archiveID : Int
  from_ : Nat
  until_ : Nat      -- 0 = "now"
  now : Nat

def Window.until' (w : Window) : Nat := if w.until_ = 0 then w.now else w.until_

/-- ⟦ViewCommand.execute⟧ (local) -/
def view (o : FOps) (t : Tree) (path : String) (w : Window) : Outcome × Option Header × List Rec :=
  match readFile o t path w.archiveID w.from_ w.until' w.now with
  | .error e => (.ofFault e, none, [])
  | .ok (h, l) => (.ok, some h, recsOf (l.map seriesPoints))

/-- ⟦filterPointsByTimeRange⟧ -/
def filterRaw (a : Arch) (from_ until_ : Nat) (ps : List Point) : List Point :=
  let until_ := if until_ = from_ then tsAdd until_ a.step else until_
  ps.filter fun p => !((from_ ≠ 0 ∧ p.t ≤ from_) ∨ p.t > until_)

def rawAll (h : Handle) : Nat → List Arch → R (List (List Point))
  | _, [] => .ok []
  | i, _ :: as =>
    match h.rawPoints (i : Int) with
    | .error e => .error e
    | .ok ps =>
      match rawAll h (i + 1) as with
      | .error e => .error e
      | .ok rest => .ok (ps :: rest)

/-- ⟦ViewRawCommand.execute⟧ (local); `until_ = 0` means the wall clock -/
def viewRaw (o : FOps) (t : Tree) (path : String) (w : Window) (sort : Bool) : Outcome × Option Header × List Rec :=
  match t.get path with
  | none => (.err .notExist, none, [])
  | some b =>
    match openBytes o b with
    | .error _ => (.err .invalid, none, [])
    | .ok h =>
      let lists : R (List (List Point)) :=
        if w.archiveID = -1 then rawAll h 0 h.archs
        else if 0 ≤ w.archiveID ∧ w.archiveID < h.archs.length then
          match h.rawPoints w.archiveID with
          | .error e => .error e
          | .ok ps => .ok ((List.range h.archs.length).map fun (i : Nat) => if (i : Int) = w.archiveID then ps else [])
        else .error (.err .outOfRange)
      match lists with
      | .error e => (.ofFault e, none, [])
      | .ok pl =>
        let pl := (pl.zip h.archs).map fun (ps, a) => filterRaw a w.from_ w.until' ps
        let pl := if sort then pl.map sortByTime else pl
        (.ok, some h.hdr, recsOf pl)

/-- ⟦DiffCommand.diffOneFile⟧ (local bases); a missing file on either side is a reported difference -/
def diffOne (o : FOps) (t : Tree) (src dst : String) (w : Window) : Outcome × List Rec :=
  let rs := readFile o t src w.archiveID w.from_ w.until' w.now
  let rd := readFile o t dst w.archiveID w.from_ w.until' w.now
  match rs, rd with
  | .error (.err .notExist), _ => (.diffFound, [])
  | _, .error (.err .notExist) => (.diffFound, [])
  | .error e, _ => (.ofFault e, [])
  | _, .error e => (.ofFault e, [])
  | .ok (hs, ls), .ok (hd, ld) =>
    if !layoutsEqual hs.archives hd.archives then (.err .mismatch, [])
    else if !rangesEqual ls ld then (.err .unalike, [])
    else
      let (sp, dp) := diffLists o false ls ld
      if allEmpty sp && allEmpty dp then (.ok, [])
      else (.diffFound, diffRecs o hs.archives.length sp dp)

/-- ⟦updateFileDataWithPointsList⟧ -/
def updateAll (o : FOps) (h : Handle) (now : Nat) : Nat → List (List Point) → R Handle
  | _, [] => .ok h
  | i, ps :: rest =>
    match h.updateMany o ps (i : Int) now with
    | .error e => .error e
    | .ok h' => updateAll o h' now (i + 1) rest

structure CopyOpts where
  agg : Nat
  xff : UInt32
  lay : List (Int × Nat)
  copyNaN : Bool

/-- ⟦openOrCreateCopyDestFile⟧ : returns the tree (a missing destination is created and
    synced at once) and the handle -/
def openOrCreate (o : FOps) (t : Tree) (dst : String) (c : CopyOpts) : R (Tree × Handle) :=
  match newHeader o c.agg c.xff c.lay with
  | .error e => .error e
  | .ok _ =>
    match t.get dst with
    | some b =>
      match openBytes o b with
      | .error _ => .error (.err .invalid)
      | .ok h => .ok (t, h)
    | none =>
      match createHandle o c.agg c.xff c.lay with
      | .error e => .error e
      | .ok (_, h) => .ok (t.set dst h.view, h)

/-- ⟦copyDifferentPoints⟧ (repaired): archive by archive, finest first; a coarser archive
    is compared with the source again just before it is written, because writing a finer
    archive propagates into it.  Returns the points actually written per archive. -/
def copyArchives (o : FOps) (ls : List (Option Series)) (exclNaN : Bool) (w : Window) :
    Handle → Nat → List (List Point) → R (Handle × List (List Point))
  | h, _, [] => .ok (h, [])
  | h, i, ps :: rest =>
    let pts : R (List Point) :=
      match ls.getD i none with
      | none => .ok ps
      | some s =>
        if i = 0 then .ok ps else
        match h.fetchFromArchive (i : Int) w.from_ w.until' w.now with
        | .error e => .error e
        | .ok d => .ok (diffPoints o exclNaN (some s) d).1
    match pts with
    | .error e => .error e
    | .ok pts =>
      match h.updateMany o pts (i : Int) w.now with
      | .error e => .error e
      | .ok h' =>
        match copyArchives o ls exclNaN w h' (i + 1) rest with
        | .error e => .error e
        | .ok (h'', written) => .ok (h'', pts :: written)

/-- the common core of copy and sum-copy once the source series are known -/
def copyCore (o : FOps) (t : Tree) (dst : String) (hd : Handle) (srcArchs : List Arch)
    (ls : List (Option Series)) (w : Window) (exclNaN : Bool) : Tree × Outcome × List Rec :=
  match fetchList hd w.archiveID w.from_ w.until' w.now with
  | .error e => (t, .ofFault e, [])
  | .ok ld =>
    if !layoutsEqual srcArchs hd.archs then (t, .err .mismatch, [])
    else if !rangesEqual ls ld then (t, .err .unalike, [])
    else
      let (sp, dp) := diffLists o exclNaN ls ld
      if allEmpty sp && allEmpty dp then (t, .ok, [])
      else
        -- one batch per archive of the destination, in order
        let batches := (List.range hd.archs.length).map fun i => sp.getD i []
        match copyArchives o ls exclNaN w hd 0 batches with
        | .error e => (t, .ofFault e, [])          -- no Sync: the disk keeps its bytes
        | .ok (hd', written) => (t.set dst hd'.view, .ok, recsOf written)

/-- ⟦CopyCommand.copyOneFile⟧ (local source). The destination is opened or created even
    when reading the source fails (the two run concurrently). -/
def copyOne (o : FOps) (t : Tree) (src dst : String) (c : CopyOpts) (w : Window) : Tree × Outcome × List Rec :=
  match openOrCreate o t dst c with
  | .error e => (t, .ofFault e, [])
  | .ok (t, hd) =>
    match readFile o t src w.archiveID w.from_ w.until' w.now with
    | .error e => (t, .ofFault e, [])
    | .ok (hs, ls) => copyCore o t dst hd hs.archives ls w (!c.copyNaN)

/-- ⟦sumTimeSeriesListForArchive⟧ : column-wise NaN-skipping sum, first file first -/
def sumColumns (o : FOps) : List (List Val) → List Val
  | [] => []
  | first :: rest => rest.foldl (fun acc vs => (acc.zip vs).map fun (a, b) => o.vAdd a b) first

def sumSeries (o : FOps) (k : Nat) (lists : List (List (Option Series))) : List (Option Series) :=
  match lists with
  | [] => []
  | l0 :: _ =>
    (List.range k).map fun i =>
      let ts0 := (l0.getD i none)
      -- every list has `len(ts0.Values())` values at i (ranges were checked equal); a shorter one panics in Go
      some ⟨sFrom ts0, sUntil ts0, sStep ts0, sumColumns o (lists.map fun l => sValues (l.getD i none))⟩

/-- ⟦sumWhisperFileLocal⟧ over the resolved list of files of one item -/
def sumFiles (o : FOps) (t : Tree) (files : List String) (w : Window) : R (Header × List (Option Series)) :=
  if files.isEmpty then .error (.err .notExist) else
  let rec readAll : List String → R (List (Header × List (Option Series)))
    | [] => .ok []
    | f :: fs =>
      match readFile o t f w.archiveID w.from_ w.until' w.now with
      | .error e => .error e
      | .ok r =>
        match readAll fs with
        | .error e => .error e
        | .ok rs => .ok (r :: rs)
  match readAll files with
  | .error e => .error e
  | .ok rs =>
    match rs with
    | [] => .error (.err .notExist)
    | (h0, l0) :: rest =>
      if !(rest.all fun r => layoutsEqual h0.archives r.1.archives) then .error (.err .mismatch)
      else if !(rest.all fun r => rangesEqual l0 r.2) then .error (.err .unalike)
      else .ok (h0, sumSeries o h0.archives.length (rs.map (·.2)))

def sum (o : FOps) (t : Tree) (files : List String) (w : Window) : Outcome × Option Header × List Rec :=
  match sumFiles o t files w with
  | .error e => (.ofFault e, none, [])
  | .ok (h, l) => (.ok, some h, recsOf (l.map seriesPoints))

/-- ⟦SumCopyCommand.sumCopyItem⟧ -/
def sumCopy (o : FOps) (t : Tree) (files : List String) (dst : String) (c : CopyOpts) (w : Window) :
    Tree × Outcome × List Rec :=
  match openOrCreate o t dst c with
  | .error e => (t, .ofFault e, [])
  | .ok (t, hd) =>
    match sumFiles o t files w with
    | .error e => (t, .ofFault e, [])
    | .ok (hs, ls) => copyCore o t dst hd hs.archives ls w false

/-- ⟦SumDiffCommand.sumDiffItem⟧ -/
def sumDiff (o : FOps) (t : Tree) (files : List String) (dst : String) (w : Window) : Outcome × List Rec :=
  let rs := sumFiles o t files w
  let rd := readFile o t dst w.archiveID w.from_ w.until' w.now
  match rs, rd with
  | .error (.err .notExist), _ => (.diffFound, [])
  | _, .error (.err .notExist) => (.diffFound, [])
  | .error e, _ => (.ofFault e, [])
  | _, .error e => (.ofFault e, [])
  | .ok (hs, ls), .ok (hd, ld) =>
    if !layoutsEqual hs.archives hd.archives then (.err .mismatch, [])
    else
      let (sp, dp) := diffLists o false ls ld
      if allEmpty sp && allEmpty dp then (.ok, [])
      else (.diffFound, diffRecs o hs.archives.length sp dp)

/-- ⟦GenerateCommand.execute⟧ : `points` is the randomly generated list of points per
    archive (a universally quantified parameter; `none` = no fill).  Create refuses an
    existing file. -/
def generate (o : FOps) (t : Tree) (dst : String) (c : CopyOpts) (points : Option (List (List Point))) (now : Nat) :
    Tree × Outcome :=
  match t.get dst with
  | some _ => (t, .err .exists_)
  | none =>
    match createHandle o c.agg c.xff c.lay with
    | .error e => (t, .ofFault e)
    | .ok (disk, h) =>
      match points with
      | none => (t.set dst h.view, .ok)
      | some pl =>
        match updateAll o h now 0 pl with
        | .error e => (t.set dst disk, .ofFault e)    -- the file exists with its final length, unsynced
        | .ok h' => (t.set dst h'.view, .ok)

/-! ### glob mode: one command over several files / items -/

/-- ⟦CopyCommand.execute⟧ with a glob: files in order, stop at the first error -/
def copyMany (o : FOps) (c : CopyOpts) (w : Window) : Tree → List (String × String) → Tree × Outcome × List (List Rec)
  | t, [] => (t, .ok, [])
  | t, (s, d) :: rest =>
    match copyOne o t s d c w with
    | (t', .ok, recs) =>
      let (t'', oc, rs) := copyMany o c w t' rest
      (t'', oc, recs :: rs)
    | (t', oc, recs) => (t', oc, [recs])

/-- ⟦DiffCommand.execute⟧ with a glob: every file is compared; one difference makes the
    run report a difference; any other error stops it -/
def diffMany (o : FOps) (t : Tree) (w : Window) : List (String × String) → Bool → Outcome × List (List Rec)
  | [], found => (if found then .diffFound else .ok, [])
  | (s, d) :: rest, found =>
    match diffOne o t s d w with
    | (.ok, recs) => let (oc, rs) := diffMany o t w rest found; (oc, recs :: rs)
    | (.diffFound, recs) => let (oc, rs) := diffMany o t w rest true; (oc, recs :: rs)
    | (oc, recs) => (oc, [recs])

def sumCopyMany (o : FOps) (c : CopyOpts) (w : Window) : Tree → List (List String × String) → Tree × Outcome × List (List Rec)
  | t, [] => (t, .ok, [])
  | t, (fs, d) :: rest =>
    match sumCopy o t fs d c w with
    | (t', .ok, recs) =>
      let (t'', oc, rs) := sumCopyMany o c w t' rest
      (t'', oc, recs :: rs)
    | (t', oc, recs) => (t', oc, [recs])

def sumDiffMany (o : FOps) (t : Tree) (w : Window) : List (List String × String) → Bool → Outcome × List (List Rec)
  | [], found => (if found then .diffFound else .ok, [])
  | (fs, d) :: rest, found =>
    match sumDiff o t fs d w with
    | (.ok, recs) => let (oc, rs) := sumDiffMany o t w rest found; (oc, recs :: rs)
    | (.diffFound, recs) => let (oc, rs) := sumDiffMany o t w rest true; (oc, recs :: rs)
    | (oc, recs) => (oc, [recs])

end Wsp.Cmd
