/-
  ⟦Create⟧ with an open flag that allows an existing file (no O_EXCL, no O_TRUNC): the file
  is cut or extended to the size of the new layout at once — what it held inside that size
  stays on the disk — and the header goes to the buffer only.
-/
import Wsp.Model.Whisper
namespace Wsp

def recreateHandle (o : FOps) (agg : Nat) (xff : UInt32) (lay : List (Int × Nat)) (old : Bytes) : R (Bytes × Handle) :=
  match newHeader o agg xff lay with
  | .error e => .error e
  | .ok h =>
    let size := h.expectedFileSize
    let disk : Bytes := old.take size ++ List.replicate (size - old.length) 0
    match writeAt disk 0 (encHeader h) with
    | .error e => .error e
    | .ok view => .ok (disk, ⟨h, view⟩)

end Wsp
