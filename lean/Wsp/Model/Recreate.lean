/-
  ⟦Create⟧ with an open flag that allows an existing file: `recreateHandle` lives with the
  file/handle state machine (Model/World.lean, operation `createOver`).
-/
import Wsp.Model.World
