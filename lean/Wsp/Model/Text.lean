/-
  Text syntax (timestamp.go, archive_info.go, aggregationmethod_enumer.go):
  durations, retention lists, timestamps, method names.  Strings are `List Char`
  (Go strings are bytes; the driver maps byte b to `Char.ofNat b`).
-/
import Wsp.Model.Codec
namespace Wsp

abbrev Str := List Char

def isDigit (c : Char) : Bool := '0' ≤ c && c ≤ '9'
def digitVal (c : Char) : Nat := c.toNat - 48

def digitChar (k : Nat) : Char := Char.ofNat (48 + k)

/-- `%d` of a natural number, most significant digit first. -/
def showNat (n : Nat) : Str :=
  if h : n < 10 then [digitChar n] else showNat (n / 10) ++ [digitChar (n % 10)]
termination_by n
decreasing_by omega

def showInt (i : Int) : Str :=
  if i < 0 then '-' :: showNat (-i).toNat else showNat i.toNat

/-- the table of ⟦unitMultiplier⟧ (tied to the source by `Props/FactsTie.lean`). -/
def unitTable : List (Char × Int) :=
  [('s', 1), ('m', 60), ('h', 3600), ('d', 86400), ('w', 604800), ('y', 31536000)]

/-- the case order of ⟦Duration.String⟧ (largest unit first; seconds is the default). -/
def printTable : List (Int × Char) :=
  [(31536000, 'y'), (604800, 'w'), (86400, 'd'), (3600, 'h'), (60, 'm')]

/-- ⟦leadingInt⟧ : the digit loop with the two int32 overflow tests as written.
    Returns the value, the number of digits consumed and the remainder. -/
def leadingIntLoop : Int → Nat → Str → Option (Int × Nat × Str)
  | x, i, [] => some (x, i, [])
  | x, i, c :: cs =>
    if !isDigit c then some (x, i, c :: cs) else
    if x > 214748364 then none else
    let x := i32 (x * 10 + (digitVal c : Int))
    if x < 0 then none else leadingIntLoop x (i + 1) cs

def leadingInt (s : Str) : Option (Int × Str) :=
  match leadingIntLoop 0 0 s with
  | none => none
  | some (x, i, rem) => if x = 0 ∧ i ≠ 1 then none else some (x, rem)

/-- ⟦unitMultiplier⟧ -/
def unitMultiplier (c : Char) : Option Int := unitTable.lookup c

/-- ⟦ParseDuration⟧ -/
def parseDuration (s : Str) : Option Int :=
  match leadingInt s with
  | none => none
  | some (x, rem) =>
    match rem with
    | [c] =>
      match unitMultiplier c with
      | none => none
      | some unit =>
        if x > Int.tdiv 2147483647 unit then none else
        let d := i32 (x * unit)
        if d < 0 then none else some d
    | _ => none

/-- ⟦Duration.String⟧ -/
def durationStringAux (d : Int) : List (Int × Char) → Str
  | [] => showInt d ++ ['s']
  | (u, c) :: rest => if Int.tmod d u = 0 then showInt (Int.tdiv d u) ++ [c] else durationStringAux d rest

def durationString (d : Int) : Str :=
  if d = 0 then ['0', 's'] else durationStringAux d printTable

/-- split at the first occurrence of `c` : (before, after) or none -/
def splitAt1 (c : Char) : Str → Option (Str × Str)
  | [] => none
  | x :: xs => if x = c then some ([], xs) else
      match splitAt1 c xs with
      | none => none
      | some (a, b) => some (x :: a, b)

/-- ⟦ParseArchiveInfo⟧ : (step, numberOfPoints) -/
def parseArchiveInfo (s : Str) : Option (Int × Nat) :=
  match splitAt1 ':' s with
  | none => none
  | some (a, b) =>
    if b.length = 0 then none else
    match parseDuration a, parseDuration b with
    | some step, some d =>
      if step ≤ 0 ∨ d ≤ 0 ∨ Int.tmod d step ≠ 0 then none
      else some (step, u32 (Int.tdiv d step))
    | _, _ => none

/-- the splitting loop of ⟦ParseArchiveInfoList⟧ (fuel = length of the string) -/
def parseArchiveInfosLoop : Nat → Str → Option (List (Int × Nat))
  | 0, _ => none
  | fuel+1, s =>
    match splitAt1 ',' s with
    | none => (parseArchiveInfo s).map fun a => [a]
    | some (a, rest) =>
      match parseArchiveInfo a with
      | none => none
      | some ai =>
        if rest.length = 0 then none else
        (parseArchiveInfosLoop fuel rest).map fun l => ai :: l

/-- ⟦ParseArchiveInfoList⟧ : parse, fill offsets, validate. -/
def parseArchiveInfoList (s : Str) : Option (List Arch) :=
  if s.length = 0 then none else
  match parseArchiveInfosLoop (s.length + 1) s with
  | none => none
  | some l =>
    let as := fillOffsets (l.map fun (st, n) => ⟨0, st, n⟩)
    if validateArchs as then some as else none

/-- ⟦ArchiveInfo.String⟧ -/
def archString (a : Arch) : Str :=
  durationString a.step ++ [':'] ++ durationString (i32 (a.step * i32 (a.n : Int)))

/-- ⟦ArchiveInfoList.String⟧ -/
def archsString : List Arch → Str
  | [] => []
  | [a] => archString a
  | a :: as => archString a ++ [','] ++ archsString as

/-! ### timestamps: civil calendar model of the fixed layout `2006-01-02T15:04:05Z` -/

/-- days since 1970-01-01 → (year, month, day)  (proleptic Gregorian; Hinnant's algorithm) -/
def civilFromDays (z : Nat) : Nat × Nat × Nat :=
  let z := z + 719468
  let era := z / 146097
  let doe := z - era * 146097
  let yoe := (doe - doe / 1460 + doe / 36524 - doe / 146096) / 365
  let y := yoe + era * 400
  let doy := doe - (365 * yoe + yoe / 4 - yoe / 100)
  let mp := (5 * doy + 2) / 153
  let d := doy - (153 * mp + 2) / 5 + 1
  let m := if mp < 10 then mp + 3 else mp - 9
  (if m ≤ 2 then y + 1 else y, m, d)

/-- (year, month, day) → days since 1970-01-01 (as an Int: years before 1970 are negative) -/
def daysFromCivil (y m d : Nat) : Int :=
  let y : Int := if m ≤ 2 then (y : Int) - 1 else y
  let era : Int := (if y ≥ 0 then y else y - 399) / 400
  let yoe : Int := y - era * 400
  let mp : Int := if m > 2 then (m : Int) - 3 else (m : Int) + 9
  let doy : Int := (153 * mp + 2) / 5 + (d : Int) - 1
  let doe : Int := yoe * 365 + yoe / 4 - yoe / 100 + doy
  era * 146097 + doe - 719468

def pad (w : Nat) (s : Str) : Str := List.replicate (w - s.length) '0' ++ s

/-- ⟦Timestamp.String⟧ -/
def timestampString (t : Nat) : Str :=
  let (y, m, d) := civilFromDays (t / 86400)
  let sod := t % 86400
  pad 4 (showNat y) ++ ['-'] ++ pad 2 (showNat m) ++ ['-'] ++ pad 2 (showNat d) ++ ['T'] ++
  pad 2 (showNat (sod / 3600)) ++ [':'] ++ pad 2 (showNat (sod / 60 % 60)) ++ [':'] ++
  pad 2 (showNat (sod % 60)) ++ ['Z']

def isLeap (y : Nat) : Bool := y % 4 = 0 && (y % 100 ≠ 0 || y % 400 = 0)

def daysIn (y m : Nat) : Nat :=
  match m with
  | 2 => if isLeap y then 29 else 28
  | 4 => 30 | 6 => 30 | 9 => 30 | 11 => 30
  | _ => 31

/-- exactly `k` digits -/
def takeDigits : Nat → Str → Option (Nat × Str)
  | 0, s => some (0, s)
  | k+1, c :: cs =>
    if isDigit c then
      match takeDigits k cs with
      | some (v, r) => some (digitVal c * 10 ^ k + v, r)
      | none => none
    else none
  | _+1, [] => none

def expect (c : Char) : Str → Option Str
  | x :: xs => if x = c then some xs else none
  | [] => none

/-- Go's `getnum(s, false)`: one or two digits -/
def takeNum12 : Str → Option (Nat × Str)
  | a :: b :: r => if isDigit a then
      (if isDigit b then some (digitVal a * 10 + digitVal b, r) else some (digitVal a, b :: r)) else none
  | [a] => if isDigit a then some (digitVal a, []) else none
  | [] => none

/-- skip an optional fractional second `[.,]digit+` (time.Parse accepts it after `05`) -/
def skipFraction : Str → Str
  | c :: d :: r =>
    if (c = '.' ∨ c = ',') ∧ isDigit d then (d :: r).dropWhile isDigit else c :: d :: r
  | s => s

/-- the instant denoted by a string in the fixed layout, in seconds since the epoch
    (an Int: the caller applies the range check); `none` when time.Parse rejects it. -/
def parseCivil (s : Str) : Option Int := do
  let (y, s) ← takeDigits 4 s
  let s ← expect '-' s
  let (m, s) ← takeDigits 2 s
  let s ← expect '-' s
  let (d, s) ← takeDigits 2 s
  let s ← expect 'T' s
  let (hh, s) ← takeNum12 s
  let s ← expect ':' s
  let (mm, s) ← takeDigits 2 s
  let s ← expect ':' s
  let (ss, s) ← takeDigits 2 s
  let s := skipFraction s
  let s ← expect 'Z' s
  if s.length ≠ 0 then none
  if m < 1 ∨ m > 12 ∨ d < 1 ∨ d > daysIn y m ∨ hh ≥ 24 ∨ mm ≥ 60 ∨ ss ≥ 60 then none
  return daysFromCivil y m d * 86400 + (hh * 3600 + mm * 60 + ss : Nat)

/-- ⟦ParseTimestamp⟧ (repaired: instants outside the uint32 range are rejected) -/
def parseTimestamp (s : Str) : Option Nat :=
  match parseCivil s with
  | none => none
  | some sec => if sec < 0 ∨ sec > 4294967295 then none else some sec.toNat

/-! ### aggregation method names (enumer tables) -/

def aggNameTable : List (Nat × String) :=
  [(1, "average"), (2, "sum"), (3, "last"), (4, "max"), (5, "min"), (6, "first"), (7, "mix"), (8, "percentile")]

/-- ⟦AggregationMethod.String⟧ for the listed values -/
def aggName (m : Nat) : Option String := aggNameTable.lookup m

/-- ⟦AggregationMethodString⟧ -/
def aggParse (s : String) : Option Nat := (aggNameTable.find? fun p => p.2 = s).map (·.1)

/-- the `-agg-method` flag: only the six storable methods -/
def aggFlagParse (s : String) : Option Nat :=
  match aggParse s with
  | some m => if validAgg m then some m else none
  | none => none

end Wsp
