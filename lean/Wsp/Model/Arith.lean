/-
  Integer arithmetic of whispertool, modelled faithfully (DESIGN §3.2).

  Go types:  Timestamp = uint32   ↦ Nat (kept < 2^32 by `u32`)
             Duration  = int32    ↦ Int (kept in [-2^31, 2^31) by `i32`)
             offsets   = uint32, sizes = int / int64 (64-bit `int` assumed)
  `⟦f⟧` in a comment means "mirrors Go function f".
-/
namespace Wsp

/-- conversion to `uint32` (and `Timestamp`). -/
def u32 (x : Int) : Nat := (x % 4294967296).toNat

/-- conversion to `int32` (and `Duration`). -/
def i32 (x : Int) : Int := (x + 2147483648) % 4294967296 - 2147483648

/-- conversion to `int64` / `int`. -/
def i64 (x : Int) : Int := (x + 9223372036854775808) % 18446744073709551616 - 9223372036854775808

/-- ⟦floorMod⟧ (floor_mod.go): Go's truncated `%` followed by the sign fix-up.
    Operands are int64; all call sites pass magnitudes < 2^33, so no wrap. -/
def floorMod (x y : Int) : Int :=
  let m := Int.tmod x y
  if m = 0 ∨ ((x ≥ 0 ∧ y > 0) ∨ (x < 0 ∧ y < 0)) then m else m + y

/-- ⟦Timestamp.Add⟧ – both branches are `uint32` wrap-around of `t + d`. -/
def tsAdd (t : Nat) (d : Int) : Nat := u32 ((t : Int) + d)

/-- ⟦Timestamp.Sub⟧ – both branches are the `int32` wrap-around of `t - u`. -/
def tsSub (t u : Nat) : Int := i32 ((t : Int) - (u : Int))

/-- ⟦Timestamp.Truncate⟧ -/
def tsTruncate (t : Nat) (d : Int) : Nat :=
  if d ≤ 0 then t else tsAdd t (- i32 (Int.tmod (t : Int) d))

/-- An archive descriptor ⟦ArchiveInfo⟧. -/
structure Arch where
  offset : Nat      -- uint32
  step   : Int      -- int32 (secondsPerPoint)
  n      : Nat      -- uint32 (numberOfPoints)
  deriving Repr, DecidableEq, Inhabited

def pointSize : Nat := 12
def metaSize : Nat := 16
def archiveInfoSize : Nat := 12

/-- ⟦ArchiveInfo.MaxRetention⟧ : `secondsPerPoint * Duration(numberOfPoints)` in int32. -/
def Arch.maxRetention (a : Arch) : Int := i32 (a.step * i32 (a.n : Int))

/-- ⟦ArchiveInfo.interval⟧ : int64 inside, converted to Timestamp. -/
def Arch.interval (a : Arch) (t : Nat) : Nat :=
  u32 ((t : Int) - floorMod (t : Int) a.step + a.step)

/-- ⟦ArchiveInfo.intervalForWrite⟧ -/
def Arch.intervalForWrite (a : Arch) (t : Nat) : Nat :=
  u32 ((t : Int) - floorMod (t : Int) a.step)

/-- ⟦ArchiveInfo.pointIndex⟧ : Go `/` truncates; result is `int`. -/
def Arch.pointIndex (a : Arch) (base iv : Nat) : Int :=
  floorMod (Int.tdiv (tsSub iv base) a.step) (a.n : Int)

/-- ⟦ArchiveInfo.pointOffsetAt⟧ : `a.offset + uint32(index)*pointSize` in uint32. -/
def Arch.pointOffsetAt (a : Arch) (idx : Int) : Nat :=
  u32 ((a.offset : Int) + (u32 ((u32 idx : Int) * 12) : Int))

end Wsp
