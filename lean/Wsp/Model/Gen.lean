/-
  ⟦randomPointsList⟧ and its helpers (cmd/generate.go): the points `generate` writes, with the
  random stream as a parameter — `draws` is the list of numbers the generator will return,
  each reduced to the range asked for (`Intn(k+1)` = next draw mod (k+1); an exhausted list
  draws 0).  Values are natural numbers (the code converts each `rnd.Intn` result and each
  sum to float64; below 2^53 that is exact).  Times are ideal naturals: the model is the
  code inside the zone where no uint32 subtraction wraps (the clock at or past every
  retention, before 2038), which is where the correspondence check drives it.
-/
namespace Wsp.Gen

structure GA where
  step : Nat
  n : Nat
  deriving Repr, DecidableEq

structure GP where
  t : Nat
  v : Nat
  deriving Repr, DecidableEq

/-- ⟦rnd.Intn(k + 1)⟧ on the given stream -/
def draw : List Nat → Nat → Nat × List Nat
  | [], _ => (0, [])
  | d :: ds, k => (d % (k + 1), ds)

/-- ⟦Timestamp.Truncate⟧ -/
def trunc (t s : Nat) : Nat := if s = 0 then t else t - t % s

/-- the loop of ⟦randomValWithHighSum⟧: finer points before the slot are skipped, the first
    one after it ends the loop -/
def highSum (step t : Nat) : List GP → Nat
  | [] => 0
  | hp :: rest =>
    if trunc hp.t step < t then highSum step t rest
    else if trunc hp.t step > t then 0
    else hp.v + highSum step t rest

/-- what is known of the next finer archive: its step, its bound and its points -/
structure High where
  step : Nat
  rndMax : Nat
  pts : List GP
  deriving Repr

/-- ⟦randomValWithHighSum⟧ -/
def valWithHighSum (t step : Nat) (hi : High) (ds : List Nat) : Nat × List Nat :=
  let v := highSum step t hi.pts
  match hi.pts with
  | [] => (v, ds)
  | hp0 :: _ =>
    if t ≥ hp0.t then (v, ds)
    else
      let n := (hp0.t - t) / hi.step
      let (d, ds') := draw ds hi.rndMax
      (v + n * d, ds')

/-- the value ⟦randomPoints⟧ gives the point at `t`: random below the finer archive's first
    slot (or without a finer archive), otherwise computed from the finer points -/
def pointVal (step hst rndMax : Nat) (hi : Option High) (t : Nat) (ds : List Nat) : Nat × List Nat :=
  if hst = 0 ∨ t < hst then draw ds rndMax
  else
    match hi with
    | some h => valWithHighSum t step h ds
    | none => draw ds rndMax

/-- the loop of ⟦randomPoints⟧, `m` points still to come: the next one is `m - 1` steps
    before `thisUntil` -/
def pointsLoop (step thisUntil hst rndMax : Nat) (hi : Option High) : Nat → List Nat → List GP × List Nat
  | 0, ds => ([], ds)
  | m + 1, ds =>
    let t := thisUntil - m * step
    let r := pointVal step hst rndMax hi t ds
    let rest := pointsLoop step thisUntil hst rndMax hi m r.2
    (⟨t, r.1⟩ :: rest.1, rest.2)

/-- ⟦randomPoints⟧; `none` = the code indexes an empty slice of finer points (a panic) -/
def randomPoints (a : GA) (hi : Option High) (rndMax until_ now : Nat) (ds : List Nat) :
    Option (List GP × List Nat) :=
  let thisNow := trunc now a.step
  let thisUntil := trunc until_ a.step
  let hst : Option Nat :=
    match hi with
    | none => some 0
    | some h =>
      match h.pts with
      | [] => none
      | hp0 :: _ => some (if hp0.t ≤ thisUntil then trunc hp0.t a.step else 0)
  match hst with
  | none => none
  | some hst =>
    let n := (a.step * a.n - (thisNow - thisUntil)) / a.step
    some (pointsLoop a.step thisUntil hst rndMax hi n ds)

/-- ⟦randomPointsList⟧ from archive `i` on -/
def pointsListFrom (s0 max until_ now : Nat) : List GA → Option High → List Nat → Option (List (List GP))
  | [], _, _ => some []
  | a :: as, hi, ds =>
    let rndMax := max * a.step / s0
    match randomPoints a hi rndMax until_ now ds with
    | none => none
    | some (pts, ds') =>
      match pointsListFrom s0 max until_ now as (some ⟨a.step, rndMax, pts⟩) ds' with
      | none => none
      | some rest => some (pts :: rest)

def pointsList (as : List GA) (max until_ now : Nat) (ds : List Nat) : Option (List (List GP)) :=
  match as with
  | [] => some []
  | a0 :: _ => pointsListFrom a0.step max until_ now as none ds

end Wsp.Gen
