/-
  The library (whisper.go, archive_info.go) over a byte view: one definition per Go
  function, same control flow (DESIGN A.3), as repaired by the `fix:` commits.

  `Handle.view` is what the handle sees through the page buffer; the disk is kept
  apart (`World`) and only `sync` copies view to disk (filebuffer is modelled, not
  verified: whole dirty pages are written, and a page's buffer equals the disk
  content at load time overlaid with the writes, i.e. the view).
-/
import Wsp.Model.Codec
namespace Wsp

structure Handle where
  hdr  : Header
  view : Bytes
  deriving Repr, DecidableEq, Inhabited

/-! ### byte access through the buffer ⟦filebuffer.ReadAt/WriteAt⟧ -/

def readAt (view : Bytes) (off len : Nat) : R Bytes :=
  if off + len > view.length then .error (.err .io) else .ok ((view.drop off).take len)

def writeAt (view : Bytes) (off : Nat) (bs : Bytes) : R Bytes :=
  if off + bs.length > view.length then .error (.err .io)
  else .ok (view.take off ++ bs ++ view.drop (off + bs.length))

namespace Handle
variable (o : FOps)

def archs (h : Handle) : List Arch := h.hdr.archives

/-- ⟦Whisper.baseInterval⟧ : the interval stored in the archive's first slot -/
def baseInterval (h : Handle) (a : Arch) : R Nat :=
  match readAt h.view a.offset 4 with
  | .error e => .error e
  | .ok b => .ok (de32 b)

/-- ⟦Whisper.readPointAt⟧ -/
def readPointAt (h : Handle) (off : Nat) : R Point :=
  match readAt h.view off 12 with
  | .error e => .error e
  | .ok b => .ok ⟨de32 b, de64 (b.drop 4)⟩

/-- ⟦Whisper.putPointAt⟧ -/
def putPointAt (h : Handle) (p : Point) (off : Nat) : R Handle :=
  match writeAt h.view off (encPoint p) with
  | .error e => .error e
  | .ok v => .ok { h with view := v }

/-- offsets `from, from+12, … < until` (the `for off := from; off < until; off += pointSize` loops) -/
def offsRange (from_ until_ : Nat) : List Nat :=
  (List.range ((until_ - from_ + 11) / 12)).map fun j => from_ + 12 * j

def readPoints (h : Handle) : List Nat → R (List Point)
  | [] => .ok []
  | off :: offs =>
    match h.readPointAt off with
    | .error e => .error e
    | .ok p =>
      match readPoints h offs with
      | .error e => .error e
      | .ok ps => .ok (p :: ps)

/-- ⟦Whisper.GetAllRawUnsortedPoints⟧ (an id outside the list indexes out of range) -/
def rawPoints (h : Handle) (k : Int) : R (List Point) :=
  if k < 0 then .error (.panic "index out of range") else
  match h.archs[k.toNat]? with
  | none => .error (.panic "index out of range")
  | some a => h.readPoints ((List.range a.n).map fun j => a.offset + 12 * j)

/-- the offsets the two-branch loop of ⟦Whisper.fetchRawPoints⟧ reads, in order -/
def rawOffsets (a : Arch) (base fromI untilI : Nat) : List Nat :=
  let fromOff := a.pointOffsetAt (a.pointIndex base fromI)
  let untilOff := a.pointOffsetAt (a.pointIndex base untilI)
  if fromOff < untilOff then offsRange fromOff untilOff
  else
    let arcStart := a.offset
    let arcEnd := u32 ((arcStart : Int) + (u32 ((a.n : Int) * 12) : Int))
    offsRange fromOff arcEnd ++ offsRange arcStart untilOff

/-- ⟦Whisper.fetchRawPoints⟧ : allocate `count` points, then fill them by the two-branch
    loop.  Reading more than `count` is an error (repaired: it was an index panic; it
    happens only when the stored base interval is misaligned); fewer leaves zero points. -/
def fetchRawPoints (h : Handle) (a : Arch) (fromI untilI : Nat) : R (List Point) :=
  match h.baseInterval a with
  | .error e => .error e
  | .ok base =>
    let count := Int.tdiv (tsSub untilI fromI) a.step
    if count < 0 then .error (.panic "makeslice: len out of range") else
    let offs := rawOffsets a base fromI untilI
    if offs.length > count.toNat then .error (.err .invalid) else
    match h.readPoints offs with
    | .error e => .error e
    | .ok pts => .ok (pts ++ List.replicate (count.toNat - offs.length) ⟨0, zeroBits⟩)

/-- ⟦clearOldPoints⟧ -/
def clearOldPoints (step : Int) : Nat → List Point → List Point
  | _, [] => []
  | cur, p :: ps =>
    (if p.t ≠ cur then ⟨cur, nanBits⟩ else p) :: clearOldPoints step (tsAdd cur step) ps

/-- ⟦Whisper.findBestArchive⟧ : index of the first archive with retention ≥ now − t, else the last -/
def findBestFrom (diff : Int) : Nat → List Arch → Nat
  | i, [] => i - 1
  | i, a :: as => if a.maxRetention ≥ diff then i else
      match as with
      | [] => i
      | _ => findBestFrom diff (i + 1) as

def findBestArchive (h : Handle) (t now : Nat) : Nat :=
  findBestFrom (tsSub now t) 0 h.archs

/-- what a fetch will read: decided by layout, window and clock alone -/
structure FetchPlan where
  id : Nat
  a : Arch
  fromI : Nat
  untilI : Nat
  deriving Repr, DecidableEq

/-- the first half of ⟦Whisper.FetchFromArchive⟧: argument checks, archive selection,
    clamping and alignment.  `k = -1` is "best"; `now ≠ 0` (the harness never passes 0). -/
def fetchPlan (archs : List Arch) (k : Int) (from_ until_ now : Nat) : R (Option FetchPlan) :=
  if from_ > until_ then .error (.err .rangeError) else
  if (k ≠ -1 ∧ k < 0) ∨ (archs.length : Int) - 1 < k then .error (.err .outOfRange) else
  let id : Nat := if k = -1 then findBestFrom (tsSub now from_) 0 archs else k.toNat
  match archs[id]? with
  | none => .error (.panic "index out of range")
  | some a =>
    let oldest := tsAdd now (- a.maxRetention)
    if from_ > now then .ok none else
    if until_ < oldest then .ok none else
    let from_ := if from_ < oldest then oldest else from_
    let until_ := if until_ > now then now else until_
    let fromI := a.interval from_
    let untilI := a.interval until_
    let untilI := if fromI = untilI then tsAdd untilI a.step else untilI
    .ok (some ⟨id, a, fromI, untilI⟩)

/-- the second half: read the base interval, then either the all-NaN series of a
    never-written archive or the ring slots with stale laps blanked -/
def fetchExec (h : Handle) (p : FetchPlan) : R Series :=
  match h.baseInterval p.a with
  | .error e => .error e
  | .ok base =>
    if base = 0 then
      -- `(untilInterval-fromInterval)/Timestamp(step)` in uint32
      let cnt := u32 ((p.untilI : Int) - (p.fromI : Int)) / u32 p.a.step
      .ok ⟨p.fromI, p.untilI, p.a.step, List.replicate cnt nanBits⟩
    else
      match h.fetchRawPoints p.a p.fromI p.untilI with
      | .error e => .error e
      | .ok pts => .ok ⟨p.fromI, p.untilI, p.a.step, (clearOldPoints p.a.step p.fromI pts).map (·.v)⟩

/-- ⟦Whisper.FetchFromArchive⟧ -/
def fetchFromArchive (h : Handle) (k : Int) (from_ until_ now : Nat) : R (Option Series) :=
  match fetchPlan h.archs k from_ until_ now with
  | .error e => .error e
  | .ok none => .ok none
  | .ok (some p) =>
    match h.fetchExec p with
    | .error e => .error e
    | .ok s => .ok (some s)

/-- ⟦Whisper.getPointOffset⟧ -/
def getPointOffset (h : Handle) (start : Nat) (a : Arch) : R Nat :=
  match h.baseInterval a with
  | .error e => .error e
  | .ok base => if base = 0 then .ok a.offset else .ok (a.pointOffsetAt (a.pointIndex base start))

/-- ⟦filterValidValues⟧ -/
def filterValid (step : Int) : Nat → List Point → List Val
  | _, [] => []
  | cur, p :: ps =>
    let rest := filterValid step (tsAdd cur step) ps
    if p.t = cur then p.v :: rest else rest

/-- ⟦aggregate⟧ ; methods 1..6 = average, sum, last, max, min, first. -/
def aggregate (m : Nat) (vs : List Val) : R Val :=
  match m with
  | 1 => .ok (o.divNat (o.sum vs) vs.length)
  | 2 => .ok (o.sum vs)
  | 3 => match vs.getLast? with
         | some v => .ok v
         | none => .error (.panic "index out of range")
  | 4 => match vs with
         | [] => .error (.panic "index out of range")
         | v :: _ => .ok (vs.foldl (fun mx x => if o.lt mx x then x else mx) v)
  | 5 => match vs with
         | [] => .error (.panic "index out of range")
         | v :: _ => .ok (vs.foldl (fun mn x => if o.lt x mn then x else mn) v)
  | 6 => match vs with
         | [] => .error (.panic "index out of range")
         | v :: _ => .ok v
  | _ => .error (.panic "Invalid aggregation method")

/-- ⟦ArchiveInfo.timesToPropagate⟧ : aligned times, consecutive duplicates dropped -/
def timesToPropagate (a : Arch) : List Nat → List Nat → List Nat
  | acc, [] => acc.reverse
  | acc, t :: ts =>
    let t' := a.intervalForWrite t
    match acc with
    | last :: _ => if t' = last then timesToPropagate a acc ts else timesToPropagate a (t' :: acc) ts
    | [] => timesToPropagate a [t'] ts

/-- one iteration of the loop in ⟦Whisper.propagate⟧; returns the handle and whether the
    slot was stored. -/
def propagateOne (h : Handle) (a aHigh : Arch) (t : Nat) : R (Handle × Bool) :=
  match h.fetchRawPoints aHigh t (tsAdd t a.step) with
  | .error e => .error e
  | .ok pts =>
    let vals := filterValid aHigh.step (aHigh.intervalForWrite t) pts
    if vals.length = 0 then .ok (h, false) else
    if o.xffLess vals.length pts.length h.hdr.xff then .ok (h, false) else
    match aggregate o h.hdr.agg vals with
    | .error e => .error e
    | .ok v =>
      match h.getPointOffset t a with
      | .error e => .error e
      | .ok off =>
        match h.putPointAt ⟨t, v⟩ off with
        | .error e => .error e
        | .ok h' => .ok (h', true)

/-- ⟦Whisper.propagate⟧ : returns the times to propagate further (reversed accumulator). -/
def propagateLoop (h : Handle) (a aHigh : Arch) (aLow : Option Arch) :
    List Nat → List Nat → R (Handle × List Nat)
  | acc, [] => .ok (h, acc.reverse)
  | acc, t :: ts =>
    match propagateOne o h a aHigh t with
    | .error e => .error e
    | .ok (h, stored) =>
      let acc :=
        if stored then
          match aLow with
          | none => acc
          | some l =>
            let tLow := l.intervalForWrite t
            match acc with
            | last :: _ => if last = tLow then acc else tLow :: acc
            | [] => [tLow]
        else acc
      propagateLoop h a aHigh aLow acc ts

def propagate (h : Handle) (k : Nat) (ts : List Nat) : R (Handle × List Nat) :=
  if ts.length = 0 then .ok (h, []) else
  match h.archs[k]?, h.archs[k - 1]? with
  | some a, some aHigh =>
    match h.baseInterval a with       -- read first; an I/O error surfaces here
    | .error e => .error e
    | .ok _ => propagateLoop o h a aHigh h.archs[k + 1]? [] ts
  | _, _ => .error (.panic "index out of range")

/-- ⟦Whisper.propagateChain⟧ : `fuel` is the number of archives (the Go loop is bounded by it). -/
def propagateChainLoop : Nat → Handle → Nat → List Nat → R Handle
  | 0, h, _, _ => .ok h
  | fuel+1, h, low, ts =>
    if low < h.archs.length ∧ ts.length > 0 then
      match propagate o h low ts with
      | .error e => .error e
      | .ok (h, ts) => propagateChainLoop fuel h (low + 1) ts
    else .ok h

def propagateChain (h : Handle) (k : Nat) (aligned : List Point) : R Handle :=
  let low := k + 1
  match h.archs[low]? with
  | none => .ok h
  | some aLow =>
    let ts := timesToPropagate aLow [] (aligned.map (·.t))
    propagateChainLoop o h.archs.length h low ts

/-- ⟦Whisper.UpdatePointForArchive⟧ -/
def updatePoint (h : Handle) (k : Int) (t : Nat) (v : Val) (now : Nat) : R Handle :=
  if t ≤ tsAdd now (- h.hdr.maxRet) ∨ now < t then .error (.err .notCovered) else
  let id : Int := if k = -1 then (h.findBestArchive t now : Int) else k
  if id < 0 then .error (.panic "index out of range") else
  match h.archs[id.toNat]? with
  | none => .error (.panic "index out of range")
  | some a =>
    let myI := a.intervalForWrite t
    match h.getPointOffset myI a with
    | .error e => .error e
    | .ok off =>
      match h.putPointAt ⟨myI, v⟩ off with
      | .error e => .error e
      | .ok h' => propagateChain o h' id.toNat [⟨myI, v⟩]

/-- `sort.Stable(Points(points))` modelled as insertion sort by time (stable). -/
def insertByTime (p : Point) : List Point → List Point
  | [] => [p]
  | q :: qs => if p.t < q.t then p :: q :: qs else q :: insertByTime p qs

def sortByTime (ps : List Point) : List Point :=
  ps.foldl (fun acc p => insertByTime p acc) []

/-- ⟦extractPoints⟧ (repaired) on a time-sorted list: scanning from the end, the points
    after the last one with `t ≤ maxAge` are current, the rest remain. -/
def extractPoints (ps : List Point) (now : Nat) (ret : Int) : List Point × List Point :=
  let maxAge := tsAdd now (- ret)
  -- index of the last point with t ≤ maxAge, scanning from the end
  let rev := ps.reverse
  let cur := rev.takeWhile (fun p => ¬ p.t ≤ maxAge)
  if cur.length = ps.length then (ps, [])
  else (cur.reverse, (rev.drop cur.length).reverse)

/-- ⟦ArchiveInfo.alignPoints⟧ : compares the raw time of the current point with the
    aligned time of the previous kept one. -/
def alignPointsLoop (a : Arch) : List Point → Nat → Bool → List Point → List Point
  | acc, _, _, [] => acc.reverse
  | acc, prev, first, p :: ps =>
    let d : Point := ⟨a.intervalForWrite p.t, p.v⟩
    if !first ∧ p.t = prev then
      match acc with
      | last :: acc' => alignPointsLoop a (⟨last.t, d.v⟩ :: acc') prev false ps
      | [] => alignPointsLoop a acc prev false ps      -- unreachable
    else alignPointsLoop a (d :: acc) d.t false ps

def alignPoints (a : Arch) (ps : List Point) : List Point :=
  alignPointsLoop a [] 0 true ps

def putPoints (h : Handle) (a : Arch) (base : Nat) : List Point → R Handle
  | [] => .ok h
  | p :: ps =>
    match h.putPointAt p (a.pointOffsetAt (a.pointIndex base p.t)) with
    | .error e => .error e
    | .ok h' => putPoints h' a base ps

/-- ⟦Whisper.archiveUpdateMany⟧ -/
def archiveUpdateMany (h : Handle) (ps : List Point) (k : Nat) : R Handle :=
  match h.archs[k]? with
  | none => .error (.panic "index out of range")
  | some a =>
    let aligned := alignPoints a ps
    match h.baseInterval a with
    | .error e => .error e
    | .ok base0 =>
      match (if base0 = 0 then aligned.head?.map (·.t) else some base0) with
      | none => .error (.panic "index out of range")
      | some base =>
        match putPoints h a base aligned with
        | .error e => .error e
        | .ok h' => propagateChain o h' k aligned

/-- ⟦Whisper.UpdatePointsForArchive⟧ -/
def updateManyLoop (k : Int) (now : Nat) : Handle → List Point → Nat → List Arch → R Handle
  | h, _, _, [] => .ok h
  | h, ps, i, a :: as =>
    if k ≠ -1 ∧ k ≠ (i : Int) then updateManyLoop k now h ps (i + 1) as
    else
      let (cur, rest) := extractPoints ps now a.maxRetention
      if cur.length = 0 then updateManyLoop k now h rest (i + 1) as
      else
        match archiveUpdateMany o h cur i with
        | .error e => .error e
        | .ok h' => updateManyLoop k now h' rest (i + 1) as

def updateMany (h : Handle) (ps : List Point) (k : Int) (now : Nat) : R Handle :=
  updateManyLoop o k now h (sortByTime ps) 0 h.archs

end Handle

/-! ### files: Create / Open / Sync / Close, with the disk kept apart -/

structure World where
  disk : Option Bytes        -- bytes of the file on disk (none: no such file)
  h    : Option Handle       -- the live handle, if any
  deriving Repr, Inhabited

/-- ⟦Whisper.readHeader⟧ (repaired): 16 bytes first, then as many as the header asks for —
    never more than the file holds. -/
def readHeader (o : FOps) (view : Bytes) (pageSize : Nat) : R Header := do
  let b ← readAt view 0 16
  match decHeader o b with
  | .ok (h, _) => return h
  | .error (.wantLarger n) =>
    if n > (view.length : Int) then throw (.err .invalid)
    let n := n.toNat
    let bufLen := if n > pageSize then n else pageSize
    let b ← readAt view 0 n
    -- `h.TakeFrom(buf)` sees the whole buffer: the bytes read, then zeros
    let (h, _) ← decHeader o (b ++ List.replicate (bufLen - n) 0)
    return h
  | .error e => throw e

/-- ⟦Open⟧ (repaired) on a file with the given bytes. -/
def openBytes (o : FOps) (bytes : Bytes) (pageSize : Nat := 4096) : R Handle := do
  let h ← readHeader o bytes pageSize
  if bytes.length < h.expectedFileSize then throw (.err .invalid)
  return ⟨h, bytes⟩

/-- ⟦Create⟧ : the file is truncated to its final size at once (zeros on disk); the header
    goes to the buffer only. -/
def createHandle (o : FOps) (agg : Nat) (xff : UInt32) (lay : List (Int × Nat)) : R (Bytes × Handle) := do
  let h ← newHeader o agg xff lay
  let size := h.expectedFileSize
  let zeros : Bytes := List.replicate size 0
  let view ← writeAt zeros 0 (encHeader h)
  return (zeros, ⟨h, view⟩)

end Wsp
