/-
  Floating point behaviour as a parameter (DESIGN §3.3).  Theorems quantify over
  every `FOps`; the driver supplies the IEEE instance (`Driver/Ieee.lean`).
-/
import Wsp.Model.Bytes
namespace Wsp

structure FOps where
  add    : Val → Val → Val            -- float64 +
  sub    : Val → Val → Val            -- float64 -
  divNat : Val → Nat → Val            -- v / Value(n)
  lt     : Val → Val → Bool           -- float64 <
  eq     : Val → Val → Bool           -- float64 ==
  isNaN  : Val → Bool
  ofNat  : Nat → Val                  -- Value(int)
  /-- `float32(known)/float32(total) < xff`  (the xFilesFactor test, in float32) -/
  xffLess : Nat → Nat → UInt32 → Bool
  /-- `0 <= xff && xff <= 1` on float32 bits -/
  xffValid : UInt32 → Bool

/-- The laws a statement may assume about the float behaviour (only what is needed). -/
structure FLaws (o : FOps) : Prop where
  isNaN_nan : o.isNaN nanBits = true
  eq_refl_of_not_nan : ∀ v, o.isNaN v = false → o.eq v v = true
  eq_comm : ∀ a b, o.eq a b = o.eq b a
  eq_nan_left : ∀ a b, o.isNaN a = true → o.eq a b = false

/-- `float64(0)` -/
def zeroBits : Val := 0

namespace FOps
variable (o : FOps)

/-- ⟦Value.Add⟧ : NaN-skipping addition -/
def vAdd (v u : Val) : Val :=
  if o.isNaN v then u else if o.isNaN u then v else o.add v u

/-- ⟦Value.Diff⟧ -/
def vDiff (v u : Val) : Val :=
  if o.isNaN v || o.isNaN u then nanBits else o.sub v u

/-- ⟦Value.Equal⟧ -/
def vEqual (v u : Val) : Bool :=
  (o.isNaN v && o.isNaN u) || (!o.isNaN v && !o.isNaN u && o.eq v u)

/-- ⟦sum⟧ : left fold from 0 -/
def sum (vs : List Val) : Val := vs.foldl o.add zeroBits

end FOps
end Wsp
