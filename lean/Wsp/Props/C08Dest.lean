/-
  C08 / C11, the core clause: what `copy` (and `sum-copy`) writes into one archive of the
  destination makes a fetch of that archive over the window equal to the source series.

  Pieces: an update of a *named* archive is one ⟦archiveUpdateMany⟧ of that archive
  (`updateMany_named`); it is a sequence of writes to that archive and leaves every finer
  archive alone; the history theorem then gives the fetched series after the write.
-/
import Wsp.Props.C01Batch
import Wsp.Props.C03
namespace Wsp.C08
open Wsp.Handle Wsp.C14 Wsp.Total Wsp.C01 Wsp.Cmd

/-- past the named archive the loop only skips -/
theorem loop_skip (o : FOps) (k : Nat) (now : Nat) (as : List Arch) :
    ∀ (h : Handle) (ps : List Point) (i : Nat), k < i → updateManyLoop o (k : Int) now h ps i as = .ok h := by
  induction as with
  | nil => intro h ps i _; rfl
  | cons a as ih =>
    intro h ps i hi
    simp only [updateManyLoop]
    have hc : (k : Int) ≠ -1 ∧ (k : Int) ≠ (i : Int) := ⟨by omega, by omega⟩
    rw [if_pos hc]
    exact ih h ps (i + 1) (by omega)

/-- an update of archive `k` by name is one ⟦archiveUpdateMany⟧ on the points of the sorted
    batch younger than that archive's retention (nothing at all if there is none) -/
theorem updateManyLoop_named (o : FOps) (k : Nat) (now : Nat) (as : List Arch) :
    ∀ (h : Handle) (ps : List Point) (i : Nat), i ≤ k →
      updateManyLoop o (k : Int) now h ps i as =
        match as[k - i]? with
        | none => .ok h
        | some a =>
          if (extractPoints ps now a.maxRetention).1.length = 0 then .ok h
          else archiveUpdateMany o h (extractPoints ps now a.maxRetention).1 k := by
  induction as with
  | nil => intro h ps i _; simp [updateManyLoop]
  | cons a as ih =>
    intro h ps i hi
    simp only [updateManyLoop]
    by_cases hik : i = k
    · subst hik
      have hc : ¬ ((i : Int) ≠ -1 ∧ (i : Int) ≠ (i : Int)) := by omega
      rw [if_neg hc]
      simp only [Nat.sub_self, List.getElem?_cons_zero]
      split
      · exact loop_skip o i now as h _ (i + 1) (by omega)
      · cases h1 : archiveUpdateMany o h (extractPoints ps now a.maxRetention).1 i with
        | error e => rfl
        | ok hm => simp only; exact loop_skip o i now as hm _ (i + 1) (by omega)
    · have hc : (k : Int) ≠ -1 ∧ (k : Int) ≠ (i : Int) := ⟨by omega, by omega⟩
      rw [if_pos hc, ih h ps (i + 1) (by omega)]
      have : k - i = (k - (i + 1)) + 1 := by omega
      rw [this, List.getElem?_cons_succ]

theorem updateMany_named_eq (o : FOps) (h : Handle) (ps : List Point) (k : Nat) (now : Nat) (a : Arch)
    (ha : h.archs[k]? = some a) :
    h.updateMany o ps (k : Int) now =
      if (extractPoints (sortByTime ps) now a.maxRetention).1.length = 0 then .ok h
      else archiveUpdateMany o h (extractPoints (sortByTime ps) now a.maxRetention).1 k := by
  unfold updateMany
  rw [updateManyLoop_named o k now h.archs h _ 0 (by omega)]
  simp only [Nat.sub_zero, ha]

/-- **an update of a named archive, seen from that archive**: the aligned points of the batch
    younger than its retention, written in order; finer archives are left alone -/
theorem updateMany_named (o : FOps) (h h' : Handle) (g : Good h) (k : Nat) (a : Arch) (ha : h.archs[k]? = some a)
    (st : ArchState h a) (ps : List Point) (now : Nat) (hps : ∀ p ∈ ps, TimeOK a p.t)
    (hp : h.updateMany o ps (k : Int) now = .ok h') :
    ReachS a h ((alignPoints a (extractPoints (sortByTime ps) now a.maxRetention).1).map fun p => some (p.t, p.v)) h' ∧
      Good h' ∧ h'.hdr = h.hdr := by
  rw [updateMany_named_eq o h ps k now a ha] at hp
  split at hp
  · rename_i hcur
    injection hp with hp; subst hp
    have hnil : (extractPoints (sortByTime ps) now a.maxRetention).1 = [] := List.eq_nil_of_length_eq_zero hcur
    rw [hnil]
    exact ⟨ReachS.of_sameOn (SameOn.refl a h), g, rfl⟩
  · exact archiveUpdateMany_at o h h' g k a ha st _ (fun p hp' => hps p (extract_cur_subset ps now _ p hp')) hp

/-- writes to archive `k` and everything they propagate into lie behind every finer archive -/
theorem updateMany_named_behind (o : FOps) (h h' : Handle) (g : Good h) (k i : Nat) (hik : i < k)
    (ai : Arch) (hai : h.archs[i]? = some ai) (ps : List Point) (now : Nat)
    (hp : h.updateMany o ps (k : Int) now = .ok h') : SameOn ai h h' := by
  cases ha : h.archs[k]? with
  | none =>
    unfold updateMany at hp
    rw [updateManyLoop_named o k now h.archs h _ 0 (by omega)] at hp
    simp only [Nat.sub_zero, ha] at hp
    injection hp with hp; subst hp; exact SameOn.refl ai h
  | some a =>
    rw [updateMany_named_eq o h ps k now a ha] at hp
    split at hp
    · injection hp with hp; subst hp; exact SameOn.refl ai h
    · -- the direct writes land in archive k, propagation below it
      have pfi := placedFrom_of_valid h g.1.valid g.1.range i ai hai
      unfold archiveUpdateMany at hp
      rw [ha] at hp
      dsimp only at hp
      split at hp
      · simp at hp
      · split at hp
        · simp at hp
        · rename_i base _
          split at hp
          · simp at hp
          · rename_i hm hput
            have pa : ArchPlace (ai.offset + 12 * ai.n) h.hdr.total a := pfi k a (by omega) ha
            have f1 := putPoints_frame a pa base _ h hm hput
            have pfm : PlacedFrom hm (k + 1) (ai.offset + 12 * ai.n) h.hdr.total :=
              (pfi.of_frame f1).mono (by omega)
            have f2 := propagateChain_frameFrom o hm h' k pfm _ hp
            exact frame_sameOn ai (f1.trans f2) (by omega)

/-! ### the points `copy` decides to write, as a list -/

/-- index `j` is to be written: the values differ and the source value is not an excluded NaN -/
def Differs (o : FOps) (excl : Bool) (v d : Val) : Prop := (!o.vEqual v d) = true ∧ (!(excl && o.isNaN v)) = true

instance (o : FOps) (excl : Bool) (v d : Val) : Decidable (Differs o excl v d) := by unfold Differs; exact inferInstance

/-- the written list, directly: the differing positions in order, each with its time -/
def wanted (o : FOps) (excl : Bool) (f : Nat) (S : Nat) : Nat → List Val → List Val → List Point
  | j, v :: vs, d :: ds =>
    if Differs o excl v d then ⟨f + S * j, v⟩ :: wanted o excl f S (j + 1) vs ds else wanted o excl f S (j + 1) vs ds
  | _, _, _ => []

/-- inside the zone ⟦DiffPoints⟧ of two series with the same origin lists exactly `wanted` -/
theorem diffLoop_wanted (o : FOps) (excl : Bool) (f S : Nat) (hS : 0 < S) :
    ∀ (vs ds : List Val) (j : Nat), f + S * (j + vs.length) < 2147483648 →
      (diffLoop o excl f f (S : Int) j vs ds).1 = wanted o excl f S j vs ds := by
  intro vs
  induction vs with
  | nil => intro ds j _; cases ds <;> rfl
  | cons v vs ih =>
    intro ds j hz
    cases ds with
    | nil => rfl
    | cons d ds =>
      simp only [List.length_cons] at hz
      have hmul : S * (j + (vs.length + 1)) = S * j + S * (vs.length + 1) := Nat.mul_add _ _ _
      have hmul2 : S * (j + 1 + vs.length) = S * (j + (vs.length + 1)) := by congr 1; omega
      have ht : tsAdd f (i32 ((j : Int) * (S : Int))) = f + S * j := by
        have hp : ((j : Int) * (S : Int)) = ((S * j : Nat) : Int) := by push_cast; exact Int.mul_comm _ _
        rw [hp]
        have hlt : S * j < 2147483648 := by omega
        have e1 : i32 ((S * j : Nat) : Int) = ((S * j : Nat) : Int) := i32_id _ (by omega) (by omega)
        rw [e1]
        have := tsAdd_ideal f ((S * j : Nat) : Int) (by omega) (by omega)
        omega
      have ih' := ih ds (j + 1) (by rw [hmul2]; exact hz)
      simp only [diffLoop, wanted, ht, ne_eq, not_true_eq_false, false_or]
      by_cases hd : Differs o excl v d
      · have hd' := hd
        unfold Differs at hd'
        simp only [hd, if_true]
        have hc : ((!o.vEqual v d) = true ∧ (!decide (excl = true ∧ o.isNaN v = true)) = true) := by
          refine ⟨hd'.1, ?_⟩
          have := hd'.2
          cases excl <;> cases hn : o.isNaN v <;> simp_all
        simp only [hc, and_self, if_true, ih']
      · simp only [hd, if_false]
        have hc : ¬ ((!o.vEqual v d) = true ∧ (!decide (excl = true ∧ o.isNaN v = true)) = true) := by
          intro hc; apply hd
          unfold Differs
          refine ⟨hc.1, ?_⟩
          have := hc.2
          cases excl <;> cases hn : o.isNaN v <;> simp_all
        simp only [hc, if_false, ih']

theorem wanted_mem (o : FOps) (excl : Bool) (f S : Nat) :
    ∀ (vs ds : List Val) (j : Nat) (p : Point),
      p ∈ wanted o excl f S j vs ds ↔
        ∃ i, i < vs.length ∧ i < ds.length ∧ p = ⟨f + S * (j + i), vs.getD i 0⟩ ∧
          Differs o excl (vs.getD i 0) (ds.getD i 0) := by
  intro vs
  induction vs with
  | nil => intro ds j p; cases ds <;> simp [wanted]
  | cons v vs ih =>
    intro ds j p
    cases ds with
    | nil => simp [wanted]
    | cons d ds =>
      simp only [wanted]
      have ih' := ih ds (j + 1) p
      constructor
      · intro hp
        by_cases hd : Differs o excl v d
        · simp only [hd, if_true, List.mem_cons] at hp
          rcases hp with rfl | hp
          · exact ⟨0, by simp, by simp, by simp, by simpa using hd⟩
          · obtain ⟨i, h1, h2, h3, h4⟩ := ih'.1 hp
            exact ⟨i + 1, by simpa using h1, by simpa using h2, by rw [h3, show j + 1 + i = j + (i + 1) by omega]; simp, by simpa using h4⟩
        · simp only [hd, if_false] at hp
          obtain ⟨i, h1, h2, h3, h4⟩ := ih'.1 hp
          exact ⟨i + 1, by simpa using h1, by simpa using h2, by rw [h3, show j + 1 + i = j + (i + 1) by omega]; simp, by simpa using h4⟩
      · rintro ⟨i, h1, h2, h3, h4⟩
        cases i with
        | zero =>
          simp at h3 h4
          simp only [h4, if_true, List.mem_cons]
          left; rw [h3]
        | succ i =>
          have : p ∈ wanted o excl f S (j + 1) vs ds :=
            ih'.2 ⟨i, by simpa using h1, by simpa using h2, by rw [h3, show j + 1 + i = j + (i + 1) by omega]; simp, by simpa using h4⟩
          by_cases hd : Differs o excl v d
          · simp only [hd, if_true, List.mem_cons]; right; exact this
          · simp only [hd, if_false]; exact this

/-- times strictly increase along the list -/
theorem wanted_increasing (o : FOps) (excl : Bool) (f S : Nat) (hS : 0 < S) :
    ∀ (vs ds : List Val) (j : Nat), (wanted o excl f S j vs ds).Pairwise (fun p q => p.t < q.t) := by
  intro vs
  induction vs with
  | nil => intro ds j; cases ds <;> simp [wanted]
  | cons v vs ih =>
    intro ds j
    cases ds with
    | nil => simp [wanted]
    | cons d ds =>
      simp only [wanted]
      split
      · refine List.Pairwise.cons ?_ (ih ds (j + 1))
        intro q hq
        obtain ⟨i, _, _, h3, _⟩ := (wanted_mem o excl f S vs ds (j + 1) q).1 hq
        rw [h3]
        simp only
        have : S * j < S * (j + 1 + i) := Nat.mul_lt_mul_of_pos_left (by omega) hS
        omega
      · exact ih ds (j + 1)

theorem sorted_of_pairwise : ∀ (l : List Point), l.Pairwise (fun p q => p.t < q.t) → SortedByT l := by
  intro l
  induction l with
  | nil => intro _; trivial
  | cons p ps ih =>
    intro h
    cases ps with
    | nil => trivial
    | cons q rest =>
      have hpq := (List.pairwise_cons.1 h).1 q (by simp)
      exact ⟨by omega, ih (List.pairwise_cons.1 h).2⟩

/-- an already sorted batch is its own stable sort -/
theorem sortByTime_sorted_id (l : List Point) (hs : SortedByT l) : sortByTime l = l :=
  Wsp.C03.stable_sort_unique _ _ (sortByTime_sorted l) hs (fun t => sortByTime_stable l t)

/-- aligned points with strictly increasing times pass ⟦alignPoints⟧ unchanged -/
theorem alignPointsLoop_id (a : Arch) : ∀ (ps acc : List Point) (prev : Nat) (first : Bool),
    (∀ p ∈ ps, a.intervalForWrite p.t = p.t) → (ps.Pairwise (fun p q => p.t < q.t)) →
    (first = false → ∀ p ∈ ps, prev < p.t) →
    alignPointsLoop a acc prev first ps = acc.reverse ++ ps := by
  intro ps
  induction ps with
  | nil => intro acc prev first _ _ _; simp [alignPointsLoop]
  | cons p ps ih =>
    intro acc prev first hal hpw hprev
    simp only [alignPointsLoop]
    have hne : ¬ ((!first) = true ∧ p.t = prev) := by
      rintro ⟨hf, he⟩
      have hff : first = false := by cases first <;> simp_all
      have := hprev hff p (by simp)
      omega
    rw [if_neg hne]
    have hp := hal p (by simp)
    rw [ih _ _ false (fun q hq => hal q (by simp [hq])) (List.pairwise_cons.1 hpw).2
      (fun _ q hq => by rw [hp]; exact (List.pairwise_cons.1 hpw).1 q hq)]
    simp only [List.reverse_cons, List.append_assoc, List.singleton_append]
    congr 2
    cases p; simp at hp ⊢; exact hp

theorem alignPoints_id (a : Arch) (ps : List Point) (hal : ∀ p ∈ ps, a.intervalForWrite p.t = p.t)
    (hpw : ps.Pairwise (fun p q => p.t < q.t)) : alignPoints a ps = ps := by
  unfold alignPoints
  rw [alignPointsLoop_id a ps [] 0 true hal hpw (by intro h; cases h)]
  rfl

/-! ### reading back after the write -/

/-- within one window of at most N intervals two grid times share a slot only if equal -/
theorem cong_in_window (a : Arch) (ok : ArchOK a) (f cnt : Nat) (hc : cnt ≤ a.n) (i j : Nat) (hi : i < cnt) (hj : j < cnt)
    (h : Cong a (f + a.step.toNat * i) (f + a.step.toNat * j)) : i = j := by
  obtain ⟨hs, hn, _⟩ := ok
  have hsn : ((a.step.toNat : Nat) : Int) = a.step := by omega
  unfold Cong at h
  have e : (((f + a.step.toNat * i : Nat)) : Int) - ((f + a.step.toNat * j : Nat) : Int) = a.step * ((i : Int) - (j : Int)) := by
    push_cast; rw [hsn, Int.mul_sub]; omega
  rw [e] at h
  have h2 : (a.n : Int) ∣ ((i : Int) - (j : Int)) := Int.dvd_of_mul_dvd_mul_left (by omega) h
  obtain ⟨q, hq⟩ := h2
  have : q = 0 := by
    by_cases hq0 : q = 0
    · exact hq0
    · exfalso
      rcases Int.lt_or_gt_of_ne hq0 with hneg | hpos
      · have : (a.n : Int) * q ≤ (a.n : Int) * (-1) := Int.mul_le_mul_of_nonneg_left (by omega) (by omega)
        omega
      · have : (a.n : Int) * 1 ≤ (a.n : Int) * q := Int.mul_le_mul_of_nonneg_left (by omega) (by omega)
        omega
  rw [this] at hq
  omega

theorem lastCong_none_of (a : Arch) (J : Nat) (ws : List (Nat × Val)) (h : ∀ w ∈ ws, ¬ Cong a w.1 J) :
    lastCong a J ws = none := lastCong_none a J ws h

theorem lastCong_some_of (a : Arch) (J : Nat) (v : Val) : ∀ (ws : List (Nat × Val)),
    (∀ w ∈ ws, Cong a w.1 J → w.1 = J) → ws.Pairwise (fun x y => x.1 < y.1) → (J, v) ∈ ws →
    lastCong a J ws = some (J, v) := by
  intro ws
  induction ws with
  | nil => intro _ _ h; simp at h
  | cons w rest ih =>
    intro hc hpw hmem
    simp only [lastCong]
    by_cases hr : (J, v) ∈ rest
    · rw [ih (fun x hx => hc x (by simp [hx])) (List.pairwise_cons.1 hpw).2 hr]
    · have hw : w = (J, v) := by
        simp only [List.mem_cons] at hmem
        rcases hmem with h | h
        · exact h.symm
        · exact absurd h hr
      have hnone : lastCong a J rest = none := by
        apply lastCong_none
        intro x hx hcx
        have e := hc x (by simp [hx]) hcx
        have := (List.pairwise_cons.1 hpw).1 x hx
        rw [hw] at this
        simp only at this
        omega
      rw [hnone, hw]
      have : Cong a J J := ⟨0, by omega⟩
      simp [this]

/-- `history_reach` over `ReachS` -/
theorem history_reachS (a : Arch) (es : List (Option (Nat × Val))) (h h' : Handle) (lv : Live h a)
    (hws : ∀ w ∈ writesOf es, OnGrid a (slotAt h a 0).t w.1 ∧ w.1 ≠ 0) (r : ReachS a h es h') :
    Live h' a ∧ ∀ J, OnGrid a (slotAt h a 0).t J →
      ringValue h' a (slotAt h' a 0).t J = histValue a (writesOf es) (ringValue h a (slotAt h a 0).t) J := by
  obtain ⟨h0, s0, r0⟩ := r
  obtain ⟨lv0, hb0, hrv0⟩ := SameOn.live s0 lv
  obtain ⟨lv', _, hJ⟩ := history_reach a es h0 h' lv0 (by rw [hb0]; exact hws) r0
  refine ⟨lv', ?_⟩
  intro J gJ
  rw [hJ J (by rw [hb0]; exact gJ), hb0]
  unfold histValue
  cases lastCong a J (writesOf es) with
  | some x => rfl
  | none => simp only; rw [hrv0]

theorem intervalForWrite_aligned (a : Arch) (hs : 0 < a.step) (t : Nat) (ht : t < 4294967296) (hal : a.step ∣ (t : Int)) :
    a.intervalForWrite t = t := by
  have hid := intervalForWrite_ideal a t hs ht
  unfold alignDown at hid
  have : (t : Int) % a.step = 0 := Int.emod_eq_zero_of_dvd hal
  omega

/-- what a window of archive `a` must satisfy: on the grid, inside the ring, younger than
    the retention at the clock of the copy (what ⟦fetchPlan⟧ produces inside the zone) -/
structure WinZone (a : Arch) (f cnt now : Nat) : Prop where
  ok : ArchOK a
  al : a.step ∣ (f : Int)
  f0 : f ≠ 0
  hi : f + a.step.toNat * cnt < 2147483648
  cnt_le : cnt ≤ a.n
  young : tsAdd now (- a.maxRetention) < f

/-- **one archive of a copy**: after the differing points of the window have been written to
    archive `k` by name, every interval of the window reads the source value where the two
    differed (and the source value was to be copied), and what it read before elsewhere -/
theorem named_write_then_read (o : FOps) (excl : Bool) (h h' : Handle) (g : Good h) (k : Nat) (a : Arch)
    (ha : h.archs[k]? = some a) (st : ArchState h a) (f cnt now : Nat) (z : WinZone a f cnt now)
    (vs ds : List Val) (hvs : vs.length = cnt) (hds : ds.length = cnt)
    (hbefore : ∀ j, j < cnt → ds.getD j 0 = ringValue h a (slotAt h a 0).t (f + a.step.toNat * j))
    (hp : h.updateMany o (wanted o excl f a.step.toNat 0 vs ds) (k : Int) now = .ok h') :
    ArchState h' a ∧ Good h' ∧ h'.hdr = h.hdr ∧
    ∀ j, j < cnt → ringValue h' a (slotAt h' a 0).t (f + a.step.toNat * j) =
      if Differs o excl (vs.getD j 0) (ds.getD j 0) then vs.getD j 0 else ds.getD j 0 := by
  obtain ⟨ok, hal, hf0, hhi, hcnt, hyoung⟩ := z
  obtain ⟨hs, hn, hr⟩ := ok
  have hsn : ((a.step.toNat : Nat) : Int) = a.step := by omega
  have hS : 0 < a.step.toNat := by omega
  generalize hpts : wanted o excl f a.step.toNat 0 vs ds = pts at hp
  have hmem := fun p => wanted_mem o excl f a.step.toNat vs ds 0 p
  rw [hpts] at hmem
  have hpw : pts.Pairwise (fun p q => p.t < q.t) := by rw [← hpts]; exact wanted_increasing o excl f _ hS vs ds 0
  -- every written point: its index, its time on the grid
  have hpt : ∀ p ∈ pts, ∃ i, i < cnt ∧ p.t = f + a.step.toNat * i ∧ p.v = vs.getD i 0 ∧
      Differs o excl (vs.getD i 0) (ds.getD i 0) := by
    intro p hp'
    obtain ⟨i, h1, _, h3, h4⟩ := (hmem p).1 hp'
    exact ⟨i, by omega, by rw [h3]; simp, by rw [h3], h4⟩
  have hgrid : ∀ i, i < cnt → (f + a.step.toNat * i < 2147483648) ∧ a.step ∣ (((f + a.step.toNat * i : Nat)) : Int) ∧
      f + a.step.toNat * i ≠ 0 ∧ f ≤ f + a.step.toNat * i := by
    intro i hi
    have : a.step.toNat * i ≤ a.step.toNat * cnt := Nat.mul_le_mul_left _ (by omega)
    refine ⟨by omega, ?_, by omega, by omega⟩
    obtain ⟨q, hq⟩ := hal
    exact ⟨q + (i : Int), by push_cast; rw [hsn, Int.mul_add]; omega⟩
  have hfge : a.step.toNat ≤ f := by
    obtain ⟨q, hq⟩ := hal
    have : 0 < q := by
      by_cases hq0 : 0 < q
      · exact hq0
      · exfalso
        have : a.step * q ≤ a.step * 0 := Int.mul_le_mul_of_nonneg_left (by omega) (by omega)
        omega
    have : a.step * 1 ≤ a.step * q := Int.mul_le_mul_of_nonneg_left (by omega) (by omega)
    omega
  have htime : ∀ p ∈ pts, TimeOK a p.t := by
    intro p hp'
    obtain ⟨i, hi, ht, _, _⟩ := hpt p hp'
    have := hgrid i hi
    unfold TimeOK
    rw [ht]; omega
  -- the batch goes through sort, split and alignment unchanged
  have hsorted : sortByTime pts = pts := sortByTime_sorted_id pts (sorted_of_pairwise pts hpw)
  have hextract : (extractPoints (sortByTime pts) now a.maxRetention).1 = pts := by
    rw [hsorted, extractPoints_sorted pts now _ (sorted_of_pairwise pts hpw)]
    simp only
    apply List.filter_eq_self.2
    intro p hp'
    obtain ⟨i, hi, ht, _, _⟩ := hpt p hp'
    have := hgrid i hi
    simp only [decide_eq_true_eq]
    rw [ht]; omega
  have halign : alignPoints a pts = pts := by
    apply alignPoints_id a pts ?_ hpw
    intro p hp'
    obtain ⟨i, hi, ht, _, _⟩ := hpt p hp'
    have := hgrid i hi
    rw [ht]
    exact intervalForWrite_aligned a hs _ (by omega) this.2.1
  obtain ⟨r, g', hh⟩ := updateMany_named o h h' g k a ha st pts now htime hp
  rw [hextract, halign] at r
  -- the writes, as (time, value) pairs
  have hw : writesOf (pts.map fun p => some (p.t, p.v)) = pts.map fun p => (p.t, p.v) := by
    simp [writesOf, List.filterMap_map]
  have hwal : ∀ w ∈ writesOf (pts.map fun p => some (p.t, p.v)), w.1 < 2147483648 ∧ a.step ∣ (w.1 : Int) ∧ w.1 ≠ 0 := by
    intro w hw'
    rw [hw] at hw'
    simp only [List.mem_map] at hw'
    obtain ⟨p, hp', rfl⟩ := hw'
    obtain ⟨i, hi, ht, _, _⟩ := hpt p hp'
    have := hgrid i hi
    simp only
    rw [ht]; exact ⟨this.1, this.2.1, this.2.2.1⟩
  have st' := reachS_state a _ h h' st hwal r
  refine ⟨st', g', hh, ?_⟩
  -- the value the history assigns to the j-th interval
  have hval : ∀ (before : Nat → Val) j, j < cnt →
      histValue a (writesOf (pts.map fun p => some (p.t, p.v))) before (f + a.step.toNat * j) =
        if Differs o excl (vs.getD j 0) (ds.getD j 0) then vs.getD j 0 else before (f + a.step.toNat * j) := by
    intro before j hj
    rw [hw]
    unfold histValue
    have hcong : ∀ w ∈ pts.map (fun p => (p.t, p.v)), Cong a w.1 (f + a.step.toNat * j) → w.1 = f + a.step.toNat * j := by
      intro w hw' hc
      simp only [List.mem_map] at hw'
      obtain ⟨p, hp', rfl⟩ := hw'
      obtain ⟨i, hi, ht, _, _⟩ := hpt p hp'
      simp only at hc ⊢
      rw [ht] at hc ⊢
      rw [cong_in_window a ⟨hs, hn, hr⟩ f cnt hcnt i j hi hj hc]
    by_cases hd : Differs o excl (vs.getD j 0) (ds.getD j 0)
    · have hin : (f + a.step.toNat * j, vs.getD j 0) ∈ pts.map (fun p => (p.t, p.v)) := by
        simp only [List.mem_map]
        refine ⟨⟨f + a.step.toNat * j, vs.getD j 0⟩, ?_, rfl⟩
        exact (hmem _).2 ⟨j, by omega, by omega, by simp, hd⟩
      have hpw' : (pts.map fun p => (p.t, p.v)).Pairwise (fun x y => x.1 < y.1) := by
        rw [List.pairwise_map]; exact hpw
      rw [lastCong_some_of a _ _ _ hcong hpw' hin, if_pos hd]
      simp
    · have hnone : lastCong a (f + a.step.toNat * j) (pts.map fun p => (p.t, p.v)) = none := by
        apply lastCong_none
        intro w hw' hc
        have e := hcong w hw' hc
        simp only [List.mem_map] at hw'
        obtain ⟨p, hp', rfl⟩ := hw'
        obtain ⟨i, hi, ht, _, hdi⟩ := hpt p hp'
        simp only at e
        rw [ht] at e
        have hij : i = j := by
          have : a.step.toNat * i = a.step.toNat * j := by omega
          exact Nat.eq_of_mul_eq_mul_left hS this
        rw [hij] at hdi
        exact hd hdi
      rw [hnone, if_neg hd]
  intro j hj
  have gj := hgrid j hj
  rcases st with fr | ⟨lv, albase⟩
  · have hist := history_freshS a _ h h' fr hwal r (f + a.step.toNat * j) gj.1 gj.2.1 gj.2.2.1
    rw [hist, hval _ j hj]
    -- before: a never-written archive reads NaN
    have hb := hbefore j hj
    have hnan : ringValue h a (slotAt h a 0).t (f + a.step.toNat * j) = nanBits := by
      unfold ringValue
      have hlt : slotIdx a (slotAt h a 0).t (f + a.step.toNat * j) < a.n := by
        have := pointIndex_range a fr.hn (slotAt h a 0).t (f + a.step.toNat * j)
        unfold slotIdx; omega
      have : (slotAt h a (slotIdx a (slotAt h a 0).t (f + a.step.toNat * j))).t ≠ f + a.step.toNat * j := by
        rw [fr.zero _ hlt]; exact fun e => gj.2.2.1 e.symm
      simp [this]
    rw [hb, hnan]
  · have hgridJ : OnGrid a (slotAt h a 0).t (f + a.step.toNat * j) := ⟨gj.1, Int.dvd_sub gj.2.1 albase⟩
    have hws : ∀ w ∈ writesOf (pts.map fun p => some (p.t, p.v)), OnGrid a (slotAt h a 0).t w.1 ∧ w.1 ≠ 0 := by
      intro w hw'
      have := hwal w hw'
      exact ⟨⟨this.1, Int.dvd_sub this.2.1 albase⟩, this.2.2⟩
    obtain ⟨_, hist⟩ := history_reachS a _ h h' lv hws r
    rw [hist _ hgridJ, hval _ j hj, hbefore j hj]

/-! ### what a fetch of the window reads, in either state of the archive -/

/-- the series a fetch of the window returns: position `j` holds what interval `f + S·j` reads -/
def readSeries (h : Handle) (a : Arch) (f cnt : Nat) : Series :=
  ⟨f, f + a.step.toNat * cnt, a.step, (List.range cnt).map fun j => ringValue h a (slotAt h a 0).t (f + a.step.toNat * j)⟩

theorem winCount_window (a : Arch) (hs : 0 < a.step) (f cnt : Nat) :
    winCount a f (f + a.step.toNat * cnt) = cnt := by
  unfold winCount
  have hsn : ((a.step.toNat : Nat) : Int) = a.step := by omega
  have : (((f + a.step.toNat * cnt : Nat)) : Int) - (f : Int) = a.step * (cnt : Int) := by push_cast; rw [hsn]; omega
  rw [this, Int.mul_ediv_cancel_left _ (by omega)]
  omega

/-- a never-written archive reads NaN at every nonzero time -/
theorem fresh_reads_nan (h : Handle) (a : Arch) (fr : Fresh h a) (J : Nat) (hJ : J ≠ 0) :
    ringValue h a (slotAt h a 0).t J = nanBits := by
  unfold ringValue
  have hlt : slotIdx a (slotAt h a 0).t J < a.n := by
    have := pointIndex_range a fr.hn (slotAt h a 0).t J
    unfold slotIdx; omega
  have : (slotAt h a (slotIdx a (slotAt h a 0).t J)).t ≠ J := by
    rw [fr.zero _ hlt]; exact fun e => hJ e.symm
  simp [this]

/-- **executing the planned fetch of the window reads the ring**, whether the archive has
    been written or not -/
theorem fetchExec_reads (h : Handle) (a : Arch) (st : ArchState h a) (f cnt now : Nat) (z : WinZone a f cnt now)
    (hc : 0 < cnt) (p : FetchPlan) (hpa : p.a = a) (hpf : p.fromI = f) (hpu : p.untilI = f + a.step.toNat * cnt) :
    h.fetchExec p = .ok (readSeries h a f cnt) := by
  obtain ⟨ok, hal, hf0, hhi, hcnt, _⟩ := z
  obtain ⟨hs, hn, hr⟩ := ok
  have hsn : ((a.step.toNat : Nat) : Int) = a.step := by omega
  have hS : 0 < a.step.toNat := by omega
  have hmulpos : 0 < a.step.toNat * cnt := Nat.mul_pos hS hc
  subst hpa
  rcases st with fr | ⟨lv, albase⟩
  · -- never written: all NaN
    have hbI : h.baseInterval p.a = .ok 0 := by
      rw [← fr.zero 0 fr.hn]; exact baseInterval_slot h p.a (by have := fr.view; omega)
    unfold fetchExec readSeries
    rw [hbI]
    simp only [if_true, hpf, hpu]
    have e1 : u32 (((f + p.a.step.toNat * cnt : Nat) : Int) - (f : Int)) = p.a.step.toNat * cnt := by
      have : (((f + p.a.step.toNat * cnt : Nat)) : Int) - (f : Int) = ((p.a.step.toNat * cnt : Nat) : Int) := by push_cast; omega
      rw [this]; exact u32_of_nat _ (by omega)
    have e2 : u32 p.a.step = p.a.step.toNat := by
      have := u32_id p.a.step (by omega) (by have : p.a.step * 1 ≤ p.a.step * (p.a.n : Int) := Int.mul_le_mul_of_nonneg_left (by omega) (by omega); omega)
      omega
    rw [e1, e2, Nat.mul_div_cancel_left _ hS]
    congr 2
    apply List.ext_getElem
    · simp
    · intro j h1 h2
      simp only [List.getElem_replicate, List.getElem_map, List.getElem_range]
      have hj : j < cnt := by simpa using h2
      have : p.a.step.toNat * j < p.a.step.toNat * cnt := Nat.mul_lt_mul_of_pos_left hj hS
      exact (fresh_reads_nan h p.a fr _ (by omega)).symm
  · have hcmul : p.a.step * (cnt : Int) ≤ p.a.step * (p.a.n : Int) := Int.mul_le_mul_of_nonneg_left (by omega) (by omega)
    have zr : RingZone p.a (slotAt h p.a 0).t p.fromI p.untilI := by
      rw [hpf, hpu]
      refine ⟨hs, hn, hr, lv.blt, by omega, by omega, ?_, Int.dvd_sub hal albase, ?_⟩
      · push_cast; rw [hsn]; omega
      · exact ⟨(cnt : Int), by push_cast; rw [hsn]; omega⟩
    have hbI : h.baseInterval p.a = .ok (slotAt h p.a 0).t :=
      baseInterval_slot h p.a (by have := lv.view; omega)
    rw [fetch_refines_ring h p _ zr hbI lv.b0 lv.view lv.fit]
    unfold readSeries
    rw [hpf, hpu, winCount_window p.a hs f cnt]

/-! ### one archive of `copy`, and all of them -/

theorem vEqual_refl (o : FOps) (hl : FLaws o) (v : Val) : o.vEqual v v = true := by
  unfold FOps.vEqual
  by_cases hn : o.isNaN v = true
  · simp [hn]
  · have hn' : o.isNaN v = false := by simpa using hn
    simp [hn', hl.eq_refl_of_not_nan v hn']

/-- ⟦DiffPoints⟧ of the source series and the series just read from the window -/
theorem diffPoints_wanted (o : FOps) (excl : Bool) (h : Handle) (a : Arch) (hs : 0 < a.step) (f cnt : Nat) (vs : List Val)
    (hvs : vs.length = cnt) (hhi : f + a.step.toNat * cnt < 2147483648) :
    (diffPoints o excl (some ⟨f, f + a.step.toNat * cnt, a.step, vs⟩) (some (readSeries h a f cnt))).1 =
      wanted o excl f a.step.toNat 0 vs (readSeries h a f cnt).values := by
  unfold diffPoints
  have hlen : ¬ ((sValues (some (⟨f, f + a.step.toNat * cnt, a.step, vs⟩ : Series))).length ≠ (sValues (some (readSeries h a f cnt))).length) := by
    simp [sValues, readSeries, hvs]
  rw [if_neg hlen]
  have hsn : ((a.step.toNat : Nat) : Int) = a.step := by omega
  simp only [sFrom, sStep, sValues, readSeries]
  rw [← hsn]
  exact diffLoop_wanted o excl f a.step.toNat (by omega) vs _ 0 (by rw [hvs]; simpa using hhi)

/-- **one archive of a copy**: fetch the window, write the differing points by name; then
    every interval of the window reads a value `Equal` to the source's — or the source's is
    a NaN that was not to be copied -/
theorem copy_step (o : FOps) (hl : FLaws o) (excl : Bool) (h h' : Handle) (g : Good h) (k : Nat) (a : Arch)
    (ha : h.archs[k]? = some a) (st : ArchState h a) (f cnt now : Nat) (z : WinZone a f cnt now)
    (vs : List Val) (hvs : vs.length = cnt)
    (hp : h.updateMany o (diffPoints o excl (some ⟨f, f + a.step.toNat * cnt, a.step, vs⟩)
            (some (readSeries h a f cnt))).1 (k : Int) now = .ok h') :
    ArchState h' a ∧ Good h' ∧ h'.hdr = h.hdr ∧
    ∀ j, j < cnt →
      o.vEqual (vs.getD j 0) (ringValue h' a (slotAt h' a 0).t (f + a.step.toNat * j)) = true ∨
      (excl = true ∧ o.isNaN (vs.getD j 0) = true) := by
  have hs := z.ok.1
  rw [diffPoints_wanted o excl h a hs f cnt vs hvs z.hi] at hp
  have hds : (readSeries h a f cnt).values.length = cnt := by simp [readSeries]
  have hbefore : ∀ j, j < cnt → (readSeries h a f cnt).values.getD j 0 =
      ringValue h a (slotAt h a 0).t (f + a.step.toNat * j) := by
    intro j hj
    simp [readSeries, hj]
  obtain ⟨st', g', hh, hread⟩ := named_write_then_read o excl h h' g k a ha st f cnt now z vs _ hvs hds hbefore hp
  refine ⟨st', g', hh, ?_⟩
  intro j hj
  rw [hread j hj]
  by_cases hd : Differs o excl (vs.getD j 0) ((readSeries h a f cnt).values.getD j 0)
  · rw [if_pos hd]; exact Or.inl (vEqual_refl o hl _)
  · rw [if_neg hd]
    unfold Differs at hd
    by_cases he : o.vEqual (vs.getD j 0) ((readSeries h a f cnt).values.getD j 0) = true
    · exact Or.inl he
    · right
      have he' : (!o.vEqual (vs.getD j 0) ((readSeries h a f cnt).values.getD j 0)) = true := by simpa using he
      have : ¬ ((!(excl && o.isNaN (vs.getD j 0))) = true) := fun h2 => hd ⟨he', h2⟩
      cases excl <;> cases hn : o.isNaN (vs.getD j 0) <;> simp_all

end Wsp.C08
