/-
  C08 / C11 from the command's core down: ⟦copyOneFile⟧ / ⟦sumCopyItem⟧ after the source
  series are known (`copyCore`, all archives selected).  If it reports success, then either
  nothing was to be copied — and the destination already agreed with the source on every
  archive's window — or the points were written and the destination, as published by the
  final Sync, agrees with the source on every archive's window.
-/
import Wsp.Props.C08All
namespace Wsp.C08
open Wsp.Handle Wsp.C14 Wsp.Total Wsp.C01 Wsp.Cmd Wsp.Inv

/-- what ⟦fetchTimeSeriesList⟧ returns for "all archives", given the specs -/
theorem fetchAll_reads (ls : List (Option Series)) (w : Window) (L : Nat)
    (A : Nat → Arch) (F C : Nat → Nat) (V : Nat → List Val) (h : Handle) (al : AllState h) :
    ∀ (as : List Arch) (i : Nat), i + as.length = h.archs.length →
      (∀ k, k < h.archs.length → ArchSpec h ls w L k (A k) (F k) (C k) (V k)) →
      fetchAll h w.now w.from_ w.until' i as =
        .ok ((List.range as.length).map fun j => some (readSeries h (A (i + j)) (F (i + j)) (C (i + j)))) := by
  intro as
  induction as with
  | nil => intro i _ _; rfl
  | cons a as ih =>
    intro i hi hspec
    have hil : i < h.archs.length := by simp at hi; omega
    have sp := hspec i hil
    simp only [fetchAll]
    rw [spec_fetch sp (al i (A i) sp.arch)]
    simp only
    rw [ih (i + 1) (by simp at hi ⊢; omega) hspec]
    simp only [List.length_cons, List.range_succ_eq_map, List.map_cons, List.map_map]
    congr 2
    apply List.map_congr_left
    intro j _
    simp only [Function.comp]
    have : i + 1 + j = i + (j + 1) := by omega
    rw [this]

/-- no difference to write means the destination already agreed on that archive -/
theorem agrees_of_no_diff (o : FOps) (excl : Bool) (h : Handle) (a : Arch) (hs : 0 < a.step) (f cnt : Nat)
    (vs : List Val) (hvs : vs.length = cnt) (hhi : f + a.step.toNat * cnt < 2147483648)
    (hnil : (diffPoints o excl (some ⟨f, f + a.step.toNat * cnt, a.step, vs⟩) (some (readSeries h a f cnt))).1 = []) :
    Agrees o excl h a f cnt vs := by
  rw [diffPoints_wanted o excl h a hs f cnt vs hvs hhi] at hnil
  intro j hj
  have hds : (readSeries h a f cnt).values.length = cnt := by simp [readSeries]
  have hval : (readSeries h a f cnt).values.getD j 0 = ringValue h a (slotAt h a 0).t (f + a.step.toNat * j) := by
    simp [readSeries, hj]
  have hnd : ¬ Differs o excl (vs.getD j 0) ((readSeries h a f cnt).values.getD j 0) := by
    intro hd
    have := (wanted_mem o excl f a.step.toNat vs (readSeries h a f cnt).values 0
      ⟨f + a.step.toNat * (0 + j), vs.getD j 0⟩).2 ⟨j, by omega, by omega, rfl, hd⟩
    rw [hnil] at this
    simp at this
  rw [← hval]
  unfold Differs at hnd
  by_cases he : o.vEqual (vs.getD j 0) ((readSeries h a f cnt).values.getD j 0) = true
  · exact Or.inl he
  · right
    have he' : (!o.vEqual (vs.getD j 0) ((readSeries h a f cnt).values.getD j 0)) = true := by simpa using he
    have : ¬ ((!(excl && o.isNaN (vs.getD j 0))) = true) := fun h2 => hnd ⟨he', h2⟩
    cases excl <;> cases hn : o.isNaN (vs.getD j 0) <;> simp_all

theorem getD_zip_map {α β γ} (l1 : List α) (l2 : List β) (f : α × β → γ) (d : γ) (i : Nat) (a : α) (b : β)
    (h1 : l1[i]? = some a) (h2 : l2[i]? = some b) : ((l1.zip l2).map f).getD i d = f (a, b) := by
  have hz : (l1.zip l2)[i]? = some (a, b) := List.getElem?_zip_eq_some.2 ⟨h1, h2⟩
  simp [List.getD, hz]

/-- **the core of copy / sum-copy, all archives**: on success the destination handle that is
    published agrees with the source on every archive's window -/
theorem copyCore_agrees (o : FOps) (hl : FLaws o) (t : Tree) (dst : String) (hd : Handle) (srcArchs : List Arch)
    (ls : List (Option Series)) (w : Window) (excl : Bool) (L : Nat)
    (A : Nat → Arch) (F C : Nat → Nat) (V : Nat → List Val)
    (g : Good hd) (al : AllState hd) (c : Coarse hd L) (hall : w.archiveID = -1)
    (hlen : ls.length = hd.archs.length)
    (hspec : ∀ k, k < hd.archs.length → ArchSpec hd ls w L k (A k) (F k) (C k) (V k))
    (hok : (copyCore o t dst hd srcArchs ls w excl).2.1 = .ok) :
    ∃ hd', ((copyCore o t dst hd srcArchs ls w excl).1 = t ∧ hd' = hd ∨
            (copyCore o t dst hd srcArchs ls w excl).1 = t.set dst hd'.view) ∧
      ∀ k, k < hd.archs.length → Agrees o excl hd' (A k) (F k) (C k) (V k) := by
  have hfl : fetchList hd w.archiveID w.from_ w.until' w.now =
      .ok ((List.range hd.archs.length).map fun j => some (readSeries hd (A j) (F j) (C j))) := by
    unfold fetchList
    rw [if_pos hall]
    have := fetchAll_reads ls w L A F C V hd al hd.archs 0 (by simp) hspec
    simpa using this
  generalize hld : ((List.range hd.archs.length).map fun j => some (readSeries hd (A j) (F j) (C j))) = ld at hfl
  have hldlen : ld.length = hd.archs.length := by rw [← hld]; simp
  have hldi : ∀ k, k < hd.archs.length → ld[k]? = some (some (readSeries hd (A k) (F k) (C k))) := by
    intro k hk; rw [← hld]; simp [hk]
  have hlsi : ∀ k, k < hd.archs.length →
      ls[k]? = some (some ⟨F k, F k + (A k).step.toNat * C k, (A k).step, V k⟩) := by
    intro k hk
    have hs := (hspec k hk).src
    have hk' : k < ls.length := by omega
    rw [List.getD_eq_getElem?_getD, List.getElem?_eq_getElem hk'] at hs
    simp only [Option.getD_some] at hs
    rw [List.getElem?_eq_getElem hk', hs]
  -- the per-archive difference lists
  have hsp : ∀ k, k < hd.archs.length → (diffLists o excl ls ld).1.getD k [] =
      (diffPoints o excl (some ⟨F k, F k + (A k).step.toNat * C k, (A k).step, V k⟩)
        (some (readSeries hd (A k) (F k) (C k)))).1 := by
    intro k hk
    unfold diffLists
    have : ¬ (ls.length ≠ ld.length) := by omega
    rw [if_neg this]
    exact getD_zip_map ls ld _ [] k _ _ (hlsi k hk) (hldi k hk)
  unfold copyCore at hok ⊢
  rw [hfl] at hok ⊢
  simp only at hok ⊢
  split at hok
  · simp at hok
  · rename_i hlay
    rw [if_neg hlay]
    split at hok
    · simp at hok
    · rename_i hrng
      rw [if_neg hrng]
      by_cases hempty : (allEmpty (diffLists o excl ls ld).1 && allEmpty (diffLists o excl ls ld).2) = true
      · -- nothing to copy: the destination already agrees
        simp only [hempty, if_true]
        refine ⟨hd, Or.inl ⟨trivial, rfl⟩, ?_⟩
        intro k hk
        have sp := hspec k hk
        apply agrees_of_no_diff o excl hd (A k) sp.zone.ok.1 (F k) (C k) (V k) sp.len sp.zone.hi
        rw [← hsp k hk]
        have hae : allEmpty (diffLists o excl ls ld).1 = true := by
          cases h1 : allEmpty (diffLists o excl ls ld).1 <;> simp_all
        unfold allEmpty at hae
        rw [List.all_eq_true] at hae
        by_cases hk2 : k < (diffLists o excl ls ld).1.length
        · have := hae ((diffLists o excl ls ld).1[k]) (List.getElem_mem hk2)
          rw [List.getD_eq_getElem?_getD, List.getElem?_eq_getElem hk2]
          simpa using this
        · rw [List.getD_eq_getElem?_getD, List.getElem?_eq_none (by omega)]
          rfl
      · simp only [hempty, Bool.false_eq_true, if_false] at hok ⊢
        cases hca : copyArchives o ls excl w hd 0
            ((List.range hd.archs.length).map fun i => (diffLists o excl ls ld).1.getD i []) with
        | error e =>
          rw [hca] at hok
          exfalso
          cases e <;> simp [Outcome.ofFault] at hok
        | ok r =>
          obtain ⟨hd', written⟩ := r
          simp only
          refine ⟨hd', Or.inr rfl, ?_⟩
          intro k hk
          have := copyArchives_agrees o hl ls excl w L A F C V _ hd hd' 0 written g al c
            (by intro k' _ h2; simp at h2; exact hspec k' h2)
            (by
              intro _ ps hps
              have hpos : 0 < hd.archs.length := by omega
              rw [(hspec 0 hpos).src, ← hsp 0 hpos]
              cases hr : List.range hd.archs.length with
              | nil => have := List.range_eq_nil.1 hr; omega
              | cons x xs =>
                rw [hr] at hps
                simp only [List.map_cons, List.head?_cons] at hps
                injection hps with hps
                have hx : x = 0 := by
                  have : (List.range hd.archs.length)[0]? = some x := by rw [hr]; rfl
                  simp [hpos] at this; omega
                rw [hx] at hps
                exact hps.symm)
            hca k (by omega) (by simp; omega)
          exact this

end Wsp.C08
