/-
  C14, the other direction of the header round trip: what ⟦Header.TakeFrom⟧ accepts is
  exactly the encoding of what it returns — `decHeader o src = ok (h, rest)` implies
  `src = encHeader h ++ rest` and `h` is well-formed — so decoding is injective on the
  bytes it consumes.  With it, every handle `Open` returns (not only those that `Create`
  made) is `Reopenable`: opening the bytes it publishes returns that very handle.
-/
import Wsp.Props.Reopen
namespace Wsp.C14
open Wsp.Handle Wsp.Total Wsp.Reopen

theorem ofNat_toNat_u8 (a : UInt8) : UInt8.ofNat a.toNat = a := by
  cases a with
  | ofBitVec v => simp

/-- the four bytes `de32` read are the big-endian encoding of the number it returned -/
theorem be32_de32_take (b : Bytes) (h : 4 ≤ b.length) : be32 (de32 b) = b.take 4 := by
  match b, h with
  | a :: b :: c :: d :: rest, _ =>
    have ha := a.toNat_lt
    have hb := b.toNat_lt
    have hc := c.toNat_lt
    have hd := d.toNat_lt
    simp only [de32, be32, List.take_succ_cons, List.take_zero]
    have e1 : (a.toNat * 16777216 + b.toNat * 65536 + c.toNat * 256 + d.toNat) / 16777216 % 256 = a.toNat := by omega
    have e2 : (a.toNat * 16777216 + b.toNat * 65536 + c.toNat * 256 + d.toNat) / 65536 % 256 = b.toNat := by omega
    have e3 : (a.toNat * 16777216 + b.toNat * 65536 + c.toNat * 256 + d.toNat) / 256 % 256 = c.toNat := by omega
    have e4 : (a.toNat * 16777216 + b.toNat * 65536 + c.toNat * 256 + d.toNat) % 256 = d.toNat := by omega
    rw [e1, e2, e3, e4]
    simp only [ofNat_toNat_u8]

theorem u32_i32 (n : Nat) (h : n < 4294967296) : u32 (i32 (n : Int)) = n := by
  unfold u32 i32
  omega

theorem take_add_drop4 (b : Bytes) (k : Nat) : (b.drop k).take 4 ++ b.drop (k + 4) = b.drop k := by
  have : b.drop (k + 4) = (b.drop k).drop 4 := by rw [List.drop_drop]
  rw [this, List.take_append_drop]

/-- twelve bytes split into three big-endian words -/
theorem split12 (src : Bytes) (h : 12 ≤ src.length) :
    src = be32 (de32 src) ++ (be32 (de32 (src.drop 4)) ++ (be32 (de32 (src.drop 8)) ++ src.drop 12)) := by
  rw [be32_de32_take src (by omega), be32_de32_take (src.drop 4) (by simp; omega),
    be32_de32_take (src.drop 8) (by simp; omega)]
  have e3 := take_add_drop4 src 8
  have e2 := take_add_drop4 src 4
  have e1 := take_add_drop4 src 0
  simp only [List.drop_zero, Nat.zero_add] at e1
  rw [e3, e2, e1]

theorem decArch_inv (src : Bytes) (a : Arch) (rest : Bytes) (h : decArch src = .ok (a, rest)) :
    src = encArch a ++ rest := by
  unfold decArch at h
  split at h
  · simp at h
  · rename_i hl
    injection h with h; injection h with h1 h2; subst h1; subst h2
    unfold encArch encDuration
    simp only [List.append_assoc]
    rw [u32_i32 _ (de32_lt _)]
    exact split12 src (by omega)

theorem decArchs_inv : ∀ (n : Nat) (src : Bytes) (as : List Arch) (rest : Bytes),
    decArchs n src = .ok (as, rest) → src = encArchs as ++ rest ∧ as.length = n := by
  intro n
  induction n with
  | zero =>
    intro src as rest h
    simp only [decArchs] at h
    injection h with h; injection h with h1 h2; subst h1; subst h2
    exact ⟨rfl, rfl⟩
  | succ n ih =>
    intro src as rest h
    simp only [decArchs] at h
    cases h1 : decArch src with
    | error e => rw [h1] at h; simp at h
    | ok r =>
      obtain ⟨a, src'⟩ := r
      rw [h1] at h; simp only at h
      cases h2 : decArchs n src' with
      | error e => rw [h2] at h; simp at h
      | ok r2 =>
        obtain ⟨as', rest'⟩ := r2
        rw [h2] at h; simp only at h
        injection h with h; injection h with h3 h4; subst h3; subst h4
        obtain ⟨e, hl⟩ := ih src' as' rest' h2
        have e0 := decArch_inv src a src' h1
        refine ⟨?_, by simp [hl]⟩
        simp only [encArchs, List.append_assoc]
        rw [← e]; exact e0

/-- **⟦Header.TakeFrom⟧ accepts only encodings**: the bytes it consumed are the encoding of
    the header it returned, and that header is well-formed -/
theorem decHeader_inv (o : FOps) (src : Bytes) (h : Header) (rest : Bytes)
    (hok : decHeader o src = .ok (h, rest)) : src = encHeader h ++ rest ∧ HeaderWF o h := by
  have hacc := C07.decHeader_accepts o src h rest hok
  have hwf := decHeader_wf o src h rest hok
  unfold decHeader at hok
  dsimp only at hok
  split at hok
  · simp at hok
  · rename_i h16
    split at hok
    · simp at hok
    · split at hok
      · simp at hok
      · split at hok
        · simp at hok
        · split at hok
          · simp at hok
          · rename_i as src' hd
            split at hok
            · simp at hok
            · injection hok with hok; injection hok with h1 h2; subst h1; subst h2
              obtain ⟨e, hl⟩ := decArchs_inv _ _ _ _ hd
              have hagg : de32 src < 4294967296 := de32_lt _
              refine ⟨?_, ⟨hacc.1, hacc.2.1, ?_, ?_, hl.symm, de32_lt _, hwf, hacc.2.2⟩⟩
              · unfold encHeader encDuration
                simp only [List.append_assoc]
                have hx : (UInt32.ofNat (de32 (src.drop 8))).toNat = de32 (src.drop 8) := by
                  have := de32_lt (src.drop 8)
                  simp; omega
                rw [hx, u32_i32 _ (de32_lt _)]
                have hu : u32 ((de32 src : Nat) : Int) = de32 src := by unfold u32; omega
                rw [hu, ← e]
                have s := split12 src (by omega)
                have e4 := take_add_drop4 src 12
                rw [← be32_de32_take (src.drop 12) (by simp; omega)] at e4
                have : src.drop 16 = src.drop (12 + 4) := rfl
                rw [this]
                rw [e4]
                exact s
              · simp only [i32]; omega
              · simp only [i32]; omega

/-- what ⟦readHeader⟧ returns is encoded at the start of the file -/
theorem readHeader_inv (o : FOps) (view : Bytes) (ps : Nat) (hd : Header)
    (hok : readHeader o view ps = .ok hd) :
    HeaderWF o hd ∧ view.take (16 + 12 * hd.archives.length) = encHeader hd ∧
      16 + 12 * hd.archives.length ≤ view.length := by
  unfold readHeader at hok
  simp only [bind, Except.bind] at hok
  cases h1 : readAt view 0 16 with
  | error e => rw [h1] at hok; simp at hok
  | ok b =>
    rw [h1] at hok; simp only at hok
    have hb : b = view.take 16 ∧ 16 ≤ view.length := by
      unfold readAt at h1
      split at h1
      · simp at h1
      · injection h1 with h1; rw [← h1]; simp; omega
    cases h2 : decHeader o b with
    | ok v =>
      obtain ⟨h, r⟩ := v
      rw [h2] at hok; simp only [pure, Except.pure] at hok
      injection hok with hok; subst hok
      obtain ⟨e, wf⟩ := decHeader_inv o b _ r h2
      have hlen : b.length = 16 := by rw [hb.1]; simp; omega
      have hL := encHeader_length h
      have : (encHeader h ++ r).length = 16 := by rw [← e]; exact hlen
      simp only [List.length_append] at this
      -- sixteen bytes hold no archive, and an empty list is not valid
      have h0 : h.archives.length = 0 := by omega
      have hnil : h.archives = [] := List.length_eq_zero_iff.1 h0
      have hv := wf.valid
      rw [hnil] at hv
      simp [validateArchs] at hv
    | error e =>
      rw [h2] at hok
      cases e with
      | panic w => simp [throw, throwThe, MonadExceptOf.throw] at hok
      | err k => simp [throw, throwThe, MonadExceptOf.throw] at hok
      | wantLarger n =>
        simp only at hok
        split at hok
        · simp [throw, throwThe, MonadExceptOf.throw] at hok
        · rename_i hn
          cases h3 : readAt view 0 n.toNat with
          | error e => rw [h3] at hok; simp at hok
          | ok b2 =>
            rw [h3] at hok; simp only at hok
            cases h4 : decHeader o (b2 ++ List.replicate ((if n.toNat > ps then n.toNat else ps) - n.toNat) 0) with
            | error e => rw [h4] at hok; simp at hok
            | ok v =>
              obtain ⟨h, r⟩ := v
              rw [h4] at hok; simp only [pure, Except.pure] at hok
              injection hok with hok; subst hok
              obtain ⟨e, wf⟩ := decHeader_inv o _ _ r h4
              have hb2 : b2 = view.take n.toNat ∧ n.toNat ≤ view.length := by
                unfold readAt at h3
                split at h3
                · simp at h3
                · injection h3 with h3; rw [← h3]; simp; omega
              -- the size asked for is the size of the header returned
              have hn' : n = ((16 + de32 (b.drop 12) * 12 : Nat) : Int) := by
                unfold decHeader at h2
                dsimp only at h2
                split at h2
                · rename_i hlt; rw [hb.1] at hlt; simp at hlt; omega
                · split at h2
                  · simp at h2
                  · split at h2
                    · simp at h2
                    · split at h2
                      · injection h2 with h2; injection h2 with h2; rw [← h2]; omega
                      · rename_i hge
                        exfalso
                        obtain ⟨as, rest, hv, _⟩ := C15.decArchs_ok (de32 (b.drop 12)) (b.drop 16) (by omega)
                        rw [hv] at h2
                        simp only at h2
                        split at h2 <;> simp at h2
              have hN : n.toNat = 16 + de32 (b.drop 12) * 12 := by rw [hn']; omega
              have hge : 16 ≤ n.toNat := by omega
              -- the count field read in the first step is the count of the header returned
              have hcnt : de32 (b.drop 12) = h.count := by
                have c1 : de32 (b.drop 12) = de32 (view.drop 12) := by
                  rw [hb.1]; exact de32_drop_take view 12 16 (by omega)
                have c2 : de32 ((encHeader h ++ r).drop 12) = h.count := by
                  unfold encHeader encDuration
                  simp only [List.append_assoc, drop12_be32x3]
                  exact de32_be32_append _ wf.count_lt _
                have c3 : de32 ((b2 ++ List.replicate ((if n.toNat > ps then n.toNat else ps) - n.toNat) 0).drop 12) =
                    de32 (view.drop 12) := by
                  have hl2 : b2.length = n.toNat := by rw [hb2.1]; simp; omega
                  have t16 : (b2 ++ List.replicate ((if n.toNat > ps then n.toNat else ps) - n.toNat) 0).take 16 =
                      view.take 16 := by
                    rw [List.take_append_of_le_length (by omega), hb2.1, List.take_take]
                    congr 1; omega
                  rw [← de32_drop_take _ 12 16 (by omega), t16]
                  exact de32_drop_take view 12 16 (by omega)
                rw [c1, ← c3, e, c2]
              have hc := wf.count
              have hL := encHeader_length h
              have hl2 : b2.length = n.toNat := by rw [hb2.1]; simp; omega
              have hlen : b2.length = (encHeader h).length := by rw [hl2, hN, hcnt, hL, hc]; omega
              have hb2e := (List.append_inj e hlen).1
              have hNN : n.toNat = 16 + 12 * h.archives.length := by rw [hN, hcnt, hc]; omega
              refine ⟨wf, ?_, by rw [← hNN]; exact hb2.2⟩
              rw [← hNN, ← hb2.1]; exact hb2e

/-- **whatever `Open` returns can be reopened**: the bytes the handle publishes start with
    the encoding of its header -/
theorem opened_reopenable (o : FOps) (bytes : Bytes) (ps : Nat) (h : Handle)
    (ho : openBytes o bytes ps = .ok h) : Reopenable o h := by
  unfold openBytes at ho
  simp only [bind, Except.bind] at ho
  cases hr : readHeader o bytes ps with
  | error e => simp [hr] at ho
  | ok hd =>
    rw [hr] at ho
    simp only at ho
    split at ho
    · simp [throw, throwThe, MonadExceptOf.throw] at ho
    · rename_i hlt
      simp only [pure, Except.pure] at ho
      injection ho with ho; subst ho
      obtain ⟨wf, pre, _⟩ := readHeader_inv o bytes ps hd hr
      exact ⟨wf, pre, by simp only; omega⟩

/-- `Open` is idempotent on what it publishes: reopening an opened handle's bytes — after
    any updates — gives the handle back -/
theorem reopen_opened (o : FOps) (bytes : Bytes) (ps ps' : Nat) (h : Handle)
    (ho : openBytes o bytes ps = .ok h) : openBytes o h.view ps' = .ok h :=
  open_reopenable o h (opened_reopenable o bytes ps h ho) ps'

end Wsp.C14
