/-
  C08  copy makes the destination equal to the source over the requested window.

  Proved of the command model (`Cmd.copyOne`, with the repaired per-archive re-diff):
  the source is never modified; a missing destination is created with the requested
  layout even when nothing is copied or the copy fails later; a layout mismatch writes
  nothing; when there is no difference nothing is written; every point written is a point
  of the source series, NaN source points only with copy-nan (`written_are_source_points`);
  with a glob the matched files are copied pairwise in order, stopping at the first error.
  Not a theorem (partial): `dest_equals_source` — that after success every selected slot of
  the window holds the source's value.  It is asserted on the real code on every run
  (post-check: diff over the same window right after a successful copy shows no slot where
  the source has a value; repeating the copy writes nothing).
-/
import Wsp.Props.C09
namespace Wsp.C08
open Wsp.Cmd

theorem get_set_ne (t : Tree) (p q : String) (b : Bytes) (h : q ≠ p) : (t.set p b).get q = t.get q := by
  simp [Tree.set, Tree.get, h]

theorem get_set_same (t : Tree) (p : String) (b : Bytes) : (t.set p b).get p = some b := by
  simp [Tree.set, Tree.get]

/-- `openOrCreate` touches only the destination path -/
theorem openOrCreate_other (o : FOps) (t t' : Tree) (dst q : String) (c : CopyOpts) (h : Handle)
    (ho : openOrCreate o t dst c = .ok (t', h)) (hq : q ≠ dst) : t'.get q = t.get q := by
  unfold openOrCreate at ho
  split at ho
  · simp at ho
  · split at ho
    · split at ho
      · simp at ho
      · injection ho with ho; injection ho with h1 _; subst h1; rfl
    · split at ho
      · simp at ho
      · injection ho with ho; injection ho with h1 _; subst h1
        exact get_set_ne _ _ _ _ hq

/-- a missing destination is created (with the requested layout, header synced) as soon as
    the destination is opened — whatever happens afterwards -/
theorem openOrCreate_creates (o : FOps) (t t' : Tree) (dst : String) (c : CopyOpts) (h : Handle)
    (hmiss : t.get dst = none) (ho : openOrCreate o t dst c = .ok (t', h)) :
    t'.get dst = some h.view ∧ ∃ disk, createHandle o c.agg c.xff c.lay = .ok (disk, h) := by
  unfold openOrCreate at ho
  split at ho
  · simp at ho
  · simp only [hmiss] at ho
    split at ho
    · simp at ho
    · rename_i disk h0 hc
      injection ho with ho; injection ho with h1 h2; subst h1 h2
      exact ⟨get_set_same _ _ _, disk, hc⟩

theorem copyCore_other (o : FOps) (t : Tree) (dst q : String) (hd : Handle) (sa : List Arch)
    (ls : List (Option Series)) (w : Window) (ex : Bool) (hq : q ≠ dst) :
    (copyCore o t dst hd sa ls w ex).1.get q = t.get q := by
  unfold copyCore
  split
  · rfl
  · split
    · rfl
    · split
      · rfl
      · dsimp only
        split
        · rfl
        · split
          · rfl
          · exact get_set_ne _ _ _ _ hq

/-- **the source is never modified** (nor any file other than the destination) -/
theorem source_untouched (o : FOps) (t : Tree) (src dst q : String) (c : CopyOpts) (w : Window)
    (hq : q ≠ dst) : (copyOne o t src dst c w).1.get q = t.get q := by
  unfold copyOne
  cases ho : openOrCreate o t dst c with
  | error e => rfl
  | ok r =>
    obtain ⟨t', hd⟩ := r
    have h1 := openOrCreate_other o t t' dst q c hd ho hq
    simp only
    split
    · exact h1
    · rw [copyCore_other o t' dst q hd _ _ w _ hq]; exact h1

/-- **a missing destination is created** with the requested layout, even when there is
    nothing to copy or the copy fails after the destination was opened -/
theorem creates_missing_dest (o : FOps) (t : Tree) (src dst : String) (c : CopyOpts) (w : Window)
    (hmiss : t.get dst = none) (t' : Tree) (hd : Handle) (ho : openOrCreate o t dst c = .ok (t', hd)) :
    ((copyOne o t src dst c w).1.get dst).isSome = true := by
  have hc := (openOrCreate_creates o t t' dst c hd hmiss ho).1
  unfold copyOne
  simp only [ho]
  split
  · simp [hc]
  · unfold copyCore
    split
    · simp [hc]
    · split
      · simp [hc]
      · split
        · simp [hc]
        · dsimp only
          split
          · simp [hc]
          · split
            · simp [hc]
            · simp [get_set_same]

/-- **a layout mismatch is reported without writing anything** -/
theorem mismatch_writes_no_point (o : FOps) (t : Tree) (dst : String) (hd : Handle) (sa : List Arch)
    (ls : List (Option Series)) (w : Window) (ex : Bool) (ld : List (Option Series))
    (hf : fetchList hd w.archiveID w.from_ w.until' w.now = .ok ld)
    (hne : layoutsEqual sa hd.archs = false) :
    copyCore o t dst hd sa ls w ex = (t, .err .mismatch, []) := by
  unfold copyCore
  simp [hf, hne]

/-- **nothing to copy writes nothing** (this is what makes a repeated copy a no-op once the
    destination equals the source) -/
theorem no_difference_writes_nothing (o : FOps) (t : Tree) (dst : String) (hd : Handle) (sa : List Arch)
    (ls ld : List (Option Series)) (w : Window) (ex : Bool)
    (hf : fetchList hd w.archiveID w.from_ w.until' w.now = .ok ld)
    (hl : layoutsEqual sa hd.archs = true) (hr : rangesEqual ls ld = true)
    (he : allEmpty (diffLists o ex ls ld).1 = true ∧ allEmpty (diffLists o ex ls ld).2 = true) :
    copyCore o t dst hd sa ls w ex = (t, .ok, []) := by
  unfold copyCore
  simp [hf, hl, hr, he.1, he.2]

/-- every point `DiffPoints` hands over for writing is a point of the source series, and
    without copy-nan none of them is NaN -/
theorem written_are_source_points (o : FOps) (exclNaN : Bool) (f1 f2 : Nat) (step : Int) :
    ∀ (i : Nat) (vs vs2 : List Val) (p : Point), p ∈ (diffLoop o exclNaN f1 f2 step i vs vs2).1 →
      p ∈ seriesPointsFrom f1 step i vs ∧ (exclNaN = true → o.isNaN p.v = false) := by
  intro i vs
  induction vs generalizing i with
  | nil => intro vs2 p hp; cases vs2 <;> simp [diffLoop] at hp
  | cons v vs ih =>
    intro vs2 p hp
    cases vs2 with
    | nil => simp [diffLoop] at hp
    | cons v2 vs2 =>
      simp only [diffLoop] at hp
      simp only [seriesPointsFrom]
      split at hp
      · rename_i hc
        simp only [List.mem_cons] at hp
        rcases hp with rfl | hp
        · refine ⟨by simp, ?_⟩
          intro hex
          have := hc.2
          simp [hex] at this
          exact this
        · have := ih (i + 1) vs2 p hp
          exact ⟨by simp [this.1], this.2⟩
      · have := ih (i + 1) vs2 p hp
        exact ⟨by simp [this.1], this.2⟩

/-- with a glob, the matched files are copied pair by pair in order: a success moves on
    to the next pair with the updated tree … -/
theorem glob_next (o : FOps) (c : CopyOpts) (w : Window) (t t' : Tree) (s d : String)
    (rest : List (String × String)) (recs : List Rec) (h : copyOne o t s d c w = (t', .ok, recs)) :
    copyMany o c w t ((s, d) :: rest) =
      ((copyMany o c w t' rest).1, (copyMany o c w t' rest).2.1, recs :: (copyMany o c w t' rest).2.2) := by
  simp only [copyMany, h]

/-- … and the first failure stops the run with that failure -/
theorem glob_stops (o : FOps) (c : CopyOpts) (w : Window) (t t' : Tree) (s d : String)
    (rest : List (String × String)) (oc : Outcome) (recs : List Rec)
    (h : copyOne o t s d c w = (t', oc, recs)) (hne : oc ≠ .ok) :
    copyMany o c w t ((s, d) :: rest) = (t', oc, [recs]) := by
  cases oc with
  | ok => exact absurd rfl hne
  | diffFound => simp only [copyMany, h]
  | err k => simp only [copyMany, h]
  | panic => simp only [copyMany, h]

end Wsp.C08
