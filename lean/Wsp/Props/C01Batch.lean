/-
  C01 for batch updates: ⟦archiveUpdateMany⟧ writes the aligned points of its share of the
  batch one after the other with the slot index computed from the base interval read once
  at the start; that is the same sequence of writes as the single-write path performs
  (`putPoints_reach`), so the history theorem applies to batches as it does to single
  updates.
-/
import Wsp.Props.C01System
import Wsp.Proofs.Batch
namespace Wsp.C01
open Wsp.Handle Wsp.C14 Wsp.Total

/-- with a congruent base the slot offset is the one ⟦getPointOffset⟧ computes now -/
theorem getPointOffset_live (h : Handle) (a : Arch) (base I : Nat) (lv : Live h a)
    (hb : base < 2147483648)
    (hc : (a.step * (a.n : Int)) ∣ (((slotAt h a 0).t : Int) - (base : Int)))
    (gI : OnGrid a base I) :
    h.getPointOffset I a = .ok (a.pointOffsetAt (a.pointIndex base I)) := by
  have hbI : h.baseInterval a = .ok (slotAt h a 0).t :=
    baseInterval_slot h a (by have := lv.view; have := lv.hn; omega)
  unfold getPointOffset
  rw [hbI]
  simp only [lv.b0, if_false]
  have hs := base_change_keeps_slots a base (slotAt h a 0).t I lv.hs lv.hn hb lv.blt gI.lt hc gI.al
  have r1 := pointIndex_range a lv.hn (slotAt h a 0).t I
  have r2 := pointIndex_range a lv.hn base I
  unfold slotIdx at hs
  have : a.pointIndex (slotAt h a 0).t I = a.pointIndex base I := by omega
  rw [this]

/-- the batch write loop on a live archive is the sequence of its single writes -/
theorem putPoints_reach_live (a : Arch) (base : Nat) (hb : base < 2147483648) (pts : List Point) :
    ∀ (h h' : Handle), Live h a →
      (a.step * (a.n : Int)) ∣ (((slotAt h a 0).t : Int) - (base : Int)) →
      (∀ p ∈ pts, OnGrid a base p.t ∧ p.t ≠ 0) →
      putPoints h a base pts = .ok h' →
      Reach a h (pts.map fun p => some (p.t, p.v)) h' := by
  induction pts with
  | nil =>
    intro h h' _ _ _ hp
    simp only [putPoints] at hp
    injection hp with hp; subst hp
    exact SameOn.refl a h
  | cons p rest ih =>
    intro h h' lv hc hg hp
    simp only [putPoints] at hp
    cases hput : h.putPointAt p (a.pointOffsetAt (a.pointIndex base p.t)) with
    | error e => rw [hput] at hp; simp at hp
    | ok h1 =>
      rw [hput] at hp; simp only at hp
      have hgp := hg p (by simp)
      have hoff := getPointOffset_live h a base p.t lv hb hc hgp.1
      have hcs : (a.step * (a.n : Int)) ∣ ((base : Int) - ((slotAt h a 0).t : Int)) := by
        obtain ⟨m, hm⟩ := hc; exact ⟨-m, by rw [Int.mul_neg]; omega⟩
      have gcur : OnGrid a (slotAt h a 0).t p.t := hgp.1.of_cong hc
      have hput' : h.putPointAt ⟨p.t, p.v⟩ (a.pointOffsetAt (a.pointIndex base p.t)) = .ok h1 := by
        cases p; exact hput
      obtain ⟨lv1, hc1, _⟩ := write_step h h1 a p.t p.v _ lv gcur hgp.2 hoff hput'
      have hc' : (a.step * (a.n : Int)) ∣ (((slotAt h1 a 0).t : Int) - (base : Int)) := by
        obtain ⟨m1, e1⟩ := hc1
        obtain ⟨m2, e2⟩ := hc
        exact ⟨m1 + m2, by rw [Int.mul_add]; omega⟩
      have r := ih h1 h' lv1 hc' (fun q hq => hg q (by simp [hq])) hp
      simp only [List.map_cons, Reach]
      exact ⟨_, h1, h1, hoff, hput', SameOn.refl a h1, r⟩

/-- on a never-written archive the first point of the batch becomes the base -/
theorem putPoints_reach_fresh (a : Arch) (p : Point) (rest : List Point) (h h' : Handle) (fr : Fresh h a)
    (hp0 : p.t < 2147483648 ∧ p.t ≠ 0)
    (hg : ∀ q ∈ rest, OnGrid a p.t q.t ∧ q.t ≠ 0)
    (hp : putPoints h a p.t (p :: rest) = .ok h') :
    Reach a h ((p :: rest).map fun q => some (q.t, q.v)) h' := by
  simp only [putPoints] at hp
  have hidx : a.pointIndex p.t p.t = 0 := by
    have := slotIdx_base a p.t fr.hn
    have r := pointIndex_range a fr.hn p.t p.t
    unfold slotIdx at this; omega
  rw [hidx] at hp
  have hoff0 : a.pointOffsetAt 0 = a.offset := by
    have := pointOffsetAt_ideal a 0 (by omega) (by have := fr.hn; omega) fr.fit
    simpa using this
  rw [hoff0] at hp
  cases hput : h.putPointAt p a.offset with
  | error e => rw [hput] at hp; simp at hp
  | ok h1 =>
    rw [hput] at hp; simp only at hp
    have hbI : h.baseInterval a = .ok 0 := by
      rw [← fr.zero 0 fr.hn]; exact baseInterval_slot h a (by have := fr.view; have := fr.hn; omega)
    have hoff : h.getPointOffset p.t a = .ok a.offset := by
      unfold getPointOffset; rw [hbI]; simp
    have hput' : h.putPointAt ⟨p.t, p.v⟩ a.offset = .ok h1 := by cases p; exact hput
    obtain ⟨lv1, hb1, _⟩ := first_write h h1 a p.t p.v a.offset fr hp0.1 hp0.2 hoff hput'
    have r := putPoints_reach_live a p.t hp0.1 rest h1 h' lv1 (by rw [hb1]; exact ⟨0, by omega⟩) hg hp
    simp only [List.map_cons, Reach]
    exact ⟨_, h1, h1, hoff, hput', SameOn.refl a h1, r⟩

/-- every aligned point carries the write interval of one of the batch's points -/
theorem alignPointsLoop_times (a : Arch) (P : Nat → Prop) : ∀ (ps acc : List Point) (prev : Nat) (first : Bool),
    (∀ p ∈ ps, P p.t) → (∀ d ∈ acc, ∃ q, P q ∧ d.t = a.intervalForWrite q) →
    ∀ d ∈ alignPointsLoop a acc prev first ps, ∃ q, P q ∧ d.t = a.intervalForWrite q := by
  intro ps
  induction ps with
  | nil => intro acc prev first _ hacc d hd; simp only [alignPointsLoop] at hd; exact hacc d (by simpa using hd)
  | cons p ps ih =>
    intro acc prev first hps hacc d hd
    have hps' : ∀ q ∈ ps, P q.t := fun q hq => hps q (by simp [hq])
    simp only [alignPointsLoop] at hd
    split at hd
    · cases acc with
      | nil => exact ih [] prev false hps' (by intro x hx; simp at hx) d hd
      | cons last acc' =>
        refine ih _ prev false hps' ?_ d hd
        intro x hx
        simp only [List.mem_cons] at hx
        rcases hx with rfl | hx
        · exact hacc last (by simp)
        · exact hacc x (by simp [hx])
    · refine ih _ _ false hps' ?_ d hd
      intro x hx
      simp only [List.mem_cons] at hx
      rcases hx with rfl | hx
      · exact ⟨p.t, hps p (by simp), rfl⟩
      · exact hacc x hx

theorem alignPoints_times (a : Arch) (P : Nat → Prop) (ps : List Point) (hps : ∀ p ∈ ps, P p.t) :
    ∀ d ∈ alignPoints a ps, ∃ q, P q ∧ d.t = a.intervalForWrite q :=
  alignPointsLoop_times a P ps [] 0 true hps (by intro x hx; simp at hx)

/-! ### events up to what leaves the archive alone, and their concatenation -/

/-- `Reach`, tolerant of anything that left the archive alone beforehand -/
def ReachS (a : Arch) (h : Handle) (es : List (Option (Nat × Val))) (h' : Handle) : Prop :=
  ∃ h0, SameOn a h h0 ∧ Reach a h0 es h'

theorem Reach.toS {a : Arch} {h h' : Handle} {es : List (Option (Nat × Val))} (r : Reach a h es h') :
    ReachS a h es h' := ⟨h, SameOn.refl a h, r⟩

theorem ReachS.of_sameOn {a : Arch} {h h' : Handle} (s : SameOn a h h') : ReachS a h [] h' :=
  ⟨h, SameOn.refl a h, s⟩

theorem ReachS.append (a : Arch) (es1 es2 : List (Option (Nat × Val))) :
    ∀ (h hm h' : Handle), ReachS a h es1 hm → ReachS a hm es2 h' → ReachS a h (es1 ++ es2) h' := by
  induction es1 with
  | nil =>
    intro h hm h' r1 r2
    obtain ⟨h0, s0, r⟩ := r1
    obtain ⟨hm0, sm, r'⟩ := r2
    exact ⟨hm0, (s0.trans r).trans sm, r'⟩
  | cons e es ih =>
    intro h hm h' r1 r2
    obtain ⟨h0, s0, r⟩ := r1
    cases e with
    | none =>
      obtain ⟨hx, sx, rx⟩ := r
      obtain ⟨hx0, sx0, rr⟩ := ih hx hm h' rx.toS r2
      exact ⟨h0, s0, hx0, sx.trans sx0, rr⟩
    | some w =>
      obtain ⟨off, h1, hx, hg, hput, sx, rx⟩ := r
      obtain ⟨hx0, sx0, rr⟩ := ih hx hm h' rx.toS r2
      exact ⟨h0, s0, off, h1, hx0, hg, hput, sx.trans sx0, rr⟩

theorem Fresh.of_sameOn {a : Arch} {h h' : Handle} (fr : Fresh h a) (s : SameOn a h h') : Fresh h' a :=
  ⟨fr.hs, fr.hn, fr.fit, by rw [s.1]; exact fr.view, fun j hj => by rw [s.2 j hj]; exact fr.zero j hj⟩

/-- the history theorem from a fresh archive, over `ReachS` -/
theorem history_freshS (a : Arch) (es : List (Option (Nat × Val))) (h h' : Handle) (fr : Fresh h a)
    (hws : ∀ w ∈ writesOf es, w.1 < 2147483648 ∧ a.step ∣ (w.1 : Int) ∧ w.1 ≠ 0)
    (r : ReachS a h es h') :
    ∀ J : Nat, J < 2147483648 → a.step ∣ (J : Int) → J ≠ 0 →
      ringValue h' a (slotAt h' a 0).t J = histValue a (writesOf es) (fun _ => nanBits) J := by
  obtain ⟨h0, s0, r0⟩ := r
  exact history_fresh a es h0 h' (fr.of_sameOn s0) hws r0

/-- the state an archive is in: never written, or live on the step grid -/
def ArchState (h : Handle) (a : Arch) : Prop :=
  Fresh h a ∨ (Live h a ∧ a.step ∣ ((slotAt h a 0).t : Int) )

theorem reach_state (a : Arch) (es : List (Option (Nat × Val))) :
    ∀ (h h' : Handle), ArchState h a →
      (∀ w ∈ writesOf es, w.1 < 2147483648 ∧ a.step ∣ (w.1 : Int) ∧ w.1 ≠ 0) →
      Reach a h es h' → ArchState h' a := by
  induction es with
  | nil =>
    intro h h' st _ r
    rcases st with fr | ⟨lv, al⟩
    · exact Or.inl (fr.of_sameOn r)
    · obtain ⟨lv', hb, _⟩ := SameOn.live r lv
      exact Or.inr ⟨lv', by rw [hb]; exact al⟩
  | cons e es ih =>
    intro h h' st hws r
    cases e with
    | none =>
      obtain ⟨hm, s, r'⟩ := r
      have e1 : writesOf (none :: es) = writesOf es := by simp [writesOf]
      refine ih hm h' ?_ (by intro w hw; exact hws w (by rw [e1]; exact hw)) r'
      rcases st with fr | ⟨lv, al⟩
      · exact Or.inl (fr.of_sameOn s)
      · obtain ⟨lv', hb, _⟩ := SameOn.live s lv
        exact Or.inr ⟨lv', by rw [hb]; exact al⟩
    | some w =>
      obtain ⟨off, h1, hm, hoff, hput, s, r'⟩ := r
      have e1 : writesOf (some w :: es) = w :: writesOf es := by simp [writesOf]
      have hw := hws w (by rw [e1]; simp)
      refine ih hm h' ?_ (by intro x hx; exact hws x (by rw [e1]; simp [hx])) r'
      rcases st with fr | ⟨lv, al⟩
      · obtain ⟨lv1, hb1, _⟩ := first_write h h1 a w.1 w.2 off fr hw.1 hw.2.2 hoff hput
        obtain ⟨lvm, hb, _⟩ := SameOn.live s lv1
        exact Or.inr ⟨lvm, by rw [hb, hb1]; exact hw.2.1⟩
      · have g : OnGrid a (slotAt h a 0).t w.1 := ⟨hw.1, Int.dvd_sub hw.2.1 al⟩
        obtain ⟨lv1, hc1, _⟩ := write_step h h1 a w.1 w.2 off lv g hw.2.2 hoff hput
        obtain ⟨lvm, hb, _⟩ := SameOn.live s lv1
        refine Or.inr ⟨lvm, ?_⟩
        rw [hb]
        obtain ⟨m, hm'⟩ := hc1
        obtain ⟨q, hq⟩ := al
        exact ⟨q + (a.n : Int) * m, by rw [Int.mul_add, ← Int.mul_assoc]; omega⟩

theorem ArchState.of_sameOn {a : Arch} {h h' : Handle} (st : ArchState h a) (s : SameOn a h h') : ArchState h' a := by
  rcases st with fr | ⟨lv, al⟩
  · exact Or.inl (fr.of_sameOn s)
  · obtain ⟨lv', hb, _⟩ := SameOn.live s lv
    exact Or.inr ⟨lv', by rw [hb]; exact al⟩

theorem reachS_state (a : Arch) (es : List (Option (Nat × Val))) (h h' : Handle) (st : ArchState h a)
    (hws : ∀ w ∈ writesOf es, w.1 < 2147483648 ∧ a.step ∣ (w.1 : Int) ∧ w.1 ≠ 0)
    (r : ReachS a h es h') : ArchState h' a := by
  obtain ⟨h0, s0, r0⟩ := r
  exact reach_state a es h0 h' (st.of_sameOn s0) hws r0

/-! ### one batch update of a file, seen from the finest archive -/

/-- times a caller writes: below 2^31 and at least one step of the finest archive -/
def TimeOK (a0 : Arch) (t : Nat) : Prop := t < 2147483648 ∧ a0.step ≤ t

theorem aligned_ok (a0 : Arch) (hs : 0 < a0.step) (q : Nat) (hq : TimeOK a0 q) :
    a0.intervalForWrite q < 2147483648 ∧ a0.step ∣ ((a0.intervalForWrite q : Nat) : Int) ∧ a0.intervalForWrite q ≠ 0 := by
  have hid := intervalForWrite_ideal a0 q hs (by have := hq.1; omega)
  have hal := alignDown_le q a0.step hs
  have hq1 := hq.1
  refine ⟨by omega, by rw [hid]; exact alignDown_dvd q a0.step, ?_⟩
  intro h0
  rw [h0] at hid
  unfold alignDown at hid hal
  have hm := Int.emod_lt_of_pos (q : Int) hs
  have := hq.2
  omega

theorem archiveUpdateMany_at (o : FOps) (h h' : Handle) (g : Good h) (k : Nat) (a0 : Arch) (ha0 : h.archs[k]? = some a0)
    (st : ArchState h a0) (ps : List Point) (hps : ∀ p ∈ ps, TimeOK a0 p.t)
    (hp : archiveUpdateMany o h ps k = .ok h') :
    ReachS a0 h ((alignPoints a0 ps).map fun p => some (p.t, p.v)) h' ∧ Good h' ∧ h'.hdr = h.hdr := by
  have fr0 := archiveUpdateMany_frame o h h' g.placed ps k hp
  refine ⟨?_, g.of_frame fr0, fr0.1⟩
  have hs0 : 0 < a0.step := by rcases st with fr | ⟨lv, _⟩; exact fr.hs; exact lv.hs
  have hal : ∀ d ∈ alignPoints a0 ps, d.t < 2147483648 ∧ a0.step ∣ (d.t : Int) ∧ d.t ≠ 0 := by
    intro d hd
    obtain ⟨q, hq, e⟩ := alignPoints_times a0 (TimeOK a0) ps hps d hd
    rw [e]; exact aligned_ok a0 hs0 q hq
  have hview : a0.offset + 12 ≤ h.view.length := by
    rcases st with fr | ⟨lv, _⟩
    · have := fr.view; have := fr.hn; omega
    · have := lv.view; have := lv.hn; omega
  have hbI := baseInterval_slot h a0 hview
  unfold archiveUpdateMany at hp
  rw [ha0] at hp
  simp only [hbI] at hp
  have pf := placedFrom_of_valid h g.1.valid g.1.range k a0 ha0
  -- the tail: propagation below archive 0 leaves it alone
  have tail : ∀ (hm : Handle) (base : Nat), putPoints h a0 base (alignPoints a0 ps) = .ok hm →
      propagateChain o hm k (alignPoints a0 ps) = .ok h' → SameOn a0 hm h' := by
    intro hm base hput hpc
    have f1 := putPoints_frame a0 (g.placed a0 (mem_of_getElem? ha0)) base _ h hm hput
    have pfm : PlacedFrom hm (k + 1) (a0.offset + 12 * a0.n) h.hdr.total := by
      intro i b hi hb
      apply pf i b hi
      unfold Handle.archs at hb ⊢
      rw [f1.1] at hb; exact hb
    exact frame_sameOn a0 (propagateChain_frameFrom o hm h' k pfm _ hpc) (by omega)
  rcases st with fr | ⟨lv, al⟩
  · -- never written: the first aligned point becomes the base
    have hb0 : (slotAt h a0 0).t = 0 := fr.zero 0 fr.hn
    simp only [hb0, if_true] at hp
    cases hA : alignPoints a0 ps with
    | nil => rw [hA] at hp; simp at hp
    | cons d rest =>
      rw [hA] at hp
      simp only [List.head?_cons, Option.map_some] at hp
      cases hput : putPoints h a0 d.t (d :: rest) with
      | error e => rw [hput] at hp; simp at hp
      | ok hm =>
        rw [hput] at hp; simp only at hp
        have hd := hal d (by rw [hA]; simp)
        have r := putPoints_reach_fresh a0 d rest h hm fr ⟨hd.1, hd.2.2⟩ (by
          intro q hq
          have hq' := hal q (by rw [hA]; simp [hq])
          exact ⟨⟨hq'.1, Int.dvd_sub hq'.2.1 hd.2.1⟩, hq'.2.2⟩) hput
        have s := tail hm d.t (by rw [hA]; exact hput) (by rw [hA]; exact hp)
        have := ReachS.append a0 _ [] h hm h' r.toS (ReachS.of_sameOn s)
        rw [List.append_nil] at this
        exact this
  · have hb0 : ¬ (slotAt h a0 0).t = 0 := lv.b0
    simp only [hb0, if_false] at hp
    cases hput : putPoints h a0 (slotAt h a0 0).t (alignPoints a0 ps) with
    | error e => rw [hput] at hp; simp at hp
    | ok hm =>
      rw [hput] at hp; simp only at hp
      have r := putPoints_reach_live a0 (slotAt h a0 0).t lv.blt (alignPoints a0 ps) h hm lv ⟨0, by omega⟩ (by
        intro q hq
        have hq' := hal q hq
        exact ⟨⟨hq'.1, Int.dvd_sub hq'.2.1 al⟩, hq'.2.2⟩) hput
      have s := tail hm _ hput hp
      have := ReachS.append a0 _ [] h hm h' r.toS (ReachS.of_sameOn s)
      rw [List.append_nil] at this
      exact this

theorem archiveUpdateMany_zero (o : FOps) (h h' : Handle) (g : Good h) (a0 : Arch) (ha0 : h.archs[0]? = some a0)
    (st : ArchState h a0) (ps : List Point) (hps : ∀ p ∈ ps, TimeOK a0 p.t)
    (hp : archiveUpdateMany o h ps 0 = .ok h') :
    ReachS a0 h ((alignPoints a0 ps).map fun p => some (p.t, p.v)) h' ∧ Good h' ∧ h'.hdr = h.hdr :=
  archiveUpdateMany_at o h h' g 0 a0 ha0 st ps hps hp

theorem archiveUpdateMany_other (o : FOps) (h h' : Handle) (g : Good h) (a0 : Arch) (ha0 : h.archs[0]? = some a0)
    (ps : List Point) (k : Nat) (hk : 1 ≤ k) (hp : archiveUpdateMany o h ps k = .ok h') :
    SameOn a0 h h' ∧ Good h' ∧ h'.hdr = h.hdr := by
  have fr0 := archiveUpdateMany_frame o h h' g.placed ps k hp
  refine ⟨?_, g.of_frame fr0, fr0.1⟩
  have pf0 := placedFrom_of_valid h g.1.valid g.1.range 0 a0 ha0
  unfold archiveUpdateMany at hp
  cases ha : h.archs[k]? with
  | none => rw [ha] at hp; simp at hp
  | some a =>
    rw [ha] at hp
    dsimp only at hp
    split at hp
    · simp at hp
    · split at hp
      · simp at hp
      · rename_i base _
        split at hp
        · simp at hp
        · rename_i hm hput
          have pa : ArchPlace (a0.offset + 12 * a0.n) h.hdr.total a := pf0 k a (by omega) ha
          have f1 := putPoints_frame a pa base _ h hm hput
          have pfm : PlacedFrom hm (k + 1) (a0.offset + 12 * a0.n) h.hdr.total :=
            (pf0.of_frame f1).mono (by omega)
          have f2 := propagateChain_frameFrom o hm h' k pfm _ hp
          exact frame_sameOn a0 (f1.trans f2) (by omega)

theorem updateManyLoop_other (o : FOps) (k : Int) (now : Nat) (a0 : Arch) (as : List Arch) :
    ∀ (h h' : Handle) (ps : List Point) (i : Nat), 1 ≤ i → Good h → h.archs[0]? = some a0 →
      updateManyLoop o k now h ps i as = .ok h' → SameOn a0 h h' ∧ Good h' ∧ h'.hdr = h.hdr := by
  induction as with
  | nil =>
    intro h h' ps i _ g _ hp
    simp only [updateManyLoop] at hp
    injection hp with hp; subst hp
    exact ⟨SameOn.refl a0 h, g, rfl⟩
  | cons a as ih =>
    intro h h' ps i hi g ha0 hp
    simp only [updateManyLoop] at hp
    split at hp
    · exact ih h h' ps (i + 1) (by omega) g ha0 hp
    · split at hp
      · exact ih h h' _ (i + 1) (by omega) g ha0 hp
      · cases h1 : archiveUpdateMany o h (extractPoints ps now a.maxRetention).1 i with
        | error e => rw [h1] at hp; simp at hp
        | ok hm =>
          rw [h1] at hp; simp only at hp
          obtain ⟨s1, gm, hh⟩ := archiveUpdateMany_other o h hm g a0 ha0 _ i hi h1
          have ha0m : hm.archs[0]? = some a0 := by unfold Handle.archs at ha0 ⊢; rw [hh]; exact ha0
          obtain ⟨s2, g', hh'⟩ := ih hm h' _ (i + 1) (by omega) gm ha0m hp
          exact ⟨s1.trans s2, g', hh'.trans hh⟩

/-- what a batch update means for the finest archive -/
def batchEvents (a0 : Arch) (ps : List Point) (k : Int) (now : Nat) : List (Option (Nat × Val)) :=
  if k ≠ -1 ∧ k ≠ 0 then [] else
    (alignPoints a0 (extractPoints (sortByTime ps) now a0.maxRetention).1).map fun p => some (p.t, p.v)

theorem extract_cur_subset (ps : List Point) (now : Nat) (ret : Int) :
    ∀ p ∈ (extractPoints (sortByTime ps) now ret).1, p ∈ ps := by
  intro p hp
  rw [extractPoints_sorted _ now ret (sortByTime_sorted ps)] at hp
  simp only [List.mem_filter] at hp
  exact (sortByTime_perm ps).mem_iff.1 hp.1

/-- **one batch update, seen from the finest archive**: the aligned points of its share of
    the batch, written in order; everything else the batch does lies behind it -/
theorem updateMany_reachS (o : FOps) (h h' : Handle) (g : Good h) (a0 : Arch) (ha0 : h.archs[0]? = some a0)
    (st : ArchState h a0) (ps : List Point) (k : Int) (now : Nat) (hps : ∀ p ∈ ps, TimeOK a0 p.t)
    (hp : h.updateMany o ps k now = .ok h') :
    ReachS a0 h (batchEvents a0 ps k now) h' ∧ Good h' ∧ h'.hdr = h.hdr := by
  unfold updateMany at hp
  have harchs : h.archs = a0 :: h.archs.tail := by
    cases hl : h.archs with
    | nil => rw [hl] at ha0; simp at ha0
    | cons x xs => rw [hl] at ha0; simp at ha0; subst ha0; rfl
  rw [harchs] at hp
  simp only [updateManyLoop] at hp
  unfold batchEvents
  by_cases hk : k ≠ -1 ∧ k ≠ 0
  · have hk' : k ≠ -1 ∧ k ≠ ((0 : Nat) : Int) := by simpa using hk
    rw [if_pos hk'] at hp
    rw [if_pos hk]
    obtain ⟨s, g', hh⟩ := updateManyLoop_other o k now a0 _ h h' _ (0 + 1) (by omega) g ha0 hp
    exact ⟨ReachS.of_sameOn s, g', hh⟩
  · have hk' : ¬ (k ≠ -1 ∧ k ≠ ((0 : Nat) : Int)) := by simpa using hk
    rw [if_neg hk'] at hp
    rw [if_neg hk]
    split at hp
    · rename_i hcur
      have hnil : (extractPoints (sortByTime ps) now a0.maxRetention).1 = [] :=
        List.eq_nil_of_length_eq_zero hcur
      rw [hnil]
      obtain ⟨s, g', hh⟩ := updateManyLoop_other o k now a0 _ h h' _ (0 + 1) (by omega) g ha0 hp
      exact ⟨ReachS.of_sameOn s, g', hh⟩
    · cases h1 : archiveUpdateMany o h (extractPoints (sortByTime ps) now a0.maxRetention).1 0 with
      | error e => rw [h1] at hp; simp at hp
      | ok hm =>
        rw [h1] at hp; simp only at hp
        obtain ⟨r1, gm, hh⟩ := archiveUpdateMany_zero o h hm g a0 ha0 st _
          (fun p hp' => hps p (extract_cur_subset ps now _ p hp')) h1
        have ha0m : hm.archs[0]? = some a0 := by unfold Handle.archs at ha0 ⊢; rw [hh]; exact ha0
        obtain ⟨s, g', hh'⟩ := updateManyLoop_other o k now a0 _ hm h' _ (0 + 1) (by omega) gm ha0m hp
        have := ReachS.append a0 _ [] h hm h' r1 (ReachS.of_sameOn s)
        rw [List.append_nil] at this
        exact ⟨this, g', hh'.trans hh⟩

/-! ### any mixture of single and batch updates -/

inductive FOp
  | single (u : Upd)
  | batch (ps : List Point) (k : Int) (now : Nat)

def runFOps (o : FOps) : Handle → List FOp → R Handle
  | h, [] => .ok h
  | h, .single u :: ops =>
    match h.updatePoint o u.k u.t u.v u.now with
    | .error e => .error e
    | .ok h' => runFOps o h' ops
  | h, .batch ps k now :: ops =>
    match h.updateMany o ps k now with
    | .error e => .error e
    | .ok h' => runFOps o h' ops

/-- what an operation means for the finest archive -/
def opEvents (h : Handle) (a0 : Arch) : FOp → List (Option (Nat × Val))
  | .single u => eventsFor h 0 a0 [u]
  | .batch ps k now => batchEvents a0 ps k now

def OpTimesOK (a0 : Arch) : FOp → Prop
  | .single u => TimeOK a0 u.t
  | .batch ps _ _ => ∀ p ∈ ps, TimeOK a0 p.t

theorem opEvents_aligned (h : Handle) (a0 : Arch) (hs : 0 < a0.step) (op : FOp) (hok : OpTimesOK a0 op) :
    ∀ w ∈ writesOf (opEvents h a0 op), w.1 < 2147483648 ∧ a0.step ∣ (w.1 : Int) ∧ w.1 ≠ 0 := by
  intro w hw
  cases op with
  | single u =>
    simp only [opEvents, writesOf, eventsFor, List.map_cons, List.map_nil, List.mem_filterMap, id] at hw
    obtain ⟨e, he, hew⟩ := hw
    subst hew
    simp only [List.mem_cons, List.not_mem_nil, or_false] at he
    split at he
    · injection he with he; subst he
      exact aligned_ok a0 hs u.t hok
    · cases he
  | batch ps k now =>
    simp only [opEvents, batchEvents, writesOf] at hw
    split at hw
    · simp at hw
    · simp only [List.filterMap_map, List.mem_filterMap, Function.comp, id] at hw
      obtain ⟨d, hd, hdw⟩ := hw
      injection hdw with hdw; subst hdw
      obtain ⟨q, hq, e⟩ := alignPoints_times a0 (TimeOK a0) _
        (fun p hp => hok p (extract_cur_subset ps now _ p hp)) d hd
      simp only
      rw [e]; exact aligned_ok a0 hs q hq

theorem opEvents_hdr (h h2 : Handle) (a0 : Arch) (hh : h2.hdr = h.hdr) (op : FOp) : opEvents h2 a0 op = opEvents h a0 op := by
  cases op with
  | single u => simp only [opEvents, eventsFor, chosen, findBestArchive, Handle.archs, hh]; rfl
  | batch ps k now => rfl

theorem runFOps_reachS (o : FOps) (a0 : Arch) (ops : List FOp) :
    ∀ (h h' : Handle), Good h → h.archs[0]? = some a0 → ArchState h a0 →
      (∀ op ∈ ops, OpTimesOK a0 op) → runFOps o h ops = .ok h' →
      ReachS a0 h (ops.flatMap (opEvents h a0)) h' := by
  induction ops with
  | nil =>
    intro h h' _ _ _ _ hp
    simp only [runFOps] at hp
    injection hp with hp; subst hp
    exact ReachS.of_sameOn (SameOn.refl a0 h)
  | cons op ops ih =>
    intro h h' g ha0 st hok hp
    have hs : 0 < a0.step := by rcases st with fr | ⟨lv, _⟩; exact fr.hs; exact lv.hs
    have hop := hok op (by simp)
    have step : ∀ hm, ReachS a0 h (opEvents h a0 op) hm → Good hm → hm.hdr = h.hdr → runFOps o hm ops = .ok h' →
        ReachS a0 h ((op :: ops).flatMap (opEvents h a0)) h' := by
      intro hm r1 gm hh hrest
      have ha0m : hm.archs[0]? = some a0 := by unfold Handle.archs at ha0 ⊢; rw [hh]; exact ha0
      have stm := reachS_state a0 _ h hm st (opEvents_aligned h a0 hs op hop) r1
      have r2 := ih hm h' gm ha0m stm (fun x hx => hok x (by simp [hx])) hrest
      have hev : ops.flatMap (opEvents hm a0) = ops.flatMap (opEvents h a0) := by
        congr 1; funext x; exact opEvents_hdr h hm a0 hh x
      rw [hev] at r2
      simp only [List.flatMap_cons]
      exact ReachS.append a0 _ _ h hm h' r1 r2
    cases op with
    | single u =>
      simp only [runFOps] at hp
      cases hu : h.updatePoint o u.k u.t u.v u.now with
      | error e => rw [hu] at hp; simp at hp
      | ok hm =>
        rw [hu] at hp; simp only at hp
        obtain ⟨r1, gm, hh⟩ := updatePoint_reach o h hm g a0 ha0 u hu
        exact step hm r1.toS gm hh hp
    | batch ps k now =>
      simp only [runFOps] at hp
      cases hu : h.updateMany o ps k now with
      | error e => rw [hu] at hp; simp at hp
      | ok hm =>
        rw [hu] at hp; simp only at hp
        obtain ⟨r1, gm, hh⟩ := updateMany_reachS o h hm g a0 ha0 st ps k now hop hu
        exact step hm r1 gm hh hp

/-- **from `Create` on, through any mixture of single and batch updates**: the finest
    archive reads, for every grid interval, the last value written to it — NaN if a later
    lap took the slot or nothing was written there.  The writes are: for a single update
    routed to the finest archive, its aligned point; for a batch, the aligned points of the
    share of the (stably time-sorted) batch that is younger than the finest retention, in
    order, consecutive points of one interval merged as ⟦alignPoints⟧ does. -/
theorem created_then_any_updates (o : FOps) (agg : Nat) (xff : UInt32) (lay : List (Int × Nat)) (hl : LayInRange lay)
    (disk : Bytes) (h h' : Handle) (hc : createHandle o agg xff lay = .ok (disk, h))
    (a0 : Arch) (ha0 : h.archs[0]? = some a0) (ops : List FOp)
    (hok : ∀ op ∈ ops, OpTimesOK a0 op) (hp : runFOps o h ops = .ok h') :
    ∀ J : Nat, J < 2147483648 → a0.step ∣ (J : Int) → J ≠ 0 →
      ringValue h' a0 (slotAt h' a0 0).t J =
        histValue a0 (writesOf (ops.flatMap (opEvents h a0))) (fun _ => nanBits) J := by
  have g := create_good o agg xff lay hl disk h hc
  have fr := created_fresh o agg xff lay hl disk h hc a0 (mem_of_getElem? ha0)
  have r := runFOps_reachS o a0 ops h h' g ha0 (Or.inl fr) hok hp
  apply history_freshS a0 _ h h' fr ?_ r
  intro w hw
  simp only [writesOf, List.filterMap_flatMap, List.mem_flatMap] at hw
  obtain ⟨op, hop, hw'⟩ := hw
  exact opEvents_aligned h a0 fr.hs op (hok op hop) w hw'

/-- the same, as what a fetch of the finest archive returns: inside the zone, each value of
    the returned window is the one the history assigns to its interval -/
theorem created_then_any_updates_fetch (o : FOps) (agg : Nat) (xff : UInt32) (lay : List (Int × Nat)) (hl : LayInRange lay)
    (disk : Bytes) (h h' : Handle) (hc : createHandle o agg xff lay = .ok (disk, h))
    (p : FetchPlan) (ha0 : h.archs[0]? = some p.a) (ops : List FOp)
    (hok : ∀ op ∈ ops, OpTimesOK p.a op) (hp : runFOps o h ops = .ok h')
    (hw : (slotAt h' p.a 0).t ≠ 0) (hf0 : p.fromI ≠ 0)
    (z : RingZone p.a (slotAt h' p.a 0).t p.fromI p.untilI) :
    h'.fetchExec p = .ok ⟨p.fromI, p.untilI, p.a.step,
      (List.range (winCount p.a p.fromI p.untilI)).map fun i =>
        histValue p.a (writesOf (ops.flatMap (opEvents h p.a))) (fun _ => nanBits) (p.fromI + p.a.step.toNat * i)⟩ := by
  have g := create_good o agg xff lay hl disk h hc
  have fr := created_fresh o agg xff lay hl disk h hc p.a (mem_of_getElem? ha0)
  have r := runFOps_reachS o p.a ops h h' g ha0 (Or.inl fr) hok hp
  have hal : ∀ w ∈ writesOf (ops.flatMap (opEvents h p.a)), w.1 < 2147483648 ∧ p.a.step ∣ (w.1 : Int) ∧ w.1 ≠ 0 := by
    intro w hw'
    simp only [writesOf, List.filterMap_flatMap, List.mem_flatMap] at hw'
    obtain ⟨op, hop, hw''⟩ := hw'
    exact opEvents_aligned h p.a fr.hs op (hok op hop) w hw''
  have st := reachS_state p.a _ h h' (Or.inl fr) hal r
  have hist := history_freshS p.a _ h h' fr hal r
  rcases st with fr' | ⟨lv', al'⟩
  · exact absurd (fr'.zero 0 fr'.hn) hw
  · have hbI : h'.baseInterval p.a = .ok (slotAt h' p.a 0).t :=
      baseInterval_slot h' p.a (by have := lv'.view; have := lv'.hn; omega)
    rw [fetch_refines_ring h' p _ z hbI lv'.b0 lv'.view lv'.fit]
    congr 2
    apply List.map_congr_left
    intro i hi
    simp only [List.mem_range] at hi
    obtain ⟨hc1, hc2, hcnt, hmul⟩ := z.count_range
    have hs := z.hs
    have hsn : ((p.a.step.toNat : Nat) : Int) = p.a.step := by omega
    have hle : p.a.step * (i : Int) < p.a.step * (winCount p.a p.fromI p.untilI : Int) :=
      Int.mul_lt_mul_of_pos_left (by omega) hs
    have hcast : (((p.fromI + p.a.step.toNat * i : Nat)) : Int) = p.fromI + p.a.step * (i : Int) := by
      push_cast; rw [hsn]
    apply hist
    · have := z.hu; omega
    · obtain ⟨q, hq⟩ := z.hal1
      obtain ⟨b, hb⟩ := al'
      rw [hcast]
      exact ⟨q + b + (i : Int), by rw [Int.mul_add, Int.mul_add]; omega⟩
    · omega

end Wsp.C01
