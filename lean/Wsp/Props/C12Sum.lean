/-
  C12, the general form: whatever the server computed locally — a file's series (`view`) or
  the sum of several files (`sum`) — travels as header + series and is printed by the client
  exactly as the local command prints it, provided the header is one `Open` accepts and every
  series is present and well-formed (from ≤ until, a positive step, as many values as the
  window has steps — what every fetch inside the clock zone returns, `readSeries_wf`).
-/
import Wsp.Props.C12View
namespace Wsp.C12
open Wsp.Handle Wsp.C14 Wsp.Total Wsp.Cmd

/-- what the local command prints from the same result -/
def localOut : R (Header × List (Option Series)) → Outcome × Option Header × List Rec
  | .error e => (.ofFault e, none, [])
  | .ok (h, l) => (.ok, some h, recsOf (l.map seriesPoints))

theorem remote_eq_local (o : FOps) (h : Header) (l : List (Option Series)) (wf : HeaderWF o h)
    (hlen : l.length = h.archives.length) (hwf : ∀ s ∈ l, ∃ x, s = some x ∧ SeriesWF x) :
    remoteOf o (.ok (h, l)) = localOut (.ok (h, l)) := by
  have hwfs : ∀ s ∈ l, ∀ x, s = some x → SeriesWF x := by
    intro s hs x hx
    obtain ⟨y, e, w⟩ := hwf s hs
    rw [e] at hx; injection hx with hx; rw [← hx]; exact w
  show remoteOut (decodeView o (encodeView h l)) = _
  rw [view_transparent o h wf l hlen hwfs]
  show (Outcome.ok, some h, recsOf (((l.map emptyIfAbsent).map some).map seriesPoints)) = _
  have hl : ((l.map emptyIfAbsent).map some).map seriesPoints = l.map seriesPoints := by
    rw [List.map_map, List.map_map]
    apply List.map_congr_left
    intro s hs
    obtain ⟨x, e, _⟩ := hwf s hs
    rw [e]
    rfl
  rw [hl]
  rfl

/-- an error of the local computation is the same error through the server -/
theorem remote_error (o : FOps) (e : Fault) : remoteOf o (.error e) = localOut (.error e) := rfl

/-- ⟦SumCommand.execute⟧ with a server URL as the source -/
def sumRemote (o : FOps) (t : Tree) (files : List String) (w : Window) : Outcome × Option Header × List Rec :=
  remoteOf o (sumFiles o t files w)

theorem sum_is_localOut (o : FOps) (t : Tree) (files : List String) (w : Window) :
    Cmd.sum o t files w = localOut (sumFiles o t files w) := by
  unfold Cmd.sum
  cases h : sumFiles o t files w with
  | error e => rfl
  | ok r => obtain ⟨hd, l⟩ := r; rfl

/-- **sum through the server = sum of the directory**, whenever the summed series are
    well-formed -/
theorem sum_remote_eq_local (o : FOps) (t : Tree) (files : List String) (w : Window)
    (hgood : ∀ h l, sumFiles o t files w = .ok (h, l) →
      HeaderWF o h ∧ l.length = h.archives.length ∧ ∀ s ∈ l, ∃ x, s = some x ∧ SeriesWF x) :
    sumRemote o t files w = Cmd.sum o t files w := by
  rw [sum_is_localOut]
  unfold sumRemote
  cases h : sumFiles o t files w with
  | error e => rfl
  | ok r =>
    obtain ⟨hd, l⟩ := r
    obtain ⟨wf, hlen, hwf⟩ := hgood hd l h
    exact remote_eq_local o hd l wf hlen hwf

theorem foldl_zip_length (o : FOps) (n : Nat) : ∀ (rest : List (List Val)) (acc : List Val),
    acc.length = n → (∀ c ∈ rest, c.length = n) →
    (rest.foldl (fun acc vs => (acc.zip vs).map fun (a, b) => o.vAdd a b) acc).length = n := by
  intro rest
  induction rest with
  | nil => intro acc h _; exact h
  | cons c rest ih =>
    intro acc h hc
    simp only [List.foldl_cons]
    apply ih
    · simp [List.length_zip, h, hc c (by simp)]
    · intro c' hc'; exact hc c' (by simp [hc'])

/-- columns of equal length add up to a column of that length -/
theorem sumColumns_length (o : FOps) (n : Nat) (cols : List (List Val)) (hne : cols ≠ [])
    (hc : ∀ c ∈ cols, c.length = n) : (sumColumns o cols).length = n := by
  cases cols with
  | nil => exact absurd rfl hne
  | cons first rest =>
    simp only [sumColumns]
    exact foldl_zip_length o n rest first (hc first (by simp)) (fun c h => hc c (by simp [h]))

/-- **the summed series are well-formed** when the first file's are and every file has as
    many values per archive as the first -/
theorem sumSeries_wf (o : FOps) (k : Nat) (l0 : List (Option Series)) (rest : List (List (Option Series)))
    (h0 : ∀ i, i < k → ∃ x, l0.getD i none = some x ∧ SeriesWF x)
    (hlen : ∀ l ∈ l0 :: rest, ∀ i, i < k → (sValues (l.getD i none)).length = (sValues (l0.getD i none)).length) :
    ∀ s ∈ sumSeries o k (l0 :: rest), ∃ x, s = some x ∧ SeriesWF x := by
  intro s hs
  simp only [sumSeries, List.mem_map, List.mem_range] at hs
  obtain ⟨i, hi, e⟩ := hs
  obtain ⟨x, hx, wf⟩ := h0 i hi
  refine ⟨_, e.symm, ?_⟩
  rw [hx]
  simp only [sFrom, sUntil, sStep]
  refine ⟨wf.f_lt, wf.u_lt, wf.le, wf.step_pos, wf.step_lt, ?_⟩
  simp only
  rw [sumColumns_length o x.values.length _ (by simp) (by
    intro c hc
    simp only [List.mem_map] at hc
    obtain ⟨l, hl, e2⟩ := hc
    rw [← e2, hlen l hl i hi, hx]
    rfl)]
  exact wf.len

end Wsp.C12
