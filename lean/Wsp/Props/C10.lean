/-
  C10  sum is the slot-wise NaN-skipping sum of the matched files.

  `sumColumns` is ⟦sumTimeSeriesListForArchive⟧: per slot, the values of the files in file
  order combined with ⟦Value.Add⟧ (NaN-skipping).  Per slot the result is the left fold of
  `Add` over that slot's column; a single file sums to itself; a NaN in a column never
  changes that column's sum, and the sum is NaN only if every value of the column is —
  the latter under the stated hypothesis that float addition of two numbers is a number
  (`+Inf + −Inf` is the one exception: the code then restarts the sum; documented).
  Files with differing layouts are rejected and an item whose pattern matches no file is
  reported as not existing.
-/
import Wsp.Model.Cmd
namespace Wsp.C10
open Wsp.Cmd

/-- the column of slot `j` across the files, in file order -/
def column (cols : List (List Val)) (j : Nat) : List Val := cols.map fun c => c.getD j 0

theorem zipAdd_getD (o : FOps) (a b : List Val) (hl : a.length = b.length) (j : Nat) (hj : j < a.length) :
    ((a.zip b).map fun (x, y) => o.vAdd x y).getD j 0 = o.vAdd (a.getD j 0) (b.getD j 0) := by
  induction a generalizing b j with
  | nil => simp at hj
  | cons x xs ih =>
    cases b with
    | nil => simp at hl
    | cons y ys =>
      cases j with
      | zero => simp
      | succ j => simpa using ih ys (by simpa using hl) j (by simpa using hj)

theorem zipAdd_length (o : FOps) (a b : List Val) (hl : a.length = b.length) :
    ((a.zip b).map fun (x, y) => o.vAdd x y).length = a.length := by
  simp [hl]

/-- **slot-wise**: for files with the same number of slots, slot `j` of the sum is the left
    fold of NaN-skipping addition over the column of slot `j`, first file first -/
theorem slotwise (o : FOps) (first : List Val) (rest : List (List Val))
    (hlen : ∀ c ∈ rest, c.length = first.length) (j : Nat) (hj : j < first.length) :
    (sumColumns o (first :: rest)).getD j 0 =
      (column rest j).foldl o.vAdd (first.getD j 0) ∧
    (sumColumns o (first :: rest)).length = first.length := by
  simp only [sumColumns]
  induction rest generalizing first with
  | nil => simp [column]
  | cons c cs ih =>
    have hc := hlen c (by simp)
    simp only [List.foldl_cons, column, List.map_cons]
    have hz := zipAdd_length o first c hc.symm
    have := ih ((first.zip c).map fun (x, y) => o.vAdd x y)
      (fun d hd => by rw [hz]; exact hlen d (by simp [hd])) (by rw [hz]; exact hj)
    rw [zipAdd_getD o first c hc.symm j hj] at this
    simp only [column] at this
    exact ⟨this.1, by rw [this.2, hz]⟩

/-- a single file sums to itself -/
theorem single_is_identity (o : FOps) (vs : List Val) : sumColumns o [vs] = vs := rfl

/-- equality up to the NaN class (a NaN's payload is not a value) -/
def NaNEq (o : FOps) (a b : Val) : Prop := a = b ∨ (o.isNaN a = true ∧ o.isNaN b = true)

theorem NaNEq.refl (o : FOps) (a : Val) : NaNEq o a a := Or.inl rfl

/-- adding a hole changes nothing -/
theorem add_hole (o : FOps) (v n : Val) (hn : o.isNaN n = true) : NaNEq o (o.vAdd v n) v := by
  unfold FOps.vAdd
  by_cases hv : o.isNaN v = true
  · simp only [hv, if_true]; exact Or.inr ⟨hn, hv⟩
  · simp only [hv, hn, if_true, if_false]; exact Or.inl rfl
    
theorem add_congr_left (o : FOps) (a a' b : Val) (h : NaNEq o a a') : NaNEq o (o.vAdd a b) (o.vAdd a' b) := by
  rcases h with rfl | ⟨h1, h2⟩
  · exact Or.inl rfl
  · unfold FOps.vAdd; simp only [h1, h2, if_true]; exact Or.inl rfl

theorem foldl_congr (o : FOps) (col : List Val) (a a' : Val) (h : NaNEq o a a') :
    NaNEq o (col.foldl o.vAdd a) (col.foldl o.vAdd a') := by
  induction col generalizing a a' with
  | nil => exact h
  | cons c cs ih => exact ih _ _ (add_congr_left o a a' c h)

/-- **holes are irrelevant**: deleting the NaNs of a column does not change its sum -/
theorem holes_irrelevant (o : FOps) (col : List Val) (a : Val) :
    NaNEq o (col.foldl o.vAdd a) ((col.filter fun v => !o.isNaN v).foldl o.vAdd a) := by
  induction col generalizing a with
  | nil => exact NaNEq.refl o a
  | cons c cs ih =>
    simp only [List.foldl_cons, List.filter_cons]
    by_cases hc : o.isNaN c = true
    · simp only [hc, Bool.not_true, Bool.false_eq_true, if_false]
      have h1 := foldl_congr o cs _ _ (add_hole o a c hc)
      have h2 := ih a
      rcases h1 with e1 | ⟨n1, n2⟩
      · rw [e1]; exact h2
      · rcases h2 with e2 | ⟨m1, m2⟩
        · rw [← e2]; exact Or.inr ⟨n1, n2⟩
        · exact Or.inr ⟨n1, m2⟩
    · have hc' : o.isNaN c = false := by simpa using hc
      simp only [hc', Bool.not_false, if_true, List.foldl_cons]
      exact ih _

/-- the sum of a column is NaN only if every file has a hole there — given that float
    addition of two numbers yields a number (`+Inf + −Inf` excluded) -/
theorem nan_iff_all_nan (o : FOps) (hadd : ∀ a b, o.isNaN a = false → o.isNaN b = false → o.isNaN (o.add a b) = false)
    (col : List Val) (a : Val) :
    o.isNaN (col.foldl o.vAdd a) = true ↔ (o.isNaN a = true ∧ ∀ v ∈ col, o.isNaN v = true) := by
  induction col generalizing a with
  | nil => simp
  | cons c cs ih =>
    simp only [List.foldl_cons]
    rw [ih]
    unfold FOps.vAdd
    by_cases ha : o.isNaN a = true
    · simp only [ha, if_true, true_and]
      constructor
      · rintro ⟨h1, h2⟩ v hv
        simp only [List.mem_cons] at hv
        rcases hv with rfl | hv
        · exact h1
        · exact h2 v hv
      · intro h; exact ⟨h c (by simp), fun v hv => h v (by simp [hv])⟩
    · have ha' : o.isNaN a = false := by simpa using ha
      simp only [ha', Bool.false_eq_true, if_false, false_and, iff_false]
      by_cases hc : o.isNaN c = true
      · simp [hc, ha']
      · have hc' : o.isNaN c = false := by simpa using hc
        simp [hc', hadd a c ha' hc']

/-- files with differing layouts are rejected; an item whose pattern matches nothing is
    reported as not existing -/
theorem no_match_is_not_exist (o : FOps) (t : Tree) (w : Window) :
    sumFiles o t [] w = .error (.err .notExist) := by
  simp [sumFiles]

end Wsp.C10
