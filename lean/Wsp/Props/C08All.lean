/-
  C08 / C11 composed over all archives of one run of `copy` (or `sum-copy`): after
  ⟦copyDifferentPoints⟧ has gone through the archives — finest first, each coarser archive
  read again after the finer writes have propagated into it — every interval of every
  archive's window reads a value `Equal` to the source's, unless the source's is a NaN that
  was not to be copied.
-/
import Wsp.Props.Invariant
namespace Wsp.C08
open Wsp.Handle Wsp.C14 Wsp.Total Wsp.C01 Wsp.Cmd Wsp.Inv

theorem SameOn.ring {a : Arch} {h1 h2 : Handle} (s : SameOn a h1 h2) (hn : 0 < a.n) :
    (slotAt h2 a 0).t = (slotAt h1 a 0).t ∧ ∀ base J, ringValue h2 a base J = ringValue h1 a base J := by
  refine ⟨by rw [s.2 0 hn], ?_⟩
  intro base J
  unfold ringValue
  have hlt : slotIdx a base J < a.n := by
    have := pointIndex_range a hn base J
    unfold slotIdx; omega
  rw [s.2 _ hlt]

/-- what is known of archive `k` of the run: its source series and the window it spans -/
structure ArchSpec (h : Handle) (ls : List (Option Series)) (w : Window) (L : Nat) (k : Nat)
    (a : Arch) (f cnt : Nat) (vs : List Val) : Prop where
  arch : h.archs[k]? = some a
  src : ls.getD k none = some ⟨f, f + a.step.toNat * cnt, a.step, vs⟩
  len : vs.length = cnt
  pos : 0 < cnt
  zone : WinZone a f cnt w.now
  late : L ≤ f
  plan : ∃ p, fetchPlan h.archs (k : Int) w.from_ w.until' w.now = .ok (some p) ∧ p.a = a ∧ p.fromI = f ∧
    p.untilI = f + a.step.toNat * cnt

/-- the destination's archive `k` agrees with the source on the window -/
def Agrees (o : FOps) (excl : Bool) (h : Handle) (a : Arch) (f cnt : Nat) (vs : List Val) : Prop :=
  ∀ j, j < cnt →
    o.vEqual (vs.getD j 0) (ringValue h a (slotAt h a 0).t (f + a.step.toNat * j)) = true ∨
    (excl = true ∧ o.isNaN (vs.getD j 0) = true)

theorem ArchSpec.of_hdr {h h' : Handle} {ls : List (Option Series)} {w : Window} {L k : Nat} {a : Arch} {f cnt : Nat}
    {vs : List Val} (sp : ArchSpec h ls w L k a f cnt vs) (hh : h'.hdr = h.hdr) : ArchSpec h' ls w L k a f cnt vs := by
  have e : h'.archs = h.archs := by unfold Handle.archs; rw [hh]
  exact ⟨by rw [e]; exact sp.arch, sp.src, sp.len, sp.pos, sp.zone, sp.late, by rw [e]; exact sp.plan⟩

/-- the fetch `copy` performs for archive `k` returns what the window reads -/
theorem spec_fetch {h : Handle} {ls : List (Option Series)} {w : Window} {L k : Nat} {a : Arch} {f cnt : Nat}
    {vs : List Val} (sp : ArchSpec h ls w L k a f cnt vs) (st : ArchState h a) :
    h.fetchFromArchive (k : Int) w.from_ w.until' w.now = .ok (some (readSeries h a f cnt)) := by
  obtain ⟨p, hp, hpa, hpf, hpu⟩ := sp.plan
  unfold fetchFromArchive
  rw [hp]
  simp only
  rw [fetchExec_reads h a st f cnt w.now sp.zone sp.pos p hpa hpf hpu]

/-- the later archives of the run leave archive `i0` alone -/
theorem copyArchives_behind (o : FOps) (ls : List (Option Series)) (excl : Bool) (w : Window) (i0 : Nat) (a0 : Arch)
    (batches : List (List Point)) :
    ∀ (h h'' : Handle) (i : Nat) (written : List (List Point)), Good h → h.archs[i0]? = some a0 → i0 < i →
      copyArchives o ls excl w h i batches = .ok (h'', written) → SameOn a0 h h'' ∧ h''.hdr = h.hdr := by
  induction batches with
  | nil =>
    intro h h'' i written _ _ _ hp
    simp only [copyArchives] at hp
    injection hp with hp; injection hp with e1 _; subst e1
    exact ⟨SameOn.refl a0 h, rfl⟩
  | cons ps rest ih =>
    intro h h'' i written g ha0 hi hp
    simp only [copyArchives] at hp
    split at hp
    · simp at hp
    · rename_i pts _
      cases hu : h.updateMany o pts (i : Int) w.now with
      | error e => rw [hu] at hp; simp at hp
      | ok h' =>
        rw [hu] at hp; simp only at hp
        cases hr : copyArchives o ls excl w h' (i + 1) rest with
        | error e => rw [hr] at hp; simp at hp
        | ok r =>
          obtain ⟨hx, wr⟩ := r
          rw [hr] at hp; simp only at hp
          injection hp with hp; injection hp with e1 _; subst e1
          have s1 := updateMany_named_behind o h h' g i i0 hi a0 ha0 pts w.now hu
          have fr := updateMany_frame o h h' g.placed pts (i : Int) w.now hu
          have ha0' : h'.archs[i0]? = some a0 := by unfold Handle.archs at ha0 ⊢; rw [fr.1]; exact ha0
          obtain ⟨s2, hh⟩ := ih h' hx (i + 1) wr (g.of_frame fr) ha0' (by omega) hr
          exact ⟨s1.trans s2, hh.trans fr.1⟩

/-- **all archives of one copy**: after ⟦copyDifferentPoints⟧ the destination agrees with the
    source on every archive's window -/
theorem copyArchives_agrees (o : FOps) (hl : FLaws o) (ls : List (Option Series)) (excl : Bool) (w : Window) (L : Nat)
    (A : Nat → Arch) (F C : Nat → Nat) (V : Nat → List Val) (batches : List (List Point)) :
    ∀ (h h'' : Handle) (i : Nat) (written : List (List Point)), Good h → AllState h → Coarse h L →
      (∀ k, i ≤ k → k < i + batches.length → ArchSpec h ls w L k (A k) (F k) (C k) (V k)) →
      (i = 0 → ∀ ps, batches.head? = some ps →
        ps = (diffPoints o excl (ls.getD 0 none) (some (readSeries h (A 0) (F 0) (C 0)))).1) →
      copyArchives o ls excl w h i batches = .ok (h'', written) →
      ∀ k, i ≤ k → k < i + batches.length → Agrees o excl h'' (A k) (F k) (C k) (V k) := by
  induction batches with
  | nil => intro h h'' i written _ _ _ _ _ _ k h1 h2; simp at h2; omega
  | cons ps rest ih =>
    intro h h'' i written g al c hspec hfirst hp k hk1 hk2
    have spi := hspec i (by omega) (by simp)
    have sti := al i (A i) spi.arch
    simp only [copyArchives] at hp
    -- the points written to archive i
    have hpts : (match ls.getD i none with
        | none => (.ok ps : R (List Point))
        | some s =>
          if i = 0 then .ok ps else
          match h.fetchFromArchive (i : Int) w.from_ w.until' w.now with
          | .error e => .error e
          | .ok d => .ok (diffPoints o excl (some s) d).1) =
        .ok (diffPoints o excl (some ⟨F i, F i + (A i).step.toNat * C i, (A i).step, V i⟩)
          (some (readSeries h (A i) (F i) (C i)))).1 := by
      rw [spi.src]
      simp only
      by_cases h0 : i = 0
      · subst h0
        simp only [if_true]
        have := hfirst rfl ps rfl
        rw [spi.src] at this
        rw [this]
      · simp only [h0, if_false]
        rw [spec_fetch spi sti]
    split at hp
    · simp at hp
    rename_i pts heq
    have epts : (Except.ok (diffPoints o excl (some ⟨F i, F i + (A i).step.toNat * C i, (A i).step, V i⟩)
          (some (readSeries h (A i) (F i) (C i)))).1 : R (List Point)) = Except.ok pts := hpts.symm.trans heq
    injection epts with epts
    subst epts
    cases hu : h.updateMany o (diffPoints o excl (some ⟨F i, F i + (A i).step.toNat * C i, (A i).step, V i⟩)
        (some (readSeries h (A i) (F i) (C i)))).1 (i : Int) w.now with
    | error e => rw [hu] at hp; simp at hp
    | ok h' =>
      rw [hu] at hp; simp only at hp
      cases hr : copyArchives o ls excl w h' (i + 1) rest with
      | error e => rw [hr] at hp; simp at hp
      | ok r =>
        obtain ⟨hx, wr⟩ := r
        rw [hr] at hp; simp only at hp
        injection hp with hp; injection hp with e1 _; subst e1
        obtain ⟨_, g', hh, hag⟩ := copy_step o hl excl h h' g i (A i) spi.arch sti (F i) (C i) w.now spi.zone (V i) spi.len hu
        -- the written points are late enough for the invariant
        have hs := spi.zone.ok.1
        have hsn : (((A i).step.toNat : Nat) : Int) = (A i).step := by omega
        have htimes : ∀ p ∈ (diffPoints o excl (some ⟨F i, F i + (A i).step.toNat * C i, (A i).step, V i⟩)
            (some (readSeries h (A i) (F i) (C i)))).1, p.t < 2147483648 ∧ L ≤ p.t := by
          intro p hp'
          rw [diffPoints_wanted o excl h (A i) hs (F i) (C i) (V i) spi.len spi.zone.hi] at hp'
          obtain ⟨j, hj, _, e, _⟩ := (wanted_mem o excl (F i) _ (V i) _ 0 p).1 hp'
          rw [e]
          simp only
          have hjc : j < C i := by rw [← spi.len]; exact hj
          have : (A i).step.toNat * (0 + j) ≤ (A i).step.toNat * C i := Nat.mul_le_mul_left _ (by omega)
          have := spi.zone.hi
          have := spi.late
          omega
        obtain ⟨al', _, _⟩ := updateMany_allstate o h h' g al L c _ (i : Int) w.now htimes hu
        by_cases hki : k = i
        · -- archive i itself: later archives leave it alone
          subst hki
          have ha' : h'.archs[k]? = some (A k) := by unfold Handle.archs; rw [hh]; exact spi.arch
          obtain ⟨s, _⟩ := copyArchives_behind o ls excl w k (A k) rest h' hx (k + 1) wr g' ha' (by omega) hr
          obtain ⟨hb, hrv⟩ := SameOn.ring s spi.zone.ok.2.1
          intro j hj
          rw [hb, hrv]
          exact hag j hj
        · exact ih h' hx (i + 1) wr g' al' (c.of_hdr hh)
            (fun k' h1 h2 => (hspec k' (by omega) (by simp at h2 ⊢; omega)).of_hdr hh)
            (by intro h0; omega) hr k (by omega) (by simp at hk2 ⊢; omega)

end Wsp.C08
