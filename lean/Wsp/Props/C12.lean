/-
  C12  Remote/local transparency: a server URL behaves like the directory it serves.

  The server runs the same local functions and sends `Header.AppendTo` followed by one
  `TimeSeries.AppendTo` (view, sum) or `Points.AppendTo` (view-raw) per archive; the client
  decodes them in sequence.  The theorems: the client gets back exactly the header and the
  series/point lists the local function produced — an absent (nil) series comes back as the
  empty series, which every accessor treats the same (`absent_is_empty`) — so whatever a
  command computes from them is the same in both modes.  A missing file answers with an
  empty body, which the client turns into a not-exist error (`not_exist_same_class`).
  HTTP, URL escaping and `%d`/`Atoi` are outside the model (assumed inverse pairs); the
  correspondence check performs real round trips against `whispertool server`.
-/
import Wsp.Props.C14
import Wsp.Model.Cmd
namespace Wsp.C12
open Wsp.C14 Wsp.Cmd

/-- what `/view` and `/sum` send -/
def encodeView (h : Header) (l : List (Option Series)) : Bytes :=
  encHeader h ++ (l.map encSeries).flatten

/-- sequencing of decoders -/
def andThen {α β} (r : R (α × Bytes)) (k : α → Bytes → R β) : R β :=
  match r with
  | .error e => .error e
  | .ok (a, rest) => k a rest

theorem andThen_ok {α β} (a : α) (rest : Bytes) (k : α → Bytes → R β) : andThen (.ok (a, rest)) k = k a rest := rfl

def decSeriesN : Nat → Bytes → R (List Series × Bytes)
  | 0, src => .ok ([], src)
  | n+1, src => andThen (decSeries src) fun s rest => andThen (decSeriesN n rest) fun ss rest' => .ok (s :: ss, rest')

/-- ⟦getFileDataFromRemote⟧ : an empty body is "not exist" -/
def decodeView (o : FOps) (data : Bytes) : R (Header × List Series) :=
  if data.length = 0 then .error (.err .notExist) else
  andThen (decHeader o data) fun h rest => andThen (decSeriesN h.archives.length rest) fun ss _ => .ok (h, ss)

/-- the client's view of an absent series -/
def emptyIfAbsent : Option Series → Series
  | none => ⟨0, 0, 0, []⟩
  | some s => s

/-- every accessor the commands use treats the absent series and the empty one alike -/
theorem absent_is_empty :
    sFrom none = sFrom (some (emptyIfAbsent none)) ∧ sUntil none = sUntil (some (emptyIfAbsent none)) ∧
    sStep none = sStep (some (emptyIfAbsent none)) ∧ sValues none = sValues (some (emptyIfAbsent none)) ∧
    seriesPoints none = seriesPoints (some (emptyIfAbsent none)) := by
  refine ⟨rfl, rfl, rfl, rfl, rfl⟩

theorem decSeriesN_enc (l : List (Option Series)) (hwf : ∀ s ∈ l, ∀ x, s = some x → SeriesWF x) (rest : Bytes) :
    decSeriesN l.length ((l.map encSeries).flatten ++ rest) = .ok (l.map emptyIfAbsent, rest) := by
  induction l with
  | nil => simp [decSeriesN]
  | cons s l ih =>
    have ih' := ih (fun t ht => hwf t (by simp [ht]))
    simp only [List.map_cons, List.flatten_cons, List.length_cons, List.append_assoc]
    cases s with
    | none =>
      rw [decSeriesN, roundtrip_absent_series, andThen_ok, ih', andThen_ok]
      rfl
    | some x =>
      rw [decSeriesN, roundtrip_series x (hwf (some x) (by simp) x rfl), andThen_ok, ih', andThen_ok]
      rfl

/-- **view / sum transparency**: the client decodes exactly the header and the series the
    server's local call produced -/
theorem view_transparent (o : FOps) (h : Header) (wf : HeaderWF o h) (l : List (Option Series))
    (hl : l.length = h.archives.length) (hwf : ∀ s ∈ l, ∀ x, s = some x → SeriesWF x) :
    decodeView o (encodeView h l) = .ok (h, l.map emptyIfAbsent) := by
  unfold decodeView encodeView
  have hne : ¬ (encHeader h ++ (l.map encSeries).flatten).length = 0 := by
    rw [List.length_append, encHeader_length]; omega
  simp only [hne, if_false]
  rw [roundtrip_header o h wf, andThen_ok, ← hl]
  have := decSeriesN_enc l hwf []
  simp only [List.append_nil] at this
  rw [this, andThen_ok]

/-- what `/view-raw` sends -/
def encodeRaw (h : Header) (pl : List (List Point)) : Bytes :=
  encHeader h ++ (pl.map encPoints).flatten

def decPointsN : Nat → Bytes → R (List (List Point) × Bytes)
  | 0, src => .ok ([], src)
  | n+1, src => andThen (decPoints src) fun s rest => andThen (decPointsN n rest) fun ss rest' => .ok (s :: ss, rest')

def decodeRaw (o : FOps) (data : Bytes) : R (Header × List (List Point)) :=
  if data.length = 0 then .error (.err .notExist) else
  andThen (decHeader o data) fun h rest => andThen (decPointsN h.archives.length rest) fun ss _ => .ok (h, ss)

theorem decPointsN_enc (pl : List (List Point))
    (hwf : ∀ ps ∈ pl, (∀ p ∈ ps, p.t < 4294967296) ∧ ps.length ≤ maxPointCount) (rest : Bytes) :
    decPointsN pl.length ((pl.map encPoints).flatten ++ rest) = .ok (pl, rest) := by
  induction pl with
  | nil => simp [decPointsN]
  | cons ps pl ih =>
    have ih' := ih (fun t ht => hwf t (by simp [ht]))
    have hp := hwf ps (by simp)
    simp only [List.map_cons, List.flatten_cons, List.length_cons, List.append_assoc]
    rw [decPointsN, roundtrip_points ps hp.1 hp.2, andThen_ok, ih', andThen_ok]

/-- **view-raw transparency** -/
theorem view_raw_transparent (o : FOps) (h : Header) (wf : HeaderWF o h) (pl : List (List Point))
    (hl : pl.length = h.archives.length)
    (hwf : ∀ ps ∈ pl, (∀ p ∈ ps, p.t < 4294967296) ∧ ps.length ≤ maxPointCount) :
    decodeRaw o (encodeRaw h pl) = .ok (h, pl) := by
  unfold decodeRaw encodeRaw
  have hne : ¬ (encHeader h ++ (pl.map encPoints).flatten).length = 0 := by
    rw [List.length_append, encHeader_length]; omega
  simp only [hne, if_false]
  rw [roundtrip_header o h wf, andThen_ok, ← hl]
  have := decPointsN_enc pl hwf []
  simp only [List.append_nil] at this
  rw [this, andThen_ok]

/-- a file or pattern that does not exist: the server answers with an empty body, the
    client reports not-exist — the same class as the local call -/
theorem not_exist_same_class (o : FOps) : decodeView o [] = .error (.err .notExist) ∧
    decodeRaw o [] = .error (.err .notExist) := by
  constructor <;> rfl

/-- a successful response is never empty, so it is never mistaken for not-exist -/
theorem response_nonempty (h : Header) (l : List (Option Series)) : (encodeView h l).length ≥ 16 := by
  unfold encodeView
  rw [List.length_append, encHeader_length]; omega

end Wsp.C12
