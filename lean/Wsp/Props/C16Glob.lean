/-
  C16, glob mode: ⟦CopyCommand.execute⟧ / ⟦DiffCommand.execute⟧ / sum-copy / sum-diff over a
  list of files or items never end in a panic either — the per-file commands never do
  (`C16T.*_total`, `copyOne_total`, `sumCopy_total`), and a copy leaves a tree on which the
  next file's command is again inside the clock zone (its destination is republished with
  the header it had).
-/
import Wsp.Props.C16Write
import Wsp.Props.C08Full
namespace Wsp.C16T
open Wsp.Handle Wsp.C14 Wsp.Total Wsp.Cmd Wsp.Reopen Wsp.C08

/-- a run of ⟦copyDifferentPoints⟧ leaves header, length and header bytes alone -/
theorem copyArchives_frame (o : FOps) (ls : List (Option Series)) (excl : Bool) (w : Window) (H : Nat)
    (batches : List (List Point)) :
    ∀ (h h'' : Handle) (i : Nat) (written : List (List Point)), Good h → H = 16 + 12 * h.hdr.archives.length →
      copyArchives o ls excl w h i batches = .ok (h'', written) → Frame H h h'' := by
  induction batches with
  | nil =>
    intro h h'' i written _ _ hp
    simp only [copyArchives] at hp
    injection hp with hp; injection hp with e1 _; subst e1
    exact Frame.refl _ _
  | cons ps rest ih =>
    intro h h'' i written g hH hp
    simp only [copyArchives] at hp
    split at hp
    · simp at hp
    · rename_i pts _
      cases hu : h.updateMany o pts (i : Int) w.now with
      | error e => rw [hu] at hp; simp at hp
      | ok h' =>
        rw [hu] at hp; simp only at hp
        cases hr : copyArchives o ls excl w h' (i + 1) rest with
        | error e => rw [hr] at hp; simp at hp
        | ok r =>
          obtain ⟨hx, wr⟩ := r
          rw [hr] at hp; simp only at hp
          injection hp with hp; injection hp with e1 _; subst e1
          have fr : Frame H h h' := by rw [hH]; exact updateMany_frame o h h' g.placed pts (i : Int) w.now hu
          exact fr.trans (ih h' hx (i + 1) wr (g.of_frame fr) (by rw [fr.1]; exact hH) hr)

/-- the tree ⟦copyCore⟧ leaves: untouched, or the destination republished with its header -/
theorem copyCore_tree (o : FOps) (t : Tree) (dst : String) (hd : Handle) (sa : List Arch) (ls : List (Option Series))
    (w : Window) (excl : Bool) (g : Good hd) :
    (copyCore o t dst hd sa ls w excl).1 = t ∨
    ∃ hd', Frame (16 + 12 * hd.hdr.archives.length) hd hd' ∧ (copyCore o t dst hd sa ls w excl).1 = t.set dst hd'.view := by
  unfold copyCore
  cases hf : fetchList hd w.archiveID w.from_ w.until' w.now with
  | error e => left; rfl
  | ok ld =>
    simp only
    split
    · left; rfl
    · split
      · left; rfl
      · split
        · left; rfl
        · cases hc : copyArchives o ls excl w hd 0
              ((List.range hd.archs.length).map fun i => (diffLists o excl ls ld).1.getD i []) with
          | error e => left; rfl
          | ok r =>
            obtain ⟨hd', wr⟩ := r
            right
            exact ⟨hd', copyArchives_frame o ls excl w _ _ hd hd' 0 wr g rfl hc, rfl⟩

theorem clockOK_of_frame {h h' : Handle} {H : Nat} {now : Nat} (z : ClockOK h now) (f : Frame H h h') : ClockOK h' now := by
  intro a ha
  rw [f.archs] at ha
  exact z a ha

/-- republishing a reopenable handle's bytes keeps every file of the tree inside the zone -/
theorem clockAll_set (o : FOps) (t : Tree) (dst : String) (h : Handle) (now : Nat)
    (hz : ClockAll o t now) (r : Reopenable o h) (z : ClockOK h now) : ClockAll o (t.set dst h.view) now := by
  intro p b h' hp ho
  unfold Tree.get Tree.set at hp
  by_cases hpd : p = dst
  · simp only [hpd, if_true] at hp
    injection hp with hp; subst hp
    rw [open_reopenable o h r] at ho
    injection ho with ho; subst ho
    exact z
  · simp only [hpd, if_false] at hp
    exact hz p b h' hp ho

/-- the tree after the common core of copy / sum-copy is again inside the zone -/
theorem copyCore_clockAll (o : FOps) (t : Tree) (dst : String) (hd : Handle) (sa : List Arch) (ls : List (Option Series))
    (w : Window) (excl : Bool) (g : Good hd) (r : Reopenable o hd) (z : ClockOK hd w.now) (hz : ClockAll o t w.now) :
    ClockAll o (copyCore o t dst hd sa ls w excl).1 w.now := by
  rcases copyCore_tree o t dst hd sa ls w excl g with e | ⟨hd', fr, e⟩
  · rw [e]; exact hz
  · rw [e]; exact clockAll_set o t dst hd' w.now hz (r.of_frame fr) (clockOK_of_frame z fr)

/-- opening or creating the destination keeps every file of the tree inside the zone -/
theorem copyOne_clockAll (o : FOps) (t : Tree) (src dst : String) (c : CopyOpts) (w : Window) (hl : LayInRange c.lay)
    (hz : ClockAll o t w.now)
    (hzc : ∀ disk h, createHandle o c.agg c.xff c.lay = .ok (disk, h) → ClockOK h w.now) :
    ClockAll o (copyOne o t src dst c w).1 w.now := by
  unfold copyOne
  cases hoc : openOrCreate o t dst c with
  | error e => exact hz
  | ok r =>
    obtain ⟨t', hd⟩ := r
    simp only
    obtain ⟨g, z, hz'⟩ := openOrCreate_good o t t' dst c hl hd w.now hz hzc hoc
    obtain ⟨rp, _, _⟩ := openOrCreate_published o t t' dst c hl hd hoc
    cases hr : readFile o t' src w.archiveID w.from_ w.until' w.now with
    | error e => exact hz'
    | ok r2 => obtain ⟨hs, ls⟩ := r2; exact copyCore_clockAll o t' dst hd _ ls w _ g rp z hz'

theorem sumCopy_clockAll (o : FOps) (t : Tree) (files : List String) (dst : String) (c : CopyOpts) (w : Window)
    (hl : LayInRange c.lay) (hz : ClockAll o t w.now)
    (hzc : ∀ disk h, createHandle o c.agg c.xff c.lay = .ok (disk, h) → ClockOK h w.now) :
    ClockAll o (sumCopy o t files dst c w).1 w.now := by
  unfold sumCopy
  cases hoc : openOrCreate o t dst c with
  | error e => exact hz
  | ok r =>
    obtain ⟨t', hd⟩ := r
    simp only
    obtain ⟨g, z, hz'⟩ := openOrCreate_good o t t' dst c hl hd w.now hz hzc hoc
    obtain ⟨rp, _, _⟩ := openOrCreate_published o t t' dst c hl hd hoc
    cases hr : sumFiles o t' files w with
    | error e => exact hz'
    | ok r2 => obtain ⟨hs, ls⟩ := r2; exact copyCore_clockAll o t' dst hd _ ls w _ g rp z hz'

/-- **copy over a list of files never panics** -/
theorem copyMany_total (o : FOps) (c : CopyOpts) (w : Window) (hl : LayInRange c.lay)
    (hzc : ∀ disk h, createHandle o c.agg c.xff c.lay = .ok (disk, h) → ClockOK h w.now) :
    ∀ (pairs : List (String × String)) (t : Tree), ClockAll o t w.now → (copyMany o c w t pairs).2.1 ≠ .panic := by
  intro pairs
  induction pairs with
  | nil => intro t _; simp [copyMany]
  | cons p rest ih =>
    intro t hz
    obtain ⟨s, d⟩ := p
    have h1 := copyOne_total o t s d c w hl hz hzc
    have h2 := copyOne_clockAll o t s d c w hl hz hzc
    simp only [copyMany]
    cases hco : copyOne o t s d c w with
    | mk t' r =>
      obtain ⟨oc, recs⟩ := r
      rw [hco] at h1 h2
      simp only at h1 h2
      cases oc with
      | ok => simp only; exact ih t' h2
      | diffFound => simp
      | err k => simp
      | panic => exact absurd rfl h1

/-- **diff over a list of files never panics** -/
theorem diffMany_total (o : FOps) (t : Tree) (w : Window) (hz : ClockAll o t w.now) :
    ∀ (pairs : List (String × String)) (found : Bool), (diffMany o t w pairs found).1 ≠ .panic := by
  intro pairs
  induction pairs with
  | nil => intro found; cases found <;> simp [diffMany]
  | cons p rest ih =>
    intro found
    obtain ⟨s, d⟩ := p
    have h1 := diffOne_total o t s d w hz
    simp only [diffMany]
    cases hd : diffOne o t s d w with
    | mk oc recs =>
      rw [hd] at h1
      simp only at h1
      cases oc with
      | ok => simp only; exact ih found
      | diffFound => simp only; exact ih true
      | err k => simp
      | panic => exact absurd rfl h1

/-- **sum-copy over a list of items never panics** -/
theorem sumCopyMany_total (o : FOps) (c : CopyOpts) (w : Window) (hl : LayInRange c.lay)
    (hzc : ∀ disk h, createHandle o c.agg c.xff c.lay = .ok (disk, h) → ClockOK h w.now) :
    ∀ (items : List (List String × String)) (t : Tree), ClockAll o t w.now →
      (sumCopyMany o c w t items).2.1 ≠ .panic := by
  intro items
  induction items with
  | nil => intro t _; simp [sumCopyMany]
  | cons p rest ih =>
    intro t hz
    obtain ⟨fs, d⟩ := p
    have h1 := sumCopy_total o t fs d c w hl hz hzc
    have h2 := sumCopy_clockAll o t fs d c w hl hz hzc
    simp only [sumCopyMany]
    cases hco : sumCopy o t fs d c w with
    | mk t' r =>
      obtain ⟨oc, recs⟩ := r
      rw [hco] at h1 h2
      simp only at h1 h2
      cases oc with
      | ok => simp only; exact ih t' h2
      | diffFound => simp
      | err k => simp
      | panic => exact absurd rfl h1

/-- **sum-diff over a list of items never panics** -/
theorem sumDiffMany_total (o : FOps) (t : Tree) (w : Window) (hz : ClockAll o t w.now) :
    ∀ (items : List (List String × String)) (found : Bool), (sumDiffMany o t w items found).1 ≠ .panic := by
  intro items
  induction items with
  | nil => intro found; cases found <;> simp [sumDiffMany]
  | cons p rest ih =>
    intro found
    obtain ⟨fs, d⟩ := p
    have h1 := sumDiff_total o t fs d w hz
    simp only [sumDiffMany]
    cases hd : sumDiff o t fs d w with
    | mk oc recs =>
      rw [hd] at h1
      simp only at h1
      cases oc with
      | ok => simp only; exact ih found
      | diffFound => simp only; exact ih true
      | err k => simp
      | panic => exact absurd rfl h1

end Wsp.C16T
