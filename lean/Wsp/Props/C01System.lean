/-
  C01 at system level: through ANY sequence of single updates of a file — each routed to the
  archive its age selects or to a named one, each followed by its propagation chain — the
  finest archive reads, for every interval, the last value written to it unless a later lap
  took its slot (then NaN).  Updates routed to other archives and every propagation step
  leave the finest archive's slots alone (`FrameFrom`), so its history is exactly the list of
  writes routed to it.
-/
import Wsp.Props.C01History
import Wsp.Props.Total
import Wsp.Proofs.FrameFrom
namespace Wsp.C01
open Wsp.Handle Wsp.C14 Wsp.Total

/-- two handles agree on archive `a`: same length, same slots -/
def SameOn (a : Arch) (h1 h2 : Handle) : Prop :=
  h2.view.length = h1.view.length ∧ ∀ j, j < a.n → slotAt h2 a j = slotAt h1 a j

theorem SameOn.refl (a : Arch) (h : Handle) : SameOn a h h := ⟨rfl, fun _ _ => rfl⟩

theorem SameOn.live {a : Arch} {h1 h2 : Handle} (s : SameOn a h1 h2) (lv : Live h1 a) :
    Live h2 a ∧ (slotAt h2 a 0).t = (slotAt h1 a 0).t ∧
    ∀ base J, ringValue h2 a base J = ringValue h1 a base J := by
  have h0 := s.2 0 lv.hn
  refine ⟨⟨lv.hs, lv.hn, lv.fit, by rw [s.1]; exact lv.view, by rw [h0]; exact lv.b0, by rw [h0]; exact lv.blt⟩,
    by rw [h0], ?_⟩
  intro base J
  unfold ringValue
  have hlt : slotIdx a base J < a.n := by
    have := pointIndex_range a lv.hn base J
    unfold slotIdx; omega
  rw [s.2 _ hlt]

/-- a never-written archive of a fresh file: every slot is zero -/
structure Fresh (h : Handle) (a : Arch) : Prop where
  hs : 0 < a.step
  hn : 0 < a.n
  fit : a.offset + 12 * a.n ≤ 4294967295
  view : a.offset + 12 * a.n ≤ h.view.length
  zero : ∀ j, j < a.n → (slotAt h a j).t = 0

/-- the first write to a never-written archive goes to slot 0 and becomes the base -/
theorem first_write (h h1 : Handle) (a : Arch) (I : Nat) (v : Val) (off : Nat)
    (fr : Fresh h a) (hI : I < 2147483648) (hI0 : I ≠ 0)
    (hoff : h.getPointOffset I a = .ok off) (hput : h.putPointAt ⟨I, v⟩ off = .ok h1) :
    Live h1 a ∧ (slotAt h1 a 0).t = I ∧
    ∀ J, J ≠ 0 → ringValue h1 a I J = if I = J then v else nanBits := by
  obtain ⟨hs, hn, hfit, hview, hz⟩ := fr
  have hbI : h.baseInterval a = .ok 0 := by
    rw [← hz 0 hn]; exact baseInterval_slot h a (by omega)
  have wl := write_lands h h1 a I v 0 off (by omega) hn hfit hbI hoff hput
  simp only [if_true] at wl
  obtain ⟨_, _, hnew, hold⟩ := wl
  have hother : ∀ j, j ≠ 0 → slotAt h1 a j = slotAt h a j := by
    intro j hj; apply hold a j; omega
  have hlen : h1.view.length = h.view.length := by
    unfold putPointAt at hput
    cases hw : writeAt h.view off (encPoint ⟨I, v⟩) with
    | error e => rw [hw] at hput; simp at hput
    | ok b =>
      rw [hw] at hput; simp at hput
      subst hput
      have := writeAt_ok _ _ _ _ hw
      rw [this.2]
      simp; omega
  refine ⟨⟨hs, hn, hfit, by omega, by rw [hnew]; exact hI0, by rw [hnew]; exact hI⟩, by rw [hnew], ?_⟩
  intro J hJ0
  unfold ringValue
  have hlt : slotIdx a I J < a.n := by
    have := pointIndex_range a hn I J
    unfold slotIdx; omega
  by_cases h0 : slotIdx a I J = 0
  · rw [h0, hnew]
  · rw [hother _ h0]
    have : (slotAt h a (slotIdx a I J)).t ≠ J := by rw [hz _ hlt]; exact fun e => hJ0 e.symm
    simp only [this, if_false]
    have hne : I ≠ J := by
      intro e; apply h0; rw [← e]; exact slotIdx_base a I hn
    simp [hne]

/-- what happened to archive `a` between two handles: a list of events, `some w` a write of
    `w` to `a` (followed by anything that leaves `a` alone), `none` anything that leaves
    `a` alone -/
def Reach (a : Arch) : Handle → List (Option (Nat × Val)) → Handle → Prop
  | h, [], h' => SameOn a h h'
  | h, none :: es, h' => ∃ hm, SameOn a h hm ∧ Reach a hm es h'
  | h, some w :: es, h' => ∃ off h1 hm, h.getPointOffset w.1 a = .ok off ∧
      h.putPointAt ⟨w.1, w.2⟩ off = .ok h1 ∧ SameOn a h1 hm ∧ Reach a hm es h'

def writesOf (es : List (Option (Nat × Val))) : List (Nat × Val) := es.filterMap id

/-- the history theorem over events -/
theorem history_reach (a : Arch) (es : List (Option (Nat × Val))) :
    ∀ (h h' : Handle), Live h a → (∀ w ∈ writesOf es, OnGrid a (slotAt h a 0).t w.1 ∧ w.1 ≠ 0) →
      Reach a h es h' →
      Live h' a ∧ (a.step * (a.n : Int)) ∣ (((slotAt h' a 0).t : Int) - ((slotAt h a 0).t : Int)) ∧
      ∀ J, OnGrid a (slotAt h a 0).t J →
        ringValue h' a (slotAt h' a 0).t J = histValue a (writesOf es) (ringValue h a (slotAt h a 0).t) J := by
  induction es with
  | nil =>
    intro h h' lv _ hr
    obtain ⟨lv', hb, hrv⟩ := SameOn.live hr lv
    refine ⟨lv', ⟨0, by omega⟩, ?_⟩
    intro J _
    rw [hb, hrv]
    rfl
  | cons e es ih =>
    intro h h' lv hws hr
    cases e with
    | none =>
      obtain ⟨hm, s, hr'⟩ := hr
      obtain ⟨lvm, hb, hrv⟩ := SameOn.live s lv
      have := ih hm h' lvm (by rw [hb]; intro w hw; exact hws w (by simpa [writesOf] using hw)) hr'
      rw [hb] at this
      obtain ⟨lv', hc, hJ⟩ := this
      refine ⟨lv', hc, ?_⟩
      intro J gJ
      rw [hJ J gJ]
      have e1 : writesOf (none :: es) = writesOf es := by simp [writesOf]
      rw [e1]
      unfold histValue
      cases lastCong a J (writesOf es) with
      | some x => rfl
      | none => simp only; rw [hrv]
    | some w =>
      obtain ⟨off, h1, hm, hoff, hput, s, hr'⟩ := hr
      have e1 : writesOf (some w :: es) = w :: writesOf es := by simp [writesOf]
      have hw := hws w (by rw [e1]; simp)
      obtain ⟨lv1, hc1, st⟩ := write_step h h1 a w.1 w.2 off lv hw.1 hw.2 hoff hput
      obtain ⟨lvm, hb, hrv⟩ := SameOn.live s lv1
      have hwsm : ∀ x ∈ writesOf es, OnGrid a (slotAt hm a 0).t x.1 ∧ x.1 ≠ 0 := by
        intro x hx
        have := hws x (by rw [e1]; simp [hx])
        rw [hb]
        exact ⟨this.1.of_cong hc1, this.2⟩
      obtain ⟨lv', hc', rest⟩ := ih hm h' lvm hwsm hr'
      rw [hb] at hc' rest
      refine ⟨lv', ?_, ?_⟩
      · obtain ⟨m1, e1⟩ := hc1
        obtain ⟨m2, e2⟩ := hc'
        exact ⟨m1 + m2, by rw [Int.mul_add]; omega⟩
      · intro J gJ
        rw [rest J (gJ.of_cong hc1), e1]
        unfold histValue
        simp only [lastCong]
        cases lastCong a J (writesOf es) with
        | some x => rfl
        | none =>
          simp only
          rw [hrv, st J gJ]
          by_cases hc : Cong a w.1 J
          · simp [hc]
          · simp [hc]

/-- the same from a never-written archive: everything not written reads NaN -/
theorem history_fresh (a : Arch) (es : List (Option (Nat × Val))) :
    ∀ (h h' : Handle), Fresh h a →
      (∀ w ∈ writesOf es, w.1 < 2147483648 ∧ a.step ∣ (w.1 : Int) ∧ w.1 ≠ 0) →
      Reach a h es h' →
      ∀ J : Nat, J < 2147483648 → a.step ∣ (J : Int) → J ≠ 0 →
        ringValue h' a (slotAt h' a 0).t J = histValue a (writesOf es) (fun _ => nanBits) J := by
  induction es with
  | nil =>
    intro h h' fr _ hr J _ _ hJ0
    unfold ringValue histValue writesOf
    simp only [List.filterMap_nil, lastCong]
    have hlt : slotIdx a (slotAt h' a 0).t J < a.n := by
      have := pointIndex_range a fr.hn (slotAt h' a 0).t J
      unfold slotIdx; omega
    rw [hr.2 _ hlt]
    have : (slotAt h a (slotIdx a (slotAt h' a 0).t J)).t ≠ J := by
      rw [fr.zero _ hlt]; exact fun e => hJ0 e.symm
    simp [this]
  | cons e es ih =>
    intro h h' fr hws hr J hJ hJal hJ0
    cases e with
    | none =>
      obtain ⟨hm, s, hr'⟩ := hr
      have frm : Fresh hm a := ⟨fr.hs, fr.hn, fr.fit, by rw [s.1]; exact fr.view,
        fun j hj => by rw [s.2 j hj]; exact fr.zero j hj⟩
      have e1 : writesOf (none :: es) = writesOf es := by simp [writesOf]
      rw [e1]
      exact ih hm h' frm (by intro w hw; exact hws w (by rw [e1]; exact hw)) hr' J hJ hJal hJ0
    | some w =>
      obtain ⟨off, h1, hm, hoff, hput, s, hr'⟩ := hr
      have e1 : writesOf (some w :: es) = w :: writesOf es := by simp [writesOf]
      have hw := hws w (by rw [e1]; simp)
      obtain ⟨lv1, hb1, fw⟩ := first_write h h1 a w.1 w.2 off fr hw.1 hw.2.2 hoff hput
      obtain ⟨lvm, hb, hrv⟩ := SameOn.live s lv1
      have grid : ∀ K : Nat, K < 2147483648 → a.step ∣ (K : Int) → OnGrid a (slotAt hm a 0).t K := by
        intro K hK hKal
        rw [hb, hb1]
        exact ⟨hK, Int.dvd_sub hKal hw.2.1⟩
      have hwsm : ∀ x ∈ writesOf es, OnGrid a (slotAt hm a 0).t x.1 ∧ x.1 ≠ 0 := by
        intro x hx
        have := hws x (by rw [e1]; simp [hx])
        exact ⟨grid x.1 this.1 this.2.1, this.2.2⟩
      obtain ⟨_, _, rest⟩ := history_reach a es hm h' lvm hwsm hr'
      rw [rest J (grid J hJ hJal), e1]
      unfold histValue
      simp only [lastCong]
      cases lastCong a J (writesOf es) with
      | some x => rfl
      | none =>
        simp only
        rw [hrv, hb, hb1, fw J hJ0]
        by_cases hc : Cong a w.1 J
        · simp [hc]
        · have hne : w.1 ≠ J := by
            intro e; apply hc; rw [e]; exact ⟨0, by omega⟩
          simp [hc, hne]

/-! ### single updates of a whole file, seen from the finest archive -/

structure Upd where
  k : Int
  t : Nat
  v : Val
  now : Nat

/-- the archive an update is routed to -/
def chosen (h : Handle) (u : Upd) : Nat :=
  if u.k = -1 then h.findBestArchive u.t u.now else u.k.toNat

def runUpds (o : FOps) : Handle → List Upd → R Handle
  | h, [] => .ok h
  | h, u :: us =>
    match h.updatePoint o u.k u.t u.v u.now with
    | .error e => .error e
    | .ok h' => runUpds o h' us

/-- what each update means for archive `a` at index `id` -/
def eventsFor (h : Handle) (id : Nat) (a : Arch) (us : List Upd) : List (Option (Nat × Val)) :=
  us.map fun u => if chosen h u = id then some (a.intervalForWrite u.t, u.v) else none

theorem frame_sameOn {E : Nat} {h1 h2 : Handle} (a : Arch) (f : Frame E h1 h2) (hE : a.offset + 12 * a.n ≤ E) :
    SameOn a h1 h2 := by
  refine ⟨f.2.1, ?_⟩
  intro j hj
  exact slotAt_of_take h1 h2 E f.2.2 a j (by omega)

/-- one update, seen from the finest archive -/
theorem updatePoint_reach (o : FOps) (h h' : Handle) (g : Good h) (a0 : Arch) (ha0 : h.archs[0]? = some a0)
    (u : Upd) (hp : h.updatePoint o u.k u.t u.v u.now = .ok h') :
    Reach a0 h (eventsFor h 0 a0 [u]) h' ∧ Good h' ∧ h'.hdr = h.hdr := by
  have pl := g.placed
  have fr := updatePoint_frame o h h' pl u.k u.t u.v u.now hp
  refine ⟨?_, g.of_frame fr, fr.1⟩
  unfold updatePoint at hp
  by_cases hc : u.t ≤ tsAdd u.now (- h.hdr.maxRet) ∨ u.now < u.t
  · simp [hc] at hp
  simp only [hc, if_false] at hp
  have hch : chosen h u = (if u.k = -1 then ((h.findBestArchive u.t u.now : Nat) : Int) else u.k).toNat := by
    unfold chosen; split <;> simp
  generalize (if u.k = -1 then ((h.findBestArchive u.t u.now : Nat) : Int) else u.k) = id at hp hch
  by_cases hneg : id < 0
  · simp [hneg] at hp
  simp only [hneg, if_false] at hp
  cases ha : h.archs[id.toNat]? with
  | none => simp [ha] at hp
  | some a =>
    simp only [ha] at hp
    cases hg : h.getPointOffset (a.intervalForWrite u.t) a with
    | error e => simp [hg] at hp
    | ok off =>
      simp only [hg] at hp
      cases hput : h.putPointAt ⟨a.intervalForWrite u.t, u.v⟩ off with
      | error e => simp [hput] at hp
      | ok hm =>
        simp only [hput] at hp
        have pf := placedFrom_of_valid h g.1.valid g.1.range id.toNat a ha
        have f1 := putPointAt_frame (16 + 12 * h.hdr.archives.length) h hm _ off
          (getPointOffset_range h a (pl a (mem_of_getElem? ha)) _ off hg).1 hput
        have pfm : PlacedFrom hm (id.toNat + 1) (a.offset + 12 * a.n) h.hdr.total := by
          intro i b hi hb
          apply pf i b hi
          unfold Handle.archs at hb ⊢
          rw [f1.1] at hb; exact hb
        have f2 := propagateChain_frameFrom o hm h' id.toNat pfm _ hp
        simp only [eventsFor, List.map_cons, List.map_nil]
        by_cases h0 : id.toNat = 0
        · -- routed to the finest archive: the write, then propagation below it
          have haa : a = a0 := by rw [h0, ha0] at ha; injection ha with ha; exact ha.symm
          subst haa
          simp only [hch, h0, if_true, Reach]
          exact ⟨off, hm, h', hg, hput, frame_sameOn a f2 (by omega), SameOn.refl a h'⟩
        · -- routed elsewhere: the write and its propagation lie behind the finest archive
          simp only [hch, h0, if_false, Reach]
          have pf0 := placedFrom_of_valid h g.1.valid g.1.range 0 a0 ha0
          have pa : ArchPlace (a0.offset + 12 * a0.n) h.hdr.total a := pf0 id.toNat a (by omega) ha
          have f1' := putPointAt_frame (a0.offset + 12 * a0.n) h hm _ off
            (getPointOffset_range h a pa _ off hg).1 hput
          have pfm0 : PlacedFrom hm (id.toNat + 1) (a0.offset + 12 * a0.n) h.hdr.total := by
            intro i b hi hb
            apply pf0 i b (by omega)
            unfold Handle.archs at hb ⊢
            rw [f1.1] at hb; exact hb
          have f2' := propagateChain_frameFrom o hm h' id.toNat pfm0 _ hp
          exact ⟨h', frame_sameOn a0 (f1'.trans f2') (by omega), SameOn.refl a0 h'⟩

theorem SameOn.trans {a : Arch} {h1 h2 h3 : Handle} (s1 : SameOn a h1 h2) (s2 : SameOn a h2 h3) : SameOn a h1 h3 :=
  ⟨s2.1.trans s1.1, fun j hj => (s2.2 j hj).trans (s1.2 j hj)⟩

/-- any successful sequence of single updates is, for the finest archive, the sequence of
    the writes routed to it -/
theorem runUpds_reach (o : FOps) (a0 : Arch) (us : List Upd) :
    ∀ (h h' : Handle), Good h → h.archs[0]? = some a0 → runUpds o h us = .ok h' →
      Reach a0 h (eventsFor h 0 a0 us) h' := by
  induction us with
  | nil =>
    intro h h' _ _ hp
    simp only [runUpds] at hp
    injection hp with hp; subst hp
    exact SameOn.refl a0 h
  | cons u us ih =>
    intro h h' g ha0 hp
    simp only [runUpds] at hp
    cases hu : h.updatePoint o u.k u.t u.v u.now with
    | error e => rw [hu] at hp; simp at hp
    | ok hm =>
      rw [hu] at hp; simp only at hp
      obtain ⟨r1, gm, hhdr⟩ := updatePoint_reach o h hm g a0 ha0 u hu
      have ha0m : hm.archs[0]? = some a0 := by unfold Handle.archs at ha0 ⊢; rw [hhdr]; exact ha0
      have r2 := ih hm h' gm ha0m hp
      have hev : eventsFor hm 0 a0 us = eventsFor h 0 a0 us := by
        unfold eventsFor chosen findBestArchive Handle.archs
        rw [hhdr]
      rw [hev] at r2
      simp only [eventsFor, List.map_cons, List.map_nil] at r1 ⊢
      by_cases hc : chosen h u = 0
      · simp only [hc, if_true, Reach] at r1 ⊢
        obtain ⟨off, h1, hx, hg, hput, s1, s2⟩ := r1
        exact ⟨off, h1, hm, hg, hput, s1.trans s2, r2⟩
      · simp only [hc, if_false, Reach] at r1 ⊢
        obtain ⟨hx, s1, s2⟩ := r1
        exact ⟨hm, s1.trans s2, r2⟩

/-- **the finest archive of a created file, after any sequence of single updates**: each
    grid interval reads the last value written to it, NaN if a later lap took its slot or
    nothing was ever written there — whatever was routed to the other archives and
    whatever propagation did in between -/
theorem finest_reads_last_write (o : FOps) (h h' : Handle) (a0 : Arch) (us : List Upd)
    (g : Good h) (ha0 : h.archs[0]? = some a0) (fr : Fresh h a0)
    (hts : ∀ u ∈ us, u.t < 2147483648 ∧ a0.step ≤ u.t)
    (hp : runUpds o h us = .ok h') :
    ∀ J : Nat, J < 2147483648 → a0.step ∣ (J : Int) → J ≠ 0 →
      ringValue h' a0 (slotAt h' a0 0).t J =
        histValue a0 (writesOf (eventsFor h 0 a0 us)) (fun _ => nanBits) J := by
  have r := runUpds_reach o a0 us h h' g ha0 hp
  apply history_fresh a0 _ h h' fr ?_ r
  intro w hw
  simp only [writesOf, eventsFor, List.mem_filterMap, List.mem_map, id] at hw
  obtain ⟨e, ⟨u, hu, he⟩, hew⟩ := hw
  subst hew
  split at he
  · injection he with he
    subst he
    have ht := hts u hu
    have hs := fr.hs
    have hid := intervalForWrite_ideal a0 u.t hs (by omega)
    have hal := alignDown_le u.t a0.step hs
    simp only
    refine ⟨by omega, ?_, ?_⟩
    · rw [hid]; exact alignDown_dvd u.t a0.step
    · intro h0
      rw [h0] at hid
      unfold alignDown at hid hal
      have hm := Int.emod_lt_of_pos (u.t : Int) hs
      omega
  · cases he

/-! ### a created file is fresh -/

theorem created_count (o : FOps) (agg : Nat) (xff : UInt32) (lay : List (Int × Nat)) (disk : Bytes) (h : Handle)
    (hc : createHandle o agg xff lay = .ok (disk, h)) : h.hdr.count = u32 h.hdr.archives.length := by
  unfold createHandle at hc
  simp only [bind, Except.bind] at hc
  cases hn : newHeader o agg xff lay with
  | error e => simp [hn] at hc
  | ok hd =>
    simp only [hn] at hc
    cases hw : writeAt (List.replicate hd.expectedFileSize 0) 0 (encHeader hd) with
    | error e => simp [hw] at hc
    | ok v =>
      simp only [hw, pure, Except.pure] at hc
      injection hc with hc
      injection hc with h1 h2
      subst h2
      simp only
      unfold newHeader at hn
      dsimp only at hn
      split at hn
      · simp at hn
      · split at hn
        · simp at hn
        · split at hn
          · simp at hn
          · split at hn
            · simp at hn
            · injection hn with hn; subst hn; rfl

/-- every archive of a file `Create` returns is fresh -/
theorem created_fresh (o : FOps) (agg : Nat) (xff : UInt32) (lay : List (Int × Nat)) (hl : LayInRange lay)
    (disk : Bytes) (h : Handle) (hc : createHandle o agg xff lay = .ok (disk, h)) (a : Arch) (ha : a ∈ h.archs) :
    Fresh h a := by
  have g := create_good o agg xff lay hl disk h hc
  have pa := g.placed a ha
  have hst := g.hdrOK.steps a ha
  have hv := C20.created_view o agg xff lay disk h hc
  have hlen := C05.create_length o agg xff lay disk h hc
  have hcnt := created_count o agg xff lay disk h hc
  have hwf := g.wf
  have hsmall : h.hdr.archives.length < 4294967296 := by have := hwf.2.1; omega
  have hcount : h.hdr.count = h.hdr.archives.length := by rw [hcnt]; exact u32_of_nat _ hsmall
  have hefs := expectedFileSize_eq h.hdr hcount
  refine ⟨hst.1, pa.npos, by have := pa.hi; have := pa.fits; omega, ?_, ?_⟩
  · rw [hlen.2.1, hlen.1, hefs]; exact pa.hi
  · intro j hj
    unfold slotAt
    simp only
    rw [hv, List.drop_append]
    have hhl := encHeader_length h.hdr
    have hlo := pa.lo
    have : List.drop (a.offset + 12 * j) (encHeader h.hdr) = [] := List.drop_eq_nil_of_le (by omega)
    rw [this, List.nil_append, List.drop_replicate, C20.de32_zeros]

/-- **from `Create` on**: after any successful sequence of single updates of a created file,
    the finest archive reads back, for every grid interval, the last value written to it —
    NaN if a later lap took the slot or nothing was written there -/
theorem created_then_updates (o : FOps) (agg : Nat) (xff : UInt32) (lay : List (Int × Nat)) (hl : LayInRange lay)
    (disk : Bytes) (h h' : Handle) (hc : createHandle o agg xff lay = .ok (disk, h))
    (a0 : Arch) (ha0 : h.archs[0]? = some a0) (us : List Upd)
    (hts : ∀ u ∈ us, u.t < 2147483648 ∧ a0.step ≤ u.t)
    (hp : runUpds o h us = .ok h') :
    ∀ J : Nat, J < 2147483648 → a0.step ∣ (J : Int) → J ≠ 0 →
      ringValue h' a0 (slotAt h' a0 0).t J =
        histValue a0 (writesOf (eventsFor h 0 a0 us)) (fun _ => nanBits) J :=
  finest_reads_last_write o h h' a0 us (create_good o agg xff lay hl disk h hc) ha0
    (created_fresh o agg xff lay hl disk h hc a0 (mem_of_getElem? ha0)) hts hp

end Wsp.C01
