/-
  C02, the work-list of a batch as a refinement.  ⟦propagate⟧ threads a reversed
  accumulator with a "same as the last one" test through its loop; ⟦propagateChain⟧ feeds
  each level's result into the next.  Stated without the accumulator:

  * one level (`levelSpec`) consolidates the given coarser intervals one after the other,
    each on the state the previous one left, and reports the intervals it stored, in order;
  * the next level's list (`nextTimes`) is the intervals of the next archive containing the
    stored ones, adjacent repetitions dropped — nothing when there is no next archive;
  * the chain (`chainBatchSpec`) repeats this level by level while there is an archive and
    something was stored.

  `propagateChain_batch` : ⟦propagateChain⟧ equals that, for every batch.
-/
import Wsp.Props.C02System
namespace Wsp.C02S
open Wsp.Handle Wsp.C14 Wsp.Total Wsp.C01 Wsp.C08 Wsp.Inv

/-- drop adjacent repetitions -/
def dedupAdj : List Nat → List Nat
  | [] => []
  | [x] => [x]
  | x :: y :: rest => if x = y then dedupAdj (y :: rest) else x :: dedupAdj (y :: rest)

/-- push onto a reversed accumulator unless equal to the element pushed last -/
def pushNew (acc : List Nat) (x : Nat) : List Nat :=
  match acc with
  | last :: _ => if last = x then acc else x :: acc
  | [] => [x]

theorem dedupAdj_cons_cons (x y : Nat) (rest : List Nat) :
    dedupAdj (x :: y :: rest) = if x = y then dedupAdj (y :: rest) else x :: dedupAdj (y :: rest) := rfl

theorem dedupAdj_head (x : Nat) (xs : List Nat) : ∃ r, dedupAdj (x :: xs) = x :: r := by
  induction xs generalizing x with
  | nil => exact ⟨[], rfl⟩
  | cons y ys ih =>
    rw [dedupAdj_cons_cons]
    by_cases h : x = y
    · rw [if_pos h, h]; exact ih y
    · rw [if_neg h]; exact ⟨_, rfl⟩

/-- the accumulator loop computes `dedupAdj`: with a non-empty accumulator whose head is
    `last`, pushing `xs` gives the reverse of `dedupAdj (last :: xs)` in front of the rest -/
theorem foldl_pushNew_cons (last : Nat) (acc : List Nat) :
    ∀ xs : List Nat, (xs.foldl pushNew (last :: acc)).reverse = acc.reverse ++ dedupAdj (last :: xs) := by
  intro xs
  induction xs generalizing last acc with
  | nil => simp [dedupAdj]
  | cons x xs ih =>
    simp only [List.foldl_cons, pushNew]
    rw [dedupAdj_cons_cons]
    by_cases h : last = x
    · rw [if_pos h, if_pos h]
      rw [ih last acc, h]
    · rw [if_neg h, if_neg h]
      rw [ih x (last :: acc)]
      simp

theorem foldl_pushNew_nil (xs : List Nat) : (xs.foldl pushNew []).reverse = dedupAdj xs := by
  cases xs with
  | nil => rfl
  | cons x xs =>
    simp only [List.foldl_cons, pushNew]
    have := foldl_pushNew_cons x [] xs
    simpa using this

/-- ⟦timesToPropagate⟧ without its accumulator -/
theorem timesToPropagate_eq (a : Arch) : ∀ (ts acc : List Nat),
    timesToPropagate a acc ts = ((ts.map a.intervalForWrite).foldl pushNew acc).reverse := by
  intro ts
  induction ts with
  | nil => intro acc; rfl
  | cons t ts ih =>
    intro acc
    simp only [timesToPropagate, List.map_cons, List.foldl_cons, pushNew]
    cases acc with
    | nil => simp only; exact ih _
    | cons last rest =>
      simp only
      by_cases h : a.intervalForWrite t = last
      · rw [if_pos h, if_pos h.symm]; exact ih _
      · have h' : ¬ last = a.intervalForWrite t := fun e => h e.symm
        rw [if_neg h, if_neg h']; exact ih _

theorem timesToPropagate_dedup (a : Arch) (ts : List Nat) :
    timesToPropagate a [] ts = dedupAdj (ts.map a.intervalForWrite) := by
  rw [timesToPropagate_eq, foldl_pushNew_nil]

/-- one level: each interval consolidated in turn, on the state its predecessor left;
    returns the intervals that were stored, in order -/
def levelSpec (o : FOps) (a aHigh : Arch) : Handle → List Nat → R (Handle × List Nat)
  | h, [] => .ok (h, [])
  | h, t :: ts =>
    match propagateOne o h a aHigh t with
    | .error e => .error e
    | .ok (h', stored) =>
      match levelSpec o a aHigh h' ts with
      | .error e => .error e
      | .ok (h'', st) => .ok (h'', if stored then t :: st else st)

/-- the next level's list, from the intervals stored at this one -/
def nextTimes (aLow : Option Arch) (stored : List Nat) : List Nat :=
  match aLow with
  | none => []
  | some l => dedupAdj (stored.map l.intervalForWrite)

/-- the accumulator after a run of stored intervals -/
def accAfter (aLow : Option Arch) (acc : List Nat) (stored : List Nat) : List Nat :=
  match aLow with
  | none => acc
  | some l => (stored.map l.intervalForWrite).foldl pushNew acc

theorem nextAcc_stored (aLow : Option Arch) (acc : List Nat) (t : Nat) :
    nextAcc aLow acc t true = accAfter aLow acc [t] := by
  unfold nextAcc accAfter
  cases aLow with
  | none => rfl
  | some l =>
    simp only [if_true, List.map_cons, List.map_nil, List.foldl_cons, List.foldl_nil, pushNew]
    cases acc <;> rfl

theorem accAfter_cons (aLow : Option Arch) (acc : List Nat) (t : Nat) (st : List Nat) :
    accAfter aLow (accAfter aLow acc [t]) st = accAfter aLow acc (t :: st) := by
  unfold accAfter
  cases aLow with
  | none => rfl
  | some l => simp only [List.map_cons, List.map_nil, List.foldl_cons, List.foldl_nil]

/-- **one level of the work-list is `levelSpec`** -/
theorem propagateLoop_level (o : FOps) (a aHigh : Arch) (aLow : Option Arch) :
    ∀ (ts : List Nat) (h : Handle) (acc : List Nat),
      propagateLoop o h a aHigh aLow acc ts =
        match levelSpec o a aHigh h ts with
        | .error e => .error e
        | .ok (h', st) => .ok (h', (accAfter aLow acc st).reverse) := by
  intro ts
  induction ts with
  | nil =>
    intro h acc
    simp only [propagateLoop, levelSpec]
    cases aLow <;> rfl
  | cons t ts ih =>
    intro h acc
    rw [propagateLoop_cons]
    simp only [levelSpec]
    cases hone : propagateOne o h a aHigh t with
    | error e => rfl
    | ok r =>
      obtain ⟨h', stored⟩ := r
      simp only
      rw [ih h' (nextAcc aLow acc t stored)]
      cases hl : levelSpec o a aHigh h' ts with
      | error e => rfl
      | ok r2 =>
        obtain ⟨h'', st⟩ := r2
        simp only
        cases stored with
        | false =>
          simp only [Bool.false_eq_true, if_false]
          have : nextAcc aLow acc t false = acc := by unfold nextAcc; simp
          rw [this]
        | true =>
          simp only [if_true]
          rw [nextAcc_stored, accAfter_cons]

theorem accAfter_nil_rev (aLow : Option Arch) (st : List Nat) :
    (accAfter aLow [] st).reverse = nextTimes aLow st := by
  unfold accAfter nextTimes
  cases aLow with
  | none => rfl
  | some l => exact foldl_pushNew_nil _

/-- ⟦propagate⟧ at level `k`, without the accumulator -/
def propagateSpec (o : FOps) (h : Handle) (k : Nat) (ts : List Nat) : R (Handle × List Nat) :=
  if ts.length = 0 then .ok (h, []) else
  match h.archs[k]?, h.archs[k - 1]? with
  | some a, some aHigh =>
    match h.baseInterval a with
    | .error e => .error e
    | .ok _ =>
      match levelSpec o a aHigh h ts with
      | .error e => .error e
      | .ok (h', st) => .ok (h', nextTimes h.archs[k + 1]? st)
  | _, _ => .error (.panic "index out of range")

theorem propagate_eq_spec (o : FOps) (h : Handle) (k : Nat) (ts : List Nat) :
    propagate o h k ts = propagateSpec o h k ts := by
  unfold propagate propagateSpec
  by_cases h0 : ts.length = 0
  · rw [if_pos h0, if_pos h0]
  · rw [if_neg h0, if_neg h0]
    cases ha : h.archs[k]? with
    | none => rfl
    | some a =>
      cases hah : h.archs[k - 1]? with
      | none => rfl
      | some aHigh =>
        simp only
        cases hb : h.baseInterval a with
        | error e => rfl
        | ok b =>
          simp only
          rw [propagateLoop_level]
          cases hl : levelSpec o a aHigh h ts with
          | error e => rfl
          | ok r =>
            obtain ⟨h', st⟩ := r
            simp only
            rw [accAfter_nil_rev]

/-- the chain of a batch, level by level -/
def chainBatchSpec (o : FOps) : Nat → Handle → Nat → List Nat → R Handle
  | 0, h, _, _ => .ok h
  | fuel+1, h, k, ts =>
    if k < h.archs.length ∧ ts.length > 0 then
      match propagateSpec o h k ts with
      | .error e => .error e
      | .ok (h', ts') => chainBatchSpec o fuel h' (k + 1) ts'
    else .ok h

theorem chainLoop_batch (o : FOps) (fuel : Nat) :
    ∀ (h : Handle) (k : Nat) (ts : List Nat), propagateChainLoop o fuel h k ts = chainBatchSpec o fuel h k ts := by
  induction fuel with
  | zero => intro h k ts; rfl
  | succ fuel ih =>
    intro h k ts
    simp only [propagateChainLoop, chainBatchSpec]
    by_cases hc : k < h.archs.length ∧ ts.length > 0
    · rw [if_pos hc, if_pos hc, propagate_eq_spec]
      cases hp : propagateSpec o h k ts with
      | error e => rfl
      | ok r =>
        obtain ⟨h', ts'⟩ := r
        simp only
        exact ih h' (k + 1) ts'
    · rw [if_neg hc, if_neg hc]

/-- **⟦propagateChain⟧ for any batch, as the level-by-level chain**: the first level's list
    is the intervals of the next archive containing the written points (adjacent repetitions
    dropped), every further level's list is built from what the previous level stored -/
theorem propagateChain_batch (o : FOps) (h : Handle) (k : Nat) (aligned : List Point) :
    propagateChain o h k aligned =
      match h.archs[k + 1]? with
      | none => .ok h
      | some l => chainBatchSpec o h.archs.length h (k + 1)
          (dedupAdj ((aligned.map (·.t)).map l.intervalForWrite)) := by
  unfold propagateChain
  dsimp only
  cases hl : h.archs[k + 1]? with
  | none => rfl
  | some l =>
    simp only
    rw [timesToPropagate_dedup, chainLoop_batch]

/-- `dedupAdj` keeps exactly the elements of the list -/
theorem mem_dedupAdj (x : Nat) : ∀ xs : List Nat, x ∈ dedupAdj xs ↔ x ∈ xs := by
  intro xs
  induction xs with
  | nil => simp [dedupAdj]
  | cons y ys ih =>
    cases ys with
    | nil => simp [dedupAdj]
    | cons z zs =>
      rw [dedupAdj_cons_cons]
      by_cases h : y = z
      · rw [if_pos h, ih, h]; simp
      · rw [if_neg h, List.mem_cons, ih]; simp

/-- the next level's list holds exactly the next archive's intervals of the stored ones -/
theorem mem_nextTimes (l : Arch) (st : List Nat) (T : Nat) :
    T ∈ nextTimes (some l) st ↔ ∃ t ∈ st, T = l.intervalForWrite t := by
  unfold nextTimes
  simp only [mem_dedupAdj, List.mem_map]
  constructor
  · rintro ⟨t, ht, e⟩; exact ⟨t, ht, e.symm⟩
  · rintro ⟨t, ht, e⟩; exact ⟨t, ht, e.symm⟩

/-- a level only ever reports intervals it was given -/
theorem levelSpec_stored_subset (o : FOps) (a aHigh : Arch) :
    ∀ (ts : List Nat) (h h' : Handle) (st : List Nat), levelSpec o a aHigh h ts = .ok (h', st) →
      ∀ t ∈ st, t ∈ ts := by
  intro ts
  induction ts with
  | nil =>
    intro h h' st hl t ht
    simp only [levelSpec] at hl
    injection hl with hl; injection hl with _ e; subst e; simp at ht
  | cons t0 ts ih =>
    intro h h' st hl t ht
    simp only [levelSpec] at hl
    cases hone : propagateOne o h a aHigh t0 with
    | error e => rw [hone] at hl; simp at hl
    | ok r =>
      obtain ⟨h1, stored⟩ := r
      rw [hone] at hl; simp only at hl
      cases hr : levelSpec o a aHigh h1 ts with
      | error e => rw [hr] at hl; simp at hl
      | ok r2 =>
        obtain ⟨h2, st2⟩ := r2
        rw [hr] at hl; simp only at hl
        injection hl with hl; injection hl with _ e; subst e
        cases stored with
        | false =>
          simp only [Bool.false_eq_true, if_false] at ht
          exact List.mem_cons_of_mem _ (ih h1 h2 st2 hr t ht)
        | true =>
          simp only [if_true, List.mem_cons] at ht
          rcases ht with rfl | ht
          · simp
          · exact List.mem_cons_of_mem _ (ih h1 h2 st2 hr t ht)

/-- **recomputation continues only under stored slots**: every interval handed to the next
    level is the interval (of the next archive) of one that this level stored -/
theorem next_level_only_stored (o : FOps) (h h' : Handle) (k : Nat) (ts ts' : List Nat)
    (hp : propagateSpec o h k ts = .ok (h', ts')) :
    ∀ T ∈ ts', ∃ l t, h.archs[k + 1]? = some l ∧ t ∈ ts ∧ T = l.intervalForWrite t := by
  unfold propagateSpec at hp
  by_cases h0 : ts.length = 0
  · rw [if_pos h0] at hp
    injection hp with hp; injection hp with _ e; subst e
    intro T hT; simp at hT
  · rw [if_neg h0] at hp
    cases ha : h.archs[k]? with
    | none => rw [ha] at hp; simp at hp
    | some a =>
      cases hah : h.archs[k - 1]? with
      | none => rw [ha, hah] at hp; simp at hp
      | some aHigh =>
        rw [ha, hah] at hp
        simp only at hp
        cases hb : h.baseInterval a with
        | error e => rw [hb] at hp; simp at hp
        | ok b =>
          rw [hb] at hp; simp only at hp
          cases hl : levelSpec o a aHigh h ts with
          | error e => rw [hl] at hp; simp at hp
          | ok r =>
            obtain ⟨h1, st⟩ := r
            rw [hl] at hp; simp only at hp
            injection hp with hp; injection hp with _ e; subst e
            intro T hT
            unfold nextTimes at hT
            cases hlow : h.archs[k + 1]? with
            | none => rw [hlow] at hT; simp at hT
            | some l =>
              rw [hlow] at hT
              simp only at hT
              rw [mem_dedupAdj] at hT
              obtain ⟨t, ht, e⟩ := List.mem_map.1 hT
              exact ⟨l, t, rfl, levelSpec_stored_subset o a aHigh ts h h1 st hl t ht, e.symm⟩

theorem chainBatchSpec_nil (o : FOps) (fuel : Nat) (h : Handle) (k : Nat) : chainBatchSpec o fuel h k [] = .ok h := by
  cases fuel with
  | zero => rfl
  | succ f =>
    simp only [chainBatchSpec]
    have : ¬ (k < h.archs.length ∧ ([] : List Nat).length > 0) := by simp
    rw [if_neg this]

/-- **a level that stores nothing ends the chain**: no coarser archive is touched -/
theorem chain_stops_when_nothing_stored (o : FOps) (fuel : Nat) (h h' : Handle) (k : Nat) (ts : List Nat)
    (a aHigh : Arch) (ha : h.archs[k]? = some a) (hah : h.archs[k - 1]? = some aHigh) (b : Nat)
    (hb : h.baseInterval a = .ok b) (hts : ts ≠ [])
    (hl : levelSpec o a aHigh h ts = .ok (h', [])) :
    chainBatchSpec o (fuel + 1) h k ts = .ok h' := by
  simp only [chainBatchSpec]
  have hk : k < h.archs.length := (List.getElem?_eq_some_iff.1 ha).1
  have hpos : ts.length > 0 := List.length_pos_iff.2 hts
  rw [if_pos ⟨hk, hpos⟩]
  unfold propagateSpec
  have h0 : ¬ ts.length = 0 := by omega
  rw [if_neg h0, ha, hah]
  simp only
  rw [hb]
  simp only
  rw [hl]
  simp only
  have : nextTimes h.archs[k + 1]? [] = [] := by
    unfold nextTimes; cases h.archs[k + 1]? <;> rfl
  rw [this]
  exact chainBatchSpec_nil o fuel h' (k + 1)

end Wsp.C02S
