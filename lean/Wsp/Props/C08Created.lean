/-
  C08, the destination the copy creates itself: when no file stands under the destination path
  the copy creates one with the layout it was given; under the plain conditions of
  `copy_then_diff_plain` (same archive list as the source, clock inside every archive's zone,
  window reaching every archive) the diff of the pair on the tree the copy left is clean.
-/
import Wsp.Props.C08Plain
namespace Wsp.C08
open Wsp.Handle Wsp.C14 Wsp.Total Wsp.C01 Wsp.Cmd Wsp.Inv Wsp.Reopen Wsp.C18

theorem createHandle_newHeader (o : FOps) (agg : Nat) (xff : UInt32) (lay : List (Int × Nat)) (disk : Bytes) (h : Handle)
    (hc : createHandle o agg xff lay = .ok (disk, h)) : ∃ x, newHeader o agg xff lay = .ok x := by
  unfold createHandle at hc
  simp only [bind, Except.bind] at hc
  cases hn : newHeader o agg xff lay with
  | error e => rw [hn] at hc; simp at hc
  | ok x => exact ⟨x, rfl⟩

/-- **copy into a path that holds no file, then diff**: the copy creates the destination and
    fills it; the diff that follows finds nothing -/
theorem copy_creates_then_diff_plain (o : FOps) (hl : FLaws o) (t : Tree) (src dst : String) (c : CopyOpts) (w : Window)
    (bs disk : Bytes) (hsH hd : Handle) (L : Nat)
    (hlay : LayInRange c.lay)
    (hnan : c.copyNaN = true) (hall : w.archiveID = -1) (hne : src ≠ dst)
    (hgs : t.get src = some bs) (hos : openBytes o bs = .ok hsH) (als : AllState hsH)
    (hgd : t.get dst = none) (hcr : createHandle o c.agg c.xff c.lay = .ok (disk, hd))
    (hsame : hsH.archs = hd.archs) (co : Coarse hd L)
    (hfu : w.from_ ≤ w.until') (hfn : w.from_ ≤ w.now)
    (hz : ∀ a ∈ hd.archs, ¬ w.until' < tsAdd w.now (- a.maxRetention) ∧ a.step * (a.n : Int) ≤ w.now ∧
      (w.now : Int) + 2 * a.step < 2147483648 ∧ (L : Int) + a.step * (a.n : Int) ≤ w.now)
    (hok : (copyOne o t src dst c w).2.1 = .ok) :
    diffOne o (copyOne o t src dst c w).1 src dst w = (.ok, []) := by
  have gd := create_good o c.agg c.xff c.lay hlay disk hd hcr
  have ald := created_allstate o c.agg c.xff c.lay hlay disk hd hcr
  have hex : ∀ k, ∃ a f cnt, k < hd.archs.length → WinSpec hd w k a f cnt := by
    intro k
    by_cases hk : k < hd.archs.length
    · have ha : hd.archs[k]? = some (hd.archs[k]) := List.getElem?_eq_getElem hk
      obtain ⟨h1, h2, h3, _⟩ := hz _ (List.getElem_mem hk)
      obtain ⟨f, cnt, sp⟩ := winSpec_of_window hd gd w k _ ha hfu hfn h1 h2 h3
      exact ⟨_, f, cnt, fun _ => sp⟩
    · exact ⟨⟨0, 0, 0⟩, 0, 0, fun hk' => absurd hk' hk⟩
  let A : Nat → Arch := fun k => Classical.choose (hex k)
  let F : Nat → Nat := fun k => Classical.choose (Classical.choose_spec (hex k))
  let C : Nat → Nat := fun k => Classical.choose (Classical.choose_spec (Classical.choose_spec (hex k)))
  have hspecD : ∀ k, k < hd.archs.length → WinSpec hd w k (A k) (F k) (C k) :=
    fun k hk => Classical.choose_spec (Classical.choose_spec (Classical.choose_spec (hex k))) hk
  have hspecS : ∀ k, k < hsH.archs.length → WinSpec hsH w k (A k) (F k) (C k) :=
    fun k hk => winSpec_of_archs (hspecD k (by rw [← hsame]; exact hk)) hsame
  let V : Nat → List Val := fun k => (readSeries hsH (A k) (F k) (C k)).values
  have hrs := readFile_win o t src bs hsH w A F C hgs hos als hall hspecS
  rw [hsame] at hrs
  rw [← readFile_set_ne o t src dst hd.view hne] at hrs
  -- the destination is created
  have hoc : openOrCreate o t dst c = .ok (t.set dst hd.view, hd) := by
    obtain ⟨x, hx⟩ := createHandle_newHeader o c.agg c.xff c.lay disk hd hcr
    unfold openOrCreate
    rw [hx]
    simp only
    rw [hgd]
    simp only
    rw [hcr]
  apply copyOne_then_diffOne_clean o hl t src dst c w L A F C V hlay hnan hall hne ?_ hok
  intro t1 hd' hs' ls' hoc' hrd'
  rw [hoc] at hoc'
  injection hoc' with hoc'
  injection hoc' with e1 e2
  subst e1; subst e2
  rw [hrs] at hrd'
  injection hrd' with hrd'
  injection hrd' with e3 e4
  subst e4
  refine ⟨ald, co, by simp, ?_⟩
  intro k hk
  have sp := hspecD k hk
  have hmem : A k ∈ hd.archs := mem_of_getElem? sp.arch
  obtain ⟨_, _, _, h4⟩ := hz _ hmem
  refine ⟨sp.arch, ?_, by simp [V, readSeries], sp.pos, sp.zone, ?_, sp.plan⟩
  · rw [List.getD_eq_getElem?_getD]
    simp only [List.getElem?_map, List.getElem?_range hk, Option.map_some, Option.getD_some]
    rfl
  · have hy := sp.zone.young
    have ok := sp.zone.ok
    have hmr := maxRetention_ideal (A k) ok
    rw [hmr] at hy
    have hs := ok.1
    have hpos : 0 ≤ (A k).step * ((A k).n : Int) := Int.mul_nonneg (by omega) (by omega)
    have hts := tsAdd_ideal w.now (- ((A k).step * ((A k).n : Int))) (by omega) (by omega)
    omega

end Wsp.C08
