/-
  C16, the totality clause for the reading commands: with the clock past every file's
  retention and before 2038 (`ClockAll`), `view`, `view-raw`, `diff`, `sum` and `sum-diff`
  never end in a panic — whatever bytes the files of the tree hold, whatever archive is
  selected, whatever the window.  (The library calls they are made of are total on every
  file that opens: `Total.open_good`, `fetch_total`, `raw_total`.)
-/
import Wsp.Props.Total
import Wsp.Model.Cmd
namespace Wsp.C16T
open Wsp.Handle Wsp.C14 Wsp.Total Wsp.Cmd

/-- the clock is inside the zone of every file of the tree that opens -/
def ClockAll (o : FOps) (t : Tree) (now : Nat) : Prop :=
  ∀ p b h, t.get p = some b → openBytes o b = .ok h → ClockOK h now

theorem ofFault_ne_panic {α} (r : R α) (e : Fault) (hr : r = .error e) (hnp : ¬ IsPanic r) :
    Outcome.ofFault e ≠ .panic := by
  cases e with
  | panic w => exact absurd ⟨w, hr⟩ hnp
  | err k => simp [Outcome.ofFault]
  | wantLarger n => simp [Outcome.ofFault]

theorem fetchAll_np (h : Handle) (g : Good h) (now f u : Nat) (hz : ClockOK h now) :
    ∀ (as : List Arch) (i : Nat), ¬ IsPanic (fetchAll h now f u i as) := by
  intro as
  induction as with
  | nil => intro i; rintro ⟨w, hh⟩; simp [fetchAll] at hh
  | cons a as ih =>
    intro i
    rintro ⟨w, hh⟩
    simp only [fetchAll] at hh
    cases h1 : h.fetchFromArchive (i : Int) f u now with
    | error e => rw [h1] at hh; simp at hh; exact fetch_total h g _ f u now hz ⟨w, by rw [h1, hh]⟩
    | ok s =>
      rw [h1] at hh; simp only at hh
      cases h2 : fetchAll h now f u (i + 1) as with
      | error e => rw [h2] at hh; simp at hh; exact ih (i + 1) ⟨w, by rw [h2, hh]⟩
      | ok rest => rw [h2] at hh; simp at hh

theorem fetchList_np (h : Handle) (g : Good h) (k : Int) (f u now : Nat) (hz : ClockOK h now) :
    ¬ IsPanic (fetchList h k f u now) := by
  rintro ⟨w, hh⟩
  unfold fetchList at hh
  split at hh
  · exact fetchAll_np h g now f u hz _ _ ⟨w, hh⟩
  · split at hh
    · cases h1 : h.fetchFromArchive k f u now with
      | error e => rw [h1] at hh; simp at hh; exact fetch_total h g k f u now hz ⟨w, by rw [h1, hh]⟩
      | ok s => rw [h1] at hh; simp at hh
    · simp at hh

theorem readFile_np (o : FOps) (t : Tree) (p : String) (k : Int) (f u now : Nat)
    (hz : ClockAll o t now) : ¬ IsPanic (readFile o t p k f u now) := by
  rintro ⟨w, hh⟩
  unfold readFile at hh
  cases hb : t.get p with
  | none => rw [hb] at hh; simp at hh
  | some b =>
    rw [hb] at hh; simp only at hh
    cases ho : openBytes o b with
    | error e => rw [ho] at hh; simp at hh
    | ok h =>
      rw [ho] at hh; simp only at hh
      have g := open_good o b _ h ho
      cases h1 : fetchList h k f u now with
      | error e => rw [h1] at hh; simp at hh; exact fetchList_np h g k f u now (hz p b h hb ho) ⟨w, by rw [h1, hh]⟩
      | ok l => rw [h1] at hh; simp at hh

/-- **view never panics** -/
theorem view_total (o : FOps) (t : Tree) (p : String) (w : Window) (hz : ClockAll o t w.now) :
    (Cmd.view o t p w).1 ≠ .panic := by
  unfold Cmd.view
  cases hr : readFile o t p w.archiveID w.from_ w.until' w.now with
  | ok r => obtain ⟨h, l⟩ := r; simp
  | error e => exact ofFault_ne_panic _ e hr (readFile_np o t p _ _ _ _ hz)

theorem rawAll_np (h : Handle) : ∀ (as : List Arch) (i : Nat), i + as.length = h.archs.length →
    ¬ IsPanic (rawAll h i as) := by
  intro as
  induction as with
  | nil => intro i _; rintro ⟨w, hh⟩; simp [rawAll] at hh
  | cons a as ih =>
    intro i hi
    rintro ⟨w, hh⟩
    simp only [rawAll] at hh
    cases h1 : h.rawPoints (i : Int) with
    | error e =>
      rw [h1] at hh; simp at hh
      exact raw_total h (i : Int) ⟨by omega, by simp at hi ⊢; omega⟩ ⟨w, by rw [h1, hh]⟩
    | ok ps =>
      rw [h1] at hh; simp only at hh
      cases h2 : rawAll h (i + 1) as with
      | error e => rw [h2] at hh; simp at hh; exact ih (i + 1) (by simp at hi ⊢; omega) ⟨w, by rw [h2, hh]⟩
      | ok rest => rw [h2] at hh; simp at hh

/-- **view-raw never panics** (no clock hypothesis: it reads slots, not windows) -/
theorem viewRaw_total (o : FOps) (t : Tree) (p : String) (w : Window) (s : Bool) : (viewRaw o t p w s).1 ≠ .panic := by
  unfold viewRaw
  cases hb : t.get p with
  | none => simp
  | some b =>
    simp only
    cases ho : openBytes o b with
    | error e => simp
    | ok h =>
      simp only
      split
      · rename_i e he
        apply ofFault_ne_panic _ e he
        split
        · exact rawAll_np h _ 0 (by simp)
        · split
          · rename_i hk
            rintro ⟨x, hx⟩
            cases h1 : h.rawPoints w.archiveID with
            | error e' => rw [h1] at hx; simp at hx; exact raw_total h _ hk ⟨x, by rw [h1, hx]⟩
            | ok ps => rw [h1] at hx; simp at hx
          · rintro ⟨x, hx⟩; simp at hx
      · simp

/-- **diff never panics** -/
theorem diffOne_total (o : FOps) (t : Tree) (src dst : String) (w : Window) (hz : ClockAll o t w.now) :
    (diffOne o t src dst w).1 ≠ .panic := by
  have n1 := readFile_np o t src w.archiveID w.from_ w.until' w.now hz
  have n2 := readFile_np o t dst w.archiveID w.from_ w.until' w.now hz
  unfold diffOne
  dsimp only
  cases h1 : readFile o t src w.archiveID w.from_ w.until' w.now with
  | error e1 =>
    cases h2 : readFile o t dst w.archiveID w.from_ w.until' w.now with
    | error e2 =>
      cases e1 with
      | panic x => exact absurd ⟨x, h1⟩ n1
      | wantLarger n => cases e2 with
        | panic x => exact absurd ⟨x, h2⟩ n2
        | wantLarger m => simp [Outcome.ofFault]
        | err k2 => cases k2 <;> simp [Outcome.ofFault]
      | err k1 =>
        cases k1 <;> (cases e2 with
          | panic x => exact absurd ⟨x, h2⟩ n2
          | wantLarger m => simp [Outcome.ofFault]
          | err k2 => cases k2 <;> simp [Outcome.ofFault])
    | ok r2 =>
      cases e1 with
      | panic x => exact absurd ⟨x, h1⟩ n1
      | wantLarger n => simp [Outcome.ofFault]
      | err k1 => cases k1 <;> simp [Outcome.ofFault]
  | ok r1 =>
    obtain ⟨hs, ls⟩ := r1
    cases h2 : readFile o t dst w.archiveID w.from_ w.until' w.now with
    | error e2 =>
      cases e2 with
      | panic x => exact absurd ⟨x, h2⟩ n2
      | wantLarger m => simp [Outcome.ofFault]
      | err k2 => cases k2 <;> simp [Outcome.ofFault]
    | ok r2 =>
      obtain ⟨hd, ld⟩ := r2
      simp only
      split
      · simp
      · split
        · simp
        · split <;> simp

theorem readAll_np (o : FOps) (t : Tree) (w : Window) (hz : ClockAll o t w.now) :
    ∀ (fs : List String), ¬ IsPanic (sumFiles.readAll o t w fs) := by
  intro fs
  induction fs with
  | nil => rintro ⟨x, hx⟩; simp [sumFiles.readAll] at hx
  | cons f fs ih =>
    rintro ⟨x, hx⟩
    simp only [sumFiles.readAll] at hx
    cases h1 : readFile o t f w.archiveID w.from_ w.until' w.now with
    | error e => rw [h1] at hx; simp at hx; exact readFile_np o t f _ _ _ _ hz ⟨x, by rw [h1, hx]⟩
    | ok r =>
      rw [h1] at hx; simp only at hx
      cases h2 : sumFiles.readAll o t w fs with
      | error e => rw [h2] at hx; simp at hx; exact ih ⟨x, by rw [h2, hx]⟩
      | ok rs => rw [h2] at hx; simp at hx

theorem sumFiles_np (o : FOps) (t : Tree) (files : List String) (w : Window) (hz : ClockAll o t w.now) :
    ¬ IsPanic (sumFiles o t files w) := by
  rintro ⟨x, hx⟩
  unfold sumFiles at hx
  split at hx
  · simp at hx
  · cases h1 : sumFiles.readAll o t w files with
    | error e => rw [h1] at hx; simp at hx; exact readAll_np o t w hz files ⟨x, by rw [h1, hx]⟩
    | ok rs =>
      rw [h1] at hx; simp only at hx
      cases rs with
      | nil => simp at hx
      | cons r rest =>
        obtain ⟨h0, l0⟩ := r
        simp only at hx
        split at hx
        · simp at hx
        · split at hx <;> simp at hx

/-- **sum never panics** -/
theorem sum_total (o : FOps) (t : Tree) (files : List String) (w : Window) (hz : ClockAll o t w.now) :
    (Cmd.sum o t files w).1 ≠ .panic := by
  unfold Cmd.sum
  cases hr : sumFiles o t files w with
  | ok r => obtain ⟨h, l⟩ := r; simp
  | error e => exact ofFault_ne_panic _ e hr (sumFiles_np o t files w hz)

/-- **sum-diff never panics** -/
theorem sumDiff_total (o : FOps) (t : Tree) (files : List String) (dst : String) (w : Window) (hz : ClockAll o t w.now) :
    (sumDiff o t files dst w).1 ≠ .panic := by
  have n1 := sumFiles_np o t files w hz
  have n2 := readFile_np o t dst w.archiveID w.from_ w.until' w.now hz
  unfold sumDiff
  dsimp only
  cases h1 : sumFiles o t files w with
  | error e1 =>
    cases h2 : readFile o t dst w.archiveID w.from_ w.until' w.now with
    | error e2 =>
      cases e1 with
      | panic x => exact absurd ⟨x, h1⟩ n1
      | wantLarger n => cases e2 with
        | panic x => exact absurd ⟨x, h2⟩ n2
        | wantLarger m => simp [Outcome.ofFault]
        | err k2 => cases k2 <;> simp [Outcome.ofFault]
      | err k1 =>
        cases k1 <;> (cases e2 with
          | panic x => exact absurd ⟨x, h2⟩ n2
          | wantLarger m => simp [Outcome.ofFault]
          | err k2 => cases k2 <;> simp [Outcome.ofFault])
    | ok r2 =>
      cases e1 with
      | panic x => exact absurd ⟨x, h1⟩ n1
      | wantLarger n => simp [Outcome.ofFault]
      | err k1 => cases k1 <;> simp [Outcome.ofFault]
  | ok r1 =>
    obtain ⟨hs, ls⟩ := r1
    cases h2 : readFile o t dst w.archiveID w.from_ w.until' w.now with
    | error e2 =>
      cases e2 with
      | panic x => exact absurd ⟨x, h2⟩ n2
      | wantLarger m => simp [Outcome.ofFault]
      | err k2 => cases k2 <;> simp [Outcome.ofFault]
    | ok r2 =>
      obtain ⟨hd, ld⟩ := r2
      simp only
      split
      · simp
      · split <;> simp

end Wsp.C16T
