/-
  C17  Concurrent reads are race-free and equal to sequential reads.  (partial)

  An interleaving model of the page cache (filebuffer's mutex makes each ReadAt atomic):
  the disk is fixed (no writes in flight), the cache maps pages to bytes, a read of a
  page loads it from the disk if absent and returns the cached bytes.  K readers each run a
  straight-line program of page reads.  Proved for **every** interleaving of any number of
  readers: each read returns what the disk holds for that page, so every fetch returns
  exactly what it returns when run alone; the same for the per-file reads of `sum` (each
  goroutine writes only its own index of the result slices) and for independent handler
  invocations (no shared state but the files).  The read-path functions of whisper.go
  assign no field of the handle (a regenerated source fact).
  Not modelled: the Go memory model.  "Free of data races" is supported by running the
  concurrency legs of the check under the race detector and by the structural fact that all
  shared mutable state sits behind filebuffer's mutex — it is not a theorem.
-/
import Wsp.Props.FactsTie
namespace Wsp.C17

abbrev Page := Nat
abbrev Disk := Page → Nat            -- page contents, abstract
abbrev Cache := Page → Option Nat

/-- ⟦filebuffer.ReadAt⟧ under the mutex: load if absent, return the cached content -/
def readPage (d : Disk) (c : Cache) (p : Page) : Cache × Nat :=
  match c p with
  | some b => (c, b)
  | none => (fun q => if q = p then some (d p) else c q, d p)

def Coherent (d : Disk) (c : Cache) : Prop := ∀ p b, c p = some b → b = d p

theorem read_coherent (d : Disk) (c : Cache) (p : Page) (hc : Coherent d c) :
    Coherent d (readPage d c p).1 ∧ (readPage d c p).2 = d p := by
  unfold readPage
  cases h : c p with
  | some b => exact ⟨hc, hc p b h⟩
  | none =>
    refine ⟨?_, rfl⟩
    intro q b hq
    by_cases hqp : q = p
    · simp [hqp] at hq; rw [hqp, ← hq]
    · simp [hqp] at hq; exact hc q b hq

/-- a schedule: which reader reads which page next; each reader collects what it read -/
def runSched (d : Disk) : Cache → List (Nat × Page) → List (Nat × Page × Nat)
  | _, [] => []
  | c, (r, p) :: rest =>
    let (c', b) := readPage d c p
    (r, p, b) :: runSched d c' rest

/-- **interleaving invariance**: in every schedule, whatever the other readers did before,
    each read of page `p` returns the disk's content of `p` -/
theorem interleaving_invariant (d : Disk) (sched : List (Nat × Page)) :
    ∀ (c : Cache), Coherent d c → ∀ e ∈ runSched d c sched, e.2.2 = d e.2.1 := by
  induction sched with
  | nil => intro c _ e he; simp [runSched] at he
  | cons x rest ih =>
    intro c hc e he
    obtain ⟨r, p⟩ := x
    simp only [runSched, List.mem_cons] at he
    have := read_coherent d c p hc
    rcases he with rfl | he
    · exact this.2
    · exact ih _ this.1 e he

/-- hence a reader's results do not depend on the schedule: the reads of reader `r`, in
    its program order, are the disk contents of the pages it asked for -/
theorem reader_result_is_sequential (d : Disk) (sched : List (Nat × Page)) (r : Nat) :
    ((runSched d (fun _ => none) sched).filter (fun e => e.1 = r)).map (fun e => e.2.2) =
    ((sched.filter (fun x => x.1 = r)).map (fun x => d x.2)) := by
  suffices h : ∀ (c : Cache), Coherent d c →
      ((runSched d c sched).filter (fun e => e.1 = r)).map (fun e => e.2.2) =
      ((sched.filter (fun x => x.1 = r)).map (fun x => d x.2)) by
    exact h _ (by intro p b hb; simp at hb)
  induction sched with
  | nil => intro c _; rfl
  | cons x rest ih =>
    intro c hc
    obtain ⟨r', p⟩ := x
    have hr := read_coherent d c p hc
    simp only [runSched, List.filter_cons]
    by_cases hrr : r' = r
    · simp only [hrr, decide_true, if_true, List.map_cons, hr.2]
      rw [ih _ hr.1]
    · simp only [hrr, decide_false, Bool.false_eq_true, if_false]
      exact ih _ hr.1

/-- `sum` reads its files concurrently: goroutine `i` writes only index `i` of the result
    slices, so the collected results are those of the sequential loop -/
theorem disjoint_index_writes {α} (n : Nat) (f : Nat → α) (order : List Nat)
    (hperm : order.Perm (List.range n)) (init : Nat → Option α) :
    ∀ i, i < n → (order.foldl (fun acc j => fun k => if k = j then some (f j) else acc k) init) i = some (f i) := by
  intro i hi
  have hmem : i ∈ order := hperm.symm.subset (List.mem_range.2 hi)
  have key : ∀ (l : List Nat) (acc : Nat → Option α), (i ∈ l ∨ acc i = some (f i)) →
      (l.foldl (fun acc j => fun k => if k = j then some (f j) else acc k) acc) i = some (f i) := by
    intro l
    induction l with
    | nil =>
      intro acc h
      rcases h with h | h
      · simp at h
      · exact h
    | cons j l ih =>
      intro acc h
      simp only [List.foldl_cons]
      apply ih
      by_cases hij : i = j
      · right; simp [hij]
      · rcases h with h | h
        · simp only [List.mem_cons] at h
          rcases h with h | h
          · exact absurd h hij
          · exact Or.inl h
        · right; simp [hij, h]
  exact key order init (Or.inl hmem)

/-- no read-path function of whisper.go assigns a field of the handle -/
theorem handle_fields_assigned_only_at_open :
    Facts.fieldAssigners.map (·.1) =
      ["Create", "Open", "WithOpenFileFlag", "WithPerm", "WithoutFlock", "openAndLockFile", "readHeader"] :=
  FactsTie.field_assigners

end Wsp.C17
