/-
  Locality over whole histories of single updates: after any sequence of accepted single
  updates, a slot that differs from what it was is stamped with an interval that one of the
  updates of the history touches at that level — the aligned interval of its time in the
  archive it was routed to, or the interval of its chain in an archive behind it.  A coarse
  interval none of whose finer times was ever written keeps its slot bit for bit, however
  long the history.
-/
import Wsp.Props.C02LocalUpd
namespace Wsp.C02S
open Wsp.Handle Wsp.C14 Wsp.Total Wsp.C01 Wsp.C08 Wsp.Inv

/-- the stamp a single update at `(t, now)` may leave in archive `m` of a file with archive
    list `as` -/
def Touches (as : List Arch) (t now m T : Nat) : Prop :=
  ∃ a, as[findBestFrom (tsSub now t) 0 as]? = some a ∧
    findBestFrom (tsSub now t) 0 as ≤ m ∧
    (m = findBestFrom (tsSub now t) 0 as → T = a.intervalForWrite t) ∧
    (findBestFrom (tsSub now t) 0 as < m → ∃ l, as[findBestFrom (tsSub now t) 0 as + 1]? = some l ∧
      T = chainTime as (findBestFrom (tsSub now t) 0 as + 1)
        (l.intervalForWrite (a.intervalForWrite t)) as.length m)

theorem updatePoint_touches (o : FOps) (h h' : Handle) (g : Good h) (t : Nat) (v : Val) (now : Nat)
    (hok : h.updatePoint o (-1) t v now = .ok h') :
    ∀ (m : Nat) (b : Arch) (j : Nat), h.archs[m]? = some b → j < b.n →
      slotAt h' b j ≠ slotAt h b j → Touches h.archs t now m (slotAt h' b j).t := by
  obtain ⟨a, ha, hloc⟩ := updatePoint_local o h h' g t v now hok
  intro m b j hmb hj hne
  obtain ⟨h1, h2, h3⟩ := hloc m b j hmb hj hne
  unfold findBestArchive at ha h1 h2 h3
  exact ⟨a, ha, h1, h2, h3⟩

/-- a history of single updates through "best" routing: `(t, v, now)` each -/
def runSingles (o : FOps) : Handle → List (Nat × Val × Nat) → R Handle
  | h, [] => .ok h
  | h, (t, v, now) :: rest =>
    match h.updatePoint o (-1) t v now with
    | .error e => .error e
    | .ok h1 => runSingles o h1 rest

/-- **locality over histories** -/
theorem history_local (o : FOps) : ∀ (ops : List (Nat × Val × Nat)) (h h' : Handle), Good h →
    runSingles o h ops = .ok h' →
    h'.archs = h.archs ∧
    ∀ (m : Nat) (b : Arch) (j : Nat), h.archs[m]? = some b → j < b.n →
      slotAt h' b j ≠ slotAt h b j →
      ∃ op ∈ ops, Touches h.archs op.1 op.2.2 m (slotAt h' b j).t := by
  intro ops
  induction ops with
  | nil =>
    intro h h' _ hr
    simp only [runSingles] at hr
    injection hr with hr; subst hr
    exact ⟨rfl, fun m b j _ _ hne => absurd rfl hne⟩
  | cons op rest ih =>
    intro h h' g hr
    obtain ⟨t, v, now⟩ := op
    simp only [runSingles] at hr
    cases h1e : h.updatePoint o (-1) t v now with
    | error e => simp [h1e] at hr
    | ok h1 =>
      simp only [h1e] at hr
      have fr := updatePoint_frame o h h1 g.placed (-1) t v now h1e
      have g1 : Good h1 := g.of_frame fr
      have earch : h1.archs = h.archs := by unfold Handle.archs; rw [fr.1]
      obtain ⟨ea, hloc⟩ := ih h1 h' g1 hr
      refine ⟨ea.trans earch, ?_⟩
      intro m b j hmb hj hne
      have hmb1 : h1.archs[m]? = some b := by rw [earch]; exact hmb
      by_cases hc : slotAt h' b j = slotAt h1 b j
      · -- the rest of the history left the slot as the first update made it
        have hne1 : slotAt h1 b j ≠ slotAt h b j := by rw [← hc]; exact hne
        have := updatePoint_touches o h h1 g t v now h1e m b j hmb hj hne1
        exact ⟨(t, v, now), List.mem_cons_self, by rw [hc]; exact this⟩
      · obtain ⟨op, hop, ht⟩ := hloc m b j hmb1 hj hc
        exact ⟨op, List.mem_cons_of_mem _ hop, by rw [← earch]; exact ht⟩

/-- the contrapositive, as a user reads it: a slot whose stamp after the history is one no update
    of the history touches at its level is exactly what it was before -/
theorem untouched_slot_unchanged (o : FOps) (ops : List (Nat × Val × Nat)) (h h' : Handle) (g : Good h)
    (hr : runSingles o h ops = .ok h') (m : Nat) (b : Arch) (j : Nat)
    (hmb : h.archs[m]? = some b) (hj : j < b.n)
    (hkeep : ∀ op ∈ ops, ∀ T, Touches h.archs op.1 op.2.2 m T → T ≠ (slotAt h' b j).t) :
    slotAt h' b j = slotAt h b j := by
  apply Classical.byContradiction
  intro hne
  obtain ⟨op, hop, ht⟩ := (history_local o ops h h' g hr).2 m b j hmb hj hne
  exact hkeep op hop _ ht rfl

end Wsp.C02S
