/-
  C06, the interoperability clause: a model of the reference reader (classic Whisper as in
  go-whisper's uncompressed `fetchFromArchive`: `Interval`, `PointOffset`, `readSeries`, the
  per-slot timestamp test) over ideal integers, and the theorem that on the same bytes it
  returns exactly what whispertool's fetch returns, for every window of the zone.

  go-whisper's `mod(a, b) = a − b·floor(float64(a)/float64(b))` is modelled as the floored
  modulus (exact for the magnitudes that occur: |a| < 2^53).
-/
import Wsp.Props.C01
namespace Wsp.C06Ref
open Wsp.Handle Wsp.C14 Wsp.C01

/-- ⟦archiveInfo.PointOffset⟧ of the reference reader: Go `/` truncates, `mod` floors -/
def refPointOffset (a : Arch) (base I : Int) : Int :=
  (a.offset : Int) + (Int.tdiv (I - base) a.step * 12) % ((a.n : Int) * 12)

/-- ⟦readSeries⟧ : one read, or two when the range wraps past the end of the archive -/
def refReadSeries (h : Handle) (a : Arch) (start end_ : Nat) : R (List Point) :=
  if start < end_ then h.readPoints (offsRange start end_)
  else h.readPoints (offsRange start (a.offset + 12 * a.n) ++ offsRange a.offset end_)

/-- the per-slot test: a slot counts only if it is stamped with the interval expected there -/
def refValues (step : Nat) : Nat → List Point → List Val
  | _, [] => []
  | cur, p :: ps => (if p.t = cur then p.v else nanBits) :: refValues step (cur + step) ps

/-- ⟦fetchFromArchive⟧ of the reference reader on the aligned bounds -/
def refFetchExec (h : Handle) (a : Arch) (fromI untilI : Nat) : R Series :=
  match h.baseInterval a with
  | .error e => .error e
  | .ok base =>
    if base = 0 then
      .ok ⟨fromI, untilI, a.step, List.replicate ((((untilI : Int) - fromI) / a.step).toNat) nanBits⟩
    else
      let untilI' := if fromI = untilI then untilI + a.step.toNat else untilI
      match refReadSeries h a (refPointOffset a base fromI).toNat (refPointOffset a base untilI').toNat with
      | .error e => .error e
      | .ok series => .ok ⟨fromI, untilI', a.step, refValues a.step.toNat fromI series⟩

theorem refPointOffset_eq (a : Arch) (hs : 0 < a.step) (hn : 0 < a.n) (hfit : a.offset + 12 * a.n ≤ 4294967295)
    (base I : Nat) (hb : base < 2147483648) (hI : I < 2147483648) :
    refPointOffset a base I = ((a.pointOffsetAt (a.pointIndex base I) : Nat) : Int) := by
  obtain ⟨r0, r1⟩ := pointIndex_range a hn base I
  rw [pointOffsetAt_ideal a _ r0 r1 hfit]
  unfold refPointOffset Arch.pointIndex
  rw [tsSub_ideal I base hI hb, floorMod_pos _ _ (by omega)]
  rw [Int.mul_comm _ 12, Int.mul_comm (a.n : Int) 12, Int.mul_emod_mul_of_pos _ _ (by omega : (0 : Int) < 12)]
  have h0 := Int.emod_nonneg (Int.tdiv ((I : Int) - base) a.step) (by omega : (a.n : Int) ≠ 0)
  push_cast
  rw [Int.toNat_of_nonneg h0]

theorem refValues_eq (s : Nat) (hs : 0 < s) : ∀ (pts : List Point) (cur : Nat), cur + s * pts.length < 4294967296 →
    refValues s cur pts = (clearOldPoints (s : Int) cur pts).map (·.v) := by
  intro pts
  induction pts with
  | nil => intro cur _; rfl
  | cons p ps ih =>
    intro cur hb
    simp only [List.length_cons] at hb
    have hm : s * (ps.length + 1) = s * ps.length + s := by rw [Nat.mul_add, Nat.mul_one]
    have hnext : tsAdd cur (s : Int) = cur + s := by
      have := tsAdd_ideal cur (s : Int) (by omega) (by omega)
      omega
    simp only [refValues, clearOldPoints, List.map_cons, hnext]
    rw [ih (cur + s) (by omega)]
    congr 1
    by_cases ht : p.t = cur <;> simp [ht]

/-- **the reference reader and whispertool read the same series from the same bytes**, for
    every written archive and every window of the zone -/
theorem ref_reads_same (h : Handle) (p : FetchPlan) (base : Nat)
    (z : RingZone p.a base p.fromI p.untilI)
    (hbase : h.baseInterval p.a = .ok base) (hb0 : base ≠ 0)
    (hsz : p.a.offset + 12 * p.a.n ≤ h.view.length) (hfit : p.a.offset + 12 * p.a.n ≤ 4294967295) :
    refFetchExec h p.a p.fromI p.untilI = h.fetchExec p := by
  have hs := z.hs
  have hn := z.hn
  have hfl : p.fromI < 2147483648 := by have := z.hlt; have := z.hu; omega
  obtain ⟨hc1, hc2, hcnt, hmul⟩ := z.count_range
  obtain ⟨_, hj0⟩ := z.idx_from
  obtain ⟨f0, f1⟩ := pointIndex_range p.a hn base p.fromI
  obtain ⟨u0, u1⟩ := pointIndex_range p.a hn base p.untilI
  -- the offsets both readers compute
  have hoffs : rawOffsets p.a base p.fromI p.untilI =
      (ringIdx p.a.n (slotIdx p.a base p.fromI) (winCount p.a p.fromI p.untilI)).map fun i => p.a.offset + 12 * i := by
    unfold rawOffsets
    exact rawOffsets_ring p.a (slotIdx p.a base p.fromI) (winCount p.a p.fromI p.untilI) hn hj0 hc1 hc2 hfit _ _
      (pointOffsetAt_ideal p.a _ f0 f1 hfit)
      (by rw [pointOffsetAt_ideal p.a _ u0 u1 hfit, ← z.idx_until]; rfl)
  have hend : u32 ((p.a.offset : Int) + (u32 ((p.a.n : Int) * 12) : Int)) = p.a.offset + 12 * p.a.n := by
    have e1 : (u32 ((p.a.n : Int) * 12) : Int) = (p.a.n : Int) * 12 := u32_id _ (by omega) (by omega)
    rw [e1]
    have := u32_id ((p.a.offset : Int) + (p.a.n : Int) * 12) (by omega) (by omega)
    omega
  have eF : (refPointOffset p.a base p.fromI).toNat = p.a.pointOffsetAt (p.a.pointIndex base p.fromI) := by
    rw [refPointOffset_eq p.a hs hn hfit base p.fromI z.hb hfl]; simp
  have eU : (refPointOffset p.a base p.untilI).toNat = p.a.pointOffsetAt (p.a.pointIndex base p.untilI) := by
    rw [refPointOffset_eq p.a hs hn hfit base p.untilI z.hb z.hu]; simp
  have href : refReadSeries h p.a (refPointOffset p.a base p.fromI).toNat (refPointOffset p.a base p.untilI).toNat =
      h.readPoints (rawOffsets p.a base p.fromI p.untilI) := by
    unfold refReadSeries rawOffsets
    dsimp only
    rw [eF, eU, hend]
    split <;> rfl
  have hbnd : ∀ i ∈ ringIdx p.a.n (slotIdx p.a base p.fromI) (winCount p.a p.fromI p.untilI),
      p.a.offset + 12 * i + 12 ≤ h.view.length := by
    intro i hi
    simp [ringIdx] at hi
    obtain ⟨k, _, rfl⟩ := hi
    have := Nat.mod_lt (slotIdx p.a base p.fromI + k) hn
    omega
  have hread : h.readPoints (rawOffsets p.a base p.fromI p.untilI) =
      .ok ((ringIdx p.a.n (slotIdx p.a base p.fromI) (winCount p.a p.fromI p.untilI)).map (slotAt h p.a)) := by
    rw [hoffs, readPoints_slots h p.a _ hbnd]
  have hne : ¬ p.fromI = p.untilI := by have := z.hlt; omega
  unfold refFetchExec fetchExec
  simp only [hbase, hb0, if_false, hne]
  rw [href, hread, fetchRawPoints_ring h p.a base p.fromI p.untilI z hbase hsz hfit]
  simp only
  congr 2
  have hsn : ((p.a.step.toNat : Nat) : Int) = p.a.step := by omega
  have hlen : ((ringIdx p.a.n (slotIdx p.a base p.fromI) (winCount p.a p.fromI p.untilI)).map (slotAt h p.a)).length =
      winCount p.a p.fromI p.untilI := by simp [ringIdx]
  have := refValues_eq p.a.step.toNat (by omega)
    ((ringIdx p.a.n (slotIdx p.a base p.fromI) (winCount p.a p.fromI p.untilI)).map (slotAt h p.a)) p.fromI (by
      rw [hlen]
      have hu := z.hu
      have : ((p.fromI + p.a.step.toNat * winCount p.a p.fromI p.untilI : Nat) : Int) = p.untilI := by
        push_cast; rw [hsn]; omega
      omega)
  rw [this, hsn]

/-- on a never-written archive both readers return the same all-NaN series -/
theorem ref_reads_same_unwritten (h : Handle) (p : FetchPlan) (hs : 0 < p.a.step) (hsl : p.a.step < 2147483648)
    (hle : p.fromI ≤ p.untilI) (hu : p.untilI < 2147483648)
    (hbase : h.baseInterval p.a = .ok 0) :
    refFetchExec h p.a p.fromI p.untilI = h.fetchExec p := by
  unfold refFetchExec fetchExec
  simp only [hbase, if_true]
  congr 3
  have e1 : (u32 ((p.untilI : Int) - (p.fromI : Int)) : Int) = (p.untilI : Int) - p.fromI := u32_id _ (by omega) (by omega)
  have e2 : (u32 p.a.step : Int) = p.a.step := u32_id _ (by omega) (by omega)
  have hq : 0 ≤ ((p.untilI : Int) - (p.fromI : Int)) / p.a.step := Int.ediv_nonneg (by omega) (by omega)
  have : ((u32 ((p.untilI : Int) - (p.fromI : Int)) / u32 p.a.step : Nat) : Int) = ((p.untilI : Int) - p.fromI) / p.a.step := by
    rw [Int.natCast_ediv, e1, e2]
  omega

end Wsp.C06Ref
