/-
  C09  diff reports exactly the slots that differ.

  `diffLoop` is ⟦TimeSeries.DiffPoints⟧; `diffOne`/`diffMany` are the command.  For two
  series of equal bounds, step and length the listed slots are exactly those whose values
  are not `Equal` (two NaNs are equal, +0 = −0), in time order, each with both values; a
  file compared with itself is clean; the verdict is symmetric; a missing file on either
  side is a reported difference; unequal layouts are an error; with a glob one differing
  file makes the run report a difference.
-/
import Wsp.Model.Cmd
namespace Wsp.C09
open Wsp.Cmd

/-- the slots (by index) at which two value lists differ -/
def differing (o : FOps) : Nat → List Val → List Val → List Nat
  | i, v :: vs, v2 :: vs2 => if !o.vEqual v v2 then i :: differing o (i + 1) vs vs2 else differing o (i + 1) vs vs2
  | _, _, _ => []

/-- **lists exactly**: with a common origin, `DiffPoints` returns one entry per differing
    slot, in time order, carrying the slot's time and the two values -/
theorem lists_exactly (o : FOps) (f : Nat) (step : Int) :
    ∀ (i : Nat) (vs vs2 : List Val), vs.length = vs2.length →
      (diffLoop o false f f step i vs vs2).1 =
        (differing o i vs vs2).map (fun j => ⟨tsAdd f (i32 ((j : Int) * step)), vs.getD (j - i) 0⟩) ∧
      (diffLoop o false f f step i vs vs2).2 =
        (differing o i vs vs2).map (fun j => ⟨tsAdd f (i32 ((j : Int) * step)), vs2.getD (j - i) 0⟩) := by
  intro i vs
  induction vs generalizing i with
  | nil => intro vs2 _; cases vs2 <;> simp [diffLoop, differing]
  | cons v vs ih =>
    intro vs2 hl
    cases vs2 with
    | nil => simp at hl
    | cons v2 vs2 =>
      have ih' := ih (i + 1) vs2 (by simpa using hl)
      -- indices produced by the tail are ≥ i + 1
      have hge : ∀ j ∈ differing o (i + 1) vs vs2, i + 1 ≤ j := by
        have : ∀ (k : Nat) (a b : List Val), ∀ j ∈ differing o k a b, k ≤ j := by
          intro k a
          induction a generalizing k with
          | nil => intro b j hj; cases b <;> simp [differing] at hj
          | cons x xs ihx =>
            intro b j hj
            cases b with
            | nil => simp [differing] at hj
            | cons y ys =>
              simp only [differing] at hj
              split at hj
              · simp only [List.mem_cons] at hj
                rcases hj with rfl | hj
                · omega
                · have := ihx (k + 1) ys j hj; omega
              · have := ihx (k + 1) ys j hj; omega
        exact this (i + 1) vs vs2
      have shift1 : (differing o (i + 1) vs vs2).map (fun (j : Nat) => (⟨tsAdd f (i32 ((j : Int) * step)), vs.getD (j - (i + 1)) 0⟩ : Point)) =
          (differing o (i + 1) vs vs2).map (fun (j : Nat) => ⟨tsAdd f (i32 ((j : Int) * step)), (v :: vs).getD (j - i) 0⟩) := by
        apply List.map_congr_left
        intro j hj
        have := hge j hj
        have e : j - i = (j - (i + 1)) + 1 := by omega
        rw [e]; simp
      have shift2 : (differing o (i + 1) vs vs2).map (fun (j : Nat) => (⟨tsAdd f (i32 ((j : Int) * step)), vs2.getD (j - (i + 1)) 0⟩ : Point)) =
          (differing o (i + 1) vs vs2).map (fun (j : Nat) => ⟨tsAdd f (i32 ((j : Int) * step)), (v2 :: vs2).getD (j - i) 0⟩) := by
        apply List.map_congr_left
        intro j hj
        have := hge j hj
        have e : j - i = (j - (i + 1)) + 1 := by omega
        rw [e]; simp
      simp only [diffLoop, differing]
      by_cases he : o.vEqual v v2 = true
      · simp only [he, Bool.not_true, Bool.false_eq_true, if_false, ih'.1, ih'.2, shift1, shift2, false_or,
          Bool.false_and, Bool.not_false, and_true, ne_eq, not_true_eq_false]
        simp
      · have he' : o.vEqual v v2 = false := by simpa using he
        simp only [he', Bool.not_false, if_true, ih'.1, ih'.2, shift1, shift2, or_true, Bool.false_and,
          and_true, List.map_cons, Nat.sub_self]
        simp

/-- **found iff**: nothing is listed exactly when every slot's values are `Equal` -/
theorem found_iff (o : FOps) (f : Nat) (step : Int) (vs vs2 : List Val) (hl : vs.length = vs2.length) :
    (diffLoop o false f f step 0 vs vs2).1 = [] ↔ differing o 0 vs vs2 = [] := by
  rw [(lists_exactly o f step 0 vs vs2 hl).1]
  simp

theorem differing_nil_iff (o : FOps) : ∀ (i : Nat) (vs vs2 : List Val), vs.length = vs2.length →
    (differing o i vs vs2 = [] ↔ ∀ j, j < vs.length → o.vEqual (vs.getD j 0) (vs2.getD j 0) = true) := by
  intro i vs
  induction vs generalizing i with
  | nil => intro vs2 _; cases vs2 <;> simp [differing]
  | cons v vs ih =>
    intro vs2 hl
    cases vs2 with
    | nil => simp at hl
    | cons v2 vs2 =>
      simp only [differing]
      by_cases he : o.vEqual v v2 = true
      · simp only [he, Bool.not_true, Bool.false_eq_true, if_false]
        rw [ih (i + 1) vs2 (by simpa using hl)]
        constructor
        · intro h j hj
          cases j with
          | zero => simpa using he
          | succ j => simpa using h j (by simpa using hj)
        · intro h j hj
          simpa using h (j + 1) (by simpa using hj)
      · have he' : o.vEqual v v2 = false := by simpa using he
        simp only [he', Bool.not_false, if_true]
        constructor
        · intro h; simp at h
        · intro h
          have := h 0 (by simp)
          simp [he'] at this

/-- a series compared with itself is clean (NaN = NaN by `Value.Equal`) -/
theorem self_clean (o : FOps) (hl : FLaws o) (s : Option Series) :
    diffPoints o false s s = ([], []) := by
  unfold diffPoints
  simp only [ne_eq, not_true_eq_false, if_false]
  have key : ∀ (f : Nat) (step : Int) (i : Nat) (vs : List Val), diffLoop o false f f step i vs vs = ([], []) := by
    intro f step i vs
    induction vs generalizing i with
    | nil => rfl
    | cons v vs ih =>
      simp only [diffLoop, ih]
      have : o.vEqual v v = true := by
        unfold FOps.vEqual
        by_cases hn : o.isNaN v = true
        · simp [hn]
        · have hn' : o.isNaN v = false := by simpa using hn
          simp [hn', hl.eq_refl_of_not_nan v hn']
      simp [this]
  exact key _ _ _ _

theorem vEqual_comm (o : FOps) (hl : FLaws o) (a b : Val) : o.vEqual a b = o.vEqual b a := by
  unfold FOps.vEqual
  rw [hl.eq_comm a b]
  cases o.isNaN a <;> cases o.isNaN b <;> simp

/-- the verdict is symmetric -/
theorem symmetric (o : FOps) (hl : FLaws o) (vs vs2 : List Val) (hlen : vs.length = vs2.length) :
    differing o 0 vs vs2 = [] ↔ differing o 0 vs2 vs = [] := by
  rw [differing_nil_iff o 0 vs vs2 hlen, differing_nil_iff o 0 vs2 vs hlen.symm]
  constructor
  · intro h j hj; rw [vEqual_comm o hl]; exact h j (by omega)
  · intro h j hj; rw [vEqual_comm o hl]; exact h j (by omega)

/-- a file missing on either side is a reported difference, not a failure -/
theorem missing_is_difference (o : FOps) (t : Tree) (src dst : String) (w : Window)
    (hm : t.get src = none ∨ t.get dst = none) : (diffOne o t src dst w).1 = .diffFound := by
  unfold diffOne
  rcases hm with hm | hm
  · simp [readFile, hm]
  · have hd : readFile o t dst w.archiveID w.from_ w.until' w.now = .error (.err .notExist) := by
      simp [readFile, hm]
    rw [hd]
    cases readFile o t src w.archiveID w.from_ w.until' w.now with
    | ok r => rfl
    | error e =>
      cases e with
      | err k => cases k <;> rfl
      | panic w => rfl
      | wantLarger n => rfl

/-- unequal layouts are an error -/
theorem layout_mismatch_is_error (o : FOps) (t : Tree) (src dst : String) (w : Window)
    (hs : Header) (ls : List (Option Series)) (hd : Header) (ld : List (Option Series))
    (h1 : readFile o t src w.archiveID w.from_ w.until' w.now = .ok (hs, ls))
    (h2 : readFile o t dst w.archiveID w.from_ w.until' w.now = .ok (hd, ld))
    (hne : layoutsEqual hs.archives hd.archives = false) :
    (diffOne o t src dst w).1 = .err .mismatch := by
  unfold diffOne
  simp [h1, h2, hne]

/-- with a glob every matched pair is compared, and one differing file makes the whole run
    report a difference (unless another error stops it) -/
theorem glob_any (o : FOps) (t : Tree) (w : Window) (pairs : List (String × String))
    (hall : ∀ p ∈ pairs, (diffOne o t p.1 p.2 w).1 = .ok ∨ (diffOne o t p.1 p.2 w).1 = .diffFound) :
    ∀ found, (diffMany o t w pairs found).1 =
      if found ∨ ∃ p ∈ pairs, (diffOne o t p.1 p.2 w).1 = .diffFound then .diffFound else .ok := by
  induction pairs with
  | nil => intro found; cases found <;> simp [diffMany]
  | cons p ps ih =>
    intro found
    obtain ⟨s, d⟩ := p
    have hp := hall (s, d) (by simp)
    have ih' := ih (fun q hq => hall q (by simp [hq]))
    simp only [diffMany]
    rcases hp with hp | hp
    · have e : (diffOne o t s d w).1 = .ok := hp
      have hiff : (found = true ∨ ∃ p, p ∈ (s, d) :: ps ∧ (diffOne o t p.1 p.2 w).1 = .diffFound) ↔
          (found = true ∨ ∃ p, p ∈ ps ∧ (diffOne o t p.1 p.2 w).1 = .diffFound) := by
        constructor
        · rintro (h | ⟨p, hp, hq⟩)
          · exact Or.inl h
          · simp only [List.mem_cons] at hp
            rcases hp with rfl | hp
            · rw [e] at hq; cases hq
            · exact Or.inr ⟨p, hp, hq⟩
        · rintro (h | ⟨p, hp, hq⟩)
          · exact Or.inl h
          · exact Or.inr ⟨p, by simp [hp], hq⟩
      cases hd : diffOne o t s d w with
      | mk oc recs =>
        rw [hd] at e
        simp only at e
        subst e
        simp only [ih' found]
        by_cases hc : found = true ∨ ∃ p, p ∈ ps ∧ (diffOne o t p.1 p.2 w).1 = .diffFound
        · rw [if_pos hc, if_pos (hiff.2 hc)]
        · rw [if_neg hc, if_neg (fun h => hc (hiff.1 h))]
    · have e : (diffOne o t s d w).1 = .diffFound := hp
      have hc : found = true ∨ ∃ p, p ∈ (s, d) :: ps ∧ (diffOne o t p.1 p.2 w).1 = .diffFound :=
        Or.inr ⟨(s, d), by simp, e⟩
      cases hd : diffOne o t s d w with
      | mk oc recs =>
        rw [hd] at e
        simp only at e
        subst e
        simp only [ih' true]
        rw [if_pos hc]
        simp

end Wsp.C09
