/-
  No spurious failure: on a file whose archives satisfy the invariant of files whispertool
  writes, with the written times inside the 32-bit zone, every step of the write path
  succeeds — the consolidation step, the work-list of a level, the whole chain, a single
  update and a batch update return `ok`, never an error.  Together with C03's acceptance
  theorems: an update is refused exactly for the reasons the property names.
-/
import Wsp.Props.Invariant
import Wsp.Props.C02Batch
namespace Wsp.C03S
open Wsp.Handle Wsp.C14 Wsp.Total Wsp.C01 Wsp.Inv

/-- what both states of an archive provide -/
theorem archState_facts {h : Handle} {a : Arch} (st : ArchState h a) :
    0 < a.step ∧ 0 < a.n ∧ a.offset + 12 * a.n ≤ 4294967295 ∧ a.offset + 12 * a.n ≤ h.view.length ∧
    (slotAt h a 0).t < 2147483648 ∧ a.step ∣ ((slotAt h a 0).t : Int) := by
  rcases st with f | ⟨l, d⟩
  · refine ⟨f.hs, f.hn, f.fit, f.view, ?_, ?_⟩
    · rw [f.zero 0 f.hn]; omega
    · rw [f.zero 0 f.hn]; exact Int.dvd_zero _
  · exact ⟨l.hs, l.hn, l.fit, l.view, l.blt, d⟩

theorem baseInterval_ok {h : Handle} {a : Arch} (st : ArchState h a) :
    h.baseInterval a = .ok (slotAt h a 0).t := by
  obtain ⟨_, hn, _, hv, _, _⟩ := archState_facts st
  exact baseInterval_slot h a (by omega)

theorem getPointOffset_ok {h : Handle} {a : Arch} (st : ArchState h a) (I : Nat) :
    ∃ off, h.getPointOffset I a = .ok off := by
  unfold getPointOffset
  rw [baseInterval_ok st]
  simp only
  split <;> exact ⟨_, rfl⟩

theorem putPointAt_ok (h : Handle) (p : Point) (off : Nat) (hb : off + 12 ≤ h.view.length) :
    ∃ h', h.putPointAt p off = .ok h' := by
  unfold putPointAt writeAt
  have hl : (encPoint p).length = 12 := encPoint_length p
  have : ¬ (off + (encPoint p).length > h.view.length) := by rw [hl]; omega
  rw [if_neg this]
  exact ⟨_, rfl⟩

theorem aggregate_ok (o : FOps) (m : Nat) (vs : List Val) (hm : validAgg m = true) (hne : vs ≠ []) :
    ∃ v, aggregate o m vs = .ok v := by
  have hm' : 1 ≤ m ∧ m ≤ 6 := by simpa [validAgg] using hm
  cases vs with
  | nil => exact absurd rfl hne
  | cons x xs =>
    match m, hm' with
    | 1, _ => exact ⟨_, rfl⟩
    | 2, _ => exact ⟨_, rfl⟩
    | 3, _ =>
      unfold aggregate
      cases hl : (x :: xs).getLast? with
      | none => simp at hl
      | some v => exact ⟨v, rfl⟩
    | 4, _ => exact ⟨_, rfl⟩
    | 5, _ => exact ⟨_, rfl⟩
    | 6, _ => exact ⟨_, rfl⟩

/-- **one consolidation step succeeds**: the finer archive is in a state of the invariant, the
    two archives are a valid pair, the coarser interval is on its grid and one step before
    2^31 -/
theorem propagateOne_ok (o : FOps) (h : Handle) (g : Good h) (a aHigh : Arch) (ka : Nat) (ha : h.archs[ka]? = some a)
    (sth : ArchState h aHigh) (sta : ArchState h a) (okh : ArchOK aHigh) (pr : PairOK aHigh a)
    (t : Nat) (gt : GridTime a t) (hz : (t : Int) + a.step < 2147483648) :
    ∃ r, propagateOne o h a aHigh t = .ok r := by
  obtain ⟨hsH, hnH, hfitH, hviewH, hbltH, hdvdH⟩ := archState_facts sth
  obtain ⟨hsA, _, _, _, _, _⟩ := archState_facts sta
  obtain ⟨hlt, hmod, _, hdiv⟩ := pr
  obtain ⟨ht31, hdvdt, ht0⟩ := gt
  have hdvdHA : aHigh.step ∣ a.step := Int.dvd_of_emod_eq_zero hmod
  have hu : tsAdd t a.step = t + a.step.toNat := by
    have := tsAdd_ideal t a.step (by omega) (by omega)
    omega
  have hspan : a.step ≤ aHigh.step * (aHigh.n : Int) := by
    obtain ⟨c, hc⟩ := hdvdHA
    have hcq : a.step / aHigh.step = c := by rw [hc]; exact Int.mul_ediv_cancel_left c (by omega)
    rw [hcq] at hdiv
    rw [hc]
    exact Int.mul_le_mul_of_nonneg_left hdiv (by omega)
  have z : RingZone aHigh (slotAt h aHigh 0).t t (tsAdd t a.step) := by
    rw [hu]
    refine ⟨hsH, hnH, okh.2.2, hbltH, by omega, by omega, ?_, ?_, ?_⟩
    · have : (((t + a.step.toNat : Nat)) : Int) - (t : Int) = a.step := by omega
      rw [this]; exact hspan
    · exact Int.dvd_sub (Int.dvd_trans hdvdHA hdvdt) hdvdH
    · have : (((t + a.step.toNat : Nat)) : Int) - (t : Int) = a.step := by omega
      rw [this]; exact hdvdHA
  have hfetch := fetchRawPoints_ring h aHigh _ t (tsAdd t a.step) z (baseInterval_ok sth) hviewH hfitH
  unfold propagateOne
  rw [hfetch]
  simp only
  generalize filterValid aHigh.step (aHigh.intervalForWrite t) _ = vals
  split
  · exact ⟨_, rfl⟩
  · rename_i h0
    split
    · exact ⟨_, rfl⟩
    · obtain ⟨v, hv⟩ := aggregate_ok o h.hdr.agg vals g.2 (by
        intro e; apply h0; rw [e]; rfl)
      rw [hv]
      simp only
      obtain ⟨off, hoff⟩ := getPointOffset_ok sta t
      rw [hoff]
      simp only
      have pa := g.placed a (mem_of_getElem? ha)
      have hr := getPointOffset_range h a pa t off hoff
      obtain ⟨_, _, _, hviewA, _, _⟩ := archState_facts sta
      obtain ⟨h', hput⟩ := putPointAt_ok h ⟨t, v⟩ off (by omega)
      rw [hput]
      exact ⟨_, rfl⟩

theorem archs_of_hdr {h h' : Handle} (hh : h'.hdr = h.hdr) : h'.archs = h.archs := by
  unfold Handle.archs; rw [hh]

/-- **one level of the work-list succeeds** -/
theorem propagateLoop_ok (o : FOps) (k kH : Nat) (a aHigh : Arch) (aLow : Option Arch) (pr : PairOK aHigh a) :
    ∀ (ts : List Nat) (h : Handle) (acc : List Nat), Good h → AllState h →
      h.archs[k]? = some a → h.archs[kH]? = some aHigh →
      (∀ t ∈ ts, GridTime a t ∧ (t : Int) + a.step < 2147483648) →
      ∃ r, propagateLoop o h a aHigh aLow acc ts = .ok r := by
  intro ts
  induction ts with
  | nil => intro h acc _ _ _ _ _; exact ⟨_, rfl⟩
  | cons t ts ih =>
    intro h acc g al ha hah hts
    obtain ⟨gt, hz⟩ := hts t (by simp)
    have okh : ArchOK aHigh := wfFrom_archOK _ _ g.wf.2.2 aHigh (mem_of_getElem? hah)
    obtain ⟨r, hr⟩ := propagateOne_ok o h g a aHigh k ha (al kH aHigh hah) (al k a ha) okh pr t gt hz
    obtain ⟨hm, stored⟩ := r
    rw [propagateLoop_cons, hr]
    simp only
    obtain ⟨alm, gm, hh⟩ := propagateOne_allstate o h hm g al k a aHigh ha t gt stored hr
    have e := archs_of_hdr hh
    exact ih hm _ gm alm (by rw [e]; exact ha) (by rw [e]; exact hah) (fun x hx => hts x (by simp [hx]))

/-- consecutive archives of a valid list are a valid pair -/
theorem wfFrom_pair : ∀ (as : List Arch) (off : Nat), WFFrom off as → ∀ (k : Nat) (a b : Arch),
    as[k]? = some a → as[k + 1]? = some b → PairOK a b := by
  intro as
  induction as with
  | nil => intro off _ k a b ha; simp at ha
  | cons x rest ih =>
    intro off hw k a b ha hb
    cases rest with
    | nil => cases k <;> simp at hb
    | cons y r =>
      obtain ⟨_, _, hp, hrest⟩ := hw
      cases k with
      | zero =>
        simp only [List.getElem?_cons_zero, Option.some.injEq] at ha
        simp only [Nat.zero_add, List.getElem?_cons_succ, List.getElem?_cons_zero, Option.some.injEq] at hb
        subst ha; subst hb; exact hp
      | succ k =>
        simp only [List.getElem?_cons_succ] at ha hb
        exact ih _ hrest k a b ha hb

/-- **⟦propagate⟧ at a level succeeds** -/
theorem propagate_ok (o : FOps) (h : Handle) (g : Good h) (al : AllState h) (k : Nat) (a : Arch)
    (hk : 1 ≤ k) (ha : h.archs[k]? = some a) (ts : List Nat)
    (hts : ∀ t ∈ ts, GridTime a t ∧ (t : Int) + a.step < 2147483648) :
    ∃ r, propagate o h k ts = .ok r := by
  unfold propagate
  split
  · exact ⟨_, rfl⟩
  · have hkl : k < h.archs.length := (List.getElem?_eq_some_iff.1 ha).1
    have hkH : k - 1 < h.archs.length := by omega
    have hah : h.archs[k - 1]? = some (h.archs[k - 1]) := List.getElem?_eq_getElem hkH
    rw [ha, hah]
    simp only
    rw [baseInterval_ok (al k a ha)]
    simp only
    have pr : PairOK (h.archs[k - 1]) a := by
      apply wfFrom_pair h.archs _ g.wf.2.2 (k - 1) _ a hah
      have : k - 1 + 1 = k := by omega
      rw [this]; exact ha
    exact propagateLoop_ok o k (k - 1) a _ _ pr ts h [] g al ha hah hts

theorem ifw_le (a : Arch) (t : Nat) (hs : 0 < a.step) (ht : t < 2147483648) : a.intervalForWrite t ≤ t := by
  have hid := intervalForWrite_ideal a t hs (by omega)
  have hal := alignDown_le t a.step hs
  unfold alignDown at hid hal
  omega

/-- **the chain of levels succeeds**: every level's times are on its grid, not before `L`, and
    at most `T`, with `T` one coarsest step before 2^31 -/
theorem propagateChainLoop_ok (o : FOps) (L T : Nat) (fuel : Nat) :
    ∀ (h : Handle) (low : Nat) (ts : List Nat), Good h → AllState h → Coarse h L → 1 ≤ low →
      (∀ a ∈ h.archs, (T : Int) + a.step < 2147483648) →
      (∀ a, h.archs[low]? = some a → ∀ t ∈ ts, LevelTime a L t) → (∀ t ∈ ts, t ≤ T) →
      ∃ h', propagateChainLoop o fuel h low ts = .ok h' := by
  induction fuel with
  | zero => intro h low ts _ _ _ _ _ _ _; exact ⟨_, rfl⟩
  | succ fuel ih =>
    intro h low ts g al c hlow hT hts hle
    simp only [propagateChainLoop]
    split
    · rename_i hcond
      have hal : h.archs[low]? = some (h.archs[low]) := List.getElem?_eq_getElem hcond.1
      have hmem : h.archs[low] ∈ h.archs := List.getElem_mem hcond.1
      have hts' : ∀ t ∈ ts, GridTime (h.archs[low]) t ∧ (t : Int) + (h.archs[low]).step < 2147483648 := by
        intro t ht
        have := hts _ hal t ht
        have := hT _ hmem
        have := hle t ht
        exact ⟨(hts _ hal t ht).1, by omega⟩
      obtain ⟨r, hr⟩ := propagate_ok o h g al low _ hlow hal ts hts'
      obtain ⟨hm, ts'⟩ := r
      rw [hr]
      simp only
      obtain ⟨alm, gm, hh, hout⟩ := propagate_allstate o h hm g al L c low ts ts' hts hr
      have e := archs_of_hdr hh
      apply ih hm (low + 1) ts' gm alm (c.of_hdr hh) (by omega) (by rw [e]; exact hT)
      · intro a ha t ht
        rw [e] at ha
        exact hout a ha t ht
      · intro x hx
        rw [C02S.propagate_eq_spec] at hr
        obtain ⟨l, t, hl, ht, ex⟩ := C02S.next_level_only_stored o h hm low ts ts' hr x hx
        have cl := c l (mem_of_getElem? hl)
        have htle := hle t ht
        have hlT := hT l (mem_of_getElem? hl)
        have := ifw_le l t cl.2.2 (by omega)
        omega
    · exact ⟨_, rfl⟩

/-- **⟦propagateChain⟧ succeeds** after points of archive `k` were written at grid times
    between `L` and `T` -/
theorem propagateChain_ok (o : FOps) (h : Handle) (g : Good h) (al : AllState h) (L T : Nat) (c : Coarse h L)
    (hT : ∀ a ∈ h.archs, (T : Int) + a.step < 2147483648)
    (k : Nat) (aligned : List Point) (hal : ∀ p ∈ aligned, p.t < 2147483648 ∧ L ≤ p.t ∧ p.t ≤ T) :
    ∃ h', propagateChain o h k aligned = .ok h' := by
  unfold propagateChain
  dsimp only
  split
  · exact ⟨_, rfl⟩
  · rename_i aLow hlow
    have cl := c aLow (mem_of_getElem? hlow)
    apply propagateChainLoop_ok o L T _ h (k + 1) _ g al c (by omega) hT
    · intro a ha t ht
      rw [hlow] at ha; injection ha with ha; subst ha
      exact timesToPropagate_level aLow L cl.2.2 cl.1 cl.2.1 _ [] (by
        intro t' ht'
        simp only [List.mem_map] at ht'
        obtain ⟨p, hp', rfl⟩ := ht'
        exact ⟨(hal p hp').1, (hal p hp').2.1⟩) (by intro x hx; simp at hx) t ht
    · intro x hx
      rw [C02S.timesToPropagate_dedup, C02S.mem_dedupAdj] at hx
      simp only [List.mem_map] at hx
      obtain ⟨t, ⟨p, hp', rfl⟩, rfl⟩ := hx
      have := hal p hp'
      have := ifw_le aLow p.t cl.2.2 this.1
      omega

/-- **a single update that is accepted succeeds**: on a file satisfying the invariant, for a
    valid archive id and a time inside the acceptance range and the 32-bit zone, the update
    returns `ok` — never an error -/
theorem updatePoint_ok (o : FOps) (h : Handle) (g : Good h) (al : AllState h) (L T : Nat) (c : Coarse h L)
    (hT : ∀ a ∈ h.archs, (T : Int) + a.step < 2147483648)
    (k : Int) (hk : IdOK h k) (t : Nat) (v : Val) (now : Nat)
    (hacc : ¬ (t ≤ tsAdd now (- h.hdr.maxRet) ∨ now < t))
    (ht : t < 2147483648 ∧ L ≤ t ∧ t ≤ T) :
    ∃ h', h.updatePoint o k t v now = .ok h' := by
  unfold updatePoint
  rw [if_neg hacc]
  simp only
  -- the archive written
  have hid : ∃ i : Nat, (if k = -1 then ((h.findBestArchive t now : Nat) : Int) else k) = (i : Int) ∧ i < h.archs.length := by
    by_cases hk1 : k = -1
    · rw [if_pos hk1]
      refine ⟨h.findBestArchive t now, rfl, ?_⟩
      have := findBestFrom_lt (tsSub now t) h.archs 0 g.ne
      unfold findBestArchive; omega
    · rw [if_neg hk1]
      rcases hk with hk | hk
      · exact absurd hk hk1
      · exact ⟨k.toNat, by omega, by omega⟩
  obtain ⟨i, hi, hil⟩ := hid
  rw [hi]
  have hneg : ¬ ((i : Int) < 0) := by omega
  rw [if_neg hneg]
  simp only [Int.toNat_natCast]
  have ha : h.archs[i]? = some (h.archs[i]) := List.getElem?_eq_getElem hil
  rw [ha]
  simp only
  generalize h.archs[i] = a at ha
  have st := al i a ha
  have ca := c a (mem_of_getElem? ha)
  obtain ⟨off, hoff⟩ := getPointOffset_ok st (a.intervalForWrite t)
  rw [hoff]
  simp only
  have pa := g.placed a (mem_of_getElem? ha)
  have hr := getPointOffset_range h a pa _ off hoff
  obtain ⟨_, _, _, hview, _, _⟩ := archState_facts st
  obtain ⟨hm, hput⟩ := putPointAt_ok h ⟨a.intervalForWrite t, v⟩ off (by omega)
  rw [hput]
  simp only
  have lt := ifw_level a L t ca.2.2 ca.1 ca.2.1 ht.1 ht.2.1
  obtain ⟨alm, gm, hh⟩ := write_allstate h hm g al i a ha _ v lt.1 off hoff hput
  have e := archs_of_hdr hh
  have hle := ifw_le a t ca.2.2 ht.1
  exact propagateChain_ok o hm gm alm L T (c.of_hdr hh) (by rw [e]; exact hT) i _
    (by intro p hp; simp at hp; subst hp; exact ⟨lt.1.1, lt.2, by simp only; omega⟩)

/-! ### batch updates -/

theorem alignPointsLoop_ne_nil (a : Arch) : ∀ (ps acc : List Point) (prev : Nat) (first : Bool),
    acc ≠ [] → alignPointsLoop a acc prev first ps ≠ [] := by
  intro ps
  induction ps with
  | nil => intro acc _ _ hne; simp only [alignPointsLoop]; simpa using hne
  | cons p ps ih =>
    intro acc prev first hne
    simp only [alignPointsLoop]
    split
    · cases acc with
      | nil => exact absurd rfl hne
      | cons l acc' => exact ih _ _ _ (by simp)
    · exact ih _ _ _ (by simp)

theorem alignPoints_ne_nil (a : Arch) (ps : List Point) (hne : ps ≠ []) : alignPoints a ps ≠ [] := by
  cases ps with
  | nil => exact absurd rfl hne
  | cons p ps =>
    unfold alignPoints
    simp only [alignPointsLoop]
    have : ¬ ((!true) = true ∧ p.t = 0) := by simp
    rw [if_neg this]
    exact alignPointsLoop_ne_nil a ps _ _ _ (by simp)

/-- the batch write loop never fails on an archive that lies inside the file -/
theorem putPoints_ok (a : Arch) (base : Nat) (hn : 0 < a.n) (hfit : a.offset + 12 * a.n ≤ 4294967295)
    (len : Nat) (hv : a.offset + 12 * a.n ≤ len) :
    ∀ (pts : List Point) (h : Handle), h.view.length = len → ∃ hm, putPoints h a base pts = .ok hm := by
  intro pts
  induction pts with
  | nil => intro h _; exact ⟨h, rfl⟩
  | cons p rest ih =>
    intro h hl
    simp only [putPoints]
    obtain ⟨r0, r1⟩ := pointIndex_range a hn base p.t
    have e := pointOffsetAt_ideal a _ r0 r1 hfit
    obtain ⟨h1, hput⟩ := putPointAt_ok h p (a.pointOffsetAt (a.pointIndex base p.t)) (by rw [e, hl]; omega)
    rw [hput]
    simp only
    exact ih h1 (by rw [putPointAt_len h h1 _ _ hput]; exact hl)

/-- **a batch for one archive succeeds**: a non-empty batch of times in the zone, on a file
    satisfying the invariant, is written and propagated without error -/
theorem archiveUpdateMany_ok (o : FOps) (h : Handle) (g : Good h) (al : AllState h) (L T : Nat) (c : Coarse h L)
    (hT : ∀ a ∈ h.archs, (T : Int) + a.step < 2147483648)
    (k : Nat) (a : Arch) (ha : h.archs[k]? = some a) (ps : List Point) (hne : ps ≠ [])
    (hps : ∀ p ∈ ps, p.t < 2147483648 ∧ L ≤ p.t ∧ p.t ≤ T) :
    ∃ h', archiveUpdateMany o h ps k = .ok h' := by
  have ca := c a (mem_of_getElem? ha)
  have st := al k a ha
  have pa := g.placed a (mem_of_getElem? ha)
  obtain ⟨hs0, hn, hfit, hview, _, _⟩ := archState_facts st
  have hps' : ∀ p ∈ ps, p.t < 2147483648 ∧ L ≤ p.t := fun p hp => ⟨(hps p hp).1, (hps p hp).2.1⟩
  have hal : ∀ d ∈ alignPoints a ps, LevelTime a L d.t ∧ d.t ≤ T := by
    intro d hd
    obtain ⟨q, hq, e⟩ := alignPoints_times a (fun t => t < 2147483648 ∧ L ≤ t ∧ t ≤ T) ps hps d hd
    rw [e]
    have := ifw_le a q ca.2.2 hq.1
    exact ⟨ifw_level a L q ca.2.2 ca.1 ca.2.1 hq.1 hq.2.1, by omega⟩
  have hal3 : ∀ d ∈ alignPoints a ps, d.t < 2147483648 ∧ a.step ∣ (d.t : Int) ∧ d.t ≠ 0 := by
    intro d hd
    exact (hal d hd).1.1
  -- the direct writes
  have key : ∃ base hm, putPoints h a base (alignPoints a ps) = .ok hm ∧
      archiveUpdateMany o h ps k = propagateChain o hm k (alignPoints a ps) ∧
      Reach a h ((alignPoints a ps).map fun p => some (p.t, p.v)) hm := by
    unfold archiveUpdateMany
    rw [ha]
    simp only [baseInterval_ok st]
    rcases st with fr | ⟨lv, albase⟩
    · have hb0 : (slotAt h a 0).t = 0 := fr.zero 0 fr.hn
      simp only [hb0, if_true]
      cases hA : alignPoints a ps with
      | nil => exact absurd hA (alignPoints_ne_nil a ps hne)
      | cons d rest =>
        simp only [List.head?_cons, Option.map_some]
        obtain ⟨hm, hput⟩ := putPoints_ok a d.t hn hfit _ hview (d :: rest) h rfl
        rw [hput]
        have hd := hal3 d (by rw [hA]; simp)
        have r := putPoints_reach_fresh a d rest h hm fr ⟨hd.1, hd.2.2⟩ (by
          intro q hq
          have hq' := hal3 q (by rw [hA]; simp [hq])
          exact ⟨⟨hq'.1, Int.dvd_sub hq'.2.1 hd.2.1⟩, hq'.2.2⟩) hput
        exact ⟨d.t, hm, hput, rfl, r⟩
    · have hb0 : ¬ (slotAt h a 0).t = 0 := lv.b0
      simp only [hb0, if_false]
      obtain ⟨hm, hput⟩ := putPoints_ok a (slotAt h a 0).t hn hfit _ hview (alignPoints a ps) h rfl
      rw [hput]
      have r := putPoints_reach_live a (slotAt h a 0).t lv.blt (alignPoints a ps) h hm lv ⟨0, by omega⟩ (by
        intro q hq
        have hq' := hal3 q hq
        exact ⟨⟨hq'.1, Int.dvd_sub hq'.2.1 albase⟩, hq'.2.2⟩) hput
      exact ⟨_, hm, hput, rfl, r⟩
  obtain ⟨base, hm, hput, heq, r⟩ := key
  rw [heq]
  have f1 := putPoints_frame a pa base _ h hm hput
  have gm := g.of_frame f1
  have alm : AllState hm := by
    intro k' b hb
    have hb' : h.archs[k']? = some b := by unfold Handle.archs at hb ⊢; rw [f1.1] at hb; exact hb
    by_cases hk : k' = k
    · subst hk
      rw [ha] at hb'; injection hb' with hb'; subst hb'
      exact reach_state a _ h hm (al k' a ha) (by
        intro w hw
        simp only [writesOf, List.filterMap_map, List.mem_filterMap, Function.comp, id] at hw
        obtain ⟨d, hd, hdw⟩ := hw
        injection hdw with hdw; subst hdw
        exact (hal d hd).1.1) r
    · exact (al k' b hb').of_sameOn (putPoints_others h g k a ha base k' b hb' hk _
        (fun d hd => by have := (hal d hd).1.1.1; omega) h hm rfl hput)
  have e := archs_of_hdr f1.1
  exact propagateChain_ok o hm gm alm L T (c.of_hdr f1.1) (by rw [e]; exact hT) k _
    (fun d hd => ⟨(hal d hd).1.1.1, (hal d hd).1.2, (hal d hd).2⟩)

theorem extractPoints_sub (P : Point → Prop) (ps : List Point) (now : Nat) (mr : Int) (hps : ∀ p ∈ ps, P p) :
    (∀ p ∈ (extractPoints ps now mr).1, P p) ∧ (∀ p ∈ (extractPoints ps now mr).2, P p) := by
  constructor
  · intro p hp'
    apply hps p
    unfold extractPoints at hp'
    dsimp only at hp'
    split at hp'
    · exact hp'
    · simp only [List.mem_reverse] at hp'
      have := (List.takeWhile_sublist _).subset hp'
      simpa using this
  · intro p hp'
    apply hps p
    unfold extractPoints at hp'
    dsimp only at hp'
    split at hp'
    · simp at hp'
    · simp only [List.mem_reverse] at hp'
      have := List.mem_of_mem_drop hp'
      simpa using this

theorem updateManyLoop_ok (o : FOps) (k : Int) (now : Nat) (L T : Nat) (as : List Arch) :
    ∀ (h : Handle) (ps : List Point) (i : Nat), Good h → AllState h → Coarse h L →
      (∀ a ∈ h.archs, (T : Int) + a.step < 2147483648) → h.archs.drop i = as →
      (∀ p ∈ ps, p.t < 2147483648 ∧ L ≤ p.t ∧ p.t ≤ T) →
      ∃ h', updateManyLoop o k now h ps i as = .ok h' := by
  induction as with
  | nil => intro h ps i _ _ _ _ _ _; exact ⟨h, rfl⟩
  | cons a as ih =>
    intro h ps i g al c hT hd hps
    have hi : i < h.archs.length := by
      have : (h.archs.drop i).length = (a :: as).length := by rw [hd]
      simp at this; omega
    have hd' : h.archs.drop (i + 1) = as := by
      have : h.archs.drop (i + 1) = (h.archs.drop i).drop 1 := by rw [List.drop_drop]
      rw [this, hd]; rfl
    have hai : h.archs[i]? = some a := by
      have : (h.archs.drop i)[0]? = some a := by rw [hd]; rfl
      rw [List.getElem?_drop] at this
      simpa using this
    simp only [updateManyLoop]
    split
    · exact ih h ps (i + 1) g al c hT hd' hps
    · obtain ⟨hsub1, hsub⟩ := extractPoints_sub (fun p => p.t < 2147483648 ∧ L ≤ p.t ∧ p.t ≤ T) ps now a.maxRetention hps
      split
      · exact ih h _ (i + 1) g al c hT hd' hsub
      · rename_i hlen
        have hne : (extractPoints ps now a.maxRetention).1 ≠ [] := by
          intro e; rw [e] at hlen; exact hlen rfl
        obtain ⟨hm, h1⟩ := archiveUpdateMany_ok o h g al L T c hT i a hai _ hne hsub1
        rw [h1]
        simp only
        obtain ⟨alm, gm, hh⟩ := archiveUpdateMany_allstate o h hm g al L c i a hai _
          (fun p hp => ⟨(hsub1 p hp).1, (hsub1 p hp).2.1⟩) h1
        have e := archs_of_hdr hh
        exact ih hm _ (i + 1) gm alm (c.of_hdr hh) (by rw [e]; exact hT) (by rw [e]; exact hd') hsub

/-- **a batch update succeeds**: on a file satisfying the invariant, a batch whose times lie in
    the zone is written and propagated without error, whatever the batch, the archive named and
    the clock -/
theorem updateMany_ok (o : FOps) (h : Handle) (g : Good h) (al : AllState h) (L T : Nat) (c : Coarse h L)
    (hT : ∀ a ∈ h.archs, (T : Int) + a.step < 2147483648)
    (ps : List Point) (k : Int) (now : Nat) (hps : ∀ p ∈ ps, p.t < 2147483648 ∧ L ≤ p.t ∧ p.t ≤ T) :
    ∃ h', h.updateMany o ps k now = .ok h' :=
  updateManyLoop_ok o k now L T h.archs h _ 0 g al c hT (by simp)
    (fun p hp' => hps p ((sortByTime_perm ps).mem_iff.1 hp'))

/-! ### any history from `Create` -/

/-- an operation the file's own rules accept: a single update names an archive that exists (or
    none) and is not refused by the retention rule; its times lie in `[L, T]` -/
def Accepted (hdr : Header) (L T : Nat) : FOp → Prop
  | .single u => (u.k = -1 ∨ (0 ≤ u.k ∧ u.k < hdr.archives.length)) ∧
      ¬ (u.t ≤ tsAdd u.now (- hdr.maxRet) ∨ u.now < u.t) ∧ u.t < 2147483648 ∧ L ≤ u.t ∧ u.t ≤ T
  | .batch ps _ _ => ∀ p ∈ ps, p.t < 2147483648 ∧ L ≤ p.t ∧ p.t ≤ T

theorem runFOps_ok (o : FOps) (L T : Nat) : ∀ (ops : List FOp) (h : Handle),
    Good h → AllState h → Coarse h L → (∀ a ∈ h.archs, (T : Int) + a.step < 2147483648) →
    (∀ op ∈ ops, Accepted h.hdr L T op) → ∃ h', runFOps o h ops = .ok h' := by
  intro ops
  induction ops with
  | nil => intro h _ _ _ _ _; exact ⟨h, rfl⟩
  | cons op ops ih =>
    intro h g al c hT hok
    have hop := hok op (by simp)
    cases op with
    | single u =>
      simp only [runFOps]
      obtain ⟨hid, hacc, ht⟩ := hop
      obtain ⟨hm, hu⟩ := updatePoint_ok o h g al L T c hT u.k hid u.t u.v u.now hacc ht
      rw [hu]
      simp only
      obtain ⟨alm, gm, hh⟩ := updatePoint_allstate o h hm g al L c u.k u.t u.v u.now ⟨ht.1, ht.2.1⟩ hu
      have e := archs_of_hdr hh
      exact ih hm gm alm (c.of_hdr hh) (by rw [e]; exact hT)
        (fun op' h' => by rw [hh]; exact hok op' (List.mem_cons_of_mem _ h'))
    | batch ps k now =>
      simp only [runFOps]
      obtain ⟨hm, hu⟩ := updateMany_ok o h g al L T c hT ps k now hop
      rw [hu]
      simp only
      obtain ⟨alm, gm, hh⟩ := updateMany_allstate o h hm g al L c ps k now
        (fun p hp => ⟨(hop p hp).1, (hop p hp).2.1⟩) hu
      have e := archs_of_hdr hh
      exact ih hm gm alm (c.of_hdr hh) (by rw [e]; exact hT)
        (fun op' h' => by rw [hh]; exact hok op' (List.mem_cons_of_mem _ h'))

/-- **no spurious failure, any history from `Create`**: on a file whispertool created, every
    history of updates the retention rule accepts, single or batch, to any archive, with times
    in the zone, runs to the end without a single error -/
theorem accepted_history_succeeds (o : FOps) (agg : Nat) (xff : UInt32) (lay : List (Int × Nat)) (hl : LayInRange lay)
    (disk : Bytes) (h : Handle) (hc : createHandle o agg xff lay = .ok (disk, h))
    (L T : Nat) (c : Coarse h L) (hT : ∀ a ∈ h.archs, (T : Int) + a.step < 2147483648)
    (ops : List FOp) (hok : ∀ op ∈ ops, Accepted h.hdr L T op) :
    ∃ h', runFOps o h ops = .ok h' :=
  runFOps_ok o L T ops h (create_good o agg xff lay hl disk h hc) (created_allstate o agg xff lay hl disk h hc) c hT hok

/-! ### the hypotheses are satisfiable -/

/-- for the layout 1s:8, 4s:6 with `L = 4` and `T = 1 700 000 000`: the side conditions hold and
    a history of one single update and one two-point batch is accepted -/
example : Coarse exHandle 4 ∧ (∀ a ∈ exHandle.archs, ((1700000000 : Nat) : Int) + a.step < 2147483648) ∧
    ∀ op ∈ [FOp.single ⟨-1, 1699999998, 0x3F800000, 1700000000⟩,
            FOp.batch [⟨1699999990, 0x40000000⟩, ⟨1699999999, 0x40400000⟩] 1 1700000000],
      Accepted exHandle.hdr 4 1700000000 op := by
  refine ⟨?_, ?_, ?_⟩
  · intro a ha
    simp only [exHandle, Handle.archs, List.mem_cons, List.not_mem_nil, or_false] at ha
    rcases ha with rfl | rfl <;> exact ⟨by decide, by decide, by decide⟩
  · intro a ha
    simp only [exHandle, Handle.archs, List.mem_cons, List.not_mem_nil, or_false] at ha
    rcases ha with rfl | rfl <;> decide
  · intro op hop
    simp only [List.mem_cons, List.not_mem_nil, or_false] at hop
    rcases hop with rfl | rfl
    · exact ⟨Or.inl rfl, by decide, by decide, by decide, by decide⟩
    · intro p hp
      simp only [List.mem_cons, List.not_mem_nil, or_false] at hp
      rcases hp with rfl | rfl <;> exact ⟨by decide, by decide, by decide⟩

end Wsp.C03S
