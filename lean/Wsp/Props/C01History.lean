/-
  C01 over whole histories: after ANY sequence of writes to an archive, what a fetch may
  return for an interval `J` is decided by the last write to an interval congruent to `J`
  modulo the ring size N·S: its value if that write was to `J` itself, NaN if a later lap
  evicted it — and what was there before the history if no write touched the slot.

  `applyWrites` is the direct-write half of ⟦UpdatePointForArchive⟧ / ⟦archiveUpdateMany⟧
  (getPointOffset + putPointAt) iterated; the base interval moves whenever slot 0 is
  overwritten, and the theorem carries that through (`base_change_keeps_slots`).
-/
import Wsp.Props.C01
namespace Wsp.C01
open Wsp.Handle Wsp.C14

/-- congruent modulo the ring size: the two intervals share a slot -/
def Cong (a : Arch) (I J : Nat) : Prop := (a.step * (a.n : Int)) ∣ ((I : Int) - (J : Int))

instance (a : Arch) (I J : Nat) : Decidable (Cong a I J) := by unfold Cong; exact inferInstance

/-- an interval of the archive's grid (relative to `base`), below 2^31 -/
structure OnGrid (a : Arch) (base I : Nat) : Prop where
  lt : I < 2147483648
  al : a.step ∣ ((I : Int) - (base : Int))

/-- the archive has been written: slot 0 carries a base interval, in zone -/
structure Live (h : Handle) (a : Arch) : Prop where
  hs : 0 < a.step
  hn : 0 < a.n
  fit : a.offset + 12 * a.n ≤ 4294967295
  view : a.offset + 12 * a.n ≤ h.view.length
  b0 : (slotAt h a 0).t ≠ 0
  blt : (slotAt h a 0).t < 2147483648

theorem slotIdx_base (a : Arch) (base : Nat) (hn : 0 < a.n) : slotIdx a base base = 0 := by
  unfold slotIdx Arch.pointIndex
  have : tsSub base base = 0 := by unfold tsSub i32; omega
  rw [this]
  simp [floorMod]

theorem OnGrid.of_cong {a : Arch} {base base' J : Nat} (g : OnGrid a base J)
    (hc : (a.step * (a.n : Int)) ∣ ((base' : Int) - (base : Int))) : OnGrid a base' J := by
  refine ⟨g.lt, ?_⟩
  obtain ⟨q, hq⟩ := g.al
  obtain ⟨m, hm⟩ := hc
  exact ⟨q - (a.n : Int) * m, by rw [Int.mul_sub, ← Int.mul_assoc]; omega⟩

/-- **one write**: the slot of `I` now answers for `I` alone; every interval congruent to
    `I` reads NaN; every other interval reads what it read before; the archive stays live
    and its grid is the same grid -/
theorem write_step (h h' : Handle) (a : Arch) (I : Nat) (v : Val) (off : Nat)
    (lv : Live h a) (gI : OnGrid a (slotAt h a 0).t I) (hI0 : I ≠ 0)
    (hoff : h.getPointOffset I a = .ok off) (hput : h.putPointAt ⟨I, v⟩ off = .ok h') :
    Live h' a ∧ (a.step * (a.n : Int)) ∣ (((slotAt h' a 0).t : Int) - ((slotAt h a 0).t : Int)) ∧
    ∀ J, OnGrid a (slotAt h a 0).t J →
      ringValue h' a (slotAt h' a 0).t J =
        if Cong a I J then (if I = J then v else nanBits) else ringValue h a (slotAt h a 0).t J := by
  obtain ⟨hs, hn, hfit, hview, hb0, hblt⟩ := lv
  generalize hbase : (slotAt h a 0).t = base at *
  have hbI : h.baseInterval a = .ok base := by rw [← hbase]; exact baseInterval_slot h a (by omega)
  have wl := write_lands h h' a I v base off (by have := gI.lt; omega) hn hfit hbI hoff hput
  simp only [hb0, if_false] at wl
  obtain ⟨_, hi, hnew, hold⟩ := wl
  generalize hidx : slotIdx a base I = i at *
  have hother : ∀ j, j ≠ i → slotAt h' a j = slotAt h a j := by
    intro j hj
    apply hold a j
    omega
  -- the view keeps its length
  have hlen : h'.view.length = h.view.length := by
    unfold putPointAt at hput
    cases hw : writeAt h.view off (encPoint ⟨I, v⟩) with
    | error e => rw [hw] at hput; simp at hput
    | ok b =>
      rw [hw] at hput; simp at hput
      subst hput
      have := writeAt_ok _ _ _ _ hw
      rw [this.2]
      simp; omega
  have gB : OnGrid a base base := ⟨hblt, ⟨0, by omega⟩⟩
  -- the new base
  have hbase' : (slotAt h' a 0).t = if i = 0 then I else base := by
    by_cases h0 : i = 0
    · rw [h0] at hnew; simp [h0, hnew]
    · simp only [h0, if_false]; rw [hother 0 (by omega), hbase]
  have hcong : (a.step * (a.n : Int)) ∣ (((slotAt h' a 0).t : Int) - (base : Int)) := by
    rw [hbase']
    by_cases h0 : i = 0
    · simp only [h0, if_true]
      have := (slot_congruent a base I base hs hn hblt gI.lt hblt gI.al gB.al).1
        (by rw [hidx, slotIdx_base a base hn, h0])
      exact this
    · simp only [h0, if_false]; exact ⟨0, by omega⟩
  have hb'lt : (slotAt h' a 0).t < 2147483648 := by
    rw [hbase']; split
    · exact gI.lt
    · exact hblt
  have hb'0 : (slotAt h' a 0).t ≠ 0 := by
    rw [hbase']; split
    · exact hI0
    · exact hb0
  refine ⟨⟨hs, hn, hfit, by omega, hb'0, hb'lt⟩, hcong, ?_⟩
  intro J gJ
  have hsame : slotIdx a (slotAt h' a 0).t J = slotIdx a base J :=
    base_change_keeps_slots a base _ J hs hn hblt hb'lt gJ.lt hcong gJ.al
  have hiff := slot_congruent a base I J hs hn hblt gI.lt gJ.lt gI.al gJ.al
  unfold ringValue
  rw [hsame]
  by_cases hc : Cong a I J
  · have hj : slotIdx a base J = i := by rw [← hidx]; exact (hiff.2 hc).symm
    simp only [hc, if_true, hj, hnew]
  · have hj : slotIdx a base J ≠ i := by
      intro e; apply hc; exact hiff.1 (by rw [hidx, e])
    simp only [hc, if_false, hother _ hj]

/-- the direct-write half of an update, iterated -/
def applyWrites (a : Arch) : Handle → List (Nat × Val) → R Handle
  | h, [] => .ok h
  | h, w :: ws =>
    match h.getPointOffset w.1 a with
    | .error e => .error e
    | .ok off =>
      match h.putPointAt ⟨w.1, w.2⟩ off with
      | .error e => .error e
      | .ok h' => applyWrites a h' ws

/-- the last write of the history to an interval sharing `J`'s slot -/
def lastCong (a : Arch) (J : Nat) : List (Nat × Val) → Option (Nat × Val)
  | [] => none
  | w :: ws =>
    match lastCong a J ws with
    | some x => some x
    | none => if Cong a w.1 J then some w else none

/-- **whole histories**: after any sequence of writes to grid intervals of a live archive,
    each grid interval `J` reads the value of the last write that shared its slot if that
    write was to `J` itself, NaN if it was to another lap, and what it read before the
    history if there was none -/
theorem history (a : Arch) (ws : List (Nat × Val)) :
    ∀ (h h' : Handle), Live h a → (∀ w ∈ ws, OnGrid a (slotAt h a 0).t w.1 ∧ w.1 ≠ 0) →
      applyWrites a h ws = .ok h' →
      Live h' a ∧ (a.step * (a.n : Int)) ∣ (((slotAt h' a 0).t : Int) - ((slotAt h a 0).t : Int)) ∧
      ∀ J, OnGrid a (slotAt h a 0).t J →
        ringValue h' a (slotAt h' a 0).t J =
          match lastCong a J ws with
          | some w => if w.1 = J then w.2 else nanBits
          | none => ringValue h a (slotAt h a 0).t J := by
  induction ws with
  | nil =>
    intro h h' lv _ hp
    simp only [applyWrites] at hp
    injection hp with hp; subst hp
    exact ⟨lv, ⟨0, by omega⟩, fun J _ => rfl⟩
  | cons w ws ih =>
    intro h h' lv hws hp
    simp only [applyWrites] at hp
    cases hoff : h.getPointOffset w.1 a with
    | error e => rw [hoff] at hp; simp at hp
    | ok off =>
      rw [hoff] at hp; simp only at hp
      cases hput : h.putPointAt ⟨w.1, w.2⟩ off with
      | error e => rw [hput] at hp; simp at hp
      | ok h1 =>
        rw [hput] at hp; simp only at hp
        have hw := hws w (by simp)
        obtain ⟨lv1, hc1, st⟩ := write_step h h1 a w.1 w.2 off lv hw.1 hw.2 hoff hput
        have hws1 : ∀ x ∈ ws, OnGrid a (slotAt h1 a 0).t x.1 ∧ x.1 ≠ 0 := by
          intro x hx
          have := hws x (by simp [hx])
          exact ⟨this.1.of_cong hc1, this.2⟩
        obtain ⟨lv', hc', rest⟩ := ih h1 h' lv1 hws1 hp
        refine ⟨lv', ?_, ?_⟩
        · obtain ⟨m1, e1⟩ := hc1
          obtain ⟨m2, e2⟩ := hc'
          exact ⟨m1 + m2, by rw [Int.mul_add]; omega⟩
        · intro J gJ
          rw [rest J (gJ.of_cong hc1)]
          simp only [lastCong]
          cases lastCong a J ws with
          | some x => rfl
          | none =>
            simp only
            rw [st J gJ]
            by_cases hc : Cong a w.1 J
            · simp [hc]
            · simp [hc]

theorem lastCong_none (a : Arch) (J : Nat) (post : List (Nat × Val)) (hpost : ∀ w ∈ post, ¬ Cong a w.1 J) :
    lastCong a J post = none := by
  induction post with
  | nil => rfl
  | cons x xs ih =>
    simp only [lastCong]
    rw [ih (fun w hw => hpost w (by simp [hw]))]
    simp [hpost x (by simp)]

/-- **read your writes**: a value written to `J` and not evicted since is what `J` reads -/
theorem read_your_write (a : Arch) (pre post : List (Nat × Val)) (J : Nat) (v : Val) (h h' : Handle)
    (lv : Live h a) (hws : ∀ w ∈ pre ++ (J, v) :: post, OnGrid a (slotAt h a 0).t w.1 ∧ w.1 ≠ 0)
    (hpost : ∀ w ∈ post, ¬ Cong a w.1 J)
    (hp : applyWrites a h (pre ++ (J, v) :: post) = .ok h') :
    ringValue h' a (slotAt h' a 0).t J = v := by
  have gJ := (hws (J, v) (by simp)).1
  obtain ⟨_, _, hr⟩ := history a _ h h' lv hws hp
  rw [hr J gJ]
  have key : ∀ (pre : List (Nat × Val)), lastCong a J (pre ++ (J, v) :: post) = some (J, v) := by
    have hpost' : lastCong a J post = none := lastCong_none a J post hpost
    intro pre
    induction pre with
    | nil =>
      simp only [List.nil_append, lastCong, hpost']
      have : Cong a J J := ⟨0, by omega⟩
      simp [this]
    | cons x xs ih => simp only [List.cons_append, lastCong, ih]
  rw [key pre]
  simp

/-- **eviction**: once a later lap is written to the slot, the older interval reads NaN -/
theorem evicted_reads_nan (a : Arch) (pre post : List (Nat × Val)) (I J : Nat) (v : Val) (h h' : Handle)
    (lv : Live h a) (hws : ∀ w ∈ pre ++ (I, v) :: post, OnGrid a (slotAt h a 0).t w.1 ∧ w.1 ≠ 0)
    (gJ : OnGrid a (slotAt h a 0).t J) (hIJ : Cong a I J) (hne : I ≠ J)
    (hpost : ∀ w ∈ post, ¬ Cong a w.1 J)
    (hp : applyWrites a h (pre ++ (I, v) :: post) = .ok h') :
    ringValue h' a (slotAt h' a 0).t J = nanBits := by
  obtain ⟨_, _, hr⟩ := history a _ h h' lv hws hp
  rw [hr J gJ]
  have key : ∀ (pre : List (Nat × Val)), lastCong a J (pre ++ (I, v) :: post) = some (I, v) := by
    have hpost' : lastCong a J post = none := lastCong_none a J post hpost
    intro pre
    induction pre with
    | nil => simp only [List.nil_append, lastCong, hpost']; simp [hIJ]
    | cons x xs ih => simp only [List.cons_append, lastCong, ih]
  rw [key pre]
  simp [hne]

/-- the value the history assigns to interval `J` -/
def histValue (a : Arch) (ws : List (Nat × Val)) (before : Nat → Val) (J : Nat) : Val :=
  match lastCong a J ws with
  | some w => if w.1 = J then w.2 else nanBits
  | none => before J

/-- **a fetch after any history**: inside the zone, every value of the returned window is
    the one the history assigns to its interval — the last value written there unless a
    later lap took the slot (then NaN), and what was readable before if nothing touched it -/
theorem fetch_after_history (h h' : Handle) (p : FetchPlan) (ws : List (Nat × Val))
    (lv : Live h p.a) (hws : ∀ w ∈ ws, OnGrid p.a (slotAt h p.a 0).t w.1 ∧ w.1 ≠ 0)
    (hp : applyWrites p.a h ws = .ok h')
    (z : RingZone p.a (slotAt h' p.a 0).t p.fromI p.untilI) :
    h'.fetchExec p = .ok ⟨p.fromI, p.untilI, p.a.step,
      (List.range (winCount p.a p.fromI p.untilI)).map fun i =>
        histValue p.a ws (ringValue h p.a (slotAt h p.a 0).t) (p.fromI + p.a.step.toNat * i)⟩ := by
  obtain ⟨lv', hc, hr⟩ := history p.a ws h h' lv hws hp
  have hbI : h'.baseInterval p.a = .ok (slotAt h' p.a 0).t :=
    baseInterval_slot h' p.a (by have := lv'.view; have := lv'.hn; omega)
  rw [fetch_refines_ring h' p _ z hbI lv'.b0 lv'.view lv'.fit]
  congr 2
  apply List.map_congr_left
  intro i hi
  simp only [List.mem_range] at hi
  unfold histValue
  apply hr
  -- the i-th interval of the window is on the grid
  obtain ⟨hc1, hc2, hcnt, hmul⟩ := z.count_range
  have hs := z.hs
  have hsn : ((p.a.step.toNat : Nat) : Int) = p.a.step := by omega
  have hle : p.a.step * (i : Int) < p.a.step * (winCount p.a p.fromI p.untilI : Int) :=
    Int.mul_lt_mul_of_pos_left (by omega) hs
  have hcast : (((p.fromI + p.a.step.toNat * i : Nat)) : Int) = p.fromI + p.a.step * (i : Int) := by
    push_cast; rw [hsn]
  refine ⟨?_, ?_⟩
  · have := z.hu; omega
  · -- aligned to the new base, hence to the old one
    obtain ⟨q, hq⟩ := z.hal1
    obtain ⟨m, hm⟩ := hc
    rw [hcast]
    exact ⟨q + (i : Int) + (p.a.n : Int) * m, by
      rw [Int.mul_add, Int.mul_add, ← Int.mul_assoc]; omega⟩

end Wsp.C01
