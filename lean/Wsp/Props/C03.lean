/-
  C03  Write acceptance and routing to the finest archive covering a point's age.

  * single update: rejected exactly when the point is in the future or not younger than
    the file's maximum retention (`single_accept_iff`, closed form inside the zone); an
    accepted point goes to the first archive whose retention reaches its age
    (`single_route`, with C04.best_archive) and lands in the slot of its aligned interval
    (C01.write_lands);
  * batch update: after the stable time sort, archive `i` receives exactly the points
    `p` with `now − ret_i < p.t` that no finer archive took (`batch_partition`); nothing
    in range is dropped or diverted, whatever else is in the batch;
  * the sort is a stable sort (`sortByTime_perm/sorted/stable`), and a stable sort is
    unique (`stable_sort_unique`), so the result does not depend on the input order except
    for the relative order of points with equal timestamps (`order_independent`).
-/
import Wsp.Proofs.Batch
import Wsp.Props.C04
namespace Wsp.C03
open Wsp.Handle

/-- the acceptance test of ⟦UpdatePointForArchive⟧ -/
def Accepts (h : Handle) (t now : Nat) : Prop := ¬ (t ≤ tsAdd now (- h.hdr.maxRet) ∨ now < t)

theorem single_reject (o : FOps) (h : Handle) (k : Int) (t : Nat) (v : Val) (now : Nat)
    (hr : ¬ Accepts h t now) : h.updatePoint o k t v now = .error (.err .notCovered) := by
  unfold Accepts at hr
  have hr' : t ≤ tsAdd now (- h.hdr.maxRet) ∨ now < t := Classical.not_not.1 hr
  unfold updatePoint
  simp [hr']

/-- inside the zone the test is: not in the future and younger than the maximum retention -/
theorem single_accept_iff (h : Handle) (t now : Nat) (hM0 : 0 ≤ h.hdr.maxRet)
    (hclock : h.hdr.maxRet ≤ now) (hnow : now < 4294967296) :
    Accepts h t now ↔ (t ≤ now ∧ (now : Int) - t < h.hdr.maxRet) := by
  unfold Accepts
  have := tsAdd_ideal now (- h.hdr.maxRet) (by omega) (by omega)
  omega

/-- an accepted single update with archive "best" goes to `findBestArchive`, aligned to
    that archive's step, through the slot offset of its interval, then propagates from there -/
theorem single_route (o : FOps) (h h' : Handle) (t : Nat) (v : Val) (now : Nat)
    (hok : h.updatePoint o (-1) t v now = .ok h') :
    Accepts h t now ∧
    ∃ a off hm, h.archs[h.findBestArchive t now]? = some a ∧
      h.getPointOffset (a.intervalForWrite t) a = .ok off ∧
      h.putPointAt ⟨a.intervalForWrite t, v⟩ off = .ok hm ∧
      propagateChain o hm (h.findBestArchive t now) [⟨a.intervalForWrite t, v⟩] = .ok h' := by
  unfold updatePoint at hok
  by_cases hc : t ≤ tsAdd now (- h.hdr.maxRet) ∨ now < t
  · simp [hc] at hok
  simp only [hc, if_false, if_true] at hok
  have hneg : ¬ ((h.findBestArchive t now : Int) < 0) := by omega
  simp only [hneg, if_false, Int.toNat_natCast] at hok
  refine ⟨hc, ?_⟩
  cases ha : h.archs[h.findBestArchive t now]? with
  | none => simp [ha] at hok
  | some a =>
    simp only [ha] at hok
    cases hg : h.getPointOffset (a.intervalForWrite t) a with
    | error e => simp [hg] at hok
    | ok off =>
      simp only [hg] at hok
      cases hput : h.putPointAt ⟨a.intervalForWrite t, v⟩ off with
      | error e => simp [hput] at hok
      | ok hm =>
        simp only [hput] at hok
        exact ⟨a, off, hm, rfl, hg, hput, hok⟩

/-! ### batches -/

/-- which points a batch update hands to which archive: the loop of
    ⟦UpdatePointsForArchive⟧ without the writes -/
def routeLoop (k : Int) (now : Nat) : List Point → Nat → List Arch → List (Nat × List Point)
  | _, _, [] => []
  | ps, i, a :: as =>
    if k ≠ -1 ∧ k ≠ (i : Int) then routeLoop k now ps (i + 1) as
    else
      let cur := ps.filter (fun p => decide (tsAdd now (- a.maxRetention) < p.t))
      let rest := ps.filter (fun p => decide (p.t ≤ tsAdd now (- a.maxRetention)))
      if cur.length = 0 then routeLoop k now rest (i + 1) as
      else (i, cur) :: routeLoop k now rest (i + 1) as

/-- performing the routed writes in order -/
def applyRoutes (o : FOps) : Handle → List (Nat × List Point) → R Handle
  | h, [] => .ok h
  | h, (i, ps) :: rest =>
    match archiveUpdateMany o h ps i with
    | .error e => .error e
    | .ok h' => applyRoutes o h' rest

theorem filter_sorted (l : List Point) (q : Point → Bool) (hs : SortedByT l) : SortedByT (l.filter q) := by
  induction l with
  | nil => trivial
  | cons p l ih =>
    rw [List.filter_cons]
    split
    · have ihs := ih hs.tail
      have hle := hs.head_le
      cases hf : l.filter q with
      | nil => trivial
      | cons x xs =>
        rw [hf] at ihs
        have hx : x ∈ l := (List.mem_filter.1 (by rw [hf]; simp : x ∈ l.filter q)).1
        exact ⟨hle x hx, ihs⟩
    · exact ih hs.tail

theorem updateManyLoop_routes (o : FOps) (k : Int) (now : Nat) (as : List Arch) :
    ∀ (h : Handle) (ps : List Point) (i : Nat), SortedByT ps →
      updateManyLoop o k now h ps i as = applyRoutes o h (routeLoop k now ps i as) := by
  induction as with
  | nil => intro h ps i _; rfl
  | cons a as ih =>
    intro h ps i hs
    simp only [updateManyLoop, routeLoop]
    by_cases hk : k ≠ -1 ∧ k ≠ (i : Int)
    · rw [if_pos hk, if_pos hk]
      exact ih h ps (i + 1) hs
    · rw [if_neg hk, if_neg hk]
      rw [extractPoints_sorted ps now a.maxRetention hs]
      simp only
      by_cases hl : (ps.filter (fun p => decide (tsAdd now (- a.maxRetention) < p.t))).length = 0
      · simp only [hl, if_true]
        exact ih h _ (i + 1) (filter_sorted _ _ hs)
      · simp only [hl, if_false, applyRoutes]
        cases archiveUpdateMany o h _ i with
        | error e => rfl
        | ok h' => exact ih h' _ (i + 1) (filter_sorted _ _ hs)

/-- **batch partition**: a batch update performs, archive by archive in order, one
    ⟦archiveUpdateMany⟧ with exactly the points routed to that archive — the points of the
    time-sorted batch younger than that archive's retention that no finer archive took. -/
theorem batch_partition (o : FOps) (h : Handle) (ps : List Point) (k : Int) (now : Nat) :
    h.updateMany o ps k now = applyRoutes o h (routeLoop k now (sortByTime ps) 0 h.archs) :=
  updateManyLoop_routes o k now h.archs h _ 0 (sortByTime_sorted ps)

/-- what "best" routing hands to the archives: every point of the batch, in time order, is
    offered to the archives finest first; archive `a` takes those strictly younger than
    its retention, the rest goes on; what is left after the last archive is dropped. -/
theorem route_takes_exactly (now : Nat) (a : Arch) (as : List Arch) (ps : List Point) (i : Nat) :
    routeLoop (-1) now ps i (a :: as) =
      (if (ps.filter (fun p => decide (tsAdd now (- a.maxRetention) < p.t))).length = 0 then []
       else [(i, ps.filter (fun p => decide (tsAdd now (- a.maxRetention) < p.t)))]) ++
      routeLoop (-1) now (ps.filter (fun p => decide (p.t ≤ tsAdd now (- a.maxRetention)))) (i + 1) as := by
  simp only [routeLoop]
  have : ¬ ((-1 : Int) ≠ -1 ∧ (-1 : Int) ≠ (i : Int)) := by simp
  rw [if_neg this]
  split <;> simp

/-- when one archive is named, exactly the points younger than that archive's retention
    are written, to that archive only -/
theorem route_named (now : Nat) (k : Nat) (as : List Arch) (ps : List Point) (a : Arch)
    (ha : as[k]? = some a) :
    routeLoop (k : Int) now ps 0 as =
      if (ps.filter (fun p => decide (tsAdd now (- a.maxRetention) < p.t))).length = 0 then []
      else [(k, ps.filter (fun p => decide (tsAdd now (- a.maxRetention) < p.t)))] := by
  suffices hgen : ∀ (as : List Arch) (i : Nat) (ps : List Point), i ≤ k → as[k - i]? = some a →
      routeLoop (k : Int) now ps i as =
        if (ps.filter (fun p => decide (tsAdd now (- a.maxRetention) < p.t))).length = 0 then []
        else [(k, ps.filter (fun p => decide (tsAdd now (- a.maxRetention) < p.t)))] by
    exact hgen as 0 ps (by omega) (by simpa using ha)
  -- archives before k are skipped, k takes its points, archives after k are skipped
  have hskip : ∀ (bs : List Arch) (j : Nat) (qs : List Point), k < j → routeLoop (k : Int) now qs j bs = [] := by
    intro bs
    induction bs with
    | nil => intro j qs _; rfl
    | cons b bs ih =>
      intro j qs hj
      simp only [routeLoop]
      have : (k : Int) ≠ -1 ∧ (k : Int) ≠ (j : Int) := ⟨by omega, by omega⟩
      rw [if_pos this]
      exact ih (j + 1) qs (by omega)
  intro as
  induction as with
  | nil => intro i ps _ h; simp at h
  | cons b bs ih =>
    intro i ps hi hget
    simp only [routeLoop]
    by_cases hik : i = k
    · subst hik
      simp at hget
      subst hget
      have : ¬ ((i : Int) ≠ -1 ∧ (i : Int) ≠ (i : Int)) := by simp
      rw [if_neg this]
      rw [hskip bs (i + 1) _ (by omega)]
    · have : (k : Int) ≠ -1 ∧ (k : Int) ≠ (i : Int) := ⟨by omega, by omega⟩
      rw [if_pos this]
      have hlt : i < k := by omega
      have : (b :: bs)[k - i]? = bs[k - (i + 1)]? := by
        have : k - i = (k - (i + 1)) + 1 := by omega
        rw [this]; simp
      rw [this] at hget
      exact ih (i + 1) ps (by omega) hget

/-! ### order independence -/

/-- a stable sort is unique: two time-sorted lists with the same points at every time, in
    the same relative order, are equal -/
theorem stable_sort_unique (l1 l2 : List Point) (h1 : SortedByT l1) (h2 : SortedByT l2)
    (hf : ∀ t, l1.filter (fun q => q.t = t) = l2.filter (fun q => q.t = t)) : l1 = l2 := by
  induction l1 generalizing l2 with
  | nil =>
    cases l2 with
    | nil => rfl
    | cons q qs => have := hf q.t; simp at this
  | cons p ps ih =>
    cases l2 with
    | nil => have := hf p.t; simp at this
    | cons q qs =>
      -- the heads have the same (minimal) time, hence are the same point
      have hpt : p.t = q.t := by
        have hp : p ∈ (q :: qs).filter (fun x => x.t = p.t) := by rw [← hf p.t]; simp
        have hq : q ∈ (p :: ps).filter (fun x => x.t = q.t) := by rw [hf q.t]; simp
        have hp' := (List.mem_filter.1 hp).1
        have hq' := (List.mem_filter.1 hq).1
        have a1 : q.t ≤ p.t := by
          simp only [List.mem_cons] at hp'
          rcases hp' with rfl | hp'
          · omega
          · exact h2.head_le p hp'
        have a2 : p.t ≤ q.t := by
          simp only [List.mem_cons] at hq'
          rcases hq' with rfl | hq'
          · omega
          · exact h1.head_le q hq'
        omega
      have hhead := hf p.t
      have hq1 : decide (q.t = p.t) = true := by simp [hpt]
      simp only [List.filter_cons, decide_true, if_true, hq1] at hhead
      injection hhead with hpq htl
      subst hpq
      congr 1
      apply ih qs h1.tail h2.tail
      intro t
      have := hf t
      simp only [List.filter_cons] at this
      split at this
      · injection this
      · exact this

/-- **order independence**: two batches with the same points and, for every timestamp, the
    same relative order of the points carrying it are handled identically -/
theorem order_independent (o : FOps) (h : Handle) (ps ps' : List Point) (k : Int) (now : Nat)
    (hsame : ∀ t, ps.filter (fun q => q.t = t) = ps'.filter (fun q => q.t = t)) :
    h.updateMany o ps k now = h.updateMany o ps' k now := by
  have : sortByTime ps = sortByTime ps' :=
    stable_sort_unique _ _ (sortByTime_sorted ps) (sortByTime_sorted ps')
      (fun t => by rw [sortByTime_stable, sortByTime_stable, hsame t])
  unfold updateMany
  rw [this]

/-! ### points of one batch that fall into the same slot -/

/-- the slot `i` after writing the aligned points in order: the last of them whose
    interval maps to `i`, else what was there -/
def lastFor (a : Arch) (base : Nat) (i : Nat) (old : Point) : List Point → Point
  | [] => old
  | p :: ps => lastFor a base i (if slotIdx a base p.t = i then p else old) ps

/-- **same slot: the one supplied last (in the time-sorted batch) wins**, and slots no
    point maps to are untouched -/
theorem same_slot_last_wins (a : Arch) (base : Nat) (hn : 0 < a.n) (hfit : a.offset + 12 * a.n ≤ 4294967295)
    (ps : List Point) (hts : ∀ p ∈ ps, p.t < 4294967296) :
    ∀ (h h' : Handle), putPoints h a base ps = .ok h' →
      ∀ i, i < a.n → slotAt h' a i = lastFor a base i (slotAt h a i) ps := by
  induction ps with
  | nil => intro h h' hp i _; simp only [putPoints] at hp; injection hp with hp; subst hp; rfl
  | cons p ps ih =>
    intro h h' hp i hi
    simp only [putPoints] at hp
    obtain ⟨r0, r1⟩ := pointIndex_range a hn base p.t
    have hoff : a.pointOffsetAt (a.pointIndex base p.t) = a.offset + 12 * slotIdx a base p.t :=
      pointOffsetAt_ideal a _ r0 r1 hfit
    rw [hoff] at hp
    cases h1 : h.putPointAt p (a.offset + 12 * slotIdx a base p.t) with
    | error e => simp [h1] at hp
    | ok hm =>
      simp only [h1] at hp
      obtain ⟨s1, s2, _⟩ := putPointAt_slots h hm p (hts p (by simp)) a _ h1
      rw [ih (fun q hq => hts q (by simp [hq])) hm h' hp i hi]
      simp only [lastFor]
      congr 1
      by_cases hsi : slotIdx a base p.t = i
      · simp only [hsi, if_true]; rw [← hsi]; exact s1
      · simp only [hsi, if_false]
        exact s2 a i (by omega)

/-! non-vacuity -/
example : sortByTime [⟨5, 1⟩, ⟨3, 2⟩, ⟨5, 3⟩, ⟨1, 4⟩] = [⟨1, 4⟩, ⟨3, 2⟩, ⟨5, 1⟩, ⟨5, 3⟩] := by decide

end Wsp.C03
