/-
  Locality over histories of single updates with any archive ids (named archives and "best"
  mixed): a slot that differs from what it was is stamped with the interval of its level that
  contains the time of one of the updates of the history.
-/
import Wsp.Props.C02LocalAny
import Wsp.Props.C02Good
namespace Wsp.C02S
open Wsp.Handle Wsp.C14 Wsp.Total Wsp.C01 Wsp.C08 Wsp.Inv

/-- the stamp a single update at time `t` written to archive `k` may leave in archive `m` -/
def TouchesAt (as : List Arch) (k t m T : Nat) : Prop :=
  ∃ a, as[k]? = some a ∧ k ≤ m ∧
    (m = k → T = a.intervalForWrite t) ∧
    (k < m → ∃ l, as[k + 1]? = some l ∧
      T = chainTime as (k + 1) (l.intervalForWrite (a.intervalForWrite t)) as.length m)

/-- the archive index an id routes to, as a function of the archive list -/
def routedIn (as : List Arch) (k : Int) (t now : Nat) : Nat :=
  if k = -1 then findBestFrom (tsSub now t) 0 as else k.toNat

theorem routed_eq (h : Handle) (k : Int) (t now : Nat) : routed h k t now = routedIn h.archs k t now := rfl

theorem touchesAt_contains (as : List Arch) (wf : ChainWF as) (hpos : ∀ a ∈ as, 0 < a.step)
    (k t m T : Nat) (ht : t < 4294967296) (hm : m < as.length) (hT : TouchesAt as k t m T) :
    ∃ am, as[m]? = some am ∧ am.step ∣ (T : Int) ∧ T ≤ t ∧ (t : Int) < T + am.step := by
  obtain ⟨a, ha, hkm, h1, h2⟩ := hT
  have hs : 0 < a.step := hpos a (Wsp.mem_of_getElem? ha)
  have hid := intervalForWrite_ideal a t hs ht
  have hal := alignDown_le t a.step hs
  have hdv : a.step ∣ (a.intervalForWrite t : Int) := by rw [hid]; exact alignDown_dvd t a.step
  have hc := chainTime_contains as wf t (as.length + 1) k (a.intervalForWrite t) m a ha hs hdv
    (by omega) (by omega) (intervalForWrite_lt a t) hkm hm (by omega)
  by_cases hmk : m = k
  · subst hmk
    rw [h1 rfl]
    simpa [chainTime] using hc
  · have hlt : k < m := by omega
    obtain ⟨l, hl, hTe⟩ := h2 hlt
    have hnle : ¬ m ≤ k := by omega
    simp only [chainTime, hnle, if_false, hl] at hc
    rw [hTe]
    exact hc

/-- a history of single updates, each with its own archive id: `(k, t, v, now)` -/
def runSinglesAny (o : FOps) : Handle → List (Int × Nat × Val × Nat) → R Handle
  | h, [] => .ok h
  | h, (k, t, v, now) :: rest =>
    match h.updatePoint o k t v now with
    | .error e => .error e
    | .ok h1 => runSinglesAny o h1 rest

theorem history_local_any (o : FOps) : ∀ (ops : List (Int × Nat × Val × Nat)) (h h' : Handle), Good h →
    runSinglesAny o h ops = .ok h' →
    h'.archs = h.archs ∧
    ∀ (m : Nat) (b : Arch) (j : Nat), h.archs[m]? = some b → j < b.n →
      slotAt h' b j ≠ slotAt h b j →
      ∃ op ∈ ops, TouchesAt h.archs (routedIn h.archs op.1 op.2.1 op.2.2.2) op.2.1 m (slotAt h' b j).t := by
  intro ops
  induction ops with
  | nil =>
    intro h h' _ hr
    simp only [runSinglesAny] at hr
    injection hr with hr; subst hr
    exact ⟨rfl, fun m b j _ _ hne => absurd rfl hne⟩
  | cons op rest ih =>
    intro h h' g hr
    obtain ⟨k, t, v, now⟩ := op
    simp only [runSinglesAny] at hr
    cases h1e : h.updatePoint o k t v now with
    | error e => simp [h1e] at hr
    | ok h1 =>
      simp only [h1e] at hr
      have fr := updatePoint_frame o h h1 g.placed k t v now h1e
      have g1 : Good h1 := g.of_frame fr
      have earch : h1.archs = h.archs := by unfold Handle.archs; rw [fr.1]
      obtain ⟨ea, hloc⟩ := ih h1 h' g1 hr
      refine ⟨ea.trans earch, ?_⟩
      intro m b j hmb hj hne
      have hmb1 : h1.archs[m]? = some b := by rw [earch]; exact hmb
      by_cases hc : slotAt h' b j = slotAt h1 b j
      · have hne1 : slotAt h1 b j ≠ slotAt h b j := by rw [← hc]; exact hne
        obtain ⟨a, ha, hl⟩ := updatePoint_local_any o h h1 g k t v now h1e
        obtain ⟨e1, e2, e3⟩ := hl m b j hmb hj hne1
        rw [routed_eq] at ha e1 e2 e3
        exact ⟨(k, t, v, now), List.mem_cons_self, by rw [hc]; exact ⟨a, ha, e1, e2, e3⟩⟩
      · obtain ⟨op, hop, ht⟩ := hloc m b j hmb1 hj hc
        exact ⟨op, List.mem_cons_of_mem _ hop, by rw [← earch]; exact ht⟩

/-- **over any history of accepted single updates — to "best" or to named archives — of a
    file whispertool opened or created, a slot of any archive changes only through an update
    whose time lies inside the interval, on that archive's grid, the slot is afterwards
    stamped with** -/
theorem history_any_changes_only_inside (o : FOps) (ops : List (Int × Nat × Val × Nat)) (h h' : Handle) (g : Good h)
    (htimes : ∀ op ∈ ops, op.2.1 < 4294967296)
    (hr : runSinglesAny o h ops = .ok h') (m : Nat) (b : Arch) (j : Nat)
    (hmb : h.archs[m]? = some b) (hj : j < b.n) (hne : slotAt h' b j ≠ slotAt h b j) :
    ∃ op ∈ ops, (slotAt h' b j).t ≤ op.2.1 ∧ (op.2.1 : Int) < (slotAt h' b j).t + b.step ∧
      b.step ∣ ((slotAt h' b j).t : Int) := by
  obtain ⟨op, hop, ht⟩ := (history_local_any o ops h h' g hr).2 m b j hmb hj hne
  have hm : m < h.archs.length := (List.getElem?_eq_some_iff.1 hmb).1
  obtain ⟨am, ham, hd, hle, hlt⟩ := touchesAt_contains h.archs (good_chainWF g).1 (good_chainWF g).2
    _ op.2.1 m _ (htimes op hop) hm ht
  have : am = b := by rw [hmb] at ham; injection ham with ham; exact ham.symm
  subst this
  exact ⟨op, hop, hle, hlt, hd⟩

/-- non-vacuity of `TouchesAt`: 60 s / 300 s archives, a write at 425 s to archive 0 touches
    the interval 300 of archive 1 -/
example : TouchesAt [⟨0, 60, 10⟩, ⟨0, 300, 10⟩] 0 425 1 300 :=
  ⟨⟨0, 60, 10⟩, rfl, by decide, fun h => absurd h (by decide),
    fun _ => ⟨⟨0, 300, 10⟩, rfl, by decide⟩⟩

end Wsp.C02S
