/-
  C12 / C09: `diff` (and the source side of `copy`) with the source behind the server.  The
  client gets header and series as bytes; an absent series comes back as the empty one, which
  ⟦TimeSeriesList.Diff⟧ and the range test treat exactly alike — so the verdict, the listed
  points and every error are those of the local comparison.
-/
import Wsp.Props.C12Sum
namespace Wsp.C12
open Wsp.Handle Wsp.C14 Wsp.Total Wsp.Cmd

/-- ⟦DiffCommand.diffOneFile⟧ as a function of the two reads -/
def diffOf (o : FOps) (rs rd : R (Header × List (Option Series))) : Outcome × List Rec :=
  match rs, rd with
  | .error (.err .notExist), _ => (.diffFound, [])
  | _, .error (.err .notExist) => (.diffFound, [])
  | .error e, _ => (.ofFault e, [])
  | _, .error e => (.ofFault e, [])
  | .ok (hs, ls), .ok (hd, ld) =>
    if !layoutsEqual hs.archives hd.archives then (.err .mismatch, [])
    else if !rangesEqual ls ld then (.err .unalike, [])
    else
      let (sp, dp) := diffLists o false ls ld
      if allEmpty sp && allEmpty dp then (.ok, [])
      else (.diffFound, diffRecs o hs.archives.length sp dp)

theorem diffOne_eq (o : FOps) (t : Tree) (src dst : String) (w : Window) :
    diffOne o t src dst w =
      diffOf o (readFile o t src w.archiveID w.from_ w.until' w.now) (readFile o t dst w.archiveID w.from_ w.until' w.now) := rfl

/-- what the client has after the round trip through the server: the series, absent ones as
    empty ones; an error stays the error it was (a missing file: the empty body) -/
def viaOut : R (Header × List Series) → R (Header × List (Option Series))
  | .error e => .error e
  | .ok (h', ss) => .ok (h', ss.map some)

def viaServer (o : FOps) : R (Header × List (Option Series)) → R (Header × List (Option Series))
  | .error e => .error e
  | .ok (h, l) => viaOut (decodeView o (encodeView h l))

theorem viaServer_ok (o : FOps) (h : Header) (l : List (Option Series)) (wf : HeaderWF o h)
    (hlen : l.length = h.archives.length) (hwf : ∀ s ∈ l, ∀ x, s = some x → SeriesWF x) :
    viaServer o (.ok (h, l)) = .ok (h, (l.map emptyIfAbsent).map some) := by
  show viaOut (decodeView o (encodeView h l)) = _
  rw [view_transparent o h wf l hlen hwf]
  rfl

/-- the absent series and the empty one are the same to every test `diff` makes -/
theorem sAcc_empty (s : Option Series) :
    sFrom (some (emptyIfAbsent s)) = sFrom s ∧ sUntil (some (emptyIfAbsent s)) = sUntil s ∧
    sStep (some (emptyIfAbsent s)) = sStep s ∧ sValues (some (emptyIfAbsent s)) = sValues s ∧
    seriesPoints (some (emptyIfAbsent s)) = seriesPoints s := by
  cases s with
  | none => exact ⟨rfl, rfl, rfl, rfl, rfl⟩
  | some x => exact ⟨rfl, rfl, rfl, rfl, rfl⟩

theorem diffPoints_empty (o : FOps) (excl : Bool) (s d : Option Series) :
    diffPoints o excl (some (emptyIfAbsent s)) d = diffPoints o excl s d := by
  obtain ⟨h1, _, h3, h4, h5⟩ := sAcc_empty s
  unfold diffPoints
  rw [h4, h1, h3, h5]

theorem rangesEqual_empty (l ld : List (Option Series)) :
    rangesEqual ((l.map emptyIfAbsent).map some) ld = rangesEqual l ld := by
  unfold rangesEqual
  simp only [List.length_map]
  congr 1
  induction l generalizing ld with
  | nil => rfl
  | cons s l ih =>
    cases ld with
    | nil => rfl
    | cons d ld =>
      obtain ⟨h1, h2, h3, _, _⟩ := sAcc_empty s
      simp only [List.map_cons, List.zip_cons_cons, List.all_cons, h1, h2, h3, ih ld]

theorem zip_map_empty {α} (f : Option Series × Option Series → α)
    (hf : ∀ s d, f (some (emptyIfAbsent s), d) = f (s, d)) :
    ∀ (l ld : List (Option Series)), (((l.map emptyIfAbsent).map some).zip ld).map f = (l.zip ld).map f := by
  intro l
  induction l with
  | nil => intro ld; rfl
  | cons s l ih =>
    intro ld
    cases ld with
    | nil => rfl
    | cons d ld =>
      simp only [List.map_cons, List.zip_cons_cons]
      rw [hf s d, ih ld]

theorem diffLists_empty (o : FOps) (excl : Bool) (l ld : List (Option Series)) :
    diffLists o excl ((l.map emptyIfAbsent).map some) ld = diffLists o excl l ld := by
  unfold diffLists
  simp only [List.length_map]
  split
  · congr 1
    rw [List.map_map, List.map_map]
    apply List.map_congr_left
    intro s _
    exact (sAcc_empty s).2.2.2.2
  · rw [zip_map_empty (fun x => (diffPoints o excl x.1 x.2).1) (fun s d => by simp only [diffPoints_empty]) l ld,
      zip_map_empty (fun x => (diffPoints o excl x.1 x.2).2) (fun s d => by simp only [diffPoints_empty]) l ld]

/-- **diff with the source behind the server = diff of the directory**: same verdict, same
    records, same errors -/
theorem diff_remote_source_eq_local (o : FOps) (rs rd : R (Header × List (Option Series)))
    (hgood : ∀ h l, rs = .ok (h, l) → HeaderWF o h ∧ l.length = h.archives.length ∧ ∀ s ∈ l, ∀ x, s = some x → SeriesWF x) :
    diffOf o (viaServer o rs) rd = diffOf o rs rd := by
  cases rs with
  | error e => rfl
  | ok r =>
    obtain ⟨h, l⟩ := r
    obtain ⟨wf, hlen, hwf⟩ := hgood h l rfl
    rw [viaServer_ok o h l wf hlen hwf]
    cases rd with
    | error e => cases e with
      | panic s => rfl
      | wantLarger n => rfl
      | err k => cases k <;> rfl
    | ok r2 =>
      obtain ⟨hd, ld⟩ := r2
      simp only [diffOf]
      rw [rangesEqual_empty, diffLists_empty]

end Wsp.C12
