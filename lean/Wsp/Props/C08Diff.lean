/-
  C08, the last step: `diff` right after a successful `copy` (NaN values included, all
  archives, same window and clock) reports nothing.  The destination handle published by
  the copy's final Sync is reopened by `diff` (`open_reopenable`), its archives read exactly
  the ring (`fetchAll_reads`), the ring agrees with the source (`copyCore_agrees`), and
  ⟦TimeSeriesList.Diff⟧ of two agreeing lists is empty on both sides.
-/
import Wsp.Props.C08Cmd
import Wsp.Props.Reopen
namespace Wsp.C08
open Wsp.Handle Wsp.C14 Wsp.Total Wsp.C01 Wsp.Cmd Wsp.Inv Wsp.Reopen

/-- ⟦DiffPoints⟧ returns two lists of the same length -/
theorem diffLoop_lengths (o : FOps) (excl : Bool) (f1 f2 : Nat) (step : Int) :
    ∀ (vs ds : List Val) (i : Nat),
      (diffLoop o excl f1 f2 step i vs ds).1.length = (diffLoop o excl f1 f2 step i vs ds).2.length := by
  intro vs
  induction vs with
  | nil => intro ds i; cases ds <;> rfl
  | cons v vs ih =>
    intro ds i
    cases ds with
    | nil => rfl
    | cons d ds =>
      simp only [diffLoop]
      split
      · simp only [List.length_cons]; rw [ih ds (i + 1)]
      · exact ih ds (i + 1)

/-- a predicate holds on every pair of a zip when it holds at every index -/
theorem zip_all_index {α β} (l1 : List α) (l2 : List β) (p : α × β → Bool)
    (h : ∀ (k : Nat) x y, l1[k]? = some x → l2[k]? = some y → p (x, y) = true) : (l1.zip l2).all p = true := by
  rw [List.all_eq_true]
  intro xy hm
  obtain ⟨k, hk, e⟩ := List.mem_iff_getElem.1 hm
  have hk1 : k < l1.length := by simp at hk; omega
  have hk2 : k < l2.length := by simp at hk; omega
  have hz : (l1.zip l2)[k] = (l1[k], l2[k]) := List.getElem_zip
  rw [← e, hz]
  exact h k _ _ (List.getElem?_eq_getElem hk1) (List.getElem?_eq_getElem hk2)

/-- two series that agree everywhere (NaN values included) have no differing points -/
theorem diffPoints_agree_nil (o : FOps) (h : Handle) (a : Arch) (hs : 0 < a.step) (f cnt : Nat) (vs : List Val)
    (hvs : vs.length = cnt) (hhi : f + a.step.toNat * cnt < 2147483648)
    (hag : Agrees o false h a f cnt vs) :
    diffPoints o false (some ⟨f, f + a.step.toNat * cnt, a.step, vs⟩) (some (readSeries h a f cnt)) = ([], []) := by
  have h1 : (diffPoints o false (some ⟨f, f + a.step.toNat * cnt, a.step, vs⟩) (some (readSeries h a f cnt))).1 = [] := by
    rw [diffPoints_wanted o false h a hs f cnt vs hvs hhi]
    apply List.eq_nil_iff_forall_not_mem.2
    intro p hp
    obtain ⟨j, hj, hj2, _, hd⟩ := (wanted_mem o false f a.step.toNat vs _ 0 p).1 hp
    have hjc : j < cnt := by omega
    have hval : (readSeries h a f cnt).values.getD j 0 = ringValue h a (slotAt h a 0).t (f + a.step.toNat * j) := by
      simp [readSeries, hjc]
    rw [hval] at hd
    cases hag j hjc with
    | inl he => unfold Differs at hd; rw [he] at hd; simp at hd
    | inr hx => simp at hx
  have h2 : (diffPoints o false (some ⟨f, f + a.step.toNat * cnt, a.step, vs⟩) (some (readSeries h a f cnt))).2 = [] := by
    have hl : (diffPoints o false (some ⟨f, f + a.step.toNat * cnt, a.step, vs⟩) (some (readSeries h a f cnt))).1.length =
        (diffPoints o false (some ⟨f, f + a.step.toNat * cnt, a.step, vs⟩) (some (readSeries h a f cnt))).2.length := by
      unfold diffPoints
      have hlen : ¬ ((sValues (some (⟨f, f + a.step.toNat * cnt, a.step, vs⟩ : Series))).length ≠
          (sValues (some (readSeries h a f cnt))).length) := by
        simp [sValues, readSeries, hvs]
      rw [if_neg hlen]
      exact diffLoop_lengths o false _ _ _ _ _ 0
    rw [h1] at hl
    exact List.eq_nil_of_length_eq_zero hl.symm
  exact Prod.ext h1 h2

/-- how a successful ⟦copyCore⟧ ended: nothing to copy, or all archives copied and published -/
theorem copyCore_cases (o : FOps) (t : Tree) (dst : String) (hd : Handle) (srcArchs : List Arch)
    (ls : List (Option Series)) (w : Window) (excl : Bool)
    (hok : (copyCore o t dst hd srcArchs ls w excl).2.1 = .ok) :
    ∃ ld, fetchList hd w.archiveID w.from_ w.until' w.now = .ok ld ∧ layoutsEqual srcArchs hd.archs = true ∧
      rangesEqual ls ld = true ∧
      (((allEmpty (diffLists o excl ls ld).1 && allEmpty (diffLists o excl ls ld).2) = true ∧
          (copyCore o t dst hd srcArchs ls w excl).1 = t) ∨
       ∃ hd' written, copyArchives o ls excl w hd 0
            ((List.range hd.archs.length).map fun i => (diffLists o excl ls ld).1.getD i []) = .ok (hd', written) ∧
          (copyCore o t dst hd srcArchs ls w excl).1 = t.set dst hd'.view) := by
  unfold copyCore at hok ⊢
  cases hfl : fetchList hd w.archiveID w.from_ w.until' w.now with
  | error e =>
    rw [hfl] at hok
    exfalso
    cases e <;> simp [Outcome.ofFault] at hok
  | ok ld =>
    rw [hfl] at hok
    simp only at hok ⊢
    refine ⟨ld, rfl, ?_⟩
    split at hok
    · simp at hok
    · rename_i hlay
      rw [if_neg hlay]
      split at hok
      · simp at hok
      · rename_i hrng
        rw [if_neg hrng]
        refine ⟨by simpa using hlay, by simpa using hrng, ?_⟩
        by_cases hempty : (allEmpty (diffLists o excl ls ld).1 && allEmpty (diffLists o excl ls ld).2) = true
        · left
          simp only [hempty, if_true]
          exact ⟨trivial, trivial⟩
        · right
          simp only [hempty, Bool.false_eq_true, if_false] at hok ⊢
          cases hca : copyArchives o ls excl w hd 0
              ((List.range hd.archs.length).map fun i => (diffLists o excl ls ld).1.getD i []) with
          | error e =>
            rw [hca] at hok
            exfalso
            cases e <;> simp [Outcome.ofFault] at hok
          | ok r =>
            obtain ⟨hd', written⟩ := r
            exact ⟨hd', written, rfl, rfl⟩

/-- one run of ⟦copyDifferentPoints⟧ keeps the invariant and the frame of the file -/
theorem copyArchives_inv (o : FOps) (ls : List (Option Series)) (excl : Bool) (w : Window) (L : Nat)
    (A : Nat → Arch) (F C : Nat → Nat) (V : Nat → List Val) (H : Nat) (batches : List (List Point)) :
    ∀ (h h'' : Handle) (i : Nat) (written : List (List Point)), Good h → AllState h → Coarse h L →
      H = 16 + 12 * h.hdr.archives.length →
      (∀ k, i ≤ k → k < i + batches.length → ArchSpec h ls w L k (A k) (F k) (C k) (V k)) →
      (i = 0 → ∀ ps, batches.head? = some ps →
        ps = (diffPoints o excl (ls.getD 0 none) (some (readSeries h (A 0) (F 0) (C 0)))).1) →
      copyArchives o ls excl w h i batches = .ok (h'', written) →
      AllState h'' ∧ Good h'' ∧ Frame H h h'' := by
  induction batches with
  | nil =>
    intro h h'' i written g al _ _ _ _ hp
    simp only [copyArchives] at hp
    injection hp with hp; injection hp with e1 _; subst e1
    exact ⟨al, g, Frame.refl _ _⟩
  | cons ps rest ih =>
    intro h h'' i written g al c hH hspec hfirst hp
    have spi := hspec i (by omega) (by simp)
    have sti := al i (A i) spi.arch
    simp only [copyArchives] at hp
    have hpts : (match ls.getD i none with
        | none => (.ok ps : R (List Point))
        | some s =>
          if i = 0 then .ok ps else
          match h.fetchFromArchive (i : Int) w.from_ w.until' w.now with
          | .error e => .error e
          | .ok d => .ok (diffPoints o excl (some s) d).1) =
        .ok (diffPoints o excl (some ⟨F i, F i + (A i).step.toNat * C i, (A i).step, V i⟩)
          (some (readSeries h (A i) (F i) (C i)))).1 := by
      rw [spi.src]
      simp only
      by_cases h0 : i = 0
      · subst h0
        simp only [if_true]
        have := hfirst rfl ps rfl
        rw [spi.src] at this
        rw [this]
      · simp only [h0, if_false]
        rw [spec_fetch spi sti]
    split at hp
    · simp at hp
    rename_i pts heq
    have epts : (Except.ok (diffPoints o excl (some ⟨F i, F i + (A i).step.toNat * C i, (A i).step, V i⟩)
          (some (readSeries h (A i) (F i) (C i)))).1 : R (List Point)) = Except.ok pts := hpts.symm.trans heq
    injection epts with epts
    subst epts
    cases hu : h.updateMany o (diffPoints o excl (some ⟨F i, F i + (A i).step.toNat * C i, (A i).step, V i⟩)
        (some (readSeries h (A i) (F i) (C i)))).1 (i : Int) w.now with
    | error e => rw [hu] at hp; simp at hp
    | ok h' =>
      rw [hu] at hp; simp only at hp
      cases hr : copyArchives o ls excl w h' (i + 1) rest with
      | error e => rw [hr] at hp; simp at hp
      | ok r =>
        obtain ⟨hx, wr⟩ := r
        rw [hr] at hp; simp only at hp
        injection hp with hp; injection hp with e1 _; subst e1
        have hs := spi.zone.ok.1
        have htimes : ∀ p ∈ (diffPoints o excl (some ⟨F i, F i + (A i).step.toNat * C i, (A i).step, V i⟩)
            (some (readSeries h (A i) (F i) (C i)))).1, p.t < 2147483648 ∧ L ≤ p.t := by
          intro p hp'
          rw [diffPoints_wanted o excl h (A i) hs (F i) (C i) (V i) spi.len spi.zone.hi] at hp'
          obtain ⟨j, hj, _, e, _⟩ := (wanted_mem o excl (F i) _ (V i) _ 0 p).1 hp'
          rw [e]
          simp only
          have hjc : j < C i := by rw [← spi.len]; exact hj
          have : (A i).step.toNat * (0 + j) ≤ (A i).step.toNat * C i := Nat.mul_le_mul_left _ (by omega)
          have := spi.zone.hi
          have := spi.late
          omega
        obtain ⟨al', g', hh⟩ := updateMany_allstate o h h' g al L c _ (i : Int) w.now htimes hu
        have fr : Frame H h h' := by
          rw [hH]; exact updateMany_frame o h h' g.placed _ (i : Int) w.now hu
        obtain ⟨al'', g'', fr'⟩ := ih h' hx (i + 1) wr g' al' (c.of_hdr hh) (by rw [hh]; exact hH)
            (fun k' h1 h2 => (hspec k' (by omega) (by simp at h2 ⊢; omega)).of_hdr hh)
            (by intro h0; omega) hr
        exact ⟨al'', g'', fr.trans fr'⟩

/-- reading a file other than the one a copy wrote is unaffected by the copy -/
theorem readFile_set_ne (o : FOps) (t : Tree) (src dst : String) (b : Bytes) (hne : src ≠ dst)
    (id : Int) (f u now : Nat) : readFile o (t.set dst b) src id f u now = readFile o t src id f u now := by
  unfold readFile Tree.get Tree.set
  rw [if_neg hne]

/-- ⟦readWhisperFileLocal⟧ of a reopenable handle's published bytes, all archives -/
theorem readFile_published (o : FOps) (t : Tree) (dst : String) (h : Handle) (r : Reopenable o h)
    (hget : t.get dst = some h.view) (id : Int) (f u now : Nat) (l : List (Option Series))
    (hfl : fetchList h id f u now = .ok l) :
    readFile o t dst id f u now = .ok (h.hdr, l) := by
  unfold readFile
  rw [hget]
  simp only
  rw [open_reopenable o h r 4096]
  simp only
  rw [hfl]

/-- what a reader of the destination finds on the tree a successful copy (NaN values
    included, all archives) left: the destination's header, series of the source's shape,
    and no differing point on either side — and no other path of the tree was touched -/
theorem copy_then_dest_clean (o : FOps) (hl : FLaws o) (t : Tree) (dst : String) (hd : Handle) (srcArchs : List Arch)
    (ls : List (Option Series)) (w : Window) (L : Nat)
    (A : Nat → Arch) (F C : Nat → Nat) (V : Nat → List Val)
    (g : Good hd) (al : AllState hd) (c : Coarse hd L) (r : Reopenable o hd)
    (hall : w.archiveID = -1)
    (hdst : t.get dst = some hd.view)
    (hlen : ls.length = hd.archs.length)
    (hspec : ∀ k, k < hd.archs.length → ArchSpec hd ls w L k (A k) (F k) (C k) (V k))
    (hok : (copyCore o t dst hd srcArchs ls w false).2.1 = .ok) :
    ∃ ld', readFile o (copyCore o t dst hd srcArchs ls w false).1 dst w.archiveID w.from_ w.until' w.now =
        .ok (hd.hdr, ld') ∧
      layoutsEqual srcArchs hd.hdr.archives = true ∧ rangesEqual ls ld' = true ∧
      (allEmpty (diffLists o false ls ld').1 && allEmpty (diffLists o false ls ld').2) = true ∧
      ∀ p, p ≠ dst → (copyCore o t dst hd srcArchs ls w false).1.get p = t.get p := by
  obtain ⟨ld, hfl, hlay, hrng, hcase⟩ := copyCore_cases o t dst hd srcArchs ls w false hok
  have harchs : hd.archs = hd.hdr.archives := rfl
  cases hcase with
  | inl h0 =>
    obtain ⟨hempty, htree⟩ := h0
    rw [htree]
    have hrd := readFile_published o t dst hd r hdst w.archiveID w.from_ w.until' w.now ld hfl
    rw [harchs] at hlay
    exact ⟨ld, hrd, hlay, hrng, hempty, fun _ _ => rfl⟩
  | inr h1 =>
    obtain ⟨hd', written, hca, htree⟩ := h1
    rw [htree]
    -- the copy's own reading of the destination
    have hfl0 : fetchList hd w.archiveID w.from_ w.until' w.now =
        .ok ((List.range hd.archs.length).map fun j => some (readSeries hd (A j) (F j) (C j))) := by
      unfold fetchList
      rw [if_pos hall]
      have := fetchAll_reads ls w L A F C V hd al hd.archs 0 (by simp) hspec
      simpa using this
    have hldeq : ld = (List.range hd.archs.length).map fun j => some (readSeries hd (A j) (F j) (C j)) := by
      rw [hfl0] at hfl; injection hfl with e; exact e.symm
    have hlsi : ∀ k, k < hd.archs.length →
        ls[k]? = some (some ⟨F k, F k + (A k).step.toNat * C k, (A k).step, V k⟩) := by
      intro k hk
      have hs' := (hspec k hk).src
      have hk' : k < ls.length := by omega
      rw [List.getD_eq_getElem?_getD, List.getElem?_eq_getElem hk'] at hs'
      simp only [Option.getD_some] at hs'
      rw [List.getElem?_eq_getElem hk', hs']
    have hfirst : ∀ ps, ((List.range hd.archs.length).map fun i => (diffLists o false ls ld).1.getD i []).head? = some ps →
        ps = (diffPoints o false (ls.getD 0 none) (some (readSeries hd (A 0) (F 0) (C 0)))).1 := by
      intro ps hps
      have hpos : 0 < hd.archs.length := by
        cases hn : hd.archs.length with
        | zero => rw [hn] at hps; simp at hps
        | succ n => omega
      have hsp0 : (diffLists o false ls ld).1.getD 0 [] =
          (diffPoints o false (some ⟨F 0, F 0 + (A 0).step.toNat * C 0, (A 0).step, V 0⟩)
            (some (readSeries hd (A 0) (F 0) (C 0)))).1 := by
        unfold diffLists
        have hldlen : ld.length = hd.archs.length := by rw [hldeq]; simp
        have : ¬ (ls.length ≠ ld.length) := by omega
        rw [if_neg this]
        exact getD_zip_map ls ld _ [] 0 _ _ (hlsi 0 hpos) (by rw [hldeq]; simp [hpos])
      rw [(hspec 0 hpos).src, ← hsp0]
      cases hr : List.range hd.archs.length with
      | nil => have := List.range_eq_nil.1 hr; omega
      | cons x xs =>
        rw [hr] at hps
        simp only [List.map_cons, List.head?_cons] at hps
        injection hps with hps
        have hx : x = 0 := by
          have : (List.range hd.archs.length)[0]? = some x := by rw [hr]; rfl
          simp [hpos] at this; omega
        rw [hx] at hps
        exact hps.symm
    obtain ⟨al', g', fr⟩ := copyArchives_inv o ls false w L A F C V _ _ hd hd' 0 written g al c rfl
      (by intro k' _ h2; simp at h2; exact hspec k' h2) (fun _ => hfirst) hca
    have hag : ∀ k, k < hd.archs.length → Agrees o false hd' (A k) (F k) (C k) (V k) := by
      intro k hk
      exact copyArchives_agrees o hl ls false w L A F C V _ hd hd' 0 written g al c
        (by intro k' _ h2; simp at h2; exact hspec k' h2) (fun _ => hfirst) hca k (by omega) (by simp; omega)
    have hh : hd'.hdr = hd.hdr := fr.1
    have harchs' : hd'.archs = hd.archs := fr.archs
    have r' : Reopenable o hd' := r.of_frame fr
    have hspec' : ∀ k, k < hd'.archs.length → ArchSpec hd' ls w L k (A k) (F k) (C k) (V k) := by
      intro k hk; rw [harchs'] at hk; exact (hspec k hk).of_hdr hh
    have hfl' : fetchList hd' w.archiveID w.from_ w.until' w.now =
        .ok ((List.range hd.archs.length).map fun j => some (readSeries hd' (A j) (F j) (C j))) := by
      unfold fetchList
      rw [if_pos hall]
      have := fetchAll_reads ls w L A F C V hd' al' hd'.archs 0 (by simp) hspec'
      rw [harchs']
      rw [harchs'] at this
      simpa using this
    have hrd := readFile_published o (t.set dst hd'.view) dst hd' r'
      (by unfold Tree.get Tree.set; simp) w.archiveID w.from_ w.until' w.now _ hfl'
    rw [hh] at hrd
    rw [harchs] at hlay
    generalize hld' : ((List.range hd.archs.length).map fun j => some (readSeries hd' (A j) (F j) (C j))) = ld'
    rw [hld'] at hrd
    have hld'len : ld'.length = hd.archs.length := by rw [← hld']; simp
    have hld'i : ∀ (k : Nat) y, ld'[k]? = some y → k < hd.archs.length ∧ y = some (readSeries hd' (A k) (F k) (C k)) := by
      intro k y hy
      rw [← hld'] at hy
      simp only [List.getElem?_map] at hy
      cases hrk : (List.range hd.archs.length)[k]? with
      | none => rw [hrk] at hy; simp at hy
      | some j =>
        rw [hrk] at hy
        simp only [Option.map_some, Option.some.injEq] at hy
        have hk : k < hd.archs.length := by
          have := (List.getElem?_eq_some_iff.1 hrk).1; simpa using this
        have hj : j = k := by
          have := (List.getElem?_eq_some_iff.1 hrk).2; simpa using this.symm
        subst hj
        exact ⟨hk, hy.symm⟩
    have hrng' : rangesEqual ls ld' = true := by
      unfold rangesEqual
      have h1 : (ls.length == ld'.length) = true := by simp; omega
      rw [h1, Bool.true_and]
      apply zip_all_index
      intro k x y hx hy
      obtain ⟨hk, ey⟩ := hld'i k y hy
      rw [hlsi k hk] at hx
      injection hx with ex
      subst ex; subst ey
      simp [sFrom, sUntil, sStep, readSeries]
    have hpair : ∀ (k : Nat) x y, ls[k]? = some x → ld'[k]? = some y → diffPoints o false x y = ([], []) := by
      intro k x y hx hy
      obtain ⟨hk, ey⟩ := hld'i k y hy
      rw [hlsi k hk] at hx
      injection hx with ex
      subst ex; subst ey
      have sp := hspec k hk
      exact diffPoints_agree_nil o hd' (A k) sp.zone.ok.1 (F k) (C k) (V k) sp.len sp.zone.hi (hag k hk)
    have hdl : (allEmpty (diffLists o false ls ld').1 && allEmpty (diffLists o false ls ld').2) = true := by
      unfold diffLists
      have : ¬ (ls.length ≠ ld'.length) := by omega
      rw [if_neg this]
      simp only [allEmpty, List.all_map, Bool.and_eq_true]
      constructor
      · apply zip_all_index
        intro k x y hx hy
        simp only [Function.comp, hpair k x y hx hy, List.isEmpty_nil]
      · apply zip_all_index
        intro k x y hx hy
        simp only [Function.comp, hpair k x y hx hy, List.isEmpty_nil]
    refine ⟨ld', hrd, hlay, hrng', hdl, ?_⟩
    intro p hp
    unfold Tree.get Tree.set
    rw [if_neg hp]

/-- ⟦readWhisperFileLocal⟧ looks at its own path only -/
theorem readFile_congr (o : FOps) (t1 t2 : Tree) (p : String) (hp : t1.get p = t2.get p)
    (id : Int) (f u now : Nat) : readFile o t1 p id f u now = readFile o t2 p id f u now := by
  unfold readFile
  rw [hp]

theorem readAll_congr (o : FOps) (t1 t2 : Tree) (w : Window) :
    ∀ (fs : List String), (∀ f ∈ fs, t1.get f = t2.get f) →
      sumFiles.readAll o t1 w fs = sumFiles.readAll o t2 w fs := by
  intro fs
  induction fs with
  | nil => intro _; rfl
  | cons f fs ih =>
    intro h
    simp only [sumFiles.readAll]
    rw [readFile_congr o t1 t2 f (h f (by simp)), ih (fun f' hf' => h f' (by simp [hf']))]

/-- ⟦sumWhisperFileLocal⟧ looks at the files of the item only -/
theorem sumFiles_congr (o : FOps) (t1 t2 : Tree) (files : List String) (w : Window)
    (h : ∀ f ∈ files, t1.get f = t2.get f) : sumFiles o t1 files w = sumFiles o t2 files w := by
  unfold sumFiles
  rw [readAll_congr o t1 t2 w files h]

/-- **copy, then diff: nothing is reported.**  With NaN values copied too and all archives
    selected, a `diff` of the same two files over the same window at the same clock, run on
    the tree a successful `copy` left, ends `ok` with no records. -/
theorem copy_then_diff_clean (o : FOps) (hl : FLaws o) (t : Tree) (src dst : String) (hd : Handle) (hs : Header)
    (ls : List (Option Series)) (w : Window) (L : Nat)
    (A : Nat → Arch) (F C : Nat → Nat) (V : Nat → List Val)
    (g : Good hd) (al : AllState hd) (c : Coarse hd L) (r : Reopenable o hd)
    (hall : w.archiveID = -1) (hne : src ≠ dst)
    (hdst : t.get dst = some hd.view)
    (hsrc : readFile o t src w.archiveID w.from_ w.until' w.now = .ok (hs, ls))
    (hlen : ls.length = hd.archs.length)
    (hspec : ∀ k, k < hd.archs.length → ArchSpec hd ls w L k (A k) (F k) (C k) (V k))
    (hok : (copyCore o t dst hd hs.archives ls w false).2.1 = .ok) :
    diffOne o (copyCore o t dst hd hs.archives ls w false).1 src dst w = (.ok, []) := by
  obtain ⟨ld', hrd, hlay, hrng, hdl, hother⟩ :=
    copy_then_dest_clean o hl t dst hd hs.archives ls w L A F C V g al c r hall hdst hlen hspec hok
  have hrs := readFile_congr o _ t src (hother src hne) w.archiveID w.from_ w.until' w.now
  rw [hsrc] at hrs
  unfold diffOne
  simp only [hrs, hrd]
  simp only [hlay, hrng, Bool.not_true, Bool.false_eq_true, if_false, hdl, if_true]

/-- **sum-copy, then sum-diff: nothing is reported** (same statement with the sum of the
    item's files as the source; the destination is not one of them) -/
theorem sumcopy_then_sumdiff_clean (o : FOps) (hl : FLaws o) (t : Tree) (files : List String) (dst : String)
    (hd : Handle) (hs : Header) (ls : List (Option Series)) (w : Window) (L : Nat)
    (A : Nat → Arch) (F C : Nat → Nat) (V : Nat → List Val)
    (g : Good hd) (al : AllState hd) (c : Coarse hd L) (r : Reopenable o hd)
    (hall : w.archiveID = -1) (hne : dst ∉ files)
    (hdst : t.get dst = some hd.view)
    (hsrc : sumFiles o t files w = .ok (hs, ls))
    (hlen : ls.length = hd.archs.length)
    (hspec : ∀ k, k < hd.archs.length → ArchSpec hd ls w L k (A k) (F k) (C k) (V k))
    (hok : (copyCore o t dst hd hs.archives ls w false).2.1 = .ok) :
    sumDiff o (copyCore o t dst hd hs.archives ls w false).1 files dst w = (.ok, []) := by
  obtain ⟨ld', hrd, hlay, _, hdl, hother⟩ :=
    copy_then_dest_clean o hl t dst hd hs.archives ls w L A F C V g al c r hall hdst hlen hspec hok
  have hrs := sumFiles_congr o _ t files w (fun f hf => hother f (fun e => hne (e ▸ hf)))
  rw [hsrc] at hrs
  unfold sumDiff
  simp only [hrs, hrd]
  simp only [hlay, Bool.not_true, Bool.false_eq_true, if_false, hdl, if_true]

end Wsp.C08
