/-
  C19  Text syntax round-trips: what is printed is what is parsed.

  Durations: `parse (print d) = d` for every `0 ≤ d < 2^31`; whenever the parser
  accepts a string, that string is `digits ++ [unit]` and the value is the exact product
  (no wrap-around), hence the listed rejections.  Method names: finite table.
  Timestamps and retention lists: see the `…_partial` notes at the end.
-/
import Wsp.Proofs.TextLemmas
import Wsp.Proofs.Calendar.RoundTrip
namespace Wsp.C19

/-- every printed unit is a parsed unit with the same multiplier, positive, and not a digit -/
theorem tables_consistent :
    ∀ p ∈ printTable, unitTable.lookup p.2 = some p.1 ∧ 0 < p.1 ∧ isDigit p.2 = false := by decide

theorem seconds_unit : unitTable.lookup 's' = some 1 := by decide

theorem lookup_pos (c : Char) (u : Int) (hu : unitTable.lookup c = some u) : 0 < u := by
  unfold unitTable at hu
  simp only [List.lookup] at hu
  repeat (split at hu; · injection hu with hu; omega)
  simp at hu

/-- parsing `digits(q) ++ [c]` with a known unit gives the exact product when it fits -/
theorem parse_show_unit (q : Nat) (c : Char) (u : Int) (hu : unitTable.lookup c = some u)
    (hupos : 0 < u) (hc : isDigit c = false) (hfit : (q : Int) * u ≤ 2147483647) :
    parseDuration (showNat q ++ [c]) = some ((q : Int) * u) := by
  have hstop : StopsNumber [c] := by
    intro c' r h; injection h with h1 _; rw [← h1]; exact hc
  have hq : q ≤ 2147483647 := by
    have : (q : Int) * 1 ≤ (q : Int) * u := Int.mul_le_mul_of_nonneg_left (by omega) (by omega)
    omega
  have hloop := leadingIntLoop_digits (showNat q) [c] 0 0 (showNat_digits q) hstop
    (by rw [valOf_showNat]; exact hq)
  rw [valOf_showNat] at hloop
  have hlen := showNat_length_pos q
  unfold parseDuration leadingInt
  have hloop' : leadingIntLoop 0 0 (showNat q ++ [c]) = some ((q : Int), 0 + (showNat q).length, [c]) := by
    simpa using hloop
  rw [hloop']
  have hz : ¬ ((q : Int) = 0 ∧ 0 + (showNat q).length ≠ 1) := by
    rintro ⟨h0, h1⟩
    have : q = 0 := by omega
    subst this
    rw [showNat_zero] at h1
    simp at h1
  simp only [hz, if_false, unitMultiplier, hu]
  have hdiv : ¬ ((q : Int) > Int.tdiv 2147483647 u) := by
    rw [Int.tdiv_eq_ediv_of_nonneg (by omega)]
    have := (Int.le_ediv_iff_mul_le hupos).2 hfit
    omega
  have hp : 0 ≤ (q : Int) * u := Int.mul_nonneg (by omega) (by omega)
  have h32 : i32 ((q : Int) * u) = (q : Int) * u := by
    generalize (q : Int) * u = p at *
    unfold i32; omega
  simp only [hdiv, if_false, h32]
  have : ¬ ((q : Int) * u < 0) := by omega
  simp [this]

theorem durationStringAux_parses (d : Int) (hd0 : 0 < d) (hd : d ≤ 2147483647)
    (tbl : List (Int × Char))
    (ht : ∀ p ∈ tbl, unitTable.lookup p.2 = some p.1 ∧ 0 < p.1 ∧ isDigit p.2 = false) :
    parseDuration (durationStringAux d tbl) = some d := by
  induction tbl with
  | nil =>
    unfold durationStringAux showInt
    have : ¬ d < 0 := by omega
    simp only [this, if_false]
    have := parse_show_unit d.toNat 's' 1 seconds_unit (by omega) (by decide) (by omega)
    rw [this]; congr 1; omega
  | cons p tbl ih =>
    obtain ⟨u, c⟩ := p
    have ⟨hu, hupos, hc⟩ := ht (u, c) (by simp)
    unfold durationStringAux
    by_cases hm : Int.tmod d u = 0
    · simp only [hm, if_true]
      have hq0 : 0 ≤ Int.tdiv d u := by
        rw [Int.tdiv_eq_ediv_of_nonneg (by omega)]; exact Int.ediv_nonneg (by omega) (by omega)
      have hmul : Int.tdiv d u * u = d := by
        have := Int.tmod_add_tdiv_mul d u
        rw [hm] at this
        omega
      unfold showInt
      have : ¬ Int.tdiv d u < 0 := by omega
      simp only [this, if_false]
      have hcast : ((Int.tdiv d u).toNat : Int) = Int.tdiv d u := by omega
      have := parse_show_unit (Int.tdiv d u).toNat c u hu hupos hc (by rw [hcast, hmul]; exact hd)
      rw [this, hcast, hmul]
    · simp only [hm, if_false]
      exact ih (fun p hp => ht p (by simp [hp]))

/-- **parse ∘ print = id on durations**: every non-negative duration (all 2^31 of them). -/
theorem parse_print_duration (d : Int) (h0 : 0 ≤ d) (h1 : d < 2147483648) :
    parseDuration (durationString d) = some d := by
  unfold durationString
  by_cases hz : d = 0
  · subst hz
    simp only [if_true]
    have := parse_show_unit 0 's' 1 seconds_unit (by omega) (by decide) (by omega)
    rw [showNat_zero] at this
    simpa using this
  · simp only [hz, if_false]
    exact durationStringAux_parses d (by omega) (by omega) printTable tables_consistent

/-- **exact meaning**: an accepted string is `digits ++ [unit]`, and the result is the
    arithmetic product, which fits in 31 bits (no wrap-around). -/
theorem parse_exact (s : Str) (d : Int) (h : parseDuration s = some d) :
    ∃ ds c u, s = ds ++ [c] ∧ ds ≠ [] ∧ (∀ x ∈ ds, isDigit x = true) ∧ isDigit c = false ∧
      unitTable.lookup c = some u ∧ d = (valOf 0 ds : Nat) * u ∧ 0 ≤ d ∧ d ≤ 2147483647 := by
  unfold parseDuration leadingInt at h
  cases hl : leadingIntLoop 0 0 s with
  | none => simp [hl] at h
  | some r =>
    obtain ⟨x, i, rem⟩ := r
    simp only [hl] at h
    by_cases hz : x = 0 ∧ i ≠ 1
    · simp [hz] at h
    simp only [hz, if_false] at h
    obtain ⟨ds, hs, hdig, hstop, hx, hi, hv⟩ := leadingIntLoop_sound s 0 0 x i rem (by omega) (by simpa using hl)
    match rem, h with
    | [c], h =>
      simp only [unitMultiplier] at h
      cases hu : unitTable.lookup c with
      | none => simp [hu] at h
      | some u =>
        simp only [hu] at h
        have hupos : 0 < u := lookup_pos c u hu
        by_cases hbig : x > Int.tdiv 2147483647 u
        · simp [hbig] at h
        simp only [hbig, if_false] at h
        have hx0 : 0 ≤ x := by omega
        have hfit : x * u ≤ 2147483647 := by
          rw [Int.tdiv_eq_ediv_of_nonneg (by omega)] at hbig
          exact (Int.le_ediv_iff_mul_le hupos).1 (by omega)
        have hp : 0 ≤ x * u := Int.mul_nonneg hx0 (by omega)
        have h32 : i32 (x * u) = x * u := by
          generalize x * u = p at *
          unfold i32; omega
        rw [h32] at h
        have : ¬ (x * u < 0) := by omega
        simp only [this, if_false] at h
        injection h with h
        refine ⟨ds, c, u, hs, ?_, hdig, hstop c [] rfl, hu, by rw [← h, hx], by omega, by omega⟩
        intro hnil
        subst hnil
        simp [valOf] at hx hi
        exact hz ⟨hx, by omega⟩

/-! ### rejections -/

theorem rejects_empty : parseDuration [] = none := by decide

theorem rejects_sign (s : Str) : parseDuration ('-' :: s) = none ∧ parseDuration ('+' :: s) = none := by
  constructor <;>
  · cases h : parseDuration (_ :: s) with
    | none => rfl
    | some d =>
      obtain ⟨ds, c, u, hs, hne, hdig, _⟩ := parse_exact _ d h
      cases ds with
      | nil => exact absurd rfl hne
      | cons x xs =>
        injection hs with h1 _
        have := hdig x (by simp)
        rw [← h1] at this
        exact absurd this (by decide)

theorem rejects_no_unit (s : Str) (hd : ∀ c ∈ s, isDigit c = true) : parseDuration s = none := by
  cases h : parseDuration s with
  | none => rfl
  | some d =>
    obtain ⟨ds, c, u, hs, _, _, hc, _⟩ := parse_exact s d h
    have := hd c (by rw [hs]; simp)
    rw [hc] at this; exact absurd this (by decide)

theorem rejects_unknown_unit (ds : Str) (c : Char) (hu : unitTable.lookup c = none) :
    parseDuration (ds ++ [c]) = none := by
  cases h : parseDuration (ds ++ [c]) with
  | none => rfl
  | some d =>
    obtain ⟨ds', c', u, hs, _, _, _, hu', _⟩ := parse_exact _ d h
    have : c = c' := by
      have := congrArg List.getLast? hs
      simpa using this
    subst this
    rw [hu] at hu'; exact absurd hu' (by simp)

theorem rejects_doubled_unit (ds : Str) (c c' : Char) (hc : isDigit c = false) :
    parseDuration (ds ++ [c, c']) = none := by
  cases h : parseDuration (ds ++ [c, c']) with
  | none => rfl
  | some d =>
    obtain ⟨ds', c'', u, hs, _, hdig, _, _⟩ := parse_exact _ d h
    -- the next-to-last character of an accepted string is a digit
    have h1 : ds ++ [c, c'] = (ds ++ [c]) ++ [c'] := by simp
    rw [h1] at hs
    have hinit := List.append_inj_left' hs (by simp)
    have : c ∈ ds' := by rw [← hinit]; simp
    have := hdig c this
    rw [hc] at this; exact absurd this (by decide)

theorem rejects_too_large (ds : Str) (c : Char) (u : Int) (hu : unitTable.lookup c = some u)
    (hbig : (valOf 0 ds : Nat) * u > 2147483647) : parseDuration (ds ++ [c]) = none := by
  cases h : parseDuration (ds ++ [c]) with
  | none => rfl
  | some d =>
    obtain ⟨ds', c', u', hs, _, hdig', hc', hu', hd', _, hle⟩ := parse_exact _ d h
    have hl : ds = ds' := List.append_inj_left' hs (by simp)
    have hcc : c = c' := by
      have := congrArg List.getLast? hs
      simpa using this
    subst hl hcc
    rw [hu] at hu'; injection hu' with hu'; subst hu'
    omega

/-! ### timestamps -/

/-- **parse ∘ print = id on all 2^32 timestamps**: the fixed layout `2006-01-02T15:04:05Z`
    printed from the civil date of `t / 86400` and the time of day `t % 86400` parses back to
    `t`.  The calendar core (day ↦ (y, m, d) ↦ day, with a valid month and day-of-month, for
    each of the 49 711 days of the range) is checked by kernel evaluation in
    `Wsp/Proofs/Calendar/Chunk*.lean`; the rest is decimal arithmetic. -/
theorem timestamp_roundtrip (t : Nat) (ht : t < 4294967296) :
    parseTimestamp (timestampString t) = some t := parseTimestamp_timestampString t ht

/-- an accepted timestamp is inside the uint32 range: no wrap-around (repaired) -/
theorem timestamp_no_wrap (s : Str) (t : Nat) (h : parseTimestamp s = some t) : t ≤ 4294967295 := by
  unfold parseTimestamp at h
  split at h
  · simp at h
  · rename_i sec _
    split at h
    · simp at h
    · rename_i hr
      injection h with h
      omega

/-! ### method names -/

theorem method_names : ∀ m ∈ [1, 2, 3, 4, 5, 6, 7, 8],
    (aggName m).bind aggParse = some m := by decide

theorem method_flag_accepts_storable : ∀ m ∈ [1, 2, 3, 4, 5, 6, 7, 8],
    ((aggName m).bind aggFlagParse).isSome = validAgg m := by decide

/-! non-vacuity -/
example : parseDuration (durationString 604800) = some 604800 := parse_print_duration _ (by omega) (by omega)
example : durationString 604800 = ['1', 'w'] := by
  simp [durationString, durationStringAux, printTable, showInt, showNat, digitChar]

end Wsp.C19
