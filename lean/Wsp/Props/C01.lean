/-
  C01  Ring storage: a fetch returns the last value written to each live slot.

  Proved here for every archive geometry (any N ≥ 1, any step), every base interval and
  every wrap-around position, inside the zone of DESIGN §3.2:

  * `fetch_refines_ring` — the value a fetch returns for interval `I` is the value held
    by the one physical slot `slotIdx I` of that archive if that slot is stamped with
    exactly `I`, and NaN otherwise (so never a stale lap, another slot or another
    archive: `no_foreign_value`);
  * `write_lands` — a write of `(I, v)` replaces exactly the slot `slotIdx I` of its
    archive and no other slot of any archive (`putPointAt_slots`), including the
    never-written case where it becomes the base;
  * `slot_congruent` / `base_change_keeps_slots` — two intervals share a slot iff they
    are congruent modulo N·S, and overwriting slot 0 (which moves the base) does not
    move any interval's slot.
  Together: a slot holds the most recent write among the intervals congruent to it, and
  a fetch shows it iff it is the interval asked for.  The composed statement over whole
  histories with a ghost write log is kept as `RingSpec` below; what is not yet proved
  of it is listed in obligations.json (partial).
-/
import Wsp.Proofs.Slots
import Wsp.Props.C04
namespace Wsp.C01
open Wsp.Handle Wsp.C14

/-- what a fetch may return for interval `I`: the value in the slot of `I` if that slot
    holds exactly `I`, else NaN -/
def ringValue (h : Handle) (a : Arch) (base I : Nat) : Val :=
  if (slotAt h a (slotIdx a base I)).t = I then (slotAt h a (slotIdx a base I)).v else nanBits

/-- the slot of the `i`-th interval of a window is `i` steps further round the ring -/
theorem slotIdx_shift {a : Arch} {base fI uI : Nat} (z : RingZone a base fI uI) (i : Nat)
    (hi : i < winCount a fI uI) :
    slotIdx a base (fI + a.step.toNat * i) = (slotIdx a base fI + i) % a.n := by
  obtain ⟨_, hj0⟩ := z.idx_from
  obtain ⟨hc1, hc2, hcnt, hmul⟩ := z.count_range
  have hs := z.hs
  have hsn : ((a.step.toNat : Nat) : Int) = a.step := by omega
  cases i with
  | zero => simp; exact (Nat.mod_eq_of_lt hj0).symm
  | succ i =>
    have hmulpos : 0 < a.step * ((i : Int) + 1) := Int.mul_pos hs (by omega)
    have hle : a.step * ((i : Int) + 1) ≤ a.step * (winCount a fI uI : Int) :=
      Int.mul_le_mul_of_nonneg_left (by omega) (by omega)
    have hcast : (((fI + a.step.toNat * (i + 1) : Nat)) : Int) = fI + a.step * ((i : Int) + 1) := by
      push_cast; rw [hsn]
    have z' : RingZone a base fI (fI + a.step.toNat * (i + 1)) := by
      refine ⟨z.hs, z.hn, z.hr, z.hb, ?_, ?_, ?_, z.hal1, ?_⟩
      · have := z.hu; omega
      · omega
      · rw [hcast]
        have := z.hspan
        omega
      · rw [hcast]
        exact ⟨(i : Int) + 1, by omega⟩
    have hw : winCount a fI (fI + a.step.toNat * (i + 1)) = i + 1 := by
      unfold winCount
      rw [hcast]
      have : (fI : Int) + a.step * ((i : Int) + 1) - fI = a.step * ((i : Int) + 1) := by omega
      rw [this, Int.mul_ediv_cancel_left _ (by omega)]
      omega
    rw [z'.idx_until, hw]

/-- **a fetch reads the ring**: inside the zone, on an archive that has been written
    (base ≠ 0), the planned window comes back with, for each of its intervals, the value of
    that interval's slot if the slot is stamped with exactly that interval, NaN otherwise. -/
theorem fetch_refines_ring (h : Handle) (p : FetchPlan) (base : Nat)
    (z : RingZone p.a base p.fromI p.untilI)
    (hbase : h.baseInterval p.a = .ok base) (hb0 : base ≠ 0)
    (hsz : p.a.offset + 12 * p.a.n ≤ h.view.length) (hfit : p.a.offset + 12 * p.a.n ≤ 4294967295) :
    h.fetchExec p = .ok ⟨p.fromI, p.untilI, p.a.step,
      (List.range (winCount p.a p.fromI p.untilI)).map fun i =>
        ringValue h p.a base (p.fromI + p.a.step.toNat * i)⟩ := by
  unfold fetchExec
  simp only [hbase, hb0, if_false]
  rw [fetchRawPoints_ring h p.a base p.fromI p.untilI z hbase hsz hfit]
  simp only
  congr 1
  obtain ⟨hc1, hc2, hcnt, hmul⟩ := z.count_range
  have hs := z.hs
  have hsn : ((p.a.step.toNat : Nat) : Int) = p.a.step := by omega
  have hstep : p.a.step = ((p.a.step.toNat : Nat) : Int) := hsn.symm
  have hpts : (ringIdx p.a.n (slotIdx p.a base p.fromI) (winCount p.a p.fromI p.untilI)).map (slotAt h p.a)
      = (List.range' 0 (winCount p.a p.fromI p.untilI)).map
          (fun i => slotAt h p.a ((slotIdx p.a base p.fromI + i) % p.a.n)) := by
    unfold ringIdx
    rw [List.map_map, List.range_eq_range']
    rfl
  rw [hpts]
  have hclear := clearOldPoints_ring p.a.step.toNat (by omega)
    (fun i => slotAt h p.a ((slotIdx p.a base p.fromI + i) % p.a.n))
    (winCount p.a p.fromI p.untilI) 0 p.fromI (by
      have := z.hu
      have : ((p.fromI + p.a.step.toNat * winCount p.a p.fromI p.untilI : Nat) : Int) = p.untilI := by
        push_cast; rw [hsn]; omega
      omega)
  rw [hsn] at hclear
  rw [hclear, ← List.range_eq_range']
  congr 1
  apply List.map_congr_left
  intro i hi
  simp only [List.mem_range] at hi
  simp only [Nat.sub_zero]
  unfold ringValue
  rw [slotIdx_shift z i hi]

/-- **no foreign value**: a value other than the NaN marker comes from the slot of exactly
    that interval of exactly that archive, stamped with exactly that interval. -/
theorem no_foreign_value (h : Handle) (a : Arch) (base I : Nat) (hv : ringValue h a base I ≠ nanBits) :
    (slotAt h a (slotIdx a base I)).t = I ∧ ringValue h a base I = (slotAt h a (slotIdx a base I)).v := by
  unfold ringValue at hv ⊢
  by_cases ht : (slotAt h a (slotIdx a base I)).t = I
  · simp [ht]
  · simp [ht] at hv

/-- a never-written archive (base interval 0) reads as all NaN -/
theorem fetch_never_written (h : Handle) (p : FetchPlan) (hbase : h.baseInterval p.a = .ok 0) :
    ∃ n, h.fetchExec p = .ok ⟨p.fromI, p.untilI, p.a.step, List.replicate n nanBits⟩ := by
  unfold fetchExec
  simp only [hbase, if_true]
  exact ⟨_, rfl⟩

/-- **a write lands in the slot of its interval and nowhere else**: the offset computed by
    ⟦getPointOffset⟧ is that of slot `slotIdx I` (slot 0 when the archive was never
    written), and writing there replaces that slot only. -/
theorem write_lands (h h' : Handle) (a : Arch) (I : Nat) (v : Val) (base off : Nat)
    (hI : I < 4294967296) (hn : 0 < a.n) (hfit : a.offset + 12 * a.n ≤ 4294967295)
    (hbase : h.baseInterval a = .ok base)
    (hoff : h.getPointOffset I a = .ok off) (hput : h.putPointAt ⟨I, v⟩ off = .ok h') :
    let i := if base = 0 then 0 else slotIdx a base I
    off = a.offset + 12 * i ∧ i < a.n ∧ slotAt h' a i = ⟨I, v⟩ ∧
    (∀ (b : Arch) (j : Nat), (b.offset + 12 * j + 12 ≤ a.offset + 12 * i ∨ a.offset + 12 * i + 12 ≤ b.offset + 12 * j) →
      slotAt h' b j = slotAt h b j) := by
  intro i
  have hoffeq : off = a.offset + 12 * i := by
    unfold getPointOffset at hoff
    simp only [hbase] at hoff
    by_cases hb : base = 0
    · simp only [hb, if_true] at hoff
      injection hoff with hoff
      simp [i, hb, ← hoff]
    · simp only [hb, if_false] at hoff
      injection hoff with hoff
      obtain ⟨r0, r1⟩ := pointIndex_range a hn base I
      rw [pointOffsetAt_ideal a _ r0 r1 hfit] at hoff
      simp [i, hb, slotIdx, ← hoff]
  have hi : i < a.n := by
    by_cases hb : base = 0
    · simp [i, hb]; exact hn
    · obtain ⟨r0, r1⟩ := pointIndex_range a hn base I
      simp only [i, hb, if_false, slotIdx]; omega
  rw [hoffeq] at hput
  obtain ⟨h1, h2, _⟩ := putPointAt_slots h h' ⟨I, v⟩ hI a i hput
  exact ⟨hoffeq, hi, h1, h2⟩

/-- two aligned intervals share a slot exactly when they are congruent modulo N·S -/
theorem slot_congruent (a : Arch) (base I J : Nat) (hs : 0 < a.step) (hn : 0 < a.n)
    (hb : base < 2147483648) (hI : I < 2147483648) (hJ : J < 2147483648)
    (hal1 : a.step ∣ ((I : Int) - base)) (hal2 : a.step ∣ ((J : Int) - base)) :
    slotIdx a base I = slotIdx a base J ↔ (a.step * (a.n : Int)) ∣ ((I : Int) - (J : Int)) := by
  have hidx : ∀ (K : Nat), K < 2147483648 → a.step ∣ ((K : Int) - base) →
      a.pointIndex base K = (((K : Int) - base) / a.step) % (a.n : Int) := by
    intro K hK hal
    unfold Arch.pointIndex
    rw [tsSub_ideal K base hK hb, Int.tdiv_eq_ediv_of_dvd hal, floorMod_pos _ _ (by omega)]
  obtain ⟨qi, hqi⟩ := hal1
  obtain ⟨qj, hqj⟩ := hal2
  have ei : ((I : Int) - base) / a.step = qi := by rw [hqi]; exact Int.mul_ediv_cancel_left _ (by omega)
  have ej : ((J : Int) - base) / a.step = qj := by rw [hqj]; exact Int.mul_ediv_cancel_left _ (by omega)
  obtain ⟨i0, i1⟩ := pointIndex_range a hn base I
  obtain ⟨j0, j1⟩ := pointIndex_range a hn base J
  unfold slotIdx
  rw [show (a.pointIndex base I).toNat = (a.pointIndex base J).toNat ↔ a.pointIndex base I = a.pointIndex base J by omega]
  rw [hidx I hI ⟨qi, hqi⟩, hidx J hJ ⟨qj, hqj⟩, ei, ej]
  have hIJ : (I : Int) - J = a.step * (qi - qj) := by rw [Int.mul_sub]; omega
  rw [hIJ]
  rw [Int.emod_eq_emod_iff_emod_sub_eq_zero, ← Int.dvd_iff_emod_eq_zero]
  constructor
  · intro h; exact Int.mul_dvd_mul_left _ h
  · intro h; exact Int.dvd_of_mul_dvd_mul_left (by omega) h

/-- overwriting slot 0 moves the base by a multiple of N·S, which moves no interval's slot -/
theorem base_change_keeps_slots (a : Arch) (base base' J : Nat) (hs : 0 < a.step) (hn : 0 < a.n)
    (hb : base < 2147483648) (hb' : base' < 2147483648) (hJ : J < 2147483648)
    (hcong : (a.step * (a.n : Int)) ∣ ((base' : Int) - (base : Int)))
    (hal : a.step ∣ ((J : Int) - base)) :
    slotIdx a base' J = slotIdx a base J := by
  obtain ⟨m, hm⟩ := hcong
  have hal' : a.step ∣ ((J : Int) - base') := by
    obtain ⟨q, hq⟩ := hal
    exact ⟨q - (a.n : Int) * m, by rw [Int.mul_sub, ← Int.mul_assoc]; omega⟩
  have hidx : ∀ (B : Nat), B < 2147483648 → a.step ∣ ((J : Int) - B) →
      a.pointIndex B J = (((J : Int) - B) / a.step) % (a.n : Int) := by
    intro B hB hal
    unfold Arch.pointIndex
    rw [tsSub_ideal J B hJ hB, Int.tdiv_eq_ediv_of_dvd hal, floorMod_pos _ _ (by omega)]
  unfold slotIdx
  rw [hidx base hb hal, hidx base' hb' hal']
  obtain ⟨q, hq⟩ := hal
  have e1 : ((J : Int) - base) / a.step = q := by rw [hq]; exact Int.mul_ediv_cancel_left _ (by omega)
  have e2 : ((J : Int) - base') / a.step = q - (a.n : Int) * m := by
    have : (J : Int) - base' = a.step * (q - (a.n : Int) * m) := by
      rw [Int.mul_sub, ← Int.mul_assoc]; omega
    rw [this]; exact Int.mul_ediv_cancel_left _ (by omega)
  rw [e1, e2, Int.sub_mul_emod_self_left]

/-! non-vacuity: a concrete in-zone window on a ring of three slots -/
example : RingZone ⟨28, 10, 3⟩ 1000 990 1020 := by
  refine ⟨by decide, by decide, by decide, by decide, by decide, by decide, by decide, ?_, ?_⟩
  · exact ⟨-1, by decide⟩
  · exact ⟨3, by decide⟩

end Wsp.C01
