/-
  What ⟦fetchPlan⟧ yields inside the clock zone is a window of the kind the ring theorems
  talk about (`C08.WinZone`): on the archive's step grid, not empty, at most N intervals,
  younger than the retention, below 2^31.  This discharges the window hypotheses of
  `C08.copy_step` / `copyArchives_agrees` and of `C01.fetch_after_history` from the clock
  alone.
-/
import Wsp.Props.C08All
namespace Wsp.C04Z
open Wsp.Handle Wsp.C14 Wsp.C01 Wsp.C08

theorem plan_winzone (archs : List Arch) (k : Int) (f u now : Nat) (p : FetchPlan)
    (hp : fetchPlan archs k f u now = .ok (some p))
    (ok : ArchOK p.a)
    (hclock : p.a.step * (p.a.n : Int) ≤ now) (hnow : (now : Int) + 2 * p.a.step < 2147483648) :
    ∃ cnt, 0 < cnt ∧ p.untilI = p.fromI + p.a.step.toNat * cnt ∧ WinZone p.a p.fromI cnt now := by
  obtain ⟨hs, hn, hr⟩ := ok
  have hsl : p.a.step < 2147483648 := by
    have : p.a.step * 1 ≤ p.a.step * (p.a.n : Int) := Int.mul_le_mul_of_nonneg_left (by omega) (by omega)
    omega
  obtain ⟨_, _, hfu, hfn, hnu, hI⟩ := C04.shape archs k f u now p hp hs hsl hn hr hclock (by omega)
  dsimp only at hI
  obtain ⟨eF, eU⟩ := hI
  have hmr : p.a.maxRetention = p.a.step * (p.a.n : Int) := maxRetention_ideal p.a ⟨hs, hn, hr⟩
  generalize hP : p.a.step * (p.a.n : Int) = P at *
  have hPpos : 0 < P := by rw [← hP]; exact Int.mul_pos hs (by omega)
  generalize hS : p.a.step = S at *
  -- the two clamped bounds and their positions inside a step
  generalize hf' : max (f : Int) ((now : Int) - P) = f' at *
  generalize hu' : min (u : Int) (now : Int) = u' at *
  have hf'0 : 0 ≤ f' := by rw [← hf']; omega
  have hfu' : f' ≤ u' := by rw [← hf', ← hu']; omega
  have hu'n : u' ≤ now := by rw [← hu']; omega
  have hf'lo : (now : Int) - P ≤ f' := by rw [← hf']; omega
  have m1 := Int.emod_nonneg f' (by omega : S ≠ 0)
  have m2 := Int.emod_lt_of_pos f' hs
  have m3 := Int.emod_nonneg u' (by omega : S ≠ 0)
  have m4 := Int.emod_lt_of_pos u' hs
  have hmono := Total.alignDown_mono f' u' S hs hfu'
  -- divisibility of the aligned bounds
  have dF : S ∣ (f' - f' % S + S) := by
    have : f' - f' % S = S * (f' / S) := by have := Int.mul_ediv_add_emod f' S; omega
    rw [this]; exact ⟨f' / S + 1, by rw [Int.mul_add]; omega⟩
  have dU : S ∣ (u' - u' % S + S) := by
    have : u' - u' % S = S * (u' / S) := by have := Int.mul_ediv_add_emod u' S; omega
    rw [this]; exact ⟨u' / S + 1, by rw [Int.mul_add]; omega⟩
  have hSn : ((S.toNat : Nat) : Int) = S := by omega
  -- the span is a positive multiple of the step, at most N of them
  have hspan : ∃ c : Int, 0 < c ∧ (p.untilI : Int) - p.fromI = S * c ∧ S * c ≤ P := by
    by_cases heq : f' - f' % S + S = u' - u' % S + S
    · refine ⟨1, by omega, ?_, ?_⟩
      · rw [eU, eF, if_pos heq]; omega
      · have : S * 1 ≤ S * (p.a.n : Int) := Int.mul_le_mul_of_nonneg_left (by omega) (by omega)
        omega
    · obtain ⟨qf, hqf⟩ := dF
      obtain ⟨qu, hqu⟩ := dU
      have hlt : f' - f' % S + S < u' - u' % S + S := by omega
      have hq : qf < qu := by
        by_cases hcon : qf < qu
        · exact hcon
        · exfalso
          have : S * qu ≤ S * qf := Int.mul_le_mul_of_nonneg_left (by omega) (by omega)
          omega
      refine ⟨qu - qf, by omega, ?_, ?_⟩
      · rw [eU, eF, if_neg heq, hqf, hqu, Int.mul_sub]
      · -- uI − fI ≤ (now − (now − P)) rounded: strictly less than P + S, and a multiple of S
        have hlt2 : S * (qu - qf) < P + S := by rw [Int.mul_sub]; omega
        obtain ⟨nn, hnn⟩ : ∃ nn : Int, P = S * nn := ⟨(p.a.n : Int), by omega⟩
        rw [hnn] at hlt2 ⊢
        have : qu - qf < nn + 1 := by
          by_cases hcon : qu - qf < nn + 1
          · exact hcon
          · exfalso
            have : S * (nn + 1) ≤ S * (qu - qf) := Int.mul_le_mul_of_nonneg_left (by omega) (by omega)
            rw [Int.mul_add] at this
            omega
        exact Int.mul_le_mul_of_nonneg_left (by omega) (by omega)
  obtain ⟨c, hc0, hce, hcP⟩ := hspan
  have hcn : c ≤ (p.a.n : Int) := by
    by_cases hcon : c ≤ (p.a.n : Int)
    · exact hcon
    · exfalso
      have : S * ((p.a.n : Int) + 1) ≤ S * c := Int.mul_le_mul_of_nonneg_left (by omega) (by omega)
      rw [Int.mul_add] at this
      omega
  subst hS
  refine ⟨c.toNat, by omega, ?_, ?_⟩
  · have : ((p.fromI + p.a.step.toNat * c.toNat : Nat) : Int) = p.fromI + p.a.step * c := by
      push_cast; rw [hSn, Int.toNat_of_nonneg (by omega)]
    omega
  · have hFpos : (p.fromI : Int) = f' - f' % p.a.step + p.a.step := eF
    have hUle : (p.untilI : Int) ≤ now + 2 * p.a.step := by
      rw [eU]; split <;> omega
    refine ⟨⟨hs, hn, by omega⟩, by rw [hFpos]; exact dF, by omega, ?_, by omega, ?_⟩
    · have : ((p.fromI + p.a.step.toNat * c.toNat : Nat) : Int) = p.fromI + p.a.step * c := by
        push_cast; rw [hSn, Int.toNat_of_nonneg (by omega)]
      omega
    · rw [hmr]
      have hold : (tsAdd now (- P) : Int) = (now : Int) - P :=
        (tsAdd_ideal now (-P) (by omega) (by omega)).trans (by omega)
      omega

end Wsp.C04Z
