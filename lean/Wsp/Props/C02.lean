/-
  C02  Downsampling: coarser archives hold the configured aggregate of finer data.

  One step of propagation (`propagateOne`, the body of the loop in ⟦propagate⟧) for the
  coarse interval `t`:
  * reads the finer ring over `[t, t + S_coarse)` and keeps the values of the slots that
    are stamped with their expected interval, in time order (`known_values`);
  * if none is known, or the known fraction is below xFilesFactor, the handle is returned
    exactly as it was (`skipped_slot_untouched`);
  * otherwise it stores `aggregate method known` — of a **non-empty** list, so no value is
    invented and `aggregate` cannot panic (`stored_is_aggregate`, `aggregate_total`) — in
    the slot of `t` of the coarser archive and in no other slot of any archive
    (`stored_frame`);
  * the next level is visited only for intervals that were stored (`continues_only_if_stored`).
  `aggregate_rules` states the six methods outright.
-/
import Wsp.Proofs.Slots
import Wsp.Props.C01
namespace Wsp.C02
open Wsp.Handle Wsp.C14

/-- the six methods, stated outright (average, sum, last, max, min, first) -/
theorem aggregate_rules (o : FOps) (v : Val) (vs : List Val) :
    aggregate o 1 (v :: vs) = .ok (o.divNat (o.sum (v :: vs)) (vs.length + 1)) ∧
    aggregate o 2 (v :: vs) = .ok (o.sum (v :: vs)) ∧
    aggregate o 3 (v :: vs) = .ok ((v :: vs).getLast (by simp)) ∧
    aggregate o 4 (v :: vs) = .ok ((v :: vs).foldl (fun mx x => if o.lt mx x then x else mx) v) ∧
    aggregate o 5 (v :: vs) = .ok ((v :: vs).foldl (fun mn x => if o.lt x mn then x else mn) v) ∧
    aggregate o 6 (v :: vs) = .ok v := by
  refine ⟨rfl, rfl, ?_, rfl, rfl, rfl⟩
  simp only [aggregate]
  rw [List.getLast?_eq_getLast (by simp)]

/-- on a non-empty list of known values every storable method yields a value — no panic -/
theorem aggregate_total (o : FOps) (m : Nat) (hm : validAgg m = true) (vs : List Val) (hne : vs ≠ []) :
    ∃ v, aggregate o m vs = .ok v := by
  cases vs with
  | nil => exact absurd rfl hne
  | cons v vs =>
    have hr := aggregate_rules o v vs
    simp [validAgg] at hm
    obtain ⟨h1, h2⟩ := hm
    have : m = 1 ∨ m = 2 ∨ m = 3 ∨ m = 4 ∨ m = 5 ∨ m = 6 := by omega
    rcases this with rfl | rfl | rfl | rfl | rfl | rfl
    · exact ⟨_, hr.1⟩
    · exact ⟨_, hr.2.1⟩
    · exact ⟨_, hr.2.2.1⟩
    · exact ⟨_, hr.2.2.2.1⟩
    · exact ⟨_, hr.2.2.2.2.1⟩
    · exact ⟨_, hr.2.2.2.2.2⟩

/-- ⟦filterValidValues⟧ keeps, in time order, the values of the points stamped with their
    expected interval -/
theorem known_values (s : Nat) (f : Nat → Point) :
    ∀ (n k cur : Nat), cur + s * n < 4294967296 →
    filterValid (s : Int) cur ((List.range' k n).map f) =
      ((List.range' k n).filter fun i => decide ((f i).t = cur + s * (i - k))).map fun i => (f i).v := by
  intro n
  induction n with
  | zero => intro k cur _; rfl
  | succ n ih =>
    intro k cur hb
    have hnext : tsAdd cur (s : Int) = cur + s := by
      have := tsAdd_ideal cur (s : Int) (by omega) (by
        have : s * (n + 1) = s * n + s := by rw [Nat.mul_add, Nat.mul_one]
        omega)
      omega
    rw [List.range'_succ]
    simp only [List.map_cons, filterValid, List.filter_cons]
    have hrec := ih (k + 1) (cur + s) (by
      have : s * (n + 1) = s * n + s := by rw [Nat.mul_add, Nat.mul_one]
      omega)
    have hcongr : ((List.range' (k + 1) n).filter fun i => decide ((f i).t = cur + s + s * (i - (k + 1)))) =
        ((List.range' (k + 1) n).filter fun i => decide ((f i).t = cur + s * (i - k))) := by
      apply List.filter_congr
      intro i hi
      have hik : k + 1 ≤ i := by rw [List.mem_range'_1] at hi; exact hi.1
      have : cur + s + s * (i - (k + 1)) = cur + s * (i - k) := by
        have : i - k = (i - (k + 1)) + 1 := by omega
        rw [this, Nat.mul_add, Nat.mul_one]; omega
      rw [this]
    rw [hnext, hrec, hcongr]
    by_cases ht : (f k).t = cur
    · simp [ht]
    · simp [ht]

/-- what one propagation step did -/
theorem propagateOne_spec (o : FOps) (h h' : Handle) (a aHigh : Arch) (t : Nat) (stored : Bool)
    (hp : propagateOne o h a aHigh t = .ok (h', stored)) :
    ∃ pts, h.fetchRawPoints aHigh t (tsAdd t a.step) = .ok pts ∧
      (stored = false → h' = h ∧
        ((filterValid aHigh.step (aHigh.intervalForWrite t) pts).length = 0 ∨
         o.xffLess (filterValid aHigh.step (aHigh.intervalForWrite t) pts).length pts.length h.hdr.xff = true)) ∧
      (stored = true →
        (filterValid aHigh.step (aHigh.intervalForWrite t) pts) ≠ [] ∧
        o.xffLess (filterValid aHigh.step (aHigh.intervalForWrite t) pts).length pts.length h.hdr.xff = false ∧
        ∃ v off, aggregate o h.hdr.agg (filterValid aHigh.step (aHigh.intervalForWrite t) pts) = .ok v ∧
          h.getPointOffset t a = .ok off ∧ h.putPointAt ⟨t, v⟩ off = .ok h') := by
  unfold propagateOne at hp
  cases hf : h.fetchRawPoints aHigh t (tsAdd t a.step) with
  | error e => simp [hf] at hp
  | ok pts =>
    simp only [hf] at hp
    refine ⟨pts, rfl, ?_⟩
    generalize filterValid aHigh.step (aHigh.intervalForWrite t) pts = vals at hp ⊢
    by_cases h0 : vals.length = 0
    · simp only [h0, if_true] at hp
      injection hp with hp; injection hp with e1 e2
      subst e1 e2
      exact ⟨fun _ => ⟨rfl, Or.inl h0⟩, fun hc => by simp at hc⟩
    · simp only [h0, if_false] at hp
      cases hx : o.xffLess vals.length pts.length h.hdr.xff with
      | true =>
        simp only [hx, if_true] at hp
        injection hp with hp; injection hp with e1 e2
        subst e1 e2
        exact ⟨fun _ => ⟨rfl, Or.inr rfl⟩, fun hc => by simp at hc⟩
      | false =>
        simp only [hx, Bool.false_eq_true, if_false] at hp
        cases hagg : aggregate o h.hdr.agg vals with
        | error e => simp [hagg] at hp
        | ok v =>
          simp only [hagg] at hp
          cases hg : h.getPointOffset t a with
          | error e => simp [hg] at hp
          | ok off =>
            simp only [hg] at hp
            cases hput : h.putPointAt ⟨t, v⟩ off with
            | error e => simp [hput] at hp
            | ok hm =>
              simp only [hput] at hp
              injection hp with hp; injection hp with e1 e2
              subst e1 e2
              refine ⟨fun hc => by simp at hc, fun _ => ⟨?_, rfl, v, off, rfl, rfl, hput⟩⟩
              intro he; apply h0; rw [he]; rfl

/-- a coarser slot whose finer values are all unknown, or too few of them known, is left
    exactly as it was — and so is every other byte of the file -/
theorem skipped_slot_untouched (o : FOps) (h h' : Handle) (a aHigh : Arch) (t : Nat)
    (hp : propagateOne o h a aHigh t = .ok (h', false)) : h' = h := by
  obtain ⟨_, _, h1, _⟩ := propagateOne_spec o h h' a aHigh t false hp
  exact (h1 rfl).1

/-- a stored value is the aggregate of a non-empty list of known finer values -/
theorem stored_is_aggregate (o : FOps) (h h' : Handle) (a aHigh : Arch) (t : Nat)
    (hp : propagateOne o h a aHigh t = .ok (h', true)) :
    ∃ pts v, h.fetchRawPoints aHigh t (tsAdd t a.step) = .ok pts ∧
      filterValid aHigh.step (aHigh.intervalForWrite t) pts ≠ [] ∧
      aggregate o h.hdr.agg (filterValid aHigh.step (aHigh.intervalForWrite t) pts) = .ok v := by
  obtain ⟨pts, hf, _, h2⟩ := propagateOne_spec o h h' a aHigh t true hp
  obtain ⟨hne, _, v, _, hagg, _, _⟩ := h2 rfl
  exact ⟨pts, v, hf, hne, hagg⟩

/-- the store replaces the slot of `t` in the coarser archive and no other slot anywhere -/
theorem stored_frame (o : FOps) (h h' : Handle) (a aHigh : Arch) (t : Nat) (base : Nat)
    (ht : t < 4294967296) (hn : 0 < a.n) (hfit : a.offset + 12 * a.n ≤ 4294967295)
    (hbase : h.baseInterval a = .ok base)
    (hp : propagateOne o h a aHigh t = .ok (h', true)) :
    let i := if base = 0 then 0 else slotIdx a base t
    (slotAt h' a i).t = t ∧
    (∀ (b : Arch) (j : Nat), (b.offset + 12 * j + 12 ≤ a.offset + 12 * i ∨ a.offset + 12 * i + 12 ≤ b.offset + 12 * j) →
      slotAt h' b j = slotAt h b j) := by
  obtain ⟨pts, hf, _, h2⟩ := propagateOne_spec o h h' a aHigh t true hp
  obtain ⟨_, _, v, off, _, hg, hput⟩ := h2 rfl
  obtain ⟨_, _, hs, hfr⟩ := C01.write_lands h h' a t v base off ht hn hfit hbase hg hput
  exact ⟨by rw [hs], hfr⟩

/-- recomputation continues to the next level only for slots that were stored: a skipped
    slot adds nothing to the list of times to propagate -/
theorem continues_only_if_stored (o : FOps) (h : Handle) (a aHigh : Arch) (aLow : Option Arch)
    (acc : List Nat) (t : Nat) (ts : List Nat) (hm : Handle)
    (hp : propagateOne o h a aHigh t = .ok (hm, false)) :
    propagateLoop o h a aHigh aLow acc (t :: ts) = propagateLoop o hm a aHigh aLow acc ts := by
  simp only [propagateLoop, hp]
  simp

/-- the window read for one coarse interval always has `S_coarse / S_fine` slots, whatever
    the times (no zone needed): `(t + S) − t` is `S` in 32-bit arithmetic -/
theorem propagate_window_count (a : Arch) (t : Nat) (hs : 0 < a.step) (hsl : a.step < 2147483648)
    (ht : t < 4294967296) : tsSub (tsAdd t a.step) t = a.step := by
  unfold tsSub tsAdd u32 i32
  omega

end Wsp.C02
