/-
  Locality of the propagation that follows a batch (C02): the level-by-level chain
  (`chainBatchSpec`, which ⟦propagateChain⟧ equals by `propagateChain_batch`) changes, in each
  archive at or behind the level it starts at, only slots that are afterwards stamped with the
  chain's interval (`chainTime`) of one of the times it was started with; every other slot of
  every archive is bit for bit what it was.
-/
import Wsp.Props.C02Local
import Wsp.Props.C02Batch
namespace Wsp.C02S
open Wsp.Handle Wsp.C14 Wsp.Total Wsp.C01 Wsp.C08 Wsp.Inv

/-- one level: the slots it changes are slots of that level's archive stamped with one of
    the level's times; what it reports as stored is among those times -/
theorem levelSpec_local (o : FOps) (k : Nat) (a aHigh : Arch) :
    ∀ (ts : List Nat) (h h' : Handle) (st : List Nat), Good h → h.archs[k]? = some a →
      (∀ t ∈ ts, t < 4294967296) → levelSpec o a aHigh h ts = .ok (h', st) →
      h'.hdr = h.hdr ∧ (∀ x ∈ st, x ∈ ts) ∧
      ∀ (m : Nat) (b : Arch) (j : Nat), h.archs[m]? = some b → j < b.n →
        slotAt h' b j ≠ slotAt h b j → m = k ∧ (slotAt h' b j).t ∈ ts := by
  intro ts
  induction ts with
  | nil =>
    intro h h' st _ _ _ hp
    simp only [levelSpec] at hp
    injection hp with hp; injection hp with e1 e2; subst e1; subst e2
    exact ⟨rfl, fun x hx => by simp at hx, fun m b j _ _ hne => absurd rfl hne⟩
  | cons t ts ih =>
    intro h h' st g ha hts hp
    simp only [levelSpec] at hp
    cases hone : propagateOne o h a aHigh t with
    | error e => simp [hone] at hp
    | ok r =>
      obtain ⟨h1, stored⟩ := r
      simp only [hone] at hp
      cases hrest : levelSpec o a aHigh h1 ts with
      | error e => simp [hrest] at hp
      | ok r2 =>
        obtain ⟨h2, st2⟩ := r2
        simp only [hrest] at hp
        injection hp with hp; injection hp with e1 e2; subst e1
        have pa := g.placed a (mem_of_getElem? ha)
        have hfit : a.offset + 12 * a.n ≤ 4294967295 := by have := pa.hi; have := pa.fits; omega
        have fr := propagateOne_frame o (H := 16 + 12 * h.hdr.archives.length) h h1 a aHigh t stored pa hone
        have g1 : Good h1 := g.of_frame fr
        have earch : h1.archs = h.archs := by unfold Handle.archs; rw [fr.1]
        have ha1 : h1.archs[k]? = some a := by rw [earch]; exact ha
        obtain ⟨hh, hst, hloc⟩ := ih h1 h2 st2 g1 ha1 (fun x hx => hts x (List.mem_cons_of_mem _ hx)) hrest
        refine ⟨hh.trans fr.1, ?_, ?_⟩
        · intro x hx
          rw [← e2] at hx
          cases stored with
          | false => simp only [Bool.false_eq_true, if_false] at hx; exact List.mem_cons_of_mem _ (hst x hx)
          | true =>
            simp only [if_true, List.mem_cons] at hx
            rcases hx with rfl | hx
            · exact List.mem_cons_self
            · exact List.mem_cons_of_mem _ (hst x hx)
        · intro m b j hmb hj hne
          have hmb1 : h1.archs[m]? = some b := by rw [earch]; exact hmb
          by_cases hc : slotAt h2 b j = slotAt h1 b j
          · have hne1 : slotAt h1 b j ≠ slotAt h b j := by rw [← hc]; exact hne
            cases stored with
            | false =>
              have := Wsp.C02.skipped_slot_untouched o h h1 a aHigh t hone
              subst this
              exact absurd rfl hne1
            | true =>
              obtain ⟨_, _, _, h2s⟩ := Wsp.C02.propagateOne_spec o h h1 a aHigh t true hone
              obtain ⟨_, _, v, off, _, hg, hput⟩ := h2s rfl
              cases hb : h.baseInterval a with
              | error e => unfold getPointOffset at hg; simp [hb] at hg
              | ok base =>
                obtain ⟨_, hi, hs, hfr⟩ := C01.write_lands h h1 a t v base off
                  (hts t List.mem_cons_self) pa.npos hfit hb hg hput
                have hov : ¬ (b.offset + 12 * j + 12 ≤ a.offset + 12 * (if base = 0 then 0 else slotIdx a base t) ∨
                    a.offset + 12 * (if base = 0 then 0 else slotIdx a base t) + 12 ≤ b.offset + 12 * j) :=
                  fun hd => hne1 (hfr b j hd)
                by_cases hmk : m = k
                · subst hmk
                  have hba : b = a := by rw [ha] at hmb; injection hmb with hmb; exact hmb.symm
                  subst hba
                  have hj' : j = (if base = 0 then 0 else slotIdx b base t) := by omega
                  refine ⟨rfl, ?_⟩
                  rw [hc, hj', hs]
                  exact List.mem_cons_self
                · exfalso
                  have := regions_disjoint h g m k b a hmk hmb ha
                  omega
          · obtain ⟨e, hmem⟩ := hloc m b j hmb1 hj hc
            exact ⟨e, List.mem_cons_of_mem _ hmem⟩

/-- **locality of the chain of a batch** -/
theorem chainBatchSpec_local (o : FOps) (fuel : Nat) :
    ∀ (h h' : Handle) (k : Nat) (ts : List Nat), Good h → (∀ t ∈ ts, t < 4294967296) →
      chainBatchSpec o fuel h k ts = .ok h' →
      h'.hdr = h.hdr ∧
      ∀ (m : Nat) (b : Arch) (j : Nat), h.archs[m]? = some b → j < b.n →
        slotAt h' b j ≠ slotAt h b j →
        k ≤ m ∧ ∃ t0 ∈ ts, (slotAt h' b j).t = chainTime h.archs k t0 fuel m := by
  induction fuel with
  | zero =>
    intro h h' k ts _ _ hp
    simp only [chainBatchSpec] at hp
    injection hp with hp; subst hp
    exact ⟨rfl, fun m b j _ _ hne => absurd rfl hne⟩
  | succ fuel ih =>
    intro h h' k ts g hts hp
    simp only [chainBatchSpec] at hp
    split at hp
    · rename_i hcond
      cases hps : propagateSpec o h k ts with
      | error e => simp [hps] at hp
      | ok r =>
        obtain ⟨h1, ts'⟩ := r
        simp only [hps] at hp
        unfold propagateSpec at hps
        have hl0 : ¬ ts.length = 0 := by omega
        rw [if_neg hl0] at hps
        cases ha : h.archs[k]? with
        | none => simp [ha] at hps
        | some a =>
          cases hah : h.archs[k - 1]? with
          | none => simp [ha, hah] at hps
          | some aHigh =>
            simp only [ha, hah] at hps
            cases hb : h.baseInterval a with
            | error e => simp [hb] at hps
            | ok base =>
              simp only [hb] at hps
              cases hlev : levelSpec o a aHigh h ts with
              | error e => simp [hlev] at hps
              | ok r2 =>
                obtain ⟨hm, st⟩ := r2
                simp only [hlev] at hps
                injection hps with hps; injection hps with e1 e2; subst e1
                obtain ⟨hh1, hst, hloc1⟩ := levelSpec_local o k a aHigh ts h hm st g ha hts hlev
                have earch : hm.archs = h.archs := by unfold Handle.archs; rw [hh1]
                have gm : Good hm := by
                  have pa := g.placed
                  refine ⟨⟨?_, ?_⟩, ?_⟩
                  · rw [hh1]; exact g.1.valid
                  · rw [hh1]; exact g.1.range
                  · rw [hh1]; exact g.2
                have hts' : ∀ t ∈ ts', t < 4294967296 := by
                  intro x hx
                  rw [← e2] at hx
                  unfold nextTimes at hx
                  cases hl : h.archs[k + 1]? with
                  | none => simp [hl] at hx
                  | some l =>
                    simp only [hl] at hx
                    rw [mem_dedupAdj] at hx
                    obtain ⟨y, _, rfl⟩ := List.mem_map.1 hx
                    exact intervalForWrite_lt l y
                obtain ⟨hh2, hloc2⟩ := ih hm h' (k + 1) ts' gm hts' hp
                refine ⟨hh2.trans hh1, ?_⟩
                intro m b j hmb hj hne
                have hmb1 : hm.archs[m]? = some b := by rw [earch]; exact hmb
                by_cases hc : slotAt h' b j = slotAt hm b j
                · have hne1 : slotAt hm b j ≠ slotAt h b j := by rw [← hc]; exact hne
                  obtain ⟨e, hmem⟩ := hloc1 m b j hmb hj hne1
                  subst e
                  refine ⟨Nat.le_refl _, (slotAt hm b j).t, hmem, ?_⟩
                  rw [hc, chainTime_self]
                · obtain ⟨hkm, t1, ht1, hts1⟩ := hloc2 m b j hmb1 hj hc
                  refine ⟨by omega, ?_⟩
                  rw [← e2] at ht1
                  unfold nextTimes at ht1
                  cases hl : h.archs[k + 1]? with
                  | none => simp [hl] at ht1
                  | some l =>
                    simp only [hl] at ht1
                    rw [mem_dedupAdj] at ht1
                    obtain ⟨y, hy, rfl⟩ := List.mem_map.1 ht1
                    refine ⟨y, hst y hy, ?_⟩
                    rw [hts1, earch]
                    have hnle : ¬ m ≤ k := by omega
                    simp only [chainTime, hnle, if_false, hl]
    · injection hp with hp; subst hp
      exact ⟨rfl, fun m b j _ _ hne => absurd rfl hne⟩

end Wsp.C02S

namespace Wsp.C02S
open Wsp.Handle Wsp.C14 Wsp.Total Wsp.C01 Wsp.C08 Wsp.Inv

/-- **locality of ⟦propagateChain⟧ for a batch**: whatever the file held, the propagation
    that follows the write of a batch to archive `k` changes only slots of archives behind
    `k`, each afterwards stamped with the chain's interval, at its level, of the time of one
    of the written points -/
theorem propagateChain_batch_local (o : FOps) (h h' : Handle) (k : Nat) (aligned : List Point) (g : Good h)
    (hp : propagateChain o h k aligned = .ok h') :
    h'.hdr = h.hdr ∧
    ∀ (m : Nat) (b : Arch) (j : Nat), h.archs[m]? = some b → j < b.n →
      slotAt h' b j ≠ slotAt h b j →
      k + 1 ≤ m ∧ ∃ l, h.archs[k + 1]? = some l ∧ ∃ p ∈ aligned,
        (slotAt h' b j).t = chainTime h.archs (k + 1) (l.intervalForWrite p.t) h.archs.length m := by
  rw [propagateChain_batch] at hp
  cases hl : h.archs[k + 1]? with
  | none =>
    simp only [hl] at hp
    injection hp with hp; subst hp
    exact ⟨rfl, fun m b j _ _ hne => absurd rfl hne⟩
  | some l =>
    simp only [hl] at hp
    have hts : ∀ t ∈ dedupAdj ((aligned.map (·.t)).map l.intervalForWrite), t < 4294967296 := by
      intro x hx
      rw [mem_dedupAdj] at hx
      obtain ⟨y, _, rfl⟩ := List.mem_map.1 hx
      exact intervalForWrite_lt l y
    obtain ⟨hh, hloc⟩ := chainBatchSpec_local o _ h h' (k + 1) _ g hts hp
    refine ⟨hh, ?_⟩
    intro m b j hmb hj hne
    obtain ⟨h1, t0, ht0, hst⟩ := hloc m b j hmb hj hne
    rw [mem_dedupAdj] at ht0
    obtain ⟨y, hy, rfl⟩ := List.mem_map.1 ht0
    obtain ⟨p, hp', rfl⟩ := List.mem_map.1 hy
    exact ⟨h1, l, rfl, p, hp', hst⟩

end Wsp.C02S
