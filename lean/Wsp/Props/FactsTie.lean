/-
  The tie between the tables the model states and the source's own tables
  (`Wsp/Generated/Facts.lean`, regenerated from /repo on every run by factgen).
  Every theorem here is `rfl`/`decide`: if the source's table changes, the obligation
  breaks on the next run (DESIGN §4.1).
-/
import Wsp.Generated.Facts
import Wsp.Model.Text
namespace Wsp.FactsTie

theorem sizes :
    Facts.uint32Size = 4 ∧ Facts.uint64Size = 8 ∧ Facts.float32Size = 4 ∧ Facts.float64Size = 8 ∧
    Facts.metaSize = (Wsp.metaSize : Int) ∧ Facts.archiveInfoListSize = (Wsp.archiveInfoSize : Int) ∧
    Facts.pointSize = (Wsp.pointSize : Int) := by decide

theorem archive_ids : Facts.archiveIDBest = -1 ∧ Facts.archiveIDAll = -1 := by decide

theorem unit_table : Facts.unitTable = Wsp.unitTable := by decide

theorem print_table :
    Facts.durationPrintTable = Wsp.printTable ∧ Facts.durationDefaultFormat = "%ds" := by decide

theorem units_are_the_constants :
    Wsp.unitTable = [('s', Facts.second), ('m', Facts.minute), ('h', Facts.hour), ('d', Facts.day),
      ('w', Facts.week), ('y', Facts.year)] := by decide

theorem agg_methods :
    Facts.validAggMethods = [1, 2, 3, 4, 5, 6] ∧ Facts.flagAggMethods = Facts.validAggMethods ∧
    [Facts.aggAverage, Facts.aggSum, Facts.aggLast, Facts.aggMax, Facts.aggMin, Facts.aggFirst,
      Facts.aggMix, Facts.aggPercentile] = [1, 2, 3, 4, 5, 6, 7, 8] := by decide

theorem valid_agg_is_the_accepted_set (m : Nat) :
    Wsp.validAgg m = true ↔ (m : Int) ∈ Facts.validAggMethods := by
  simp [Wsp.validAgg, Facts.validAggMethods]; omega

theorem agg_names :
    Facts.aggMethodNames = "averagesumlastmaxminfirstmixpercentile" ∧
    Facts.aggMethodIndex = [0, 7, 10, 14, 17, 20, 25, 28, 38] := by decide

theorem time_layout : Facts.utcTimeLayout = "2006-01-02T15:04:05Z" := by decide

/-- C05: the buffer is flushed by `Sync` only; the file is written only through the buffer;
    `file.Sync` is called by `Sync` only. -/
theorem disk_writers :
    Facts.flushCallers = ["Sync"] ∧ Facts.fileSyncCallers = ["Sync"] ∧
    Facts.directFileWriteCallers = [] ∧ Facts.writeAtCallers = ["putHeader", "putPointAt"] ∧
    Facts.truncateCallers = ["Create"] := by decide

/-- C08, C11, C20 (and every reading command): who reads a clock, and how many times.  Each
    command reads the wall clock once per file or item (the two extra readings in the `execute`
    of the looping commands time the run for its log line) and hands the instant on; the
    library reads its own clock only in the three entry points that may be called without an
    instant, and never the wall clock directly. -/
theorem clock_readers :
    Facts.cmdClockReaders = ["CopyCommand.copyOneFile:1", "CopyCommand.execute:2", "DiffCommand.diffOneFile:1",
      "DiffCommand.execute:2", "GenerateCommand.execute:1", "SumCommand.execute:1", "SumCopyCommand.execute:2",
      "SumCopyCommand.sumCopyItem:1", "SumDiffCommand.execute:2", "SumDiffCommand.sumDiffItem:1",
      "ViewCommand.execute:1", "ViewRawCommand.execute:1", "newRandSeed:1"] ∧
    Facts.libClockReaders = ["Whisper.FetchFromArchive:1", "Whisper.UpdatePointForArchive:1",
      "Whisper.UpdatePointsForArchive:1"] ∧
    Facts.libWallClockReaders = [] := by decide

/-- C13: the lock is taken in one place. -/
theorem lock_site : Facts.flockCallers = ["openAndLockFile"] := by decide

/-- C17: no read-path function of whisper.go assigns a field of the handle. -/
theorem field_assigners :
    Facts.fieldAssigners.map (·.1) =
      ["Create", "Open", "WithOpenFileFlag", "WithPerm", "WithoutFlock", "openAndLockFile", "readHeader"] := by
  decide

theorem remote_headers : Facts.respHeaderXOp = "X-Op" ∧ Facts.respHeaderXPath = "X-Path" := by decide

/-- C18: the line formats of view / view-raw / diff / header. -/
theorem line_formats :
    ("PointsList.Print", "archive:%d\tt:%s\tval:%s\n") ∈ Facts.printFormats ∧
    ("printDiff", "archive:%d\tt:%s\tsrcVal:%s\tdestVal:%s\tdestMinusSrc:%s\n") ∈ Facts.printFormats ∧
    ("Header.String", "aggMethod:%s\taggMethodNum:%d\tmaxRetention:%s\txFileFactor:%s\tarchiveCount:%d\n") ∈ Facts.printFormats ∧
    ("Header.String", "archiveInfo:%d\tdurationPerPoint:%s\tnumberOfPoints:%d\toffset:%d\n") ∈ Facts.printFormats := by
  decide

end Wsp.FactsTie
