/-
  C02 at system level, first level: a single update of the finest archive is its direct
  write, then exactly one consolidation step into the next archive — for the one coarser
  interval that contains the written one — and everything after that lies behind both
  archives.  What that one step does is `C02.propagateOne_spec`: it reads the finer ring over
  the coarse interval as it is *after* the direct write, and stores the aggregate of the
  known values iff there is at least one and the known fraction reaches xFilesFactor.
-/
import Wsp.Props.C08All
namespace Wsp.C02S
open Wsp.Handle Wsp.C14 Wsp.Total Wsp.C01 Wsp.C08 Wsp.Inv

theorem single_update_first_level (o : FOps) (h h' : Handle) (g : Good h) (a0 a1 : Arch)
    (ha0 : h.archs[0]? = some a0) (ha1 : h.archs[1]? = some a1) (t : Nat) (v : Val) (now : Nat)
    (hp : h.updatePoint o 0 t v now = .ok h') :
    ∃ off h1 hm stored,
      h.getPointOffset (a0.intervalForWrite t) a0 = .ok off ∧
      h.putPointAt ⟨a0.intervalForWrite t, v⟩ off = .ok h1 ∧
      propagateOne o h1 a1 a0 (a1.intervalForWrite (a0.intervalForWrite t)) = .ok (hm, stored) ∧
      SameOn a0 hm h' ∧ SameOn a1 hm h' ∧ SameOn a0 h1 hm := by
  unfold updatePoint at hp
  by_cases hc : t ≤ tsAdd now (- h.hdr.maxRet) ∨ now < t
  · simp [hc] at hp
  simp only [hc, if_false] at hp
  have hk : ¬ ((0 : Int) = -1) := by omega
  simp only [hk, if_false] at hp
  have hneg : ¬ ((0 : Int) < 0) := by omega
  simp only [hneg, if_false, Int.toNat_zero, ha0] at hp
  cases hg : h.getPointOffset (a0.intervalForWrite t) a0 with
  | error e => simp [hg] at hp
  | ok off =>
    simp only [hg] at hp
    cases hput : h.putPointAt ⟨a0.intervalForWrite t, v⟩ off with
    | error e => simp [hput] at hp
    | ok h1 =>
      simp only [hput] at hp
      have pl := g.placed
      have f1 := putPointAt_frame (16 + 12 * h.hdr.archives.length) h h1 _ off
        (getPointOffset_range h a0 (pl a0 (mem_of_getElem? ha0)) _ off hg).1 hput
      have g1 := g.of_frame f1
      have earch : h1.archs = h.archs := by unfold Handle.archs; rw [f1.1]
      have ha0' : h1.archs[0]? = some a0 := by rw [earch]; exact ha0
      have ha1' : h1.archs[1]? = some a1 := by rw [earch]; exact ha1
      -- unroll the chain one level
      unfold propagateChain at hp
      simp only [Nat.zero_add, ha1'] at hp
      have hlen : 2 ≤ h1.archs.length := by
        have := List.getElem?_eq_some_iff.1 ha1'
        obtain ⟨hl, _⟩ := this
        omega
      obtain ⟨fuel, hfuel⟩ : ∃ fuel, h1.archs.length = fuel + 1 := ⟨h1.archs.length - 1, by omega⟩
      rw [hfuel] at hp
      have hts : timesToPropagate a1 [] (List.map (fun (x : Point) => x.t) [(⟨a0.intervalForWrite t, v⟩ : Point)]) =
          [a1.intervalForWrite (a0.intervalForWrite t)] := by
        simp [timesToPropagate]
      rw [hts] at hp
      simp only [propagateChainLoop] at hp
      have hcond : 1 < h1.archs.length ∧ [a1.intervalForWrite (a0.intervalForWrite t)].length > 0 := ⟨by omega, by simp⟩
      rw [if_pos hcond] at hp
      cases hpr : propagate o h1 1 [a1.intervalForWrite (a0.intervalForWrite t)] with
      | error e => rw [hpr] at hp; simp at hp
      | ok r =>
        obtain ⟨hm, ts'⟩ := r
        rw [hpr] at hp; simp only at hp
        -- the one propagate call is one propagateOne
        unfold propagate at hpr
        have hl1 : ¬ ([a1.intervalForWrite (a0.intervalForWrite t)].length = 0) := by simp
        rw [if_neg hl1] at hpr
        simp only [ha1', Nat.sub_self, ha0'] at hpr
        split at hpr
        · simp at hpr
        · rw [propagateLoop_cons] at hpr
          cases hone : propagateOne o h1 a1 a0 (a1.intervalForWrite (a0.intervalForWrite t)) with
          | error e => rw [hone] at hpr; simp at hpr
          | ok r1 =>
            obtain ⟨hm1, stored⟩ := r1
            rw [hone] at hpr
            simp only [propagateLoop] at hpr
            injection hpr with hpr; injection hpr with e1 _; subst e1
            -- what follows lies behind archive 1 (hence behind archive 0 too)
            have fone := propagateOne_frame o h1 hm1 a1 a0 _ stored (g1.placed a1 (mem_of_getElem? ha1')) hone
            have gm := g1.of_frame fone
            have earch2 : hm1.archs = h1.archs := by unfold Handle.archs; rw [fone.1]
            have ha1m : hm1.archs[1]? = some a1 := by rw [earch2]; exact ha1'
            have ha0m : hm1.archs[0]? = some a0 := by rw [earch2]; exact ha0'
            have pf1 := placedFrom_of_valid hm1 gm.1.valid gm.1.range 1 a1 ha1m
            have ftail := propagateChainLoop_frameFrom o fuel hm1 h' 2 ts' pf1 hp
            have s1 : SameOn a1 hm1 h' := frame_sameOn a1 ftail (by omega)
            have pf0 := placedFrom_of_valid hm1 gm.1.valid gm.1.range 0 a0 ha0m
            have ftail0 := propagateChainLoop_frameFrom o fuel hm1 h' 2 ts' (pf0.mono (by omega)) hp
            have s0 : SameOn a0 hm1 h' := frame_sameOn a0 ftail0 (by omega)
            -- the level-1 step itself writes behind archive 0
            have pf0' := placedFrom_of_valid h1 g1.1.valid g1.1.range 0 a0 ha0'
            have fone0 := propagateOne_frame o h1 hm1 a1 a0 _ stored (pf0' 1 a1 (by omega) ha1') hone
            exact ⟨off, h1, hm1, stored, rfl, hput, hone, s0, s1, frame_sameOn a0 fone0 (by omega)⟩

/-! ### the whole chain for one written point: at most one step per level -/

/-- the simple algorithm: consolidate the one coarser interval containing `T` at level `k`;
    go on to the next level only if a value was stored -/
def chainSpec (o : FOps) : Nat → Handle → Nat → Nat → R Handle
  | 0, h, _, _ => .ok h
  | fuel+1, h, k, T =>
    if k < h.archs.length then
      match h.archs[k]?, h.archs[k - 1]? with
      | some a, some aHigh =>
        match h.baseInterval a with
        | .error e => .error e
        | .ok _ =>
          match propagateOne o h a aHigh T with
          | .error e => .error e
          | .ok (h', stored) =>
            if stored then
              match h.archs[k + 1]? with
              | none => .ok h'
              | some l => chainSpec o fuel h' (k + 1) (l.intervalForWrite T)
            else .ok h'
      | _, _ => .error (.panic "index out of range")
    else .ok h

theorem chainLoop_nil (o : FOps) (fuel : Nat) (h : Handle) (k : Nat) : propagateChainLoop o fuel h k [] = .ok h := by
  cases fuel with
  | zero => rfl
  | succ f =>
    simp only [propagateChainLoop]
    have : ¬ (k < h.archs.length ∧ ([] : List Nat).length > 0) := by simp
    rw [if_neg this]

/-- **the work-list loop started with one time is the simple chain**: for a single written
    point ⟦propagateChain⟧ performs at most one consolidation step per level, each for the
    interval of the level that contains the previous one, and stops at the first level that
    stores nothing -/
theorem chainLoop_single (o : FOps) (fuel : Nat) :
    ∀ (h : Handle) (k : Nat) (T : Nat), propagateChainLoop o fuel h k [T] = chainSpec o fuel h k T := by
  induction fuel with
  | zero => intro h k T; rfl
  | succ fuel ih =>
    intro h k T
    simp only [propagateChainLoop, chainSpec]
    by_cases hk : k < h.archs.length
    · have hc : k < h.archs.length ∧ [T].length > 0 := ⟨hk, by simp⟩
      rw [if_pos hc, if_pos hk]
      unfold propagate
      have hl : ¬ ([T].length = 0) := by simp
      rw [if_neg hl]
      cases ha : h.archs[k]? with
      | none => simp
      | some a =>
        cases hah : h.archs[k - 1]? with
        | none => simp
        | some aHigh =>
          simp only
          cases hb : h.baseInterval a with
          | error e => simp
          | ok b =>
            simp only
            rw [propagateLoop_cons]
            cases hone : propagateOne o h a aHigh T with
            | error e => simp
            | ok r =>
              obtain ⟨h', stored⟩ := r
              simp only [propagateLoop]
              cases stored with
              | false =>
                simp only [nextAcc, Bool.false_eq_true, if_false, List.reverse_nil]
                exact chainLoop_nil o fuel h' (k + 1)
              | true =>
                simp only [nextAcc, if_true]
                cases hlow : h.archs[k + 1]? with
                | none =>
                  simp only [List.reverse_nil]
                  exact chainLoop_nil o fuel h' (k + 1)
                | some l =>
                  simp only [List.reverse_cons, List.reverse_nil, List.nil_append]
                  exact ih h' (k + 1) (l.intervalForWrite T)
    · have hc : ¬ (k < h.archs.length ∧ [T].length > 0) := fun hh => hk hh.1
      rw [if_neg hc, if_neg hk]

/-- ⟦propagateChain⟧ for one aligned point, as the simple chain -/
theorem propagateChain_single (o : FOps) (h : Handle) (k : Nat) (p : Point) :
    propagateChain o h k [p] =
      match h.archs[k + 1]? with
      | none => .ok h
      | some l => chainSpec o h.archs.length h (k + 1) (l.intervalForWrite p.t) := by
  unfold propagateChain
  dsimp only
  cases hl : h.archs[k + 1]? with
  | none => rfl
  | some l =>
    simp only
    have : timesToPropagate l [] (List.map (fun (x : Point) => x.t) [p]) = [l.intervalForWrite p.t] := by
      simp [timesToPropagate]
    rw [this]
    exact chainLoop_single o _ h (k + 1) _

end Wsp.C02S
