/-
  C15  Corrupt or hostile bytes are rejected with an error, never a crash.

  For every byte string each decoder returns `ok`, an error or `wantLarger n` — never a
  panic; a `wantLarger n` always names more than it was given; and the number of
  elements a decoder allocates (ghost `…Alloc`, mirroring where Go calls `make`) times
  the element's wire size never exceeds the input length.  `Open` on arbitrary bytes
  never panics and never reads or allocates beyond the file.
-/
import Wsp.Proofs.CodecLemmas
import Wsp.Model.Whisper
namespace Wsp.C15

/-- the result is not a panic -/
def NoPanic {α} (r : R α) : Prop := ∀ w, r ≠ .error (.panic w)

/-- a request for a larger buffer names more than it was given -/
def SaneWant {α} (r : R α) (given : Nat) : Prop := ∀ n : Int, r = .error (.wantLarger n) → (given : Int) < n

theorem decTimestamp_total (src : Bytes) : NoPanic (decTimestamp src) ∧ SaneWant (decTimestamp src) src.length := by
  unfold decTimestamp NoPanic SaneWant
  split <;> simp <;> omega

theorem decDuration_total (src : Bytes) : NoPanic (decDuration src) ∧ SaneWant (decDuration src) src.length := by
  unfold decDuration NoPanic SaneWant
  split <;> simp <;> omega

theorem decValue_total (src : Bytes) : NoPanic (decValue src) ∧ SaneWant (decValue src) src.length := by
  unfold decValue NoPanic SaneWant
  split <;> simp <;> omega

theorem decPoint_total (src : Bytes) : NoPanic (decPoint src) ∧ SaneWant (decPoint src) src.length := by
  unfold decPoint NoPanic SaneWant
  split <;> simp <;> omega

theorem decArch_total (src : Bytes) : NoPanic (decArch src) ∧ SaneWant (decArch src) src.length := by
  unfold decArch NoPanic SaneWant
  split <;> simp <;> omega

/-- the body loops never fail at all once the length was checked -/
theorem decValues_ok (n : Nat) (src : Bytes) (h : n * 8 ≤ src.length) :
    ∃ vs rest, decValues n src = .ok (vs, rest) ∧ vs.length = n := by
  induction n generalizing src with
  | zero => exact ⟨[], src, rfl, rfl⟩
  | succ n ih =>
    have h8 : ¬ src.length < 8 := by omega
    obtain ⟨vs, rest, hv, hl⟩ := ih (src.drop 8) (by simp; omega)
    exact ⟨de64 src :: vs, rest, by simp [decValues, decValue, h8, hv], by simp [hl]⟩

theorem decPointsBody_ok (n : Nat) (src : Bytes) (h : n * 12 ≤ src.length) :
    ∃ ps rest, decPointsBody n src = .ok (ps, rest) ∧ ps.length = n := by
  induction n generalizing src with
  | zero => exact ⟨[], src, rfl, rfl⟩
  | succ n ih =>
    have h12 : ¬ src.length < 12 := by omega
    obtain ⟨ps, rest, hv, hl⟩ := ih (src.drop 12) (by simp; omega)
    exact ⟨⟨de32 src, de64 (src.drop 4)⟩ :: ps, rest, by simp [decPointsBody, decPoint, h12, hv], by simp [hl]⟩

theorem decArchs_ok (n : Nat) (src : Bytes) (h : n * 12 ≤ src.length) :
    ∃ as rest, decArchs n src = .ok (as, rest) ∧ as.length = n := by
  induction n generalizing src with
  | zero => exact ⟨[], src, rfl, rfl⟩
  | succ n ih =>
    have h12 : ¬ src.length < 12 := by omega
    obtain ⟨as, rest, hv, hl⟩ := ih (src.drop 12) (by simp; omega)
    exact ⟨⟨de32 src, i32 (de32 (src.drop 4)), de32 (src.drop 8)⟩ :: as, rest,
      by simp [decArchs, decArch, h12, hv], by simp [hl]⟩

theorem decPoints_total (src : Bytes) : NoPanic (decPoints src) ∧ SaneWant (decPoints src) src.length := by
  unfold decPoints NoPanic SaneWant
  by_cases h8 : src.length < 8
  · simp [h8]; omega
  · simp only [h8, if_false]
    by_cases hc : de64Nat src > maxPointCount
    · simp [hc]
    · simp only [hc, if_false]
      by_cases hw : (src.drop 8).length < de64Nat src * 12
      · simp only [hw, if_true]
        simp at hw ⊢
        omega
      · simp only [hw, if_false]
        obtain ⟨ps, rest, hv, _⟩ := decPointsBody_ok (de64Nat src) (src.drop 8) (by omega)
        simp [hv]

theorem decSeries_total (src : Bytes) : NoPanic (decSeries src) ∧ SaneWant (decSeries src) src.length := by
  unfold decSeries NoPanic SaneWant
  by_cases h12 : src.length < 12
  · simp [h12]; omega
  · simp only [h12, if_false]
    by_cases h0 : i32 (de32 (src.drop 8)) = 0 ∧ de32 src = de32 (src.drop 4)
    · simp [h0]
    · simp only [h0, if_false]
      by_cases h1 : i32 (de32 (src.drop 8)) ≤ 0
      · simp [h1]
      · simp only [h1, if_false]
        by_cases h2 : de32 (src.drop 4) < de32 src
        · simp [h2]
        · simp only [h2, if_false]
          generalize hn : (Int.tdiv ((de32 (src.drop 4) : Int) - (de32 src : Int)) (i32 (de32 (src.drop 8)))).toNat = n
          by_cases hw : (src.drop 12).length < n * 8
          · simp only [hw, if_true]
            simp at hw ⊢
            omega
          · simp only [hw, if_false]
            obtain ⟨vs, rest, hv, _⟩ := decValues_ok n (src.drop 12) (by omega)
            simp [hv]

theorem decHeader_total (o : FOps) (src : Bytes) :
    NoPanic (decHeader o src) ∧ SaneWant (decHeader o src) src.length := by
  unfold decHeader NoPanic SaneWant
  by_cases h16 : src.length < 16
  · simp [h16]; omega
  · simp only [h16, if_false]
    by_cases ha : (!validAgg (de32 src)) = true
    · simp [ha]
    · simp only [ha, if_false]
      by_cases hx : (!o.xffValid (UInt32.ofNat (de32 (src.drop 8)))) = true
      · simp [hx]
      · simp only [hx, if_false]
        generalize hn : de32 (src.drop 12) = n
        by_cases hw : (src.drop 16).length < n * 12
        · simp only [hw, if_true]
          simp at hw ⊢
          omega
        · simp only [hw, if_false]
          obtain ⟨as, rest, hv, _⟩ := decArchs_ok n (src.drop 16) (by omega)
          simp only [hv]
          cases validateArchs as <;> simp

/-! ### allocation is bounded by the input (no count field can make a decoder allocate
    more than the bytes it was handed) -/

theorem decPoints_alloc_bounded (src : Bytes) : decPointsAlloc src * 12 ≤ src.length := by
  unfold decPointsAlloc
  dsimp only
  split
  · omega
  · split
    · omega
    · split
      · omega
      · rename_i h; simp at h; omega

theorem decSeries_alloc_bounded (src : Bytes) : decSeriesAlloc src * 8 ≤ src.length := by
  unfold decSeriesAlloc
  dsimp only
  split
  · omega
  · split
    · omega
    · split
      · omega
      · split
        · omega
        · split
          · omega
          · rename_i h; simp at h; omega

theorem decHeader_alloc_bounded (o : FOps) (src : Bytes) : decHeaderAlloc o src * 12 ≤ src.length := by
  unfold decHeaderAlloc
  dsimp only
  split
  · omega
  · split
    · omega
    · split
      · omega
      · split
        · omega
        · rename_i h; simp at h; omega

/-- the ghost allocation is what the decoder really produces when it succeeds -/
theorem decPoints_alloc_exact (src : Bytes) (ps : List Point) (rest : Bytes)
    (h : decPoints src = .ok (ps, rest)) : ps.length = decPointsAlloc src := by
  unfold decPoints at h
  unfold decPointsAlloc
  by_cases h8 : src.length < 8
  · simp [h8] at h
  · simp only [h8, if_false] at h ⊢
    by_cases hc : de64Nat src > maxPointCount
    · simp [hc] at h
    · simp only [hc, if_false] at h ⊢
      by_cases hw : (src.drop 8).length < de64Nat src * 12
      · simp only [hw, if_true] at h; simp at h
      · simp only [hw, if_false] at h ⊢
        obtain ⟨ps', rest', hv, hl⟩ := decPointsBody_ok (de64Nat src) (src.drop 8) (by omega)
        rw [hv] at h
        injection h with h
        injection h with h1 h2
        rw [← h1]; exact hl

/-! ### Open on arbitrary bytes -/

theorem readAt_noPanic (view : Bytes) (off len : Nat) : NoPanic (readAt view off len) := by
  unfold readAt NoPanic; split <;> simp

theorem readHeader_total (o : FOps) (view : Bytes) (ps : Nat) : NoPanic (readHeader o view ps) := by
  intro w
  unfold readHeader
  simp only [bind, Except.bind]
  have r1 := readAt_noPanic view 0 16
  cases h1 : readAt view 0 16 with
  | error e => simp only []; intro hc; injection hc with hc; exact r1 w (by rw [h1, hc])
  | ok b =>
    simp only []
    have hd := (decHeader_total o b).1
    cases h2 : decHeader o b with
    | ok v => simp [pure, Except.pure]
    | error e =>
      cases e with
      | panic w' => exact absurd h2 (hd w')
      | err k => simp [throw, throwThe, MonadExceptOf.throw]
      | wantLarger n =>
        simp only []
        split
        · simp [throw, throwThe, MonadExceptOf.throw]
        · have r2 := readAt_noPanic view 0 n.toNat
          cases h3 : readAt view 0 n.toNat with
          | error e => simp only []; intro hc; injection hc with hc; exact r2 w (by rw [h3, hc])
          | ok b2 =>
            simp only []
            have hd2 := (decHeader_total o (b2 ++ List.replicate ((if n.toNat > ps then n.toNat else ps) - n.toNat) 0)).1
            cases h4 : decHeader o (b2 ++ List.replicate ((if n.toNat > ps then n.toNat else ps) - n.toNat) 0) with
            | ok v => simp [pure, Except.pure]
            | error e =>
              simp only []
              intro hc; injection hc with hc
              exact hd2 w (by rw [h4, hc])

/-- `Open` never panics, whatever the file holds. -/
theorem open_total (o : FOps) (bytes : Bytes) (ps : Nat) : NoPanic (openBytes o bytes ps) := by
  intro w
  unfold openBytes
  simp only [bind, Except.bind]
  have r := readHeader_total o bytes ps
  cases h : readHeader o bytes ps with
  | error e => simp only []; intro hc; injection hc with hc; exact r w (by rw [h, hc])
  | ok hd =>
    simp only []
    split <;> simp [throw, throwThe, MonadExceptOf.throw, pure, Except.pure]

/-- every read `Open` performs lies inside the file -/
theorem open_never_reads_past_file (view : Bytes) (off len : Nat) (b : Bytes)
    (h : readAt view off len = .ok b) : off + len ≤ view.length := by
  unfold readAt at h; split at h <;> simp_all

/-- a file that opens is at least as long as its header says -/
theorem opened_file_is_long_enough (o : FOps) (bytes : Bytes) (ps : Nat) (h : Handle)
    (ho : openBytes o bytes ps = .ok h) : h.hdr.expectedFileSize ≤ h.view.length ∧ h.view = bytes := by
  unfold openBytes at ho
  simp only [bind, Except.bind] at ho
  cases hr : readHeader o bytes ps with
  | error e => simp [hr] at ho
  | ok hd =>
    simp only [hr] at ho
    split at ho
    · simp [throw, throwThe, MonadExceptOf.throw] at ho
    · simp [pure, Except.pure] at ho
      subst ho
      simp; omega

end Wsp.C15
