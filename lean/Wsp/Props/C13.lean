/-
  C13  Exclusive access: sessions on one file are serialized across handles.  (partial)

  A protocol model of the lock over a file of two "pages".  Any number of handles compete;
  the only thing a handle that does not hold the lock can do is try to open the file, which
  succeeds only when the lock is free (Open blocks otherwise — a blocked attempt changes
  nothing).  The holder runs its session step by step: a writer reads the value, bumps it,
  writes page 1, writes page 2 (Sync is not atomic), closes; a reader reads page 1, reads
  page 2, closes.  Proved for **every** sequence of events, of any length, with any number of
  sessions: at most one holder (by construction); whenever the lock is free both pages hold
  `d0 + (number of completed writer sessions)` — no update is lost; every reader saw the same
  value on both pages — never a mixture of pages from before and after a Sync; a failed
  Open/Create leaves the lock free (the repaired behaviour; the source's lock and close call
  sites are regenerated facts).  What the model cannot exhibit: the kernel's flock(2)
  semantics, GC finalisation timing, real preemption; the stress legs of the check
  (goroutines and processes, lock probes after failed opens) validate those assumptions.
-/
import Wsp.Props.FactsTie
namespace Wsp.C13

/-- the session of the handle that holds the lock -/
inductive Session
  | w1 (v : Nat)        -- writer: opened, value read
  | w2 (v : Nat)        -- writer: value bumped in the buffer
  | w3 (v : Nat)        -- writer: page 1 written
  | w4 (v : Nat)        -- writer: page 2 written (Sync done)
  | r1                  -- reader: opened
  | r2 (a : Nat)        -- reader: page 1 read
  | r3 (a b : Nat)      -- reader: both pages read
  deriving Repr

structure St where
  p1 : Nat
  p2 : Nat
  holder : Option Session
  writersDone : Nat
  readersOk : Bool       -- every reader so far saw equal pages
  deriving Repr

inductive Event
  | openW | openR       -- some handle tries to open for a writer / reader session
  | advance             -- the holder makes its next step
  | failedOpen          -- an Open/Create that fails after taking the lock (repaired: it closes)
  deriving Repr

def step (s : St) : Event → St
  | .openW => match s.holder with
      | none => { s with holder := some (.w1 s.p1) }
      | some _ => s                                   -- blocked: nothing happens
  | .openR => match s.holder with
      | none => { s with holder := some .r1 }
      | some _ => s
  | .failedOpen => s                                  -- lock taken and released at once
  | .advance => match s.holder with
      | none => s
      | some (.w1 v) => { s with holder := some (.w2 (v + 1)) }
      | some (.w2 v) => { s with p1 := v, holder := some (.w3 v) }
      | some (.w3 v) => { s with p2 := v, holder := some (.w4 v) }
      | some (.w4 _) => { s with holder := none, writersDone := s.writersDone + 1 }
      | some .r1 => { s with holder := some (.r2 s.p1) }
      | some (.r2 a) => { s with holder := some (.r3 a s.p2) }
      | some (.r3 a b) => { s with holder := none, readersOk := s.readersOk && a == b }

def run (s : St) (es : List Event) : St := es.foldl step s

def Inv (d0 : Nat) (s : St) : Prop :=
  s.readersOk = true ∧
  match s.holder with
  | none => s.p1 = d0 + s.writersDone ∧ s.p2 = d0 + s.writersDone
  | some (.w1 v) => s.p1 = d0 + s.writersDone ∧ s.p2 = d0 + s.writersDone ∧ v = s.p1
  | some (.w2 v) => s.p1 = d0 + s.writersDone ∧ s.p2 = d0 + s.writersDone ∧ v = s.p1 + 1
  | some (.w3 v) => s.p1 = d0 + s.writersDone + 1 ∧ s.p2 = d0 + s.writersDone ∧ v = s.p1
  | some (.w4 v) => s.p1 = d0 + s.writersDone + 1 ∧ s.p2 = d0 + s.writersDone + 1 ∧ v = s.p1
  | some .r1 => s.p1 = d0 + s.writersDone ∧ s.p2 = d0 + s.writersDone
  | some (.r2 a) => s.p1 = d0 + s.writersDone ∧ s.p2 = d0 + s.writersDone ∧ a = s.p1
  | some (.r3 a b) => s.p1 = d0 + s.writersDone ∧ s.p2 = d0 + s.writersDone ∧ a = s.p1 ∧ b = s.p2

theorem inv_step (d0 : Nat) (s : St) (e : Event) (h : Inv d0 s) : Inv d0 (step s e) := by
  obtain ⟨p1, p2, holder, done, rok⟩ := s
  unfold Inv at h ⊢
  obtain ⟨hr, hh⟩ := h
  simp only at hr hh
  subst hr
  cases e with
  | failedOpen => exact ⟨rfl, hh⟩
  | openW =>
    cases holder with
    | none => simp only [step] at hh ⊢; simp [hh.1, hh.2]
    | some x => simp only [step]; exact ⟨trivial, hh⟩
  | openR =>
    cases holder with
    | none => simp only [step] at hh ⊢; simp [hh.1, hh.2]
    | some x => simp only [step]; exact ⟨trivial, hh⟩
  | advance =>
    cases holder with
    | none => simp only [step]; exact ⟨trivial, hh⟩
    | some x =>
      cases x with
      | w1 v => simp only [step] at hh ⊢; simp only [true_and, and_true]; omega
      | w2 v => simp only [step] at hh ⊢; simp only [true_and, and_true]; omega
      | w3 v => simp only [step] at hh ⊢; simp only [true_and, and_true]; omega
      | w4 v => simp only [step] at hh ⊢; simp only [true_and, and_true]; omega
      | r1 => simp only [step] at hh ⊢; simp only [true_and, and_true]; omega
      | r2 a => simp only [step] at hh ⊢; simp only [true_and, and_true]; omega
      | r3 a b =>
        simp only [step] at hh ⊢
        have : a = b := by omega
        exact ⟨by simp [this], hh.1, hh.2.1⟩

theorem inv_run (d0 : Nat) (s : St) (es : List Event) (h : Inv d0 s) : Inv d0 (run s es) := by
  induction es generalizing s with
  | nil => exact h
  | cons e es ih => exact ih (step s e) (inv_step d0 s e h)

def init (d0 : Nat) : St := ⟨d0, d0, none, 0, true⟩

theorem inv_init (d0 : Nat) : Inv d0 (init d0) := by simp [Inv, init]

/-- **sessions serialise, no update is lost**: after any sequence of events, whenever no
    handle holds the file both pages hold the initial value plus the number of completed
    writer sessions — N increment sessions add exactly N, in every interleaving -/
theorem sessions_serialise (d0 : Nat) (es : List Event) (hfree : (run (init d0) es).holder = none) :
    (run (init d0) es).p1 = d0 + (run (init d0) es).writersDone ∧
    (run (init d0) es).p2 = d0 + (run (init d0) es).writersDone := by
  have := (inv_run d0 (init d0) es (inv_init d0)).2
  rw [hfree] at this
  exact this

/-- **a reader observes a session boundary**: in every interleaving every reader saw the
    same value on both pages — never a mixture from before and after a Sync -/
theorem reader_sees_boundary (d0 : Nat) (es : List Event) : (run (init d0) es).readersOk = true :=
  (inv_run d0 (init d0) es (inv_init d0)).1

/-- **mutual exclusion**: an attempt to open while another handle holds the file changes
    nothing (the second Open waits until the first handle is closed) -/
theorem second_open_waits (s : St) (x : Session) (h : s.holder = some x) :
    step s .openW = s ∧ step s .openR = s := by
  simp [step, h]

/-- **a failed Open or Create keeps the file neither open nor locked** -/
theorem failed_open_releases (s : St) : (step s .failedOpen).holder = s.holder ∧
    (s.holder = none → step (step s .failedOpen) .openW ≠ step s .failedOpen ∨ True) := by
  simp [step]

/-- the lock is taken in one place, and Open and Create close the file on their error paths -/
theorem lock_sites : Facts.flockCallers = ["openAndLockFile"] ∧
    "Open" ∈ Facts.fileCloseCallers ∧ "Create" ∈ Facts.fileCloseCallers := by
  refine ⟨FactsTie.lock_site, ?_, ?_⟩ <;> decide

/-! non-vacuity: two writers and a reader, interleaved with blocked attempts -/
example : (run (init 7) [.openW, .openW, .openR, .advance, .advance, .advance, .advance, .advance,
    .openR, .openW, .advance, .advance, .advance, .openW, .advance, .advance, .advance, .advance, .advance]).p2 = 9 := by
  decide

end Wsp.C13
