/-
  C12 composed with the command: `view-raw` through the server — the server sends the header
  and the raw slots of every archive, the client decodes them, filters by the requested range
  and sorts — shows exactly the records the local `view-raw` shows (all archives selected).
-/
import Wsp.Props.C12View
namespace Wsp.C12
open Wsp.Handle Wsp.C14 Wsp.Total Wsp.C01 Wsp.Cmd Wsp.Inv Wsp.C08 Wsp.C18

/-- what ⟦ViewRawCommand.execute⟧ does with the header and the raw lists it got -/
def rawOut (w : Window) (sort : Bool) (hdr : Header) (pl : List (List Point)) : Outcome × Option Header × List Rec :=
  let pl := (pl.zip hdr.archives).map fun (ps, a) => filterRaw a w.from_ w.until' ps
  let pl := if sort then pl.map sortByTime else pl
  (.ok, some hdr, recsOf pl)

def rawRemoteOut (w : Window) (sort : Bool) : R (Header × List (List Point)) → Outcome × Option Header × List Rec
  | .error e => (.ofFault e, none, [])
  | .ok (h', pl') => rawOut w sort h' pl'

/-- ⟦ViewRawCommand.execute⟧ with a server URL as the source, all archives -/
def viewRawRemote (o : FOps) (t : Tree) (path : String) (w : Window) (sort : Bool) : Outcome × Option Header × List Rec :=
  match t.get path with
  | none => (.err .notExist, none, [])
  | some b =>
    match openBytes o b with
    | .error _ => (.err .invalid, none, [])
    | .ok h =>
      match rawAll h 0 h.archs with
      | .error e => (.ofFault e, none, [])
      | .ok pl => rawRemoteOut w sort (decodeRaw o (encodeRaw h.hdr pl))

theorem slot_time_lt (h : Handle) (a : Arch) (i : Nat) : (slotAt h a i).t < 4294967296 := by
  unfold slotAt
  exact de32_lt _

/-- **view-raw through the server = view-raw of the directory** (all archives) -/
theorem viewRaw_remote_eq_local (o : FOps) (t : Tree) (path : String) (b : Bytes) (h : Handle) (w : Window) (sort : Bool)
    (A : Nat → Arch)
    (hget : t.get path = some b) (hopen : openBytes o b = .ok h) (al : AllState h)
    (hall : w.archiveID = -1)
    (harch : ∀ k, k < h.archs.length → h.archs[k]? = some (A k)) :
    viewRawRemote o t path w sort = viewRaw o t path w sort := by
  have g := open_good o b _ h hopen
  have hra := rawAll_reads A h al h.archs 0 (by simp) harch
  simp only [Nat.zero_add] at hra
  generalize hP : ((List.range h.archs.length).map fun j => (List.range (A j).n).map (slotAt h (A j))) = P at hra
  have wf := (opened_reopenable o b 4096 h hopen).wf
  have hlen : P.length = h.hdr.archives.length := by
    rw [← hP, List.length_map, List.length_range]; rfl
  have hwf : ∀ ps ∈ P, (∀ p ∈ ps, p.t < 4294967296) ∧ ps.length ≤ maxPointCount := by
    intro ps hps
    rw [← hP] at hps
    simp only [List.mem_map, List.mem_range] at hps
    obtain ⟨j, hj, e⟩ := hps
    rw [← e]
    refine ⟨?_, ?_⟩
    · intro p hp
      simp only [List.mem_map, List.mem_range] at hp
      obtain ⟨i, _, e2⟩ := hp
      rw [← e2]; exact slot_time_lt h (A j) i
    · simp only [List.length_map, List.length_range]
      have pl := g.placed (A j) (mem_of_getElem? (harch j hj))
      have := pl.hi
      have := pl.fits
      unfold maxPointCount
      omega
  have hdec := view_raw_transparent o h.hdr wf P hlen hwf
  -- the remote side
  have hrem : viewRawRemote o t path w sort = rawOut w sort h.hdr P := by
    unfold viewRawRemote
    rw [hget]
    simp only
    rw [hopen]
    simp only
    rw [hra]
    show rawRemoteOut w sort (decodeRaw o (encodeRaw h.hdr P)) = _
    rw [hdec]
    rfl
  -- the local side
  have hloc : viewRaw o t path w sort = rawOut w sort h.hdr P := by
    unfold viewRaw
    rw [hget]
    simp only
    rw [hopen]
    simp only
    rw [if_pos hall, hra]
    rfl
  rw [hrem, hloc]

end Wsp.C12
