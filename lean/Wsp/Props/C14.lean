/-
  C14  Binary codec: encode/decode round-trips and frames exactly.

  Every wire type: `decode (encode x ++ rest) = ok (x, rest)` for arbitrary trailing
  bytes (so concatenated messages decode in sequence), and every proper prefix of an
  encoding makes the decoder ask for a larger buffer, naming a size larger than what
  it was given and no larger than the complete message.
  Values are raw 64-bit patterns, so NaN payloads, infinities and signed zeros are
  covered exactly.  Well-formedness hypotheses are the Go types' ranges plus, for
  series, what `C04.fetch_result_wf` shows of every fetch result.
-/
import Wsp.Proofs.CodecLemmas
namespace Wsp.C14

/-! ### round trips -/

theorem roundtrip_timestamp (t : Nat) (h : t < 4294967296) (rest : Bytes) :
    decTimestamp (encTimestamp t ++ rest) = .ok (t, rest) := decTimestamp_enc t h rest

theorem roundtrip_duration (d : Int) (h1 : -2147483648 ≤ d) (h2 : d < 2147483648) (rest : Bytes) :
    decDuration (encDuration d ++ rest) = .ok (d, rest) := decDuration_enc d h1 h2 rest

/-- every float64 bit pattern, NaN payloads included -/
theorem roundtrip_value (v : Val) (rest : Bytes) :
    decValue (encValue v ++ rest) = .ok (v, rest) := decValue_enc v rest

theorem roundtrip_point (p : Point) (h : p.t < 4294967296) (rest : Bytes) :
    decPoint (encPoint p ++ rest) = .ok (p, rest) := decPoint_enc p h rest

theorem roundtrip_points (ps : List Point) (h : ∀ p ∈ ps, p.t < 4294967296)
    (hl : ps.length ≤ maxPointCount) (rest : Bytes) :
    decPoints (encPoints ps ++ rest) = .ok (ps, rest) := by
  unfold decPoints encPoints
  have hlen : ps.length < 18446744073709551616 := by unfold maxPointCount at hl; omega
  have h8 : ¬ (be64Nat ps.length ++ (encPointsBody ps ++ rest)).length < 8 := by simp
  simp only [List.append_assoc, h8, if_false, de64Nat_be64Nat_append _ hlen]
  have hc : ¬ ps.length > maxPointCount := by omega
  have hd : List.drop 8 (be64Nat ps.length ++ (encPointsBody ps ++ rest)) = encPointsBody ps ++ rest := by
    simp [be64Nat, be32]
  simp only [hc, if_false, hd]
  have hw : ¬ (encPointsBody ps ++ rest).length < ps.length * 12 := by simp; omega
  simp only [hw, if_false, decPointsBody_enc ps h rest]

theorem roundtrip_series (s : Series) (wf : SeriesWF s) (rest : Bytes) :
    decSeries (encSeries (some s) ++ rest) = .ok (s, rest) := decSeries_enc s wf rest

/-- the absent (nil) series has a wire form and decodes to the empty series -/
theorem roundtrip_absent_series (rest : Bytes) :
    decSeries (encSeries none ++ rest) = .ok (⟨0, 0, 0, []⟩, rest) := decSeries_absent rest

structure ArchWF (a : Arch) : Prop where
  off : a.offset < 4294967296
  s1 : -2147483648 ≤ a.step
  s2 : a.step < 2147483648
  n : a.n < 4294967296

theorem roundtrip_arch (a : Arch) (wf : ArchWF a) (rest : Bytes) :
    decArch (encArch a ++ rest) = .ok (a, rest) := by
  obtain ⟨ho, h1, h2, hn⟩ := wf
  unfold decArch
  have hl : ¬ (encArch a ++ rest).length < 12 := by simp [encArch, encDuration]; omega
  simp only [hl, if_false]
  simp only [encArch, encDuration, List.append_assoc, de32_be32_append _ ho, drop4_be32_append,
    de32_be32_append _ (u32_lt a.step), drop8_be32_be32, de32_be32_append _ hn, drop12_be32x3,
    i32_u32 a.step h1 h2]

theorem encArchs_length (as : List Arch) : (encArchs as).length = 12 * as.length := by
  induction as with
  | nil => simp [encArchs]
  | cons a as ih => simp [encArchs, encArch, encDuration, ih]; omega

theorem roundtrip_archs (as : List Arch) (wf : ∀ a ∈ as, ArchWF a) (rest : Bytes) :
    decArchs as.length (encArchs as ++ rest) = .ok (as, rest) := by
  induction as with
  | nil => simp [decArchs, encArchs]
  | cons a as ih =>
    have ha := wf a (by simp)
    have ih' := ih (fun b hb => wf b (by simp [hb]))
    simp [decArchs, encArchs, List.append_assoc, roundtrip_arch a ha, ih']

/-- what `NewHeader`, `Header.TakeFrom` and `Open` produce (`C07.accepted_is_wf`) -/
structure HeaderWF (o : FOps) (h : Header) : Prop where
  agg : validAgg h.agg = true
  xff : o.xffValid h.xff = true
  mr1 : -2147483648 ≤ h.maxRet
  mr2 : h.maxRet < 2147483648
  count : h.count = h.archives.length
  count_lt : h.count < 4294967296
  archs : ∀ a ∈ h.archives, ArchWF a
  valid : validateArchs h.archives = true

theorem roundtrip_header (o : FOps) (h : Header) (wf : HeaderWF o h) (rest : Bytes) :
    decHeader o (encHeader h ++ rest) = .ok (h, rest) := by
  obtain ⟨hagg, hxff, hm1, hm2, hc, hcl, harch, hval⟩ := wf
  have hagg' : h.agg < 4294967296 := by
    simp [validAgg] at hagg; omega
  unfold decHeader
  have hl : ¬ (encHeader h ++ rest).length < 16 := by simp [encHeader, encDuration]; omega
  simp only [hl, if_false]
  have hx : UInt32.ofNat h.xff.toNat = h.xff := by simp
  simp only [encHeader, encDuration, List.append_assoc, u32_of_nat _ hagg', de32_be32_append _ hagg',
    drop4_be32_append, de32_be32_append _ (u32_lt h.maxRet), drop8_be32_be32,
    de32_be32_append _ h.xff.toNat_lt, drop12_be32x3, de32_be32_append _ hcl, drop16_be32x4,
    i32_u32 h.maxRet hm1 hm2, hx, hagg, hxff]
  have hw : ¬ (encArchs h.archives ++ rest).length < h.count * 12 := by
    rw [List.length_append, encArchs_length, hc]; omega
  simp only [Bool.not_true, Bool.false_eq_true, if_false, hw]
  rw [hc, roundtrip_archs h.archives harch rest]
  simp only [hval, Bool.not_true, Bool.false_eq_true, if_false]
  cases h; simp_all

/-! ### concatenated messages decode in sequence -/

/-- a series followed by a point list: the first decoder returns the second message
    untouched as its remainder, and that remainder decodes to the second object. -/
theorem sequence_series_points (s : Series) (wf : SeriesWF s) (ps : List Point)
    (h : ∀ p ∈ ps, p.t < 4294967296) (hl : ps.length ≤ maxPointCount) (rest : Bytes) :
    decSeries (encSeries (some s) ++ (encPoints ps ++ rest)) = .ok (s, encPoints ps ++ rest) ∧
    decPoints (encPoints ps ++ rest) = .ok (ps, rest) :=
  ⟨roundtrip_series s wf _, roundtrip_points ps h hl rest⟩

/-- a header followed by a series (the `/view` response) decodes in order -/
theorem sequence_header_series (o : FOps) (h : Header) (wf : HeaderWF o h) (s : Series) (swf : SeriesWF s)
    (rest : Bytes) :
    decHeader o (encHeader h ++ (encSeries (some s) ++ rest)) = .ok (h, encSeries (some s) ++ rest) ∧
    decSeries (encSeries (some s) ++ rest) = .ok (s, rest) :=
  ⟨roundtrip_header o h wf _, roundtrip_series s swf rest⟩

/-! ### truncated encodings: the decoder asks for more, sanely -/

/-- `dec` asks for a larger buffer of size `n` with `given < n ≤ full`. -/
def WantsMore {α} (r : R α) (given full : Nat) : Prop :=
  ∃ n : Nat, r = .error (.wantLarger (n : Int)) ∧ given < n ∧ n ≤ full

theorem de32_drop_take (l : Bytes) (j k : Nat) (h : j + 4 ≤ k) :
    de32 ((l.take k).drop j) = de32 (l.drop j) := by
  rw [List.drop_take]; exact de32_take _ _ (by omega)

theorem prefix_timestamp (t : Nat) (k : Nat) (hk : k < (encTimestamp t).length) :
    WantsMore (decTimestamp ((encTimestamp t).take k)) k (encTimestamp t).length := by
  have : (encTimestamp t).length = 4 := by simp [encTimestamp]
  refine ⟨4, ?_, by omega, by omega⟩
  simp [decTimestamp]; omega

theorem prefix_duration (d : Int) (k : Nat) (hk : k < (encDuration d).length) :
    WantsMore (decDuration ((encDuration d).take k)) k (encDuration d).length := by
  have : (encDuration d).length = 4 := by simp [encDuration]
  refine ⟨4, ?_, by omega, by omega⟩
  simp [decDuration]; omega

theorem prefix_value (v : Val) (k : Nat) (hk : k < (encValue v).length) :
    WantsMore (decValue ((encValue v).take k)) k (encValue v).length := by
  have : (encValue v).length = 8 := by simp [encValue]
  refine ⟨8, ?_, by omega, by omega⟩
  simp [decValue]; omega

theorem prefix_point (p : Point) (k : Nat) (hk : k < (encPoint p).length) :
    WantsMore (decPoint ((encPoint p).take k)) k (encPoint p).length := by
  have : (encPoint p).length = 12 := by simp
  refine ⟨12, ?_, by omega, by omega⟩
  simp [decPoint]; omega

theorem prefix_series (s : Series) (wf : SeriesWF s) (k : Nat) (hk : k < (encSeries (some s)).length) :
    WantsMore (decSeries ((encSeries (some s)).take k)) k (encSeries (some s)).length := by
  obtain ⟨hf, hu, hle, hsp, hsl, hlen⟩ := wf
  have hL := encSeries_length s
  by_cases h12 : k < 12
  · refine ⟨12, ?_, by omega, by omega⟩
    simp [decSeries]; omega
  · refine ⟨12 + s.values.length * 8, ?_, by omega, by omega⟩
    unfold decSeries
    have hl : ¬ ((encSeries (some s)).take k).length < 12 := by simp; omega
    simp only [hl, if_false]
    have e0 : de32 ((encSeries (some s)).take k) = s.from_ := by
      rw [de32_take _ _ (by omega)]
      simp only [encSeries, encTimestamp, List.append_assoc, de32_be32_append _ hf]
    have e1 : de32 (((encSeries (some s)).take k).drop 4) = s.until_ := by
      rw [de32_drop_take _ _ _ (by omega)]
      simp only [encSeries, encTimestamp, List.append_assoc, drop4_be32_append, de32_be32_append _ hu]
    have e2 : de32 (((encSeries (some s)).take k).drop 8) = u32 s.step := by
      rw [de32_drop_take _ _ _ (by omega)]
      simp only [encSeries, encTimestamp, encDuration, List.append_assoc, drop8_be32_be32,
        de32_be32_append _ (u32_lt s.step)]
    simp only [e0, e1, e2, i32_u32 s.step (by omega) hsl]
    have h0 : ¬ (s.step = 0 ∧ s.from_ = s.until_) := by omega
    have h1 : ¬ s.step ≤ 0 := by omega
    have h2 : ¬ s.until_ < s.from_ := by omega
    simp only [h0, h1, h2, if_false, ← hlen]
    have h3 : (List.drop 12 (List.take k (encSeries (some s)))).length < s.values.length * 8 := by
      simp; omega
    simp only [h3, if_true]
    simp

theorem prefix_absent_series (k : Nat) (hk : k < (encSeries none).length) :
    WantsMore (decSeries ((encSeries none).take k)) k (encSeries none).length := by
  have : (encSeries none).length = 12 := by simp [encSeries, encTimestamp, encDuration]
  refine ⟨12, ?_, by omega, by omega⟩
  simp [decSeries]; omega

theorem encPoints_length (ps : List Point) : (encPoints ps).length = 8 + 12 * ps.length := by
  simp [encPoints]

theorem prefix_points (ps : List Point) (hl : ps.length ≤ maxPointCount) (k : Nat)
    (hk : k < (encPoints ps).length) :
    WantsMore (decPoints ((encPoints ps).take k)) k (encPoints ps).length := by
  have hL := encPoints_length ps
  by_cases h8 : k < 8
  · refine ⟨8, ?_, by omega, by omega⟩
    simp [decPoints]; omega
  · refine ⟨8 + ps.length * 12, ?_, by omega, by omega⟩
    unfold decPoints
    have hl8 : ¬ ((encPoints ps).take k).length < 8 := by simp; omega
    simp only [hl8, if_false]
    have hlen : ps.length < 18446744073709551616 := by unfold maxPointCount at hl; omega
    have e0 : de64Nat ((encPoints ps).take k) = ps.length := by
      unfold de64Nat
      rw [de32_take _ _ (by omega), de32_drop_take _ _ _ (by omega)]
      have := de64Nat_be64Nat_append ps.length hlen (encPointsBody ps)
      simpa [de64Nat, encPoints] using this
    have hc : ¬ ps.length > maxPointCount := by omega
    simp only [e0, hc, if_false]
    have h3 : (List.drop 8 (List.take k (encPoints ps))).length < ps.length * 12 := by
      simp; omega
    simp only [h3, if_true]
    simp

theorem encHeader_length (h : Header) : (encHeader h).length = 16 + 12 * h.archives.length := by
  simp [encHeader, encDuration, encArchs_length]; omega

theorem prefix_header (o : FOps) (h : Header) (wf : HeaderWF o h) (k : Nat)
    (hk : k < (encHeader h).length) :
    WantsMore (decHeader o ((encHeader h).take k)) k (encHeader h).length := by
  obtain ⟨hagg, hxff, hm1, hm2, hc, hcl, harch, hval⟩ := wf
  have hL := encHeader_length h
  have hagg' : h.agg < 4294967296 := by
    simp [validAgg] at hagg; omega
  by_cases h16 : k < 16
  · refine ⟨16, ?_, by omega, by omega⟩
    simp [decHeader]; omega
  · refine ⟨16 + h.count * 12, ?_, by omega, by omega⟩
    unfold decHeader
    have hl : ¬ ((encHeader h).take k).length < 16 := by simp; omega
    simp only [hl, if_false]
    have e0 : de32 ((encHeader h).take k) = h.agg := by
      rw [de32_take _ _ (by omega)]
      simp only [encHeader, List.append_assoc, u32_of_nat _ hagg', de32_be32_append _ hagg']
    have e2 : de32 (((encHeader h).take k).drop 8) = h.xff.toNat := by
      rw [de32_drop_take _ _ _ (by omega)]
      simp only [encHeader, encDuration, List.append_assoc, drop8_be32_be32,
        de32_be32_append _ h.xff.toNat_lt]
    have e3 : de32 (((encHeader h).take k).drop 12) = h.count := by
      rw [de32_drop_take _ _ _ (by omega)]
      simp only [encHeader, encDuration, List.append_assoc, drop12_be32x3, de32_be32_append _ hcl]
    have hx : UInt32.ofNat h.xff.toNat = h.xff := by simp
    simp only [e0, e2, e3, hx, hagg, hxff, Bool.not_true, Bool.false_eq_true, if_false]
    have h3 : (List.drop 16 (List.take k (encHeader h))).length < h.count * 12 := by
      simp; omega
    simp only [h3, if_true]
    simp

/-- retrying with the size asked for terminates: the named size strictly exceeds what
    was given and never exceeds the full message, so at most `full - given` retries. -/
theorem retry_terminates {α} (dec : Bytes → R α) (full : Bytes)
    (hp : ∀ k, k < full.length → WantsMore (dec (full.take k)) k full.length) :
    ∀ k, k < full.length → ∃ n : Nat, dec (full.take k) = .error (.wantLarger n) ∧
      full.length - n < full.length - k := by
  intro k hk
  obtain ⟨n, h1, h2, h3⟩ := hp k hk
  exact ⟨n, h1, by omega⟩

/-! ### non-vacuity: concrete objects satisfying the hypotheses -/

example : SeriesWF ⟨993, 1001, 1, [nanBits, 0x7FF8000000ABCDEF, 0x8000000000000000, 0x7FF0000000000000, 0, 0, 0, 0]⟩ := by
  constructor <;> decide

example : decSeries (encSeries (some ⟨10, 16, 2, [nanBits, 1, 2]⟩) ++ [1, 2, 3]) = .ok (⟨10, 16, 2, [nanBits, 1, 2]⟩, [1, 2, 3]) :=
  roundtrip_series _ (by constructor <;> decide) _

end Wsp.C14
