/-
  What "the interval of the chain" is: on a layout whose steps are positive and each divide
  the next, the stamp a single update may leave at level `m` is the one interval of that
  level's grid that contains the update's aligned time — `T_m ≤ T < T_m + S_m`, `S_m ∣ T_m`.
  Together with `history_local`: a slot of a coarser archive changes only through updates whose
  time lies inside the coarse interval the slot is stamped with.
-/
import Wsp.Props.C02LocalHist
namespace Wsp.C02S
open Wsp.Handle

/-- steps positive, each dividing the next -/
def ChainWF (as : List Arch) : Prop :=
  ∀ (i : Nat) (a b : Arch), as[i]? = some a → as[i + 1]? = some b → 0 < a.step ∧ a.step ∣ b.step ∧ 0 < b.step

theorem dvd_emod' (k m n : Int) (h1 : k ∣ n) (h2 : k ∣ m) : k ∣ m % n := by
  rw [Int.emod_def]
  exact Int.dvd_sub h2 (Int.dvd_trans h1 (Int.dvd_mul_right n (m / n)))

theorem step_room (s l r : Int) (hs : 0 < s) (hsl : s ∣ l) (hsr : s ∣ r) (hr : r < l) : r + s ≤ l := by
  obtain ⟨p, hp⟩ := hsl
  obtain ⟨q, hq⟩ := hsr
  subst hp; subst hq
  have hqp : q < p := Int.lt_of_mul_lt_mul_left hr (Int.le_of_lt hs)
  have : s * (q + 1) ≤ s * p := Int.mul_le_mul_of_nonneg_left (by omega) (Int.le_of_lt hs)
  rw [Int.mul_add, Int.mul_one] at this
  exact this

/-- **the chain's stamp at level `m` is the interval of that level containing the time** -/
theorem chainTime_contains (as : List Arch) (wf : ChainWF as) (t : Nat) :
    ∀ (fuel k T m : Nat) (ak : Arch), as[k]? = some ak → 0 < ak.step →
      ak.step ∣ (T : Int) → T ≤ t → (t : Int) < T + ak.step → T < 4294967296 →
      k ≤ m → m < as.length → m - k ≤ fuel →
      ∃ am, as[m]? = some am ∧ am.step ∣ (chainTime as k T fuel m : Int) ∧
        chainTime as k T fuel m ≤ t ∧ (t : Int) < chainTime as k T fuel m + am.step := by
  intro fuel
  induction fuel with
  | zero =>
    intro k T m ak hak hs hd hle hlt _ hkm _ hf
    have : m = k := by omega
    subst this
    exact ⟨ak, hak, by simpa [chainTime] using hd, by simpa [chainTime] using hle, by simpa [chainTime] using hlt⟩
  | succ fuel ih =>
    intro k T m ak hak hs hd hle hlt hT hkm hml hf
    by_cases hmk : m ≤ k
    · have : m = k := by omega
      subst this
      refine ⟨ak, hak, ?_, ?_, ?_⟩ <;> simp only [chainTime, hmk, if_true] <;> assumption
    · have hk1 : k + 1 < as.length := by omega
      have hl : as[k + 1]? = some (as[k + 1]'hk1) := List.getElem?_eq_getElem hk1
      generalize as[k + 1]'hk1 = l at hl
      obtain ⟨_, hdiv, hls⟩ := wf k ak l hak hl
      simp only [chainTime, hmk, if_false, hl]
      have hid := intervalForWrite_ideal l T hls hT
      have hal := alignDown_le T l.step hls
      have hdv : l.step ∣ (l.intervalForWrite T : Int) := by rw [hid]; exact alignDown_dvd T l.step
      have hrem : (T : Int) % l.step < l.step := Int.emod_lt_of_pos _ hls
      have hsr : ak.step ∣ (T : Int) % l.step := dvd_emod' _ _ _ hdiv hd
      have hroom := step_room ak.step l.step ((T : Int) % l.step) hs hdiv hsr hrem
      have hT' : (l.intervalForWrite T : Int) = (T : Int) - (T : Int) % l.step := by rw [hid]; rfl
      exact ih (k + 1) (l.intervalForWrite T) m l hl hls hdv (by omega) (by omega)
        (intervalForWrite_lt l T) (by omega) hml (by omega)

end Wsp.C02S

namespace Wsp.C02S
open Wsp.Handle

/-- **a touched stamp is the interval of its level that contains the update's time** -/
theorem touches_contains (as : List Arch) (wf : ChainWF as) (hpos : ∀ a ∈ as, 0 < a.step)
    (t now m T : Nat) (ht : t < 4294967296) (hm : m < as.length) (hT : Touches as t now m T) :
    ∃ am, as[m]? = some am ∧ am.step ∣ (T : Int) ∧ T ≤ t ∧ (t : Int) < T + am.step := by
  obtain ⟨a, ha, hkm, h1, h2⟩ := hT
  generalize findBestFrom (tsSub now t) 0 as = k at *
  have hs : 0 < a.step := hpos a (Wsp.mem_of_getElem? ha)
  have hid := intervalForWrite_ideal a t hs ht
  have hal := alignDown_le t a.step hs
  have hdv : a.step ∣ (a.intervalForWrite t : Int) := by rw [hid]; exact alignDown_dvd t a.step
  have hc := chainTime_contains as wf t (as.length + 1) k (a.intervalForWrite t) m a ha hs hdv
    (by omega) (by omega) (intervalForWrite_lt a t) hkm hm (by omega)
  by_cases hmk : m = k
  · subst hmk
    rw [h1 rfl]
    simpa [chainTime] using hc
  · have hlt : k < m := by omega
    obtain ⟨l, hl, hTe⟩ := h2 hlt
    have hnle : ¬ m ≤ k := by omega
    simp only [chainTime, hnle, if_false, hl] at hc
    rw [hTe]
    exact hc

end Wsp.C02S

namespace Wsp.C02S
open Wsp.Handle Wsp.Total

/-- **a slot changes only through updates whose time lies inside the interval it is then
    stamped with**: over any history of accepted single updates of a file with a validated
    header whose steps are positive and each divide the next -/
theorem history_changes_only_inside (o : FOps) (ops : List (Nat × Val × Nat)) (h h' : Handle) (g : Good h)
    (wf : ChainWF h.archs) (hpos : ∀ a ∈ h.archs, 0 < a.step) (htimes : ∀ op ∈ ops, op.1 < 4294967296)
    (hr : runSingles o h ops = .ok h') (m : Nat) (b : Arch) (j : Nat)
    (hmb : h.archs[m]? = some b) (hj : j < b.n) (hne : slotAt h' b j ≠ slotAt h b j) :
    ∃ op ∈ ops, (slotAt h' b j).t ≤ op.1 ∧ (op.1 : Int) < (slotAt h' b j).t + b.step ∧
      b.step ∣ ((slotAt h' b j).t : Int) := by
  obtain ⟨op, hop, ht⟩ := (history_local o ops h h' g hr).2 m b j hmb hj hne
  have hm : m < h.archs.length := (List.getElem?_eq_some_iff.1 hmb).1
  obtain ⟨am, ham, hd, hle, hlt⟩ := touches_contains h.archs wf hpos op.1 op.2.2 m _ (htimes op hop) hm ht
  have : am = b := by rw [hmb] at ham; injection ham with ham; exact ham.symm
  subst this
  exact ⟨op, hop, hle, hlt, hd⟩

end Wsp.C02S
