/-
  C20  generate produces a complete, self-consistent file with the requested layout.

  Proved of the command model with the random points as a universally quantified
  parameter: an existing file is never overwritten; the new file has exactly the header
  `NewHeader` makes for the requested layout, method and xFilesFactor, whatever points are
  written (`layout_as_requested`, by the write frame of C05); without fill every archive's
  base interval is 0, so every fetch of every archive returns NaN only (`nofill_empty`).
  Partial: the value clauses (every slot of every retention holds `0 ≤ v ≤ max·S_k/S_0`;
  a coarser slot fully covered by retained finer slots equals their sum) are not theorems —
  they depend on the random generator's arithmetic — and are decided on every run by the
  executable specification `Spec.genCheck` evaluated on the file the real command wrote.
-/
import Wsp.Props.C05
import Wsp.Props.C01
import Wsp.Props.C07
import Wsp.Model.Cmd
namespace Wsp.C20
open Wsp.Cmd Wsp.Handle Wsp.C14

/-- an existing file is refused, and left as it is -/
theorem refuses_existing (o : FOps) (t : Tree) (dst : String) (c : CopyOpts) (pl : Option (List (List Point)))
    (now : Nat) (b : Bytes) (he : t.get dst = some b) :
    generate o t dst c pl now = (t, .err .exists_) := by
  simp [generate, he]

theorem updateAll_frame (o : FOps) {H total : Nat} (now : Nat) (pl : List (List Point)) :
    ∀ (h h' : Handle) (i : Nat), Placed h H total → updateAll o h now i pl = .ok h' → Frame H h h' := by
  induction pl with
  | nil => intro h h' i _ hp; simp only [updateAll] at hp; injection hp with hp; subst hp; exact Frame.refl _ _
  | cons ps rest ih =>
    intro h h' i pl' hp
    simp only [updateAll] at hp
    cases h1 : h.updateMany o ps (i : Int) now with
    | error e => simp [h1] at hp
    | ok hm =>
      simp only [h1] at hp
      have f1 := updateMany_frame o h hm pl' ps _ now h1
      exact f1.trans (ih hm h' (i + 1) (pl'.of_frame f1) hp)

/-- the header of what `NewHeader` accepts is valid in the sense the write frame needs -/
theorem created_is_valid (o : FOps) (agg : Nat) (xff : UInt32) (lay : List (Int × Nat)) (disk : Bytes) (h : Handle)
    (hc : createHandle o agg xff lay = .ok (disk, h)) :
    validateArchs h.hdr.archives = true ∧ h.hdr.archives = fillOffsets (lay.map fun (s, n) => ⟨0, s, n⟩) ∧
    h.hdr.agg = agg ∧ h.hdr.xff = xff := by
  unfold createHandle at hc
  simp only [bind, Except.bind] at hc
  cases hn : newHeader o agg xff lay with
  | error e => simp [hn] at hc
  | ok hd =>
    simp only [hn] at hc
    cases hw : writeAt (List.replicate hd.expectedFileSize 0) 0 (encHeader hd) with
    | error e => simp [hw] at hc
    | ok v =>
      simp only [hw, pure, Except.pure] at hc
      injection hc with hc
      injection hc with h1 h2
      subst h2
      have := C07.newHeader_accepts o agg xff lay hd hn
      exact ⟨this.2.2.1, this.2.2.2.1, this.2.2.2.2.1, this.2.2.2.2.2⟩

/-- **layout as requested**: whatever random points are written, the file that results has
    the header of the requested layout, method and xFilesFactor, and its final length -/
theorem layout_as_requested (o : FOps) (t : Tree) (dst : String) (c : CopyOpts) (pl : List (List Point)) (now : Nat)
    (disk : Bytes) (h h' : Handle) (hmiss : t.get dst = none)
    (hc : createHandle o c.agg c.xff c.lay = .ok (disk, h))
    (hr : ∀ a ∈ h.hdr.archives, ArchWF a)
    (hu : updateAll o h now 0 pl = .ok h') :
    generate o t dst c (some pl) now = (t.set dst h'.view, .ok) ∧
    h'.hdr = h.hdr ∧ h'.view.length = h.view.length ∧ h'.hdr.agg = c.agg ∧ h'.hdr.xff = c.xff ∧
    h'.hdr.archives = fillOffsets (c.lay.map fun (s, n) => ⟨0, s, n⟩) := by
  have hv := created_is_valid o c.agg c.xff c.lay disk h hc
  have pl' := placed_of_valid h hv.1 hr
  have fr := updateAll_frame o now pl h h' 0 pl' hu
  refine ⟨by simp [generate, hmiss, hc, hu], fr.1, fr.2.1, by rw [fr.1]; exact hv.2.2.1, by rw [fr.1]; exact hv.2.2.2,
    by rw [fr.1]; exact hv.2.1⟩

/-- the created view is the header followed by zeros -/
theorem created_view (o : FOps) (agg : Nat) (xff : UInt32) (lay : List (Int × Nat)) (disk : Bytes) (h : Handle)
    (hc : createHandle o agg xff lay = .ok (disk, h)) :
    h.view = encHeader h.hdr ++ List.replicate (h.hdr.expectedFileSize - (encHeader h.hdr).length) 0 := by
  unfold createHandle at hc
  simp only [bind, Except.bind] at hc
  cases hn : newHeader o agg xff lay with
  | error e => simp [hn] at hc
  | ok hd =>
    simp only [hn] at hc
    cases hw : writeAt (List.replicate hd.expectedFileSize 0) 0 (encHeader hd) with
    | error e => simp [hw] at hc
    | ok v =>
      simp only [hw, pure, Except.pure] at hc
      injection hc with hc
      injection hc with h1 h2
      subst h2
      obtain ⟨hle, hv⟩ := writeAt_ok _ _ _ _ hw
      simp only at hv ⊢
      rw [hv]
      simp

theorem de32_zeros (n : Nat) : de32 (List.replicate n 0) = 0 := by
  match n with
  | 0 => rfl
  | 1 => rfl
  | 2 => rfl
  | 3 => rfl
  | n + 4 => simp [List.replicate_succ, de32]

/-- **without fill every slot is empty**: every archive of a freshly created file has base
    interval 0, hence every fetch of every archive returns NaN only -/
theorem nofill_empty (o : FOps) (agg : Nat) (xff : UInt32) (lay : List (Int × Nat)) (disk : Bytes) (h : Handle)
    (hc : createHandle o agg xff lay = .ok (disk, h)) (a : Arch)
    (hlo : (encHeader h.hdr).length ≤ a.offset) (hhi : a.offset + 4 ≤ h.view.length) :
    h.baseInterval a = .ok 0 ∧
    ∀ p : FetchPlan, p.a = a → ∃ n, h.fetchExec p = .ok ⟨p.fromI, p.untilI, p.a.step, List.replicate n nanBits⟩ := by
  have hv := created_view o agg xff lay disk h hc
  have hb : h.baseInterval a = .ok 0 := by
    unfold baseInterval readAt
    have : ¬ (a.offset + 4 > h.view.length) := by omega
    simp only [this, if_false]
    rw [de32_take _ _ (by omega)]
    rw [hv, List.drop_append]
    have : List.drop a.offset (encHeader h.hdr) = [] := List.drop_eq_nil_of_le hlo
    rw [this, List.nil_append, List.drop_replicate, de32_zeros]
  refine ⟨hb, ?_⟩
  intro p hp
  subst hp
  exact C01.fetch_never_written h p hb

end Wsp.C20
