/-
  C04 outside the clock zone, early side: a clock before 1970 + the archive's retention.

  `C04.none_iff` holds for every clock; with the clock before the retention of the selected
  archive the uint32 cut-off `now - retention` wraps to `2^32 + now - retention`, which lies
  after the clock.  So a window that ends at or before the clock — every window an honest
  reader asks for — yields no series at all (`early_clock_none`), and a series is planned
  only for a window reaching beyond the wrapped cut-off (`early_clock_some_only_beyond`).
  The wrap is thereby characterised, not only mirrored by the model.
-/
import Wsp.Props.C04
import Wsp.Props.C03Early
namespace Wsp.C04
open Wsp.Handle

/-- before 1970 + retention a window ending at or before the clock yields no series -/
theorem early_clock_none (archs : List Arch) (k : Int) (f u now : Nat)
    (h1 : ¬ f > u) (h2 : ¬ BadId archs.length k) (a : Arch)
    (ha : archs[selected archs k f now]? = some a)
    (h0 : 0 < a.maxRetention) (hM : a.maxRetention < 4294967296)
    (hclock : (now : Int) < a.maxRetention) (hu : u ≤ now) :
    fetchPlan archs k f u now = .ok none := by
  rw [none_iff archs k f u now h1 h2 a ha]
  have := C03.tsAdd_early now a.maxRetention h0 (by omega) hclock
  by_cases hf : f > now
  · exact Or.inl hf
  · right; omega

/-- before 1970 + retention a series is planned only for a window that starts at or before
    the clock and reaches the wrapped cut-off, which lies after the clock -/
theorem early_clock_some_only_beyond (archs : List Arch) (k : Int) (f u now : Nat)
    (h1 : ¬ f > u) (h2 : ¬ BadId archs.length k) (a : Arch)
    (ha : archs[selected archs k f now]? = some a)
    (h0 : 0 < a.maxRetention) (hM : a.maxRetention < 4294967296)
    (hclock : (now : Int) < a.maxRetention) (p : FetchPlan)
    (hp : fetchPlan archs k f u now = .ok (some p)) :
    f ≤ now ∧ 4294967296 + (now : Int) - a.maxRetention ≤ u ∧ now < u := by
  have hn : ¬ (fetchPlan archs k f u now = .ok none) := by rw [hp]; simp
  rw [none_iff archs k f u now h1 h2 a ha] at hn
  have := C03.tsAdd_early now a.maxRetention h0 (by omega) hclock
  omega

end Wsp.C04
