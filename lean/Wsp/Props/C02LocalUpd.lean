/-
  Locality of a whole single update (C01 / C02 / C03): the direct write and the propagation
  chain together.  Whatever the file held — any history, any bytes a validated header
  allows — an accepted single update `(t, v)` changes

  * in the archive it is routed to, at most the slot that afterwards is stamped with the
    aligned interval of `t`;
  * in each archive behind it, at most the slot that afterwards is stamped with that level's
    interval of the chain (`chainTime`);
  * nothing in any finer archive, and no other slot anywhere.
-/
import Wsp.Props.C02Local
import Wsp.Props.C03
namespace Wsp.C02S
open Wsp.Handle Wsp.C14 Wsp.Total Wsp.C01 Wsp.C08 Wsp.Inv

theorem updatePoint_local (o : FOps) (h h' : Handle) (g : Good h) (t : Nat) (v : Val) (now : Nat)
    (hok : h.updatePoint o (-1) t v now = .ok h') :
    ∃ a, h.archs[h.findBestArchive t now]? = some a ∧
    ∀ (m : Nat) (b : Arch) (j : Nat), h.archs[m]? = some b → j < b.n →
      slotAt h' b j ≠ slotAt h b j →
      h.findBestArchive t now ≤ m ∧
      (m = h.findBestArchive t now → (slotAt h' b j).t = a.intervalForWrite t) ∧
      (h.findBestArchive t now < m → ∃ l, h.archs[h.findBestArchive t now + 1]? = some l ∧
        (slotAt h' b j).t = chainTime h.archs (h.findBestArchive t now + 1)
          (l.intervalForWrite (a.intervalForWrite t)) h.archs.length m) := by
  obtain ⟨_, a, off, hm, ha, hg, hput, hch⟩ := C03.single_route o h h' t v now hok
  refine ⟨a, ha, ?_⟩
  generalize hk : h.findBestArchive t now = k at *
  have pa := g.placed a (mem_of_getElem? ha)
  have hfit : a.offset + 12 * a.n ≤ 4294967295 := by have := pa.hi; have := pa.fits; omega
  cases hb : h.baseInterval a with
  | error e => unfold getPointOffset at hg; simp [hb] at hg
  | ok base =>
    obtain ⟨_, hi, hs, hfr⟩ := C01.write_lands h hm a (a.intervalForWrite t) v base off
      (intervalForWrite_lt a t) pa.npos hfit hb hg hput
    have fr := putPointAt_frame (16 + 12 * h.hdr.archives.length) h hm _ off
      (getPointOffset_range h a pa _ off hg).1 hput
    have gm : Good hm := g.of_frame fr
    have earch : hm.archs = h.archs := by unfold Handle.archs; rw [fr.1]
    obtain ⟨_, hloc⟩ := propagateChain_single_local o hm h' k ⟨a.intervalForWrite t, v⟩ gm hch
    intro m b j hmb hj hne
    have hmb1 : hm.archs[m]? = some b := by rw [earch]; exact hmb
    by_cases hc : slotAt h' b j = slotAt hm b j
    · -- changed by the direct write
      have hne1 : slotAt hm b j ≠ slotAt h b j := by rw [← hc]; exact hne
      have hov : ¬ (b.offset + 12 * j + 12 ≤ a.offset + 12 * (if base = 0 then 0 else slotIdx a base (a.intervalForWrite t)) ∨
          a.offset + 12 * (if base = 0 then 0 else slotIdx a base (a.intervalForWrite t)) + 12 ≤ b.offset + 12 * j) :=
        fun hd => hne1 (hfr b j hd)
      by_cases hmk : m = k
      · subst hmk
        have hba : b = a := by rw [ha] at hmb; injection hmb with hmb; exact hmb.symm
        subst hba
        have hj' : j = (if base = 0 then 0 else slotIdx b base (b.intervalForWrite t)) := by omega
        refine ⟨Nat.le_refl _, fun _ => ?_, fun hlt => absurd hlt (Nat.lt_irrefl _)⟩
        rw [hc, hj', hs]
      · exfalso
        have := regions_disjoint h g m k b a hmk hmb ha
        omega
    · obtain ⟨hkm, l, hl, hts⟩ := hloc m b j hmb1 hj hc
      refine ⟨by omega, fun hmk => by omega, fun _ => ⟨l, by rw [← earch]; exact hl, ?_⟩⟩
      rw [hts, earch]

end Wsp.C02S
