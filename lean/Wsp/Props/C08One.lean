/-
  C08 / C11 with one archive selected (`-archive k`): the core of copy / sum-copy reads and
  writes that archive only (the other batches are empty), and on success the published
  destination agrees with the source on that archive's window.
-/
import Wsp.Props.C08Diff
namespace Wsp.C08
open Wsp.Handle Wsp.C14 Wsp.Total Wsp.C01 Wsp.Cmd Wsp.Inv

theorem extractPoints_nil (now : Nat) (ret : Int) : extractPoints [] now ret = ([], []) := by
  simp [extractPoints]

theorem updateManyLoop_nil (o : FOps) (k : Int) (now : Nat) : ∀ (as : List Arch) (h : Handle) (i : Nat),
    updateManyLoop o k now h [] i as = .ok h := by
  intro as
  induction as with
  | nil => intro h i; rfl
  | cons a as ih =>
    intro h i
    simp only [updateManyLoop]
    split
    · exact ih h (i + 1)
    · rw [extractPoints_nil]
      simp only [List.length_nil, if_true]
      exact ih h (i + 1)

/-- a batch with no points changes nothing -/
theorem updateMany_nil (o : FOps) (h : Handle) (k : Int) (now : Nat) : h.updateMany o [] k now = .ok h := by
  unfold updateMany
  have : sortByTime [] = [] := rfl
  rw [this]
  exact updateManyLoop_nil o k now h.archs h 0

/-- archives that are not selected (no source series, an empty batch) are left alone -/
theorem copyArchives_noop (o : FOps) (ls : List (Option Series)) (excl : Bool) (w : Window) :
    ∀ (batches : List (List Point)) (i : Nat) (h : Handle),
      (∀ m, m < batches.length → ls.getD (i + m) none = none ∧ batches[m]? = some []) →
      ∃ written, copyArchives o ls excl w h i batches = .ok (h, written) := by
  intro batches
  induction batches with
  | nil => intro i h _; exact ⟨[], rfl⟩
  | cons ps rest ih =>
    intro i h hm
    obtain ⟨h0a, h0b⟩ := hm 0 (by simp)
    simp only [Nat.add_zero, List.getElem?_cons_zero, Option.some.injEq] at h0a h0b
    subst h0b
    simp only [copyArchives]
    rw [h0a]
    simp only
    rw [updateMany_nil]
    simp only
    obtain ⟨wr, hwr⟩ := ih (i + 1) h (fun m hm' => by
      have := hm (m + 1) (by simp; omega)
      simp only [List.getElem?_cons_succ] at this
      have e : i + (m + 1) = i + 1 + m := by omega
      rw [e] at this
      exact this)
    rw [hwr]
    exact ⟨_, rfl⟩

/-- **one selected archive**: the run of ⟦copyDifferentPoints⟧ is the one write to archive
    `k`, after which its window agrees with the source -/
theorem copyArchives_one (o : FOps) (hl : FLaws o) (ls : List (Option Series)) (excl : Bool) (w : Window) (L : Nat)
    (k : Nat) (a : Arch) (f cnt : Nat) (vs : List Val) :
    ∀ (batches : List (List Point)) (i : Nat) (h h'' : Handle) (written : List (List Point)),
      i ≤ k → k < i + batches.length → Good h → ArchState h a → ArchSpec h ls w L k a f cnt vs →
      (∀ m, m < batches.length → i + m ≠ k → ls.getD (i + m) none = none ∧ batches[m]? = some []) →
      (k = 0 → batches[k - i]? = some (diffPoints o excl (ls.getD 0 none) (some (readSeries h a f cnt))).1) →
      copyArchives o ls excl w h i batches = .ok (h'', written) →
      Agrees o excl h'' a f cnt vs ∧ Good h'' ∧ h''.hdr = h.hdr ∧ ArchState h'' a := by
  intro batches
  induction batches with
  | nil => intro i h h'' written h1 h2; simp at h2; omega
  | cons ps rest ih =>
    intro i h h'' written hik hklt g st sp hoff hfirst hp
    by_cases hi : i = k
    · -- the selected archive
      subst hi
      simp only [copyArchives] at hp
      have hpts : (match ls.getD i none with
          | none => (.ok ps : R (List Point))
          | some s =>
            if i = 0 then .ok ps else
            match h.fetchFromArchive (i : Int) w.from_ w.until' w.now with
            | .error e => .error e
            | .ok d => .ok (diffPoints o excl (some s) d).1) =
          .ok (diffPoints o excl (some ⟨f, f + a.step.toNat * cnt, a.step, vs⟩) (some (readSeries h a f cnt))).1 := by
        rw [sp.src]
        simp only
        by_cases h0 : i = 0
        · subst h0
          simp only [if_true]
          have := hfirst rfl
          simp only [Nat.sub_self, List.getElem?_cons_zero, Option.some.injEq] at this
          rw [sp.src] at this
          rw [this]
        · simp only [h0, if_false]
          rw [spec_fetch sp st]
      split at hp
      · simp at hp
      rename_i pts heq
      have epts : (Except.ok (diffPoints o excl (some ⟨f, f + a.step.toNat * cnt, a.step, vs⟩)
            (some (readSeries h a f cnt))).1 : R (List Point)) = Except.ok pts := hpts.symm.trans heq
      injection epts with epts
      subst epts
      cases hu : h.updateMany o (diffPoints o excl (some ⟨f, f + a.step.toNat * cnt, a.step, vs⟩)
          (some (readSeries h a f cnt))).1 (i : Int) w.now with
      | error e => rw [hu] at hp; simp at hp
      | ok h' =>
        rw [hu] at hp; simp only at hp
        obtain ⟨st', g', hh, hag⟩ := copy_step o hl excl h h' g i a sp.arch st f cnt w.now sp.zone vs sp.len hu
        obtain ⟨wr, hwr⟩ := copyArchives_noop o ls excl w rest (i + 1) h' (fun m hm' => by
          have := hoff (m + 1) (by simp; omega) (by omega)
          simp only [List.getElem?_cons_succ] at this
          have e : i + (m + 1) = i + 1 + m := by omega
          rw [e] at this
          exact this)
        rw [hwr] at hp
        simp only at hp
        injection hp with hp; injection hp with e1 _; subst e1
        exact ⟨hag, g', hh, st'⟩
    · -- an archive before the selected one: nothing is written
      have hlt : i < k := by omega
      obtain ⟨h0a, h0b⟩ := hoff 0 (by simp) (by omega)
      simp only [Nat.add_zero, List.getElem?_cons_zero, Option.some.injEq] at h0a h0b
      subst h0b
      simp only [copyArchives] at hp
      rw [h0a] at hp
      simp only at hp
      rw [updateMany_nil] at hp
      simp only at hp
      cases hr : copyArchives o ls excl w h (i + 1) rest with
      | error e => rw [hr] at hp; simp at hp
      | ok r =>
        obtain ⟨hx, wr⟩ := r
        rw [hr] at hp; simp only at hp
        injection hp with hp; injection hp with e1 _; subst e1
        have hk0 : k ≠ 0 := by omega
        exact ih (i + 1) h hx wr (by omega) (by simp at hklt ⊢; omega) g st sp
          (fun m hm' hne => by
            have := hoff (m + 1) (by simp; omega) (by omega)
            simp only [List.getElem?_cons_succ] at this
            have e : i + (m + 1) = i + 1 + m := by omega
            rw [e] at this
            exact this)
          (fun h0 => absurd h0 hk0) hr

theorem diffPoints_none (o : FOps) (excl : Bool) : diffPoints o excl none none = ([], []) := by
  simp [diffPoints, sValues, diffLoop]

/-- **the core of copy / sum-copy with one archive selected**: on success the destination
    handle that is published (or the untouched one, when nothing was to be copied) agrees
    with the source on the window of the selected archive -/
theorem copyCore_agrees_one (o : FOps) (hl : FLaws o) (t : Tree) (dst : String) (hd : Handle) (srcArchs : List Arch)
    (ls : List (Option Series)) (w : Window) (excl : Bool) (L : Nat)
    (k : Nat) (a : Arch) (f cnt : Nat) (vs : List Val)
    (g : Good hd) (st : ArchState hd a) (hsel : w.archiveID = (k : Int))
    (hls : ls = (List.range hd.archs.length).map fun (i : Nat) =>
      if (i : Int) = w.archiveID then some (⟨f, f + a.step.toNat * cnt, a.step, vs⟩ : Series) else none)
    (sp : ArchSpec hd ls w L k a f cnt vs)
    (hok : (copyCore o t dst hd srcArchs ls w excl).2.1 = .ok) :
    ∃ hd', ((copyCore o t dst hd srcArchs ls w excl).1 = t ∧ hd' = hd ∨
            (copyCore o t dst hd srcArchs ls w excl).1 = t.set dst hd'.view) ∧
      Agrees o excl hd' a f cnt vs := by
  have hk : k < hd.archs.length := (List.getElem?_eq_some_iff.1 sp.arch).1
  have hne : ¬ (w.archiveID = -1) := by rw [hsel]; omega
  have hin : 0 ≤ w.archiveID ∧ w.archiveID < hd.archs.length := by rw [hsel]; omega
  obtain ⟨ld, hfl, _, _, hcase⟩ := copyCore_cases o t dst hd srcArchs ls w excl hok
  -- what the copy read of the destination
  have hld : ld = (List.range hd.archs.length).map fun (i : Nat) =>
      if (i : Int) = w.archiveID then some (readSeries hd a f cnt) else none := by
    unfold fetchList at hfl
    rw [if_neg hne, if_pos hin] at hfl
    have hf : hd.fetchFromArchive w.archiveID w.from_ w.until' w.now = .ok (some (readSeries hd a f cnt)) := by
      rw [hsel]; exact spec_fetch sp st
    rw [hf] at hfl
    simp only at hfl
    injection hfl with e
    exact e.symm
  have hlen : ls.length = ld.length := by rw [hls, hld]; simp
  -- the difference lists, archive by archive
  have hdl : ∀ m, m < hd.archs.length → (diffLists o excl ls ld).1.getD m [] =
      if m = k then (diffPoints o excl (some ⟨f, f + a.step.toNat * cnt, a.step, vs⟩) (some (readSeries hd a f cnt))).1
      else [] := by
    intro m hm
    unfold diffLists
    have : ¬ (ls.length ≠ ld.length) := by omega
    rw [if_neg this]
    by_cases e : m = k
    · rw [if_pos e]
      have e1 : ((m : Nat) : Int) = w.archiveID := by rw [e, hsel]
      exact getD_zip_map ls ld _ [] m _ _ (by rw [hls]; simp [hm, e1]) (by rw [hld]; simp [hm, e1])
    · rw [if_neg e]
      have e1 : ¬ ((m : Nat) : Int) = w.archiveID := by rw [hsel]; omega
      have := getD_zip_map ls ld (fun x => (diffPoints o excl x.1 x.2).1) [] m none none
        (by rw [hls]; simp [hm, e1]) (by rw [hld]; simp [hm, e1])
      rw [this, diffPoints_none]
  rcases hcase with ⟨hempty, htree⟩ | ⟨hd', written, hca, htree⟩
  · refine ⟨hd, Or.inl ⟨htree, rfl⟩, ?_⟩
    apply agrees_of_no_diff o excl hd a sp.zone.ok.1 f cnt vs sp.len sp.zone.hi
    have hk' := hdl k hk
    rw [if_pos rfl] at hk'
    rw [← hk']
    have hae : allEmpty (diffLists o excl ls ld).1 = true := by
      cases h1 : allEmpty (diffLists o excl ls ld).1 <;> simp_all
    unfold allEmpty at hae
    rw [List.all_eq_true] at hae
    by_cases hk2 : k < (diffLists o excl ls ld).1.length
    · have := hae ((diffLists o excl ls ld).1[k]) (List.getElem_mem hk2)
      rw [List.getD_eq_getElem?_getD, List.getElem?_eq_getElem hk2]
      simpa using this
    · rw [List.getD_eq_getElem?_getD, List.getElem?_eq_none (by omega)]
      rfl
  · refine ⟨hd', Or.inr htree, ?_⟩
    have hb : ∀ m, m < hd.archs.length →
        ((List.range hd.archs.length).map fun i => (diffLists o excl ls ld).1.getD i [])[m]? =
          some ((diffLists o excl ls ld).1.getD m []) := by
      intro m hm; simp [hm]
    have := copyArchives_one o hl ls excl w L k a f cnt vs _ 0 hd hd' written (by omega) (by simp; omega) g st sp
      (by
        intro m hm hmk
        simp only [List.length_map, List.length_range] at hm
        simp only [Nat.zero_add] at hmk ⊢
        refine ⟨?_, ?_⟩
        · have e1 : ¬ ((m : Nat) : Int) = w.archiveID := by rw [hsel]; omega
          rw [hls]; simp [hm, e1]
        · rw [hb m hm, hdl m hm, if_neg hmk])
      (by
        intro h0
        subst h0
        simp only [Nat.sub_zero]
        rw [hb 0 hk, hdl 0 hk, if_pos rfl, sp.src])
      hca
    exact this.1

end Wsp.C08
