/-
  C06  On-disk format is classic Whisper.

  The format theorems: big-endian 32-bit fields, the header's field order, contiguous
  archives in declaration order right after the header, 12-byte slots, and the total
  length.  The slot position is the classic formula `((I − base)/S) mod N` relative to
  the interval held in the archive's first slot.  Interoperation with the reference
  reader is validated three ways by the correspondence stream (go-whisper reads
  whispertool-written bytes; whispertool and the model read go-whisper-written bytes);
  a Lean model of the reference reader is not yet part of the theorems (partial).
-/
import Wsp.Proofs.Layout
import Wsp.Props.FactsTie
namespace Wsp.C06
open Wsp.Handle Wsp.C14

/-- a 32-bit field is four bytes, most significant first -/
theorem be32_big_endian (n : Nat) (h : n < 4294967296) :
    ∃ b3 b2 b1 b0 : UInt8, be32 n = [b3, b2, b1, b0] ∧
      n = b3.toNat * 16777216 + b2.toNat * 65536 + b1.toNat * 256 + b0.toNat := by
  refine ⟨_, _, _, _, rfl, ?_⟩
  simp only [u8_toNat_ofNat]
  omega

/-- a float64 is its IEEE-754 bit pattern, most significant byte first -/
theorem be64_big_endian (v : Val) : be64 v = be32 (v.toNat / 4294967296) ++ be32 (v.toNat % 4294967296) := rfl

/-- header: aggregation type, max retention, xFilesFactor, archive count, then
    (offset, secondsPerPoint, points) per archive — 16 + 12·k bytes -/
theorem header_layout (h : Header) :
    encHeader h = be32 (u32 h.agg) ++ be32 (u32 h.maxRet) ++ be32 h.xff.toNat ++ be32 h.count ++ encArchs h.archives ∧
    (encHeader h).length = 16 + 12 * h.archives.length := by
  exact ⟨rfl, encHeader_length h⟩

theorem arch_layout (a : Arch) : encArch a = be32 a.offset ++ be32 (u32 a.step) ++ be32 a.n := rfl

/-- a slot: uint32 interval then the float64 value, 12 bytes -/
theorem slot_layout (p : Point) : encPoint p = be32 p.t ++ be64 p.v ∧ (encPoint p).length = 12 :=
  ⟨rfl, encPoint_length p⟩

/-- archives are laid out contiguously in declaration order: the first starts right
    after the header, each next one where the previous ends -/
theorem contiguous (as : List Arch) (hr : ∀ a ∈ as, ArchWF a) (hv : validateArchs as = true) :
    ∀ i a, as[i]? = some a → a.offset = 16 + 12 * as.length + 12 * sumN (as.take i) := by
  have wf := (validateArchs_iff as hr).1 hv
  exact wfFrom_contiguous _ _ wf.2.2

/-- total length: header + 12 × total points -/
theorem file_length (o : FOps) (agg : Nat) (xff : UInt32) (lay : List (Int × Nat))
    (disk : Bytes) (h : Handle) (hc : createHandle o agg xff lay = .ok (disk, h))
    (hcount : h.hdr.count = h.hdr.archives.length) :
    disk.length = 16 + 12 * h.hdr.archives.length + 12 * sumN h.hdr.archives ∧
    h.view.length = disk.length := by
  unfold createHandle at hc
  simp only [bind, Except.bind] at hc
  cases hn : newHeader o agg xff lay with
  | error e => simp [hn] at hc
  | ok hd =>
    simp only [hn] at hc
    cases hw : writeAt (List.replicate hd.expectedFileSize 0) 0 (encHeader hd) with
    | error e => simp [hw] at hc
    | ok v =>
      simp only [hw, pure, Except.pure] at hc
      injection hc with hc
      injection hc with h1 h2
      subst h1 h2
      obtain ⟨hle, hv⟩ := writeAt_ok _ _ _ _ hw
      simp at hle
      simp only at hcount
      have := expectedFileSize_eq hd hcount
      unfold Header.total at this
      refine ⟨by simp [this], ?_⟩
      simp [hv]; omega

/-- writing a point puts exactly its 12 encoded bytes at the slot's offset and leaves
    every other byte alone -/
theorem slot_bytes (h h' : Handle) (p : Point) (off : Nat) (hp : h.putPointAt p off = .ok h') :
    (h'.view.drop off).take 12 = be32 p.t ++ be64 p.v ∧
    h'.view.take off = h.view.take off ∧ h'.view.drop (off + 12) = h.view.drop (off + 12) := by
  unfold putPointAt at hp
  cases hw : writeAt h.view off (encPoint p) with
  | error e => simp [hw] at hp
  | ok v =>
    simp only [hw] at hp
    injection hp with hp
    subst hp
    obtain ⟨hle, hv⟩ := writeAt_ok _ _ _ _ hw
    simp only [encPoint_length] at hle hv
    have hlen : (h.view.take off).length = off := by simp; omega
    have hB : (encPoint p).length = 12 := encPoint_length p
    refine ⟨?_, ?_, ?_⟩
    · simp only [hv, List.append_assoc]
      rw [List.drop_left' hlen, List.take_left' hB]; rfl
    · simp only [hv, List.append_assoc]
      rw [List.take_left' hlen]
    · simp only [hv]
      rw [List.drop_left' (by simp; omega)]

/-- the classic slot position: relative to the interval held in the archive's first
    slot, `((I − base)/S) mod N` (floored), at `offset + 12·index` -/
theorem slot_position (a : Arch) (base iv : Nat) (hs : 0 < a.step) (hn : 0 < a.n)
    (hb : base < 2147483648) (hi : iv < 2147483648) (hal : a.step ∣ ((iv : Int) - (base : Int)))
    (hfit : a.offset + 12 * a.n ≤ 4294967295) :
    a.pointIndex base iv = (((iv : Int) - (base : Int)) / a.step) % (a.n : Int) ∧
    a.pointOffsetAt (a.pointIndex base iv) = a.offset + 12 * (a.pointIndex base iv).toNat := by
  have h1 : a.pointIndex base iv = (((iv : Int) - (base : Int)) / a.step) % (a.n : Int) := by
    unfold Arch.pointIndex
    rw [tsSub_ideal iv base hi hb, Int.tdiv_eq_ediv_of_dvd hal, floorMod_pos _ _ (by omega)]
  obtain ⟨r0, r1⟩ := pointIndex_range a hn base iv
  exact ⟨h1, pointOffsetAt_ideal a _ r0 r1 hfit⟩

end Wsp.C06
