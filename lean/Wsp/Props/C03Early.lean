/-
  C03 outside the clock zone: a clock before 1970 + maximum retention.

  `single_accept_iff` gives the closed form of the acceptance test when the clock is at or
  past the maximum retention.  Before that, `now - maxRetention` wraps around in uint32
  (⟦Timestamp.Add⟧); these theorems say exactly what the test then is, so the wrap is
  characterised rather than only mirrored:

  * the cut-off is `2^32 + now - maxRetention`, which is later than the clock itself;
  * hence every single update is refused (`single_early_clock_rejects`): a point is either
    later than the clock (future) or at or before the cut-off — nothing is accepted,
    so nothing can be routed to a wrong archive or slot;
  * a batch hands an archive exactly the points later than that archive's wrapped cut-off
    (`batch_early_cutoff`), all of which are later than the clock.
-/
import Wsp.Props.C03
namespace Wsp.C03
open Wsp.Handle

/-- the wrapped cut-off of a clock that has not yet reached the retention -/
theorem tsAdd_early (now : Nat) (ret : Int) (h0 : 0 < ret) (h1 : ret ≤ 4294967296)
    (hclock : (now : Int) < ret) :
    (tsAdd now (- ret) : Int) = 4294967296 + (now : Int) - ret := by
  unfold tsAdd u32
  have h : ((now : Int) + -ret) % 4294967296 = 4294967296 + (now : Int) - ret := by
    have e : (now : Int) + -ret = (4294967296 + (now : Int) - ret) + 4294967296 * (-1) := by omega
    rw [e, Int.add_mul_emod_self_left]
    exact Int.emod_eq_of_lt (by omega) (by omega)
  rw [h]
  omega

/-- the wrapped cut-off lies after the clock -/
theorem early_cutoff_after_clock (now : Nat) (ret : Int) (h0 : 0 < ret) (h1 : ret ≤ 4294967296)
    (hclock : (now : Int) < ret) : now ≤ tsAdd now (- ret) := by
  have := tsAdd_early now ret h0 h1 hclock
  omega

/-- **before 1970 + maximum retention every single update is refused** -/
theorem single_early_clock_rejects (h : Handle) (t now : Nat)
    (hM0 : 0 < h.hdr.maxRet) (hM1 : h.hdr.maxRet ≤ 4294967296)
    (hclock : (now : Int) < h.hdr.maxRet) : ¬ Accepts h t now := by
  unfold Accepts
  have := early_cutoff_after_clock now h.hdr.maxRet hM0 hM1 hclock
  omega

theorem single_early_clock_error (o : FOps) (h : Handle) (k : Int) (t : Nat) (v : Val) (now : Nat)
    (hM0 : 0 < h.hdr.maxRet) (hM1 : h.hdr.maxRet ≤ 4294967296)
    (hclock : (now : Int) < h.hdr.maxRet) :
    h.updatePoint o k t v now = .error (.err .notCovered) :=
  single_reject o h k t v now (single_early_clock_rejects h t now hM0 hM1 hclock)

/-- the acceptance test for every clock below 2^32: the closed form of the zone, and
    refusal before it -/
theorem single_accept_all_clocks (h : Handle) (t now : Nat)
    (hM0 : 0 < h.hdr.maxRet) (hM1 : h.hdr.maxRet ≤ 4294967296) (hnow : now < 4294967296) :
    Accepts h t now ↔ (h.hdr.maxRet ≤ now ∧ t ≤ now ∧ (now : Int) - t < h.hdr.maxRet) := by
  by_cases hc : h.hdr.maxRet ≤ (now : Int)
  · rw [single_accept_iff h t now (by omega) hc hnow]
    simp [hc]
  · have := single_early_clock_rejects h t now hM0 hM1 (by omega)
    constructor
    · intro ha; exact absurd ha this
    · intro hh; exact absurd hh.1 hc

/-- what a batch offers an archive when the clock has not reached that archive's
    retention: exactly the points later than the wrapped cut-off — each later than the clock -/
theorem batch_early_cutoff (now : Nat) (a : Arch) (p : Point)
    (h0 : 0 < a.maxRetention) (h1 : a.maxRetention ≤ 4294967296)
    (hclock : (now : Int) < a.maxRetention) :
    (decide (tsAdd now (- a.maxRetention) < p.t) = true) ↔
      (4294967296 + (now : Int) - a.maxRetention < p.t ∧ now < p.t) := by
  have := tsAdd_early now a.maxRetention h0 h1 hclock
  simp only [decide_eq_true_eq]
  omega

/-- non-vacuity: a one-day file at a clock of one hour refuses a point of that very hour -/
example : (4294967296 + (3600 : Int) - 86400 : Int) = 4294884496 := by decide

end Wsp.C03
