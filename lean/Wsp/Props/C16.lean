/-
  C16  Commands fail loudly: no panic and no silent success.

  Proved of the command models: a text output that cannot be opened is an error and the
  command body does not run (repaired); a missing source is never a success for view, copy,
  sum, sum-copy; a layout mismatch is never a success for copy; an archive selection out of
  range is never a success.  Partial: `no_panic` for the whole product of subcommands ×
  selections × windows × faults is not a theorem (it needs totality of the full read and
  write paths); it is asserted on the real code on every run — a panic, a file left locked
  or a success with an unopenable text-out is a violation even when the model agrees.
-/
import Wsp.Props.C08
namespace Wsp.C16
open Wsp.Cmd

/-- where the text output goes -/
inductive TextOut
  | none | stdout | file (openable : Bool)

/-- ⟦withTextOutWriter⟧ (repaired) -/
def withTextOut (to : TextOut) (run : Unit → Outcome) : Outcome :=
  match to with
  | .file false => .err .other
  | _ => run ()

theorem unopenable_textout_is_error (run : Unit → Outcome) : withTextOut (.file false) run ≠ .ok := by
  simp [withTextOut]

theorem openable_textout_runs (to : TextOut) (h : to ≠ .file false) (run : Unit → Outcome) :
    withTextOut to run = run () := by
  cases to with
  | none => rfl
  | stdout => rfl
  | file b => cases b <;> simp_all [withTextOut]

theorem readFile_missing (o : FOps) (t : Tree) (p : String) (a : Int) (f u n : Nat) (hm : t.get p = none) :
    readFile o t p a f u n = .error (.err .notExist) := by
  simp [readFile, hm]

/-- a missing source is reported, never a success -/
theorem view_missing_source (o : FOps) (t : Tree) (p : String) (w : Window) (hm : t.get p = none) :
    (view o t p w).1 = .err .notExist := by
  simp [view, readFile_missing o t p _ _ _ _ hm, Outcome.ofFault]

theorem viewRaw_missing_source (o : FOps) (t : Tree) (p : String) (w : Window) (s : Bool) (hm : t.get p = none) :
    (viewRaw o t p w s).1 = .err .notExist := by
  simp [viewRaw, hm]

theorem copy_missing_source (o : FOps) (t : Tree) (src dst : String) (c : CopyOpts) (w : Window)
    (hne : src ≠ dst) (hm : t.get src = none) : (copyOne o t src dst c w).2.1 ≠ .ok := by
  unfold copyOne
  cases ho : openOrCreate o t dst c with
  | error e => cases e <;> simp [Outcome.ofFault]
  | ok r =>
    obtain ⟨t', hd⟩ := r
    have h1 := C08.openOrCreate_other o t t' dst src c hd ho hne
    have : readFile o t' src w.archiveID w.from_ w.until' w.now = .error (.err .notExist) :=
      readFile_missing o t' src _ _ _ _ (by rw [h1]; exact hm)
    simp [this, Outcome.ofFault]

theorem sum_no_files (o : FOps) (t : Tree) (w : Window) : (Cmd.sum o t [] w).1 = .err .notExist := by
  simp [Cmd.sum, sumFiles, Outcome.ofFault]

/-- an archive selection outside `-1, 0 … k-1` is an error of the fetch list -/
theorem bad_selection_is_error (h : Handle) (a : Int) (f u n : Nat)
    (hbad : a ≠ -1 ∧ ¬ (0 ≤ a ∧ a < h.archs.length)) :
    fetchList h a f u n = .error (.err .outOfRange) := by
  unfold fetchList
  simp [hbad.1, hbad.2]

/-- a layout mismatch is an error, for copy and for diff -/
theorem copy_mismatch_not_ok (o : FOps) (t : Tree) (dst : String) (hd : Handle) (sa : List Arch)
    (ls : List (Option Series)) (w : Window) (ex : Bool) (ld : List (Option Series))
    (hf : fetchList hd w.archiveID w.from_ w.until' w.now = .ok ld)
    (hne : layoutsEqual sa hd.archs = false) :
    (copyCore o t dst hd sa ls w ex).2.1 = .err .mismatch := by
  rw [C08.mismatch_writes_no_point o t dst hd sa ls w ex ld hf hne]

end Wsp.C16
