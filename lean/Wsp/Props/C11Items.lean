/-
  C11 / C16, several items in one run of sum-diff: every item is compared, and one item that
  differs — wherever it comes in the list — makes the whole run report a difference (unless
  another error stops it).
-/
import Wsp.Model.Cmd
namespace Wsp.C11
open Wsp.Cmd

theorem items_any (o : FOps) (t : Tree) (w : Window) (items : List (List String × String))
    (hall : ∀ p ∈ items, (sumDiff o t p.1 p.2 w).1 = .ok ∨ (sumDiff o t p.1 p.2 w).1 = .diffFound) :
    ∀ found, (sumDiffMany o t w items found).1 =
      if found ∨ ∃ p ∈ items, (sumDiff o t p.1 p.2 w).1 = .diffFound then .diffFound else .ok := by
  induction items with
  | nil => intro found; cases found <;> simp [sumDiffMany]
  | cons p ps ih =>
    intro found
    obtain ⟨s, d⟩ := p
    have hp := hall (s, d) (by simp)
    have ih' := ih (fun q hq => hall q (by simp [hq]))
    simp only [sumDiffMany]
    rcases hp with hp | hp
    · have e : (sumDiff o t s d w).1 = .ok := hp
      have hiff : (found = true ∨ ∃ p, p ∈ (s, d) :: ps ∧ (sumDiff o t p.1 p.2 w).1 = .diffFound) ↔
          (found = true ∨ ∃ p, p ∈ ps ∧ (sumDiff o t p.1 p.2 w).1 = .diffFound) := by
        constructor
        · rintro (h | ⟨p, hp, hq⟩)
          · exact Or.inl h
          · simp only [List.mem_cons] at hp
            rcases hp with rfl | hp
            · rw [e] at hq; cases hq
            · exact Or.inr ⟨p, hp, hq⟩
        · rintro (h | ⟨p, hp, hq⟩)
          · exact Or.inl h
          · exact Or.inr ⟨p, by simp [hp], hq⟩
      cases hd : sumDiff o t s d w with
      | mk oc recs =>
        rw [hd] at e
        simp only at e
        subst e
        simp only [ih' found]
        by_cases hc : found = true ∨ ∃ p, p ∈ ps ∧ (sumDiff o t p.1 p.2 w).1 = .diffFound
        · rw [if_pos hc, if_pos (hiff.2 hc)]
        · rw [if_neg hc, if_neg (fun h => hc (hiff.1 h))]
    · have e : (sumDiff o t s d w).1 = .diffFound := hp
      have hc : found = true ∨ ∃ p, p ∈ (s, d) :: ps ∧ (sumDiff o t p.1 p.2 w).1 = .diffFound :=
        Or.inr ⟨(s, d), by simp, e⟩
      cases hd : sumDiff o t s d w with
      | mk oc recs =>
        rw [hd] at e
        simp only at e
        subst e
        simp only [ih' true]
        rw [if_pos hc]
        simp

/-- an earlier item that differs is not forgotten when every later item is clean -/
theorem earlier_difference_is_kept (o : FOps) (t : Tree) (w : Window) (first : List String × String)
    (rest : List (List String × String))
    (h1 : (sumDiff o t first.1 first.2 w).1 = .diffFound)
    (hrest : ∀ p ∈ rest, (sumDiff o t p.1 p.2 w).1 = .ok) :
    (sumDiffMany o t w (first :: rest) false).1 = .diffFound := by
  rw [items_any o t w (first :: rest) (by
    intro p hp
    simp only [List.mem_cons] at hp
    rcases hp with rfl | hp
    · exact Or.inr h1
    · exact Or.inl (hrest p hp))]
  rw [if_pos (Or.inr ⟨first, by simp, h1⟩)]

end Wsp.C11
