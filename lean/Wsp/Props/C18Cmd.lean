/-
  C18 at the level of the two commands: on the same file, window and clock, every record
  `view` prints with a known (non-NaN) value whose time lies inside the requested range is
  also printed by `view-raw` — with the same archive id, time and value — sorted or not.
-/
import Wsp.Props.C08Cmd
import Wsp.Props.C18Ring
namespace Wsp.C18
open Wsp.Handle Wsp.C14 Wsp.Total Wsp.C01 Wsp.Cmd Wsp.Inv Wsp.C08

/-- what is known of archive `k` for this window (what `fetchPlan` yields in the clock zone) -/
structure WinSpec (h : Handle) (w : Window) (k : Nat) (a : Arch) (f cnt : Nat) : Prop where
  arch : h.archs[k]? = some a
  pos : 0 < cnt
  zone : WinZone a f cnt w.now
  plan : ∃ p, fetchPlan h.archs (k : Int) w.from_ w.until' w.now = .ok (some p) ∧ p.a = a ∧ p.fromI = f ∧
    p.untilI = f + a.step.toNat * cnt

theorem win_fetch {h : Handle} {w : Window} {k : Nat} {a : Arch} {f cnt : Nat}
    (sp : WinSpec h w k a f cnt) (st : ArchState h a) :
    h.fetchFromArchive (k : Int) w.from_ w.until' w.now = .ok (some (readSeries h a f cnt)) := by
  obtain ⟨p, hp, hpa, hpf, hpu⟩ := sp.plan
  unfold fetchFromArchive
  rw [hp]
  simp only
  rw [fetchExec_reads h a st f cnt w.now sp.zone sp.pos p hpa hpf hpu]

theorem fetchAll_win (w : Window) (A : Nat → Arch) (F C : Nat → Nat) (h : Handle) (al : AllState h) :
    ∀ (as : List Arch) (i : Nat), i + as.length = h.archs.length →
      (∀ k, k < h.archs.length → WinSpec h w k (A k) (F k) (C k)) →
      fetchAll h w.now w.from_ w.until' i as =
        .ok ((List.range as.length).map fun j => some (readSeries h (A (i + j)) (F (i + j)) (C (i + j)))) := by
  intro as
  induction as with
  | nil => intro i _ _; rfl
  | cons a as ih =>
    intro i hi hspec
    have hil : i < h.archs.length := by simp at hi; omega
    have sp := hspec i hil
    simp only [fetchAll]
    rw [win_fetch sp (al i (A i) sp.arch)]
    simp only
    rw [ih (i + 1) (by simp at hi ⊢; omega) hspec]
    simp only [List.length_cons, List.range_succ_eq_map, List.map_cons, List.map_map]
    congr 2
    apply List.map_congr_left
    intro j _
    simp only [Function.comp]
    have : i + 1 + j = i + (j + 1) := by omega
    rw [this]

theorem archState_view {h : Handle} {a : Arch} (st : ArchState h a) : a.offset + 12 * a.n ≤ h.view.length := by
  cases st with
  | inl f => exact f.view
  | inr l => exact l.1.view

/-- ⟦view-raw⟧'s reading of all archives: all slots of each, in slot order -/
theorem rawAll_reads (A : Nat → Arch) (h : Handle) (al : AllState h) :
    ∀ (as : List Arch) (i : Nat), i + as.length = h.archs.length →
      (∀ k, k < h.archs.length → h.archs[k]? = some (A k)) →
      rawAll h i as = .ok ((List.range as.length).map fun j => (List.range (A (i + j)).n).map (slotAt h (A (i + j)))) := by
  intro as
  induction as with
  | nil => intro i _ _; rfl
  | cons a as ih =>
    intro i hi harch
    have hil : i < h.archs.length := by simp at hi; omega
    simp only [rawAll]
    rw [raw_is_all_slots h i (A i) (harch i hil) (archState_view (al i (A i) (harch i hil)))]
    simp only
    rw [ih (i + 1) (by simp at hi ⊢; omega) harch]
    simp only [List.length_cons, List.range_succ_eq_map, List.map_cons, List.map_map]
    congr 2
    apply List.map_congr_left
    intro j _
    simp only [Function.comp]
    have : i + 1 + j = i + (j + 1) := by omega
    rw [this]

/-- the points `view` prints for a window of the ring -/
theorem seriesPoints_read (h : Handle) (a : Arch) (f cnt : Nat) (hs : 0 < a.step)
    (hhi : f + a.step.toNat * cnt < 2147483648) (p : Point)
    (hp : p ∈ seriesPoints (some (readSeries h a f cnt))) :
    ∃ j, j < cnt ∧ p = ⟨f + a.step.toNat * j, ringValue h a (slotAt h a 0).t (f + a.step.toNat * j)⟩ := by
  obtain ⟨j, hj, e⟩ := List.mem_iff_getElem.1 hp
  have hlen : (seriesPoints (some (readSeries h a f cnt))).length = cnt := by
    have : ∀ (vs : List Val) (i : Nat), (seriesPointsFrom f a.step i vs).length = vs.length := by
      intro vs
      induction vs with
      | nil => intro i; rfl
      | cons v vs ih => intro i; simp [seriesPointsFrom, ih]
    simp only [seriesPoints, sFrom, sStep, sValues, readSeries, this]
    simp
  have hjc : j < cnt := by omega
  have hg := series_point_times f a.step 0 ((List.range cnt).map fun j =>
    ringValue h a (slotAt h a 0).t (f + a.step.toNat * j)) j (by simpa using hjc)
  have hgp : (seriesPoints (some (readSeries h a f cnt)))[j]? = some p := by
    rw [List.getElem?_eq_getElem hj, e]
  simp only [seriesPoints, sFrom, sStep, sValues, readSeries] at hgp
  rw [hg] at hgp
  injection hgp with hgp
  refine ⟨j, hjc, ?_⟩
  rw [← hgp]
  have hsn : ((a.step.toNat : Nat) : Int) = a.step := by omega
  have hmul : a.step.toNat * j ≤ a.step.toNat * cnt := Nat.mul_le_mul_left _ (by omega)
  have hpI : (((0 + j : Nat) : Int) * a.step) = ((a.step.toNat * j : Nat) : Int) := by
    push_cast; rw [hsn]; simp [Int.mul_comm]
  rw [hpI]
  have e1 : i32 ((a.step.toNat * j : Nat) : Int) = ((a.step.toNat * j : Nat) : Int) := i32_id _ (by omega) (by omega)
  rw [e1]
  have ht := tsAdd_ideal f ((a.step.toNat * j : Nat) : Int) (by omega) (by omega)
  have ht' : tsAdd f ((a.step.toNat * j : Nat) : Int) = f + a.step.toNat * j := by omega
  rw [ht']
  have hval : ((List.range cnt).map fun j => ringValue h a (slotAt h a 0).t (f + a.step.toNat * j)).getD j 0 =
      ringValue h a (slotAt h a 0).t (f + a.step.toNat * j) := by simp [hjc]
  rw [hval]

/-- **view ⊆ view-raw, command to command** (all archives selected, window inside the clock
    zone): a record of `view` with a known value and a time inside the requested range is a
    record of `view-raw` over the same range, sorted or not -/
theorem view_subset_viewRaw (o : FOps) (t : Tree) (path : String) (b : Bytes) (h : Handle) (w : Window) (sort : Bool)
    (A : Nat → Arch) (F C : Nat → Nat)
    (hget : t.get path = some b) (hopen : openBytes o b = .ok h) (al : AllState h)
    (hall : w.archiveID = -1) (hu : w.until' < 2147483648)
    (hspec : ∀ k, k < h.archs.length → WinSpec h w k (A k) (F k) (C k))
    (r : Rec) (hr : r ∈ (Cmd.view o t path w).2.2) (hv : r.v ≠ nanBits)
    (hrange : (w.from_ = 0 ∨ w.from_ < r.t) ∧ r.t ≤ w.until') :
    r ∈ (viewRaw o t path w sort).2.2 := by
  have hfa := fetchAll_win w A F C h al h.archs 0 (by simp) hspec
  simp only [Nat.zero_add] at hfa
  have hra := rawAll_reads A h al h.archs 0 (by simp) (fun k hk => (hspec k hk).arch)
  simp only [Nat.zero_add] at hra
  -- the records of view
  unfold Cmd.view readFile at hr
  rw [hget] at hr
  simp only at hr
  rw [hopen] at hr
  simp only [fetchList] at hr
  rw [if_pos hall, hfa] at hr
  simp only at hr
  obtain ⟨pts, p, hpl, hp, er⟩ := view_sound _ r hr
  simp only [List.getElem?_map] at hpl
  have hk : r.arch < h.archs.length := by
    cases hrk : (List.range h.archs.length)[r.arch]? with
    | none => rw [hrk] at hpl; simp at hpl
    | some j => have := (List.getElem?_eq_some_iff.1 hrk).1; simpa using this
  have hrk : (List.range h.archs.length)[r.arch]? = some r.arch := by simp [hk]
  rw [hrk] at hpl
  simp only [Option.map_some, Option.some.injEq] at hpl
  subst hpl
  have sp := hspec r.arch hk
  obtain ⟨j, hj, ep⟩ := seriesPoints_read h (A r.arch) (F r.arch) (C r.arch) sp.zone.ok.1 sp.zone.hi p hp
  have hrt : r.t = p.t := by rw [er]
  have hrv : r.v = p.v := by rw [er]
  -- a known value is the slot of exactly that interval
  have hvp : ringValue h (A r.arch) (slotAt h (A r.arch) 0).t (F r.arch + (A r.arch).step.toNat * j) ≠ nanBits := by
    rw [hrv, ep] at hv; exact hv
  obtain ⟨hst, hsv⟩ := no_foreign_value h (A r.arch) _ _ hvp
  have hn : 0 < (A r.arch).n := sp.zone.ok.2.1
  have hlt : slotIdx (A r.arch) (slotAt h (A r.arch) 0).t (F r.arch + (A r.arch).step.toNat * j) < (A r.arch).n := by
    have := pointIndex_range (A r.arch) hn (slotAt h (A r.arch) 0).t (F r.arch + (A r.arch).step.toNat * j)
    unfold slotIdx; omega
  have hpslot : p = slotAt h (A r.arch) (slotIdx (A r.arch) (slotAt h (A r.arch) 0).t (F r.arch + (A r.arch).step.toNat * j)) := by
    rw [ep, hsv]
    cases hsl : slotAt h (A r.arch) (slotIdx (A r.arch) (slotAt h (A r.arch) 0).t (F r.arch + (A r.arch).step.toNat * j)) with
    | mk t' v' =>
      rw [hsl] at hst
      simp only at hst
      subst hst
      rfl
  have hpraw : p ∈ (List.range (A r.arch).n).map (slotAt h (A r.arch)) :=
    List.mem_map.mpr ⟨_, List.mem_range.mpr hlt, hpslot.symm⟩
  -- the range filter keeps it
  have hs := sp.zone.ok.1
  have hs2 : (A r.arch).step < 2147483648 := by
    have := sp.zone.ok.2.2
    have : (A r.arch).step * 1 ≤ (A r.arch).step * ((A r.arch).n : Int) :=
      Int.mul_le_mul_of_nonneg_left (by omega) (by omega)
    omega
  have hfil : p ∈ filterRaw (A r.arch) w.from_ w.until' ((List.range (A r.arch).n).map (slotAt h (A r.arch))) := by
    rw [raw_filter_iff]
    refine ⟨hpraw, by rw [← hrt]; exact hrange.1, ?_⟩
    rw [← hrt]
    split
    · have := tsAdd_ideal w.until' (A r.arch).step (by omega) (by omega)
      have := hrange.2
      omega
    · exact hrange.2
  -- the records of view-raw
  unfold viewRaw
  rw [hget]
  simp only
  rw [hopen]
  simp only
  rw [if_pos hall, hra]
  simp only
  have harch : h.archs[r.arch]? = some (A r.arch) := sp.arch
  rw [er]
  have hzip : ((List.map (fun j => List.map (slotAt h (A j)) (List.range (A j).n)) (List.range h.archs.length)).zip
      h.archs)[r.arch]? = some ((List.range (A r.arch).n).map (slotAt h (A r.arch)), A r.arch) := by
    apply List.getElem?_zip_eq_some.2
    refine ⟨?_, harch⟩
    simp only [List.getElem?_map, hrk, Option.map_some]
  cases sort with
  | false =>
    simp only [Bool.false_eq_true, if_false]
    apply view_complete _ r.arch (filterRaw (A r.arch) w.from_ w.until' ((List.range (A r.arch).n).map (slotAt h (A r.arch)))) p _ hfil
    rw [List.getElem?_map, hzip]
    rfl
  | true =>
    simp only [if_true]
    apply view_complete _ r.arch (sortByTime (filterRaw (A r.arch) w.from_ w.until'
      ((List.range (A r.arch).n).map (slotAt h (A r.arch))))) p _ ((sortByTime_perm _).mem_iff.2 hfil)
    rw [List.getElem?_map, List.getElem?_map, hzip]
    rfl

end Wsp.C18
