/-
  C12 under plain conditions: a file satisfying the invariant, the clock inside the zone of
  every archive, a request window reaching every archive — then `view` through the server
  prints what the local `view` prints.
-/
import Wsp.Props.C12View
import Wsp.Props.C18Plain
namespace Wsp.C12
open Wsp.Handle Wsp.C14 Wsp.Total Wsp.C01 Wsp.Cmd Wsp.Inv Wsp.C08 Wsp.C18

theorem view_remote_eq_local_plain (o : FOps) (t : Tree) (path : String) (b : Bytes) (h : Handle) (w : Window)
    (hget : t.get path = some b) (hopen : openBytes o b = .ok h) (al : AllState h)
    (hall : w.archiveID = -1) (hfu : w.from_ ≤ w.until') (hfn : w.from_ ≤ w.now)
    (hz : ∀ a ∈ h.archs, ¬ w.until' < tsAdd w.now (- a.maxRetention) ∧ a.step * (a.n : Int) ≤ w.now ∧
      (w.now : Int) + 2 * a.step < 2147483648) :
    viewRemote o t path w = Cmd.view o t path w := by
  have g := open_good o b _ h hopen
  have hex : ∀ k, ∃ a f cnt, k < h.archs.length → WinSpec h w k a f cnt := by
    intro k
    by_cases hk : k < h.archs.length
    · have ha : h.archs[k]? = some (h.archs[k]) := List.getElem?_eq_getElem hk
      obtain ⟨h1, h2, h3⟩ := hz _ (List.getElem_mem hk)
      obtain ⟨f, cnt, sp⟩ := winSpec_of_window h g w k _ ha hfu hfn h1 h2 h3
      exact ⟨_, f, cnt, fun _ => sp⟩
    · exact ⟨⟨0, 0, 0⟩, 0, 0, fun hk' => absurd hk' hk⟩
  exact view_remote_eq_local o t path b h w
    (fun k => Classical.choose (hex k))
    (fun k => Classical.choose (Classical.choose_spec (hex k)))
    (fun k => Classical.choose (Classical.choose_spec (Classical.choose_spec (hex k))))
    hget hopen al hall
    (fun k hk => Classical.choose_spec (Classical.choose_spec (Classical.choose_spec (hex k))) hk)

end Wsp.C12
