/-
  Reopening (anchors: C05 "any other handle opening the file observes the same series as
  the live handle", C07 "a layout that Create accepts round-trips through the file").

  `Reopenable h`: the handle's view starts with the encoding of its (well-formed) header and
  is as long as the header says.  It holds of every handle `Create` returns, every update
  preserves it, and `Open` on such a view returns exactly that handle — header and view —
  so every fetch, raw read and later update of the reopened handle equals the live one's.
  With `Sync` copying the view to the disk, a handle opened after a Sync IS the synced
  handle (`open_after_sync`).
-/
import Wsp.Props.Total
import Wsp.Props.C01System
namespace Wsp.Reopen
open Wsp.Handle Wsp.C14 Wsp.Total

structure Reopenable (o : FOps) (h : Handle) : Prop where
  wf : HeaderWF o h.hdr
  pre : h.view.take (16 + 12 * h.hdr.archives.length) = encHeader h.hdr
  len : h.hdr.expectedFileSize ≤ h.view.length

/-- the first sixteen bytes ask for exactly the whole header -/
theorem decHeader_first16 (o : FOps) (h : Header) (wf : HeaderWF o h) (hne : h.archives ≠ []) :
    decHeader o ((encHeader h).take 16) = .error (.wantLarger (((16 + h.count * 12 : Nat)) : Int)) := by
  obtain ⟨hagg, hxff, hm1, hm2, hc, hcl, harch, hval⟩ := wf
  have hL := encHeader_length h
  have hpos : 0 < h.archives.length := List.length_pos_iff.mpr hne
  have hagg' : h.agg < 4294967296 := by
    simp [validAgg] at hagg; omega
  unfold decHeader
  have hl : ¬ ((encHeader h).take 16).length < 16 := by simp; omega
  simp only [hl, if_false]
  have e0 : de32 ((encHeader h).take 16) = h.agg := by
    rw [de32_take _ _ (by omega)]
    simp only [encHeader, List.append_assoc, u32_of_nat _ hagg', de32_be32_append _ hagg']
  have e2 : de32 (((encHeader h).take 16).drop 8) = h.xff.toNat := by
    rw [de32_drop_take _ _ _ (by omega)]
    simp only [encHeader, encDuration, List.append_assoc, drop8_be32_be32,
      de32_be32_append _ h.xff.toNat_lt]
  have e3 : de32 (((encHeader h).take 16).drop 12) = h.count := by
    rw [de32_drop_take _ _ _ (by omega)]
    simp only [encHeader, encDuration, List.append_assoc, drop12_be32x3, de32_be32_append _ hcl]
  have hx : UInt32.ofNat h.xff.toNat = h.xff := by simp
  simp only [e0, e2, e3, hx, hagg, hxff, Bool.not_true, Bool.false_eq_true, if_false]
  have h3 : (List.drop 16 (List.take 16 (encHeader h))).length < h.count * 12 := by
    simp; omega
  simp only [h3, if_true]
  congr 2

/-- the successful two-step path of ⟦readHeader⟧ -/
theorem readHeader_two_step (o : FOps) (view : Bytes) (ps : Nat) (b b2 : Bytes) (n : Int) (h : Header) (r : Bytes)
    (h1 : readAt view 0 16 = .ok b) (h2 : decHeader o b = .error (.wantLarger n))
    (h3 : ¬ n > (view.length : Int)) (h4 : readAt view 0 n.toNat = .ok b2)
    (h5 : decHeader o (b2 ++ List.replicate ((if n.toNat > ps then n.toNat else ps) - n.toNat) 0) = .ok (h, r)) :
    readHeader o view ps = .ok h := by
  unfold readHeader
  simp only [bind, Except.bind]
  rw [h1]
  simp only []
  rw [h2]
  simp only []
  rw [if_neg h3]
  rw [h4]
  simp only []
  rw [h5]
  simp [pure, Except.pure]

/-- ⟦readHeader⟧ on a view that starts with an encoded well-formed header returns it -/
theorem readHeader_encoded (o : FOps) (hd : Header) (wf : HeaderWF o hd) (view : Bytes) (ps : Nat)
    (hpre : view.take (16 + 12 * hd.archives.length) = encHeader hd)
    (hlen : 16 + 12 * hd.archives.length ≤ view.length) :
    readHeader o view ps = .ok hd := by
  have hne : hd.archives ≠ [] := by
    have := wf.valid
    intro e; rw [e] at this; simp [validateArchs] at this
  have hL := encHeader_length hd
  have hc := wf.count
  have h16 : view.take 16 = (encHeader hd).take 16 := by
    rw [← hpre, List.take_take]; congr 1; omega
  have r1 : readAt view 0 16 = .ok ((encHeader hd).take 16) := by
    unfold readAt
    have : ¬ (0 + 16 > view.length) := by omega
    rw [if_neg this, List.drop_zero, h16]
  generalize hN : 16 + 12 * hd.archives.length = N at *
  have hcN : 16 + hd.count * 12 = N := by rw [hc]; omega
  have hn : (N : Int).toNat = N := by omega
  have r2 : readAt view 0 (N : Int).toNat = .ok (encHeader hd) := by
    rw [hn]
    unfold readAt
    have : ¬ (0 + N > view.length) := by omega
    rw [if_neg this, List.drop_zero, hpre]
  have d1 := decHeader_first16 o hd wf hne
  rw [hcN] at d1
  have hgt : ¬ ((N : Int) > (view.length : Int)) := by omega
  exact readHeader_two_step o view ps _ _ (N : Int) hd _ r1 d1 hgt r2 (roundtrip_header o hd wf _)

/-- **`Open` on a reopenable view returns that very handle** -/
theorem open_reopenable (o : FOps) (h : Handle) (r : Reopenable o h) (ps : Nat) :
    openBytes o h.view ps = .ok h := by
  have hefs : 16 + 12 * h.hdr.archives.length ≤ h.view.length := by
    have := r.len
    have hc := r.wf.count
    have : h.hdr.size ≤ h.hdr.expectedFileSize := by
      unfold Header.expectedFileSize
      have : ∀ (as : List Arch) (s : Nat), s ≤ as.foldl (fun sz a => sz + a.n * 12) s := by
        intro as
        induction as with
        | nil => intro s; simp
        | cons a as ih => intro s; simp only [List.foldl_cons]; have := ih (s + a.n * 12); omega
      exact this _ _
    unfold Header.size at this
    rw [hc] at this
    omega
  unfold openBytes
  simp only [bind, Except.bind]
  rw [readHeader_encoded o h.hdr r.wf h.view ps r.pre hefs]
  simp only
  have : ¬ (h.view.length < h.hdr.expectedFileSize) := by have := r.len; omega
  simp [this, pure, Except.pure]

/-- updates keep a handle reopenable (header bytes and length never change) -/
theorem Reopenable.of_frame {o : FOps} {h h' : Handle} (r : Reopenable o h)
    (f : Frame (16 + 12 * h.hdr.archives.length) h h') : Reopenable o h' := by
  refine ⟨by rw [f.1]; exact r.wf, ?_, ?_⟩
  · rw [f.1, f.2.2]; exact r.pre
  · rw [f.1, f.2.1]; exact r.len

theorem created_hdr (o : FOps) (agg : Nat) (xff : UInt32) (lay : List (Int × Nat)) (disk : Bytes) (h : Handle)
    (hc : createHandle o agg xff lay = .ok (disk, h)) :
    ∃ last, h.hdr.archives.getLast? = some last ∧ h.hdr.maxRet = last.maxRetention := by
  unfold createHandle at hc
  simp only [bind, Except.bind] at hc
  cases hn : newHeader o agg xff lay with
  | error e => simp [hn] at hc
  | ok hd =>
    simp only [hn] at hc
    cases hw : writeAt (List.replicate hd.expectedFileSize 0) 0 (encHeader hd) with
    | error e => simp [hw] at hc
    | ok v =>
      simp only [hw, pure, Except.pure] at hc
      injection hc with hc
      injection hc with h1 h2
      subst h2
      simp only
      unfold newHeader at hn
      dsimp only at hn
      split at hn
      · simp at hn
      · split at hn
        · simp at hn
        · split at hn
          · simp at hn
          · split at hn
            · simp at hn
            · rename_i last hl
              injection hn with hn; subst hn
              exact ⟨last, hl, rfl⟩

/-- **every handle `Create` returns is reopenable** -/
theorem created_reopenable (o : FOps) (agg : Nat) (xff : UInt32) (lay : List (Int × Nat)) (hl : LayInRange lay)
    (disk : Bytes) (h : Handle) (hc : createHandle o agg xff lay = .ok (disk, h)) : Reopenable o h := by
  have g := create_good o agg xff lay hl disk h hc
  have hv := C20.created_view o agg xff lay disk h hc
  have hlen := C05.create_length o agg xff lay disk h hc
  have hcnt := C01.created_count o agg xff lay disk h hc
  have hval := C20.created_is_valid o agg xff lay disk h hc
  have hsmall : h.hdr.archives.length < 4294967296 := by have := g.wf.2.1; omega
  have hcount : h.hdr.count = h.hdr.archives.length := by rw [hcnt]; exact u32_of_nat _ hsmall
  obtain ⟨last, hlast, hmr⟩ := created_hdr o agg xff lay disk h hc
  have hlm : last ∈ h.hdr.archives := List.mem_of_getLast? hlast
  have lok := wfFrom_archOK _ _ g.wf.2.2 last hlm
  have hmri := maxRetention_ideal last lok
  have hxff : o.xffValid h.hdr.xff = true := by
    rw [hval.2.2.2]
    have hn : newHeader o agg xff lay ≠ .error (.err .invalid) := by
      intro hbad
      unfold createHandle at hc
      simp [bind, Except.bind, hbad] at hc
    cases hx : o.xffValid xff with
    | true => rfl
    | false => exact absurd (C07.newHeader_rejects o agg xff lay (Or.inr (Or.inl hx))) hn
  have hL := encHeader_length h.hdr
  refine ⟨⟨g.2, hxff, ?_, ?_, hcount, by omega, g.1.range, g.1.valid⟩, ?_, ?_⟩
  · rw [hmr, hmri]; have := Int.mul_nonneg (Int.le_of_lt lok.1) (Int.natCast_nonneg last.n); omega
  · rw [hmr, hmri]; have := lok.2.2; omega
  · rw [hv, List.take_append_of_le_length (by omega), ← hL, List.take_length]
  · rw [hlen.2.1, hlen.1]; omega

/-- a handle re-created in place can be reopened from what it publishes -/
theorem recreate_reopenable (o : FOps) (agg : Nat) (xff : UInt32) (lay : List (Int × Nat)) (hl : LayInRange lay)
    (old disk : Bytes) (h : Handle) (hc : recreateHandle o agg xff lay old = .ok (disk, h)) : Reopenable o h := by
  obtain ⟨d0, h0, hc0, hh, h1, h2, h3, _⟩ := recreate_spec o agg xff lay old disk h hc
  have r0 := created_reopenable o agg xff lay hl d0 h0 hc0
  have hL := encHeader_length h.hdr
  refine ⟨by rw [hh]; exact r0.wf, ?_, ?_⟩
  · rw [← hL]; exact h3
  · rw [h2, h1]; exact Nat.le_refl _

/-! ### the file/handle state machine -/

/-- the live handle, if any, is reopenable -/
def WReop (o : FOps) (w : World) : Prop := ∀ h, w.h = some h → Good h ∧ Reopenable o h

/-- a `Create`d file stays reopenable through every update -/
def ReopOpOK : LibOp → Prop
  | .create lay _ _ => LayInRange lay
  | .createOver lay _ _ => LayInRange lay
  | .open_ => False
  | _ => True

theorem step_reopenable (o : FOps) (w : World) (op : LibOp) (hw : WReop o w) (hop : ReopOpOK op) :
    WReop o (w.step o op).1 := by
  have fresh : ∀ lay agg xff, LayInRange lay → WReop o (w.createFresh o lay agg xff).1 := by
    intro lay agg xff hl
    unfold World.createFresh
    cases hc : createHandle o agg xff lay with
    | ok r =>
      obtain ⟨disk, h⟩ := r
      intro h' hh; simp at hh; subst hh
      exact ⟨create_good o agg xff lay hl disk h hc, created_reopenable o agg xff lay hl disk h hc⟩
    | error e => exact hw
  cases op with
  | create lay agg xff =>
    simp only [World.step]
    cases hd : w.disk with
    | some d => intro h hh; simp at hh
    | none => exact fresh lay agg xff hop
  | createOver lay agg xff =>
    simp only [World.step]
    cases hd : w.disk with
    | none => exact fresh lay agg xff hop
    | some d =>
      simp only
      cases hc : recreateHandle o agg xff lay d with
      | ok r =>
        obtain ⟨disk, h⟩ := r
        intro h' hh; simp at hh; subst hh
        exact ⟨recreate_good o agg xff lay hop d disk h hc, recreate_reopenable o agg xff lay hop d disk h hc⟩
      | error e => intro h hh; simp at hh
  | open_ => exact absurd hop id
  | sync =>
    simp only [World.step]
    cases hh : w.h with
    | none => intro h h2; rw [hh] at h2; cases h2
    | some h => intro h' h2; simp at h2; subst h2; exact hw h hh
  | drop => intro h hh; simp [World.step] at hh
  | upd k t v now =>
    simp only [World.step]
    cases hh : w.h with
    | none => intro h h2; rw [hh] at h2; cases h2
    | some h =>
      obtain ⟨g, r⟩ := hw h hh
      simp only
      cases hu : h.updatePoint o k t v now with
      | ok h' =>
        intro h2 e; simp at e; subst e
        have f := updatePoint_frame o h h' g.placed k t v now hu
        exact ⟨g.of_frame f, r.of_frame f⟩
      | error e => exact hw
  | updMany k now pts =>
    simp only [World.step]
    cases hh : w.h with
    | none => intro h h2; rw [hh] at h2; cases h2
    | some h =>
      obtain ⟨g, r⟩ := hw h hh
      simp only
      cases hu : h.updateMany o pts k now with
      | ok h' =>
        intro h2 e; simp at e; subst e
        have f := updateMany_frame o h h' g.placed pts k now hu
        exact ⟨g.of_frame f, r.of_frame f⟩
      | error e => exact hw
  | setDisk b => intro h hh; simp [World.step] at hh
  | rmDisk => intro h hh; simp [World.step] at hh

/-- **what another handle sees after `Sync`**: with a reopenable live handle `h`, after
    `sync` the disk holds `h.view`, and opening it yields `h` itself — the same header and
    the same bytes, hence the same result for every fetch, raw read and update -/
theorem open_after_sync (o : FOps) (w : World) (h : Handle) (hh : w.h = some h) (r : Reopenable o h) :
    (w.step o .sync).1.disk = some h.view ∧
    (((w.step o .sync).1.step o .drop).1.step o .open_) = (⟨some h.view, some h⟩, .ok) := by
  simp only [World.step, hh]
  refine ⟨trivial, ?_⟩
  rw [open_reopenable o h r]

end Wsp.Reopen
