/-
  ⟦Create⟧ with an open flag that allows an existing file (no O_EXCL, no O_TRUNC): the file
  is cut or extended to the size of the new layout at once — what it held inside that size
  stays — and the header goes to the buffer.  Whatever the old file was, the new file has
  exactly the length of its layout (C06), the handle is as good as a freshly created one,
  and after `Sync` it reopens as itself.
-/
import Wsp.Props.Reopen
import Wsp.Model.Recreate
namespace Wsp

namespace Recreate
open Wsp.Handle Wsp.C14 Wsp.Total Wsp.Reopen

theorem resized_length (old : Bytes) (size : Nat) :
    (old.take size ++ List.replicate (size - old.length) 0).length = size := by
  simp only [List.length_append, List.length_take, List.length_replicate]
  omega

/-- a re-created file is a created file with other bytes behind the header -/
theorem recreate_spec (o : FOps) (agg : Nat) (xff : UInt32) (lay : List (Int × Nat)) (old disk : Bytes) (h : Handle)
    (hc : recreateHandle o agg xff lay old = .ok (disk, h)) :
    ∃ d0 h0, createHandle o agg xff lay = .ok (d0, h0) ∧ h.hdr = h0.hdr ∧
      disk.length = h.hdr.expectedFileSize ∧ h.view.length = disk.length ∧
      h.view.take (encHeader h.hdr).length = encHeader h.hdr ∧
      disk = old.take h.hdr.expectedFileSize ++ List.replicate (h.hdr.expectedFileSize - old.length) 0 := by
  unfold recreateHandle at hc
  cases hn : newHeader o agg xff lay with
  | error e => rw [hn] at hc; simp at hc
  | ok hd =>
    rw [hn] at hc
    simp only at hc
    cases hw : writeAt (old.take hd.expectedFileSize ++ List.replicate (hd.expectedFileSize - old.length) 0) 0 (encHeader hd) with
    | error e => rw [hw] at hc; simp at hc
    | ok v =>
      rw [hw] at hc
      simp only at hc
      injection hc with hc
      injection hc with h1 h2
      subst h1 h2
      obtain ⟨hle, hv⟩ := writeAt_ok _ _ _ _ hw
      have hlen := resized_length old hd.expectedFileSize
      rw [hlen] at hle
      -- the fresh creation succeeds too: the header fits in the file
      have hw0 : ∃ v0, writeAt (List.replicate hd.expectedFileSize 0) 0 (encHeader hd) = .ok v0 := by
        unfold writeAt
        have : ¬ (0 + (encHeader hd).length > (List.replicate hd.expectedFileSize (0 : UInt8)).length) := by
          simp; omega
        rw [if_neg this]
        exact ⟨_, rfl⟩
      obtain ⟨v0, hv0⟩ := hw0
      refine ⟨List.replicate hd.expectedFileSize 0, ⟨hd, v0⟩, ?_, rfl, hlen, ?_, ?_, rfl⟩
      · unfold createHandle
        simp only [bind, Except.bind, hn, hv0, pure, Except.pure]
      · simp only
        rw [hv]
        simp only [List.take_zero, List.nil_append, List.length_append, List.length_drop, hlen]
        omega
      · simp only
        rw [hv]
        simp

theorem recreate_good (o : FOps) (agg : Nat) (xff : UInt32) (lay : List (Int × Nat)) (hl : LayInRange lay)
    (old disk : Bytes) (h : Handle) (hc : recreateHandle o agg xff lay old = .ok (disk, h)) : Good h := by
  obtain ⟨d0, h0, hc0, hh, _⟩ := recreate_spec o agg xff lay old disk h hc
  have g0 := create_good o agg xff lay hl d0 h0 hc0
  refine ⟨⟨?_, ?_⟩, ?_⟩
  · rw [hh]; exact g0.1.valid
  · rw [hh]; exact g0.1.range
  · rw [hh]; exact g0.2

/-- **C06, length**: a file re-created in place has exactly the length of its new layout,
    whatever it held before -/
theorem recreate_length (o : FOps) (agg : Nat) (xff : UInt32) (lay : List (Int × Nat))
    (old disk : Bytes) (h : Handle) (hc : recreateHandle o agg xff lay old = .ok (disk, h)) :
    disk.length = h.hdr.expectedFileSize ∧ h.view.length = h.hdr.expectedFileSize := by
  obtain ⟨_, _, _, _, h1, h2, _⟩ := recreate_spec o agg xff lay old disk h hc
  exact ⟨h1, h2.trans h1⟩

/-- the handle can be reopened from what it publishes -/
theorem recreate_reopenable (o : FOps) (agg : Nat) (xff : UInt32) (lay : List (Int × Nat)) (hl : LayInRange lay)
    (old disk : Bytes) (h : Handle) (hc : recreateHandle o agg xff lay old = .ok (disk, h)) : Reopenable o h := by
  obtain ⟨d0, h0, hc0, hh, h1, h2, h3, _⟩ := recreate_spec o agg xff lay old disk h hc
  have r0 := created_reopenable o agg xff lay hl d0 h0 hc0
  have hL := encHeader_length h.hdr
  refine ⟨by rw [hh]; exact r0.wf, ?_, ?_⟩
  · rw [← hL]; exact h3
  · rw [h2, h1]; exact Nat.le_refl _

/-- what the old file held behind the header and inside the new size is still there -/
theorem recreate_keeps_old_bytes (o : FOps) (agg : Nat) (xff : UInt32) (lay : List (Int × Nat))
    (old disk : Bytes) (h : Handle) (hc : recreateHandle o agg xff lay old = .ok (disk, h)) :
    disk.take (min old.length h.hdr.expectedFileSize) = old.take h.hdr.expectedFileSize := by
  obtain ⟨_, _, _, _, _, _, _, hd⟩ := recreate_spec o agg xff lay old disk h hc
  rw [hd]
  have hl : (old.take h.hdr.expectedFileSize).length = min old.length h.hdr.expectedFileSize := by
    simp [List.length_take]; omega
  rw [← hl, List.take_left']
  rfl

end Recreate
end Wsp
