/-
  ⟦Create⟧ with an open flag that allows an existing file (no O_EXCL, no O_TRUNC): the file
  is cut or extended to the size of the new layout at once — what it held inside that size
  stays — and the header goes to the buffer.  Whatever the old file was, the new file has
  exactly the length of its layout (C06), the handle is as good as a freshly created one,
  and after `Sync` it reopens as itself.
-/
import Wsp.Props.Reopen
import Wsp.Model.Recreate
namespace Wsp

namespace Recreate
open Wsp.Handle Wsp.C14 Wsp.Total Wsp.Reopen

/-- **C06, length**: a file re-created in place has exactly the length of its new layout,
    whatever it held before -/
theorem recreate_length (o : FOps) (agg : Nat) (xff : UInt32) (lay : List (Int × Nat))
    (old disk : Bytes) (h : Handle) (hc : recreateHandle o agg xff lay old = .ok (disk, h)) :
    disk.length = h.hdr.expectedFileSize ∧ h.view.length = h.hdr.expectedFileSize := by
  obtain ⟨_, _, _, _, h1, h2, _⟩ := recreate_spec o agg xff lay old disk h hc
  exact ⟨h1, h2.trans h1⟩

/-- the handle can be reopened from what it publishes -/
theorem recreate_reopenable (o : FOps) (agg : Nat) (xff : UInt32) (lay : List (Int × Nat)) (hl : LayInRange lay)
    (old disk : Bytes) (h : Handle) (hc : recreateHandle o agg xff lay old = .ok (disk, h)) : Reopenable o h :=
  Reopen.recreate_reopenable o agg xff lay hl old disk h hc

theorem recreate_spec (o : FOps) (agg : Nat) (xff : UInt32) (lay : List (Int × Nat)) (old disk : Bytes) (h : Handle)
    (hc : recreateHandle o agg xff lay old = .ok (disk, h)) :
    ∃ d0 h0, createHandle o agg xff lay = .ok (d0, h0) ∧ h.hdr = h0.hdr ∧
      disk.length = h.hdr.expectedFileSize ∧ h.view.length = disk.length ∧
      h.view.take (encHeader h.hdr).length = encHeader h.hdr ∧
      disk = old.take h.hdr.expectedFileSize ++ List.replicate (h.hdr.expectedFileSize - old.length) 0 :=
  Total.recreate_spec o agg xff lay old disk h hc

theorem recreate_good (o : FOps) (agg : Nat) (xff : UInt32) (lay : List (Int × Nat)) (hl : LayInRange lay)
    (old disk : Bytes) (h : Handle) (hc : recreateHandle o agg xff lay old = .ok (disk, h)) : Good h :=
  Total.recreate_good o agg xff lay hl old disk h hc

/-- what the old file held behind the header and inside the new size is still there -/
theorem recreate_keeps_old_bytes (o : FOps) (agg : Nat) (xff : UInt32) (lay : List (Int × Nat))
    (old disk : Bytes) (h : Handle) (hc : recreateHandle o agg xff lay old = .ok (disk, h)) :
    disk.take (min old.length h.hdr.expectedFileSize) = old.take h.hdr.expectedFileSize := by
  obtain ⟨_, _, _, _, _, _, _, hd⟩ := recreate_spec o agg xff lay old disk h hc
  rw [hd]
  have hl : (old.take h.hdr.expectedFileSize).length = min old.length h.hdr.expectedFileSize := by
    simp [List.length_take]; omega
  rw [← hl, List.take_left']
  rfl

/-- **re-create, Sync, reopen**: the state machine's `createOver` on an existing file gives the
    re-created handle at once (the file already has its new length), and after `Sync` another
    `Open` sees exactly that handle -/
theorem createOver_sync_reopen (o : FOps) (w : World) (lay : List (Int × Nat)) (agg : Nat) (xff : UInt32)
    (hl : LayInRange lay) (d disk : Bytes) (h : Handle) (hd : w.disk = some d)
    (hc : recreateHandle o agg xff lay d = .ok (disk, h)) :
    (w.step o (.createOver lay agg xff)).1 = ⟨some disk, some h⟩ ∧
    disk.length = h.hdr.expectedFileSize ∧
    ((((⟨some disk, some h⟩ : World).step o .sync).1.step o .drop).1.step o .open_) = (⟨some h.view, some h⟩, .ok) := by
  refine ⟨?_, (recreate_length o agg xff lay d disk h hc).1, ?_⟩
  · simp only [World.step, hd, hc]
  · exact (open_after_sync o ⟨some disk, some h⟩ h rfl (recreate_reopenable o agg xff lay hl d disk h hc)).2

end Recreate
end Wsp
