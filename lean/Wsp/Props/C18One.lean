/-
  C18, one selected archive: the same statement as `view_subset_viewRaw` when `-archive k`
  names an archive of the file — every record `view` prints with a known value and a time
  inside the requested range is printed by `view-raw`.
-/
import Wsp.Props.C18Cmd
namespace Wsp.C18
open Wsp.Handle Wsp.C14 Wsp.Total Wsp.C01 Wsp.Cmd Wsp.Inv Wsp.C08

theorem view_subset_viewRaw_one (o : FOps) (t : Tree) (path : String) (b : Bytes) (h : Handle) (w : Window) (sort : Bool)
    (k : Nat) (a : Arch) (f cnt : Nat)
    (hget : t.get path = some b) (hopen : openBytes o b = .ok h) (st : ArchState h a)
    (hsel : w.archiveID = (k : Int)) (hu : w.until' < 2147483648)
    (sp : WinSpec h w k a f cnt)
    (r : Rec) (hr : r ∈ (Cmd.view o t path w).2.2) (hv : r.v ≠ nanBits)
    (hrange : (w.from_ = 0 ∨ w.from_ < r.t) ∧ r.t ≤ w.until') :
    r ∈ (viewRaw o t path w sort).2.2 := by
  have hk : k < h.archs.length := (List.getElem?_eq_some_iff.1 sp.arch).1
  have hne : ¬ (w.archiveID = -1) := by rw [hsel]; omega
  have hin : 0 ≤ w.archiveID ∧ w.archiveID < h.archs.length := by rw [hsel]; omega
  have hfetch : h.fetchFromArchive w.archiveID w.from_ w.until' w.now = .ok (some (readSeries h a f cnt)) := by
    rw [hsel]; exact win_fetch sp st
  have hraw : h.rawPoints w.archiveID = .ok ((List.range a.n).map (slotAt h a)) := by
    rw [hsel]; exact raw_is_all_slots h k a sp.arch (archState_view st)
  -- the records of view
  unfold Cmd.view readFile at hr
  rw [hget] at hr
  simp only at hr
  rw [hopen] at hr
  simp only [fetchList] at hr
  rw [if_neg hne, if_pos hin, hfetch] at hr
  simp only at hr
  obtain ⟨pts, p, hpl, hp, er⟩ := view_sound _ r hr
  simp only [List.getElem?_map] at hpl
  have hra : r.arch < h.archs.length := by
    cases hrk : (List.range h.archs.length)[r.arch]? with
    | none => rw [hrk] at hpl; simp at hpl
    | some j => have := (List.getElem?_eq_some_iff.1 hrk).1; simpa using this
  have hrk : (List.range h.archs.length)[r.arch]? = some r.arch := by simp [hra]
  rw [hrk] at hpl
  simp only [Option.map_some, Option.some.injEq] at hpl
  -- only the selected archive has points
  have hrk2 : r.arch = k := by
    by_cases e : ((r.arch : Nat) : Int) = w.archiveID
    · rw [hsel] at e; omega
    · rw [if_neg e] at hpl
      rw [← hpl] at hp
      simp [seriesPoints, seriesPointsFrom, sValues] at hp
  have e1 : ((r.arch : Nat) : Int) = w.archiveID := by rw [hrk2, hsel]
  rw [if_pos e1] at hpl
  subst hpl
  obtain ⟨j, hj, ep⟩ := seriesPoints_read h a f cnt sp.zone.ok.1 sp.zone.hi p hp
  have hrt : r.t = p.t := by rw [er]
  have hrv : r.v = p.v := by rw [er]
  have hvp : ringValue h a (slotAt h a 0).t (f + a.step.toNat * j) ≠ nanBits := by
    rw [hrv, ep] at hv; exact hv
  obtain ⟨hst, hsv⟩ := no_foreign_value h a _ _ hvp
  have hn : 0 < a.n := sp.zone.ok.2.1
  have hlt : slotIdx a (slotAt h a 0).t (f + a.step.toNat * j) < a.n := by
    have := pointIndex_range a hn (slotAt h a 0).t (f + a.step.toNat * j)
    unfold slotIdx; omega
  have hpslot : p = slotAt h a (slotIdx a (slotAt h a 0).t (f + a.step.toNat * j)) := by
    rw [ep, hsv]
    cases hsl : slotAt h a (slotIdx a (slotAt h a 0).t (f + a.step.toNat * j)) with
    | mk t' v' =>
      rw [hsl] at hst
      simp only at hst
      subst hst
      rfl
  have hpraw : p ∈ (List.range a.n).map (slotAt h a) :=
    List.mem_map.mpr ⟨_, List.mem_range.mpr hlt, hpslot.symm⟩
  have hs := sp.zone.ok.1
  have hs2 : a.step < 2147483648 := by
    have := sp.zone.ok.2.2
    have : a.step * 1 ≤ a.step * (a.n : Int) := Int.mul_le_mul_of_nonneg_left (by omega) (by omega)
    omega
  have hfil : p ∈ filterRaw a w.from_ w.until' ((List.range a.n).map (slotAt h a)) := by
    rw [raw_filter_iff]
    refine ⟨hpraw, by rw [← hrt]; exact hrange.1, ?_⟩
    rw [← hrt]
    split
    · have := tsAdd_ideal w.until' a.step (by omega) (by omega)
      have := hrange.2
      omega
    · exact hrange.2
  -- the records of view-raw
  unfold viewRaw
  rw [hget]
  simp only
  rw [hopen]
  simp only
  rw [if_neg hne, if_pos hin, hraw]
  simp only
  rw [er]
  have hzip : (((List.range h.archs.length).map fun (i : Nat) =>
        if (i : Int) = w.archiveID then (List.range a.n).map (slotAt h a) else []).zip h.archs)[r.arch]? =
      some ((List.range a.n).map (slotAt h a), a) := by
    apply List.getElem?_zip_eq_some.2
    refine ⟨?_, by rw [hrk2]; exact sp.arch⟩
    simp only [List.getElem?_map, hrk, Option.map_some, e1, if_true]
  cases sort with
  | false =>
    simp only [Bool.false_eq_true, if_false]
    apply view_complete _ r.arch (filterRaw a w.from_ w.until' ((List.range a.n).map (slotAt h a))) p _ hfil
    rw [List.getElem?_map, hzip]
    rfl
  | true =>
    simp only [if_true]
    apply view_complete _ r.arch (sortByTime (filterRaw a w.from_ w.until'
      ((List.range a.n).map (slotAt h a)))) p _ ((sortByTime_perm _).mem_iff.2 hfil)
    rw [List.getElem?_map, List.getElem?_map, hzip]
    rfl

end Wsp.C18
