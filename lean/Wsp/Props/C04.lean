/-
  C04  Fetch window contract: shape depends only on layout, window and clock.

  `fetchPlan` (the first half of FetchFromArchive) takes only the archive list, the
  archive id, the window and the clock; `fetchExec` adds the values.  So the shape is a
  function of layout, window and clock by construction, and the theorems below say which
  function: when it fails, when it is `none`, and the closed form of the bounds, the step
  and the length inside the zone of DESIGN §3.2 (clock past the retention, times below
  2^31).  `exec_shape` shows the executed fetch has exactly the planned shape whatever the
  archive holds — in particular whether or not it was ever written (base interval 0).
-/
import Wsp.Proofs.Zone
import Wsp.Proofs.CodecLemmas
namespace Wsp.C04
open Wsp.Handle

/-! ### archive selection -/

theorem findBestFrom_lt (diff : Int) (i : Nat) (as : List Arch) (hne : as ≠ []) :
    i ≤ findBestFrom diff i as ∧ findBestFrom diff i as < i + as.length := by
  induction as generalizing i with
  | nil => exact absurd rfl hne
  | cons a rest ih =>
    unfold findBestFrom
    split
    · simp
    · cases rest with
      | nil => simp
      | cons b rest' =>
        have := ih (i + 1) (by simp)
        simp only [List.length_cons] at this ⊢
        omega

/-- "best" is the first archive whose retention reaches back to `from`, else the last one -/
theorem best_archive (diff : Int) (as : List Arch) (hne : as ≠ []) :
    let j := findBestFrom diff 0 as
    (∀ i a, i < j → as[i]? = some a → a.maxRetention < diff) ∧
    ((∃ a, as[j]? = some a ∧ a.maxRetention ≥ diff) ∨ j = as.length - 1) := by
  suffices h : ∀ (i : Nat) (as : List Arch), as ≠ [] →
      (∀ m a, m < findBestFrom diff i as - i → as[m]? = some a → a.maxRetention < diff) ∧
      ((∃ a, as[findBestFrom diff i as - i]? = some a ∧ a.maxRetention ≥ diff) ∨
        findBestFrom diff i as - i = as.length - 1) by
    simpa using h 0 as hne
  intro i as hne
  induction as generalizing i with
  | nil => exact absurd rfl hne
  | cons a rest ih =>
    unfold findBestFrom
    by_cases hge : a.maxRetention ≥ diff
    · simp only [hge, if_true, Nat.sub_self]
      exact ⟨by intro m a' hm; omega, Or.inl ⟨a, by simp, hge⟩⟩
    · simp only [hge, if_false]
      cases rest with
      | nil => simp
      | cons b rest' =>
        have ⟨h1, h2⟩ := ih (i + 1) (by simp)
        have hb := findBestFrom_lt diff (i + 1) (b :: rest') (by simp)
        have e : findBestFrom diff (i + 1) (b :: rest') - i = (findBestFrom diff (i + 1) (b :: rest') - (i + 1)) + 1 := by omega
        simp only [] at *
        rw [e]
        constructor
        · intro m a' hm hget
          cases m with
          | zero => simp at hget; subst hget; omega
          | succ m => exact h1 m a' (by omega) (by simpa using hget)
        · rcases h2 with ⟨a', ha', hr⟩ | h2
          · exact Or.inl ⟨a', by simpa using ha', hr⟩
          · right; simp only [List.length_cons] at h2 ⊢; omega

/-! ### when a fetch fails, when it returns no series -/

def BadId (n : Nat) (k : Int) : Prop := (k ≠ -1 ∧ k < 0) ∨ (n : Int) - 1 < k

/-- the selected archive index (only meaningful when the id is acceptable) -/
def selected (archs : List Arch) (k : Int) (f now : Nat) : Nat :=
  if k = -1 then findBestFrom (tsSub now f) 0 archs else k.toNat

theorem selected_lt (archs : List Arch) (hne : archs ≠ []) (k : Int) (f now : Nat) (hk : ¬ BadId archs.length k) :
    selected archs k f now < archs.length := by
  unfold selected BadId at *
  by_cases h : k = -1
  · simp only [h, if_true]
    have := findBestFrom_lt (tsSub now f) 0 archs hne
    omega
  · simp only [h, if_false]
    omega

/-- a fetch fails iff `from > until` or the archive id is out of range -/
theorem fail_iff (archs : List Arch) (hne : archs ≠ []) (k : Int) (f u now : Nat) :
    (∃ e, fetchPlan archs k f u now = .error e) ↔ (f > u ∨ BadId archs.length k) := by
  unfold fetchPlan
  by_cases h1 : f > u
  · simp [h1]
  · by_cases h2 : BadId archs.length k
    · have h2' := h2
      unfold BadId at h2'
      simp [h1, h2, h2']
    · have hsel := selected_lt archs hne k f now h2
      unfold selected at hsel
      have h2' := h2
      unfold BadId at h2'
      simp only [h1, h2, h2', if_false, false_or]
      have hget : archs[if k = -1 then findBestFrom (tsSub now f) 0 archs else k.toNat]? =
          some (archs[if k = -1 then findBestFrom (tsSub now f) 0 archs else k.toNat]'hsel) :=
        List.getElem?_eq_getElem hsel
      simp only [hget]
      constructor
      · rintro ⟨e, he⟩
        exfalso
        revert he
        repeat' split
        all_goals simp
      · intro hf; exact absurd hf (by simp)

/-- the errors are classed as the property says -/
theorem fail_class (archs : List Arch) (k : Int) (f u now : Nat) :
    (f > u → fetchPlan archs k f u now = .error (.err .rangeError)) ∧
    (¬ f > u → BadId archs.length k → fetchPlan archs k f u now = .error (.err .outOfRange)) := by
  unfold fetchPlan BadId
  constructor
  · intro h; simp [h]
  · intro h1 h2; simp [h1, h2]

/-- no series iff the window lies wholly in the future or wholly before the retention -/
theorem none_iff (archs : List Arch) (k : Int) (f u now : Nat)
    (h1 : ¬ f > u) (h2 : ¬ BadId archs.length k) (a : Arch)
    (ha : archs[selected archs k f now]? = some a) :
    fetchPlan archs k f u now = .ok none ↔ (f > now ∨ u < tsAdd now (- a.maxRetention)) := by
  unfold fetchPlan
  unfold BadId at h2
  unfold selected at ha
  simp only [h1, h2, if_false, ha]
  by_cases h3 : f > now
  · simp [h3]
  · by_cases h4 : u < tsAdd now (- a.maxRetention)
    · simp [h3, h4]
    · simp [h3, h4]

/-! ### the closed form of the shape -/

/-- the planned bounds, written with ideal integers -/
theorem shape (archs : List Arch) (k : Int) (f u now : Nat) (p : FetchPlan)
    (hp : fetchPlan archs k f u now = .ok (some p))
    (hs : 0 < p.a.step) (hsl : p.a.step < 2147483648) (hn : 0 < p.a.n)
    (hr : p.a.step * (p.a.n : Int) ≤ 2147483647)
    (hclock : p.a.step * (p.a.n : Int) ≤ now) (hnow : (now : Int) + p.a.step < 2147483648) :
    archs[selected archs k f now]? = some p.a ∧ p.id = selected archs k f now ∧
    f ≤ u ∧ f ≤ now ∧ (now : Int) - p.a.step * p.a.n ≤ u ∧
    (let f' : Int := max (f : Int) ((now : Int) - p.a.step * p.a.n)
     let u' : Int := min (u : Int) (now : Int)
     let fI := f' - f' % p.a.step + p.a.step
     let uI := u' - u' % p.a.step + p.a.step
     (p.fromI : Int) = fI ∧ (p.untilI : Int) = (if fI = uI then uI + p.a.step else uI)) := by
  unfold fetchPlan at hp
  by_cases h1 : f > u
  · simp [h1] at hp
  simp only [h1, if_false] at hp
  by_cases h2 : (k ≠ -1 ∧ k < 0) ∨ (archs.length : Int) - 1 < k
  · simp [h2] at hp
  simp only [h2, if_false] at hp
  split at hp
  · simp at hp
  rename_i a ha
  by_cases h3 : f > now
  · simp [h3] at hp
  simp only [h3, if_false] at hp
  by_cases h4 : u < tsAdd now (- a.maxRetention)
  · simp [h4] at hp
  simp only [h4, if_false] at hp
  injection hp with hp
  injection hp with hp
  subst hp
  simp only at hs hsl hn hr hclock hnow ⊢
  have hmr : a.maxRetention = a.step * (a.n : Int) := maxRetention_ideal a ⟨hs, hn, hr⟩
  rw [hmr] at h4 ⊢
  have hPpos : 0 ≤ a.step * (a.n : Int) := Int.mul_nonneg (by omega) (by omega)
  generalize hP : a.step * (a.n : Int) = P at *
  have hold : (tsAdd now (- P) : Int) = (now : Int) - P :=
    (tsAdd_ideal now (-P) (by omega) (by omega)).trans (by omega)
  generalize hO : tsAdd now (- P) = oldest at *
  have hnowlt : now < 2147483648 := by omega
  refine ⟨by unfold selected; exact ha, by unfold selected; rfl, by omega, by omega, by omega, ?_⟩
  -- clamped bounds
  have hf'lt : (if f < oldest then oldest else f) < 2147483648 := by split <;> omega
  have hu'lt : (if u > now then now else u) < 2147483648 := by split <;> omega
  have efI := interval_ideal a (if f < oldest then oldest else f) hs hsl hf'lt
  have euI := interval_ideal a (if u > now then now else u) hs hsl hu'lt
  have ef' : (((if f < oldest then oldest else f) : Nat) : Int) = max (f : Int) ((now : Int) - P) := by
    split <;> omega
  have eu' : (((if u > now then now else u) : Nat) : Int) = min (u : Int) (now : Int) := by
    split <;> omega
  unfold alignDown at efI euI
  rw [ef'] at efI
  rw [eu'] at euI
  refine ⟨efI, ?_⟩
  have hal := alignDown_le (if u > now then now else u) a.step hs
  unfold alignDown at hal
  rw [eu'] at hal
  by_cases heq : a.interval (if f < oldest then oldest else f) = a.interval (if u > now then now else u)
  · have heqI : (max (f : Int) ((now : Int) - P)) - (max (f : Int) ((now : Int) - P)) % a.step + a.step
        = (min (u : Int) (now : Int)) - (min (u : Int) (now : Int)) % a.step + a.step := by
      rw [← efI, ← euI, heq]
    simp only [heq, if_true, heqI]
    have := tsAdd_ideal (a.interval (if u > now then now else u)) a.step (by omega) (by omega)
    rw [this, euI]
  · have hneI : ¬ ((max (f : Int) ((now : Int) - P)) - (max (f : Int) ((now : Int) - P)) % a.step + a.step
        = (min (u : Int) (now : Int)) - (min (u : Int) (now : Int)) % a.step + a.step) := by
      intro h; apply heq
      have : (a.interval (if f < oldest then oldest else f) : Int) = (a.interval (if u > now then now else u) : Int) := by
        rw [efI, euI, h]
      exact_mod_cast this
    simp only [heq, if_false, hneI]
    exact euI

/-! ### the executed fetch has the planned shape, whatever the archive holds -/

theorem readPoints_length (h : Handle) (offs : List Nat) (pts : List Point)
    (hr : h.readPoints offs = .ok pts) : pts.length = offs.length := by
  induction offs generalizing pts with
  | nil => simp [readPoints] at hr; subst hr; rfl
  | cons o os ih =>
    simp only [readPoints, bind, Except.bind] at hr
    cases h1 : h.readPointAt o with
    | error e => simp [h1] at hr
    | ok p =>
      simp only [h1] at hr
      cases h2 : h.readPoints os with
      | error e => simp [h2] at hr
      | ok ps =>
        simp only [h2, pure, Except.pure] at hr
        injection hr with hr
        subst hr
        simp [ih ps h2]

theorem fetchRawPoints_length (h : Handle) (a : Arch) (fI uI : Nat) (pts : List Point)
    (hr : h.fetchRawPoints a fI uI = .ok pts) :
    pts.length = (Int.tdiv (tsSub uI fI) a.step).toNat := by
  unfold fetchRawPoints at hr
  cases hb : h.baseInterval a with
  | error e => simp [hb] at hr
  | ok base =>
    simp only [hb] at hr
    by_cases hneg : Int.tdiv (tsSub uI fI) a.step < 0
    · simp [hneg] at hr
    simp only [hneg, if_false] at hr
    by_cases hgt : (rawOffsets a base fI uI).length > (Int.tdiv (tsSub uI fI) a.step).toNat
    · simp [hgt] at hr
    simp only [hgt, if_false] at hr
    cases hrp : h.readPoints (rawOffsets a base fI uI) with
    | error e => simp [hrp] at hr
    | ok rp =>
      simp only [hrp] at hr
      injection hr with hr
      subst hr
      have := readPoints_length h _ rp hrp
      simp [this]
      omega

theorem clearOldPoints_length (step : Int) (cur : Nat) (pts : List Point) :
    (clearOldPoints step cur pts).length = pts.length := by
  induction pts generalizing cur with
  | nil => rfl
  | cons p ps ih => simp [clearOldPoints, ih]

/-- bounds and step are the planned ones; the number of values is `(until − from)/step`
    in both branches (never-written archive or not). -/
theorem exec_shape (h : Handle) (p : FetchPlan) (s : Series) (hx : h.fetchExec p = .ok s)
    (hs : 0 < p.a.step) (hsl : p.a.step < 2147483648)
    (hle : p.fromI ≤ p.untilI) (hul : p.untilI < 2147483648) :
    s.from_ = p.fromI ∧ s.until_ = p.untilI ∧ s.step = p.a.step ∧
    (s.values.length : Int) = ((p.untilI : Int) - (p.fromI : Int)) / p.a.step := by
  unfold fetchExec at hx
  cases hb : h.baseInterval p.a with
  | error e => simp [hb] at hx
  | ok base =>
    simp only [hb] at hx
    have hdn : 0 ≤ ((p.untilI : Int) - (p.fromI : Int)) / p.a.step :=
      Int.ediv_nonneg (by omega) (by omega)
    by_cases h0 : base = 0
    · simp only [h0, if_true] at hx
      injection hx with hx
      subst hx
      refine ⟨rfl, rfl, rfl, ?_⟩
      simp only [List.length_replicate]
      have e1 : (u32 ((p.untilI : Int) - (p.fromI : Int)) : Int) = (p.untilI : Int) - p.fromI := u32_id _ (by omega) (by omega)
      have e2 : (u32 p.a.step : Int) = p.a.step := u32_id _ (by omega) (by omega)
      rw [Int.natCast_ediv, e1, e2]
    · simp only [h0, if_false] at hx
      cases hf : h.fetchRawPoints p.a p.fromI p.untilI with
      | error e => simp [hf] at hx
      | ok pts =>
        simp only [hf] at hx
        injection hx with hx
        subst hx
        refine ⟨rfl, rfl, rfl, ?_⟩
        simp only [List.length_map, clearOldPoints_length]
        rw [fetchRawPoints_length h p.a p.fromI p.untilI pts hf]
        rw [tsSub_ideal p.untilI p.fromI hul (by omega)]
        rw [Int.tdiv_eq_ediv_of_nonneg (by omega)]
        omega

/-- **the shape never depends on what has been stored**: two handles with the same
    archive list — one possibly never written — plan the same fetch, and if both fetches
    succeed they have the same bounds, step and number of values. -/
theorem shape_independent_of_content (h1 h2 : Handle) (heq : h1.hdr.archives = h2.hdr.archives)
    (k : Int) (f u now : Nat) :
    fetchPlan h1.archs k f u now = fetchPlan h2.archs k f u now ∧
    ∀ p s1 s2, fetchPlan h1.archs k f u now = .ok (some p) →
      h1.fetchExec p = .ok s1 → h2.fetchExec p = .ok s2 →
      0 < p.a.step → p.a.step < 2147483648 → p.fromI ≤ p.untilI → p.untilI < 2147483648 →
      s1.from_ = s2.from_ ∧ s1.until_ = s2.until_ ∧ s1.step = s2.step ∧ s1.values.length = s2.values.length := by
  constructor
  · unfold Handle.archs; rw [heq]
  · intro p s1 s2 _ hx1 hx2 hs hsl hle hul
    obtain ⟨a1, b1, c1, d1⟩ := exec_shape h1 p s1 hx1 hs hsl hle hul
    obtain ⟨a2, b2, c2, d2⟩ := exec_shape h2 p s2 hx2 hs hsl hle hul
    refine ⟨by rw [a1, a2], by rw [b1, b2], by rw [c1, c2], ?_⟩
    have : (s1.values.length : Int) = s2.values.length := by rw [d1, d2]
    exact_mod_cast this

/-- every successful fetch returns a series that the codec round-trips (C14's hypothesis) -/
theorem fetch_result_wf (h : Handle) (p : FetchPlan) (s : Series) (hx : h.fetchExec p = .ok s)
    (hs : 0 < p.a.step) (hsl : p.a.step < 2147483648)
    (hle : p.fromI ≤ p.untilI) (hul : p.untilI < 2147483648) : SeriesWF s := by
  obtain ⟨a1, b1, c1, d1⟩ := exec_shape h p s hx hs hsl hle hul
  refine ⟨by omega, by omega, by omega, by omega, by omega, ?_⟩
  rw [a1, b1, c1, Int.tdiv_eq_ediv_of_nonneg (by omega)]
  omega

end Wsp.C04
