/-
  C02 / C01 for coarser archives: **locality of a single update**.

  A single update consolidates, level by level, the one coarser interval that contains the
  written one (`C02S.propagateChain_single`).  This file says what the whole chain may
  change: in every archive at or behind the level the chain starts at, at most the one slot
  that afterwards is stamped with that level's interval of the chain (`chainTime`); every
  other slot of every archive — all other intervals of the coarser archives, and every
  archive before the starting level — is bit for bit what it was.  So a write to one
  interval never disturbs the aggregate of another coarse interval, whatever the history
  that led to the file.
-/
import Wsp.Props.C02System
namespace Wsp.C02S
open Wsp.Handle Wsp.C14 Wsp.Total Wsp.C01 Wsp.C08 Wsp.Inv

/-- the interval the chain consolidates at level `m`, having started with `T` at level `k` -/
def chainTime (as : List Arch) (k : Nat) (T : Nat) : Nat → Nat → Nat
  | 0, _ => T
  | fuel+1, m =>
    if m ≤ k then T else
      match as[k + 1]? with
      | none => T
      | some l => chainTime as (k + 1) (l.intervalForWrite T) fuel m

theorem chainTime_self (as : List Arch) (k T fuel : Nat) : chainTime as k T fuel k = T := by
  cases fuel with
  | zero => rfl
  | succ f => simp [chainTime]

/-- **locality**: after the chain of a single update, a slot that differs from what it was
    lies in an archive at or behind the starting level and is stamped with that level's
    interval of the chain -/
theorem chainSpec_local (o : FOps) (fuel : Nat) :
    ∀ (h h' : Handle) (k T : Nat), Good h → T < 4294967296 →
      chainSpec o fuel h k T = .ok h' →
      h'.hdr = h.hdr ∧
      ∀ (m : Nat) (b : Arch) (j : Nat), h.archs[m]? = some b → j < b.n →
        slotAt h' b j ≠ slotAt h b j →
        k ≤ m ∧ (slotAt h' b j).t = chainTime h.archs k T fuel m := by
  induction fuel with
  | zero =>
    intro h h' k T _ _ hp
    simp only [chainSpec] at hp
    injection hp with hp; subst hp
    exact ⟨rfl, fun m b j _ _ hne => absurd rfl hne⟩
  | succ fuel ih =>
    intro h h' k T g hT hp
    simp only [chainSpec] at hp
    split at hp
    · rename_i hk
      split at hp
      · rename_i a aHigh ha haH
        split at hp
        · simp at hp
        · rename_i base hb
          split at hp
          · simp at hp
          · rename_i h1 stored hone
            have pa := g.placed a (mem_of_getElem? ha)
            have hfit : a.offset + 12 * a.n ≤ 4294967295 := by have := pa.hi; have := pa.fits; omega
            have fr := propagateOne_frame o (H := 16 + 12 * h.hdr.archives.length) h h1 a aHigh T stored pa hone
            have g1 : Good h1 := g.of_frame fr
            have earch : h1.archs = h.archs := by unfold Handle.archs; rw [fr.1]
            cases stored with
            | false =>
              have e1 : h1 = h := Wsp.C02.skipped_slot_untouched o h h1 a aHigh T hone
              simp only [Bool.false_eq_true, if_false] at hp
              injection hp with hp; subst hp; subst e1
              exact ⟨rfl, fun m b j _ _ hne => absurd rfl hne⟩
            | true =>
              simp only [if_true] at hp
              obtain ⟨hst, hfrm⟩ := Wsp.C02.stored_frame o h h1 a aHigh T base hT pa.npos hfit hb hone
              -- the slot the level stored into
              have hi : (if base = 0 then 0 else slotIdx a base T) < a.n := by
                split
                · exact pa.npos
                · have := pointIndex_range a pa.npos base T
                  unfold slotIdx; omega
              -- what changed between h and h1
              have step1 : ∀ (m : Nat) (b : Arch) (j : Nat), h.archs[m]? = some b → j < b.n →
                  slotAt h1 b j ≠ slotAt h b j →
                  m = k ∧ b = a ∧ j = (if base = 0 then 0 else slotIdx a base T) := by
                intro m b j hmb hj hne
                have hov : ¬ (b.offset + 12 * j + 12 ≤ a.offset + 12 * (if base = 0 then 0 else slotIdx a base T) ∨
                    a.offset + 12 * (if base = 0 then 0 else slotIdx a base T) + 12 ≤ b.offset + 12 * j) :=
                  fun hd => hne (hfrm b j hd)
                by_cases hmk : m = k
                · subst hmk
                  have : b = a := by rw [ha] at hmb; injection hmb with hmb; exact hmb.symm
                  subst this
                  refine ⟨rfl, rfl, ?_⟩
                  omega
                · exfalso
                  have := regions_disjoint h g m k b a hmk hmb ha
                  omega
              cases hlow : h.archs[k + 1]? with
              | none =>
                simp only [hlow] at hp
                injection hp with hp; subst hp
                refine ⟨fr.1, ?_⟩
                intro m b j hmb hj hne
                obtain ⟨e1, e2, e3⟩ := step1 m b j hmb hj hne
                subst e1; subst e2; subst e3
                refine ⟨Nat.le_refl _, ?_⟩
                rw [hst, chainTime_self]
              | some l =>
                simp only [hlow] at hp
                obtain ⟨hh, hloc⟩ := ih h1 h' (k + 1) (l.intervalForWrite T) g1 (intervalForWrite_lt l T) hp
                refine ⟨hh.trans fr.1, ?_⟩
                intro m b j hmb hj hne
                have hmb1 : h1.archs[m]? = some b := by rw [earch]; exact hmb
                by_cases hc : slotAt h' b j = slotAt h1 b j
                · have hne1 : slotAt h1 b j ≠ slotAt h b j := by rw [← hc]; exact hne
                  obtain ⟨e1, e2, e3⟩ := step1 m b j hmb hj hne1
                  subst e1; subst e2; subst e3
                  refine ⟨Nat.le_refl _, ?_⟩
                  rw [hc, hst, chainTime_self]
                · obtain ⟨hkm, hts⟩ := hloc m b j hmb1 hj hc
                  refine ⟨by omega, ?_⟩
                  rw [hts, earch]
                  have hnle : ¬ m ≤ k := by omega
                  simp only [chainTime, hnle, if_false, hlow]
      · simp at hp
    · injection hp with hp; subst hp
      exact ⟨rfl, fun m b j _ _ hne => absurd rfl hne⟩

end Wsp.C02S

namespace Wsp.C02S
open Wsp.Handle Wsp.C14 Wsp.Total Wsp.C01 Wsp.C08 Wsp.Inv

/-- **locality of ⟦propagateChain⟧ for one written point**: whatever the file held, the
    propagation that follows a single write changes only slots of archives behind the
    written one, each stamped afterwards with the interval of its level that contains the
    written time -/
theorem propagateChain_single_local (o : FOps) (h h' : Handle) (k : Nat) (p : Point) (g : Good h)
    (hp : propagateChain o h k [p] = .ok h') :
    h'.hdr = h.hdr ∧
    ∀ (m : Nat) (b : Arch) (j : Nat), h.archs[m]? = some b → j < b.n →
      slotAt h' b j ≠ slotAt h b j →
      k + 1 ≤ m ∧ ∃ l, h.archs[k + 1]? = some l ∧
        (slotAt h' b j).t = chainTime h.archs (k + 1) (l.intervalForWrite p.t) h.archs.length m := by
  rw [propagateChain_single] at hp
  cases hl : h.archs[k + 1]? with
  | none =>
    simp only [hl] at hp
    injection hp with hp; subst hp
    exact ⟨rfl, fun m b j _ _ hne => absurd rfl hne⟩
  | some l =>
    simp only [hl] at hp
    obtain ⟨hh, hloc⟩ := chainSpec_local o _ h h' (k + 1) (l.intervalForWrite p.t) g (intervalForWrite_lt l p.t) hp
    refine ⟨hh, ?_⟩
    intro m b j hmb hj hne
    obtain ⟨h1, h2⟩ := hloc m b j hmb hj hne
    exact ⟨h1, l, rfl, h2⟩

/-- non-vacuity of `chainTime`: 60 s / 300 s / 3600 s, a write at 7265 s -/
example : chainTime [⟨0, 60, 10⟩, ⟨0, 300, 10⟩, ⟨0, 3600, 10⟩] 1 7200 3 2 = 7200 := by decide

end Wsp.C02S
