/-
  C20, the value clauses, as theorems about the model of ⟦randomPointsList⟧ (Model/Gen.lean)
  for every random stream:
  * every generated value of archive k is at most max·S_k/S_0            (`values_bounded`)
  * a coarser point at or after the first finer point is the sum of the finer points of its
    slot                                                                 (`covered_is_sum`)
  * every archive gets one point per slot of its retention, in time order (`points_shape`)
-/
import Wsp.Model.Gen
namespace Wsp.Gen

/-- consecutive points `step` apart, starting at `h0` -/
def ptsAt (h0 s : Nat) : List Nat → List GP
  | [] => []
  | w :: ws => ⟨h0, w⟩ :: ptsAt (h0 + s) s ws

theorem draw_le (ds : List Nat) (k : Nat) : (draw ds k).1 ≤ k := by
  cases ds with
  | nil => simp [draw]
  | cons d ds => simp only [draw]; have := Nat.mod_lt d (Nat.succ_pos k); rw [Nat.succ_eq_add_one] at this; omega

theorem trunc_window (h S t : Nat) (hS : 0 < S) (e : trunc h S = t) : t ≤ h ∧ h < t + S := by
  unfold trunc at e
  have : ¬ S = 0 := by omega
  rw [if_neg this] at e
  have := Nat.mod_lt h hS
  have := Nat.mod_le h S
  omega

theorem trunc_le (h S : Nat) : trunc h S ≤ h := by
  unfold trunc; split <;> omega

/-- number of points of the list inside `[lo, hi)` -/
def inWin (lo hi : Nat) (pts : List GP) : Nat := (pts.filter fun p => lo ≤ p.t ∧ p.t < hi).length

theorem inWin_cons (lo hi : Nat) (p : GP) (pts : List GP) :
    inWin lo hi (p :: pts) = (if lo ≤ p.t ∧ p.t < hi then 1 else 0) + inWin lo hi pts := by
  unfold inWin
  by_cases h : lo ≤ p.t ∧ p.t < hi
  · simp [h]; omega
  · simp [h]

/-- the finer values a coarser slot adds up are at most `hm` each, and only points inside
    the slot's window are added -/
theorem highSum_le (S t hm : Nat) (hS : 0 < S) : ∀ pts : List GP, (∀ p ∈ pts, p.v ≤ hm) →
    highSum S t pts ≤ hm * inWin t (t + S) pts := by
  intro pts
  induction pts with
  | nil => intro _; simp [highSum]
  | cons p pts ih =>
    intro hb
    have ih' := ih (fun q hq => hb q (List.mem_cons_of_mem _ hq))
    simp only [highSum]
    rw [inWin_cons]
    split
    · have : hm * inWin t (t + S) pts ≤ hm * ((if t ≤ p.t ∧ p.t < t + S then 1 else 0) + inWin t (t + S) pts) :=
        Nat.mul_le_mul_left _ (by omega)
      omega
    · split
      · omega
      · rename_i h1 h2
        have e : trunc p.t S = t := by omega
        have w := trunc_window p.t S t hS e
        rw [if_pos w, Nat.mul_add, Nat.mul_one]
        have := hb p (by simp)
        omega

/-- points `s` apart: those inside a window, times `s`, fit in the window (up to one step) -/
theorem inWin_ptsAt (lo hi s : Nat) (hs : 0 < s) : ∀ (ws : List Nat) (h0 : Nat),
    0 < inWin lo hi (ptsAt h0 s ws) → inWin lo hi (ptsAt h0 s ws) * s + max lo h0 ≤ hi + s - 1 := by
  intro ws
  induction ws with
  | nil => intro h0 h; simp [ptsAt, inWin] at h
  | cons w ws ih =>
    intro h0 hpos
    simp only [ptsAt] at hpos ⊢
    rw [inWin_cons] at hpos ⊢
    simp only
    by_cases hin : lo ≤ h0 ∧ h0 < hi
    · rw [if_pos hin]
      by_cases hc : 0 < inWin lo hi (ptsAt (h0 + s) s ws)
      · have := ih (h0 + s) hc
        rw [Nat.add_mul, Nat.one_mul]
        have hm : max lo (h0 + s) = h0 + s := by omega
        have hm2 : max lo h0 = h0 := by omega
        rw [hm] at this
        rw [hm2]
        omega
      · have hz : inWin lo hi (ptsAt (h0 + s) s ws) = 0 := by omega
        rw [hz]
        have hm2 : max lo h0 = h0 := by omega
        rw [hm2]
        omega
    · rw [if_neg hin] at hpos ⊢
      simp only [Nat.zero_add] at hpos ⊢
      have := ih (h0 + s) hpos
      have : max lo h0 ≤ max lo (h0 + s) := by omega
      omega

/-- the same count, as a bound in steps: at most `r` when the window is `r` steps wide, and
    `r - n` when the points begin `n` whole steps inside it -/
theorem inWin_count (t s r : Nat) (hs : 0 < s) (ws : List Nat) (h0 : Nat) :
    inWin t (t + r * s) (ptsAt h0 s ws) + (h0 - t) / s ≤ r ∨
    (inWin t (t + r * s) (ptsAt h0 s ws) = 0) := by
  by_cases hc : 0 < inWin t (t + r * s) (ptsAt h0 s ws)
  · left
    have h1 := inWin_ptsAt t (t + r * s) s hs ws h0 hc
    have h2 : (h0 - t) / s * s ≤ h0 - t := Nat.div_mul_le_self _ _
    have h3 : (inWin t (t + r * s) (ptsAt h0 s ws) + (h0 - t) / s) * s < (r + 1) * s := by
      rw [Nat.add_mul, Nat.add_mul, Nat.one_mul]
      have : max t h0 ≥ h0 := by omega
      have : max t h0 ≥ t := by omega
      omega
    have := Nat.lt_of_mul_lt_mul_right h3
    omega
  · right; omega

theorem ptsAt_v (h0 s : Nat) (ws : List Nat) (p : GP) (hp : p ∈ ptsAt h0 s ws) : p.v ∈ ws := by
  induction ws generalizing h0 with
  | nil => simp [ptsAt] at hp
  | cons w ws ih =>
    simp only [ptsAt, List.mem_cons] at hp
    rcases hp with rfl | hp
    · simp
    · exact List.mem_cons_of_mem _ (ih (h0 + s) hp)

theorem ptsAt_length (h0 s : Nat) (ws : List Nat) : (ptsAt h0 s ws).length = ws.length := by
  induction ws generalizing h0 with
  | nil => rfl
  | cons w ws ih => simp [ptsAt, ih]

/-- **a value computed from the finer archive is within the coarser bound**: the finer points
    of the slot (each at most `hm`) and, where the finer points begin inside the slot, the
    random filler for the `n` missing steps (`n · Intn(hm+1)`) together never exceed `r · hm`,
    `r` the ratio of the steps -/
theorem valWithHighSum_le (t s r hm : Nat) (hs : 0 < s) (h0 : Nat) (ws : List Nat) (ds : List Nat)
    (hw : ∀ w ∈ ws, w ≤ hm) (hst : trunc h0 (r * s) ≤ t) (hr : 0 < r) :
    (valWithHighSum t (r * s) ⟨s, hm, ptsAt h0 s ws⟩ ds).1 ≤ r * hm := by
  have hS : 0 < r * s := Nat.mul_pos hr hs
  have hb : ∀ p ∈ ptsAt h0 s ws, p.v ≤ hm := fun p hp => hw _ (ptsAt_v h0 s ws p hp)
  have hsum := highSum_le (r * s) t hm hS (ptsAt h0 s ws) hb
  have hcnt := inWin_count t s r hs ws h0
  unfold valWithHighSum
  simp only
  cases ws with
  | nil => simp [ptsAt, highSum]
  | cons w ws' =>
    simp only [ptsAt] at hsum hcnt ⊢
    by_cases hge : t ≥ h0
    · rw [if_pos hge]
      simp only
      have h0t : (h0 - t) / s = 0 := by
        have : h0 - t = 0 := by omega
        rw [this]; simp
      rcases hcnt with hc | hc
      · have : hm * inWin t (t + r * s) (⟨h0, w⟩ :: ptsAt (h0 + s) s ws') ≤ hm * r := Nat.mul_le_mul_left _ (by omega)
        rw [Nat.mul_comm r hm]; omega
      · rw [hc] at hsum; omega
    · rw [if_neg hge]
      simp only
      have hd := draw_le ds hm
      have hnd : (h0 - t) / s * (draw ds hm).1 ≤ (h0 - t) / s * hm := Nat.mul_le_mul_left _ hd
      rcases hcnt with hc | hc
      · have h1 : hm * inWin t (t + r * s) (⟨h0, w⟩ :: ptsAt (h0 + s) s ws') + (h0 - t) / s * hm ≤ hm * r := by
          rw [Nat.mul_comm ((h0 - t) / s) hm, ← Nat.mul_add]
          exact Nat.mul_le_mul_left _ hc
        rw [Nat.mul_comm r hm]; omega
      · rw [hc] at hsum
        -- no finer point in the slot: the filler alone, for fewer than `r` steps
        have hwin := trunc_window h0 (r * s) (trunc h0 (r * s)) hS rfl
        have hlt : h0 - t < r * s := by omega
        have hn : (h0 - t) / s < r := (Nat.div_lt_iff_lt_mul hs).2 hlt
        have : (h0 - t) / s * hm ≤ r * hm := Nat.mul_le_mul_right _ (by omega)
        omega

/-- what ⟦randomPoints⟧ knows of the finer archive when it computes archive values -/
def HiInv (S rndMax hst : Nat) : Option High → Prop
  | none => True
  | some h => ∃ r h0 ws, h.pts = ptsAt h0 h.step ws ∧ 0 < h.step ∧ 0 < r ∧ S = r * h.step ∧
      (∀ w ∈ ws, w ≤ h.rndMax) ∧ r * h.rndMax ≤ rndMax ∧ (hst ≠ 0 → hst = trunc h0 S)

/-- **the loop of ⟦randomPoints⟧**: `m` consecutive points ending at `thisUntil`, each value
    at most `rndMax` -/
theorem pointsLoop_spec (S U hst rndMax : Nat) (hi : Option High) (inv : HiInv S rndMax hst hi) :
    ∀ (m : Nat) (ds : List Nat), m * S ≤ U + S →
      ∃ vs, vs.length = m ∧ (pointsLoop S U hst rndMax hi m ds).1 = ptsAt (U + S - m * S) S vs ∧
        ∀ v ∈ vs, v ≤ rndMax := by
  intro m
  induction m with
  | zero => intro ds _; exact ⟨[], rfl, rfl, by simp⟩
  | succ m ih =>
    intro ds hm
    have hm' : m * S ≤ U := by rw [Nat.succ_mul] at hm; omega
    simp only [pointsLoop]
    -- the value of this point
    have hv : (pointVal S hst rndMax hi (U - m * S) ds).1 ≤ rndMax := by
      unfold pointVal
      by_cases hc : hst = 0 ∨ U - m * S < hst
      · rw [if_pos hc]; exact draw_le ds rndMax
      · rw [if_neg hc]
        cases hi with
        | none => exact draw_le ds rndMax
        | some h =>
          simp only
          obtain ⟨r', h0, ws, hpts, hs, hr', hS, hw, hle, hh⟩ := inv
          have hne : hst ≠ 0 := fun e => hc (Or.inl e)
          have hge : hst ≤ U - m * S := by
            have : ¬ (U - m * S < hst) := fun e => hc (Or.inr e)
            omega
          rw [hh hne] at hge
          have e : h = ⟨h.step, h.rndMax, ptsAt h0 h.step ws⟩ := by
            cases h with
            | mk a b c => simp only at hpts; rw [hpts]
          rw [e, hS]
          rw [hS] at hge
          have := valWithHighSum_le (U - m * (r' * h.step)) h.step r' h.rndMax hs h0 ws ds hw hge hr'
          omega
    generalize (pointVal S hst rndMax hi (U - m * S) ds) = r at hv ⊢
    obtain ⟨vs, hl, hsh, hb⟩ := ih r.2 (by omega)
    refine ⟨r.1 :: vs, by simp [hl], ?_, ?_⟩
    · simp only [ptsAt]
      rw [hsh]
      have e1 : U + S - (m + 1) * S = U - m * S := by rw [Nat.succ_mul]; omega
      have e2 : U - m * S + S = U + S - m * S := by omega
      rw [e1, e2]
    · intro v hv'
      simp only [List.mem_cons] at hv'
      rcases hv' with rfl | hv'
      · exact hv
      · exact hb v hv'

/-- what the chain of archives hands to the next one -/
def HiOK (s0 max : Nat) : Option High → Prop
  | none => True
  | some h => ∃ h0 ws, h.pts = ptsAt h0 h.step ws ∧ ws ≠ [] ∧ 0 < h.step ∧ (∀ w ∈ ws, w ≤ h.rndMax) ∧
      h.rndMax = max * h.step / s0

/-- the bound of a coarser archive covers `r` finer values -/
theorem ratio_bound (max s0 s r : Nat) (hs0 : 0 < s0) : r * (max * s / s0) ≤ max * (r * s) / s0 := by
  rw [Nat.le_div_iff_mul_le hs0]
  have h1 : max * s / s0 * s0 ≤ max * s := Nat.div_mul_le_self _ _
  have h2 : r * (max * s / s0) * s0 = r * (max * s / s0 * s0) := Nat.mul_assoc _ _ _
  rw [h2]
  have h3 : max * (r * s) = r * (max * s) := Nat.mul_left_comm _ _ _
  rw [h3]
  exact Nat.mul_le_mul_left _ h1

/-- the number of points ⟦randomPoints⟧ makes for an archive -/
def count (a : GA) (until_ now : Nat) : Nat :=
  (a.step * a.n - (trunc now a.step - trunc until_ a.step)) / a.step

/-- the time of its first point -/
def firstT (a : GA) (until_ now : Nat) : Nat :=
  trunc until_ a.step + a.step - count a until_ now * a.step

/-- **one archive**: inside the zone ⟦randomPoints⟧ does not panic and returns one point per
    step, ending at the truncated `until`, each value at most `max·S/S_0` -/
theorem randomPoints_spec (a : GA) (hi : Option High) (s0 max until_ now : Nat) (ds : List Nat)
    (hs0 : 0 < s0) (ha : 0 < a.step)
    (hz : a.step * a.n ≤ trunc until_ a.step + a.step)
    (hok : HiOK s0 max hi) (hdiv : ∀ h, hi = some h → h.step ∣ a.step) :
    ∃ vs ds', randomPoints a hi (max * a.step / s0) until_ now ds =
        some (ptsAt (firstT a until_ now) a.step vs, ds') ∧
      vs.length = count a until_ now ∧ ∀ v ∈ vs, v ≤ max * a.step / s0 := by
  have hcnt : count a until_ now * a.step ≤ trunc until_ a.step + a.step := by
    unfold count
    have h1 := Nat.div_mul_le_self (a.step * a.n - (trunc now a.step - trunc until_ a.step)) a.step
    omega
  unfold randomPoints
  cases hi with
  | none =>
    simp only
    obtain ⟨vs, hl, hsh, hb⟩ := pointsLoop_spec a.step (trunc until_ a.step) 0 (max * a.step / s0) none trivial
      (count a until_ now) ds hcnt
    refine ⟨vs, (pointsLoop a.step (trunc until_ a.step) 0 (max * a.step / s0) none (count a until_ now) ds).2, ?_, hl, hb⟩
    unfold firstT
    rw [← hsh]
    rfl
  | some h =>
    obtain ⟨h0, ws, hpts, hne, hs, hw, hrm⟩ := hok
    simp only
    rw [hpts]
    cases ws with
    | nil => exact absurd rfl hne
    | cons w ws' =>
      simp only [ptsAt]
      obtain ⟨r, hr⟩ := hdiv h rfl
      have hrpos : 0 < r := by
        cases r with
        | zero => rw [Nat.mul_zero] at hr; omega
        | succ r => omega
      have inv : HiInv a.step (max * a.step / s0)
          (if h0 ≤ trunc until_ a.step then trunc h0 a.step else 0) (some h) := by
        refine ⟨r, h0, w :: ws', hpts, hs, hrpos, by rw [hr]; exact Nat.mul_comm _ _, hw, ?_, ?_⟩
        · rw [hrm, hr, Nat.mul_comm h.step r]
          exact ratio_bound max s0 h.step r hs0
        · intro hne'
          split at hne'
          · rename_i hle; rw [if_pos hle]
          · exact absurd rfl hne'
      obtain ⟨vs, hl, hsh, hb⟩ := pointsLoop_spec a.step (trunc until_ a.step) _ (max * a.step / s0) (some h) inv
        (count a until_ now) ds hcnt
      refine ⟨vs, (pointsLoop a.step (trunc until_ a.step)
        (if h0 ≤ trunc until_ a.step then trunc h0 a.step else 0) (max * a.step / s0) (some h)
        (count a until_ now) ds).2, ?_, hl, hb⟩
      unfold firstT
      rw [← hsh]
      rfl

theorem ptsAt_ge (h0 s : Nat) (ws : List Nat) (p : GP) (hp : p ∈ ptsAt h0 s ws) : h0 ≤ p.t := by
  induction ws generalizing h0 with
  | nil => simp [ptsAt] at hp
  | cons w ws ih =>
    simp only [ptsAt, List.mem_cons] at hp
    rcases hp with rfl | hp
    · exact Nat.le_refl _
    · have := ih (h0 + s) hp; omega

theorem trunc_eq_mul (h S : Nat) (hS : 0 < S) : trunc h S = S * (h / S) := by
  unfold trunc
  have : ¬ S = 0 := by omega
  rw [if_neg this]
  have := Nat.div_add_mod h S
  omega

theorem trunc_mono (a b S : Nat) (hab : a ≤ b) : trunc a S ≤ trunc b S := by
  by_cases hS : S = 0
  · unfold trunc; rw [if_pos hS, if_pos hS]; exact hab
  · rw [trunc_eq_mul a S (by omega), trunc_eq_mul b S (by omega)]
    exact Nat.mul_le_mul_left _ (Nat.div_le_div_right hab)

/-- on points in time order the skip-and-stop loop adds exactly the points of the slot -/
theorem highSum_eq_filter (S t s : Nat) : ∀ (ws : List Nat) (h0 : Nat),
    highSum S t (ptsAt h0 s ws) = (((ptsAt h0 s ws).filter fun p => trunc p.t S = t).map (·.v)).sum := by
  intro ws
  induction ws with
  | nil => intro h0; rfl
  | cons w ws ih =>
    intro h0
    simp only [ptsAt, highSum]
    by_cases h1 : trunc h0 S < t
    · rw [if_pos h1]
      have : ¬ trunc h0 S = t := by omega
      rw [List.filter_cons_of_neg (by simpa using this)]
      exact ih (h0 + s)
    · rw [if_neg h1]
      by_cases h2 : trunc h0 S > t
      · rw [if_pos h2]
        have hne : ¬ trunc h0 S = t := by omega
        rw [List.filter_cons_of_neg (by simpa using hne)]
        have : (ptsAt (h0 + s) s ws).filter (fun p => trunc p.t S = t) = [] := by
          apply List.filter_eq_nil_iff.2
          intro p hp
          have hge := ptsAt_ge (h0 + s) s ws p hp
          have := trunc_mono h0 p.t S (by omega)
          simp only [decide_eq_true_eq]
          omega
        rw [this]; rfl
      · rw [if_neg h2]
        have he : trunc h0 S = t := by omega
        rw [List.filter_cons_of_pos (by simpa using he)]
        simp only [List.map_cons, List.sum_cons]
        rw [ih (h0 + s)]

/-- **a coarser point at or after the first finer point is the sum of the finer points of
    its slot** (no random filler), for every point the loop produces -/
theorem pointsLoop_sum (S U hst rm : Nat) (h : High) (h0 : Nat) (ws : List Nat)
    (hpts : h.pts = ptsAt h0 h.step ws) (hne : ws ≠ []) (hhst : hst = trunc h0 S) (hpos : hst ≠ 0) :
    ∀ (m : Nat) (ds : List Nat), ∀ p ∈ (pointsLoop S U hst rm (some h) m ds).1, h0 ≤ p.t →
      p.v = ((h.pts.filter fun q => trunc q.t S = p.t).map (·.v)).sum := by
  intro m
  induction m with
  | zero => intro ds p hp; simp [pointsLoop] at hp
  | succ m ih =>
    intro ds p hp hge
    simp only [pointsLoop, List.mem_cons] at hp
    rcases hp with rfl | hp
    · simp only at hge ⊢
      unfold pointVal
      have hle : hst ≤ U - m * S := by
        rw [hhst]; exact Nat.le_trans (trunc_le h0 S) hge
      have hc : ¬ (hst = 0 ∨ U - m * S < hst) := by
        intro hh; rcases hh with e | e
        · exact hpos e
        · omega
      rw [if_neg hc]
      simp only
      unfold valWithHighSum
      simp only
      rw [hpts]
      cases ws with
      | nil => exact absurd rfl hne
      | cons w ws' =>
        simp only [ptsAt]
        rw [if_pos hge]
        simp only
        have := highSum_eq_filter S (U - m * S) h.step (w :: ws') h0
        simp only [ptsAt] at this
        exact this
    · exact ih _ p hp hge

/-- the layout facts the generator relies on: positive steps, each dividing the next -/
def StepsOK : Option Nat → List GA → Prop
  | _, [] => True
  | prev, a :: as => 0 < a.step ∧ (∀ s, prev = some s → s ∣ a.step) ∧ StepsOK (some a.step) as

/-- the clock zone: every retention fits before `until`, and every archive gets a point -/
def Zone (until_ now : Nat) (as : List GA) : Prop :=
  ∀ a ∈ as, a.step * a.n ≤ trunc until_ a.step + a.step ∧ 0 < count a until_ now

/-- what the generated lists look like, archive by archive -/
def Shape (s0 max until_ now : Nat) : Option (List GP) → List GA → List (List GP) → Prop
  | _, [], [] => True
  | fine, a :: as, pts :: pl =>
    (∃ vs, pts = ptsAt (firstT a until_ now) a.step vs ∧ vs.length = count a until_ now ∧
      ∀ v ∈ vs, v ≤ max * a.step / s0) ∧
    (∀ f f0, fine = some f → f.head? = some f0 → a.step ≤ f0.t → ∀ p ∈ pts, f0.t ≤ p.t →
      p.v = ((f.filter fun q => trunc q.t a.step = p.t).map (·.v)).sum) ∧
    Shape s0 max until_ now (some pts) as pl
  | _, _, _ => False

theorem trunc_pos (h S : Nat) (hS : 0 < S) (hle : S ≤ h) : trunc h S ≠ 0 := by
  rw [trunc_eq_mul h S hS]
  have : 0 < h / S := Nat.div_pos hle hS
  exact Nat.ne_of_gt (Nat.mul_pos hS this)

theorem pointsListFrom_spec (s0 max until_ now : Nat) (hs0 : 0 < s0) :
    ∀ (as : List GA) (hi : Option High) (ds : List Nat),
      StepsOK (hi.map (·.step)) as → Zone until_ now as → HiOK s0 max hi →
      ∃ pl, pointsListFrom s0 max until_ now as hi ds = some pl ∧
        Shape s0 max until_ now (hi.map (·.pts)) as pl := by
  intro as
  induction as with
  | nil => intro hi ds _ _ _; exact ⟨[], rfl, trivial⟩
  | cons a as ih =>
    intro hi ds hst hz hok
    obtain ⟨ha, hdiv, hrest⟩ := hst
    obtain ⟨hza, hcpos⟩ := hz a (by simp)
    have hdiv' : ∀ h, hi = some h → h.step ∣ a.step := by
      intro h e; exact hdiv h.step (by rw [e]; rfl)
    obtain ⟨vs, ds', hrp, hl, hb⟩ := randomPoints_spec a hi s0 max until_ now ds hs0 ha hza hok hdiv'
    simp only [pointsListFrom]
    rw [hrp]
    simp only
    have hvne : vs ≠ [] := by
      intro e; rw [e] at hl; simp at hl; omega
    have hok' : HiOK s0 max (some ⟨a.step, max * a.step / s0, ptsAt (firstT a until_ now) a.step vs⟩) :=
      ⟨firstT a until_ now, vs, rfl, hvne, ha, hb, rfl⟩
    obtain ⟨pl, hpl, hsh⟩ := ih (some ⟨a.step, max * a.step / s0, ptsAt (firstT a until_ now) a.step vs⟩) ds'
      hrest (fun b hb' => hz b (List.mem_cons_of_mem _ hb')) hok'
    rw [hpl]
    refine ⟨_, rfl, ⟨vs, rfl, hl, hb⟩, ?_, hsh⟩
    -- the sum clause, from the loop
    intro f f0 hf hf0 hbig p hp hge
    cases hi with
    | none => simp at hf
    | some h =>
      simp only [Option.map_some, Option.some.injEq] at hf
      obtain ⟨h0, ws, hpts, hne, hs, hw, hrm⟩ := hok
      rw [← hf, hpts] at hf0
      have hf0t : f0.t = h0 := by
        cases ws with
        | nil => exact absurd rfl hne
        | cons w ws' => simp only [ptsAt, List.head?_cons, Option.some.injEq] at hf0; rw [← hf0]
      rw [hf0t] at hbig hge
      -- unfold what randomPoints ran
      unfold randomPoints at hrp
      simp only at hrp
      rw [hpts] at hrp
      cases ws with
      | nil => exact absurd rfl hne
      | cons w ws' =>
        simp only [ptsAt] at hrp
        injection hrp with hrp
        have hpl1 := congrArg Prod.fst hrp
        simp only at hpl1
        have hple : p.t ≤ trunc until_ a.step := by
          -- every point of the loop is at or before thisUntil
          rw [← hpl1] at hp
          have : ∀ (m : Nat) (ds : List Nat) (hst : Nat), ∀ q ∈ (pointsLoop a.step (trunc until_ a.step) hst
              (max * a.step / s0) (some h) m ds).1, q.t ≤ trunc until_ a.step := by
            intro m
            induction m with
            | zero => intro ds hst q hq; simp [pointsLoop] at hq
            | succ m ihm =>
              intro ds hst q hq
              simp only [pointsLoop, List.mem_cons] at hq
              rcases hq with rfl | hq
              · simp only; omega
              · exact ihm _ _ q hq
          exact this _ _ _ p hp
        have hle : h0 ≤ trunc until_ a.step := by omega
        rw [if_pos hle] at hpl1
        rw [← hpl1] at hp
        rw [← hf]
        exact pointsLoop_sum a.step (trunc until_ a.step) (trunc h0 a.step) (max * a.step / s0) h h0 (w :: ws')
          hpts (by simp) rfl (trunc_pos h0 a.step ha hbig) _ ds p hp hge

/-- **C20, the value clauses**: for every layout with positive steps each dividing the next,
    inside the clock zone, and for every random stream, ⟦randomPointsList⟧ does not panic and
    produces, per archive, one point per step ending at the truncated `until`, each value at
    most `max·S_k/S_0`, every coarser point at or after the first finer point being the sum of
    the finer points of its slot -/
theorem generated_values (as : List GA) (a0 : GA) (rest : List GA) (has : as = a0 :: rest)
    (max until_ now : Nat) (ds : List Nat) (hst : StepsOK none as) (hz : Zone until_ now as) :
    ∃ pl, pointsList as max until_ now ds = some pl ∧ Shape a0.step max until_ now none as pl := by
  subst has
  unfold pointsList
  simp only
  exact pointsListFrom_spec a0.step max until_ now hst.1 (a0 :: rest) none ds hst hz trivial

/-- the bound, archive by archive -/
theorem values_bounded (s0 max until_ now : Nat) : ∀ (as : List GA) (fine : Option (List GP)) (pl : List (List GP)),
    Shape s0 max until_ now fine as pl →
    ∀ (k : Nat) (a : GA) (pts : List GP), as[k]? = some a → pl[k]? = some pts → ∀ p ∈ pts, p.v ≤ max * a.step / s0 := by
  intro as
  induction as with
  | nil => intro fine pl _ k a pts hk; simp at hk
  | cons a0 as ih =>
    intro fine pl hsh k a pts hk hp
    cases pl with
    | nil => exact absurd hsh (by simp [Shape])
    | cons pts0 pl =>
      obtain ⟨⟨vs, e, _, hb⟩, _, hrest⟩ := hsh
      cases k with
      | zero =>
        simp only [List.getElem?_cons_zero, Option.some.injEq] at hk hp
        subst hk; subst hp
        intro p hpm
        rw [e] at hpm
        exact hb _ (ptsAt_v _ _ _ p hpm)
      | succ k =>
        simp only [List.getElem?_cons_succ] at hk hp
        exact ih (some pts0) pl hrest k a pts hk hp

/-- the hypotheses are satisfiable: 1s:6, 3s:4 at clock 1000 -/
example : StepsOK none [⟨1, 6⟩, ⟨3, 4⟩] ∧ Zone 1000 1000 [⟨1, 6⟩, ⟨3, 4⟩] := by
  refine ⟨⟨by decide, by intro s h; simp at h, by decide, by intro s h; simp at h; subst h; decide, trivial⟩, ?_⟩
  intro a ha
  simp only [List.mem_cons, List.not_mem_nil, or_false] at ha
  rcases ha with rfl | rfl <;> decide

end Wsp.Gen
