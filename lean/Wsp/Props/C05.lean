/-
  C05  Sync persistence: synced state survives reopen; unsynced changes stay off disk.

  `World` keeps the disk apart from the handle's view (filebuffer is modelled, not
  verified: a flush writes whole dirty pages whose buffer equals the view).  The disk
  changes only at `sync` (and at creation, which truncates the file to its final length
  of zeros); dropping the handle after any prefix leaves the last synced bytes; and every
  write of the library lands inside an archive region of a valid header, so the length
  and the header bytes of the view — hence of every later disk image — are those of
  creation.  That `Sync` is the only caller of `Flush`/`file.Sync` and that nothing
  writes the file directly are `FactsTie.disk_writers`, regenerated from the source.
-/
import Wsp.Proofs.Layout
import Wsp.Props.FactsTie
namespace Wsp.C05
open Wsp.Handle Wsp.C14

/-- operations of a handle other than `sync`: they never touch the disk -/
def HandleOp : LibOp → Prop
  | .upd .. => True
  | .updMany .. => True
  | .drop => True
  | .open_ => True
  | _ => False

theorem disk_changes_only_at_sync (o : FOps) (w : World) (op : LibOp) (hop : HandleOp op) :
    (w.step o op).1.disk = w.disk := by
  cases op with
  | create => exact absurd hop (by simp [HandleOp])
  | createOver => exact absurd hop (by simp [HandleOp])
  | sync => exact absurd hop (by simp [HandleOp])
  | setDisk => exact absurd hop (by simp [HandleOp])
  | rmDisk => exact absurd hop (by simp [HandleOp])
  | drop => rfl
  | open_ =>
    simp only [World.step]
    cases w.disk with
    | none => rfl
    | some d => simp only []; cases openBytes o d <;> rfl
  | upd k t v now =>
    simp only [World.step]
    cases w.h with
    | none => rfl
    | some h => simp only []; cases h.updatePoint o k t v now <;> rfl
  | updMany k now pts =>
    simp only [World.step]
    cases w.h with
    | none => rfl
    | some h => simp only []; cases h.updateMany o pts k now <;> rfl

/-- after `Sync` the disk holds exactly the handle's state -/
theorem sync_publishes (o : FOps) (w : World) (h : Handle) (hh : w.h = some h) :
    (w.step o .sync).1.disk = some h.view ∧ (w.step o .sync).1.h = some h := by
  simp [World.step, hh]

/-- any number of writes, drops and reopens between two Syncs leave the disk as it was:
    a process that dies at any point leaves precisely the last synced state -/
theorem abandon_leaves_last_synced (o : FOps) (w : World) (ops : List LibOp)
    (hops : ∀ op ∈ ops, HandleOp op) : (w.run o ops).disk = w.disk := by
  induction ops generalizing w with
  | nil => rfl
  | cons op ops ih =>
    simp only [World.run, List.foldl_cons]
    have := ih (w.step o op).1 (fun x hx => hops x (by simp [hx]))
    simp only [World.run] at this
    rw [this, disk_changes_only_at_sync o w op (hops op (by simp))]

/-- the disk after a history is the view at its last `sync` -/
theorem disk_is_last_synced_view (o : FOps) (w : World) (pre post : List LibOp)
    (hpost : ∀ op ∈ post, HandleOp op) (h : Handle) (hh : (w.run o pre).h = some h) :
    (w.run o (pre ++ [.sync] ++ post)).disk = some h.view := by
  have e : w.run o (pre ++ [.sync] ++ post) = (((w.run o pre).step o .sync).1).run o post := by
    simp [World.run, List.foldl_append]
  rw [e, abandon_leaves_last_synced o _ post hpost]
  exact (sync_publishes o _ h hh).1

/-- a valid handle: header accepted by validation, archives within the Go field ranges -/
structure ValidHandle (h : Handle) : Prop where
  valid : validateArchs h.hdr.archives = true
  range : ∀ a ∈ h.hdr.archives, ArchWF a

/-- **length and header never change**: whatever a single or batch update does (direct
    writes and propagation at every level), the header, the length of the file image and
    its first `16 + 12·k` bytes are untouched. -/
theorem length_and_header_fixed (o : FOps) (h h' : Handle) (vh : ValidHandle h) :
    (∀ k t v now, h.updatePoint o k t v now = .ok h' → Frame (16 + 12 * h.hdr.archives.length) h h') ∧
    (∀ ps k now, h.updateMany o ps k now = .ok h' → Frame (16 + 12 * h.hdr.archives.length) h h') := by
  have pl := placed_of_valid h vh.valid vh.range
  exact ⟨fun k t v now hp => updatePoint_frame o h h' pl k t v now hp,
         fun ps k now hp => updateMany_frame o h h' pl ps k now hp⟩

theorem valid_preserved (h h' : Handle) (vh : ValidHandle h)
    (hf : Frame (16 + 12 * h.hdr.archives.length) h h') : ValidHandle h' := by
  refine ⟨?_, ?_⟩
  · rw [hf.1]; exact vh.valid
  · rw [hf.1]; exact vh.range

/-- creation: the file has its final length at once (zeros on disk), the header is in
    the buffer only; the first Sync publishes it -/
theorem create_length (o : FOps) (agg : Nat) (xff : UInt32) (lay : List (Int × Nat))
    (disk : Bytes) (h : Handle) (hc : createHandle o agg xff lay = .ok (disk, h)) :
    disk.length = h.hdr.expectedFileSize ∧ h.view.length = disk.length ∧
    disk = List.replicate h.hdr.expectedFileSize 0 := by
  unfold createHandle at hc
  simp only [bind, Except.bind] at hc
  cases hn : newHeader o agg xff lay with
  | error e => simp [hn] at hc
  | ok hd =>
    simp only [hn] at hc
    cases hw : writeAt (List.replicate hd.expectedFileSize 0) 0 (encHeader hd) with
    | error e => simp [hw] at hc
    | ok v =>
      simp only [hw, pure, Except.pure] at hc
      injection hc with hc
      injection hc with h1 h2
      subst h1 h2
      obtain ⟨hle, hv⟩ := writeAt_ok _ _ _ _ hw
      simp at hle
      refine ⟨by simp, ?_, rfl⟩
      simp [hv]; omega

/-- the regenerated call-site facts: only `Sync` flushes the buffer and syncs the file,
    nothing writes the file except through the buffer -/
theorem only_sync_reaches_the_disk :
    Facts.flushCallers = ["Sync"] ∧ Facts.fileSyncCallers = ["Sync"] ∧ Facts.directFileWriteCallers = [] :=
  ⟨FactsTie.disk_writers.1, FactsTie.disk_writers.2.1, FactsTie.disk_writers.2.2.1⟩

/-! non-vacuity -/
example : HandleOp (.upd (-1) 1000 0 1000) ∧ ¬ HandleOp .sync := by simp [HandleOp]

end Wsp.C05
