/-
  C05, the CLI clause: a `copy` or `sum-copy` that does not report success leaves the tree as
  it was when the destination already existed — nothing reaches the disk before the final
  `Sync`, and the final `Sync` is only reached on success.
-/
import Wsp.Model.Cmd
namespace Wsp.C05
open Wsp.Cmd

/-- the common core publishes only on success -/
theorem copyCore_failure_keeps_tree (o : FOps) (t : Tree) (dst : String) (hd : Handle) (sa : List Arch)
    (ls : List (Option Series)) (w : Window) (excl : Bool)
    (hfail : (copyCore o t dst hd sa ls w excl).2.1 ≠ .ok) : (copyCore o t dst hd sa ls w excl).1 = t := by
  unfold copyCore at hfail ⊢
  cases hf : fetchList hd w.archiveID w.from_ w.until' w.now with
  | error e => rfl
  | ok ld =>
    rw [hf] at hfail
    simp only at hfail ⊢
    split
    · rfl
    · split
      · rfl
      · split
        · rfl
        · rename_i h1 h2 h3
          rw [if_neg h1, if_neg h2] at hfail
          simp only [h3, Bool.false_eq_true, if_false] at hfail
          cases hc : copyArchives o ls excl w hd 0
              ((List.range hd.archs.length).map fun i => (diffLists o excl ls ld).1.getD i []) with
          | error e => rfl
          | ok r =>
            obtain ⟨a, b⟩ := r
            rw [hc] at hfail
            exact absurd rfl hfail

/-- opening an existing destination leaves the tree alone -/
theorem openOrCreate_existing (o : FOps) (t t' : Tree) (dst : String) (c : CopyOpts) (b : Bytes) (hd : Handle)
    (hb : t.get dst = some b) (hoc : openOrCreate o t dst c = .ok (t', hd)) : t' = t := by
  unfold openOrCreate at hoc
  cases hn : newHeader o c.agg c.xff c.lay with
  | error e => rw [hn] at hoc; simp at hoc
  | ok _ =>
    rw [hn] at hoc; simp only at hoc
    rw [hb] at hoc; simp only at hoc
    cases ho : openBytes o b with
    | error e => rw [ho] at hoc; simp at hoc
    | ok h =>
      rw [ho] at hoc; simp only at hoc
      injection hoc with hoc; injection hoc with e1 _; exact e1.symm

/-- **a failing `copy` leaves an existing destination (and everything else) untouched** -/
theorem copy_failure_keeps_existing (o : FOps) (t : Tree) (src dst : String) (c : CopyOpts) (w : Window) (b : Bytes)
    (hb : t.get dst = some b) (hfail : (copyOne o t src dst c w).2.1 ≠ .ok) :
    (copyOne o t src dst c w).1 = t := by
  unfold copyOne at hfail ⊢
  cases hoc : openOrCreate o t dst c with
  | error e => rfl
  | ok r =>
    obtain ⟨t', hd⟩ := r
    have e := openOrCreate_existing o t t' dst c b hd hb hoc
    subst e
    try rw [hoc] at hfail
    simp only at hfail ⊢
    cases hr : readFile o t' src w.archiveID w.from_ w.until' w.now with
    | error e => rfl
    | ok r2 =>
      obtain ⟨hs, ls⟩ := r2
      try rw [hr] at hfail
      simp only at hfail ⊢
      exact copyCore_failure_keeps_tree o t' dst hd _ ls w _ hfail

/-- the same for `sum-copy` -/
theorem sumCopy_failure_keeps_existing (o : FOps) (t : Tree) (files : List String) (dst : String) (c : CopyOpts)
    (w : Window) (b : Bytes) (hb : t.get dst = some b) (hfail : (sumCopy o t files dst c w).2.1 ≠ .ok) :
    (sumCopy o t files dst c w).1 = t := by
  unfold sumCopy at hfail ⊢
  cases hoc : openOrCreate o t dst c with
  | error e => rfl
  | ok r =>
    obtain ⟨t', hd⟩ := r
    have e := openOrCreate_existing o t t' dst c b hd hb hoc
    subst e
    try rw [hoc] at hfail
    simp only at hfail ⊢
    cases hr : sumFiles o t' files w with
    | error e => rfl
    | ok r2 =>
      obtain ⟨hs, ls⟩ := r2
      try rw [hr] at hfail
      simp only at hfail ⊢
      exact copyCore_failure_keeps_tree o t' dst hd _ ls w _ hfail

end Wsp.C05
