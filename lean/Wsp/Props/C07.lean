/-
  C07  Layout validation: exactly the well-formed archive lists are accepted.

  `WellFormedArchs` is stated over ideal integers (no wrap-around); ⟦validate⟧ is the
  model of the Go code with uint32/int32 arithmetic as written.  All four entry points
  funnel through it.  xFilesFactor: "a number within [0,1]" is `XffInUnit` on the
  float32 bit pattern (non-negative floats are ordered like their bit patterns; -0 is
  the one admissible pattern with the sign bit); that the float comparison of the
  running code decides it is the law `XffLaw` (validated for the IEEE instance by the
  correspondence check: all boundary patterns in the quick tier, every float32 in the
  thorough tier).
-/
import Wsp.Proofs.ValidateLemmas
import Wsp.Model.Whisper
import Wsp.Model.Text
namespace Wsp.C07
open Wsp.C14

/-- `0 ≤ x ≤ 1` as a number, on float32 bits: +0 … 1.0, or −0. NaN, ±Inf, negatives, >1 excluded. -/
def XffInUnit (x : UInt32) : Prop := x.toNat ≤ 0x3f800000 ∨ x.toNat = 0x80000000

def XffLaw (o : FOps) : Prop := ∀ x, o.xffValid x = true ↔ XffInUnit x

/-- ⟦ArchiveInfoList.validate⟧ accepts exactly the well-formed lists (all four rules, each
    at its boundary, and 32-bit representability). -/
theorem validate_iff (as : List Arch) (hr : ∀ a ∈ as, ArchWF a) :
    validateArchs as = true ↔ WellFormedArchs as := validateArchs_iff as hr

/-- the storable aggregation methods are exactly 1..6 -/
theorem method_iff (m : Nat) : validAgg m = true ↔ 1 ≤ m ∧ m ≤ 6 := by
  simp [validAgg]

/-! ### the four entry points accept through the same test -/

/-- `NewHeader` / `Create` -/
theorem newHeader_accepts (o : FOps) (agg : Nat) (xff : UInt32) (lay : List (Int × Nat)) (h : Header)
    (hok : newHeader o agg xff lay = .ok h) :
    validAgg agg = true ∧ o.xffValid xff = true ∧ validateArchs h.archives = true ∧
    h.archives = fillOffsets (lay.map fun (s, n) => ⟨0, s, n⟩) ∧ h.agg = agg ∧ h.xff = xff := by
  unfold newHeader at hok
  dsimp only at hok
  cases ha : validAgg agg with
  | false => simp [ha] at hok
  | true =>
    cases hx : o.xffValid xff with
    | false => simp [ha, hx] at hok
    | true =>
      cases hv : validateArchs (fillOffsets (lay.map fun (s, n) => ⟨0, s, n⟩)) with
      | false => simp [ha, hx, hv] at hok
      | true =>
        simp only [ha, hx, hv, Bool.not_true, Bool.false_eq_true, if_false] at hok
        split at hok
        · simp at hok
        · injection hok with hok
          subst hok
          exact ⟨rfl, rfl, hv, rfl, rfl, rfl⟩

theorem newHeader_rejects (o : FOps) (agg : Nat) (xff : UInt32) (lay : List (Int × Nat))
    (hbad : validAgg agg = false ∨ o.xffValid xff = false ∨
      validateArchs (fillOffsets (lay.map fun (s, n) => ⟨0, s, n⟩)) = false) :
    newHeader o agg xff lay = .error (.err .invalid) := by
  unfold newHeader
  rcases hbad with h | h | h
  · simp [h]
  · by_cases ha : validAgg agg = true <;> simp [ha, h]
  · by_cases ha : validAgg agg = true <;> by_cases hx : o.xffValid xff = true <;> simp [ha, hx, h]

/-- `Header.TakeFrom` -/
theorem decHeader_accepts (o : FOps) (src : Bytes) (h : Header) (rest : Bytes)
    (hok : decHeader o src = .ok (h, rest)) :
    validAgg h.agg = true ∧ o.xffValid h.xff = true ∧ validateArchs h.archives = true := by
  unfold decHeader at hok
  dsimp only at hok
  by_cases h16 : src.length < 16
  · simp [h16] at hok
  simp only [h16, if_false] at hok
  cases ha : validAgg (de32 src) with
  | false => simp [ha] at hok
  | true =>
    cases hx : o.xffValid (UInt32.ofNat (de32 (src.drop 8))) with
    | false => simp [ha, hx] at hok
    | true =>
      simp only [ha, hx, Bool.not_true, Bool.false_eq_true, if_false] at hok
      split at hok
      · simp at hok
      · split at hok
        · simp at hok
        · rename_i as rest' hd
          cases hv : validateArchs as with
          | false => simp [hv] at hok
          | true =>
            simp only [hv, Bool.not_true, Bool.false_eq_true, if_false] at hok
            injection hok with hok
            injection hok with h1 h2
            subst h1
            exact ⟨ha, hx, hv⟩

/-- parsing a retention string -/
theorem parse_accepts (s : Str) (as : List Arch) (hok : parseArchiveInfoList s = some as) :
    validateArchs as = true := by
  unfold parseArchiveInfoList at hok
  dsimp only at hok
  split at hok
  · simp at hok
  · split at hok
    · simp at hok
    · split at hok
      · rename_i hv
        injection hok with hok
        subst hok
        exact hv
      · simp at hok

/-- `Open`: whatever opens has passed the same three tests (and is long enough, C15) -/
theorem open_accepts (o : FOps) (bytes : Bytes) (ps : Nat) (h : Handle)
    (hok : openBytes o bytes ps = .ok h) :
    validAgg h.hdr.agg = true ∧ o.xffValid h.hdr.xff = true ∧ validateArchs h.hdr.archives = true := by
  unfold openBytes at hok
  simp only [bind, Except.bind] at hok
  cases hr : readHeader o bytes ps with
  | error e => simp [hr] at hok
  | ok hd =>
    simp only [hr] at hok
    have key : validAgg hd.agg = true ∧ o.xffValid hd.xff = true ∧ validateArchs hd.archives = true := by
      unfold readHeader at hr
      simp only [bind, Except.bind] at hr
      cases h1 : readAt bytes 0 16 with
      | error e => simp [h1] at hr
      | ok b =>
        simp only [h1] at hr
        cases h2 : decHeader o b with
        | ok v =>
          simp only [h2, pure, Except.pure] at hr
          injection hr with hr
          obtain ⟨hh, r⟩ := v
          simp at hr; subst hr
          exact decHeader_accepts o b hh r h2
        | error e =>
          cases e with
          | panic w => simp [h2] at hr
          | err k => simp [h2, throw, throwThe, MonadExceptOf.throw] at hr
          | wantLarger n =>
            simp only [h2] at hr
            split at hr
            · simp [throw, throwThe, MonadExceptOf.throw] at hr
            · cases h3 : readAt bytes 0 n.toNat with
              | error e => simp [h3] at hr
              | ok b2 =>
                simp only [h3] at hr
                generalize (b2 ++ List.replicate ((if n.toNat > ps then n.toNat else ps) - n.toNat) 0) = padded at hr
                cases h4 : decHeader o padded with
                | error e => simp [h4] at hr
                | ok v =>
                  simp only [h4, pure, Except.pure] at hr
                  injection hr with hr
                  obtain ⟨hh, r⟩ := v
                  simp at hr; subst hr
                  exact decHeader_accepts o _ hh r h4
    split at hok
    · simp [throw, throwThe, MonadExceptOf.throw] at hok
    · simp [pure, Except.pure] at hok
      subst hok
      exact key

/-- All entry points agree: each accepts only lists that `validate` accepts, i.e. exactly
    the well-formed ones, and the header codec (C14.roundtrip_header) accepts every header
    `NewHeader` makes. -/
theorem entry_points_agree (o : FOps) (as : List Arch) (hr : ∀ a ∈ as, ArchWF a) :
    ((∃ s, parseArchiveInfoList s = some as) → WellFormedArchs as) ∧
    ((∃ src h rest, decHeader o src = .ok (h, rest) ∧ h.archives = as) → WellFormedArchs as) ∧
    ((∃ b ps h, openBytes o b ps = .ok h ∧ h.hdr.archives = as) → WellFormedArchs as) ∧
    ((∃ agg xff lay h, newHeader o agg xff lay = .ok h ∧ h.archives = as) → WellFormedArchs as) := by
  refine ⟨?_, ?_, ?_, ?_⟩
  · rintro ⟨s, hs⟩; exact (validate_iff as hr).1 (parse_accepts s as hs)
  · rintro ⟨src, h, rest, hd, rfl⟩; exact (validate_iff _ hr).1 (decHeader_accepts o src h rest hd).2.2
  · rintro ⟨b, ps, h, ho, rfl⟩; exact (validate_iff _ hr).1 (open_accepts o b ps h ho).2.2
  · rintro ⟨agg, xff, lay, h, hn, rfl⟩; exact (validate_iff _ hr).1 (newHeader_accepts o agg xff lay h hn).2.2.1

/-! ### non-vacuity and the boundaries named by the property -/

private def a (off : Nat) (s : Int) (n : Nat) : Arch := ⟨off, s, n⟩

example : validateArchs [a 40 1 8, a 136 4 6] = true := by decide
-- equal steps / non-dividing steps / equal retentions / one point too few / zero values
example : validateArchs [a 40 4 8, a 136 4 9] = false := by decide
example : validateArchs [a 40 4 8, a 136 6 9] = false := by decide
example : validateArchs [a 40 1 8, a 136 4 2] = false := by decide
example : validateArchs [a 40 1 3, a 76 4 6] = false := by decide
example : validateArchs [a 28 0 3] = false := by decide
example : validateArchs [a 28 1 0] = false := by decide
example : validateArchs [] = false := by decide
-- 32-bit overflow: 1s:20y,1m:30y (offsets wrap) and a retention of 2^31 seconds
example : validateArchs [a 40 1 630720000, a 3273672744 60 15768000] = false := by decide
example : validateArchs [a 28 2 1073741824] = false := by decide

end Wsp.C07
