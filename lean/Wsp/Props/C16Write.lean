/-
  C16, the totality clause for the writing commands: `copy`, `sum-copy` and `generate` never
  end in a panic — with the clock past every retention involved and before 2038, layouts a
  Go caller can pass, whatever bytes the files of the tree hold.
-/
import Wsp.Props.C16Total
import Wsp.Props.Invariant
import Wsp.Props.Reopen
namespace Wsp.C16T
open Wsp.Handle Wsp.C14 Wsp.Total Wsp.Cmd

theorem clockOK_of_hdr {h h' : Handle} {now : Nat} (z : ClockOK h now) (hh : h'.hdr = h.hdr) : ClockOK h' now := by
  intro a ha
  unfold Handle.archs at ha
  rw [hh] at ha
  exact z a ha

theorem newHeader_np (o : FOps) (agg : Nat) (xff : UInt32) (lay : List (Int × Nat)) : ¬ IsPanic (newHeader o agg xff lay) := by
  rintro ⟨w, hh⟩
  unfold newHeader at hh
  dsimp only at hh
  split at hh
  · simp at hh
  · split at hh
    · simp at hh
    · split at hh
      · simp at hh
      · split at hh <;> simp at hh

theorem createHandle_np (o : FOps) (agg : Nat) (xff : UInt32) (lay : List (Int × Nat)) :
    ¬ IsPanic (createHandle o agg xff lay) := by
  rintro ⟨w, hh⟩
  unfold createHandle at hh
  simp only [bind, Except.bind] at hh
  cases hn : newHeader o agg xff lay with
  | error e => rw [hn] at hh; simp only at hh; injection hh with hh; exact newHeader_np o agg xff lay ⟨w, by rw [hn, hh]⟩
  | ok hdr =>
    rw [hn] at hh; simp only at hh
    cases hw : writeAt (List.replicate hdr.expectedFileSize 0) 0 (encHeader hdr) with
    | error e => rw [hw] at hh; simp only at hh; injection hh with hh; exact writeAt_np _ _ _ ⟨w, by rw [hw, hh]⟩
    | ok v => rw [hw] at hh; simp [pure, Except.pure] at hh

/-- the destination handle `copy` works on: opened from the tree or freshly created -/
theorem openOrCreate_good (o : FOps) (t t' : Tree) (dst : String) (c : CopyOpts) (hl : LayInRange c.lay) (hd : Handle)
    (now : Nat) (hz : ClockAll o t now)
    (hzc : ∀ disk h, createHandle o c.agg c.xff c.lay = .ok (disk, h) → ClockOK h now)
    (hoc : openOrCreate o t dst c = .ok (t', hd)) :
    Good hd ∧ ClockOK hd now ∧ ClockAll o t' now := by
  unfold openOrCreate at hoc
  cases hn : newHeader o c.agg c.xff c.lay with
  | error e => rw [hn] at hoc; simp at hoc
  | ok _ =>
    rw [hn] at hoc; simp only at hoc
    cases hb : t.get dst with
    | some b =>
      rw [hb] at hoc; simp only at hoc
      cases ho : openBytes o b with
      | error e => rw [ho] at hoc; simp at hoc
      | ok h =>
        rw [ho] at hoc; simp only at hoc
        injection hoc with hoc; injection hoc with e1 e2; subst e1 e2
        exact ⟨open_good o b _ h ho, hz dst b h hb ho, hz⟩
    | none =>
      rw [hb] at hoc; simp only at hoc
      cases hc : createHandle o c.agg c.xff c.lay with
      | error e => rw [hc] at hoc; simp at hoc
      | ok r =>
        obtain ⟨disk, h⟩ := r
        rw [hc] at hoc; simp only at hoc
        injection hoc with hoc; injection hoc with e1 e2; subst e1 e2
        have g := create_good o c.agg c.xff c.lay hl disk h hc
        have zc := hzc disk h hc
        refine ⟨g, zc, ?_⟩
        intro p b' h' hp ho'
        unfold Tree.get Tree.set at hp
        by_cases hpd : p = dst
        · simp only [hpd, if_true] at hp
          injection hp with hp; subst hp
          -- reopening the created view gives a handle with the same header
          have r := Wsp.Reopen.created_reopenable o c.agg c.xff c.lay hl disk h hc
          rw [Wsp.Reopen.open_reopenable o h r] at ho'
          injection ho' with ho'; subst ho'
          exact zc
        · simp only [hpd, if_false] at hp
          exact hz p b' h' hp ho'

theorem openOrCreate_np (o : FOps) (t : Tree) (dst : String) (c : CopyOpts) : ¬ IsPanic (openOrCreate o t dst c) := by
  rintro ⟨w, hh⟩
  unfold openOrCreate at hh
  cases hn : newHeader o c.agg c.xff c.lay with
  | error e => rw [hn] at hh; simp only at hh; injection hh with hh; exact newHeader_np o _ _ _ ⟨w, by rw [hn, hh]⟩
  | ok _ =>
    rw [hn] at hh; simp only at hh
    cases hb : t.get dst with
    | some b =>
      rw [hb] at hh; simp only at hh
      cases ho : openBytes o b with
      | error e => rw [ho] at hh; simp at hh
      | ok h => rw [ho] at hh; simp at hh
    | none =>
      rw [hb] at hh; simp only at hh
      cases hc : createHandle o c.agg c.xff c.lay with
      | error e => rw [hc] at hh; simp only at hh; injection hh with hh; exact createHandle_np o _ _ _ ⟨w, by rw [hc, hh]⟩
      | ok r => obtain ⟨disk, h⟩ := r; rw [hc] at hh; simp at hh

theorem copyArchives_np (o : FOps) (ls : List (Option Series)) (excl : Bool) (w : Window) (batches : List (List Point)) :
    ∀ (h : Handle) (i : Nat), Good h → ClockOK h w.now → ¬ IsPanic (copyArchives o ls excl w h i batches) := by
  induction batches with
  | nil => intro h i _ _; rintro ⟨x, hx⟩; simp [copyArchives] at hx
  | cons ps rest ih =>
    intro h i g z
    rintro ⟨x, hx⟩
    simp only [copyArchives] at hx
    split at hx
    · rename_i e he
      injection hx with hx; subst hx
      -- the points could not be computed: only the fetch can fail
      revert he
      cases ls.getD i none with
      | none => intro he; simp at he
      | some s =>
        simp only
        split
        · intro he; simp at he
        · cases hf : h.fetchFromArchive (i : Int) w.from_ w.until' w.now with
          | error e' =>
            intro he; simp only at he; injection he with he; subst he
            exact fetch_total h g _ _ _ _ z ⟨x, hf⟩
          | ok d => intro he; simp at he
    · rename_i pts _
      cases hu : h.updateMany o pts (i : Int) w.now with
      | error e =>
        rw [hu] at hx; simp only at hx; injection hx with hx; subst hx
        exact (updateMany_total o h g pts (i : Int) w.now).1 ⟨x, hu⟩
      | ok h' =>
        rw [hu] at hx; simp only at hx
        have fr := updateMany_frame o h h' g.placed pts (i : Int) w.now hu
        cases hr : copyArchives o ls excl w h' (i + 1) rest with
        | error e =>
          rw [hr] at hx; simp only at hx; injection hx with hx; subst hx
          exact ih h' (i + 1) (g.of_frame fr) (clockOK_of_hdr z fr.1) ⟨x, hr⟩
        | ok r => obtain ⟨hx', wr⟩ := r; rw [hr] at hx; simp at hx

theorem copyCore_np (o : FOps) (t : Tree) (dst : String) (hd : Handle) (sa : List Arch) (ls : List (Option Series))
    (w : Window) (excl : Bool) (g : Good hd) (z : ClockOK hd w.now) :
    (copyCore o t dst hd sa ls w excl).2.1 ≠ .panic := by
  unfold copyCore
  cases hf : fetchList hd w.archiveID w.from_ w.until' w.now with
  | error e => exact ofFault_ne_panic _ e hf (fetchList_np hd g _ _ _ _ z)
  | ok ld =>
    simp only
    split
    · simp
    · split
      · simp
      · split
        · simp
        · cases hc : copyArchives o ls excl w hd 0
              ((List.range hd.archs.length).map fun i => (diffLists o excl ls ld).1.getD i []) with
          | error e => exact ofFault_ne_panic _ e hc (copyArchives_np o ls excl w _ hd 0 g z)
          | ok r => obtain ⟨a, b⟩ := r; simp

/-- **copy never panics** -/
theorem copyOne_total (o : FOps) (t : Tree) (src dst : String) (c : CopyOpts) (w : Window) (hl : LayInRange c.lay)
    (hz : ClockAll o t w.now)
    (hzc : ∀ disk h, createHandle o c.agg c.xff c.lay = .ok (disk, h) → ClockOK h w.now) :
    (copyOne o t src dst c w).2.1 ≠ .panic := by
  unfold copyOne
  cases hoc : openOrCreate o t dst c with
  | error e => exact ofFault_ne_panic _ e hoc (openOrCreate_np o t dst c)
  | ok r =>
    obtain ⟨t', hd⟩ := r
    simp only
    obtain ⟨g, z, hz'⟩ := openOrCreate_good o t t' dst c hl hd w.now hz hzc hoc
    cases hr : readFile o t' src w.archiveID w.from_ w.until' w.now with
    | error e => exact ofFault_ne_panic _ e hr (readFile_np o t' src _ _ _ _ hz')
    | ok r2 => obtain ⟨hs, ls⟩ := r2; exact copyCore_np o t' dst hd _ ls w _ g z

/-- **sum-copy never panics** -/
theorem sumCopy_total (o : FOps) (t : Tree) (files : List String) (dst : String) (c : CopyOpts) (w : Window)
    (hl : LayInRange c.lay) (hz : ClockAll o t w.now)
    (hzc : ∀ disk h, createHandle o c.agg c.xff c.lay = .ok (disk, h) → ClockOK h w.now) :
    (sumCopy o t files dst c w).2.1 ≠ .panic := by
  unfold sumCopy
  cases hoc : openOrCreate o t dst c with
  | error e => exact ofFault_ne_panic _ e hoc (openOrCreate_np o t dst c)
  | ok r =>
    obtain ⟨t', hd⟩ := r
    simp only
    obtain ⟨g, z, hz'⟩ := openOrCreate_good o t t' dst c hl hd w.now hz hzc hoc
    cases hr : sumFiles o t' files w with
    | error e => exact ofFault_ne_panic _ e hr (sumFiles_np o t' files w hz')
    | ok r2 => obtain ⟨hs, ls⟩ := r2; exact copyCore_np o t' dst hd _ ls w _ g z

theorem updateAll_np (o : FOps) (now : Nat) (pl : List (List Point)) :
    ∀ (h : Handle) (i : Nat), Good h → ¬ IsPanic (updateAll o h now i pl) := by
  induction pl with
  | nil => intro h i _; rintro ⟨x, hx⟩; simp [updateAll] at hx
  | cons ps rest ih =>
    intro h i g
    rintro ⟨x, hx⟩
    simp only [updateAll] at hx
    cases hu : h.updateMany o ps (i : Int) now with
    | error e => rw [hu] at hx; simp only at hx; injection hx with hx; subst hx; exact (updateMany_total o h g ps (i : Int) now).1 ⟨x, hu⟩
    | ok h' =>
      rw [hu] at hx; simp only at hx
      exact ih h' (i + 1) (g.of_frame (updateMany_frame o h h' g.placed ps (i : Int) now hu)) ⟨x, hx⟩

/-- **generate never panics**, whatever the random points are -/
theorem generate_total (o : FOps) (t : Tree) (dst : String) (c : CopyOpts) (pl : Option (List (List Point))) (now : Nat)
    (hl : LayInRange c.lay) : (generate o t dst c pl now).2 ≠ .panic := by
  unfold generate
  cases hb : t.get dst with
  | some b => simp
  | none =>
    simp only
    cases hc : createHandle o c.agg c.xff c.lay with
    | error e => exact ofFault_ne_panic _ e hc (createHandle_np o _ _ _)
    | ok r =>
      obtain ⟨disk, h⟩ := r
      simp only
      cases pl with
      | none => simp
      | some pl =>
        simp only
        cases hu : updateAll o h now 0 pl with
        | error e => exact ofFault_ne_panic _ e hu (updateAll_np o now pl h 0 (create_good o _ _ _ hl disk h hc))
        | ok h' => simp

end Wsp.C16T
