/-
  The layout hypotheses of `history_changes_only_inside` discharged from the validated header:
  every handle `Open` or `Create` returns has steps that are positive and each divide the next
  (C07), so the statement needs nothing but such a handle and 32-bit times.
-/
import Wsp.Props.C02Contains
import Wsp.Props.C03Success
namespace Wsp.C02S
open Wsp.Handle Wsp.Total

theorem good_chainWF {h : Handle} (g : Good h) : ChainWF h.archs ∧ ∀ a ∈ h.archs, 0 < a.step := by
  have wf := g.wf
  constructor
  · intro i a b ha hb
    have hp := C03S.wfFrom_pair _ _ wf.2.2 i a b ha hb
    have oka := wfFrom_archOK _ _ wf.2.2 a (Wsp.mem_of_getElem? ha)
    have okb := wfFrom_archOK _ _ wf.2.2 b (Wsp.mem_of_getElem? hb)
    exact ⟨oka.1, Int.dvd_of_emod_eq_zero hp.2.1, okb.1⟩
  · intro a ha
    exact (wfFrom_archOK _ _ wf.2.2 a ha).1

/-- **over any history of accepted single updates of a file whispertool opened or created, a
    slot of any archive changes only through an update whose time lies inside the interval —
    on that archive's grid — the slot is afterwards stamped with** -/
theorem history_changes_only_inside_good (o : FOps) (ops : List (Nat × Val × Nat)) (h h' : Handle) (g : Good h)
    (htimes : ∀ op ∈ ops, op.1 < 4294967296)
    (hr : runSingles o h ops = .ok h') (m : Nat) (b : Arch) (j : Nat)
    (hmb : h.archs[m]? = some b) (hj : j < b.n) (hne : slotAt h' b j ≠ slotAt h b j) :
    ∃ op ∈ ops, (slotAt h' b j).t ≤ op.1 ∧ (op.1 : Int) < (slotAt h' b j).t + b.step ∧
      b.step ∣ ((slotAt h' b j).t : Int) :=
  history_changes_only_inside o ops h h' g (good_chainWF g).1 (good_chainWF g).2 htimes hr m b j hmb hj hne

end Wsp.C02S
