/-
  Totality of the library on every file that opens (anchors: C15 "a hostile file cannot crash
  the process", C02/C03 "an update either fails with an error or completes").

  `Good h` — the header passed ⟦ArchiveInfoList.validate⟧, its fields are in their Go ranges
  and the aggregation method is storable — holds of every handle `Open` returns, whatever
  bytes the file holds, and of every handle `Create` returns; it is preserved by every
  update; and on a `Good` handle no single or batch update panics, for any value, any time,
  any clock, with archive id −1 or an id in the list (Go indexes the slice with a caller's
  id unchecked: an id outside the list is a caller error and does panic).  Lifted to every
  operation sequence of the file/handle state machine, with the file replaced by arbitrary
  bytes at any point (`never_panics`).
-/
import Wsp.Proofs.NoPanic
import Wsp.Props.C05
import Wsp.Props.C07
import Wsp.Props.C15
import Wsp.Props.C20
import Wsp.Props.C04
namespace Wsp.Total
open Wsp.Handle Wsp.C14

def Good (h : Handle) : Prop := C05.ValidHandle h ∧ validAgg h.hdr.agg = true

theorem decArchs_wf : ∀ (n : Nat) (src : Bytes) (as : List Arch) (rest : Bytes),
    decArchs n src = .ok (as, rest) → ∀ a ∈ as, ArchWF a := by
  intro n
  induction n with
  | zero =>
    intro src as rest h
    simp only [decArchs] at h
    injection h with h; injection h with h1 _; subst h1
    intro a ha; simp at ha
  | succ n ih =>
    intro src as rest h
    simp only [decArchs] at h
    cases h1 : decArch src with
    | error e => rw [h1] at h; simp at h
    | ok r =>
      obtain ⟨a, src'⟩ := r
      rw [h1] at h; simp only at h
      cases h2 : decArchs n src' with
      | error e => rw [h2] at h; simp at h
      | ok r2 =>
        obtain ⟨as', rest'⟩ := r2
        rw [h2] at h; simp only at h
        injection h with h; injection h with h3 _; subst h3
        intro b hb
        simp only [List.mem_cons] at hb
        rcases hb with rfl | hb
        · unfold decArch at h1
          split at h1
          · simp at h1
          · injection h1 with h1; injection h1 with h1 _; subst h1
            refine ⟨de32_lt _, ?_, ?_, de32_lt _⟩ <;> (simp only [i32]; omega)
        · exact ih src' as' rest' h2 b hb

theorem decHeader_wf (o : FOps) (src : Bytes) (h : Header) (rest : Bytes)
    (hok : decHeader o src = .ok (h, rest)) : ∀ a ∈ h.archives, ArchWF a := by
  unfold decHeader at hok
  dsimp only at hok
  split at hok
  · simp at hok
  · split at hok
    · simp at hok
    · split at hok
      · simp at hok
      · split at hok
        · simp at hok
        · split at hok
          · simp at hok
          · rename_i as src' hd
            split at hok
            · simp at hok
            · injection hok with hok; injection hok with h1 _; subst h1
              exact decArchs_wf _ _ _ _ hd

/-- what a decoded header is known to satisfy -/
def HdrGood (o : FOps) (hd : Header) : Prop :=
  validAgg hd.agg = true ∧ validateArchs hd.archives = true ∧ ∀ a ∈ hd.archives, ArchWF a

theorem decHeader_good (o : FOps) (src : Bytes) (h : Header) (rest : Bytes)
    (hok : decHeader o src = .ok (h, rest)) : HdrGood o h :=
  have a := C07.decHeader_accepts o src h rest hok
  ⟨a.1, a.2.2, decHeader_wf o src h rest hok⟩

theorem readHeader_good (o : FOps) (view : Bytes) (ps : Nat) (hd : Header)
    (hok : readHeader o view ps = .ok hd) : HdrGood o hd := by
  unfold readHeader at hok
  simp only [bind, Except.bind] at hok
  cases h1 : readAt view 0 16 with
  | error e => rw [h1] at hok; simp at hok
  | ok b =>
    rw [h1] at hok; simp only at hok
    cases h2 : decHeader o b with
    | ok v =>
      obtain ⟨h, r⟩ := v
      rw [h2] at hok; simp only [pure, Except.pure] at hok
      injection hok with hok; subst hok
      exact decHeader_good o b _ r h2
    | error e =>
      rw [h2] at hok
      cases e with
      | panic w => simp [throw, throwThe, MonadExceptOf.throw] at hok
      | err k => simp [throw, throwThe, MonadExceptOf.throw] at hok
      | wantLarger n =>
        simp only at hok
        split at hok
        · simp [throw, throwThe, MonadExceptOf.throw] at hok
        · cases h3 : readAt view 0 n.toNat with
          | error e => rw [h3] at hok; simp at hok
          | ok b2 =>
            rw [h3] at hok; simp only at hok
            cases h4 : decHeader o (b2 ++ List.replicate ((if n.toNat > ps then n.toNat else ps) - n.toNat) 0) with
            | error e => rw [h4] at hok; simp at hok
            | ok v =>
              obtain ⟨h, r⟩ := v
              rw [h4] at hok; simp only [pure, Except.pure] at hok
              injection hok with hok; subst hok
              exact decHeader_good o _ _ r h4

/-- **whatever the file holds, a handle that `Open` returns is `Good`** -/
theorem open_good (o : FOps) (bytes : Bytes) (ps : Nat) (h : Handle)
    (ho : openBytes o bytes ps = .ok h) : Good h := by
  unfold openBytes at ho
  simp only [bind, Except.bind] at ho
  cases hr : readHeader o bytes ps with
  | error e => simp [hr] at ho
  | ok hd =>
    simp only [hr] at ho
    split at ho
    · simp [throw, throwThe, MonadExceptOf.throw] at ho
    · simp [pure, Except.pure] at ho
      subst ho
      have g := readHeader_good o bytes ps hd hr
      exact ⟨⟨g.2.1, g.2.2⟩, g.1⟩

/-- the (secondsPerPoint, numberOfPoints) pairs a Go caller can pass: `Duration` is an
    int32, the count a uint32 -/
def LayInRange (lay : List (Int × Nat)) : Prop :=
  ∀ p ∈ lay, -2147483648 ≤ p.1 ∧ p.1 < 2147483648 ∧ p.2 < 4294967296

theorem fillOffsetsFrom_wf : ∀ (as : List Arch) (off : Nat), off < 4294967296 →
    (∀ a ∈ as, -2147483648 ≤ a.step ∧ a.step < 2147483648 ∧ a.n < 4294967296) →
    ∀ a ∈ fillOffsetsFrom off as, ArchWF a := by
  intro as
  induction as with
  | nil => intro off _ _ a ha; simp [fillOffsetsFrom] at ha
  | cons x xs ih =>
    intro off hoff hr a ha
    simp only [fillOffsetsFrom, List.mem_cons] at ha
    have hx := hr x (by simp)
    rcases ha with rfl | ha
    · exact ⟨hoff, hx.1, hx.2.1, hx.2.2⟩
    · exact ih _ (u32_lt _) (fun b hb => hr b (by simp [hb])) a ha

theorem create_good (o : FOps) (agg : Nat) (xff : UInt32) (lay : List (Int × Nat)) (hl : LayInRange lay)
    (disk : Bytes) (h : Handle) (hc : createHandle o agg xff lay = .ok (disk, h)) : Good h := by
  have v := C20.created_is_valid o agg xff lay disk h hc
  refine ⟨⟨v.1, ?_⟩, ?_⟩
  · rw [v.2.1]
    unfold fillOffsets
    apply fillOffsetsFrom_wf
    · unfold firstOffset; exact u32_lt _
    · intro a ha
      simp only [List.mem_map] at ha
      obtain ⟨p, hp, rfl⟩ := ha
      exact hl p hp
  · rw [v.2.2.1]
    have hn : newHeader o agg xff lay ≠ .error (.err .invalid) := by
      intro hbad
      unfold createHandle at hc
      simp [bind, Except.bind, hbad] at hc
    cases ha : validAgg agg with
    | true => rfl
    | false => exact absurd (C07.newHeader_rejects o agg xff lay (Or.inl ha)) hn

theorem wfFrom_archOK : ∀ (as : List Arch) (off : Nat), WFFrom off as → ∀ a ∈ as, ArchOK a := by
  intro as
  induction as with
  | nil => intro off _ a ha; simp at ha
  | cons x rest ih =>
    intro off h a ha
    cases rest with
    | nil => simp at ha; subst ha; exact h.1
    | cons y r =>
      simp only [List.mem_cons] at ha
      rcases ha with rfl | ha
      · exact h.1
      · exact ih _ h.2.2.2 a (by simpa using ha)

theorem Good.wf {h : Handle} (g : Good h) : WellFormedArchs h.hdr.archives :=
  (validateArchs_iff _ g.1.range).1 g.1.valid

theorem Good.hdrOK {h : Handle} (g : Good h) : HdrOK h := by
  refine ⟨g.2, ?_⟩
  intro a ha
  have ok := wfFrom_archOK _ _ g.wf.2.2 a ha
  obtain ⟨h1, h2, h3⟩ := ok
  refine ⟨h1, ?_⟩
  have : a.step * 1 ≤ a.step * (a.n : Int) := Int.mul_le_mul_of_nonneg_left (by omega) (by omega)
  omega

theorem Good.placed {h : Handle} (g : Good h) :
    Placed h (16 + 12 * h.hdr.archives.length) h.hdr.total := placed_of_valid h g.1.valid g.1.range

theorem Good.ne {h : Handle} (g : Good h) : h.archs ≠ [] := g.wf.1

theorem Good.of_frame {h h' : Handle} {H : Nat} (g : Good h) (f : Frame H h h') : Good h' := by
  refine ⟨⟨?_, ?_⟩, ?_⟩
  · rw [f.1]; exact g.1.valid
  · rw [f.1]; exact g.1.range
  · rw [f.1]; exact g.2

/-- an archive id a caller may pass: "best", or an index into the list -/
def IdOK (h : Handle) (k : Int) : Prop := k = -1 ∨ (0 ≤ k ∧ k < h.archs.length)

/-- **a single update never panics** on a `Good` handle and leaves it `Good` -/
theorem update_total (o : FOps) (h : Handle) (g : Good h) (k : Int) (hk : IdOK h k) (t : Nat) (v : Val) (now : Nat) :
    ¬ IsPanic (h.updatePoint o k t v now) ∧ ∀ h', h.updatePoint o k t v now = .ok h' → Good h' :=
  ⟨updatePoint_np o h g.placed g.hdrOK g.ne k hk t v now,
   fun h' hp => g.of_frame (updatePoint_frame o h h' g.placed k t v now hp)⟩

/-- **a batch update never panics** on a `Good` handle — any points, in any order, any id
    (an id that names no archive writes nothing), any clock — and leaves it `Good` -/
theorem updateMany_total (o : FOps) (h : Handle) (g : Good h) (ps : List Point) (k : Int) (now : Nat) :
    ¬ IsPanic (h.updateMany o ps k now) ∧ ∀ h', h.updateMany o ps k now = .ok h' → Good h' :=
  ⟨updateMany_np o h g.placed g.hdrOK ps k now,
   fun h' hp => g.of_frame (updateMany_frame o h h' g.placed ps k now hp)⟩

/-! ### every operation sequence of the file/handle state machine -/

def WGood (w : World) : Prop := ∀ h, w.h = some h → Good h

/-- the caller obligations of one operation: Go-typed layout on create, a valid id on a
    single update -/
def OpOK (w : World) : LibOp → Prop
  | .create lay _ _ => LayInRange lay
  | .createOver lay _ _ => LayInRange lay
  | .upd k _ _ _ => ∀ h, w.h = some h → IdOK h k
  | _ => True

theorem newHeader_no_panic (o : FOps) (agg : Nat) (xff : UInt32) (lay : List (Int × Nat)) (s : String) :
    newHeader o agg xff lay ≠ .error (.panic s) := by
  intro hn
  unfold newHeader at hn
  dsimp only at hn
  split at hn
  · simp at hn
  · split at hn
    · simp at hn
    · split at hn
      · simp at hn
      · split at hn <;> simp at hn

/-- creating a file that is not there: a good handle, or an error that is not a panic -/
theorem createFresh_good (o : FOps) (w : World) (lay : List (Int × Nat)) (agg : Nat) (xff : UInt32)
    (wg : WGood w) (hop : LayInRange lay) :
    WGood (w.createFresh o lay agg xff).1 ∧ ∀ s, (w.createFresh o lay agg xff).2 ≠ .fault (.panic s) := by
  unfold World.createFresh
  cases hc : createHandle o agg xff lay with
  | ok r =>
    obtain ⟨disk, h⟩ := r
    refine ⟨?_, by intro s; simp⟩
    intro h' hh; simp at hh; subst hh
    exact create_good o agg xff lay hop disk h hc
  | error e =>
    refine ⟨wg, ?_⟩
    intro s hs
    simp only at hs
    injection hs with hs; subst hs
    unfold createHandle at hc
    simp only [bind, Except.bind] at hc
    cases hn : newHeader o agg xff lay with
    | error e' =>
      rw [hn] at hc; simp only at hc
      injection hc with hc; subst hc
      exact newHeader_no_panic o agg xff lay s hn
    | ok hdr =>
      rw [hn] at hc; simp only at hc
      cases hw : writeAt (List.replicate hdr.expectedFileSize 0) 0 (encHeader hdr) with
      | error e' =>
        rw [hw] at hc; simp only at hc
        injection hc with hc; subst hc
        exact writeAt_np _ _ _ ⟨s, hw⟩
      | ok v => rw [hw] at hc; simp [pure, Except.pure] at hc

theorem resized_length (old : Bytes) (size : Nat) :
    (old.take size ++ List.replicate (size - old.length) 0).length = size := by
  simp only [List.length_append, List.length_take, List.length_replicate]
  omega

/-- a re-created file is a created file with other bytes behind the header -/
theorem recreate_spec (o : FOps) (agg : Nat) (xff : UInt32) (lay : List (Int × Nat)) (old disk : Bytes) (h : Handle)
    (hc : recreateHandle o agg xff lay old = .ok (disk, h)) :
    ∃ d0 h0, createHandle o agg xff lay = .ok (d0, h0) ∧ h.hdr = h0.hdr ∧
      disk.length = h.hdr.expectedFileSize ∧ h.view.length = disk.length ∧
      h.view.take (encHeader h.hdr).length = encHeader h.hdr ∧
      disk = old.take h.hdr.expectedFileSize ++ List.replicate (h.hdr.expectedFileSize - old.length) 0 := by
  unfold recreateHandle at hc
  cases hn : newHeader o agg xff lay with
  | error e => rw [hn] at hc; simp at hc
  | ok hd =>
    rw [hn] at hc
    simp only at hc
    cases hw : writeAt (old.take hd.expectedFileSize ++ List.replicate (hd.expectedFileSize - old.length) 0) 0 (encHeader hd) with
    | error e => rw [hw] at hc; simp at hc
    | ok v =>
      rw [hw] at hc
      simp only at hc
      injection hc with hc
      injection hc with h1 h2
      subst h1 h2
      obtain ⟨hle, hv⟩ := writeAt_ok _ _ _ _ hw
      have hlen := resized_length old hd.expectedFileSize
      rw [hlen] at hle
      have hw0 : ∃ v0, writeAt (List.replicate hd.expectedFileSize 0) 0 (encHeader hd) = .ok v0 := by
        unfold writeAt
        have : ¬ (0 + (encHeader hd).length > (List.replicate hd.expectedFileSize (0 : UInt8)).length) := by
          simp; omega
        rw [if_neg this]
        exact ⟨_, rfl⟩
      obtain ⟨v0, hv0⟩ := hw0
      refine ⟨List.replicate hd.expectedFileSize 0, ⟨hd, v0⟩, ?_, rfl, hlen, ?_, ?_, rfl⟩
      · unfold createHandle
        simp only [bind, Except.bind, hn, hv0, pure, Except.pure]
      · simp only
        rw [hv]
        simp only [List.take_zero, List.nil_append, List.length_append, List.length_drop, hlen]
        omega
      · simp only
        rw [hv]
        simp

theorem recreate_good (o : FOps) (agg : Nat) (xff : UInt32) (lay : List (Int × Nat)) (hl : LayInRange lay)
    (old disk : Bytes) (h : Handle) (hc : recreateHandle o agg xff lay old = .ok (disk, h)) : Good h := by
  obtain ⟨d0, h0, hc0, hh, _⟩ := recreate_spec o agg xff lay old disk h hc
  have g0 := create_good o agg xff lay hl d0 h0 hc0
  refine ⟨⟨?_, ?_⟩, ?_⟩
  · rw [hh]; exact g0.1.valid
  · rw [hh]; exact g0.1.range
  · rw [hh]; exact g0.2

theorem recreate_no_panic (o : FOps) (agg : Nat) (xff : UInt32) (lay : List (Int × Nat)) (old : Bytes) (s : String) :
    recreateHandle o agg xff lay old ≠ .error (.panic s) := by
  intro hc
  unfold recreateHandle at hc
  cases hn : newHeader o agg xff lay with
  | error e' =>
    rw [hn] at hc; simp only at hc
    injection hc with hc; subst hc
    exact newHeader_no_panic o agg xff lay s hn
  | ok hdr =>
    rw [hn] at hc; simp only at hc
    cases hw : writeAt (old.take hdr.expectedFileSize ++ List.replicate (hdr.expectedFileSize - old.length) 0) 0
        (encHeader hdr) with
    | error e' =>
      rw [hw] at hc; simp only at hc
      injection hc with hc; subst hc
      exact writeAt_np _ _ _ ⟨s, hw⟩
    | ok v => rw [hw] at hc; simp at hc

theorem step_good (o : FOps) (w : World) (op : LibOp) (wg : WGood w) (hop : OpOK w op) :
    WGood (w.step o op).1 ∧ ∀ s, (w.step o op).2 ≠ .fault (.panic s) := by
  cases op with
  | create lay agg xff =>
    simp only [World.step]
    cases hd : w.disk with
    | some d => exact ⟨by intro h hh; simp at hh, by intro s; simp⟩
    | none => exact createFresh_good o w lay agg xff wg hop
  | createOver lay agg xff =>
    simp only [World.step]
    cases hd : w.disk with
    | none => exact createFresh_good o w lay agg xff wg hop
    | some d =>
      simp only
      cases hc : recreateHandle o agg xff lay d with
      | ok r =>
        obtain ⟨disk, h⟩ := r
        refine ⟨?_, by intro s; simp⟩
        intro h' hh; simp at hh; subst hh
        exact recreate_good o agg xff lay hop d disk h hc
      | error e =>
        refine ⟨by intro h hh; simp at hh, ?_⟩
        intro s hs
        simp only at hs
        injection hs with hs; subst hs
        exact recreate_no_panic o agg xff lay d s hc
  | open_ =>
    simp only [World.step]
    cases hd : w.disk with
    | none => exact ⟨by intro h hh; simp at hh, by intro s; simp⟩
    | some d =>
      simp only
      cases ho : openBytes o d with
      | ok h =>
        refine ⟨?_, by intro s; simp⟩
        intro h' hh; simp at hh; subst hh
        exact open_good o d _ h ho
      | error e =>
        refine ⟨by intro h hh; simp at hh, ?_⟩
        intro s hs
        simp only at hs
        injection hs with hs; subst hs
        exact C15.open_total o d _ s ho
  | sync =>
    simp only [World.step]
    cases hh : w.h with
    | none => exact ⟨(by intro h h2; rw [hh] at h2; cases h2), (by intro s; simp)⟩
    | some h =>
      refine ⟨?_, by intro s; simp⟩
      intro h' h2; simp at h2; subst h2; exact wg h hh
  | drop => exact ⟨by intro h hh; simp [World.step] at hh, by intro s; simp [World.step]⟩
  | upd k t v now =>
    simp only [World.step]
    cases hh : w.h with
    | none => exact ⟨(by intro h h2; rw [hh] at h2; cases h2), (by intro s; simp)⟩
    | some h =>
      have g := wg h hh
      have tot := update_total o h g k (hop h hh) t v now
      simp only
      cases hu : h.updatePoint o k t v now with
      | ok h' =>
        refine ⟨?_, by intro s; simp⟩
        intro h2 e; simp at e; subst e; exact tot.2 h' hu
      | error e =>
        refine ⟨wg, ?_⟩
        intro s hs
        simp only at hs
        injection hs with hs; subst hs
        exact tot.1 ⟨s, hu⟩
  | updMany k now pts =>
    simp only [World.step]
    cases hh : w.h with
    | none => exact ⟨(by intro h h2; rw [hh] at h2; cases h2), (by intro s; simp)⟩
    | some h =>
      have g := wg h hh
      have tot := updateMany_total o h g pts k now
      simp only
      cases hu : h.updateMany o pts k now with
      | ok h' =>
        refine ⟨?_, by intro s; simp⟩
        intro h2 e; simp at e; subst e; exact tot.2 h' hu
      | error e =>
        refine ⟨wg, ?_⟩
        intro s hs
        simp only at hs
        injection hs with hs; subst hs
        exact tot.1 ⟨s, hu⟩
  | setDisk b => exact ⟨by intro h hh; simp [World.step] at hh, by intro s; simp [World.step]⟩
  | rmDisk => exact ⟨by intro h hh; simp [World.step] at hh, by intro s; simp [World.step]⟩

/-- the observations of a run -/
def runObs (o : FOps) : World → List LibOp → List OpObs
  | _, [] => []
  | w, op :: ops => (w.step o op).2 :: runObs o (w.step o op).1 ops

/-- the caller obligations along a run -/
def OpsOK (o : FOps) : World → List LibOp → Prop
  | _, [] => True
  | w, op :: ops => OpOK w op ∧ OpsOK o (w.step o op).1 ops

/-- **no reachable state panics**: starting with no handle and any file (or none), through
    any sequence of create / open / update / batch update / sync / close, with the file
    replaced by arbitrary bytes or removed at any point, no operation's outcome is a panic -/
theorem never_panics (o : FOps) (ops : List LibOp) :
    ∀ (w : World), WGood w → OpsOK o w ops → ∀ ob ∈ runObs o w ops, ∀ s, ob ≠ .fault (.panic s) := by
  induction ops with
  | nil => intro w _ _ ob hob; simp [runObs] at hob
  | cons op ops ih =>
    intro w wg hok ob hob s
    have st := step_good o w op wg hok.1
    simp only [runObs, List.mem_cons] at hob
    rcases hob with rfl | hob
    · exact st.2 s
    · exact ih _ st.1 hok.2 ob hob s

/-- the hypotheses are met from the start: a world with any disk content and no handle -/
theorem start_good (d : Option Bytes) : WGood ⟨d, none⟩ := by intro h hh; cases hh

/-! ### fetch -/

theorem alignDown_mono (x y s : Int) (hs : 0 < s) (hxy : x ≤ y) : x - x % s ≤ y - y % s := by
  have hx : s * (x / s) + x % s = x := Int.mul_ediv_add_emod x s
  have hy : s * (y / s) + y % s = y := Int.mul_ediv_add_emod y s
  have hd : x / s ≤ y / s := Int.ediv_le_ediv hs hxy
  have := Int.mul_le_mul_of_nonneg_left hd (Int.le_of_lt hs)
  omega

/-- the clock zone in which timestamps do not wrap: every retention lies behind `now`, and
    `now` plus one step stays below 2^31 (true of every real clock until 2038) -/
def ClockOK (h : Handle) (now : Nat) : Prop :=
  ∀ a ∈ h.archs, a.step * (a.n : Int) ≤ now ∧ (now : Int) + a.step < 2147483648

/-- **a fetch never panics** on a `Good` handle inside the clock zone, for any archive id,
    any window; outside it fails only as `fail_iff` says or with an I/O error -/
theorem fetch_total (h : Handle) (g : Good h) (k : Int) (f u now : Nat) (hz : ClockOK h now) :
    ¬ IsPanic (h.fetchFromArchive k f u now) := by
  rintro ⟨w, hh⟩
  unfold fetchFromArchive at hh
  cases hp : fetchPlan h.archs k f u now with
  | error e =>
    rw [hp] at hh; simp only at hh
    injection hh with hh; subst hh
    -- the plan fails only with rangeError / outOfRange
    have hcl := C04.fail_class h.archs k f u now
    by_cases h1 : f > u
    · rw [hcl.1 h1] at hp; cases hp
    · by_cases h2 : C04.BadId h.archs.length k
      · rw [hcl.2 h1 h2] at hp; cases hp
      · have := (C04.fail_iff h.archs g.ne k f u now).1 ⟨_, hp⟩
        rcases this with h | h
        · exact h1 h
        · exact h2 h
  | ok r =>
    rw [hp] at hh
    cases r with
    | none => simp at hh
    | some p =>
      simp only at hh
      -- the planned archive is one of the header's
      have hmem : p.a ∈ h.archs := by
        have hp' := hp
        unfold fetchPlan at hp'
        by_cases h1 : f > u
        · simp [h1] at hp'
        simp only [h1, if_false] at hp'
        by_cases h2 : (k ≠ -1 ∧ k < 0) ∨ (h.archs.length : Int) - 1 < k
        · simp [h2] at hp'
        simp only [h2, if_false] at hp'
        generalize (if k = -1 then findBestFrom (tsSub now f) 0 h.archs else k.toNat) = id at hp'
        cases ha : h.archs[id]? with
        | none => rw [ha] at hp'; simp at hp'
        | some a =>
          rw [ha] at hp'; simp only at hp'
          by_cases h3 : f > now
          · simp [h3] at hp'
          simp only [h3, if_false] at hp'
          by_cases h4 : u < tsAdd now (- a.maxRetention)
          · simp [h4] at hp'
          simp only [h4, if_false] at hp'
          injection hp' with hp'; injection hp' with hp'; subst hp'
          exact mem_of_getElem? ha
      have ok := wfFrom_archOK _ _ g.wf.2.2 p.a hmem
      obtain ⟨hs, hn, hr⟩ := ok
      have hsl : p.a.step < 2147483648 := by
        have : p.a.step * 1 ≤ p.a.step * (p.a.n : Int) := Int.mul_le_mul_of_nonneg_left (by omega) (by omega)
        omega
      have z := hz p.a hmem
      have sh := C04.shape h.archs k f u now p hp hs hsl hn hr z.1 z.2
      obtain ⟨_, _, hfu, hfn, hnu, hI⟩ := sh
      dsimp only at hI
      obtain ⟨eF, eU⟩ := hI
      generalize hP : p.a.step * (p.a.n : Int) = P at *
      have hPpos : 0 ≤ P := by rw [← hP]; exact Int.mul_nonneg (by omega) (by omega)
      have hmono := alignDown_mono (max (f : Int) ((now : Int) - P)) (min (u : Int) (now : Int)) p.a.step hs (by omega)
      have hm1 := Int.emod_nonneg (max (f : Int) ((now : Int) - P)) (by omega : p.a.step ≠ 0)
      have hm2 := Int.emod_nonneg (min (u : Int) (now : Int)) (by omega : p.a.step ≠ 0)
      have hm3 := Int.emod_lt_of_pos (max (f : Int) ((now : Int) - P)) hs
      have hle : (p.fromI : Int) ≤ p.untilI ∧ (p.untilI : Int) < 2147483648 + 2147483648 ∧ (p.fromI : Int) < 2147483648 := by
        rw [eF, eU]
        split <;> omega
      have hcnt : 0 ≤ Int.tdiv (tsSub p.untilI p.fromI) p.a.step := by
        have e : tsSub p.untilI p.fromI = (p.untilI : Int) - p.fromI ∨ tsSub p.untilI p.fromI = (p.untilI : Int) - p.fromI - 4294967296 := by
          unfold tsSub i32; omega
        have hspan : (p.untilI : Int) - p.fromI < 2147483648 := by
          rw [eF, eU]
          have hm4 := Int.emod_lt_of_pos (min (u : Int) (now : Int)) hs
          split <;> omega
        have e' : tsSub p.untilI p.fromI = (p.untilI : Int) - p.fromI := by
          unfold tsSub i32; omega
        rw [e', Int.tdiv_eq_ediv_of_nonneg (by omega)]
        exact Int.ediv_nonneg (by omega) (by omega)
      cases hx : h.fetchExec p with
      | ok s => rw [hx] at hh; simp at hh
      | error e =>
        rw [hx] at hh; simp only at hh
        injection hh with hh; subst hh
        unfold fetchExec at hx
        cases hb : h.baseInterval p.a with
        | error e => rw [hb] at hx; simp only at hx; injection hx with hx; exact baseInterval_np h p.a ⟨w, by rw [hb, hx]⟩
        | ok base =>
          rw [hb] at hx; simp only at hx
          split at hx
          · simp at hx
          · cases hf : h.fetchRawPoints p.a p.fromI p.untilI with
            | error e => rw [hf] at hx; simp only at hx; injection hx with hx; exact fetchRawPoints_np h p.a _ _ hcnt ⟨w, by rw [hf, hx]⟩
            | ok pts => rw [hf] at hx; simp at hx

/-- **reading the raw slots of an archive in the list never panics** -/
theorem raw_total (h : Handle) (k : Int) (hk : 0 ≤ k ∧ k < h.archs.length) : ¬ IsPanic (h.rawPoints k) := by
  rintro ⟨w, hh⟩
  unfold rawPoints at hh
  have : ¬ k < 0 := by omega
  simp only [this, if_false] at hh
  have e1 : h.archs[k.toNat]? = some (h.archs[k.toNat]'(by omega)) := List.getElem?_eq_getElem (by omega)
  rw [e1] at hh
  exact readPoints_np h _ ⟨w, hh⟩

/-! ### the hypotheses are satisfiable -/

def exHandle : Handle := ⟨⟨1, 24, 0x3F000000, 2, [⟨40, 1, 8⟩, ⟨136, 4, 6⟩]⟩, List.replicate 208 0⟩

example : Good exHandle := by
  refine ⟨⟨by decide, ?_⟩, by decide⟩
  intro a ha
  simp only [exHandle, List.mem_cons, List.not_mem_nil, or_false] at ha
  rcases ha with rfl | rfl <;> exact ⟨by decide, by decide, by decide, by decide⟩

example : ClockOK exHandle 1700000000 := by
  intro a ha
  simp only [exHandle, Handle.archs, List.mem_cons, List.not_mem_nil, or_false] at ha
  rcases ha with rfl | rfl <;> exact ⟨by decide, by decide⟩

example : IdOK exHandle (-1) ∧ IdOK exHandle 1 := ⟨Or.inl rfl, Or.inr ⟨by decide, by decide⟩⟩

end Wsp.Total
