/-
  C10, one file: `sum` over an item with a single file prints exactly what `view` of that
  file prints — same outcome, same header, same records.
-/
import Wsp.Props.C10More
namespace Wsp.C10
open Wsp.Handle Wsp.Cmd

theorem fetchAll_length (h : Handle) (now f u : Nat) : ∀ (as : List Arch) (i : Nat) (l : List (Option Series)),
    fetchAll h now f u i as = .ok l → l.length = as.length := by
  intro as
  induction as with
  | nil => intro i l hl; simp only [fetchAll] at hl; injection hl with hl; subst hl; rfl
  | cons a as ih =>
    intro i l hl
    simp only [fetchAll] at hl
    cases h1 : h.fetchFromArchive (i : Int) f u now with
    | error e => rw [h1] at hl; simp at hl
    | ok s =>
      rw [h1] at hl; simp only at hl
      cases h2 : fetchAll h now f u (i + 1) as with
      | error e => rw [h2] at hl; simp at hl
      | ok rest =>
        rw [h2] at hl; simp only at hl
        injection hl with hl; subst hl
        simp [ih (i + 1) rest h2]

/-- a read returns one series (or none) per archive of the header -/
theorem readFile_length (o : FOps) (t : Tree) (path : String) (id : Int) (f u now : Nat) (hd : Header)
    (l : List (Option Series)) (hr : readFile o t path id f u now = .ok (hd, l)) : l.length = hd.archives.length := by
  unfold readFile at hr
  cases hg : t.get path with
  | none => rw [hg] at hr; simp at hr
  | some b =>
    rw [hg] at hr; simp only at hr
    cases ho : openBytes o b with
    | error e => rw [ho] at hr; simp at hr
    | ok h =>
      rw [ho] at hr; simp only at hr
      cases hf : fetchList h id f u now with
      | error e => rw [hf] at hr; simp at hr
      | ok l' =>
        rw [hf] at hr; simp only at hr
        injection hr with hr; injection hr with e1 e2; subst e1; subst e2
        unfold fetchList at hf
        split at hf
        · exact fetchAll_length h now f u h.archs 0 l' hf
        · split at hf
          · cases h1 : h.fetchFromArchive id f u now with
            | error e => rw [h1] at hf; simp at hf
            | ok s =>
              rw [h1] at hf; simp only at hf
              injection hf with hf; subst hf
              simp [Handle.archs]
          · simp at hf

/-- the points printed for the sum of one list are the points of that list -/
theorem sumSeries_single_points (o : FOps) (l0 : List (Option Series)) :
    (sumSeries o l0.length [l0]).map seriesPoints = l0.map seriesPoints := by
  simp only [sumSeries, List.map_map]
  apply List.ext_getElem
  · simp
  · intro i h1 h2
    simp only [List.getElem_map, List.getElem_range, Function.comp, List.map_cons, List.map_nil]
    have hi : i < l0.length := by simpa using h2
    rw [List.getD_eq_getElem?_getD, List.getElem?_eq_getElem hi]
    simp only [Option.getD_some]
    cases l0[i] with
    | none => rfl
    | some s => rfl

/-- **sum of one file = view of that file** -/
theorem sum_single_is_view (o : FOps) (t : Tree) (f : String) (w : Window) :
    Cmd.sum o t [f] w = Cmd.view o t f w := by
  unfold Cmd.sum Cmd.view sumFiles
  simp only [List.isEmpty_cons, Bool.false_eq_true, if_false, sumFiles.readAll]
  cases hr : readFile o t f w.archiveID w.from_ w.until' w.now with
  | error e => rfl
  | ok r =>
    obtain ⟨hd, l⟩ := r
    simp only [List.all_nil, Bool.not_true, Bool.false_eq_true, if_false, List.map_cons, List.map_nil]
    have hlen := readFile_length o t f _ _ _ _ hd l hr
    rw [← hlen, sumSeries_single_points]

end Wsp.C10
