/-
  C19, the retention-list clause: printing a valid archive list and parsing the text back
  yields the same list — steps, point counts and the offsets ⟦fillOffset⟧ assigns — for every
  list the validator accepts.
-/
import Wsp.Props.C19
import Wsp.Props.C07
import Wsp.Proofs.Layout
import Wsp.Props.Total
namespace Wsp.C19
open Wsp.C14

/-- no separator of the list syntax occurs in the string -/
def NoSep (s : Str) : Prop := ∀ c ∈ s, c ≠ ':' ∧ c ≠ ','

theorem digit_noSep (c : Char) (h : isDigit c = true) : c ≠ ':' ∧ c ≠ ',' := by
  constructor <;> (intro e; subst e; revert h; decide)

theorem showNat_noSep (n : Nat) : NoSep (showNat n) := fun c hc => digit_noSep c (showNat_digits n c hc)

theorem durationStringAux_noSep (d : Int) (hd : 0 ≤ d) : ∀ (tbl : List (Int × Char)),
    (∀ p ∈ tbl, p.2 ≠ ':' ∧ p.2 ≠ ',' ∧ 0 < p.1) → NoSep (durationStringAux d tbl) ∧ durationStringAux d tbl ≠ [] := by
  intro tbl
  induction tbl with
  | nil =>
    intro _
    have e : showInt d = showNat d.toNat := by unfold showInt; simp; omega
    simp only [durationStringAux, e]
    refine ⟨?_, by simp⟩
    intro c hc
    simp only [List.mem_append, List.mem_singleton] at hc
    rcases hc with hc | rfl
    · exact showNat_noSep _ c hc
    · constructor <;> decide
  | cons p rest ih =>
    intro htbl
    obtain ⟨u, ch⟩ := p
    have hp := htbl (u, ch) (by simp)
    simp only [durationStringAux]
    split
    · have hq : 0 ≤ Int.tdiv d u := Int.tdiv_nonneg hd (Int.le_of_lt hp.2.2)
      have e : showInt (Int.tdiv d u) = showNat (Int.tdiv d u).toNat := by unfold showInt; simp; omega
      rw [e]
      refine ⟨?_, by simp⟩
      intro c hc
      simp only [List.mem_append, List.mem_singleton] at hc
      rcases hc with hc | rfl
      · exact showNat_noSep _ c hc
      · exact ⟨hp.1, hp.2.1⟩
    · exact ih (fun q hq => htbl q (by simp [hq]))

theorem durationString_noSep (d : Int) (hd : 0 ≤ d) : NoSep (durationString d) ∧ durationString d ≠ [] := by
  unfold durationString
  split
  · refine ⟨?_, by simp⟩
    intro c hc
    simp only [List.mem_cons, List.not_mem_nil, or_false] at hc
    rcases hc with rfl | rfl <;> (constructor <;> decide)
  · exact durationStringAux_noSep d hd printTable (by decide)

theorem splitAt1_found (c : Char) (a b : Str) (ha : ∀ x ∈ a, x ≠ c) :
    splitAt1 c (a ++ c :: b) = some (a, b) := by
  induction a with
  | nil => simp [splitAt1]
  | cons x xs ih =>
    have hx : x ≠ c := ha x (by simp)
    simp only [List.cons_append, splitAt1, hx, if_false, ih (fun y hy => ha y (by simp [hy]))]

theorem splitAt1_none (c : Char) (s : Str) (hs : ∀ x ∈ s, x ≠ c) : splitAt1 c s = none := by
  induction s with
  | nil => rfl
  | cons x xs ih =>
    have hx : x ≠ c := hs x (by simp)
    simp only [splitAt1, hx, if_false, ih (fun y hy => hs y (by simp [hy]))]

/-- one archive: `step:retention` parses back to (step, numberOfPoints) -/
theorem parse_print_arch (a : Arch) (ok : ArchOK a) : parseArchiveInfo (archString a) = some (a.step, a.n) := by
  obtain ⟨hs, hn, hr⟩ := ok
  have hnle : (a.n : Int) ≤ 2147483647 := by
    have : a.step * (a.n : Int) ≥ 1 * (a.n : Int) := Int.mul_le_mul_of_nonneg_right (by omega) (by omega)
    omega
  have hsle : a.step ≤ 2147483647 := by
    have : a.step * 1 ≤ a.step * (a.n : Int) := Int.mul_le_mul_of_nonneg_left (by omega) (by omega)
    omega
  have hpos : 0 < a.step * (a.n : Int) := Int.mul_pos hs (by omega)
  have e1 : i32 (a.n : Int) = a.n := by unfold i32; omega
  have e2 : i32 (a.step * (a.n : Int)) = a.step * (a.n : Int) := by
    generalize a.step * (a.n : Int) = P at *
    unfold i32; omega
  unfold archString parseArchiveInfo
  rw [e1, e2]
  have ns1 := durationString_noSep a.step (by omega)
  have ns2 := durationString_noSep (a.step * (a.n : Int)) (by omega)
  have hsplit : splitAt1 ':' (durationString a.step ++ [':'] ++ durationString (a.step * (a.n : Int))) =
      some (durationString a.step, durationString (a.step * (a.n : Int))) := by
    rw [List.append_assoc]
    exact splitAt1_found ':' _ _ (fun x hx => (ns1.1 x hx).1)
  rw [hsplit]
  simp only
  have hlen : ¬ (durationString (a.step * (a.n : Int))).length = 0 := by
    intro h; exact ns2.2 (List.eq_nil_of_length_eq_zero h)
  simp only [hlen, if_false]
  rw [parse_print_duration a.step (by omega) (by omega), parse_print_duration _ (by omega) (by omega)]
  simp only
  have hmod : Int.tmod (a.step * (a.n : Int)) a.step = 0 := by
    rw [Int.mul_comm]; exact Int.mul_tmod_left _ _
  have hdiv : Int.tdiv (a.step * (a.n : Int)) a.step = a.n := by
    rw [Int.mul_comm]; exact Int.mul_tdiv_cancel _ (by omega)
  have hc : ¬ (a.step ≤ 0 ∨ a.step * (a.n : Int) ≤ 0 ∨ Int.tmod (a.step * (a.n : Int)) a.step ≠ 0) := by
    rw [hmod]; omega
  rw [if_neg hc, hdiv, u32_of_nat a.n (by omega)]

theorem archString_noComma (a : Arch) (ok : ArchOK a) : (∀ x ∈ archString a, x ≠ ',') ∧ archString a ≠ [] := by
  obtain ⟨hs, hn, hr⟩ := ok
  have hpos : 0 < a.step * (a.n : Int) := Int.mul_pos hs (by omega)
  have hnle : (a.n : Int) ≤ 2147483647 := by
    have : a.step * (a.n : Int) ≥ 1 * (a.n : Int) := Int.mul_le_mul_of_nonneg_right (by omega) (by omega)
    omega
  have e1 : i32 (a.n : Int) = a.n := by unfold i32; omega
  have e2 : i32 (a.step * (a.n : Int)) = a.step * (a.n : Int) := by
    generalize a.step * (a.n : Int) = P at *
    unfold i32; omega
  unfold archString
  rw [e1, e2]
  have ns1 := durationString_noSep a.step (by omega)
  have ns2 := durationString_noSep (a.step * (a.n : Int)) (by omega)
  refine ⟨?_, by simp⟩
  intro x hx
  simp only [List.mem_append, List.mem_singleton] at hx
  rcases hx with (hx | rfl) | hx
  · exact (ns1.1 x hx).2
  · decide
  · exact (ns2.1 x hx).2

/-- the splitting loop on a printed list, with any fuel above the number of archives -/
theorem parse_print_loop : ∀ (as : List Arch), as ≠ [] → (∀ a ∈ as, ArchOK a) → ∀ fuel, as.length ≤ fuel →
    parseArchiveInfosLoop fuel (archsString as) = some (as.map fun a => (a.step, a.n)) := by
  intro as
  induction as with
  | nil => intro h; exact absurd rfl h
  | cons a rest ih =>
    intro _ hok fuel hf
    cases fuel with
    | zero => simp at hf
    | succ fuel =>
      have ha := hok a (by simp)
      have nc := archString_noComma a ha
      cases rest with
      | nil =>
        simp only [archsString, parseArchiveInfosLoop]
        rw [splitAt1_none ',' _ nc.1, parse_print_arch a ha]
        rfl
      | cons b rest' =>
        have hrest := ih (by simp) (fun x hx => hok x (by simp [hx])) fuel (by simp at hf ⊢; omega)
        simp only [archsString, parseArchiveInfosLoop]
        rw [List.append_assoc, List.singleton_append, splitAt1_found ',' _ _ nc.1]
        simp only
        rw [parse_print_arch a ha]
        simp only
        have hne : ¬ (archsString (b :: rest')).length = 0 := by
          intro h
          have hb := archString_noComma b (hok b (by simp))
          have : archsString (b :: rest') = [] := List.eq_nil_of_length_eq_zero h
          cases rest' with
          | nil => exact hb.2 this
          | cons c r => simp [archsString] at this
        simp only [hne, if_false, hrest]
        rfl

theorem archsString_length (as : List Arch) (hok : ∀ a ∈ as, ArchOK a) : as.length ≤ (archsString as).length := by
  induction as with
  | nil => simp
  | cons a rest ih =>
    have hne := (archString_noComma a (hok a (by simp))).2
    have hl : 0 < (archString a).length := List.length_pos_iff.mpr hne
    cases rest with
    | nil => simp [archsString]; omega
    | cons b r =>
      have := ih (fun x hx => hok x (by simp [hx]))
      simp only [archsString, List.length_append, List.length_cons, List.length_nil] at this ⊢
      omega

/-- offsets assigned by ⟦fillOffset⟧ are the contiguous ones of a well-formed list -/
theorem fillOffsetsFrom_wfFrom : ∀ (as : List Arch) (off : Nat), WFFrom off as → off + 12 * sumN as ≤ 4294967295 →
    fillOffsetsFrom off (as.map fun a => (⟨0, a.step, a.n⟩ : Arch)) = as := by
  intro as
  induction as with
  | nil => intro off _ _; rfl
  | cons a rest ih =>
    intro off h hfit
    simp only [List.map_cons, fillOffsetsFrom]
    simp only [sumN] at hfit
    have e1 : (u32 ((a.n : Int) * 12) : Int) = (a.n : Int) * 12 := u32_id _ (by omega) (by omega)
    have e2 : u32 ((off : Int) + (u32 ((a.n : Int) * 12) : Int)) = off + 12 * a.n := by
      rw [e1]
      have := u32_id ((off : Int) + (a.n : Int) * 12) (by omega) (by omega)
      omega
    rw [e2]
    cases rest with
    | nil =>
      obtain ⟨_, ho⟩ := h
      simp only [List.map_nil, fillOffsetsFrom]
      congr 1
      cases a; simp at ho ⊢; exact ho.symm
    | cons b r =>
      obtain ⟨_, ho, _, htail⟩ := h
      rw [ih (off + 12 * a.n) htail (by omega)]
      congr 1
      cases a; simp at ho ⊢; exact ho.symm

/-- **print then parse is the identity on valid retention lists** -/
theorem parse_print_list (as : List Arch) (hr : ∀ a ∈ as, ArchWF a) (hv : validateArchs as = true) :
    parseArchiveInfoList (archsString as) = some as := by
  have wf := (validateArchs_iff as hr).1 hv
  obtain ⟨hne, hsz, hfrom⟩ := wf
  have hok : ∀ a ∈ as, ArchOK a := Total.wfFrom_archOK as _ hfrom
  have hlen := archsString_length as hok
  have hpos : 0 < as.length := List.length_pos_iff.mpr hne
  unfold parseArchiveInfoList
  have h0 : ¬ (archsString as).length = 0 := by omega
  simp only [h0, if_false]
  rw [parse_print_loop as hne hok _ (by omega)]
  simp only [List.map_map]
  have hfill : fillOffsets (as.map ((fun x : Int × Nat => (⟨0, x.1, x.2⟩ : Arch)) ∘ fun a => (a.step, a.n))) = as := by
    unfold fillOffsets
    have hfo : firstOffset (as.map ((fun x : Int × Nat => (⟨0, x.1, x.2⟩ : Arch)) ∘ fun a => (a.step, a.n))).length = 16 + 12 * as.length := by
      simp only [List.length_map]
      unfold firstOffset
      have e1 : (u32 (as.length : Int) : Int) = as.length := u32_id _ (by omega) (by omega)
      rw [e1]
      have e2 : (u32 ((as.length : Int) * 12) : Int) = (as.length : Int) * 12 := u32_id _ (by omega) (by omega)
      rw [e2]
      have := u32_id (16 + (as.length : Int) * 12) (by omega) (by omega)
      omega
    rw [hfo]
    exact fillOffsetsFrom_wfFrom as _ hfrom (by omega)
  have hfun : (fun x : Int × Nat => match x with | (st, n) => (⟨0, st, n⟩ : Arch)) = (fun x : Int × Nat => (⟨0, x.1, x.2⟩ : Arch)) := by
    funext x; cases x; rfl
  simp only [hfun] at *
  rw [hfill, hv]
  simp

end Wsp.C19
