/-
  The window hypotheses of the composed theorems, discharged: inside the clock zone (the
  clock at or past the archive's retention, two steps before 2^31) every window with
  from ≤ until, from ≤ now and until not before the archive's retention has a fetch plan of
  the shape the theorems assume (`WinSpec`).  So `view_subset_viewRaw` and
  `view_remote_eq_local` hold under plain arithmetic conditions on the request.
-/
import Wsp.Props.C18Cmd
import Wsp.Props.C04Zone
namespace Wsp.C18
open Wsp.Handle Wsp.C14 Wsp.Total Wsp.C01 Wsp.Cmd Wsp.Inv Wsp.C08

theorem plan_exists (archs : List Arch) (k : Nat) (a : Arch) (ha : archs[k]? = some a) (f u now : Nat)
    (h1 : f ≤ u) (h3 : f ≤ now) (h4 : ¬ u < tsAdd now (- a.maxRetention)) :
    ∃ p, fetchPlan archs (k : Int) f u now = .ok (some p) ∧ p.a = a := by
  have hk : k < archs.length := (List.getElem?_eq_some_iff.1 ha).1
  have hne : archs ≠ [] := by intro e; rw [e] at hk; simp at hk
  have hbad : ¬ C04.BadId archs.length (k : Int) := by unfold C04.BadId; omega
  have hsel : C04.selected archs (k : Int) f now = k := by
    unfold C04.selected
    have : ¬ ((k : Int) = -1) := by omega
    rw [if_neg this]; simp
  cases hp : fetchPlan archs (k : Int) f u now with
  | error e =>
    have := (C04.fail_iff archs hne (k : Int) f u now).1 ⟨e, hp⟩
    rcases this with h | h
    · omega
    · exact absurd h hbad
  | ok r =>
    cases r with
    | none =>
      have := (C04.none_iff archs (k : Int) f u now (by omega) hbad a (by rw [hsel]; exact ha)).1 hp
      rcases this with h | h
      · omega
      · exact absurd h h4
    | some p =>
      refine ⟨p, rfl, ?_⟩
      unfold fetchPlan at hp
      have hn1 : ¬ f > u := by omega
      have hb' : ¬ (((k : Int) ≠ -1 ∧ (k : Int) < 0) ∨ (archs.length : Int) - 1 < (k : Int)) := by omega
      simp only [hn1, hb', if_false] at hp
      have hkk : ¬ ((k : Int) = -1) := by omega
      simp only [hkk, if_false, Int.toNat_natCast, ha] at hp
      revert hp
      repeat' split
      all_goals (intro hp; first | (injection hp with hp; injection hp with hp; rw [← hp]) | (simp at hp))

/-- **the window specification from arithmetic conditions on the request** -/
theorem winSpec_of_window (h : Handle) (g : Good h) (w : Window) (k : Nat) (a : Arch) (ha : h.archs[k]? = some a)
    (hfu : w.from_ ≤ w.until') (hfn : w.from_ ≤ w.now) (hreach : ¬ w.until' < tsAdd w.now (- a.maxRetention))
    (hclock : a.step * (a.n : Int) ≤ w.now) (hnow : (w.now : Int) + 2 * a.step < 2147483648) :
    ∃ f cnt, WinSpec h w k a f cnt := by
  obtain ⟨p, hp, hpa⟩ := plan_exists h.archs k a ha w.from_ w.until' w.now hfu hfn hreach
  have ok : ArchOK a := wfFrom_archOK _ _ g.wf.2.2 a (mem_of_getElem? ha)
  obtain ⟨cnt, hpos, hun, z⟩ := C04Z.plan_winzone h.archs (k : Int) w.from_ w.until' w.now p hp
    (by rw [hpa]; exact ok) (by rw [hpa]; exact hclock) (by rw [hpa]; exact hnow)
  rw [hpa] at hun z
  exact ⟨p.fromI, cnt, ha, hpos, z, ⟨p, hp, hpa, rfl, hun⟩⟩

/-- **view ⊆ view-raw under plain conditions**: a file whose archives satisfy the invariant,
    the clock inside the zone of every archive, and a request window that reaches every
    archive -/
theorem view_subset_viewRaw_plain (o : FOps) (t : Tree) (path : String) (b : Bytes) (h : Handle) (w : Window) (sort : Bool)
    (hget : t.get path = some b) (hopen : openBytes o b = .ok h) (al : AllState h)
    (hall : w.archiveID = -1) (hu : w.until' < 2147483648)
    (hfu : w.from_ ≤ w.until') (hfn : w.from_ ≤ w.now)
    (hz : ∀ a ∈ h.archs, ¬ w.until' < tsAdd w.now (- a.maxRetention) ∧ a.step * (a.n : Int) ≤ w.now ∧
      (w.now : Int) + 2 * a.step < 2147483648)
    (r : Rec) (hr : r ∈ (Cmd.view o t path w).2.2) (hv : r.v ≠ nanBits)
    (hrange : (w.from_ = 0 ∨ w.from_ < r.t) ∧ r.t ≤ w.until') :
    r ∈ (viewRaw o t path w sort).2.2 := by
  have g := open_good o b _ h hopen
  -- choose the archive, origin and count of every index
  have hex : ∀ k, ∃ a f cnt, k < h.archs.length → WinSpec h w k a f cnt := by
    intro k
    by_cases hk : k < h.archs.length
    · have ha : h.archs[k]? = some (h.archs[k]) := List.getElem?_eq_getElem hk
      obtain ⟨h1, h2, h3⟩ := hz _ (List.getElem_mem hk)
      obtain ⟨f, cnt, sp⟩ := winSpec_of_window h g w k _ ha hfu hfn h1 h2 h3
      exact ⟨_, f, cnt, fun _ => sp⟩
    · exact ⟨⟨0, 0, 0⟩, 0, 0, fun hk' => absurd hk' hk⟩
  have hA := fun k => Classical.choose (hex k)
  let A : Nat → Arch := fun k => Classical.choose (hex k)
  let F : Nat → Nat := fun k => Classical.choose (Classical.choose_spec (hex k))
  let C : Nat → Nat := fun k => Classical.choose (Classical.choose_spec (Classical.choose_spec (hex k)))
  have hspec : ∀ k, k < h.archs.length → WinSpec h w k (A k) (F k) (C k) :=
    fun k hk => Classical.choose_spec (Classical.choose_spec (Classical.choose_spec (hex k))) hk
  exact view_subset_viewRaw o t path b h w sort A F C hget hopen al hall hu hspec r hr hv hrange

/-! ### the hypotheses are satisfiable -/

/-- a never-written file of the layout 1s:8, 4s:6 satisfies the invariant -/
theorem exHandle_allstate : AllState exHandle := by
  intro k a ha
  left
  have hmem : a ∈ exHandle.archs := mem_of_getElem? ha
  simp only [exHandle, Handle.archs, List.mem_cons, List.not_mem_nil, or_false] at hmem
  have hz : ∀ j, (slotAt exHandle a j).t = 0 := by
    intro j
    unfold slotAt exHandle
    simp only [List.drop_replicate]
    exact C20.de32_zeros _
  rcases hmem with rfl | rfl
  · exact ⟨by decide, by decide, by show (40 : Nat) + 12 * 8 ≤ 4294967295; omega,
      by show (40 : Nat) + 12 * 8 ≤ (List.replicate 208 (0 : UInt8)).length; rw [List.length_replicate]; omega, fun j _ => hz j⟩
  · exact ⟨by decide, by decide, by show (136 : Nat) + 12 * 6 ≤ 4294967295; omega,
      by show (136 : Nat) + 12 * 6 ≤ (List.replicate 208 (0 : UInt8)).length; rw [List.length_replicate]; omega, fun j _ => hz j⟩

/-- at clock 1 700 000 000 the window of the last five seconds reaches both archives, inside
    the zone: the arithmetic hypotheses of `view_subset_viewRaw_plain` hold -/
example : let w : Window := ⟨-1, 1699999995, 0, 1700000000⟩
    w.until' < 2147483648 ∧ w.from_ ≤ w.until' ∧ w.from_ ≤ w.now ∧
    ∀ a ∈ exHandle.archs, ¬ w.until' < tsAdd w.now (- a.maxRetention) ∧ a.step * (a.n : Int) ≤ w.now ∧
      (w.now : Int) + 2 * a.step < 2147483648 := by
  intro w
  refine ⟨by decide, by decide, by decide, ?_⟩
  intro a ha
  simp only [exHandle, Handle.archs, List.mem_cons, List.not_mem_nil, or_false] at ha
  rcases ha with rfl | rfl <;> decide

end Wsp.C18
