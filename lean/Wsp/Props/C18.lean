/-
  C18  view and view-raw show exactly what is stored.

  `recsOf` is ⟦PointsList.Print⟧: one record per point, archive by archive in archive
  order and, inside an archive, in the order of the list (time order for a fetch).
  `view` prints `recsOf` of the fetched series' points: every value a fetch reports
  appears, with its archive id and time (`view_complete`).  view-raw prints all N physical
  slots of each selected archive restricted to `(from, until]` (`from = 0`: unbounded
  below), optionally stably sorted by time.  Line formats are the source's
  (`FactsTie.line_formats`).  Partial: `view_subset_raw` (every non-NaN view point inside
  the range appears in view-raw) needs the ring invariant over histories and is asserted
  on the real code on every run.
-/
import Wsp.Props.C03
import Wsp.Model.Cmd
import Wsp.Props.FactsTie
namespace Wsp.C18
open Wsp.Cmd Wsp.Handle

/-- the records of one archive -/
def recsOfArchive (i : Nat) (pts : List Point) : List Rec := pts.map fun p => ⟨i, p.t, p.v, none⟩

theorem recsOf_eq (pl : List (List Point)) : recsOf pl = (pl.zipIdx).flatMap fun (pts, i) => recsOfArchive i pts := rfl

/-- archive by archive, each archive's points in order: the output of `k+1` archives is the
    output of the first `k` followed by the records of the last -/
theorem recsOf_append (pl : List (List Point)) (pts : List Point) :
    recsOf (pl ++ [pts]) = recsOf pl ++ recsOfArchive pl.length pts := by
  simp [recsOf, recsOfArchive, List.zipIdx_append]

/-- exactly one record per point: as many lines as points -/
theorem recsOf_length_append (pl : List (List Point)) (pts : List Point) :
    (recsOf (pl ++ [pts])).length = (recsOf pl).length + pts.length := by
  rw [recsOf_append, List.length_append]; simp [recsOfArchive]

/-- **view is complete**: every point of every selected archive's series is printed with
    its archive id, time and value -/
theorem view_complete (pl : List (List Point)) (i : Nat) (pts : List Point) (p : Point)
    (hi : pl[i]? = some pts) (hp : p ∈ pts) : (⟨i, p.t, p.v, none⟩ : Rec) ∈ recsOf pl := by
  simp only [recsOf, List.mem_flatMap]
  refine ⟨(pts, i), ?_, ?_⟩
  · rw [List.mem_zipIdx_iff_getElem?]; simpa using hi
  · simp only [List.mem_map]; exact ⟨p, hp, rfl⟩

/-- and nothing else is printed -/
theorem view_sound (pl : List (List Point)) (r : Rec) (hr : r ∈ recsOf pl) :
    ∃ pts p, pl[r.arch]? = some pts ∧ p ∈ pts ∧ r = ⟨r.arch, p.t, p.v, none⟩ := by
  simp only [recsOf, List.mem_flatMap, List.mem_map] at hr
  obtain ⟨⟨pts, i⟩, hmem, p, hp, rfl⟩ := hr
  rw [List.mem_zipIdx_iff_getElem?] at hmem
  exact ⟨pts, p, by simpa using hmem, hp, rfl⟩

/-- the i-th value of a series is printed at `from + i·step` -/
theorem series_point_times (from_ : Nat) (step : Int) : ∀ (i : Nat) (vs : List Val) (j : Nat), j < vs.length →
    (seriesPointsFrom from_ step i vs)[j]? = some ⟨tsAdd from_ (i32 (((i + j : Nat) : Int) * step)), vs.getD j 0⟩ := by
  intro i vs
  induction vs generalizing i with
  | nil => intro j hj; simp at hj
  | cons v vs ih =>
    intro j hj
    cases j with
    | zero => simp [seriesPointsFrom]
    | succ j =>
      have := ih (i + 1) j (by simpa using hj)
      have e : i + 1 + j = i + (j + 1) := by omega
      rw [e] at this
      simp only [seriesPointsFrom, List.getElem?_cons_succ, this]
      simp

/-- **view-raw's range filter**: a physical slot is shown iff its time is in `(from, until]`
    (`from = 0`: no lower bound; `until = from`: one step further) -/
theorem raw_filter_iff (a : Arch) (from_ until_ : Nat) (ps : List Point) (p : Point) :
    p ∈ filterRaw a from_ until_ ps ↔
      p ∈ ps ∧ (from_ = 0 ∨ from_ < p.t) ∧ p.t ≤ (if until_ = from_ then tsAdd until_ a.step else until_) := by
  unfold filterRaw
  simp only [List.mem_filter]
  constructor
  · rintro ⟨h1, h2⟩
    refine ⟨h1, ?_⟩
    simp at h2
    exact ⟨h2.1, by omega⟩
  · rintro ⟨h1, h2, h3⟩
    refine ⟨h1, ?_⟩
    simp
    exact ⟨h2, by omega⟩

/-- view-raw's optional sort is a stable sort: a permutation, ordered by time, equal times
    in physical-slot order -/
theorem raw_sort_is_stable (ps : List Point) :
    (sortByTime ps).Perm ps ∧ SortedByT (sortByTime ps) ∧
    ∀ t, (sortByTime ps).filter (fun q => q.t = t) = ps.filter (fun q => q.t = t) :=
  ⟨sortByTime_perm ps, sortByTime_sorted ps, sortByTime_stable ps⟩

/-- the printed line formats are the source's -/
theorem line_formats : ("PointsList.Print", "archive:%d\tt:%s\tval:%s\n") ∈ Facts.printFormats :=
  FactsTie.line_formats.1

end Wsp.C18
