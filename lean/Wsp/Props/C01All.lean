/-
  C01 for every archive of the file, not only the finest: from `Create` on, through any
  mixture of single and batch updates (direct writes, and every consolidation step that
  propagation makes into the coarser archives), a fetch of *any* archive inside the zone
  returns at each position either the NaN marker or the value of the slot stamped with
  exactly the interval of that position — never the value of another lap of the ring, of
  another slot or of another archive — and an archive nothing reached yet reads NaN only.
-/
import Wsp.Props.Invariant
namespace Wsp.C01
open Wsp.Handle Wsp.C14 Wsp.Total Wsp.Inv

/-- the written times of an operation are in range and not before `L` -/
def OpTimes (L : Nat) : FOp → Prop
  | .single u => u.t < 2147483648 ∧ L ≤ u.t
  | .batch ps _ _ => ∀ p ∈ ps, p.t < 2147483648 ∧ L ≤ p.t

/-- the invariant of files written by whispertool holds after every history -/
theorem runFOps_allstate (o : FOps) (L : Nat) : ∀ (ops : List FOp) (h h' : Handle),
    Good h → AllState h → Coarse h L → (∀ op ∈ ops, OpTimes L op) → runFOps o h ops = .ok h' →
    AllState h' ∧ Good h' ∧ h'.hdr = h.hdr := by
  intro ops
  induction ops with
  | nil =>
    intro h h' g al _ _ hp
    simp only [runFOps] at hp
    injection hp with hp; subst hp
    exact ⟨al, g, rfl⟩
  | cons op ops ih =>
    intro h h' g al c hok hp
    have hop := hok op (by simp)
    cases op with
    | single u =>
      simp only [runFOps] at hp
      cases hu : h.updatePoint o u.k u.t u.v u.now with
      | error e => rw [hu] at hp; simp at hp
      | ok hm =>
        rw [hu] at hp; simp only at hp
        obtain ⟨alm, gm, hh⟩ := updatePoint_allstate o h hm g al L c u.k u.t u.v u.now hop hu
        obtain ⟨al', g', hh'⟩ := ih hm h' gm alm (c.of_hdr hh) (fun op' h' => hok op' (List.mem_cons_of_mem _ h')) hp
        exact ⟨al', g', hh'.trans hh⟩
    | batch ps k now =>
      simp only [runFOps] at hp
      cases hu : h.updateMany o ps k now with
      | error e => rw [hu] at hp; simp at hp
      | ok hm =>
        rw [hu] at hp; simp only at hp
        obtain ⟨alm, gm, hh⟩ := updateMany_allstate o h hm g al L c ps k now hop hu
        obtain ⟨al', g', hh'⟩ := ih hm h' gm alm (c.of_hdr hh) (fun op' h' => hok op' (List.mem_cons_of_mem _ h')) hp
        exact ⟨al', g', hh'.trans hh⟩

/-- **any archive, any history from `Create`**: inside the zone the fetch is the ring read,
    and every value other than the NaN marker is the slot of exactly that interval of exactly
    that archive -/
theorem any_archive_no_stale_lap (o : FOps) (agg : Nat) (xff : UInt32) (lay : List (Int × Nat)) (hl : LayInRange lay)
    (disk : Bytes) (h h' : Handle) (hc : createHandle o agg xff lay = .ok (disk, h))
    (L : Nat) (c : Coarse h L) (ops : List FOp) (hok : ∀ op ∈ ops, OpTimes L op)
    (hp : runFOps o h ops = .ok h')
    (p : FetchPlan) (k : Nat) (hk : h'.archs[k]? = some p.a) (hw : (slotAt h' p.a 0).t ≠ 0)
    (z : RingZone p.a (slotAt h' p.a 0).t p.fromI p.untilI) :
    ∃ s, h'.fetchExec p = .ok s ∧ s.values.length = winCount p.a p.fromI p.untilI ∧
      ∀ i (hi : i < s.values.length), s.values[i] ≠ nanBits →
        slotAt h' p.a (slotIdx p.a (slotAt h' p.a 0).t (p.fromI + p.a.step.toNat * i)) =
          ⟨p.fromI + p.a.step.toNat * i, s.values[i]⟩ := by
  have g := create_good o agg xff lay hl disk h hc
  have al := created_allstate o agg xff lay hl disk h hc
  obtain ⟨al', g', _⟩ := runFOps_allstate o L ops h h' g al c hok hp
  rcases al' k p.a hk with fr | ⟨lv, _⟩
  · exact absurd (fr.zero 0 fr.hn) hw
  · have hbI : h'.baseInterval p.a = .ok (slotAt h' p.a 0).t :=
      baseInterval_slot h' p.a (by have := lv.view; have := lv.hn; omega)
    refine ⟨_, fetch_refines_ring h' p _ z hbI lv.b0 lv.view lv.fit, by simp, ?_⟩
    intro i hi hv
    simp only [List.getElem_map, List.getElem_range] at hv ⊢
    obtain ⟨ht, hval⟩ := no_foreign_value h' p.a _ _ hv
    rw [hval]
    cases hsl : slotAt h' p.a (slotIdx p.a (slotAt h' p.a 0).t (p.fromI + p.a.step.toNat * i)) with
    | mk t' v' =>
      rw [hsl] at ht
      simp only at ht
      subst ht
      rfl

/-- an archive that nothing has reached yet reads NaN only -/
theorem any_archive_unwritten_reads_nan (o : FOps) (agg : Nat) (xff : UInt32) (lay : List (Int × Nat)) (hl : LayInRange lay)
    (disk : Bytes) (h h' : Handle) (hc : createHandle o agg xff lay = .ok (disk, h))
    (L : Nat) (c : Coarse h L) (ops : List FOp) (hok : ∀ op ∈ ops, OpTimes L op)
    (hp : runFOps o h ops = .ok h')
    (p : FetchPlan) (k : Nat) (hk : h'.archs[k]? = some p.a) (hw : (slotAt h' p.a 0).t = 0) :
    ∃ n, h'.fetchExec p = .ok ⟨p.fromI, p.untilI, p.a.step, List.replicate n nanBits⟩ := by
  have g := create_good o agg xff lay hl disk h hc
  have al := created_allstate o agg xff lay hl disk h hc
  obtain ⟨al', g', _⟩ := runFOps_allstate o L ops h h' g al c hok hp
  have hview : p.a.offset + 12 * p.a.n ≤ h'.view.length ∧ 0 < p.a.n := by
    rcases al' k p.a hk with fr | ⟨lv, _⟩
    · exact ⟨fr.view, fr.hn⟩
    · exact ⟨lv.view, lv.hn⟩
  have hbI : h'.baseInterval p.a = .ok 0 := by
    rw [baseInterval_slot h' p.a (by omega), hw]
  exact fetch_never_written h' p hbI

end Wsp.C01
