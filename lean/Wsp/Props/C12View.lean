/-
  C12 composed with the command: `view` through the server — the server runs the local
  read, encodes header and series, the client decodes them and prints — shows exactly the
  records the local `view` shows (all archives selected, window inside the clock zone).
-/
import Wsp.Props.C12
import Wsp.Props.C18Cmd
import Wsp.Props.C14Inverse
namespace Wsp.C12
open Wsp.Handle Wsp.C14 Wsp.Total Wsp.C01 Wsp.Cmd Wsp.Inv Wsp.C08 Wsp.C18

/-- ⟦ViewCommand.execute⟧ with a server URL as the source: what the server computes locally
    travels as bytes -/
def remoteOut : R (Header × List Series) → Outcome × Option Header × List Rec
  | .error e => (.ofFault e, none, [])
  | .ok (h', ss) => (.ok, some h', recsOf ((ss.map some).map seriesPoints))

def remoteOf (o : FOps) : R (Header × List (Option Series)) → Outcome × Option Header × List Rec
  | .error e => (.ofFault e, none, [])
  | .ok (h, l) => remoteOut (decodeView o (encodeView h l))

def viewRemote (o : FOps) (t : Tree) (path : String) (w : Window) : Outcome × Option Header × List Rec :=
  remoteOf o (readFile o t path w.archiveID w.from_ w.until' w.now)

theorem readSeries_wf (h : Handle) (a : Arch) (f cnt now : Nat) (z : WinZone a f cnt now) : SeriesWF (readSeries h a f cnt) := by
  obtain ⟨ok, _, _, hhi, _, _⟩ := z
  obtain ⟨hs, hn, hr⟩ := ok
  have hsn : ((a.step.toNat : Nat) : Int) = a.step := by omega
  have hs2 : a.step < 2147483648 := by
    have : a.step * 1 ≤ a.step * (a.n : Int) := Int.mul_le_mul_of_nonneg_left (by omega) (by omega)
    omega
  have hmul : a.step.toNat * cnt ≥ 0 := Nat.zero_le _
  refine ⟨?_, ?_, ?_, hs, hs2, ?_⟩
  · show f < 4294967296; omega
  · show f + a.step.toNat * cnt < 4294967296; omega
  · show f ≤ f + a.step.toNat * cnt; omega
  · show ((List.range cnt).map _).length = _
    rw [List.length_map, List.length_range]
    show cnt = (Int.tdiv (((f + a.step.toNat * cnt : Nat) : Int) - (f : Int)) a.step).toNat
    have e : (((f + a.step.toNat * cnt : Nat) : Int) - (f : Int)) = a.step * (cnt : Int) := by
      push_cast; rw [hsn]; omega
    rw [e, Int.mul_tdiv_cancel_left _ (by omega)]
    omega

theorem viewRemote_of_read (o : FOps) (t : Tree) (path : String) (w : Window) (h h' : Header)
    (l : List (Option Series)) (ss : List Series)
    (hrd : readFile o t path w.archiveID w.from_ w.until' w.now = .ok (h, l))
    (hdec : decodeView o (encodeView h l) = .ok (h', ss)) :
    viewRemote o t path w = (.ok, some h', recsOf ((ss.map some).map seriesPoints)) := by
  unfold viewRemote
  rw [hrd]
  show remoteOut (decodeView o (encodeView h l)) = _
  rw [hdec]
  rfl

theorem view_of_read (o : FOps) (t : Tree) (path : String) (w : Window) (h : Header) (l : List (Option Series))
    (hrd : readFile o t path w.archiveID w.from_ w.until' w.now = .ok (h, l)) :
    Cmd.view o t path w = (.ok, some h, recsOf (l.map seriesPoints)) := by
  unfold Cmd.view
  rw [hrd]

/-- **view through the server = view of the directory** -/
theorem view_remote_eq_local (o : FOps) (t : Tree) (path : String) (b : Bytes) (h : Handle) (w : Window)
    (A : Nat → Arch) (F C : Nat → Nat)
    (hget : t.get path = some b) (hopen : openBytes o b = .ok h) (al : AllState h)
    (hall : w.archiveID = -1)
    (hspec : ∀ k, k < h.archs.length → WinSpec h w k (A k) (F k) (C k)) :
    viewRemote o t path w = Cmd.view o t path w := by
  have hfa := fetchAll_win w A F C h al h.archs 0 (by simp) hspec
  simp only [Nat.zero_add] at hfa
  generalize hL : ((List.range h.archs.length).map fun j => some (readSeries h (A j) (F j) (C j))) = L at hfa
  have hrd : readFile o t path w.archiveID w.from_ w.until' w.now = .ok (h.hdr, L) := by
    unfold readFile
    rw [hget]
    simp only
    rw [hopen]
    simp only [fetchList]
    rw [if_pos hall, hfa]
  have wf := (opened_reopenable o b 4096 h hopen).wf
  have hwfs : ∀ s ∈ L, ∀ x, s = some x → SeriesWF x := by
    intro s hs x hx
    rw [← hL] at hs
    simp only [List.mem_map, List.mem_range] at hs
    obtain ⟨j, hj, e⟩ := hs
    rw [← e] at hx
    injection hx with hx
    rw [← hx]
    exact readSeries_wf h (A j) (F j) (C j) w.now (hspec j hj).zone
  have hlen : L.length = h.hdr.archives.length := by
    rw [← hL, List.length_map, List.length_range]; rfl
  have hsome : ∀ s ∈ L, ∃ x, s = some x := by
    intro s hs
    rw [← hL] at hs
    simp only [List.mem_map, List.mem_range] at hs
    obtain ⟨j, _, e⟩ := hs
    exact ⟨_, e.symm⟩
  rw [viewRemote_of_read o t path w h.hdr h.hdr L (L.map emptyIfAbsent) hrd
      (view_transparent o h.hdr wf L hlen hwfs),
    view_of_read o t path w h.hdr L hrd]
  have hl : ((L.map emptyIfAbsent).map some).map seriesPoints = L.map seriesPoints := by
    rw [List.map_map, List.map_map]
    apply List.map_congr_left
    intro s hs
    obtain ⟨x, e⟩ := hsome s hs
    rw [e]
    rfl
  rw [hl]

end Wsp.C12
