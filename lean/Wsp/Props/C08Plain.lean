/-
  C08 under plain conditions: two existing files with the same archive list, both satisfying
  the invariant of files whispertool writes; the clock inside the zone of every archive and
  the requested window reaching every archive.  Then `copy` (NaN values included, all
  archives) followed by `diff` of the same pair, same window, same clock, reports nothing.
  All the window bookkeeping of `copyOne_then_diffOne_clean` is discharged here.
-/
import Wsp.Props.C08Full
import Wsp.Props.C18Plain
namespace Wsp.C08
open Wsp.Handle Wsp.C14 Wsp.Total Wsp.C01 Wsp.Cmd Wsp.Inv Wsp.Reopen Wsp.C18

theorem winSpec_of_archs {h h' : Handle} {w : Window} {k : Nat} {a : Arch} {f cnt : Nat}
    (sp : WinSpec h w k a f cnt) (e : h'.archs = h.archs) : WinSpec h' w k a f cnt :=
  ⟨by rw [e]; exact sp.arch, sp.pos, sp.zone, by rw [e]; exact sp.plan⟩

/-- what a read of a file inside the zone returns, all archives -/
theorem readFile_win (o : FOps) (t : Tree) (path : String) (b : Bytes) (h : Handle) (w : Window)
    (A : Nat → Arch) (F C : Nat → Nat)
    (hget : t.get path = some b) (hopen : openBytes o b = .ok h) (al : AllState h) (hall : w.archiveID = -1)
    (hspec : ∀ k, k < h.archs.length → WinSpec h w k (A k) (F k) (C k)) :
    readFile o t path w.archiveID w.from_ w.until' w.now =
      .ok (h.hdr, (List.range h.archs.length).map fun j => some (readSeries h (A j) (F j) (C j))) := by
  have hfa := fetchAll_win w A F C h al h.archs 0 (by simp) hspec
  simp only [Nat.zero_add] at hfa
  unfold readFile
  rw [hget]
  simp only
  rw [hopen]
  simp only [fetchList]
  rw [if_pos hall, hfa]

/-- **copy, then diff, under plain conditions** -/
theorem copy_then_diff_plain (o : FOps) (hl : FLaws o) (t : Tree) (src dst : String) (c : CopyOpts) (w : Window)
    (bs bd : Bytes) (hsH hd : Handle) (L : Nat)
    (hlay : LayInRange c.lay) (hnew : ∃ x, newHeader o c.agg c.xff c.lay = .ok x)
    (hnan : c.copyNaN = true) (hall : w.archiveID = -1) (hne : src ≠ dst)
    (hgs : t.get src = some bs) (hos : openBytes o bs = .ok hsH) (als : AllState hsH)
    (hgd : t.get dst = some bd) (hod : openBytes o bd = .ok hd) (ald : AllState hd)
    (hsame : hsH.archs = hd.archs) (co : Coarse hd L)
    (hfu : w.from_ ≤ w.until') (hfn : w.from_ ≤ w.now)
    (hz : ∀ a ∈ hd.archs, ¬ w.until' < tsAdd w.now (- a.maxRetention) ∧ a.step * (a.n : Int) ≤ w.now ∧
      (w.now : Int) + 2 * a.step < 2147483648 ∧ (L : Int) + a.step * (a.n : Int) ≤ w.now)
    (hok : (copyOne o t src dst c w).2.1 = .ok) :
    diffOne o (copyOne o t src dst c w).1 src dst w = (.ok, []) := by
  have gd := open_good o bd _ hd hod
  -- the window specification of every archive of the destination
  have hex : ∀ k, ∃ a f cnt, k < hd.archs.length → WinSpec hd w k a f cnt := by
    intro k
    by_cases hk : k < hd.archs.length
    · have ha : hd.archs[k]? = some (hd.archs[k]) := List.getElem?_eq_getElem hk
      obtain ⟨h1, h2, h3, _⟩ := hz _ (List.getElem_mem hk)
      obtain ⟨f, cnt, sp⟩ := winSpec_of_window hd gd w k _ ha hfu hfn h1 h2 h3
      exact ⟨_, f, cnt, fun _ => sp⟩
    · exact ⟨⟨0, 0, 0⟩, 0, 0, fun hk' => absurd hk' hk⟩
  let A : Nat → Arch := fun k => Classical.choose (hex k)
  let F : Nat → Nat := fun k => Classical.choose (Classical.choose_spec (hex k))
  let C : Nat → Nat := fun k => Classical.choose (Classical.choose_spec (Classical.choose_spec (hex k)))
  have hspecD : ∀ k, k < hd.archs.length → WinSpec hd w k (A k) (F k) (C k) :=
    fun k hk => Classical.choose_spec (Classical.choose_spec (Classical.choose_spec (hex k))) hk
  have hspecS : ∀ k, k < hsH.archs.length → WinSpec hsH w k (A k) (F k) (C k) :=
    fun k hk => winSpec_of_archs (hspecD k (by rw [← hsame]; exact hk)) hsame
  let V : Nat → List Val := fun k => (readSeries hsH (A k) (F k) (C k)).values
  -- what the copy reads of the source
  have hrs := readFile_win o t src bs hsH w A F C hgs hos als hall hspecS
  rw [hsame] at hrs
  -- the destination is opened, not created
  have hoc : openOrCreate o t dst c = .ok (t, hd) := by
    obtain ⟨x, hx⟩ := hnew
    unfold openOrCreate
    rw [hx]
    simp only
    rw [hgd]
    simp only
    rw [hod]
  apply copyOne_then_diffOne_clean o hl t src dst c w L A F C V hlay hnan hall hne ?_ hok
  intro t1 hd' hs' ls' hoc' hrd'
  rw [hoc] at hoc'
  injection hoc' with hoc'
  injection hoc' with e1 e2
  subst e1; subst e2
  rw [hrs] at hrd'
  injection hrd' with hrd'
  injection hrd' with e3 e4
  subst e4
  refine ⟨ald, co, by simp, ?_⟩
  intro k hk
  have sp := hspecD k hk
  have hmem : A k ∈ hd.archs := mem_of_getElem? sp.arch
  obtain ⟨_, _, _, h4⟩ := hz _ hmem
  refine ⟨sp.arch, ?_, by simp [V, readSeries], sp.pos, sp.zone, ?_, sp.plan⟩
  · rw [List.getD_eq_getElem?_getD]
    simp only [List.getElem?_map, List.getElem?_range hk, Option.map_some, Option.getD_some]
    rfl
  · -- the window starts after L: it starts after now − retention
    have hy := sp.zone.young
    have ok := sp.zone.ok
    have hmr := maxRetention_ideal (A k) ok
    rw [hmr] at hy
    have hs := ok.1
    have hpos : 0 ≤ (A k).step * ((A k).n : Int) := Int.mul_nonneg (by omega) (by omega)
    have hts := tsAdd_ideal w.now (- ((A k).step * ((A k).n : Int))) (by omega) (by omega)
    omega

end Wsp.C08
