/-
  C11 under plain conditions: the files of an item and the destination all exist, have the
  same archive list and satisfy the invariant of files whispertool writes; the clock is inside
  the zone of every archive and the requested window reaches every archive.  Then `sum-copy`
  (all archives) followed by `sum-diff` of the same item and destination over the same window
  at the same clock reports nothing.
-/
import Wsp.Props.C08Plain
import Wsp.Props.C12Sum
namespace Wsp.C11
open Wsp.Handle Wsp.C14 Wsp.Total Wsp.C01 Wsp.Cmd Wsp.Inv Wsp.Reopen Wsp.C18 Wsp.C08

/-- **`sum-copy`, then `sum-diff`, command to command** (mirrors `copyOne_then_diffOne_clean`) -/
theorem sumCopy_then_sumDiff_clean (o : FOps) (hl : FLaws o) (t : Tree) (files : List String) (dst : String) (c : CopyOpts)
    (w : Window) (L : Nat) (A : Nat → Arch) (F C : Nat → Nat) (V : Nat → List Val)
    (hlay : LayInRange c.lay) (hall : w.archiveID = -1) (hne : dst ∉ files)
    (hinv : ∀ t1 hd hs ls, openOrCreate o t dst c = .ok (t1, hd) → sumFiles o t1 files w = .ok (hs, ls) →
      Good hd ∧ AllState hd ∧ Coarse hd L ∧ ls.length = hd.archs.length ∧
      ∀ k, k < hd.archs.length → ArchSpec hd ls w L k (A k) (F k) (C k) (V k))
    (hok : (sumCopy o t files dst c w).2.1 = .ok) :
    sumDiff o (sumCopy o t files dst c w).1 files dst w = (.ok, []) := by
  unfold sumCopy at hok ⊢
  cases hoc : openOrCreate o t dst c with
  | error e =>
    rw [hoc] at hok
    exfalso
    cases e <;> simp [Outcome.ofFault] at hok
  | ok r =>
    obtain ⟨t1, hd⟩ := r
    try rw [hoc] at hok
    try rw [hoc]
    simp only at hok ⊢
    cases hrs : sumFiles o t1 files w with
    | error e =>
      rw [hrs] at hok
      exfalso
      cases e <;> simp [Outcome.ofFault] at hok
    | ok r2 =>
      obtain ⟨hs, ls⟩ := r2
      try rw [hrs] at hok
      try rw [hrs]
      simp only at hok ⊢
      obtain ⟨g, al, co, hlen, hspec⟩ := hinv t1 hd hs ls hoc hrs
      obtain ⟨rp, hget, _⟩ := openOrCreate_published o t t1 dst c hlay hd hoc
      exact sumcopy_then_sumdiff_clean o hl t1 files dst hd hs ls w L A F C V g al co rp hall hne hget hrs hlen hspec hok

theorem layoutsEqual_refl (a : List Arch) : layoutsEqual a a = true := by
  unfold layoutsEqual
  simp only [beq_self_eq_true, Bool.true_and]
  induction a with
  | nil => rfl
  | cons x xs ih => simp [List.zip_cons_cons, ih]

/-- reads of two files through the same window specifications have the same ranges -/
theorem rangesEqual_reads (h1 h2 : Handle) (A : Nat → Arch) (F C : Nat → Nat) (n : Nat) :
    rangesEqual ((List.range n).map fun j => some (readSeries h1 (A j) (F j) (C j)))
      ((List.range n).map fun j => some (readSeries h2 (A j) (F j) (C j))) = true := by
  unfold rangesEqual
  simp only [List.length_map, List.length_range, beq_self_eq_true, Bool.true_and]
  apply zip_all_index
  intro k x y hx hy
  simp only [List.getElem?_map] at hx hy
  cases hr : (List.range n)[k]? with
  | none => rw [hr] at hx; simp at hx
  | some j =>
    rw [hr] at hx hy
    simp only [Option.map_some, Option.some.injEq] at hx hy
    subst hx; subst hy
    simp [sFrom, sUntil, sStep, readSeries]

/-- what ⟦sumWhisperFileLocal⟧ reads, file by file, when every file is like the destination -/
theorem readAll_win (o : FOps) (t : Tree) (w : Window) (A : Nat → Arch) (F C : Nat → Nat) (n : Nat)
    (B : String → Bytes) (H : String → Handle) (hall : w.archiveID = -1) :
    ∀ (files : List String),
      (∀ f ∈ files, t.get f = some (B f) ∧ openBytes o (B f) = .ok (H f) ∧ AllState (H f) ∧ (H f).archs.length = n ∧
        ∀ k, k < n → WinSpec (H f) w k (A k) (F k) (C k)) →
      sumFiles.readAll o t w files =
        .ok (files.map fun f => ((H f).hdr, (List.range n).map fun j => some (readSeries (H f) (A j) (F j) (C j)))) := by
  intro files
  induction files with
  | nil => intro _; rfl
  | cons f fs ih =>
    intro hf
    obtain ⟨hg, ho, al, hn, hsp⟩ := hf f (by simp)
    simp only [sumFiles.readAll]
    have := readFile_win o t f (B f) (H f) w A F C hg ho al hall (by rw [hn]; exact hsp)
    rw [hn] at this
    rw [this]
    simp only
    rw [ih (fun f' hf' => hf f' (by simp [hf']))]
    rfl

/-- the sum an item's files give when every file reads through the same window specification -/
theorem sumFiles_win (o : FOps) (t : Tree) (w : Window) (A : Nat → Arch) (F C : Nat → Nat) (n : Nat)
    (B : String → Bytes) (H : String → Handle) (hall : w.archiveID = -1)
    (f0 : String) (fs : List String) (archs : List Arch)
    (hf : ∀ f ∈ f0 :: fs, t.get f = some (B f) ∧ openBytes o (B f) = .ok (H f) ∧ AllState (H f) ∧
      (H f).archs = archs ∧ ∀ k, k < n → WinSpec (H f) w k (A k) (F k) (C k))
    (hn : archs.length = n) :
    sumFiles o t (f0 :: fs) w = .ok ((H f0).hdr,
      sumSeries o n ((f0 :: fs).map fun f => (List.range n).map fun j => some (readSeries (H f) (A j) (F j) (C j)))) := by
  have hra := readAll_win o t w A F C n B H hall (f0 :: fs) (fun f h => by
    obtain ⟨a, b, c, d, e⟩ := hf f h
    exact ⟨a, b, c, by rw [d]; exact hn, e⟩)
  unfold sumFiles
  simp only [List.isEmpty_cons, Bool.false_eq_true, if_false]
  rw [hra]
  simp only [List.map_cons]
  have h0 := (hf f0 (by simp)).2.2.2.1
  have hlay : (fs.map fun f => ((H f).hdr, (List.range n).map fun j => some (readSeries (H f) (A j) (F j) (C j)))).all
      (fun r => layoutsEqual (H f0).hdr.archives r.1.archives) = true := by
    rw [List.all_eq_true]
    intro r hr
    simp only [List.mem_map] at hr
    obtain ⟨f, hfm, e⟩ := hr
    rw [← e]
    have h1 := (hf f (by simp [hfm])).2.2.2.1
    have e0 : (H f0).hdr.archives = archs := h0
    have e1 : (H f).hdr.archives = archs := h1
    simp only [e0, e1]
    exact layoutsEqual_refl archs
  have hrng : (fs.map fun f => ((H f).hdr, (List.range n).map fun j => some (readSeries (H f) (A j) (F j) (C j)))).all
      (fun r => rangesEqual ((List.range n).map fun j => some (readSeries (H f0) (A j) (F j) (C j))) r.2) = true := by
    rw [List.all_eq_true]
    intro r hr
    simp only [List.mem_map] at hr
    obtain ⟨f, _, e⟩ := hr
    rw [← e]
    exact rangesEqual_reads (H f0) (H f) A F C n
  simp only [hlay, hrng, Bool.not_true, Bool.false_eq_true, if_false]
  have e0 : (H f0).hdr.archives.length = n := by
    have : (H f0).hdr.archives = archs := h0
    rw [this]; exact hn
  rw [e0]
  simp only [List.map_map]
  rfl

theorem sumSeries_getD (o : FOps) (n : Nat) (l0 : List (Option Series)) (rest : List (List (Option Series)))
    (k : Nat) (hk : k < n) :
    (sumSeries o n (l0 :: rest)).getD k none =
      some ⟨sFrom (l0.getD k none), sUntil (l0.getD k none), sStep (l0.getD k none),
        sumColumns o ((l0 :: rest).map fun l => sValues (l.getD k none))⟩ := by
  simp only [sumSeries]
  rw [List.getD_eq_getElem?_getD]
  simp only [List.getElem?_map, List.getElem?_range hk, Option.map_some, Option.getD_some]

theorem reads_getD (h : Handle) (A : Nat → Arch) (F C : Nat → Nat) (n k : Nat) (hk : k < n) :
    ((List.range n).map fun j => some (readSeries h (A j) (F j) (C j))).getD k none =
      some (readSeries h (A k) (F k) (C k)) := by
  rw [List.getD_eq_getElem?_getD]
  simp only [List.getElem?_map, List.getElem?_range hk, Option.map_some, Option.getD_some]

/-- **sum-copy, then sum-diff, under plain conditions** -/
theorem sumcopy_then_sumdiff_plain (o : FOps) (hl : FLaws o) (t : Tree) (f0 : String) (fs : List String) (dst : String)
    (c : CopyOpts) (w : Window) (B : String → Bytes) (H : String → Handle) (bd : Bytes) (hd : Handle) (L : Nat)
    (hlay : LayInRange c.lay) (hnew : ∃ x, newHeader o c.agg c.xff c.lay = .ok x)
    (hall : w.archiveID = -1) (hne : dst ∉ f0 :: fs)
    (hfiles : ∀ f ∈ f0 :: fs, t.get f = some (B f) ∧ openBytes o (B f) = .ok (H f) ∧ AllState (H f) ∧
      (H f).archs = hd.archs)
    (hgd : t.get dst = some bd) (hod : openBytes o bd = .ok hd) (ald : AllState hd) (co : Coarse hd L)
    (hfu : w.from_ ≤ w.until') (hfn : w.from_ ≤ w.now)
    (hz : ∀ a ∈ hd.archs, ¬ w.until' < tsAdd w.now (- a.maxRetention) ∧ a.step * (a.n : Int) ≤ w.now ∧
      (w.now : Int) + 2 * a.step < 2147483648 ∧ (L : Int) + a.step * (a.n : Int) ≤ w.now)
    (hok : (sumCopy o t (f0 :: fs) dst c w).2.1 = .ok) :
    sumDiff o (sumCopy o t (f0 :: fs) dst c w).1 (f0 :: fs) dst w = (.ok, []) := by
  have gd := open_good o bd _ hd hod
  have hex : ∀ k, ∃ a f cnt, k < hd.archs.length → WinSpec hd w k a f cnt := by
    intro k
    by_cases hk : k < hd.archs.length
    · have ha : hd.archs[k]? = some (hd.archs[k]) := List.getElem?_eq_getElem hk
      obtain ⟨h1, h2, h3, _⟩ := hz _ (List.getElem_mem hk)
      obtain ⟨f, cnt, sp⟩ := winSpec_of_window hd gd w k _ ha hfu hfn h1 h2 h3
      exact ⟨_, f, cnt, fun _ => sp⟩
    · exact ⟨⟨0, 0, 0⟩, 0, 0, fun hk' => absurd hk' hk⟩
  let A : Nat → Arch := fun k => Classical.choose (hex k)
  let F : Nat → Nat := fun k => Classical.choose (Classical.choose_spec (hex k))
  let C : Nat → Nat := fun k => Classical.choose (Classical.choose_spec (Classical.choose_spec (hex k)))
  have hspecD : ∀ k, k < hd.archs.length → WinSpec hd w k (A k) (F k) (C k) :=
    fun k hk => Classical.choose_spec (Classical.choose_spec (Classical.choose_spec (hex k))) hk
  -- the sum the command reads
  have hsum := sumFiles_win o t w A F C hd.archs.length B H hall f0 fs hd.archs
    (fun f hf => by
      obtain ⟨a, b, c', d⟩ := hfiles f hf
      exact ⟨a, b, c', d, fun k hk => winSpec_of_archs (hspecD k hk) d⟩) rfl
  let lists := (f0 :: fs).map fun f => (List.range hd.archs.length).map fun j => some (readSeries (H f) (A j) (F j) (C j))
  let V : Nat → List Val := fun k => sumColumns o (lists.map fun l => sValues (l.getD k none))
  have hoc : openOrCreate o t dst c = .ok (t, hd) := by
    obtain ⟨x, hx⟩ := hnew
    unfold openOrCreate
    rw [hx]
    simp only
    rw [hgd]
    simp only
    rw [hod]
  apply sumCopy_then_sumDiff_clean o hl t (f0 :: fs) dst c w L A F C V hlay hall hne ?_ hok
  intro t1 hd' hs' ls' hoc' hrd'
  rw [hoc] at hoc'
  injection hoc' with hoc'
  injection hoc' with e1 e2
  subst e1; subst e2
  rw [hsum] at hrd'
  injection hrd' with hrd'
  injection hrd' with e3 e4
  subst e4
  refine ⟨gd, ald, co, by simp [sumSeries], ?_⟩
  intro k hk
  have sp := hspecD k hk
  have hmem : A k ∈ hd.archs := mem_of_getElem? sp.arch
  obtain ⟨_, _, _, h4⟩ := hz _ hmem
  have hVlen : (V k).length = C k := by
    apply C12.sumColumns_length o (C k) _ (by simp [lists])
    intro col hcol
    simp only [lists, List.map_map, List.mem_map] at hcol
    obtain ⟨f, _, e⟩ := hcol
    rw [← e]
    simp only [Function.comp]
    rw [List.getD_eq_getElem?_getD]
    simp only [List.getElem?_map, List.getElem?_range hk, Option.map_some, Option.getD_some, sValues, readSeries,
      List.length_map, List.length_range]
  refine ⟨sp.arch, ?_, hVlen, sp.pos, sp.zone, ?_, sp.plan⟩
  · -- the k-th summed series has the window's origin, end and step
    show (sumSeries o hd.archs.length (((List.range hd.archs.length).map fun j => some (readSeries (H f0) (A j) (F j) (C j))) ::
      fs.map fun f => (List.range hd.archs.length).map fun j => some (readSeries (H f) (A j) (F j) (C j)))).getD k none = _
    rw [sumSeries_getD o _ _ _ k hk, reads_getD (H f0) A F C _ k hk]
    rfl
  · have hy := sp.zone.young
    have ok := sp.zone.ok
    have hmr := maxRetention_ideal (A k) ok
    rw [hmr] at hy
    have hs := ok.1
    have hpos : 0 ≤ (A k).step * ((A k).n : Int) := Int.mul_nonneg (by omega) (by omega)
    have hts := tsAdd_ideal w.now (- ((A k).step * ((A k).n : Int))) (by omega) (by omega)
    omega

end Wsp.C11
