/-
  C08 at the level of the whole command: `copy` (NaN values included, all archives), then
  `diff` of the same pair over the same window at the same clock, reports nothing —
  whether the destination existed or was created by the copy.
-/
import Wsp.Props.C08Diff
import Wsp.Props.C14Inverse
namespace Wsp.C08
open Wsp.Handle Wsp.C14 Wsp.Total Wsp.C01 Wsp.Cmd Wsp.Inv Wsp.Reopen

theorem openBytes_view (o : FOps) (b : Bytes) (ps : Nat) (h : Handle) (ho : openBytes o b ps = .ok h) : h.view = b := by
  unfold openBytes at ho
  simp only [bind, Except.bind] at ho
  cases hr : readHeader o b ps with
  | error e => simp [hr] at ho
  | ok hd =>
    rw [hr] at ho
    simp only at ho
    split at ho
    · simp [throw, throwThe, MonadExceptOf.throw] at ho
    · simp only [pure, Except.pure] at ho
      injection ho with ho; subst ho; rfl

/-- the destination handle of a copy can be reopened from the bytes under its path, and
    opening or creating it touched no other path -/
theorem openOrCreate_published (o : FOps) (t t' : Tree) (dst : String) (c : CopyOpts) (hl : LayInRange c.lay)
    (hd : Handle) (hoc : openOrCreate o t dst c = .ok (t', hd)) :
    Reopenable o hd ∧ t'.get dst = some hd.view ∧ ∀ p, p ≠ dst → t'.get p = t.get p := by
  unfold openOrCreate at hoc
  cases hn : newHeader o c.agg c.xff c.lay with
  | error e => rw [hn] at hoc; simp at hoc
  | ok _ =>
    rw [hn] at hoc; simp only at hoc
    cases hb : t.get dst with
    | some b =>
      rw [hb] at hoc; simp only at hoc
      cases ho : openBytes o b with
      | error e => rw [ho] at hoc; simp at hoc
      | ok h =>
        rw [ho] at hoc; simp only at hoc
        injection hoc with hoc; injection hoc with e1 e2; subst e1 e2
        refine ⟨opened_reopenable o b _ h ho, ?_, fun _ _ => rfl⟩
        rw [openBytes_view o b _ h ho]; exact hb
    | none =>
      rw [hb] at hoc; simp only at hoc
      cases hc : createHandle o c.agg c.xff c.lay with
      | error e => rw [hc] at hoc; simp at hoc
      | ok r =>
        obtain ⟨disk, h⟩ := r
        rw [hc] at hoc; simp only at hoc
        injection hoc with hoc; injection hoc with e1 e2; subst e1 e2
        refine ⟨created_reopenable o c.agg c.xff c.lay hl disk h hc, ?_, ?_⟩
        · unfold Tree.get Tree.set; simp
        · intro p hp; unfold Tree.get Tree.set; rw [if_neg hp]

/-- **`copy`, then `diff`, command to command.**  Whatever the tree held: if `copy` with NaN
    values included and all archives selected reports success, then `diff` of the same pair
    over the same window at the same clock, on the tree the copy left, ends `ok` with no
    record.  The hypotheses on the destination handle are those of `copyCore_agrees` (the
    invariant of a file written by whispertool, and a window inside the clock zone). -/
theorem copyOne_then_diffOne_clean (o : FOps) (hl : FLaws o) (t : Tree) (src dst : String) (c : CopyOpts)
    (w : Window) (L : Nat) (A : Nat → Arch) (F C : Nat → Nat) (V : Nat → List Val)
    (hlay : LayInRange c.lay) (hnan : c.copyNaN = true) (hall : w.archiveID = -1) (hne : src ≠ dst)
    (hinv : ∀ t1 hd hs ls, openOrCreate o t dst c = .ok (t1, hd) →
      readFile o t1 src w.archiveID w.from_ w.until' w.now = .ok (hs, ls) →
      AllState hd ∧ Coarse hd L ∧ ls.length = hd.archs.length ∧
      ∀ k, k < hd.archs.length → ArchSpec hd ls w L k (A k) (F k) (C k) (V k))
    (hok : (copyOne o t src dst c w).2.1 = .ok) :
    diffOne o (copyOne o t src dst c w).1 src dst w = (.ok, []) := by
  unfold copyOne at hok ⊢
  cases hoc : openOrCreate o t dst c with
  | error e =>
    rw [hoc] at hok
    exfalso
    cases e <;> simp [Outcome.ofFault] at hok
  | ok r =>
    obtain ⟨t1, hd⟩ := r
    try rw [hoc] at hok
    try rw [hoc]
    simp only at hok ⊢
    cases hrs : readFile o t1 src w.archiveID w.from_ w.until' w.now with
    | error e =>
      rw [hrs] at hok
      exfalso
      cases e <;> simp [Outcome.ofFault] at hok
    | ok r2 =>
      obtain ⟨hs, ls⟩ := r2
      try rw [hrs] at hok
      try rw [hrs]
      simp only at hok ⊢
      have hex : (!c.copyNaN) = false := by rw [hnan]; rfl
      rw [hex] at hok ⊢
      obtain ⟨al, co, hlen, hspec⟩ := hinv t1 hd hs ls hoc hrs
      obtain ⟨rp, hget, _⟩ := openOrCreate_published o t t1 dst c hlay hd hoc
      have g : Good hd := by
        unfold openOrCreate at hoc
        cases hn : newHeader o c.agg c.xff c.lay with
        | error e => rw [hn] at hoc; simp at hoc
        | ok _ =>
          rw [hn] at hoc; simp only at hoc
          cases hb : t.get dst with
          | some b =>
            rw [hb] at hoc; simp only at hoc
            cases ho : openBytes o b with
            | error e => rw [ho] at hoc; simp at hoc
            | ok h =>
              rw [ho] at hoc; simp only at hoc
              injection hoc with hoc; injection hoc with e1 e2; subst e2
              exact open_good o b _ h ho
          | none =>
            rw [hb] at hoc; simp only at hoc
            cases hc : createHandle o c.agg c.xff c.lay with
            | error e => rw [hc] at hoc; simp at hoc
            | ok r =>
              obtain ⟨disk, h⟩ := r
              rw [hc] at hoc; simp only at hoc
              injection hoc with hoc; injection hoc with e1 e2; subst e2
              exact create_good o c.agg c.xff c.lay hlay disk h hc
      exact copy_then_diff_clean o hl t1 src dst hd hs ls w L A F C V g al co rp hall hne hget hrs hlen hspec hok

end Wsp.C08
