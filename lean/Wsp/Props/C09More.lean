/-
  C09, glob mode: a hard error in one file is the outcome of the run, whatever the files
  before it showed — a difference found earlier does not mask it.
-/
import Wsp.Props.C09
namespace Wsp.C09
open Wsp.Cmd

theorem error_not_masked (o : FOps) (t : Tree) (w : Window) (pre : List (String × String)) (p : String × String)
    (post : List (String × String)) (k : ErrKind)
    (hpre : ∀ q ∈ pre, (diffOne o t q.1 q.2 w).1 = .ok ∨ (diffOne o t q.1 q.2 w).1 = .diffFound)
    (hp : (diffOne o t p.1 p.2 w).1 = .err k) :
    ∀ found, (diffMany o t w (pre ++ p :: post) found).1 = .err k := by
  induction pre with
  | nil =>
    intro found
    obtain ⟨s, d⟩ := p
    simp only [List.nil_append, diffMany]
    cases hd : diffOne o t s d w with
    | mk oc recs =>
      rw [hd] at hp
      simp only at hp
      subst hp
      rfl
  | cons q qs ih =>
    intro found
    obtain ⟨s, d⟩ := q
    have hq := hpre (s, d) (by simp)
    have ih' := ih (fun x hx => hpre x (by simp [hx]))
    simp only [List.cons_append, diffMany]
    cases hd : diffOne o t s d w with
    | mk oc recs =>
      rw [hd] at hq
      simp only at hq
      rcases hq with rfl | rfl
      · simp only [ih' found]
      · simp only [ih' true]

end Wsp.C09
