/-
  A global invariant of every file: each archive is either never written (all slot times 0)
  or live — slot 0 carries a nonzero base interval below 2^31 that lies on the archive's
  step grid (`AllState`).  It holds of every created file and is kept by every single and
  batch update, direct writes and every level of propagation included, as long as the
  written times are below 2^31 and not before the coarsest step.  The history theorems of
  C01 and the copy theorem of C08 need exactly this of the archive they talk about.
-/
import Wsp.Props.C08Dest
namespace Wsp.Inv
open Wsp.Handle Wsp.C14 Wsp.Total Wsp.C01 Wsp.C08

def AllState (h : Handle) : Prop := ∀ (k : Nat) (a : Arch), h.archs[k]? = some a → ArchState h a

/-- a time on archive `a`'s grid, in zone, not zero -/
def GridTime (a : Arch) (t : Nat) : Prop := t < 2147483648 ∧ a.step ∣ (t : Int) ∧ t ≠ 0

/-- regions of archives at different indexes do not overlap -/
theorem regions_disjoint (h : Handle) (g : Good h) (i j : Nat) (a b : Arch) (hij : i ≠ j)
    (ha : h.archs[i]? = some a) (hb : h.archs[j]? = some b) :
    a.offset + 12 * a.n ≤ b.offset ∨ b.offset + 12 * b.n ≤ a.offset := by
  rcases Nat.lt_or_gt_of_ne hij with hlt | hgt
  · left
    exact (placedFrom_of_valid h g.1.valid g.1.range i a ha j b (by omega) hb).lo
  · right
    exact (placedFrom_of_valid h g.1.valid g.1.range j b hb i a (by omega) ha).lo

theorem putPointAt_len (h h' : Handle) (p : Point) (off : Nat) (hput : h.putPointAt p off = .ok h') :
    h'.view.length = h.view.length :=
  (putPointAt_frame 0 h h' p off (by omega) hput).2.1

/-- where ⟦getPointOffset⟧ points: a slot of the archive -/
theorem getPointOffset_slot (h : Handle) (a : Arch) (hn : 0 < a.n) (hfit : a.offset + 12 * a.n ≤ 4294967295)
    (t off : Nat) (hg : h.getPointOffset t a = .ok off) : ∃ i, i < a.n ∧ off = a.offset + 12 * i := by
  unfold getPointOffset at hg
  cases hb : h.baseInterval a with
  | error e => rw [hb] at hg; simp at hg
  | ok base =>
    rw [hb] at hg; simp only at hg
    split at hg
    · injection hg with hg; exact ⟨0, hn, by omega⟩
    · injection hg with hg
      obtain ⟨r0, r1⟩ := pointIndex_range a hn base t
      rw [pointOffsetAt_ideal a _ r0 r1 hfit] at hg
      exact ⟨(a.pointIndex base t).toNat, by omega, hg.symm⟩

/-- **one aligned write keeps the invariant**: the written archive takes the write, every
    other archive is left alone -/
theorem write_allstate (h h' : Handle) (g : Good h) (al : AllState h) (k : Nat) (a : Arch) (ha : h.archs[k]? = some a)
    (t : Nat) (v : Val) (gt : GridTime a t) (off : Nat)
    (hoff : h.getPointOffset t a = .ok off) (hput : h.putPointAt ⟨t, v⟩ off = .ok h') :
    AllState h' ∧ Good h' ∧ h'.hdr = h.hdr := by
  have pa := g.placed a (mem_of_getElem? ha)
  have hfit : a.offset + 12 * a.n ≤ 4294967295 := by have := pa.hi; have := pa.fits; omega
  obtain ⟨i, hi, hoffe⟩ := getPointOffset_slot h a pa.npos hfit t off hoff
  have fr := putPointAt_frame (16 + 12 * h.hdr.archives.length) h h' _ off
    (getPointOffset_range h a pa _ off hoff).1 hput
  refine ⟨?_, g.of_frame fr, fr.1⟩
  intro k' b hb
  have hb' : h.archs[k']? = some b := by unfold Handle.archs at hb ⊢; rw [fr.1] at hb; exact hb
  by_cases hk : k' = k
  · subst hk
    rw [ha] at hb'; injection hb' with hb'; subst hb'
    have r : Reach a h [some (t, v)] h' := ⟨off, h', h', hoff, hput, SameOn.refl a h', SameOn.refl a h'⟩
    exact reach_state a _ h h' (al k' a ha) (by
      intro w hw
      simp [writesOf] at hw
      subst hw
      exact gt) r
  · have hdis := regions_disjoint h g k' k b a hk hb' ha
    rw [hoffe] at hput
    obtain ⟨_, hold, _⟩ := putPointAt_slots h h' ⟨t, v⟩ (by have := gt.1; simp; omega) a i hput
    have s : SameOn b h h' := by
      refine ⟨putPointAt_len h h' _ _ hput, ?_⟩
      intro j hj
      apply hold b j
      rcases hdis with hd | hd
      · left; omega
      · right; omega
    exact (al k' b hb').of_sameOn s

end Wsp.Inv
