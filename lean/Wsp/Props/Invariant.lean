/-
  A global invariant of every file: each archive is either never written (all slot times 0)
  or live — slot 0 carries a nonzero base interval below 2^31 that lies on the archive's
  step grid (`AllState`).  It holds of every created file and is kept by every single and
  batch update, direct writes and every level of propagation included, as long as the
  written times are below 2^31 and not before the coarsest step.  The history theorems of
  C01 and the copy theorem of C08 need exactly this of the archive they talk about.
-/
import Wsp.Props.C08Dest
import Wsp.Props.C02
namespace Wsp.Inv
open Wsp.Handle Wsp.C14 Wsp.Total Wsp.C01 Wsp.C08

def AllState (h : Handle) : Prop := ∀ (k : Nat) (a : Arch), h.archs[k]? = some a → ArchState h a

/-- a time on archive `a`'s grid, in zone, not zero -/
def GridTime (a : Arch) (t : Nat) : Prop := t < 2147483648 ∧ a.step ∣ (t : Int) ∧ t ≠ 0

/-- regions of archives at different indexes do not overlap -/
theorem regions_disjoint (h : Handle) (g : Good h) (i j : Nat) (a b : Arch) (hij : i ≠ j)
    (ha : h.archs[i]? = some a) (hb : h.archs[j]? = some b) :
    a.offset + 12 * a.n ≤ b.offset ∨ b.offset + 12 * b.n ≤ a.offset := by
  rcases Nat.lt_or_gt_of_ne hij with hlt | hgt
  · left
    exact (placedFrom_of_valid h g.1.valid g.1.range i a ha j b (by omega) hb).lo
  · right
    exact (placedFrom_of_valid h g.1.valid g.1.range j b hb i a (by omega) ha).lo

theorem putPointAt_len (h h' : Handle) (p : Point) (off : Nat) (hput : h.putPointAt p off = .ok h') :
    h'.view.length = h.view.length :=
  (putPointAt_frame 0 h h' p off (by omega) hput).2.1

/-- where ⟦getPointOffset⟧ points: a slot of the archive -/
theorem getPointOffset_slot (h : Handle) (a : Arch) (hn : 0 < a.n) (hfit : a.offset + 12 * a.n ≤ 4294967295)
    (t off : Nat) (hg : h.getPointOffset t a = .ok off) : ∃ i, i < a.n ∧ off = a.offset + 12 * i := by
  unfold getPointOffset at hg
  cases hb : h.baseInterval a with
  | error e => rw [hb] at hg; simp at hg
  | ok base =>
    rw [hb] at hg; simp only at hg
    split at hg
    · injection hg with hg; exact ⟨0, hn, by omega⟩
    · injection hg with hg
      obtain ⟨r0, r1⟩ := pointIndex_range a hn base t
      rw [pointOffsetAt_ideal a _ r0 r1 hfit] at hg
      exact ⟨(a.pointIndex base t).toNat, by omega, hg.symm⟩

/-- **one aligned write keeps the invariant**: the written archive takes the write, every
    other archive is left alone -/
theorem write_allstate (h h' : Handle) (g : Good h) (al : AllState h) (k : Nat) (a : Arch) (ha : h.archs[k]? = some a)
    (t : Nat) (v : Val) (gt : GridTime a t) (off : Nat)
    (hoff : h.getPointOffset t a = .ok off) (hput : h.putPointAt ⟨t, v⟩ off = .ok h') :
    AllState h' ∧ Good h' ∧ h'.hdr = h.hdr := by
  have pa := g.placed a (mem_of_getElem? ha)
  have hfit : a.offset + 12 * a.n ≤ 4294967295 := by have := pa.hi; have := pa.fits; omega
  obtain ⟨i, hi, hoffe⟩ := getPointOffset_slot h a pa.npos hfit t off hoff
  have fr := putPointAt_frame (16 + 12 * h.hdr.archives.length) h h' _ off
    (getPointOffset_range h a pa _ off hoff).1 hput
  refine ⟨?_, g.of_frame fr, fr.1⟩
  intro k' b hb
  have hb' : h.archs[k']? = some b := by unfold Handle.archs at hb ⊢; rw [fr.1] at hb; exact hb
  by_cases hk : k' = k
  · subst hk
    rw [ha] at hb'; injection hb' with hb'; subst hb'
    have r : Reach a h [some (t, v)] h' := ⟨off, h', h', hoff, hput, SameOn.refl a h', SameOn.refl a h'⟩
    exact reach_state a _ h h' (al k' a ha) (by
      intro w hw
      simp [writesOf] at hw
      subst hw
      exact gt) r
  · have hdis := regions_disjoint h g k' k b a hk hb' ha
    rw [hoffe] at hput
    obtain ⟨_, hold, _⟩ := putPointAt_slots h h' ⟨t, v⟩ (by have := gt.1; simp; omega) a i hput
    have s : SameOn b h h' := by
      refine ⟨putPointAt_len h h' _ _ hput, ?_⟩
      intro j hj
      apply hold b j
      rcases hdis with hd | hd
      · left; omega
      · right; omega
    exact (al k' b hb').of_sameOn s

/-! ### propagation keeps the invariant -/

/-- `L` bounds every step from above and every step divides it (true of the coarsest step) -/
def Coarse (h : Handle) (L : Nat) : Prop :=
  ∀ a ∈ h.archs, a.step ∣ (L : Int) ∧ a.step ≤ (L : Int) ∧ 0 < a.step

/-- a time that may be written at the level of archive `a`: on its grid and not before `L` -/
def LevelTime (a : Arch) (L t : Nat) : Prop := GridTime a t ∧ L ≤ t

theorem ifw_level (a : Arch) (L t : Nat) (hs : 0 < a.step) (hd : a.step ∣ (L : Int)) (hle : a.step ≤ (L : Int))
    (ht : t < 2147483648) (hL : L ≤ t) : LevelTime a L (a.intervalForWrite t) := by
  have hid := intervalForWrite_ideal a t hs (by omega)
  have hal := alignDown_le t a.step hs
  have hmono := alignDown_mono (L : Int) (t : Int) a.step hs (by omega)
  have hL0 : (L : Int) % a.step = 0 := Int.emod_eq_zero_of_dvd hd
  unfold alignDown at hid hal
  refine ⟨⟨by omega, by rw [hid]; exact alignDown_dvd t a.step, ?_⟩, by omega⟩
  intro h0
  rw [h0] at hid
  omega

theorem Coarse.of_hdr {h h' : Handle} {L : Nat} (c : Coarse h L) (hh : h'.hdr = h.hdr) : Coarse h' L := by
  intro a ha
  unfold Handle.archs at ha
  rw [hh] at ha
  exact c a ha

theorem propagateOne_allstate (o : FOps) (h h' : Handle) (g : Good h) (al : AllState h) (k : Nat) (a aHigh : Arch)
    (ha : h.archs[k]? = some a) (t : Nat) (gt : GridTime a t) (stored : Bool)
    (hp : propagateOne o h a aHigh t = .ok (h', stored)) : AllState h' ∧ Good h' ∧ h'.hdr = h.hdr := by
  obtain ⟨pts, _, h1, h2⟩ := Wsp.C02.propagateOne_spec o h h' a aHigh t stored hp
  cases stored with
  | false => obtain ⟨e, _⟩ := h1 rfl; subst e; exact ⟨al, g, rfl⟩
  | true =>
    obtain ⟨_, _, v, off, _, hg, hput⟩ := h2 rfl
    exact write_allstate h h' g al k a ha t v gt off hg hput

/-- the accumulator step of ⟦propagate⟧ -/
def nextAcc (aLow : Option Arch) (acc : List Nat) (t : Nat) (stored : Bool) : List Nat :=
  if stored then
    match aLow with
    | none => acc
    | some l =>
      let tLow := l.intervalForWrite t
      match acc with
      | last :: _ => if last = tLow then acc else tLow :: acc
      | [] => [tLow]
  else acc

theorem propagateLoop_cons (o : FOps) (h : Handle) (a aHigh : Arch) (aLow : Option Arch) (acc : List Nat) (t : Nat) (ts : List Nat) :
    propagateLoop o h a aHigh aLow acc (t :: ts) =
      match propagateOne o h a aHigh t with
      | .error e => .error e
      | .ok (h, stored) => propagateLoop o h a aHigh aLow (nextAcc aLow acc t stored) ts := rfl

theorem nextAcc_level (aLow : Option Arch) (acc : List Nat) (t : Nat) (stored : Bool) (L : Nat)
    (hlow : ∀ l, aLow = some l → 0 < l.step ∧ l.step ∣ (L : Int) ∧ l.step ≤ (L : Int))
    (ht : t < 2147483648 ∧ L ≤ t)
    (hacc : ∀ x ∈ acc, ∀ l, aLow = some l → LevelTime l L x) :
    ∀ x ∈ nextAcc aLow acc t stored, ∀ l, aLow = some l → LevelTime l L x := by
  intro x hx l hl
  unfold nextAcc at hx
  cases stored with
  | false => exact hacc x (by simpa using hx) l hl
  | true =>
    simp only [if_true] at hx
    subst hl
    simp only at hx
    obtain ⟨hl0, hl1, hl2⟩ := hlow l rfl
    have hnew : LevelTime l L (l.intervalForWrite t) := ifw_level l L t hl0 hl1 hl2 ht.1 ht.2
    cases acc with
    | nil => simp at hx; subst hx; exact hnew
    | cons last rest =>
      simp only at hx
      split at hx
      · exact hacc x hx l rfl
      · simp only [List.mem_cons] at hx
        rcases hx with rfl | hx
        · exact hnew
        · exact hacc x (by simpa using hx) l rfl

theorem propagateLoop_allstate (o : FOps) (k : Nat) (a aHigh : Arch) (aLow : Option Arch) (L : Nat) (ts : List Nat) :
    ∀ (h h' : Handle) (acc out : List Nat), Good h → AllState h → h.archs[k]? = some a →
      (∀ t ∈ ts, LevelTime a L t) →
      (∀ l, aLow = some l → 0 < l.step ∧ l.step ∣ (L : Int) ∧ l.step ≤ (L : Int)) →
      (∀ x ∈ acc, ∀ l, aLow = some l → LevelTime l L x) →
      propagateLoop o h a aHigh aLow acc ts = .ok (h', out) →
      AllState h' ∧ Good h' ∧ h'.hdr = h.hdr ∧ (∀ x ∈ out, ∀ l, aLow = some l → LevelTime l L x) := by
  induction ts with
  | nil =>
    intro h h' acc out g al _ _ _ hacc hp
    simp only [propagateLoop] at hp
    injection hp with hp; injection hp with e1 e2; subst e1 e2
    exact ⟨al, g, rfl, fun x hx => hacc x (by simpa using hx)⟩
  | cons t ts ih =>
    intro h h' acc out g al ha hts hlow hacc hp
    rw [propagateLoop_cons] at hp
    cases h1 : propagateOne o h a aHigh t with
    | error e => rw [h1] at hp; simp at hp
    | ok r =>
      obtain ⟨hm, stored⟩ := r
      rw [h1] at hp; simp only at hp
      have htt := hts t (by simp)
      obtain ⟨alm, gm, hh⟩ := propagateOne_allstate o h hm g al k a aHigh ha t htt.1 stored h1
      have ham : hm.archs[k]? = some a := by unfold Handle.archs at ha ⊢; rw [hh]; exact ha
      have hacc' := nextAcc_level aLow acc t stored L hlow ⟨htt.1.1, htt.2⟩ hacc
      obtain ⟨al', g', hh', hout⟩ := ih hm h' _ out gm alm ham (fun x hx => hts x (by simp [hx])) hlow hacc' hp
      exact ⟨al', g', hh'.trans hh, hout⟩

theorem propagate_allstate (o : FOps) (h h' : Handle) (g : Good h) (al : AllState h) (L : Nat) (c : Coarse h L)
    (k : Nat) (ts out : List Nat)
    (hts : ∀ a, h.archs[k]? = some a → ∀ t ∈ ts, LevelTime a L t)
    (hp : propagate o h k ts = .ok (h', out)) :
    AllState h' ∧ Good h' ∧ h'.hdr = h.hdr ∧ (∀ l, h.archs[k + 1]? = some l → ∀ x ∈ out, LevelTime l L x) := by
  unfold propagate at hp
  split at hp
  · injection hp with hp; injection hp with e1 e2; subst e1 e2
    exact ⟨al, g, rfl, fun _ _ x hx => by simp at hx⟩
  · split at hp
    · rename_i a aHigh ha _
      split at hp
      · simp at hp
      · obtain ⟨al', g', hh, hout⟩ := propagateLoop_allstate o k a aHigh h.archs[k + 1]? L ts h h' [] out g al ha
          (hts a ha)
          (fun l hl => by
            have := c l (mem_of_getElem? hl)
            exact ⟨this.2.2, this.1, this.2.1⟩)
          (by intro x hx; simp at hx) hp
        exact ⟨al', g', hh, fun l hl x hx => hout x hx l hl⟩
    · simp at hp

theorem propagateChainLoop_allstate (o : FOps) (L : Nat) (fuel : Nat) :
    ∀ (h h' : Handle) (low : Nat) (ts : List Nat), Good h → AllState h → Coarse h L →
      (∀ a, h.archs[low]? = some a → ∀ t ∈ ts, LevelTime a L t) →
      propagateChainLoop o fuel h low ts = .ok h' → AllState h' ∧ Good h' ∧ h'.hdr = h.hdr := by
  induction fuel with
  | zero =>
    intro h h' low ts g al _ _ hp
    simp only [propagateChainLoop] at hp
    injection hp with hp; subst hp; exact ⟨al, g, rfl⟩
  | succ fuel ih =>
    intro h h' low ts g al c hts hp
    simp only [propagateChainLoop] at hp
    split at hp
    · cases h1 : propagate o h low ts with
      | error e => simp [h1] at hp
      | ok r =>
        obtain ⟨hm, ts'⟩ := r
        simp only [h1] at hp
        obtain ⟨alm, gm, hh, hout⟩ := propagate_allstate o h hm g al L c low ts ts' hts h1
        have := ih hm h' (low + 1) ts' gm alm (c.of_hdr hh) (by
          intro a ha t ht
          have ha' : h.archs[low + 1]? = some a := by unfold Handle.archs at ha ⊢; rw [hh] at ha; exact ha
          exact hout a ha' t ht) hp
        exact ⟨this.1, this.2.1, this.2.2.trans hh⟩
    · injection hp with hp; subst hp; exact ⟨al, g, rfl⟩

theorem timesToPropagate_level (l : Arch) (L : Nat) (hs : 0 < l.step) (hd : l.step ∣ (L : Int)) (hle : l.step ≤ (L : Int)) :
    ∀ (ts acc : List Nat), (∀ t ∈ ts, t < 2147483648 ∧ L ≤ t) → (∀ x ∈ acc, LevelTime l L x) →
      ∀ x ∈ timesToPropagate l acc ts, LevelTime l L x := by
  intro ts
  induction ts with
  | nil => intro acc _ hacc x hx; simp only [timesToPropagate] at hx; exact hacc x (by simpa using hx)
  | cons t ts ih =>
    intro acc hts hacc x hx
    have ht := hts t (by simp)
    have hnew : LevelTime l L (l.intervalForWrite t) := ifw_level l L t hs hd hle ht.1 ht.2
    simp only [timesToPropagate] at hx
    cases acc with
    | nil =>
      simp only at hx
      exact ih _ (fun y hy => hts y (by simp [hy])) (by intro y hy; simp at hy; subst hy; exact hnew) x hx
    | cons last rest =>
      simp only at hx
      split at hx
      · exact ih _ (fun y hy => hts y (by simp [hy])) hacc x hx
      · refine ih _ (fun y hy => hts y (by simp [hy])) ?_ x hx
        intro y hy
        simp only [List.mem_cons] at hy
        rcases hy with rfl | hy
        · exact hnew
        · exact hacc y (by simpa using hy)

theorem propagateChain_allstate (o : FOps) (h h' : Handle) (g : Good h) (al : AllState h) (L : Nat) (c : Coarse h L)
    (k : Nat) (aligned : List Point) (hal : ∀ p ∈ aligned, p.t < 2147483648 ∧ L ≤ p.t)
    (hp : propagateChain o h k aligned = .ok h') : AllState h' ∧ Good h' ∧ h'.hdr = h.hdr := by
  unfold propagateChain at hp
  dsimp only at hp
  split at hp
  · injection hp with hp; subst hp; exact ⟨al, g, rfl⟩
  · rename_i aLow hlow
    have cl := c aLow (mem_of_getElem? hlow)
    apply propagateChainLoop_allstate o L _ h h' (k + 1) _ g al c ?_ hp
    intro a ha t ht
    rw [hlow] at ha; injection ha with ha; subst ha
    exact timesToPropagate_level aLow L cl.2.2 cl.1 cl.2.1 _ [] (by
      intro t' ht'
      simp only [List.mem_map] at ht'
      obtain ⟨p, hp', rfl⟩ := ht'
      exact hal p hp') (by intro x hx; simp at hx) t ht

/-! ### direct writes and whole updates keep the invariant -/

/-- ⟦archiveUpdateMany⟧ split into its direct writes and its propagation -/
theorem archiveUpdateMany_split (o : FOps) (h h' : Handle) (g : Good h) (k : Nat) (a : Arch) (ha : h.archs[k]? = some a)
    (st : ArchState h a) (ps : List Point) (hps : ∀ p ∈ ps, TimeOK a p.t)
    (hp : archiveUpdateMany o h ps k = .ok h') :
    ∃ base hm, putPoints h a base (alignPoints a ps) = .ok hm ∧
      propagateChain o hm k (alignPoints a ps) = .ok h' ∧
      Reach a h ((alignPoints a ps).map fun p => some (p.t, p.v)) hm := by
  have hs0 : 0 < a.step := by rcases st with fr | ⟨lv, _⟩; exact fr.hs; exact lv.hs
  have hal : ∀ d ∈ alignPoints a ps, d.t < 2147483648 ∧ a.step ∣ (d.t : Int) ∧ d.t ≠ 0 := by
    intro d hd
    obtain ⟨q, hq, e⟩ := alignPoints_times a (TimeOK a) ps hps d hd
    rw [e]; exact aligned_ok a hs0 q hq
  have hview : a.offset + 12 ≤ h.view.length := by
    rcases st with fr | ⟨lv, _⟩
    · have := fr.view; have := fr.hn; omega
    · have := lv.view; have := lv.hn; omega
  have hbI := baseInterval_slot h a hview
  unfold archiveUpdateMany at hp
  rw [ha] at hp
  simp only [hbI] at hp
  rcases st with fr | ⟨lv, albase⟩
  · have hb0 : (slotAt h a 0).t = 0 := fr.zero 0 fr.hn
    simp only [hb0, if_true] at hp
    cases hA : alignPoints a ps with
    | nil => rw [hA] at hp; simp at hp
    | cons d rest =>
      rw [hA] at hp
      simp only [List.head?_cons, Option.map_some] at hp
      cases hput : putPoints h a d.t (d :: rest) with
      | error e => rw [hput] at hp; simp at hp
      | ok hm =>
        rw [hput] at hp; simp only at hp
        have hd := hal d (by rw [hA]; simp)
        have r := putPoints_reach_fresh a d rest h hm fr ⟨hd.1, hd.2.2⟩ (by
          intro q hq
          have hq' := hal q (by rw [hA]; simp [hq])
          exact ⟨⟨hq'.1, Int.dvd_sub hq'.2.1 hd.2.1⟩, hq'.2.2⟩) hput
        exact ⟨d.t, hm, hput, hp, r⟩
  · have hb0 : ¬ (slotAt h a 0).t = 0 := lv.b0
    simp only [hb0, if_false] at hp
    cases hput : putPoints h a (slotAt h a 0).t (alignPoints a ps) with
    | error e => rw [hput] at hp; simp at hp
    | ok hm =>
      rw [hput] at hp; simp only at hp
      have r := putPoints_reach_live a (slotAt h a 0).t lv.blt (alignPoints a ps) h hm lv ⟨0, by omega⟩ (by
        intro q hq
        have hq' := hal q hq
        exact ⟨⟨hq'.1, Int.dvd_sub hq'.2.1 albase⟩, hq'.2.2⟩) hput
      exact ⟨_, hm, hput, hp, r⟩

/-- the batch write loop stays inside its archive: every other archive is left alone -/
theorem putPoints_others (h : Handle) (g : Good h) (k : Nat) (a : Arch) (ha : h.archs[k]? = some a) (base : Nat)
    (k' : Nat) (b : Arch) (hb : h.archs[k']? = some b) (hk : k' ≠ k) (pts : List Point)
    (hpt : ∀ p ∈ pts, p.t < 4294967296) :
    ∀ (h1 hm : Handle), h1.view.length = h.view.length → putPoints h1 a base pts = .ok hm →
      SameOn b h1 hm := by
  have pa := g.placed a (mem_of_getElem? ha)
  have hfit : a.offset + 12 * a.n ≤ 4294967295 := by have := pa.hi; have := pa.fits; omega
  have hdis := regions_disjoint h g k' k b a hk hb ha
  induction pts with
  | nil => intro h1 hm _ hp; simp only [putPoints] at hp; injection hp with hp; subst hp; exact SameOn.refl b h1
  | cons p rest ih =>
    intro h1 hm hlen hp
    simp only [putPoints] at hp
    cases hput : h1.putPointAt p (a.pointOffsetAt (a.pointIndex base p.t)) with
    | error e => rw [hput] at hp; simp at hp
    | ok h2 =>
      rw [hput] at hp; simp only at hp
      obtain ⟨r0, r1⟩ := pointIndex_range a pa.npos base p.t
      rw [pointOffsetAt_ideal a _ r0 r1 hfit] at hput
      obtain ⟨_, hold, _⟩ := putPointAt_slots h1 h2 p (hpt p (by simp)) a _ hput
      have s1 : SameOn b h1 h2 := by
        refine ⟨putPointAt_len h1 h2 _ _ hput, ?_⟩
        intro j hj
        apply hold b j
        rcases hdis with hd | hd
        · left; omega
        · right; omega
      have s2 := ih (fun q hq => hpt q (by simp [hq])) h2 hm (by rw [putPointAt_len h1 h2 _ _ hput]; exact hlen) hp
      exact s1.trans s2

theorem archiveUpdateMany_allstate (o : FOps) (h h' : Handle) (g : Good h) (al : AllState h) (L : Nat) (c : Coarse h L)
    (k : Nat) (a : Arch) (ha : h.archs[k]? = some a) (ps : List Point)
    (hps : ∀ p ∈ ps, p.t < 2147483648 ∧ L ≤ p.t)
    (hp : archiveUpdateMany o h ps k = .ok h') : AllState h' ∧ Good h' ∧ h'.hdr = h.hdr := by
  have ca := c a (mem_of_getElem? ha)
  have htok : ∀ p ∈ ps, TimeOK a p.t := fun p hp' => ⟨(hps p hp').1, by have := (hps p hp').2; omega⟩
  obtain ⟨base, hm, hput, hpc, r⟩ := archiveUpdateMany_split o h h' g k a ha (al k a ha) ps htok hp
  have pa := g.placed a (mem_of_getElem? ha)
  have f1 := putPoints_frame a pa base _ h hm hput
  have gm := g.of_frame f1
  -- aligned points: grid times of `a`, not before `L`
  have hal : ∀ d ∈ alignPoints a ps, LevelTime a L d.t := by
    intro d hd
    obtain ⟨q, hq, e⟩ := alignPoints_times a (fun t => t < 2147483648 ∧ L ≤ t) ps hps d hd
    rw [e]; exact ifw_level a L q ca.2.2 ca.1 ca.2.1 hq.1 hq.2
  have alm : AllState hm := by
    intro k' b hb
    have hb' : h.archs[k']? = some b := by unfold Handle.archs at hb ⊢; rw [f1.1] at hb; exact hb
    by_cases hk : k' = k
    · subst hk
      rw [ha] at hb'; injection hb' with hb'; subst hb'
      exact reach_state a _ h hm (al k' a ha) (by
        intro w hw
        simp only [writesOf, List.filterMap_map, List.mem_filterMap, Function.comp, id] at hw
        obtain ⟨d, hd, hdw⟩ := hw
        injection hdw with hdw; subst hdw
        exact (hal d hd).1) r
    · exact (al k' b hb').of_sameOn (putPoints_others h g k a ha base k' b hb' hk _
        (fun d hd => by have := (hal d hd).1.1; omega) h hm rfl hput)
  obtain ⟨al', g', hh⟩ := propagateChain_allstate o hm h' gm alm L (c.of_hdr f1.1) k _
    (fun d hd => ⟨(hal d hd).1.1, (hal d hd).2⟩) hpc
  exact ⟨al', g', hh.trans f1.1⟩

theorem updateManyLoop_allstate (o : FOps) (k : Int) (now : Nat) (L : Nat) (as : List Arch) :
    ∀ (h h' : Handle) (ps : List Point) (i : Nat), Good h → AllState h → Coarse h L → h.archs.drop i = as →
      (∀ p ∈ ps, p.t < 2147483648 ∧ L ≤ p.t) →
      updateManyLoop o k now h ps i as = .ok h' → AllState h' ∧ Good h' ∧ h'.hdr = h.hdr := by
  induction as with
  | nil =>
    intro h h' ps i g al _ _ _ hp
    simp only [updateManyLoop] at hp
    injection hp with hp; subst hp; exact ⟨al, g, rfl⟩
  | cons a as ih =>
    intro h h' ps i g al c hd hps hp
    have hi : i < h.archs.length := by
      have : (h.archs.drop i).length = (a :: as).length := by rw [hd]
      simp at this; omega
    have hd' : h.archs.drop (i + 1) = as := by
      have : h.archs.drop (i + 1) = (h.archs.drop i).drop 1 := by rw [List.drop_drop]
      rw [this, hd]; rfl
    have hai : h.archs[i]? = some a := by
      have : (h.archs.drop i)[0]? = some a := by rw [hd]; rfl
      rw [List.getElem?_drop] at this
      simpa using this
    simp only [updateManyLoop] at hp
    split at hp
    · exact ih h h' ps (i + 1) g al c hd' hps hp
    · have hsub : ∀ p ∈ (extractPoints ps now a.maxRetention).2, p.t < 2147483648 ∧ L ≤ p.t := by
        intro p hp'
        apply hps p
        unfold extractPoints at hp'
        dsimp only at hp'
        split at hp'
        · simp at hp'
        · simp only [List.mem_reverse] at hp'
          have := List.mem_of_mem_drop hp'
          simpa using this
      have hsub1 : ∀ p ∈ (extractPoints ps now a.maxRetention).1, p.t < 2147483648 ∧ L ≤ p.t := by
        intro p hp'
        apply hps p
        unfold extractPoints at hp'
        dsimp only at hp'
        split at hp'
        · exact hp'
        · simp only [List.mem_reverse] at hp'
          have := (List.takeWhile_sublist _).subset hp'
          simpa using this
      split at hp
      · exact ih h h' _ (i + 1) g al c hd' hsub hp
      · cases h1 : archiveUpdateMany o h (extractPoints ps now a.maxRetention).1 i with
        | error e => rw [h1] at hp; simp at hp
        | ok hm =>
          rw [h1] at hp; simp only at hp
          obtain ⟨alm, gm, hh⟩ := archiveUpdateMany_allstate o h hm g al L c i a hai _ hsub1 h1
          have hdm : hm.archs.drop (i + 1) = as := by unfold Handle.archs at hd' ⊢; rw [hh]; exact hd'
          obtain ⟨al', g', hh'⟩ := ih hm h' _ (i + 1) gm alm (c.of_hdr hh) hdm hsub hp
          exact ⟨al', g', hh'.trans hh⟩

/-- **a batch update keeps the invariant** -/
theorem updateMany_allstate (o : FOps) (h h' : Handle) (g : Good h) (al : AllState h) (L : Nat) (c : Coarse h L)
    (ps : List Point) (k : Int) (now : Nat) (hps : ∀ p ∈ ps, p.t < 2147483648 ∧ L ≤ p.t)
    (hp : h.updateMany o ps k now = .ok h') : AllState h' ∧ Good h' ∧ h'.hdr = h.hdr :=
  updateManyLoop_allstate o k now L h.archs h h' _ 0 g al c (by simp)
    (fun p hp' => hps p ((sortByTime_perm ps).mem_iff.1 hp')) hp

/-- a single update keeps the invariant -/
theorem updatePoint_allstate (o : FOps) (h h' : Handle) (g : Good h) (al : AllState h) (L : Nat) (c : Coarse h L)
    (k : Int) (t : Nat) (v : Val) (now : Nat) (ht : t < 2147483648 ∧ L ≤ t)
    (hp : h.updatePoint o k t v now = .ok h') : AllState h' ∧ Good h' ∧ h'.hdr = h.hdr := by
  unfold updatePoint at hp
  by_cases hc : t ≤ tsAdd now (- h.hdr.maxRet) ∨ now < t
  · simp [hc] at hp
  simp only [hc, if_false] at hp
  generalize (if k = -1 then ((h.findBestArchive t now : Nat) : Int) else k) = id at hp
  by_cases hneg : id < 0
  · simp [hneg] at hp
  simp only [hneg, if_false] at hp
  cases ha : h.archs[id.toNat]? with
  | none => simp [ha] at hp
  | some a =>
    simp only [ha] at hp
    cases hg : h.getPointOffset (a.intervalForWrite t) a with
    | error e => simp [hg] at hp
    | ok off =>
      simp only [hg] at hp
      cases hput : h.putPointAt ⟨a.intervalForWrite t, v⟩ off with
      | error e => simp [hput] at hp
      | ok hm =>
        simp only [hput] at hp
        have ca := c a (mem_of_getElem? ha)
        have lt := ifw_level a L t ca.2.2 ca.1 ca.2.1 ht.1 ht.2
        obtain ⟨alm, gm, hh⟩ := write_allstate h hm g al id.toNat a ha _ v lt.1 off hg hput
        obtain ⟨al', g', hh'⟩ := propagateChain_allstate o hm h' gm alm L (c.of_hdr hh) id.toNat _
          (by intro p hp'; simp at hp'; subst hp'; exact ⟨lt.1.1, lt.2⟩) hp
        exact ⟨al', g', hh'.trans hh⟩

/-- the coarsest step bounds every step and is a multiple of each -/
theorem wfFrom_coarse : ∀ (as : List Arch) (off : Nat), WFFrom off as → as ≠ [] →
    ∃ last, as.getLast? = some last ∧ ∀ a ∈ as, a.step ∣ last.step ∧ a.step ≤ last.step ∧ 0 < a.step := by
  intro as
  induction as with
  | nil => intro _ _ h; exact absurd rfl h
  | cons x rest ih =>
    intro off h _
    cases rest with
    | nil =>
      refine ⟨x, rfl, ?_⟩
      intro a ha
      simp at ha; subst ha
      exact ⟨⟨1, by omega⟩, by omega, h.1.1⟩
    | cons y r =>
      obtain ⟨okx, _, pair, htail⟩ := h
      obtain ⟨last, hl, hall⟩ := ih (off + 12 * x.n) htail (by simp)
      refine ⟨last, by simpa using hl, ?_⟩
      intro a ha
      simp only [List.mem_cons] at ha
      have hy := hall y (by simp)
      rcases ha with rfl | ha
      · have hxy : a.step ∣ y.step := Int.dvd_of_emod_eq_zero pair.2.1
        exact ⟨Int.dvd_trans hxy hy.1, by have := pair.1; omega, okx.1⟩
      · exact hall a (by simpa using ha)

theorem exists_coarse (h : Handle) (g : Good h) : ∃ L : Nat, Coarse h L ∧ L < 2147483648 := by
  obtain ⟨last, hl, hall⟩ := wfFrom_coarse _ _ g.wf.2.2 g.wf.1
  have hlm : last ∈ h.hdr.archives := List.mem_of_getLast? hl
  have hst := g.hdrOK.steps last hlm
  refine ⟨last.step.toNat, ?_, by omega⟩
  intro a ha
  have := hall a ha
  have e : ((last.step.toNat : Nat) : Int) = last.step := by omega
  rw [e]; exact this

/-- every archive of a created file is in the never-written state -/
theorem created_allstate (o : FOps) (agg : Nat) (xff : UInt32) (lay : List (Int × Nat)) (hl : LayInRange lay)
    (disk : Bytes) (h : Handle) (hc : createHandle o agg xff lay = .ok (disk, h)) : AllState h :=
  fun _ a ha => Or.inl (created_fresh o agg xff lay hl disk h hc a (mem_of_getElem? ha))

end Wsp.Inv
