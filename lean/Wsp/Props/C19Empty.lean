/-
  C19, empty items of a retention list: a list string with an empty item — a dangling comma,
  a leading comma, two commas in a row — is rejected, whatever stands around it.
-/
import Wsp.Props.C19List
namespace Wsp.C19
open Wsp

/-- what `splitAt1` returns splits the string at a `c` -/
theorem splitAt1_spec (c : Char) : ∀ (s a b : Str), splitAt1 c s = some (a, b) → s = a ++ c :: b := by
  intro s
  induction s with
  | nil => intro a b h; simp [splitAt1] at h
  | cons x xs ih =>
    intro a b h
    simp only [splitAt1] at h
    split at h
    · rename_i hx
      injection h with h; injection h with h1 h2
      subst h1; subst h2; rw [hx]; rfl
    · cases hs : splitAt1 c xs with
      | none => rw [hs] at h; simp at h
      | some p =>
        obtain ⟨a', b'⟩ := p
        rw [hs] at h
        simp only at h
        injection h with h; injection h with h1 h2
        subst h1; subst h2
        rw [ih a' b' hs]; rfl

/-- the empty string is no archive -/
theorem parseArchiveInfo_nil : parseArchiveInfo [] = none := by
  simp [parseArchiveInfo, splitAt1]

/-- splitting a string that ends in `c` at its first `c`: what follows is empty or still ends in `c` -/
theorem splitAt1_snoc (c : Char) : ∀ (s a rest : Str), splitAt1 c (s ++ [c]) = some (a, rest) →
    rest = [] ∨ ∃ r', rest = r' ++ [c] := by
  intro s
  induction s with
  | nil =>
    intro a rest h
    simp [splitAt1] at h
    exact Or.inl h.2
  | cons x xs ih =>
    intro a rest h
    simp only [List.cons_append, splitAt1] at h
    split at h
    · injection h with h; injection h with _ h2
      exact Or.inr ⟨xs, h2.symm⟩
    · cases hs : splitAt1 c (xs ++ [c]) with
      | none => rw [hs] at h; simp at h
      | some p =>
        obtain ⟨a', b'⟩ := p
        rw [hs] at h
        simp only at h
        injection h with h; injection h with _ h2
        subst h2
        exact ih a' b' hs

theorem splitAt1_snoc_some (c : Char) : ∀ (s : Str), splitAt1 c (s ++ [c]) ≠ none := by
  intro s
  induction s with
  | nil => simp [splitAt1]
  | cons x xs ih =>
    simp only [List.cons_append, splitAt1]
    split
    · simp
    · cases h' : splitAt1 c (xs ++ [c]) with
      | none => exact absurd h' ih
      | some p => simp

/-- **a dangling comma is rejected**: no list string ending in a comma parses -/
theorem loop_rejects_trailing_comma : ∀ (fuel : Nat) (s : Str), parseArchiveInfosLoop fuel (s ++ [',']) = none := by
  intro fuel
  induction fuel with
  | zero => intro s; rfl
  | succ n ih =>
    intro s
    simp only [parseArchiveInfosLoop]
    cases hsp : splitAt1 ',' (s ++ [',']) with
    | none => exact absurd hsp (splitAt1_snoc_some ',' s)
    | some p =>
      obtain ⟨a, rest⟩ := p
      simp only
      cases hpa : parseArchiveInfo a with
      | none => rfl
      | some ai =>
        simp only
        rcases splitAt1_snoc ',' s a rest hsp with h0 | ⟨r', hr'⟩
        · rw [h0]; rfl
        · by_cases hr : rest.length = 0
          · rw [if_pos hr]
          · rw [if_neg hr, hr', ih r']; rfl

/-- **a retention list with a dangling comma is rejected** -/
theorem rejects_trailing_comma (s : Str) : parseArchiveInfoList (s ++ [',']) = none := by
  unfold parseArchiveInfoList
  split
  · rfl
  · rw [loop_rejects_trailing_comma]

/-- the first item of a list is never empty: a leading comma is rejected -/
theorem rejects_leading_comma (s : Str) : parseArchiveInfoList (',' :: s) = none := by
  unfold parseArchiveInfoList
  split
  · rfl
  · simp only [parseArchiveInfosLoop, splitAt1, if_true, parseArchiveInfo_nil]

/-- a string has no `c`, or splits at its first `c` -/
theorem first_occurrence (c : Char) : ∀ (s : Str), (∀ x ∈ s, x ≠ c) ∨
    ∃ a b, s = a ++ c :: b ∧ ∀ x ∈ a, x ≠ c := by
  intro s
  induction s with
  | nil => left; intro x hx; simp at hx
  | cons y ys ih =>
    by_cases hy : y = c
    · right; exact ⟨[], ys, by rw [hy]; rfl, by intro x hx; simp at hx⟩
    · rcases ih with h | ⟨a, b, e, ha⟩
      · left; intro x hx
        simp only [List.mem_cons] at hx
        rcases hx with rfl | hx
        · exact hy
        · exact h x hx
      · right
        refine ⟨y :: a, b, by rw [e]; rfl, ?_⟩
        intro x hx
        simp only [List.mem_cons] at hx
        rcases hx with rfl | hx
        · exact hy
        · exact ha x hx

/-- **two commas in a row are rejected**, wherever they stand -/
theorem loop_rejects_double_comma : ∀ (fuel : Nat) (a b : Str),
    parseArchiveInfosLoop fuel (a ++ ',' :: ',' :: b) = none := by
  intro fuel
  induction fuel with
  | zero => intro a b; rfl
  | succ n ih =>
    intro a b
    rcases first_occurrence ',' a with hfree | ⟨a1, a2, e, hfree⟩
    · -- the first comma of the string is the first of the pair
      simp only [parseArchiveInfosLoop]
      rw [splitAt1_found ',' a (',' :: b) hfree]
      simp only
      cases parseArchiveInfo a with
      | none => rfl
      | some ai =>
        simp only
        rw [if_neg (by simp)]
        cases n with
        | zero => rfl
        | succ m =>
          simp only [parseArchiveInfosLoop, splitAt1, if_true, parseArchiveInfo_nil]
          rfl
    · -- an earlier comma: the pair is in what follows it
      simp only [parseArchiveInfosLoop]
      have e' : a ++ ',' :: ',' :: b = a1 ++ ',' :: (a2 ++ ',' :: ',' :: b) := by
        rw [e]; simp
      rw [e', splitAt1_found ',' a1 _ hfree]
      simp only
      cases parseArchiveInfo a1 with
      | none => rfl
      | some ai =>
        simp only
        rw [if_neg (by simp), ih a2 b]
        rfl

theorem rejects_double_comma (a b : Str) : parseArchiveInfoList (a ++ ',' :: ',' :: b) = none := by
  unfold parseArchiveInfoList
  split
  · rfl
  · rw [loop_rejects_double_comma]

end Wsp.C19
