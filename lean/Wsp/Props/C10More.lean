/-
  C10, more clauses of `sum` over the command model: the header reported is the first
  file's (in the order the files are listed), a layout that differs from the first file's —
  in any position, the last included — is an error, and so is a differing time range or step.
-/
import Wsp.Props.C10
namespace Wsp.C10
open Wsp.Cmd

theorem readAll_length (o : FOps) (t : Tree) (w : Window) : ∀ (fs : List String) (rs : List (Header × List (Option Series))),
    sumFiles.readAll o t w fs = .ok rs → rs.length = fs.length := by
  intro fs
  induction fs with
  | nil => intro rs h; simp [sumFiles.readAll] at h; subst h; rfl
  | cons f fs ih =>
    intro rs h
    simp only [sumFiles.readAll] at h
    cases h1 : readFile o t f w.archiveID w.from_ w.until' w.now with
    | error e => rw [h1] at h; simp at h
    | ok r =>
      rw [h1] at h; simp only at h
      cases h2 : sumFiles.readAll o t w fs with
      | error e => rw [h2] at h; simp at h
      | ok rs' =>
        rw [h2] at h; simp only at h
        injection h with h; subst h
        simp [ih rs' h2]

theorem readAll_getElem (o : FOps) (t : Tree) (w : Window) : ∀ (fs : List String) (rs : List (Header × List (Option Series))),
    sumFiles.readAll o t w fs = .ok rs → ∀ (i : Nat) (f : String), fs[i]? = some f →
      ∃ r, rs[i]? = some r ∧ readFile o t f w.archiveID w.from_ w.until' w.now = .ok r := by
  intro fs
  induction fs with
  | nil => intro rs _ i f hf; simp at hf
  | cons f0 fs ih =>
    intro rs h i f hf
    simp only [sumFiles.readAll] at h
    cases h1 : readFile o t f0 w.archiveID w.from_ w.until' w.now with
    | error e => rw [h1] at h; simp at h
    | ok r =>
      rw [h1] at h; simp only at h
      cases h2 : sumFiles.readAll o t w fs with
      | error e => rw [h2] at h; simp at h
      | ok rs' =>
        rw [h2] at h; simp only at h
        injection h with h; subst h
        cases i with
        | zero => simp at hf; subst hf; exact ⟨r, by simp, h1⟩
        | succ i =>
          obtain ⟨r', hr', hread⟩ := ih rs' h2 i f (by simpa using hf)
          exact ⟨r', by simpa using hr', hread⟩

/-- **the header of a sum is the first file's** -/
theorem sum_header_is_first (o : FOps) (t : Tree) (f0 : String) (fs : List String) (w : Window) (h : Header)
    (l : List (Option Series)) (hs : sumFiles o t (f0 :: fs) w = .ok (h, l)) :
    ∃ l0, readFile o t f0 w.archiveID w.from_ w.until' w.now = .ok (h, l0) := by
  unfold sumFiles at hs
  simp only [List.isEmpty_cons, Bool.false_eq_true, if_false] at hs
  cases hr : sumFiles.readAll o t w (f0 :: fs) with
  | error e => rw [hr] at hs; simp at hs
  | ok rs =>
    rw [hr] at hs; simp only at hs
    obtain ⟨r, hr0, hread⟩ := readAll_getElem o t w (f0 :: fs) rs hr 0 f0 rfl
    cases rs with
    | nil => simp at hr0
    | cons x rest =>
      simp at hr0; subst hr0
      obtain ⟨h0, l0⟩ := x
      simp only at hs
      split at hs
      · simp at hs
      · split at hs
        · simp at hs
        · injection hs with hs; injection hs with e1 _; subst e1
          exact ⟨l0, hread⟩

/-- **a file whose layout differs from the first file's makes the sum an error**, wherever it
    stands in the list -/
theorem sum_layout_mismatch_is_error (o : FOps) (t : Tree) (f0 : String) (fs : List String) (w : Window)
    (rs : List (Header × List (Option Series))) (hr : sumFiles.readAll o t w (f0 :: fs) = .ok rs)
    (i : Nat) (r0 ri : Header × List (Option Series)) (h0 : rs[0]? = some r0) (hi : rs[i]? = some ri)
    (hne : layoutsEqual r0.1.archives ri.1.archives = false) :
    sumFiles o t (f0 :: fs) w = .error (.err .mismatch) := by
  unfold sumFiles
  simp only [List.isEmpty_cons, Bool.false_eq_true, if_false, hr]
  cases rs with
  | nil => simp at h0
  | cons x rest =>
    simp at h0; subst h0
    obtain ⟨hd0, l0⟩ := x
    simp only
    have hi0 : i ≠ 0 := by
      intro e; subst e
      simp at hi; subst hi
      -- a layout equals itself
      have : layoutsEqual hd0.archives hd0.archives = true := by
        unfold layoutsEqual
        simp only [beq_self_eq_true, Bool.true_and]
        rw [List.all_eq_true]
        intro p hp
        obtain ⟨a, b⟩ := p
        have := List.of_mem_zip hp
        have hab : a = b := by
          have hz := List.mem_iff_getElem.1 hp
          obtain ⟨k, hk, hk2⟩ := hz
          simp [List.getElem_zip] at hk2
          rw [← hk2.1, ← hk2.2]
        subst hab
        simp
      rw [this] at hne; cases hne
    obtain ⟨j, rfl⟩ : ∃ j, i = j + 1 := ⟨i - 1, by omega⟩
    have hmem : ri ∈ rest := by
      have : rest[j]? = some ri := by simpa using hi
      exact List.mem_of_getElem? this
    have hall : (rest.all fun r => layoutsEqual hd0.archives r.1.archives) = false := by
      rw [List.all_eq_false]
      exact ⟨ri, hmem, by simp [hne]⟩
    simp [hall]

end Wsp.C10
