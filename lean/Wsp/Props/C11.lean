/-
  C11  sum-copy stores the sum; sum-diff agrees with it.

  `sumCopy` is the copy core (always in NaN mode) applied to the series `sum` computes,
  and `sumDiff` is the diff core applied to them: so everything proved of the copy core
  (C08) and of diff (C09) transfers, with the sum of C10 as the source.  A missing
  destination or source is a reported difference (repaired).  Partial: "after sum-copy the
  destination holds exactly the sum" shares `dest_equals_source` with C08 and is asserted
  on the real code (sum-diff right after a successful sum-copy over the same window is clean).
-/
import Wsp.Props.C08
import Wsp.Props.C10
namespace Wsp.C11
open Wsp.Cmd

/-- sum-copy is copy with the sum as its source, never skipping NaN -/
theorem sum_copy_is_copy_of_sum (o : FOps) (t : Tree) (files : List String) (dst : String)
    (c : CopyOpts) (w : Window) (t' : Tree) (hd : Handle) (hs : Header) (ls : List (Option Series))
    (ho : openOrCreate o t dst c = .ok (t', hd)) (hsum : sumFiles o t' files w = .ok (hs, ls)) :
    sumCopy o t files dst c w = copyCore o t' dst hd hs.archives ls w false := by
  unfold sumCopy
  simp only [ho, hsum]

/-- the source files are never modified by sum-copy -/
theorem sources_untouched (o : FOps) (t : Tree) (files : List String) (dst q : String)
    (c : CopyOpts) (w : Window) (hq : q ≠ dst) : (sumCopy o t files dst c w).1.get q = t.get q := by
  unfold sumCopy
  cases ho : openOrCreate o t dst c with
  | error e => rfl
  | ok r =>
    obtain ⟨t', hd⟩ := r
    have h1 := C08.openOrCreate_other o t t' dst q c hd ho hq
    simp only
    split
    · exact h1
    · rw [C08.copyCore_other o t' dst q hd _ _ w _ hq]; exact h1

/-- sum-diff: a missing destination (or nothing to sum) is a reported difference -/
theorem sum_diff_missing_is_difference (o : FOps) (t : Tree) (files : List String) (dst : String) (w : Window)
    (hm : t.get dst = none) : (sumDiff o t files dst w).1 = .diffFound := by
  unfold sumDiff
  have hd : readFile o t dst w.archiveID w.from_ w.until' w.now = .error (.err .notExist) := by
    simp [readFile, hm]
  rw [hd]
  cases sumFiles o t files w with
  | ok r => rfl
  | error e =>
    cases e with
    | err k => cases k <;> rfl
    | panic w => rfl
    | wantLarger n => rfl

/-- sum-diff is clean exactly when no slot of the destination deviates from the sum
    (equal layouts): the verdict is `diffLists` of the sum against the destination -/
theorem sum_diff_found_iff (o : FOps) (t : Tree) (files : List String) (dst : String) (w : Window)
    (hs : Header) (ls : List (Option Series)) (hd : Header) (ld : List (Option Series))
    (h1 : sumFiles o t files w = .ok (hs, ls))
    (h2 : readFile o t dst w.archiveID w.from_ w.until' w.now = .ok (hd, ld))
    (hl : layoutsEqual hs.archives hd.archives = true) :
    (sumDiff o t files dst w).1 =
      if allEmpty (diffLists o false ls ld).1 && allEmpty (diffLists o false ls ld).2 then .ok else .diffFound := by
  unfold sumDiff
  simp only [h1, h2, hl, Bool.not_true, Bool.false_eq_true, if_false]
  split <;> rfl

end Wsp.C11
