/-
  Locality of an accepted single update to *any* archive id a caller may pass ("best" or a
  named archive): the direct write changes at most the slot of the aligned interval in the
  archive written, the chain at most one slot per archive behind it, nothing else anywhere.
  (`updatePoint_local` is the case of "best" routing.)
-/
import Wsp.Props.C02LocalUpd
namespace Wsp.C02S
open Wsp.Handle Wsp.C14 Wsp.Total Wsp.C01 Wsp.C08 Wsp.Inv

/-- the archive a single update writes: "best", or the one named -/
def routed (h : Handle) (k : Int) (t now : Nat) : Nat :=
  if k = -1 then h.findBestArchive t now else k.toNat

/-- an accepted single update, whatever the id: the direct write to the routed archive, then
    the chain from there -/
theorem single_route_any (o : FOps) (h h' : Handle) (k : Int) (t : Nat) (v : Val) (now : Nat)
    (hok : h.updatePoint o k t v now = .ok h') :
    ∃ a off hm, h.archs[routed h k t now]? = some a ∧
      h.getPointOffset (a.intervalForWrite t) a = .ok off ∧
      h.putPointAt ⟨a.intervalForWrite t, v⟩ off = .ok hm ∧
      propagateChain o hm (routed h k t now) [⟨a.intervalForWrite t, v⟩] = .ok h' := by
  unfold updatePoint at hok
  by_cases hc : t ≤ tsAdd now (- h.hdr.maxRet) ∨ now < t
  · simp [hc] at hok
  simp only [hc, if_false] at hok
  have hid : (if k = -1 then ((h.findBestArchive t now : Nat) : Int) else k).toNat = routed h k t now := by
    unfold routed
    by_cases hk : k = -1
    · simp [hk]
    · simp [hk]
  by_cases hneg : (if k = -1 then ((h.findBestArchive t now : Nat) : Int) else k) < 0
  · simp [hneg] at hok
  simp only [hneg, if_false, hid] at hok
  cases ha : h.archs[routed h k t now]? with
  | none => simp [ha] at hok
  | some a =>
    simp only [ha] at hok
    cases hg : h.getPointOffset (a.intervalForWrite t) a with
    | error e => simp [hg] at hok
    | ok off =>
      simp only [hg] at hok
      cases hput : h.putPointAt ⟨a.intervalForWrite t, v⟩ off with
      | error e => simp [hput] at hok
      | ok hm =>
        simp only [hput] at hok
        exact ⟨a, off, hm, rfl, hg, hput, hok⟩

/-- the direct write to archive `k` followed by its chain: what may change -/
theorem write_then_chain_local (o : FOps) (h hm h' : Handle) (g : Good h) (k : Nat) (a : Arch)
    (t : Nat) (v : Val) (off : Nat) (ha : h.archs[k]? = some a)
    (hg : h.getPointOffset (a.intervalForWrite t) a = .ok off)
    (hput : h.putPointAt ⟨a.intervalForWrite t, v⟩ off = .ok hm)
    (hch : propagateChain o hm k [⟨a.intervalForWrite t, v⟩] = .ok h') :
    ∀ (m : Nat) (b : Arch) (j : Nat), h.archs[m]? = some b → j < b.n →
      slotAt h' b j ≠ slotAt h b j →
      k ≤ m ∧
      (m = k → (slotAt h' b j).t = a.intervalForWrite t) ∧
      (k < m → ∃ l, h.archs[k + 1]? = some l ∧
        (slotAt h' b j).t = chainTime h.archs (k + 1)
          (l.intervalForWrite (a.intervalForWrite t)) h.archs.length m) := by
  have pa := g.placed a (mem_of_getElem? ha)
  have hfit : a.offset + 12 * a.n ≤ 4294967295 := by have := pa.hi; have := pa.fits; omega
  cases hb : h.baseInterval a with
  | error e => unfold getPointOffset at hg; simp [hb] at hg
  | ok base =>
    obtain ⟨_, hi, hs, hfr⟩ := C01.write_lands h hm a (a.intervalForWrite t) v base off
      (intervalForWrite_lt a t) pa.npos hfit hb hg hput
    have fr := putPointAt_frame (16 + 12 * h.hdr.archives.length) h hm _ off
      (getPointOffset_range h a pa _ off hg).1 hput
    have gm : Good hm := g.of_frame fr
    have earch : hm.archs = h.archs := by unfold Handle.archs; rw [fr.1]
    obtain ⟨_, hloc⟩ := propagateChain_single_local o hm h' k ⟨a.intervalForWrite t, v⟩ gm hch
    intro m b j hmb hj hne
    have hmb1 : hm.archs[m]? = some b := by rw [earch]; exact hmb
    by_cases hc : slotAt h' b j = slotAt hm b j
    · have hne1 : slotAt hm b j ≠ slotAt h b j := by rw [← hc]; exact hne
      have hov : ¬ (b.offset + 12 * j + 12 ≤ a.offset + 12 * (if base = 0 then 0 else slotIdx a base (a.intervalForWrite t)) ∨
          a.offset + 12 * (if base = 0 then 0 else slotIdx a base (a.intervalForWrite t)) + 12 ≤ b.offset + 12 * j) :=
        fun hd => hne1 (hfr b j hd)
      by_cases hmk : m = k
      · subst hmk
        have hba : b = a := by rw [ha] at hmb; injection hmb with hmb; exact hmb.symm
        subst hba
        have hj' : j = (if base = 0 then 0 else slotIdx b base (b.intervalForWrite t)) := by omega
        refine ⟨Nat.le_refl _, fun _ => ?_, fun hlt => absurd hlt (Nat.lt_irrefl _)⟩
        rw [hc, hj', hs]
      · exfalso
        have := regions_disjoint h g m k b a hmk hmb ha
        omega
    · obtain ⟨hkm, l, hl, hts⟩ := hloc m b j hmb1 hj hc
      refine ⟨by omega, fun hmk => by omega, fun _ => ⟨l, by rw [← earch]; exact hl, ?_⟩⟩
      rw [hts, earch]

/-- **locality of an accepted single update, for every archive id** -/
theorem updatePoint_local_any (o : FOps) (h h' : Handle) (g : Good h) (k : Int) (t : Nat) (v : Val) (now : Nat)
    (hok : h.updatePoint o k t v now = .ok h') :
    ∃ a, h.archs[routed h k t now]? = some a ∧
    ∀ (m : Nat) (b : Arch) (j : Nat), h.archs[m]? = some b → j < b.n →
      slotAt h' b j ≠ slotAt h b j →
      routed h k t now ≤ m ∧
      (m = routed h k t now → (slotAt h' b j).t = a.intervalForWrite t) ∧
      (routed h k t now < m → ∃ l, h.archs[routed h k t now + 1]? = some l ∧
        (slotAt h' b j).t = chainTime h.archs (routed h k t now + 1)
          (l.intervalForWrite (a.intervalForWrite t)) h.archs.length m) := by
  obtain ⟨a, off, hm, ha, hg, hput, hch⟩ := single_route_any o h h' k t v now hok
  exact ⟨a, ha, write_then_chain_local o h hm h' g _ a t v off ha hg hput hch⟩

end Wsp.C02S
