/-
  C18, the ring clause: every known (non-NaN) value a fetch shows is a raw slot of that
  archive, stamped with exactly the time the view prints for it — so `view` never shows a
  point that `view-raw` over the same archive does not list.
-/
import Wsp.Props.C01
import Wsp.Props.C18
namespace Wsp.C18
open Wsp.Handle Wsp.C14 Wsp.C01

/-- ⟦GetRawPoints⟧ of an archive in the list returns all its slots, in slot order -/
theorem raw_is_all_slots (h : Handle) (k : Nat) (a : Arch) (ha : h.archs[k]? = some a)
    (hsz : a.offset + 12 * a.n ≤ h.view.length) :
    h.rawPoints (k : Int) = .ok ((List.range a.n).map (slotAt h a)) := by
  unfold rawPoints
  have : ¬ ((k : Int) < 0) := by omega
  simp only [this, if_false, Int.toNat_natCast, ha]
  exact readPoints_slots h a (List.range a.n) (by
    intro i hi
    simp only [List.mem_range] at hi
    omega)

/-- **view ⊆ view-raw**: inside the zone, each non-NaN value of the fetched series, together
    with the time the series assigns to its position, is one of the archive's raw slots -/
theorem view_subset_raw (h : Handle) (p : FetchPlan) (base : Nat)
    (z : RingZone p.a base p.fromI p.untilI)
    (hbase : h.baseInterval p.a = .ok base) (hb0 : base ≠ 0)
    (hsz : p.a.offset + 12 * p.a.n ≤ h.view.length) (hfit : p.a.offset + 12 * p.a.n ≤ 4294967295)
    (s : Series) (hs : h.fetchExec p = .ok s) :
    ∀ i (hi : i < s.values.length), s.values[i] ≠ nanBits →
      (⟨p.fromI + p.a.step.toNat * i, s.values[i]⟩ : Point) ∈ (List.range p.a.n).map (slotAt h p.a) := by
  rw [fetch_refines_ring h p base z hbase hb0 hsz hfit] at hs
  injection hs with hs
  subst hs
  intro i hi hv
  simp only [List.length_map, List.length_range] at hi
  simp only [List.getElem_map, List.getElem_range] at hv ⊢
  obtain ⟨ht, hval⟩ := no_foreign_value h p.a base _ hv
  have hlt : slotIdx p.a base (p.fromI + p.a.step.toNat * i) < p.a.n := by
    have := pointIndex_range p.a z.hn base (p.fromI + p.a.step.toNat * i)
    unfold slotIdx; omega
  refine List.mem_map.mpr ⟨slotIdx p.a base (p.fromI + p.a.step.toNat * i), List.mem_range.mpr hlt, ?_⟩
  rw [hval]
  cases hsl : slotAt h p.a (slotIdx p.a base (p.fromI + p.a.step.toNat * i)) with
  | mk t v =>
    rw [hsl] at ht
    simp only at ht
    subst ht
    rfl

end Wsp.C18
