/-
  No spurious failure, for the file/handle state machine: once a file has been created and
  synced, any sequence of Sync, abandoning the handle, reopening, and single or batch updates
  that the retention rule accepts (times inside the zone) goes through without a single
  error — each operation answers `ok`, or `no handle` right after the handle was abandoned.
  Reopening always succeeds: the disk always holds the view of a handle that satisfies the
  invariant and starts with the encoding of its own header.
-/
import Wsp.Props.C03Success
import Wsp.Props.Reopen
namespace Wsp.C03S
open Wsp.Handle Wsp.C14 Wsp.Total Wsp.C01 Wsp.Inv Wsp.Reopen

/-- what holds of a handle of the file with header `hdr` -/
def HOK (o : FOps) (hdr : Header) (h : Handle) : Prop :=
  Good h ∧ AllState h ∧ Reopenable o h ∧ h.hdr = hdr

/-- the state of the world: a disk image that is the view of a good handle; a live handle, if
    any, that is good -/
def WOK (o : FOps) (hdr : Header) (w : World) : Prop :=
  (∃ h0, w.disk = some h0.view ∧ HOK o hdr h0) ∧ ∀ h, w.h = some h → HOK o hdr h

/-- the operations considered, with the updates the retention rule accepts -/
def WOp (hdr : Header) (L T : Nat) : LibOp → Prop
  | .sync => True
  | .drop => True
  | .open_ => True
  | .upd k t v now => Accepted hdr L T (.single ⟨k, t, v, now⟩)
  | .updMany _ _ pts => ∀ p ∈ pts, p.t < 2147483648 ∧ L ≤ p.t ∧ p.t ≤ T
  | _ => False

theorem coarse_of_hdr {h : Handle} {hdr : Header} {L : Nat} (e : h.hdr = hdr)
    (c : ∀ a ∈ hdr.archives, a.step ∣ (L : Int) ∧ a.step ≤ (L : Int) ∧ 0 < a.step) : Coarse h L := by
  intro a ha
  unfold Handle.archs at ha
  rw [e] at ha
  exact c a ha

/-- **one step**: the invariant is kept and the answer is `ok` or `no handle` -/
theorem step_ok (o : FOps) (hdr : Header) (L T : Nat)
    (c : ∀ a ∈ hdr.archives, a.step ∣ (L : Int) ∧ a.step ≤ (L : Int) ∧ 0 < a.step)
    (hT : ∀ a ∈ hdr.archives, (T : Int) + a.step < 2147483648)
    (w : World) (hw : WOK o hdr w) (op : LibOp) (hop : WOp hdr L T op) :
    WOK o hdr (w.step o op).1 ∧ ((w.step o op).2 = .ok ∨ ((w.step o op).2 = .noHandle ∧ w.h = none)) := by
  obtain ⟨⟨h0, hd, k0⟩, hlive⟩ := hw
  cases op with
  | create lay agg xff => exact absurd hop id
  | createOver lay agg xff => exact absurd hop id
  | setDisk b => exact absurd hop id
  | rmDisk => exact absurd hop id
  | open_ =>
    simp only [World.step, hd]
    rw [open_reopenable o h0 k0.2.2.1]
    refine ⟨⟨⟨h0, rfl, k0⟩, ?_⟩, Or.inl rfl⟩
    intro h hh
    simp at hh
    subst hh
    exact k0
  | sync =>
    simp only [World.step]
    cases hh : w.h with
    | none => exact ⟨⟨⟨h0, hd, k0⟩, by intro h h2; rw [hh] at h2; cases h2⟩, Or.inr ⟨rfl, rfl⟩⟩
    | some h =>
      have kh := hlive h hh
      refine ⟨⟨⟨h, rfl, kh⟩, ?_⟩, Or.inl rfl⟩
      intro h' h2
      simp at h2
      subst h2
      exact kh
  | drop =>
    simp only [World.step]
    exact ⟨⟨⟨h0, hd, k0⟩, by intro h hh; simp at hh⟩, Or.inl trivial⟩
  | upd k t v now =>
    simp only [World.step]
    cases hh : w.h with
    | none => exact ⟨⟨⟨h0, hd, k0⟩, by intro h h2; rw [hh] at h2; cases h2⟩, Or.inr ⟨rfl, rfl⟩⟩
    | some h =>
      obtain ⟨g, al, r, e⟩ := hlive h hh
      simp only
      have co := coarse_of_hdr (L := L) e c
      have hT' : ∀ a ∈ h.archs, (T : Int) + a.step < 2147483648 := by
        intro a ha; unfold Handle.archs at ha; rw [e] at ha; exact hT a ha
      obtain ⟨hid, hacc, ht⟩ := hop
      have hid' : IdOK h k := by
        unfold IdOK Handle.archs; rw [e]; exact hid
      obtain ⟨h', hu⟩ := updatePoint_ok o h g al L T co hT' k hid' t v now (by rw [e]; exact hacc) ht
      rw [hu]
      simp only
      obtain ⟨al', g', hh'⟩ := updatePoint_allstate o h h' g al L co k t v now ⟨ht.1, ht.2.1⟩ hu
      have f := updatePoint_frame o h h' g.placed k t v now hu
      refine ⟨⟨⟨h0, hd, k0⟩, ?_⟩, Or.inl trivial⟩
      intro h2 e2
      simp at e2
      subst e2
      exact ⟨g', al', r.of_frame f, hh'.trans e⟩
  | updMany k now pts =>
    simp only [World.step]
    cases hh : w.h with
    | none => exact ⟨⟨⟨h0, hd, k0⟩, by intro h h2; rw [hh] at h2; cases h2⟩, Or.inr ⟨rfl, rfl⟩⟩
    | some h =>
      obtain ⟨g, al, r, e⟩ := hlive h hh
      simp only
      have co := coarse_of_hdr (L := L) e c
      have hT' : ∀ a ∈ h.archs, (T : Int) + a.step < 2147483648 := by
        intro a ha; unfold Handle.archs at ha; rw [e] at ha; exact hT a ha
      obtain ⟨h', hu⟩ := updateMany_ok o h g al L T co hT' pts k now hop
      rw [hu]
      simp only
      obtain ⟨al', g', hh'⟩ := updateMany_allstate o h h' g al L co pts k now
        (fun p hp => ⟨(hop p hp).1, (hop p hp).2.1⟩) hu
      have f := updateMany_frame o h h' g.placed pts k now hu
      refine ⟨⟨⟨h0, hd, k0⟩, ?_⟩, Or.inl trivial⟩
      intro h2 e2
      simp at e2
      subst e2
      exact ⟨g', al', r.of_frame f, hh'.trans e⟩

/-- the answers of a run, operation by operation -/
def answers (o : FOps) : World → List LibOp → List OpObs
  | _, [] => []
  | w, op :: ops => (w.step o op).2 :: answers o (w.step o op).1 ops

/-- **no spurious failure, any history of the state machine**: from a state in which the disk
    holds a synced good file, every operation of every history of Sync / abandon / reopen /
    accepted updates answers `ok` or `no handle` — never a fault, never not-exist -/
theorem run_ok (o : FOps) (hdr : Header) (L T : Nat)
    (c : ∀ a ∈ hdr.archives, a.step ∣ (L : Int) ∧ a.step ≤ (L : Int) ∧ 0 < a.step)
    (hT : ∀ a ∈ hdr.archives, (T : Int) + a.step < 2147483648) :
    ∀ (ops : List LibOp) (w : World), WOK o hdr w → (∀ op ∈ ops, WOp hdr L T op) →
      ∀ r ∈ answers o w ops, r = .ok ∨ r = .noHandle := by
  intro ops
  induction ops with
  | nil => intro w _ _ r hr; simp [answers] at hr
  | cons op ops ih =>
    intro w hw hops r hr
    obtain ⟨hw', hres⟩ := step_ok o hdr L T c hT w hw op (hops op (by simp))
    simp only [answers, List.mem_cons] at hr
    rcases hr with rfl | hr
    · rcases hres with h1 | ⟨h1, _⟩
      · exact Or.inl h1
      · exact Or.inr h1
    · exact ih _ hw' (fun op' h' => hops op' (List.mem_cons_of_mem _ h')) r hr

/-- a file that was created and synced is such a state -/
theorem created_synced_wok (o : FOps) (agg : Nat) (xff : UInt32) (lay : List (Int × Nat)) (hl : LayInRange lay)
    (disk : Bytes) (h : Handle) (hc : createHandle o agg xff lay = .ok (disk, h)) :
    WOK o h.hdr ⟨some h.view, some h⟩ := by
  have k : HOK o h.hdr h := ⟨create_good o agg xff lay hl disk h hc, created_allstate o agg xff lay hl disk h hc,
    created_reopenable o agg xff lay hl disk h hc, rfl⟩
  refine ⟨⟨h, rfl, k⟩, ?_⟩
  intro h' hh
  simp at hh
  subst hh
  exact k

end Wsp.C03S
