/-
  C04/C01, windows agree with each other: what a fetch returns for an interval does not
  depend on the window it was asked in.  Two fetches of the same archive of the same file —
  different windows, different clocks, anything inside the zone — return the same value at
  every interval both windows contain.  (Each is the ring read at that interval:
  `C01.fetch_refines_ring`.)
-/
import Wsp.Props.C01
namespace Wsp.C04
open Wsp.Handle Wsp.C01

/-- the `i`-th value of a fetched window is the ring read at the `i`-th interval -/
theorem fetch_value_at (h : Handle) (p : FetchPlan) (base : Nat)
    (z : RingZone p.a base p.fromI p.untilI)
    (hbase : h.baseInterval p.a = .ok base) (hb0 : base ≠ 0)
    (hsz : p.a.offset + 12 * p.a.n ≤ h.view.length) (hfit : p.a.offset + 12 * p.a.n ≤ 4294967295)
    (s : Series) (hs : h.fetchExec p = .ok s) (i : Nat) (hi : i < winCount p.a p.fromI p.untilI) :
    s.values[i]? = some (ringValue h p.a base (p.fromI + p.a.step.toNat * i)) := by
  rw [fetch_refines_ring h p base z hbase hb0 hsz hfit] at hs
  injection hs with hs
  subst hs
  simp only [List.getElem?_map, List.getElem?_range hi, Option.map_some]

/-- **overlapping windows agree**: two fetches of one archive of one file, each inside the
    zone, return the same value at every interval common to both windows -/
theorem windows_agree (h : Handle) (p q : FetchPlan) (base : Nat) (ha : q.a = p.a)
    (zp : RingZone p.a base p.fromI p.untilI) (zq : RingZone q.a base q.fromI q.untilI)
    (hbase : h.baseInterval p.a = .ok base) (hb0 : base ≠ 0)
    (hsz : p.a.offset + 12 * p.a.n ≤ h.view.length) (hfit : p.a.offset + 12 * p.a.n ≤ 4294967295)
    (s1 s2 : Series) (h1 : h.fetchExec p = .ok s1) (h2 : h.fetchExec q = .ok s2)
    (i j : Nat) (hi : i < winCount p.a p.fromI p.untilI) (hj : j < winCount q.a q.fromI q.untilI)
    (hsame : p.fromI + p.a.step.toNat * i = q.fromI + q.a.step.toNat * j) :
    s1.values[i]? = s2.values[j]? := by
  rw [fetch_value_at h p base zp hbase hb0 hsz hfit s1 h1 i hi]
  rw [fetch_value_at h q base zq (by rw [ha]; exact hbase) hb0 (by rw [ha]; exact hsz) (by rw [ha]; exact hfit) s2 h2 j hj]
  rw [← hsame, ha]

end Wsp.C04
