import Wsp.Proofs.Slots
import Wsp.Props.C04
namespace Wsp
open Handle C14

/-! No step of the read or write path panics on a handle with a valid header: the only
    `Fault.panic` results of the model are index-out-of-range on an archive id that is not in
    the list, `aggregate` of an empty list, `make` with a negative length, and an invalid
    aggregation method — each excluded below. -/

def IsPanic {α} (r : R α) : Prop := ∃ w, r = .error (.panic w)

theorem readAt_np (v : Bytes) (o l : Nat) : ¬ IsPanic (readAt v o l) := by
  rintro ⟨w, h⟩; unfold readAt at h; split at h <;> simp at h

theorem writeAt_np (v : Bytes) (o : Nat) (b : Bytes) : ¬ IsPanic (writeAt v o b) := by
  rintro ⟨w, h⟩; unfold writeAt at h; split at h <;> simp at h

theorem baseInterval_np (h : Handle) (a : Arch) : ¬ IsPanic (h.baseInterval a) := by
  rintro ⟨w, hh⟩
  unfold baseInterval at hh
  cases hr : readAt h.view a.offset 4 with
  | error e => rw [hr] at hh; simp at hh; exact readAt_np _ _ _ ⟨w, by rw [hr, hh]⟩
  | ok b => rw [hr] at hh; simp at hh

theorem readPointAt_np (h : Handle) (off : Nat) : ¬ IsPanic (h.readPointAt off) := by
  rintro ⟨w, hh⟩
  unfold readPointAt at hh
  cases hr : readAt h.view off 12 with
  | error e => rw [hr] at hh; simp at hh; exact readAt_np _ _ _ ⟨w, by rw [hr, hh]⟩
  | ok b => rw [hr] at hh; simp at hh

theorem putPointAt_np (h : Handle) (p : Point) (off : Nat) : ¬ IsPanic (h.putPointAt p off) := by
  rintro ⟨w, hh⟩
  unfold putPointAt at hh
  cases hr : writeAt h.view off (encPoint p) with
  | error e => rw [hr] at hh; simp at hh; exact writeAt_np _ _ _ ⟨w, by rw [hr, hh]⟩
  | ok b => rw [hr] at hh; simp at hh

theorem readPoints_np (h : Handle) (offs : List Nat) : ¬ IsPanic (h.readPoints offs) := by
  induction offs with
  | nil => rintro ⟨w, hh⟩; simp [readPoints] at hh
  | cons o os ih =>
    rintro ⟨w, hh⟩
    simp only [readPoints] at hh
    cases h1 : h.readPointAt o with
    | error e => rw [h1] at hh; simp at hh; exact readPointAt_np h o ⟨w, by rw [h1, hh]⟩
    | ok p =>
      rw [h1] at hh; simp only at hh
      cases h2 : h.readPoints os with
      | error e => rw [h2] at hh; simp at hh; exact ih ⟨w, by rw [h2, hh]⟩
      | ok ps => rw [h2] at hh; simp at hh

theorem getPointOffset_np (h : Handle) (t : Nat) (a : Arch) : ¬ IsPanic (h.getPointOffset t a) := by
  rintro ⟨w, hh⟩
  unfold getPointOffset at hh
  cases h1 : h.baseInterval a with
  | error e => rw [h1] at hh; simp at hh; exact baseInterval_np h a ⟨w, by rw [h1, hh]⟩
  | ok b => rw [h1] at hh; simp only at hh; split at hh <;> simp at hh

/-- ⟦fetchRawPoints⟧ panics only on a negative count -/
theorem fetchRawPoints_np (h : Handle) (a : Arch) (fI uI : Nat)
    (hc : 0 ≤ Int.tdiv (tsSub uI fI) a.step) : ¬ IsPanic (h.fetchRawPoints a fI uI) := by
  rintro ⟨w, hh⟩
  unfold fetchRawPoints at hh
  cases h1 : h.baseInterval a with
  | error e => rw [h1] at hh; simp at hh; exact baseInterval_np h a ⟨w, by rw [h1, hh]⟩
  | ok b =>
    rw [h1] at hh; simp only at hh
    have : ¬ (Int.tdiv (tsSub uI fI) a.step < 0) := by omega
    simp only [this, if_false] at hh
    split at hh
    · simp at hh
    · cases h2 : h.readPoints (rawOffsets a b fI uI) with
      | error e => rw [h2] at hh; simp at hh; exact readPoints_np h _ ⟨w, by rw [h2, hh]⟩
      | ok ps => rw [h2] at hh; simp at hh

/-- the window of one propagation step always has a positive count -/
theorem propagate_count (a aHigh : Arch) (t : Nat) (hs : 0 < a.step) (hsl : a.step < 2147483648)
    (ht : t < 4294967296) (hh : 0 < aHigh.step) :
    0 ≤ Int.tdiv (tsSub (tsAdd t a.step) t) aHigh.step := by
  have : tsSub (tsAdd t a.step) t = a.step := by unfold tsSub tsAdd u32 i32; omega
  rw [this, Int.tdiv_eq_ediv_of_nonneg (by omega)]
  exact Int.ediv_nonneg (by omega) (by omega)

theorem aggregate_np (o : FOps) (m : Nat) (hm : validAgg m = true) (vs : List Val) (hne : vs ≠ []) :
    ¬ IsPanic (aggregate o m vs) := by
  rintro ⟨w, hh⟩
  cases vs with
  | nil => exact hne rfl
  | cons v vs =>
    simp [validAgg] at hm
    obtain ⟨h1, h2⟩ := hm
    have : m = 1 ∨ m = 2 ∨ m = 3 ∨ m = 4 ∨ m = 5 ∨ m = 6 := by omega
    rcases this with rfl | rfl | rfl | rfl | rfl | rfl <;> simp [aggregate] at hh
    cases hl : (v :: vs).getLast? with
    | none => simp at hl
    | some x => rw [hl] at hh; simp at hh

/-- what the write path needs of the header -/
structure HdrOK (h : Handle) : Prop where
  agg : validAgg h.hdr.agg = true
  steps : ∀ a ∈ h.archs, 0 < a.step ∧ a.step < 2147483648
  
theorem HdrOK.of_frame {h h' : Handle} {H : Nat} (ok : HdrOK h) (f : Frame H h h') : HdrOK h' := by
  refine ⟨by rw [f.1]; exact ok.agg, ?_⟩
  intro a ha
  unfold Handle.archs at ha
  rw [f.1] at ha
  exact ok.steps a ha

theorem propagateOne_np (o : FOps) (h : Handle) (a aHigh : Arch) (t : Nat) (ok : HdrOK h)
    (ha : 0 < a.step ∧ a.step < 2147483648) (hhi : 0 < aHigh.step) (ht : t < 4294967296) :
    ¬ IsPanic (propagateOne o h a aHigh t) := by
  rintro ⟨w, hh⟩
  unfold propagateOne at hh
  have hcnt := propagate_count a aHigh t ha.1 ha.2 ht hhi
  cases h1 : h.fetchRawPoints aHigh t (tsAdd t a.step) with
  | error e => rw [h1] at hh; simp at hh; exact fetchRawPoints_np h aHigh t _ hcnt ⟨w, by rw [h1, hh]⟩
  | ok pts =>
    rw [h1] at hh; simp only at hh
    split at hh
    · simp at hh
    · rename_i hne
      split at hh
      · simp at hh
      · have hvne : filterValid aHigh.step (aHigh.intervalForWrite t) pts ≠ [] := by
          intro he; apply hne; rw [he]; rfl
        cases h2 : aggregate o h.hdr.agg (filterValid aHigh.step (aHigh.intervalForWrite t) pts) with
        | error e => rw [h2] at hh; simp at hh; exact aggregate_np o _ ok.agg _ hvne ⟨w, by rw [h2, hh]⟩
        | ok v =>
          rw [h2] at hh; simp only at hh
          cases h3 : h.getPointOffset t a with
          | error e => rw [h3] at hh; simp at hh; exact getPointOffset_np h t a ⟨w, by rw [h3, hh]⟩
          | ok off =>
            rw [h3] at hh; simp only at hh
            cases h4 : h.putPointAt ⟨t, v⟩ off with
            | error e => rw [h4] at hh; simp at hh; exact putPointAt_np h _ off ⟨w, by rw [h4, hh]⟩
            | ok h' => rw [h4] at hh; simp at hh

theorem intervalForWrite_lt (a : Arch) (t : Nat) : a.intervalForWrite t < 4294967296 := u32_lt _

theorem propagateLoop_np (o : FOps) {H total : Nat} (a aHigh : Arch) (aLow : Option Arch)
    (pl : ArchPlace H total a) (ha : 0 < a.step ∧ a.step < 2147483648) (hhi : 0 < aHigh.step) (ts : List Nat) :
    ∀ (h : Handle) (acc : List Nat), HdrOK h → (∀ t ∈ ts, t < 4294967296) →
      ¬ IsPanic (propagateLoop o h a aHigh aLow acc ts) := by
  induction ts with
  | nil => intro h acc _ _; rintro ⟨w, hh⟩; simp [propagateLoop] at hh
  | cons t ts ih =>
    intro h acc ok hts
    rintro ⟨w, hh⟩
    simp only [propagateLoop] at hh
    cases h1 : propagateOne o h a aHigh t with
    | error e =>
      rw [h1] at hh; simp at hh
      exact propagateOne_np o h a aHigh t ok ha hhi (hts t (by simp)) ⟨w, by rw [h1, hh]⟩
    | ok r =>
      obtain ⟨hm, stored⟩ := r
      rw [h1] at hh; simp only at hh
      have f := propagateOne_frame o h hm a aHigh t stored pl h1
      exact ih hm _ (ok.of_frame f) (fun x hx => hts x (by simp [hx])) ⟨w, hh⟩

/-- the times handed to the next level are aligned intervals, hence 32-bit -/
theorem propagateLoop_times (o : FOps) (a aHigh : Arch) (aLow : Option Arch) (ts : List Nat) :
    ∀ (h h' : Handle) (acc out : List Nat), (∀ t ∈ acc, t < 4294967296) →
      propagateLoop o h a aHigh aLow acc ts = .ok (h', out) → ∀ t ∈ out, t < 4294967296 := by
  induction ts with
  | nil =>
    intro h h' acc out hacc hp
    simp only [propagateLoop] at hp
    injection hp with hp; injection hp with _ h2; subst h2
    intro t ht; exact hacc t (by simpa using ht)
  | cons t ts ih =>
    intro h h' acc out hacc hp
    simp only [propagateLoop] at hp
    cases h1 : propagateOne o h a aHigh t with
    | error e => rw [h1] at hp; simp at hp
    | ok r =>
      obtain ⟨hm, stored⟩ := r
      rw [h1] at hp; simp only at hp
      refine ih hm h' _ out ?_ hp
      intro x hx
      cases stored with
      | false => exact hacc x (by simpa using hx)
      | true =>
        simp only [if_true] at hx
        cases aLow with
        | none => exact hacc x (by simpa using hx)
        | some l =>
          simp only at hx
          cases acc with
          | nil => simp at hx; subst hx; exact intervalForWrite_lt l t
          | cons last rest =>
            simp only at hx
            split at hx
            · exact hacc x hx
            · simp only [List.mem_cons] at hx
              rcases hx with rfl | hx
              · exact intervalForWrite_lt l t
              · exact hacc x (by simpa using hx)

theorem propagate_np (o : FOps) {H total : Nat} (h : Handle) (pl : Placed h H total) (ok : HdrOK h)
    (k : Nat) (hk : 1 ≤ k) (hkl : k < h.archs.length) (ts : List Nat) (hts : ∀ t ∈ ts, t < 4294967296) :
    ¬ IsPanic (propagate o h k ts) := by
  rintro ⟨w, hh⟩
  unfold propagate at hh
  split at hh
  · simp at hh
  · have e1 : h.archs[k]? = some h.archs[k] := List.getElem?_eq_getElem hkl
    have e2 : h.archs[k - 1]? = some (h.archs[k - 1]'(by omega)) := List.getElem?_eq_getElem (by omega)
    rw [e1, e2] at hh
    simp only at hh
    have hma := mem_of_getElem? e1
    have hmh := mem_of_getElem? e2
    cases h1 : h.baseInterval h.archs[k] with
    | error e => rw [h1] at hh; simp at hh; exact baseInterval_np h _ ⟨w, by rw [h1, hh]⟩
    | ok b =>
      rw [h1] at hh; simp only at hh
      exact propagateLoop_np o _ _ _ (pl _ hma) (ok.steps _ hma) (ok.steps _ hmh).1 ts h [] ok hts ⟨w, hh⟩

theorem propagate_times (o : FOps) (h h' : Handle) (k : Nat) (ts out : List Nat)
    (hp : propagate o h k ts = .ok (h', out)) : ∀ t ∈ out, t < 4294967296 := by
  unfold propagate at hp
  split at hp
  · injection hp with hp; injection hp with _ h2; subst h2; intro t ht; simp at ht
  · split at hp
    · split at hp
      · simp at hp
      · exact propagateLoop_times o _ _ _ ts h h' [] out (by intro t ht; simp at ht) hp
    · simp at hp

theorem Frame.archs {H : Nat} {h h' : Handle} (f : Frame H h h') : h'.archs = h.archs := by
  unfold Handle.archs; rw [f.1]

theorem propagateChainLoop_np (o : FOps) {H total : Nat} (fuel : Nat) :
    ∀ (h : Handle) (low : Nat) (ts : List Nat), Placed h H total → HdrOK h → 1 ≤ low →
      (∀ t ∈ ts, t < 4294967296) → ¬ IsPanic (propagateChainLoop o fuel h low ts) := by
  induction fuel with
  | zero => intro h low ts _ _ _ _; rintro ⟨w, hh⟩; simp [propagateChainLoop] at hh
  | succ fuel ih =>
    intro h low ts pl ok hl hts
    rintro ⟨w, hh⟩
    simp only [propagateChainLoop] at hh
    split at hh
    · rename_i hc
      cases h1 : propagate o h low ts with
      | error e =>
        rw [h1] at hh; simp at hh
        exact propagate_np o h pl ok low hl hc.1 ts hts ⟨w, by rw [h1, hh]⟩
      | ok r =>
        obtain ⟨hm, ts'⟩ := r
        rw [h1] at hh; simp only at hh
        have f1 := propagate_frame o h hm pl low ts ts' h1
        exact ih hm (low + 1) ts' (pl.of_frame f1) (ok.of_frame f1) (by omega)
          (propagate_times o h hm low ts ts' h1) ⟨w, hh⟩
    · simp at hh

theorem timesToPropagate_lt (a : Arch) : ∀ (ts acc : List Nat), (∀ t ∈ acc, t < 4294967296) →
    ∀ t ∈ timesToPropagate a acc ts, t < 4294967296 := by
  intro ts
  induction ts with
  | nil => intro acc hacc t ht; simp only [timesToPropagate] at ht; exact hacc t (by simpa using ht)
  | cons x xs ih =>
    intro acc hacc t ht
    simp only [timesToPropagate] at ht
    cases acc with
    | nil =>
      simp only at ht
      exact ih [a.intervalForWrite x] (by intro y hy; simp at hy; subst hy; exact intervalForWrite_lt a x) t ht
    | cons last rest =>
      simp only at ht
      split at ht
      · exact ih _ hacc t ht
      · refine ih _ ?_ t ht
        intro y hy
        simp only [List.mem_cons] at hy
        rcases hy with rfl | hy
        · exact intervalForWrite_lt a x
        · exact hacc y (by simpa using hy)

theorem propagateChain_np (o : FOps) {H total : Nat} (h : Handle) (pl : Placed h H total) (ok : HdrOK h)
    (k : Nat) (aligned : List Point) : ¬ IsPanic (propagateChain o h k aligned) := by
  rintro ⟨w, hh⟩
  unfold propagateChain at hh
  dsimp only at hh
  split at hh
  · simp at hh
  · rename_i aLow _
    exact propagateChainLoop_np o _ h (k + 1) _ pl ok (by omega)
      (timesToPropagate_lt aLow _ [] (by intro t ht; simp at ht)) ⟨w, hh⟩

theorem putPoints_np (a : Arch) (base : Nat) (ps : List Point) :
    ∀ (h : Handle), ¬ IsPanic (putPoints h a base ps) := by
  induction ps with
  | nil => intro h; rintro ⟨w, hh⟩; simp [putPoints] at hh
  | cons p ps ih =>
    intro h
    rintro ⟨w, hh⟩
    simp only [putPoints] at hh
    cases h1 : h.putPointAt p (a.pointOffsetAt (a.pointIndex base p.t)) with
    | error e => rw [h1] at hh; simp at hh; exact putPointAt_np h p _ ⟨w, by rw [h1, hh]⟩
    | ok hm => rw [h1] at hh; simp only at hh; exact ih hm ⟨w, hh⟩

theorem alignPointsLoop_ne_nil (a : Arch) : ∀ (ps acc : List Point) (prev : Nat) (first : Bool),
    (acc ≠ [] ∨ ps ≠ []) → (first = true → acc = []) → (first = false → acc ≠ []) →
    alignPointsLoop a acc prev first ps ≠ [] := by
  intro ps
  induction ps with
  | nil =>
    intro acc prev first h _ _
    simp only [alignPointsLoop]
    rcases h with h | h
    · simpa using h
    · exact absurd rfl h
  | cons p ps ih =>
    intro acc prev first _ hf1 hf2
    simp only [alignPointsLoop]
    split
    · rename_i hc
      have hff : first = false := by
        cases first with
        | false => rfl
        | true => simp at hc
      cases acc with
      | nil => exact absurd rfl (hf2 hff)
      | cons last acc' =>
        exact ih _ prev false (Or.inl (by simp)) (by intro h; cases h) (by intro _; simp)
    · exact ih _ _ false (Or.inl (by simp)) (by intro h; cases h) (by intro _; simp)

theorem alignPoints_ne_nil (a : Arch) (ps : List Point) (hne : ps ≠ []) : alignPoints a ps ≠ [] :=
  alignPointsLoop_ne_nil a ps [] 0 true (Or.inr hne) (fun _ => rfl) (by intro h; cases h)

theorem archiveUpdateMany_np (o : FOps) {H total : Nat} (h : Handle) (pl : Placed h H total) (ok : HdrOK h)
    (ps : List Point) (hne : ps ≠ []) (k : Nat) (hk : k < h.archs.length) :
    ¬ IsPanic (archiveUpdateMany o h ps k) := by
  rintro ⟨w, hh⟩
  unfold archiveUpdateMany at hh
  have e1 : h.archs[k]? = some h.archs[k] := List.getElem?_eq_getElem hk
  rw [e1] at hh
  dsimp only at hh
  cases h1 : h.baseInterval h.archs[k] with
  | error e => rw [h1] at hh; simp at hh; exact baseInterval_np h _ ⟨w, by rw [h1, hh]⟩
  | ok base0 =>
    rw [h1] at hh; simp only at hh
    have hal := alignPoints_ne_nil h.archs[k] ps hne
    split at hh
    · rename_i hnone
      split at hnone
      · cases hx : alignPoints h.archs[k] ps with
        | nil => exact hal hx
        | cons q qs => rw [hx] at hnone; simp at hnone
      · simp at hnone
    · rename_i base _
      cases h2 : putPoints h h.archs[k] base (alignPoints h.archs[k] ps) with
      | error e =>
        rw [h2] at hh; simp at hh
        exact putPoints_np _ base _ h ⟨w, by rw [h2, hh]⟩
      | ok hm =>
        rw [h2] at hh; simp only at hh
        have f1 := putPoints_frame h.archs[k] (pl _ (mem_of_getElem? e1)) base _ h hm h2
        exact propagateChain_np o hm (pl.of_frame f1) (ok.of_frame f1) _ _ ⟨w, hh⟩

theorem updateManyLoop_np (o : FOps) {H total : Nat} (k : Int) (now : Nat) (as : List Arch) :
    ∀ (h : Handle) (ps : List Point) (i : Nat), Placed h H total → HdrOK h → h.archs.drop i = as →
      ¬ IsPanic (updateManyLoop o k now h ps i as) := by
  induction as with
  | nil => intro h ps i _ _ _; rintro ⟨w, hh⟩; simp [updateManyLoop] at hh
  | cons a as ih =>
    intro h ps i pl ok hd
    have hi : i < h.archs.length := by
      have : (h.archs.drop i).length = (a :: as).length := by rw [hd]
      simp at this; omega
    have hd' : h.archs.drop (i + 1) = as := by
      have : h.archs.drop (i + 1) = (h.archs.drop i).drop 1 := by rw [List.drop_drop]
      rw [this, hd]; rfl
    rintro ⟨w, hh⟩
    simp only [updateManyLoop] at hh
    split at hh
    · exact ih h ps (i + 1) pl ok hd' ⟨w, hh⟩
    · split at hh
      · exact ih h _ (i + 1) pl ok hd' ⟨w, hh⟩
      · rename_i hcur
        have hne : (extractPoints ps now a.maxRetention).1 ≠ [] := by
          intro he; apply hcur; rw [he]; rfl
        cases h1 : archiveUpdateMany o h (extractPoints ps now a.maxRetention).1 i with
        | error e =>
          rw [h1] at hh; simp at hh
          exact archiveUpdateMany_np o h pl ok _ hne i hi ⟨w, by rw [h1, hh]⟩
        | ok hm =>
          rw [h1] at hh; simp only at hh
          have f1 := archiveUpdateMany_frame o h hm pl _ i h1
          exact ih hm _ (i + 1) (pl.of_frame f1) (ok.of_frame f1) (by rw [f1.archs]; exact hd') ⟨w, hh⟩

/-- **UpdatePointsForArchive never panics** on a placed handle with a valid header, for any
    batch, any archive id (an id outside the list simply matches no archive) and any clock -/
theorem updateMany_np (o : FOps) {H total : Nat} (h : Handle) (pl : Placed h H total) (ok : HdrOK h)
    (ps : List Point) (k : Int) (now : Nat) : ¬ IsPanic (h.updateMany o ps k now) :=
  updateManyLoop_np o k now h.archs h _ 0 pl ok (by simp)

theorem findBestFrom_lt (diff : Int) : ∀ (as : List Arch) (i : Nat), as ≠ [] → findBestFrom diff i as < i + as.length := by
  intro as
  induction as with
  | nil => intro i h; exact absurd rfl h
  | cons a as ih =>
    intro i _
    simp only [findBestFrom]
    split
    · simp
    · cases as with
      | nil => simp
      | cons b bs =>
        simp only
        have := ih (i + 1) (by simp)
        simp at this ⊢; omega

/-- **UpdatePointForArchive never panics** for `k = -1` (best archive) or an id in the list -/
theorem updatePoint_np (o : FOps) {H total : Nat} (h : Handle) (pl : Placed h H total) (ok : HdrOK h)
    (hne : h.archs ≠ []) (k : Int) (hk : k = -1 ∨ (0 ≤ k ∧ k < h.archs.length)) (t : Nat) (v : Val) (now : Nat) :
    ¬ IsPanic (h.updatePoint o k t v now) := by
  rintro ⟨w, hh⟩
  unfold updatePoint at hh
  split at hh
  · simp at hh
  · dsimp only at hh
    have hid : 0 ≤ (if k = -1 then ((h.findBestArchive t now : Nat) : Int) else k) ∧
        (if k = -1 then ((h.findBestArchive t now : Nat) : Int) else k) < h.archs.length := by
      rcases hk with hk | hk
      · subst hk
        simp only [if_true]
        have := findBestFrom_lt (tsSub now t) h.archs 0 hne
        unfold findBestArchive
        omega
      · have : ¬ k = -1 := by omega
        simp only [this, if_false]; exact hk
    generalize (if k = -1 then ((h.findBestArchive t now : Nat) : Int) else k) = id at hh hid
    have hneg : ¬ id < 0 := by omega
    simp only [hneg, if_false] at hh
    have hlt : id.toNat < h.archs.length := by omega
    have e1 : h.archs[id.toNat]? = some h.archs[id.toNat] := List.getElem?_eq_getElem hlt
    rw [e1] at hh
    simp only at hh
    cases hg : h.getPointOffset (h.archs[id.toNat].intervalForWrite t) h.archs[id.toNat] with
    | error e => rw [hg] at hh; simp at hh; exact getPointOffset_np h _ _ ⟨w, by rw [hg, hh]⟩
    | ok off =>
      rw [hg] at hh; simp only at hh
      cases hput : h.putPointAt ⟨h.archs[id.toNat].intervalForWrite t, v⟩ off with
      | error e => rw [hput] at hh; simp at hh; exact putPointAt_np h _ _ ⟨w, by rw [hput, hh]⟩
      | ok hm =>
        rw [hput] at hh; simp only at hh
        have pa := pl _ (mem_of_getElem? e1)
        have f1 := putPointAt_frame H h hm _ off (getPointOffset_range h _ pa _ off hg).1 hput
        exact propagateChain_np o hm (pl.of_frame f1) (ok.of_frame f1) _ _ ⟨w, hh⟩

end Wsp
