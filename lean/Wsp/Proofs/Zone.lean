import Wsp.Proofs.ValidateLemmas
import Wsp.Model.Whisper
namespace Wsp

/-! Inside the zone of DESIGN §3.2 every wrapped operation equals the ideal one. -/

theorem floorMod_pos (x y : Int) (hy : 0 < y) : floorMod x y = x % y := by
  unfold floorMod
  have hte := @Int.tmod_eq_emod x y
  have hna : (y.natAbs : Int) = y := Int.natAbs_of_nonneg (by omega)
  have h1 := Int.emod_nonneg x (by omega : y ≠ 0)
  have h2 := Int.emod_lt_of_pos x hy
  by_cases hc : 0 ≤ x ∨ y ∣ x
  · simp only [hc, if_true] at hte
    have hm : Int.tmod x y = x % y := by omega
    simp only [hm]
    rcases hc with hc | hc
    · have : x % y = 0 ∨ ((x ≥ 0 ∧ y > 0) ∨ (x < 0 ∧ y < 0)) := Or.inr (Or.inl ⟨hc, hy⟩)
      simp [this]
    · have : x % y = 0 := Int.emod_eq_zero_of_dvd hc
      simp [this]
  · simp only [hc, if_false, hna] at hte
    have hnd : ¬ (x % y = 0) := fun h => hc (Or.inr (Int.dvd_of_emod_eq_zero h))
    have hx : x < 0 := by
      have : ¬ (0 ≤ x) := fun h => hc (Or.inl h)
      omega
    have hcond : ¬ (Int.tmod x y = 0 ∨ ((x ≥ 0 ∧ y > 0) ∨ (x < 0 ∧ y < 0))) := by
      intro h; rcases h with h | h | h <;> omega
    simp only [hcond, if_false]
    omega

theorem u32_id (x : Int) (h0 : 0 ≤ x) (h1 : x < 4294967296) : (u32 x : Int) = x := by
  unfold u32; omega

theorem i32_id (x : Int) (h0 : -2147483648 ≤ x) (h1 : x < 2147483648) : i32 x = x := by
  unfold i32; omega

theorem tsSub_ideal (t u : Nat) (ht : t < 2147483648) (hu : u < 2147483648) :
    tsSub t u = (t : Int) - (u : Int) := by
  unfold tsSub; exact i32_id _ (by omega) (by omega)

theorem tsAdd_ideal (t : Nat) (d : Int) (h0 : 0 ≤ (t : Int) + d) (h1 : (t : Int) + d < 4294967296) :
    (tsAdd t d : Int) = (t : Int) + d := by
  unfold tsAdd; exact u32_id _ h0 h1

/-- the step-aligned instant at or before `t` -/
def alignDown (t : Nat) (s : Int) : Int := (t : Int) - (t : Int) % s

theorem alignDown_le (t : Nat) (s : Int) (hs : 0 < s) : alignDown t s ≤ t ∧ (t : Int) - s < alignDown t s ∧ 0 ≤ alignDown t s := by
  unfold alignDown
  have h1 := Int.emod_nonneg (t : Int) (by omega : s ≠ 0)
  have h2 := Int.emod_lt_of_pos (t : Int) hs
  have h3 := Int.emod_add_mul_ediv (t : Int) s
  have h4 : 0 ≤ (t : Int) / s := Int.ediv_nonneg (by omega) (by omega)
  have h5 : 0 ≤ s * ((t : Int) / s) := Int.mul_nonneg (by omega) h4
  omega

theorem alignDown_dvd (t : Nat) (s : Int) : s ∣ alignDown t s := by
  unfold alignDown
  exact Int.dvd_self_sub_emod

theorem intervalForWrite_ideal (a : Arch) (t : Nat) (hs : 0 < a.step) (ht : t < 4294967296) :
    (a.intervalForWrite t : Int) = alignDown t a.step := by
  unfold Arch.intervalForWrite
  rw [floorMod_pos _ _ hs]
  have := alignDown_le t a.step hs
  unfold alignDown at this ⊢
  exact u32_id _ (by omega) (by omega)

theorem interval_ideal (a : Arch) (t : Nat) (hs : 0 < a.step) (hsl : a.step < 2147483648) (ht : t < 2147483648) :
    (a.interval t : Int) = alignDown t a.step + a.step := by
  unfold Arch.interval
  rw [floorMod_pos _ _ hs]
  have := alignDown_le t a.step hs
  unfold alignDown at this ⊢
  exact u32_id _ (by omega) (by omega)

end Wsp
