import Wsp.Proofs.Zone
import Wsp.Model.World
namespace Wsp
open Handle C14

/-! Where writes land: every write of the library goes through `putPointAt` at an offset
    inside the archive region of a valid header, so the header bytes and the length of
    the view never change. -/

/-- facts about one archive of a valid header that the write path relies on -/
structure ArchPlace (H total : Nat) (a : Arch) : Prop where
  npos : 0 < a.n
  lo : H ≤ a.offset
  hi : a.offset + 12 * a.n ≤ total
  fits : total ≤ 4294967295

/-- header and length are untouched -/
def Frame (H : Nat) (h h' : Handle) : Prop :=
  h'.hdr = h.hdr ∧ h'.view.length = h.view.length ∧ h'.view.take H = h.view.take H

theorem Frame.refl (H : Nat) (h : Handle) : Frame H h h := ⟨rfl, rfl, rfl⟩

theorem Frame.trans {H : Nat} {a b c : Handle} (h1 : Frame H a b) (h2 : Frame H b c) : Frame H a c :=
  ⟨h2.1.trans h1.1, h2.2.1.trans h1.2.1, h2.2.2.trans h1.2.2⟩

theorem writeAt_ok (view : Bytes) (off : Nat) (bs v : Bytes) (h : writeAt view off bs = .ok v) :
    off + bs.length ≤ view.length ∧ v = view.take off ++ bs ++ view.drop (off + bs.length) := by
  unfold writeAt at h
  split at h
  · simp at h
  · injection h with h; exact ⟨by omega, h.symm⟩

theorem putPointAt_frame (H : Nat) (h h' : Handle) (p : Point) (off : Nat) (hoff : H ≤ off)
    (hp : h.putPointAt p off = .ok h') : Frame H h h' := by
  unfold putPointAt at hp
  cases hw : writeAt h.view off (encPoint p) with
  | error e => simp [hw] at hp
  | ok v =>
    simp only [hw] at hp
    injection hp with hp
    subst hp
    obtain ⟨hle, hv⟩ := writeAt_ok _ _ _ _ hw
    simp only [encPoint_length] at hle hv
    refine ⟨rfl, ?_, ?_⟩
    · simp [hv]; omega
    · simp only [hv, List.append_assoc]
      rw [List.take_append_of_le_length (by simp; omega)]
      simp [List.take_take]
      omega

/-- the slot index is always inside the ring (floored modulo by a positive count) -/
theorem pointIndex_range (a : Arch) (hn : 0 < a.n) (base iv : Nat) :
    0 ≤ a.pointIndex base iv ∧ a.pointIndex base iv < a.n := by
  unfold Arch.pointIndex
  rw [floorMod_pos _ _ (by omega)]
  exact ⟨Int.emod_nonneg _ (by omega), Int.emod_lt_of_pos _ (by omega)⟩

theorem pointOffsetAt_ideal (a : Arch) (idx : Int) (h0 : 0 ≤ idx) (h1 : idx < a.n)
    (hfit : a.offset + 12 * a.n ≤ 4294967295) :
    a.pointOffsetAt idx = a.offset + 12 * idx.toNat := by
  unfold Arch.pointOffsetAt
  have e1 : (u32 idx : Int) = idx := u32_id _ h0 (by omega)
  rw [e1]
  have e2 : (u32 (idx * 12) : Int) = idx * 12 := u32_id _ (by omega) (by omega)
  rw [e2]
  have e3 := u32_id ((a.offset : Int) + idx * 12) (by omega) (by omega)
  omega

theorem pointOffset_in_archive {H total : Nat} (a : Arch) (pl : ArchPlace H total a) (base iv : Nat) :
    H ≤ a.pointOffsetAt (a.pointIndex base iv) ∧
    a.pointOffsetAt (a.pointIndex base iv) + 12 ≤ a.offset + 12 * a.n ∧
    a.offset ≤ a.pointOffsetAt (a.pointIndex base iv) := by
  obtain ⟨h0, h1⟩ := pointIndex_range a pl.npos base iv
  have hfit : a.offset + 12 * a.n ≤ 4294967295 := by have := pl.hi; have := pl.fits; omega
  rw [pointOffsetAt_ideal a _ h0 h1 hfit]
  have := pl.lo
  omega

theorem getPointOffset_range {H total : Nat} (h : Handle) (a : Arch) (pl : ArchPlace H total a)
    (start off : Nat) (hg : h.getPointOffset start a = .ok off) :
    H ≤ off ∧ a.offset ≤ off ∧ off + 12 ≤ a.offset + 12 * a.n := by
  unfold getPointOffset at hg
  cases hb : h.baseInterval a with
  | error e => simp [hb] at hg
  | ok base =>
    simp only [hb] at hg
    split at hg
    · injection hg with hg; subst hg
      have := pl.lo; have := pl.npos; omega
    · injection hg with hg; subst hg
      have := pointOffset_in_archive a pl base start
      omega

/-- all archives of the header are placed inside the file, after the header -/
def Placed (h : Handle) (H total : Nat) : Prop := ∀ a ∈ h.archs, ArchPlace H total a

theorem Placed.of_frame {h h' : Handle} {H total : Nat} (pl : Placed h H total) (f : Frame H h h') :
    Placed h' H total := by
  intro a ha
  unfold Handle.archs at ha
  rw [f.1] at ha
  exact pl a ha

theorem mem_of_getElem? {α} {l : List α} {i : Nat} {x : α} (h : l[i]? = some x) : x ∈ l :=
  List.mem_of_getElem? h

theorem propagateOne_frame (o : FOps) {H total : Nat} (h h' : Handle) (a aHigh : Arch) (t : Nat) (b : Bool)
    (pl : ArchPlace H total a) (hp : propagateOne o h a aHigh t = .ok (h', b)) : Frame H h h' := by
  unfold propagateOne at hp
  cases hf : h.fetchRawPoints aHigh t (tsAdd t a.step) with
  | error e => simp [hf] at hp
  | ok pts =>
    simp only [hf] at hp
    split at hp
    · injection hp with hp; injection hp with h1 _; subst h1; exact Frame.refl _ _
    · split at hp
      · injection hp with hp; injection hp with h1 _; subst h1; exact Frame.refl _ _
      · split at hp
        · simp at hp
        · split at hp
          · simp at hp
          · rename_i off hg
            split at hp
            · simp at hp
            · rename_i h'' hput
              injection hp with hp; injection hp with h1 _; subst h1
              exact putPointAt_frame H h h'' _ off (getPointOffset_range h a pl t off hg).1 hput

theorem propagateLoop_frame (o : FOps) {H total : Nat} (a aHigh : Arch) (aLow : Option Arch)
    (pl : ArchPlace H total a) (ts : List Nat) :
    ∀ (h h' : Handle) (acc out : List Nat), propagateLoop o h a aHigh aLow acc ts = .ok (h', out) → Frame H h h' := by
  induction ts with
  | nil =>
    intro h h' acc out hp
    simp only [propagateLoop] at hp
    injection hp with hp; injection hp with h1 _; subst h1; exact Frame.refl _ _
  | cons t ts ih =>
    intro h h' acc out hp
    simp only [propagateLoop] at hp
    cases h1 : propagateOne o h a aHigh t with
    | error e => simp [h1] at hp
    | ok r =>
      obtain ⟨hm, stored⟩ := r
      simp only [h1] at hp
      exact (propagateOne_frame o h hm a aHigh t stored pl h1).trans (ih hm h' _ out hp)

theorem propagate_frame (o : FOps) {H total : Nat} (h h' : Handle) (pl : Placed h H total) (k : Nat)
    (ts out : List Nat) (hp : propagate o h k ts = .ok (h', out)) : Frame H h h' := by
  unfold propagate at hp
  split at hp
  · injection hp with hp; injection hp with h1 _; subst h1; exact Frame.refl _ _
  · split at hp
    · rename_i a aHigh ha _
      split at hp
      · simp at hp
      · exact propagateLoop_frame o a aHigh _ (pl a (mem_of_getElem? ha)) ts h h' [] out hp
    · simp at hp

theorem propagateChainLoop_frame (o : FOps) {H total : Nat} (fuel : Nat) :
    ∀ (h h' : Handle) (low : Nat) (ts : List Nat), Placed h H total →
      propagateChainLoop o fuel h low ts = .ok h' → Frame H h h' := by
  induction fuel with
  | zero =>
    intro h h' low ts _ hp
    simp only [propagateChainLoop] at hp
    injection hp with hp; subst hp; exact Frame.refl _ _
  | succ fuel ih =>
    intro h h' low ts pl hp
    simp only [propagateChainLoop] at hp
    split at hp
    · cases h1 : propagate o h low ts with
      | error e => simp [h1] at hp
      | ok r =>
        obtain ⟨hm, ts'⟩ := r
        simp only [h1] at hp
        have f1 := propagate_frame o h hm pl low ts ts' h1
        exact f1.trans (ih hm h' (low + 1) ts' (pl.of_frame f1) hp)
    · injection hp with hp; subst hp; exact Frame.refl _ _

theorem propagateChain_frame (o : FOps) {H total : Nat} (h h' : Handle) (pl : Placed h H total) (k : Nat)
    (aligned : List Point) (hp : propagateChain o h k aligned = .ok h') : Frame H h h' := by
  unfold propagateChain at hp
  dsimp only at hp
  split at hp
  · injection hp with hp; subst hp; exact Frame.refl _ _
  · exact propagateChainLoop_frame o _ h h' _ _ pl hp

theorem updatePoint_frame (o : FOps) {H total : Nat} (h h' : Handle) (pl : Placed h H total)
    (k : Int) (t : Nat) (v : Val) (now : Nat) (hp : h.updatePoint o k t v now = .ok h') : Frame H h h' := by
  unfold updatePoint at hp
  by_cases hc : t ≤ tsAdd now (- h.hdr.maxRet) ∨ now < t
  · simp [hc] at hp
  simp only [hc, if_false] at hp
  generalize (if k = -1 then ((h.findBestArchive t now : Nat) : Int) else k) = id at hp
  by_cases hneg : id < 0
  · simp [hneg] at hp
  simp only [hneg, if_false] at hp
  cases ha : h.archs[id.toNat]? with
  | none => simp [ha] at hp
  | some a =>
    simp only [ha] at hp
    cases hg : h.getPointOffset (a.intervalForWrite t) a with
    | error e => simp [hg] at hp
    | ok off =>
      simp only [hg] at hp
      cases hput : h.putPointAt ⟨a.intervalForWrite t, v⟩ off with
      | error e => simp [hput] at hp
      | ok hm =>
        simp only [hput] at hp
        have pa := pl a (mem_of_getElem? ha)
        have f1 := putPointAt_frame H h hm _ off (getPointOffset_range h a pa _ off hg).1 hput
        exact f1.trans (propagateChain_frame o hm h' (pl.of_frame f1) _ _ hp)

theorem putPoints_frame {H total : Nat} (a : Arch) (pl : ArchPlace H total a) (base : Nat) (ps : List Point) :
    ∀ (h h' : Handle), putPoints h a base ps = .ok h' → Frame H h h' := by
  induction ps with
  | nil => intro h h' hp; simp only [putPoints] at hp; injection hp with hp; subst hp; exact Frame.refl _ _
  | cons p ps ih =>
    intro h h' hp
    simp only [putPoints] at hp
    cases h1 : h.putPointAt p (a.pointOffsetAt (a.pointIndex base p.t)) with
    | error e => simp [h1] at hp
    | ok hm =>
      simp only [h1] at hp
      exact (putPointAt_frame H h hm p _ (pointOffset_in_archive a pl base p.t).1 h1).trans (ih hm h' hp)

theorem archiveUpdateMany_frame (o : FOps) {H total : Nat} (h h' : Handle) (pl : Placed h H total)
    (ps : List Point) (k : Nat) (hp : archiveUpdateMany o h ps k = .ok h') : Frame H h h' := by
  unfold archiveUpdateMany at hp
  split at hp
  · simp at hp
  · rename_i a ha
    dsimp only at hp
    split at hp
    · simp at hp
    · split at hp
      · simp at hp
      · rename_i base _
        split at hp
        · simp at hp
        · rename_i hm hput
          have f1 := putPoints_frame a (pl a (mem_of_getElem? ha)) base _ h hm hput
          exact f1.trans (propagateChain_frame o hm h' (pl.of_frame f1) _ _ hp)

theorem updateManyLoop_frame (o : FOps) {H total : Nat} (k : Int) (now : Nat) (as : List Arch) :
    ∀ (h h' : Handle) (ps : List Point) (i : Nat), Placed h H total →
      updateManyLoop o k now h ps i as = .ok h' → Frame H h h' := by
  induction as with
  | nil => intro h h' ps i _ hp; simp only [updateManyLoop] at hp; injection hp with hp; subst hp; exact Frame.refl _ _
  | cons a as ih =>
    intro h h' ps i pl hp
    simp only [updateManyLoop] at hp
    split at hp
    · exact ih h h' ps (i + 1) pl hp
    · split at hp
      · exact ih h h' _ (i + 1) pl hp
      · cases h1 : archiveUpdateMany o h (extractPoints ps now a.maxRetention).1 i with
        | error e => simp [h1] at hp
        | ok hm =>
          simp only [h1] at hp
          have f1 := archiveUpdateMany_frame o h hm pl _ i h1
          exact f1.trans (ih hm h' _ (i + 1) (pl.of_frame f1) hp)

theorem updateMany_frame (o : FOps) {H total : Nat} (h h' : Handle) (pl : Placed h H total)
    (ps : List Point) (k : Int) (now : Nat) (hp : h.updateMany o ps k now = .ok h') : Frame H h h' :=
  updateManyLoop_frame o k now h.archs h h' _ 0 pl hp

end Wsp
