import Wsp.Model.Codec
namespace Wsp

theorem u8_toNat_ofNat (n : Nat) : (UInt8.ofNat n).toNat = n % 256 := by
  simp [UInt8.toNat_ofNat']

@[simp] theorem be32_length (n : Nat) : (be32 n).length = 4 := by simp [be32]

theorem de32_be32_append (n : Nat) (h : n < 4294967296) (rest : Bytes) :
    de32 (be32 n ++ rest) = n := by
  simp only [be32, List.cons_append, List.nil_append, de32, u8_toNat_ofNat]
  omega

theorem de32_be32 (n : Nat) (h : n < 4294967296) : de32 (be32 n) = n := by
  simpa using de32_be32_append n h []

theorem de32_lt (b : Bytes) : de32 b < 4294967296 := by
  unfold de32
  split
  · rename_i a b c d _
    have := a.toNat_lt; have := b.toNat_lt; have := c.toNat_lt; have := d.toNat_lt
    omega
  · omega


theorem drop4_be32_append (n : Nat) (rest : Bytes) : (be32 n ++ rest).drop 4 = rest := by
  simp [be32]

@[simp] theorem be64_length (v : Val) : (be64 v).length = 8 := by simp [be64]

theorem de64_be64_append (v : Val) (rest : Bytes) : de64 (be64 v ++ rest) = v := by
  have hv := v.toNat_lt
  have h1 : v.toNat / 4294967296 < 4294967296 := by omega
  have h2 : v.toNat % 4294967296 < 4294967296 := by omega
  simp only [de64, be64, List.append_assoc]
  rw [de32_be32_append _ h1, drop4_be32_append, de32_be32_append _ h2]
  have : v.toNat / 4294967296 * 4294967296 + v.toNat % 4294967296 = v.toNat := by omega
  rw [this]
  simp

theorem drop8_be64_append (v : Val) (rest : Bytes) : (be64 v ++ rest).drop 8 = rest := by
  simp [be64, be32]

@[simp] theorem be64Nat_length (n : Nat) : (be64Nat n).length = 8 := by simp [be64Nat]

theorem de64Nat_be64Nat_append (n : Nat) (h : n < 18446744073709551616) (rest : Bytes) :
    de64Nat (be64Nat n ++ rest) = n := by
  have h1 : n / 4294967296 % 4294967296 < 4294967296 := by omega
  have h2 : n % 4294967296 < 4294967296 := by omega
  simp only [de64Nat, be64Nat, List.append_assoc]
  rw [de32_be32_append _ h1, drop4_be32_append, de32_be32_append _ h2]
  omega

theorem u32_of_nat (n : Nat) (h : n < 4294967296) : u32 (n : Int) = n := by
  unfold u32; omega

theorem i32_u32 (d : Int) (h1 : -2147483648 ≤ d) (h2 : d < 2147483648) : i32 ((u32 d : Nat) : Int) = d := by
  unfold i32 u32; omega

theorem u32_lt (x : Int) : u32 x < 4294967296 := by unfold u32; omega

end Wsp
