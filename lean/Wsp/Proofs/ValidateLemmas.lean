import Wsp.Props.C14
namespace Wsp
open C14

/-! The ideal (no wrap-around) meaning of a well-formed archive list, and the proof that
    ⟦ArchiveInfoList.validate⟧, computed with uint32/int32 arithmetic, decides exactly it. -/

def sumN : List Arch → Nat
  | [] => 0
  | a :: as => a.n + sumN as

/-- one archive: positive step and count, retention representable in 31 bits -/
def ArchOK (a : Arch) : Prop := 0 < a.step ∧ 0 < a.n ∧ a.step * (a.n : Int) ≤ 2147483647

/-- an archive and the next: strictly finer step dividing the next, strictly shorter
    retention, enough points to consolidate one point of the next -/
def PairOK (a nx : Arch) : Prop :=
  a.step < nx.step ∧ nx.step % a.step = 0 ∧ a.step * (a.n : Int) < nx.step * (nx.n : Int) ∧
  nx.step / a.step ≤ (a.n : Int)

def WFFrom : Nat → List Arch → Prop
  | _, [] => True
  | off, [a] => ArchOK a ∧ a.offset = off
  | off, a :: nx :: rest => ArchOK a ∧ a.offset = off ∧ PairOK a nx ∧ WFFrom (off + 12 * a.n) (nx :: rest)

/-- the property's notion of an acceptable archive list, over ideal integers -/
def WellFormedArchs (as : List Arch) : Prop :=
  as ≠ [] ∧ 16 + 12 * as.length + 12 * sumN as ≤ 4294967295 ∧ WFFrom (16 + 12 * as.length) as

theorem sizeFits_iff (size : Nat) (as : List Arch) (hs : size ≤ 4294967295) :
    sizeFits size as = true ↔ size + 12 * sumN as ≤ 4294967295 := by
  induction as generalizing size with
  | nil => simp [sizeFits, sumN]; omega
  | cons a as ih =>
    unfold sizeFits sumN
    by_cases h : size + a.n * 12 > 4294967295
    · simp [h]; omega
    · simp only [h, if_false]
      rw [ih _ (by omega)]
      omega

theorem archValid_iff (a : Arch) : a.valid = true ↔ ArchOK a := by
  simp [Arch.valid, ArchOK, and_assoc]

theorem n_le_of_retention {s : Int} {n : Nat} (hs : 0 < s) (h : s * (n : Int) ≤ 2147483647) :
    (n : Int) ≤ 2147483647 := by
  have : (1 : Int) * (n : Int) ≤ s * (n : Int) :=
    Int.mul_le_mul_of_nonneg_right (by omega) (by omega)
  omega

theorem maxRetention_ideal (a : Arch) (h : ArchOK a) : a.maxRetention = a.step * (a.n : Int) := by
  obtain ⟨hs, hn, hr⟩ := h
  have hn' := n_le_of_retention hs hr
  have h1 : i32 (a.n : Int) = a.n := by unfold i32; omega
  have hp : 0 ≤ a.step * (a.n : Int) := Int.mul_nonneg (by omega) (by omega)
  unfold Arch.maxRetention
  rw [h1]
  generalize a.step * (a.n : Int) = p at *
  unfold i32; omega

theorem tdiv_pos_eq {x y : Int} (hx : 0 ≤ x) (_hy : 0 < y) : Int.tdiv x y = x / y := by
  rw [Int.tdiv_eq_ediv_of_nonneg hx]

theorem tmod_pos_eq {x y : Int} (hx : 0 ≤ x) (_hy : 0 < y) : Int.tmod x y = x % y := by
  rw [Int.tmod_eq_emod_of_nonneg hx]

theorem validateLoop_iff (off : Nat) (as : List Arch) (hr : ∀ a ∈ as, ArchWF a)
    (hsz : off + 12 * sumN as ≤ 4294967295) :
    validateLoop off as = true ↔ WFFrom off as := by
  induction as generalizing off with
  | nil => simp [validateLoop, WFFrom]
  | cons a rest ih =>
    have hra := hr a (by simp)
    cases rest with
    | nil =>
      unfold validateLoop WFFrom
      by_cases hv : a.valid = true
      · have := (archValid_iff a).1 hv
        simp [hv, this]
      · have : ¬ ArchOK a := fun h => hv ((archValid_iff a).2 h)
        simp [hv, this]
    | cons nx rest =>
      have hrn := hr nx (by simp)
      have ih' := ih (off + 12 * a.n) (fun b hb => hr b (by simp [hb])) (by simp [sumN] at hsz ⊢; omega)
      unfold validateLoop WFFrom
      by_cases hnv : ¬ (a.valid = true)
      · have : ¬ ArchOK a := fun h => hnv ((archValid_iff a).2 h)
        simp [hnv, this]
      have hv : a.valid = true := Classical.not_not.1 hnv
      have hok := (archValid_iff a).1 hv
      obtain ⟨hs, hn, hret⟩ := hok
      have hn31 := n_le_of_retention hs hret
      by_cases hno : ¬ (a.offset = off)
      · simp [hv, hno]
      have ho : a.offset = off := Classical.not_not.1 hno
      -- the next offset does not wrap
      have hoff : u32 ((off : Int) + (u32 ((a.n : Int) * 12) : Int)) = off + 12 * a.n := by
        simp only [sumN] at hsz
        have h2 : u32 ((a.n : Int) * 12) = a.n * 12 := by
          have : ((a.n : Int) * 12) = ((a.n * 12 : Nat) : Int) := by omega
          rw [this]; exact u32_of_nat _ (by omega)
        rw [h2]
        have h3 : (off : Int) + ((a.n * 12 : Nat) : Int) = ((off + 12 * a.n : Nat) : Int) := by omega
        rw [h3]; exact u32_of_nat _ (by omega)
      simp only [hv, Bool.not_true, Bool.false_eq_true, if_false, ho, ne_eq, not_true_eq_false,
        hoff, true_and]
      by_cases hnlt : ¬ (a.step < nx.step)
      · simp [hnlt, PairOK]
      have hlt : a.step < nx.step := Classical.not_not.1 hnlt
      have hnxpos : 0 < nx.step := by omega
      simp only [hlt, not_true_eq_false, if_false, tmod_pos_eq (by omega : 0 ≤ nx.step) hs,
        tdiv_pos_eq (by omega : 0 ≤ nx.step) hs]
      by_cases hndiv : ¬ (nx.step % a.step = 0)
      · simp [hndiv, PairOK]
      have hdiv : nx.step % a.step = 0 := Classical.not_not.1 hndiv
      simp only [hdiv, not_true_eq_false, if_false]
      -- quotient facts
      have hq0 : 0 ≤ nx.step / a.step := Int.ediv_nonneg (by omega) (by omega)
      have hqle : nx.step / a.step ≤ nx.step := Int.ediv_le_self _ (by omega)
      have hqu : (u32 (nx.step / a.step) : Int) = nx.step / a.step := by
        have := hrn.s2
        unfold u32; omega
      rw [maxRetention_ideal a ⟨hs, hn, hret⟩]
      constructor
      · intro h
        -- everything after the retention test passed, so the tail validates, hence nx is OK
        by_cases hcmp : a.step * (a.n : Int) ≥ nx.maxRetention
        · simp [hcmp] at h
        simp only [hcmp, if_false] at h
        by_cases hcnt : a.n < u32 (nx.step / a.step)
        · simp [hcnt] at h
        simp only [hcnt, if_false] at h
        have htail := ih'.1 h
        have hnxok : ArchOK nx := by
          cases rest with
          | nil => exact htail.1
          | cons _ _ => exact htail.1
        rw [maxRetention_ideal nx hnxok] at hcmp
        refine ⟨⟨hs, hn, hret⟩, ⟨hlt, hdiv, by omega, ?_⟩, htail⟩
        have : ¬ ((a.n : Int) < (u32 (nx.step / a.step) : Int)) := by
          intro hc; exact hcnt (by exact_mod_cast hc)
        omega
      · rintro ⟨_, ⟨_, _, hrl, hcn⟩, htail⟩
        have hnxok : ArchOK nx := by
          cases rest with
          | nil => exact htail.1
          | cons _ _ => exact htail.1
        rw [maxRetention_ideal nx hnxok]
        have hcmp : ¬ (a.step * (a.n : Int) ≥ nx.step * (nx.n : Int)) := by omega
        have hcnt : ¬ (a.n < u32 (nx.step / a.step)) := by
          intro hc
          have : (a.n : Int) < (u32 (nx.step / a.step) : Int) := by exact_mod_cast hc
          omega
        simp only [hcmp, hcnt, if_false]
        exact ih'.2 htail

theorem firstOffset_ideal (k : Nat) (hk : 16 + 12 * k ≤ 4294967295) : firstOffset k = 16 + 12 * k := by
  unfold firstOffset
  have h1 : u32 (k : Int) = k := u32_of_nat k (by omega)
  rw [h1]
  have h2 : u32 ((k : Int) * 12) = k * 12 := by
    have : ((k : Int) * 12) = ((k * 12 : Nat) : Int) := by omega
    rw [this]; exact u32_of_nat _ (by omega)
  rw [h2]
  have h3 : (16 : Int) + ((k * 12 : Nat) : Int) = ((16 + 12 * k : Nat) : Int) := by omega
  rw [h3]; exact u32_of_nat _ (by omega)

/-- ⟦ArchiveInfoList.validate⟧ accepts exactly the well-formed lists. -/
theorem validateArchs_iff (as : List Arch) (hr : ∀ a ∈ as, ArchWF a) :
    validateArchs as = true ↔ WellFormedArchs as := by
  unfold validateArchs WellFormedArchs
  by_cases he : as.length = 0
  · have : as = [] := List.eq_nil_of_length_eq_zero he
    simp [this]
  · have hne : as ≠ [] := by intro h; simp [h] at he
    simp only [he, if_false, hne, ne_eq, not_false_eq_true, true_and]
    by_cases hk : 16 + as.length * 12 ≤ 4294967295
    · have hsf := sizeFits_iff (16 + as.length * 12) as hk
      by_cases hs : sizeFits (16 + as.length * 12) as = true
      · have htot := hsf.1 hs
        simp only [hs, Bool.not_true, Bool.false_eq_true, if_false]
        rw [firstOffset_ideal _ (by omega)]
        rw [validateLoop_iff _ as hr (by omega)]
        constructor
        · intro h; exact ⟨by omega, h⟩
        · intro h; exact h.2
      · have : ¬ (16 + as.length * 12 + 12 * sumN as ≤ 4294967295) := fun h => hs (hsf.2 h)
        simp [hs]
        intro h; omega
    · -- the header alone does not fit: sizeFits fails at the first archive
      have : sizeFits (16 + as.length * 12) as = false := by
        cases as with
        | nil => exact absurd rfl hne
        | cons a as =>
          simp only [List.length_cons] at hk ⊢
          simp [sizeFits]; intro; omega
      simp [this]
      intro h; omega

end Wsp
