import Wsp.Proofs.Frame
namespace Wsp
open Handle C14

/-! Where a valid header places its archives. -/

theorem wfFrom_places (off : Nat) (as : List Arch) (h : WFFrom off as) :
    ∀ a ∈ as, off ≤ a.offset ∧ a.offset + 12 * a.n ≤ off + 12 * sumN as ∧ 0 < a.n := by
  induction as generalizing off with
  | nil => intro a ha; simp at ha
  | cons x rest ih =>
    cases rest with
    | nil =>
      intro a ha
      simp at ha; subst ha
      obtain ⟨⟨_, hn, _⟩, ho⟩ := h
      simp [sumN]; omega
    | cons y rest' =>
      obtain ⟨⟨_, hn, _⟩, ho, _, htail⟩ := h
      intro a ha
      simp only [List.mem_cons] at ha
      rcases ha with rfl | ha
      · simp [sumN]; omega
      · have := ih (off + 12 * x.n) htail a (by simpa using ha)
        simp only [sumN] at this ⊢
        omega

/-- offsets are contiguous, in declaration order, starting right after the header -/
theorem wfFrom_contiguous (off : Nat) (as : List Arch) (h : WFFrom off as) :
    ∀ i a, as[i]? = some a → a.offset = off + 12 * sumN (as.take i) := by
  induction as generalizing off with
  | nil => intro i a ha; simp at ha
  | cons x rest ih =>
    intro i a ha
    cases i with
    | zero =>
      simp at ha; subst ha
      cases rest with
      | nil => simp [sumN]; exact h.2
      | cons y r => simp [sumN]; exact h.2.1
    | succ i =>
      cases rest with
      | nil => simp at ha
      | cons y r =>
        have := ih (off + 12 * x.n) h.2.2.2 i a (by simpa using ha)
        simp only [List.take_succ_cons, sumN] at this ⊢
        omega

def Header.total (h : Header) : Nat := 16 + 12 * h.archives.length + 12 * sumN h.archives

theorem expectedFileSize_eq (h : Header) (hc : h.count = h.archives.length) :
    h.expectedFileSize = h.total := by
  unfold Header.expectedFileSize Header.total Header.size
  rw [hc]
  have : ∀ (as : List Arch) (s : Nat), as.foldl (fun sz a => sz + a.n * 12) s = s + 12 * sumN as := by
    intro as
    induction as with
    | nil => intro s; simp [sumN]
    | cons a as ih => intro s; simp only [List.foldl_cons, ih, sumN]; omega
  rw [this]; omega

/-- a header that passed validation places every archive after the header and inside the
    file, below 2^32 -/
theorem placed_of_valid (h : Handle) (hv : validateArchs h.hdr.archives = true)
    (hr : ∀ a ∈ h.hdr.archives, ArchWF a) :
    Placed h (16 + 12 * h.hdr.archives.length) h.hdr.total := by
  have wf := (validateArchs_iff _ hr).1 hv
  obtain ⟨_, hsz, hfrom⟩ := wf
  intro a ha
  have := wfFrom_places _ _ hfrom a ha
  unfold Header.total
  exact ⟨this.2.2, this.1, by omega, by omega⟩

end Wsp
