import Wsp.Model.Text
import Wsp.Proofs.BytesLemmas
namespace Wsp

/-- value of a digit string read left to right, starting from `x` -/
def valOf (x : Nat) (ds : Str) : Nat := ds.foldl (fun acc c => acc * 10 + digitVal c) x

theorem digit_facts : ∀ k, k < 10 → digitVal (digitChar k) = k ∧ isDigit (digitChar k) = true := by
  decide

theorem valOf_ge (x : Nat) (ds : Str) : x ≤ valOf x ds := by
  induction ds generalizing x with
  | nil => simp [valOf]
  | cons c ds ih =>
    have := ih (x * 10 + digitVal c)
    simp only [valOf, List.foldl_cons] at this ⊢
    omega

theorem valOf_append (x : Nat) (a b : Str) : valOf x (a ++ b) = valOf (valOf x a) b := by
  simp [valOf, List.foldl_append]

theorem showNat_digits (n : Nat) : ∀ c ∈ showNat n, isDigit c = true := by
  induction n using Nat.strongRecOn with
  | _ n ih =>
    rw [showNat]
    split
    · rename_i h; intro c hc; simp at hc; subst hc; exact (digit_facts n h).2
    · rename_i h
      intro c hc
      simp at hc
      rcases hc with hc | hc
      · exact ih (n / 10) (by omega) c hc
      · subst hc; exact (digit_facts (n % 10) (by omega)).2

theorem valOf_showNat (n : Nat) : valOf 0 (showNat n) = n := by
  induction n using Nat.strongRecOn with
  | _ n ih =>
    rw [showNat]
    split
    · rename_i h; simp [valOf, (digit_facts n h).1]
    · rename_i h
      rw [valOf_append, ih (n / 10) (by omega)]
      simp [valOf, (digit_facts (n % 10) (by omega)).1]
      omega

theorem showNat_length_pos (n : Nat) : 0 < (showNat n).length := by
  rw [showNat]; split <;> simp

theorem showNat_zero : showNat 0 = ['0'] := by
  rw [showNat]; simp [digitChar]

/-- `rest` does not continue the number -/
def StopsNumber (rest : Str) : Prop := ∀ c r, rest = c :: r → isDigit c = false

/-- the digit loop of ⟦leadingInt⟧ reads a digit string exactly when its value fits in int32 -/
theorem leadingIntLoop_digits (ds rest : Str) (x i : Nat) (hd : ∀ c ∈ ds, isDigit c = true)
    (hr : StopsNumber rest) (hv : valOf x ds ≤ 2147483647) :
    leadingIntLoop (x : Int) i (ds ++ rest) = some (((valOf x ds : Nat) : Int), i + ds.length, rest) := by
  induction ds generalizing x i with
  | nil =>
    cases rest with
    | nil => simp [leadingIntLoop, valOf]
    | cons c r => simp [leadingIntLoop, valOf, hr c r rfl]
  | cons c ds ih =>
    have hc : isDigit c = true := hd c (by simp)
    have hge := valOf_ge (x * 10 + digitVal c) ds
    have hv' : valOf (x * 10 + digitVal c) ds ≤ 2147483647 := by simpa [valOf] using hv
    have hx : ¬ ((x : Int) > 214748364) := by omega
    have h32 : i32 ((x : Int) * 10 + (digitVal c : Int)) = ((x * 10 + digitVal c : Nat) : Int) := by
      unfold i32; omega
    have hn : ¬ (((x * 10 + digitVal c : Nat) : Int) < 0) := by omega
    simp only [List.cons_append, leadingIntLoop, hc, Bool.not_true, Bool.false_eq_true, if_false, hx, h32, hn]
    rw [ih (x * 10 + digitVal c) (i + 1) (fun c' h' => hd c' (by simp [h'])) hv']
    simp [valOf]; omega

/-- conversely, whatever the loop returns is the value of the digits it consumed -/
theorem leadingIntLoop_sound (s : Str) (x i : Nat) (y : Int) (j : Nat) (rem : Str)
    (hx0 : x ≤ 2147483647)
    (h : leadingIntLoop (x : Int) i s = some (y, j, rem)) :
    ∃ ds, s = ds ++ rem ∧ (∀ c ∈ ds, isDigit c = true) ∧ StopsNumber rem ∧
      y = ((valOf x ds : Nat) : Int) ∧ j = i + ds.length ∧ valOf x ds ≤ 2147483647 := by
  induction s generalizing x i with
  | nil =>
    simp [leadingIntLoop] at h
    obtain ⟨h1, h2, h3⟩ := h
    subst h1 h2 h3
    refine ⟨[], ?_, ?_, ?_, ?_, ?_, ?_⟩
    · simp
    · simp
    · intro c r hh; cases hh
    · simp [valOf]
    · simp
    · simpa [valOf] using hx0
  | cons c cs ih =>
    unfold leadingIntLoop at h
    by_cases hc : isDigit c = true
    · simp only [hc, Bool.not_true, Bool.false_eq_true, if_false] at h
      by_cases hx : (x : Int) > 214748364
      · simp [hx] at h
      · simp only [hx, if_false] at h
        by_cases hneg : i32 ((x : Int) * 10 + (digitVal c : Int)) < 0
        · simp [hneg] at h
        · simp only [hneg, if_false] at h
          have hdv : digitVal c < 10 := by
            unfold digitVal isDigit at *
            simp at hc
            have h1 : 48 ≤ c.toNat := hc.1
            have h2 : c.toNat ≤ 57 := hc.2
            omega
          have hfit : x * 10 + digitVal c ≤ 2147483647 := by
            unfold i32 at hneg; omega
          have h32 : i32 ((x : Int) * 10 + (digitVal c : Int)) = ((x * 10 + digitVal c : Nat) : Int) := by
            unfold i32; omega
          rw [h32] at h
          obtain ⟨ds, h1, h2, h3, h4, h5, h6⟩ := ih (x * 10 + digitVal c) (i + 1) hfit h
          refine ⟨c :: ds, by simp [h1], ?_, h3, ?_, by simp; omega, ?_⟩
          · intro c' hc'; simp at hc'; rcases hc' with rfl | hc'; exact hc; exact h2 c' hc'
          · simpa [valOf] using h4
          · simpa [valOf] using h6
    · have hc' : isDigit c = false := by simpa using hc
      simp [hc'] at h
      obtain ⟨h1, h2, h3⟩ := h
      subst h1 h2 h3
      refine ⟨[], ?_, ?_, ?_, ?_, ?_, ?_⟩
      · simp
      · simp
      · intro c' r hh; injection hh with hh1 _; rw [← hh1]; exact hc'
      · simp [valOf]
      · simp
      · simpa [valOf] using hx0

end Wsp
