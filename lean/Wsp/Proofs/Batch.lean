import Wsp.Proofs.Slots
namespace Wsp
open Handle

/-! Lists: the stable sort of a batch, and how ⟦extractPoints⟧ splits a sorted batch. -/

def SortedByT : List Point → Prop
  | [] => True
  | [_] => True
  | p :: q :: rest => p.t ≤ q.t ∧ SortedByT (q :: rest)

theorem SortedByT.tail {p : Point} {ps : List Point} (h : SortedByT (p :: ps)) : SortedByT ps := by
  cases ps with
  | nil => trivial
  | cons q r => exact h.2

theorem SortedByT.head_le {p : Point} {ps : List Point} (h : SortedByT (p :: ps)) : ∀ q ∈ ps, p.t ≤ q.t := by
  induction ps generalizing p with
  | nil => intro q hq; simp at hq
  | cons x xs ih =>
    intro q hq
    simp only [List.mem_cons] at hq
    rcases hq with rfl | hq
    · exact h.1
    · have := ih (p := x) h.2 q hq
      have := h.1
      omega

theorem insertByTime_perm (p : Point) (l : List Point) : (insertByTime p l).Perm (p :: l) := by
  induction l with
  | nil => simp [insertByTime]
  | cons q qs ih =>
    unfold insertByTime
    split
    · exact List.Perm.refl _
    · exact (List.Perm.cons q ih).trans (List.Perm.swap p q qs)

theorem insertByTime_sorted (p : Point) (l : List Point) (h : SortedByT l) : SortedByT (insertByTime p l) := by
  induction l with
  | nil => simp [insertByTime, SortedByT]
  | cons q qs ih =>
    unfold insertByTime
    split
    · rename_i hlt; exact ⟨by omega, h⟩
    · rename_i hge
      have ihs := ih h.tail
      cases qs with
      | nil => simp [insertByTime, SortedByT]; omega
      | cons r rs =>
        unfold insertByTime at ihs ⊢
        split
        · rename_i h2; exact ⟨by omega, by rename_i _; exact ⟨by omega, h.2⟩⟩
        · rename_i h2
          simp only [h2, if_false] at ihs
          exact ⟨h.1, ihs⟩

/-- ⟦sort.Stable⟧ as modelled: a permutation, sorted by time -/
theorem sortByTime_perm (ps : List Point) : (sortByTime ps).Perm ps := by
  unfold sortByTime
  suffices h : ∀ (acc : List Point), (ps.foldl (fun acc p => insertByTime p acc) acc).Perm (acc ++ ps) by
    simpa using h []
  induction ps with
  | nil => intro acc; simp
  | cons p ps ih =>
    intro acc
    simp only [List.foldl_cons]
    refine (ih (insertByTime p acc)).trans ?_
    have := insertByTime_perm p acc
    refine (List.Perm.append_right ps this).trans ?_
    simp
    exact List.perm_middle.symm

theorem sortByTime_sorted (ps : List Point) : SortedByT (sortByTime ps) := by
  unfold sortByTime
  suffices h : ∀ (acc : List Point), SortedByT acc → SortedByT (ps.foldl (fun acc p => insertByTime p acc) acc) by
    exact h [] trivial
  induction ps with
  | nil => intro acc h; exact h
  | cons p ps ih => intro acc h; exact ih _ (insertByTime_sorted p acc h)

/-- stability: points with the same time keep their relative order -/
theorem insertByTime_filter (p : Point) (l : List Point) (t : Nat) (h : SortedByT l) :
    (insertByTime p l).filter (fun q => q.t = t) =
      if p.t = t then l.filter (fun q => q.t = t) ++ [p] else l.filter (fun q => q.t = t) := by
  induction l with
  | nil => by_cases hp : p.t = t <;> simp [insertByTime, hp]
  | cons q qs ih =>
    unfold insertByTime
    by_cases hlt : p.t < q.t
    · simp only [hlt, if_true]
      -- every element of q :: qs is later than p: none has time p.t
      have hall : ∀ x ∈ q :: qs, p.t < x.t := by
        intro x hx
        simp only [List.mem_cons] at hx
        rcases hx with rfl | hx
        · exact hlt
        · have := h.head_le x hx; omega
      by_cases hp : p.t = t
      · have hnone : (q :: qs).filter (fun x => x.t = t) = [] := by
          rw [List.filter_eq_nil_iff]
          intro x hx; have := hall x hx; simp; omega
        simp [hp, hnone]
      · simp [hp]
    · simp only [hlt, if_false]
      rw [List.filter_cons, List.filter_cons, ih h.tail]
      by_cases hq : q.t = t <;> by_cases hp : p.t = t <;> simp [hq, hp]

theorem sortByTime_stable (ps : List Point) (t : Nat) :
    (sortByTime ps).filter (fun q => q.t = t) = ps.filter (fun q => q.t = t) := by
  unfold sortByTime
  suffices h : ∀ (acc : List Point), SortedByT acc →
      (ps.foldl (fun acc p => insertByTime p acc) acc).filter (fun q => q.t = t) =
        acc.filter (fun q => q.t = t) ++ ps.filter (fun q => q.t = t) by
    simpa using h [] trivial
  induction ps with
  | nil => intro acc _; simp
  | cons p ps ih =>
    intro acc hs
    simp only [List.foldl_cons]
    rw [ih _ (insertByTime_sorted p acc hs), insertByTime_filter p acc t hs, List.filter_cons]
    by_cases hp : p.t = t <;> simp [hp]

theorem takeWhile_append_all {α} (p : α → Bool) (A B : List α) (hA : ∀ x ∈ A, p x = true)
    (hB : ∀ x ∈ B, p x = false) : (A ++ B).takeWhile p = A := by
  induction A with
  | nil =>
    cases B with
    | nil => rfl
    | cons b bs => simp [List.takeWhile, hB b (by simp)]
  | cons a as ih =>
    simp only [List.cons_append, List.takeWhile, hA a (by simp)]
    rw [ih (fun x hx => hA x (by simp [hx]))]

/-- a sorted list is its old points followed by its current points -/
theorem sorted_split (maxAge : Nat) (l : List Point) (hl : SortedByT l) :
    l = l.filter (fun p => decide (p.t ≤ maxAge)) ++ l.filter (fun p => decide (maxAge < p.t)) := by
  induction l with
  | nil => rfl
  | cons p l ih =>
    by_cases hp : p.t ≤ maxAge
    · have hn : ¬ maxAge < p.t := by omega
      simp only [List.filter_cons, hp, hn, decide_true, decide_false, if_true, if_false, Bool.false_eq_true]
      rw [List.cons_append, ← ih hl.tail]
    · have hall : ∀ x ∈ l, maxAge < x.t := by
        intro x hx; have := hl.head_le x hx; omega
      have h1 : l.filter (fun p => decide (p.t ≤ maxAge)) = [] := by
        rw [List.filter_eq_nil_iff]; intro x hx; have := hall x hx; simp; omega
      have h2 : l.filter (fun p => decide (maxAge < p.t)) = l := by
        rw [List.filter_eq_self]; intro x hx; have := hall x hx; simp; omega
      have hn : maxAge < p.t := by omega
      simp only [List.filter_cons, hp, hn, decide_true, decide_false, if_true, if_false, Bool.false_eq_true, h1, h2]
      rfl

/-- ⟦extractPoints⟧ on a time-sorted batch: exactly the points younger than the retention
    are current, in order; the others remain, in order -/
theorem extractPoints_sorted (ps : List Point) (now : Nat) (ret : Int) (hs : SortedByT ps) :
    extractPoints ps now ret =
      (ps.filter (fun p => decide (tsAdd now (- ret) < p.t)), ps.filter (fun p => decide (p.t ≤ tsAdd now (- ret)))) := by
  unfold extractPoints
  generalize tsAdd now (- ret) = maxAge
  have hsp := sorted_split maxAge ps hs
  generalize hold : ps.filter (fun p => decide (p.t ≤ maxAge)) = old at hsp ⊢
  generalize hyoung : ps.filter (fun p => decide (maxAge < p.t)) = young at hsp ⊢
  have hyall : ∀ x ∈ young, maxAge < x.t := by
    intro x hx; rw [← hyoung] at hx; simpa using (List.mem_filter.1 hx).2
  have hoall : ∀ x ∈ old, x.t ≤ maxAge := by
    intro x hx; rw [← hold] at hx; simpa using (List.mem_filter.1 hx).2
  have hrev : ps.reverse = young.reverse ++ old.reverse := by rw [hsp]; simp
  have htw : (ps.reverse).takeWhile (fun p => decide (¬ p.t ≤ maxAge)) = young.reverse := by
    rw [hrev]
    apply takeWhile_append_all
    · intro x hx; have := hyall x (by simpa using hx); simp; omega
    · intro x hx; have := hoall x (by simpa using hx); simp; omega
  simp only [htw, List.length_reverse, List.reverse_reverse]
  by_cases hlen : young.length = ps.length
  · simp only [hlen, if_true]
    have : old = [] := by
      have : ps.length = old.length + young.length := by rw [hsp]; simp
      exact List.eq_nil_of_length_eq_zero (by omega)
    subst this
    simp at hsp
    rw [← hsp]
  · simp only [hlen, if_false]
    rw [hrev, List.drop_left' (by simp)]
    simp

end Wsp
