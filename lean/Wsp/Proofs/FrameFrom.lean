import Wsp.Proofs.Layout
import Wsp.Proofs.Slots
namespace Wsp
open Handle C14

/-! The write frame, per level: propagation started at archive `low` writes only into
    archives `low, low+1, …`, so everything in front of archive `low` — the header and all
    finer archives — is untouched. -/

/-- the archives from index `low` on lie at or after `H` -/
def PlacedFrom (h : Handle) (low H total : Nat) : Prop :=
  ∀ i a, low ≤ i → h.archs[i]? = some a → ArchPlace H total a

theorem PlacedFrom.of_frame {h h' : Handle} {low H total : Nat} (pl : PlacedFrom h low H total) (f : Frame H h h') :
    PlacedFrom h' low H total := by
  intro i a hi ha
  unfold Handle.archs at ha
  rw [f.1] at ha
  exact pl i a hi ha

theorem PlacedFrom.mono {h : Handle} {low low' H total : Nat} (pl : PlacedFrom h low H total) (hle : low ≤ low') :
    PlacedFrom h low' H total := fun i a hi ha => pl i a (by omega) ha

theorem propagate_frameFrom (o : FOps) {H total : Nat} (h h' : Handle) (k : Nat) (pl : PlacedFrom h k H total)
    (ts out : List Nat) (hp : propagate o h k ts = .ok (h', out)) : Frame H h h' := by
  unfold propagate at hp
  split at hp
  · injection hp with hp; injection hp with h1 _; subst h1; exact Frame.refl _ _
  · split at hp
    · rename_i a aHigh ha _
      split at hp
      · simp at hp
      · exact propagateLoop_frame o a aHigh _ (pl k a (by omega) ha) ts h h' [] out hp
    · simp at hp

theorem propagateChainLoop_frameFrom (o : FOps) {H total : Nat} (fuel : Nat) :
    ∀ (h h' : Handle) (low : Nat) (ts : List Nat), PlacedFrom h low H total →
      propagateChainLoop o fuel h low ts = .ok h' → Frame H h h' := by
  induction fuel with
  | zero =>
    intro h h' low ts _ hp
    simp only [propagateChainLoop] at hp
    injection hp with hp; subst hp; exact Frame.refl _ _
  | succ fuel ih =>
    intro h h' low ts pl hp
    simp only [propagateChainLoop] at hp
    split at hp
    · cases h1 : propagate o h low ts with
      | error e => simp [h1] at hp
      | ok r =>
        obtain ⟨hm, ts'⟩ := r
        simp only [h1] at hp
        have f1 := propagate_frameFrom o h hm low pl ts ts' h1
        exact f1.trans (ih hm h' (low + 1) ts' ((pl.of_frame f1).mono (by omega)) hp)
    · injection hp with hp; subst hp; exact Frame.refl _ _

/-- **propagation below archive `k` leaves archive `k` and everything before it alone** -/
theorem propagateChain_frameFrom (o : FOps) {H total : Nat} (h h' : Handle) (k : Nat)
    (pl : PlacedFrom h (k + 1) H total) (aligned : List Point)
    (hp : propagateChain o h k aligned = .ok h') : Frame H h h' := by
  unfold propagateChain at hp
  dsimp only at hp
  split at hp
  · injection hp with hp; subst hp; exact Frame.refl _ _
  · exact propagateChainLoop_frameFrom o _ h h' _ _ pl hp

theorem sumN_take_le (as : List Arch) (i j : Nat) (hij : i ≤ j) : sumN (as.take i) ≤ sumN (as.take j) := by
  induction as generalizing i j with
  | nil => simp [sumN]
  | cons a as ih =>
    cases i with
    | zero => simp [sumN]
    | succ i =>
      cases j with
      | zero => omega
      | succ j =>
        simp only [List.take_succ_cons, sumN]
        have := ih i j (by omega)
        omega

theorem sumN_take_succ (as : List Arch) (i : Nat) (a : Arch) (ha : as[i]? = some a) :
    sumN (as.take (i + 1)) = sumN (as.take i) + a.n := by
  induction as generalizing i with
  | nil => simp at ha
  | cons x xs ih =>
    cases i with
    | zero => simp at ha; subst ha; simp [sumN]
    | succ i =>
      simp only [List.take_succ_cons, sumN]
      have := ih i (by simpa using ha)
      omega

theorem sumN_take_total (as : List Arch) (i : Nat) : sumN (as.take i) ≤ sumN as := by
  induction as generalizing i with
  | nil => simp [sumN]
  | cons a as ih =>
    cases i with
    | zero => simp [sumN]
    | succ i => simp only [List.take_succ_cons, sumN]; have := ih i; omega

/-- in a validated header the archives after index `k` start at or after the end of archive `k` -/
theorem placedFrom_of_valid (h : Handle) (hv : validateArchs h.hdr.archives = true)
    (hr : ∀ a ∈ h.hdr.archives, ArchWF a) (k : Nat) (a : Arch) (ha : h.archs[k]? = some a) :
    PlacedFrom h (k + 1) (a.offset + 12 * a.n) h.hdr.total := by
  have wf := (validateArchs_iff _ hr).1 hv
  obtain ⟨_, hsz, hfrom⟩ := wf
  have hcont := wfFrom_contiguous _ _ hfrom
  have hplaces := wfFrom_places _ _ hfrom
  intro i b hi hb
  have eb := hcont i b hb
  have ea := hcont k a ha
  have hmem := mem_of_getElem? hb
  have pb := hplaces b hmem
  have h1 := sumN_take_succ h.hdr.archives k a ha
  have h2 := sumN_take_le h.hdr.archives (k + 1) i hi
  unfold Header.total
  refine ⟨pb.2.2, by omega, by omega, by omega⟩

/-- slots wholly in front of `E` are decided by the first `E` bytes -/
theorem slotAt_of_take (h h' : Handle) (E : Nat) (hf : h'.view.take E = h.view.take E) (b : Arch) (j : Nat)
    (hb : b.offset + 12 * j + 12 ≤ E) : slotAt h' b j = slotAt h b j := by
  rw [slot_of_window, slot_of_window]
  have hw : window h'.view (b.offset + 12 * j) = window h.view (b.offset + 12 * j) := by
    apply List.ext_getElem?
    intro k
    rw [window_getElem?, window_getElem?]
    by_cases hk : k < 12
    · simp only [hk, if_true]
      have e1 : h'.view[b.offset + 12 * j + k]? = (h'.view.take E)[b.offset + 12 * j + k]? := by
        rw [List.getElem?_take_of_lt (by omega)]
      have e2 : h.view[b.offset + 12 * j + k]? = (h.view.take E)[b.offset + 12 * j + k]? := by
        rw [List.getElem?_take_of_lt (by omega)]
      rw [e1, e2, hf]
    · simp [hk]
  rw [hw]

end Wsp
