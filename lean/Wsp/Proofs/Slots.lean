import Wsp.Proofs.Ring
namespace Wsp
open Handle C14

/-! R1/R3: a 12-byte write at a slot offset replaces exactly that slot. -/

theorem writeAt_getElem? (view : Bytes) (off : Nat) (bs v : Bytes) (h : writeAt view off bs = .ok v) (n : Nat) :
    v[n]? = if off ≤ n ∧ n < off + bs.length then bs[n - off]? else view[n]? := by
  obtain ⟨hle, hv⟩ := writeAt_ok view off bs v h
  subst hv
  have hlen : (view.take off).length = off := by simp; omega
  by_cases h1 : n < off
  · have : ¬ (off ≤ n ∧ n < off + bs.length) := by omega
    simp only [this, if_false, List.append_assoc]
    rw [List.getElem?_append_left (by omega), List.getElem?_take_of_lt h1]
  · by_cases h2 : n < off + bs.length
    · have : off ≤ n ∧ n < off + bs.length := ⟨by omega, h2⟩
      simp only [this, and_self, if_true, List.append_assoc]
      rw [List.getElem?_append_right (by omega), hlen, List.getElem?_append_left (by omega)]
    · have : ¬ (off ≤ n ∧ n < off + bs.length) := by omega
      simp only [this, if_false]
      rw [List.getElem?_append_right (by simp; omega)]
      simp only [List.length_append, hlen, List.getElem?_drop]
      congr 1; omega

/-- the 12 bytes at an offset -/
def window (l : Bytes) (o : Nat) : Bytes := (l.drop o).take 12

theorem window_getElem? (l : Bytes) (o k : Nat) : (window l o)[k]? = if k < 12 then l[o + k]? else none := by
  unfold window
  by_cases hk : k < 12
  · simp [hk, List.getElem?_take_of_lt, List.getElem?_drop]
  · simp only [hk, if_false]
    rw [List.getElem?_eq_none]
    simp; omega

theorem slot_of_window (h : Handle) (a : Arch) (i : Nat) :
    slotAt h a i = ⟨de32 (window h.view (a.offset + 12 * i)), de64 ((window h.view (a.offset + 12 * i)).drop 4)⟩ := by
  unfold slotAt window
  rw [de32_take12, de64_take12]

theorem window_eq_of_disjoint (view v : Bytes) (off : Nat) (bs : Bytes) (hb : bs.length = 12)
    (hw : writeAt view off bs = .ok v) (o : Nat) (hd : o + 12 ≤ off ∨ off + 12 ≤ o) :
    window v o = window view o := by
  apply List.ext_getElem?
  intro k
  rw [window_getElem?, window_getElem?]
  by_cases hk : k < 12
  · simp only [hk, if_true]
    rw [writeAt_getElem? view off bs v hw]
    have : ¬ (off ≤ o + k ∧ o + k < off + bs.length) := by omega
    simp [this]
  · simp [hk]

theorem window_eq_written (view v : Bytes) (off : Nat) (bs : Bytes) (hb : bs.length = 12)
    (hw : writeAt view off bs = .ok v) : window v off = bs := by
  apply List.ext_getElem?
  intro k
  rw [window_getElem?]
  by_cases hk : k < 12
  · simp only [hk, if_true]
    rw [writeAt_getElem? view off bs v hw]
    have : off ≤ off + k ∧ off + k < off + bs.length := by omega
    simp only [this, and_self, if_true]
    congr 1; omega
  · simp only [hk, if_false]
    rw [eq_comm, List.getElem?_eq_none]; omega

/-- **R3 (write frame)**: `putPointAt` at the offset of slot `i` of archive `a` makes that
    slot hold the point and leaves every slot at a disjoint offset — the other slots of
    `a` and all slots of every other archive — as it was. -/
theorem putPointAt_slots (h h' : Handle) (p : Point) (hpt : p.t < 4294967296) (a : Arch) (i : Nat)
    (hput : h.putPointAt p (a.offset + 12 * i) = .ok h') :
    slotAt h' a i = p ∧
    (∀ (b : Arch) (j : Nat), (b.offset + 12 * j + 12 ≤ a.offset + 12 * i ∨ a.offset + 12 * i + 12 ≤ b.offset + 12 * j) →
      slotAt h' b j = slotAt h b j) ∧ h'.hdr = h.hdr := by
  unfold putPointAt at hput
  cases hw : writeAt h.view (a.offset + 12 * i) (encPoint p) with
  | error e => simp [hw] at hput
  | ok v =>
    simp only [hw] at hput
    injection hput with hput
    subst hput
    refine ⟨?_, ?_, rfl⟩
    · rw [slot_of_window]
      simp only
      rw [window_eq_written h.view v _ _ (encPoint_length p) hw]
      have e1 : de32 (encPoint p) = p.t := by
        have := de32_be32_append p.t hpt (encValue p.v)
        simpa [encPoint, encTimestamp] using this
      have e2 : de64 ((encPoint p).drop 4) = p.v := by
        have : (encPoint p).drop 4 = be64 p.v := by
          simp [encPoint, encTimestamp, encValue, drop4_be32_append]
        rw [this]
        have := de64_be64_append p.v []
        simpa using this
      rw [e1, e2]
    · intro b j hd
      rw [slot_of_window, slot_of_window]
      simp only
      rw [window_eq_of_disjoint h.view v _ _ (encPoint_length p) hw _ hd]

/-- the base interval is the timestamp of slot 0 -/
theorem baseInterval_slot (h : Handle) (a : Arch) (hb : a.offset + 12 ≤ h.view.length) :
    h.baseInterval a = .ok (slotAt h a 0).t := by
  unfold baseInterval readAt
  have : ¬ (a.offset + 4 > h.view.length) := by omega
  simp only [this, if_false]
  unfold slotAt
  simp only [Nat.mul_zero, Nat.add_zero]
  rw [de32_take _ _ (by omega)]

end Wsp
