import Wsp.Proofs.Calendar.Defs
namespace Wsp.Calendar
set_option maxRecDepth 100000 in
/-- days 0 … 4095 -/
theorem chunk00 : allDepth calOK 0 12 = true := by decide +kernel
end Wsp.Calendar
