import Wsp.Proofs.Calendar.Defs
namespace Wsp.Calendar
set_option maxRecDepth 100000 in
/-- days 40960 … 45055 -/
theorem chunk10 : allDepth calOK 40960 12 = true := by decide +kernel
end Wsp.Calendar
