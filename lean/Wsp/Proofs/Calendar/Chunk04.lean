import Wsp.Proofs.Calendar.Defs
namespace Wsp.Calendar
set_option maxRecDepth 100000 in
/-- days 16384 … 20479 -/
theorem chunk04 : allDepth calOK 16384 12 = true := by decide +kernel
end Wsp.Calendar
