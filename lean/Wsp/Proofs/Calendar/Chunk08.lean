import Wsp.Proofs.Calendar.Defs
namespace Wsp.Calendar
set_option maxRecDepth 100000 in
/-- days 32768 … 36863 -/
theorem chunk08 : allDepth calOK 32768 12 = true := by decide +kernel
end Wsp.Calendar
