import Wsp.Proofs.Calendar.Defs
namespace Wsp.Calendar
set_option maxRecDepth 100000 in
/-- days 4096 … 8191 -/
theorem chunk01 : allDepth calOK 4096 12 = true := by decide +kernel
end Wsp.Calendar
