import Wsp.Proofs.Calendar.Defs
namespace Wsp.Calendar
set_option maxRecDepth 100000 in
/-- days 49152 … 53247 -/
theorem chunk12 : allDepth calOK 49152 12 = true := by decide +kernel
end Wsp.Calendar
