import Wsp.Proofs.Calendar.Defs
namespace Wsp.Calendar
set_option maxRecDepth 100000 in
/-- days 20480 … 24575 -/
theorem chunk05 : allDepth calOK 20480 12 = true := by decide +kernel
end Wsp.Calendar
