import Wsp.Proofs.Calendar.Defs
namespace Wsp.Calendar
set_option maxRecDepth 100000 in
/-- days 45056 … 49151 -/
theorem chunk11 : allDepth calOK 45056 12 = true := by decide +kernel
end Wsp.Calendar
