import Wsp.Proofs.Calendar.Defs
namespace Wsp.Calendar
set_option maxRecDepth 100000 in
/-- days 12288 … 16383 -/
theorem chunk03 : allDepth calOK 12288 12 = true := by decide +kernel
end Wsp.Calendar
