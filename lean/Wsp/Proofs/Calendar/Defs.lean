import Wsp.Model.Text
namespace Wsp

/-! The civil-calendar core of the timestamp round trip, checked for every day of the
    uint32 range by kernel evaluation (`decide +kernel`) over a binary-splitting checker. -/

/-- days from 0000-03-01 (Nat only; agrees with `daysFromCivil + 719468` for years ≥ 1) -/
def daysNat (y m d : Nat) : Nat :=
  let y := if m ≤ 2 then y - 1 else y
  let era := y / 400
  let yoe := y - era * 400
  let mp := if m > 2 then m - 3 else m + 9
  let doy := (153 * mp + 2) / 5 + d - 1
  let doe := yoe * 365 + yoe / 4 - yoe / 100 + doy
  era * 146097 + doe

/-- the last day number a uint32 timestamp reaches is 49710 -/
def lastDay : Nat := 49710

/-- what must hold of day `z`: the date it prints as is a real date that parses back to `z` -/
def calOK (z : Nat) : Bool :=
  Nat.ble (lastDay + 1) z ||
  match civilFromDays z with
  | (y, m, d) =>
    Nat.beq (daysNat y m d) (z + 719468) && Nat.ble 1 m && Nat.ble m 12 && Nat.ble 1 d && Nat.ble d (daysIn y m) &&
    Nat.ble 1970 y && Nat.ble y 9999

/-- `p` holds on `[lo, lo + 2^d)` -/
def allDepth (p : Nat → Bool) : Nat → Nat → Bool
  | lo, 0 => p lo
  | lo, d+1 => allDepth p lo d && allDepth p (lo + 2 ^ d) d

theorem allDepth_sound (p : Nat → Bool) : ∀ (d lo : Nat), allDepth p lo d = true →
    ∀ i, lo ≤ i → i < lo + 2 ^ d → p i = true := by
  intro d
  induction d with
  | zero =>
    intro lo h i h1 h2
    have : i = lo := by simp at h2; omega
    subst this; simpa [allDepth] using h
  | succ d ih =>
    intro lo h i h1 h2
    simp only [allDepth, Bool.and_eq_true] at h
    have hp : 2 ^ (d + 1) = 2 ^ d + 2 ^ d := by rw [Nat.pow_succ]; omega
    by_cases hi : i < lo + 2 ^ d
    · exact ih lo h.1 i h1 hi
    · exact ih (lo + 2 ^ d) h.2 i (by omega) (by omega)

end Wsp
