import Wsp.Proofs.Calendar.Defs
namespace Wsp.Calendar
set_option maxRecDepth 100000 in
/-- days 36864 … 40959 -/
theorem chunk09 : allDepth calOK 36864 12 = true := by decide +kernel
end Wsp.Calendar
