import Wsp.Proofs.Calendar.Defs
namespace Wsp.Calendar
set_option maxRecDepth 100000 in
/-- days 28672 … 32767 -/
theorem chunk07 : allDepth calOK 28672 12 = true := by decide +kernel
end Wsp.Calendar
