import Wsp.Proofs.Calendar.Defs
namespace Wsp.Calendar
set_option maxRecDepth 100000 in
/-- days 24576 … 28671 -/
theorem chunk06 : allDepth calOK 24576 12 = true := by decide +kernel
end Wsp.Calendar
