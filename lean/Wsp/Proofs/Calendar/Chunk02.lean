import Wsp.Proofs.Calendar.Defs
namespace Wsp.Calendar
set_option maxRecDepth 100000 in
/-- days 8192 … 12287 -/
theorem chunk02 : allDepth calOK 8192 12 = true := by decide +kernel
end Wsp.Calendar
