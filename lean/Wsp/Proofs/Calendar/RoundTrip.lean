import Wsp.Proofs.Calendar.All
import Wsp.Proofs.TextLemmas
namespace Wsp

/-- the Int-valued `daysFromCivil` of the model agrees with the Nat-only version -/
theorem days_int_nat (y m d : Nat) (hy : 1 ≤ y) (hd : 1 ≤ d) : daysFromCivil y m d = (daysNat y m d : Int) - 719468 := by
  unfold daysFromCivil daysNat
  by_cases hm : m ≤ 2
  · have h1 : ¬ (m > 2) := by omega
    have hy0 : ((y : Int) - 1 ≥ 0) := by omega
    simp only [hm, h1, if_true, if_false, hy0]
    omega
  · have h1 : m > 2 := by omega
    have hy0 : ((y : Int) ≥ 0) := by omega
    simp only [hm, h1, if_true, if_false, hy0]
    omega

/-- what `calOK` says about an in-range day, as propositions -/
theorem cal_facts (z : Nat) (hz : z ≤ lastDay) :
    let c := civilFromDays z
    daysFromCivil c.1 c.2.1 c.2.2 = (z : Int) ∧ 1 ≤ c.2.1 ∧ c.2.1 ≤ 12 ∧ 1 ≤ c.2.2 ∧ c.2.2 ≤ daysIn c.1 c.2.1 ∧
    1970 ≤ c.1 ∧ c.1 ≤ 9999 := by
  have h := calOK_all z (by unfold lastDay at hz; omega)
  unfold calOK at h
  have hn : Nat.ble (lastDay + 1) z = false := by
    cases hb : Nat.ble (lastDay + 1) z with
    | false => rfl
    | true => have := Nat.le_of_ble_eq_true hb; omega
  rw [hn, Bool.false_or] at h
  cases hc : civilFromDays z with
  | mk y md =>
    obtain ⟨m, d⟩ := md
    simp only [hc] at h ⊢
    simp only [Bool.and_eq_true, Nat.ble_eq] at h
    obtain ⟨⟨⟨⟨⟨⟨h1, h2⟩, h3⟩, h4⟩, h5⟩, h6⟩, h7⟩ := h
    refine ⟨?_, h2, h3, h4, h5, h6, h7⟩
    have h1' : daysNat y m d = z + 719468 := Nat.eq_of_beq_eq_true h1
    rw [days_int_nat y m d (by omega) h4, h1']
    omega

/-! ### the text side: fixed-width decimal fields -/

theorem digitChar_zero : digitChar 0 = '0' := by decide

theorem showNat_lt10 (n : Nat) (h : n < 10) : showNat n = [digitChar n] := by
  rw [showNat]; simp [h]

theorem showNat_ge10 (n : Nat) (h : 10 ≤ n) : showNat n = showNat (n / 10) ++ [digitChar (n % 10)] := by
  rw [showNat]; simp [show ¬ n < 10 by omega]

theorem pad2_showNat (n : Nat) (h : n < 100) : pad 2 (showNat n) = [digitChar (n / 10), digitChar (n % 10)] := by
  by_cases h10 : n < 10
  · rw [showNat_lt10 n h10]
    have e1 : n / 10 = 0 := by omega
    have e2 : n % 10 = n := by omega
    simp [pad, e1, e2, digitChar_zero]
  · rw [showNat_ge10 n (by omega), showNat_lt10 (n / 10) (by omega)]
    simp [pad]

theorem pad4_showNat (n : Nat) (h1 : 1000 ≤ n) (h2 : n < 10000) :
    pad 4 (showNat n) = [digitChar (n / 1000), digitChar (n / 100 % 10), digitChar (n / 10 % 10), digitChar (n % 10)] := by
  rw [showNat_ge10 n (by omega), showNat_ge10 (n / 10) (by omega), showNat_ge10 (n / 10 / 10) (by omega),
    showNat_lt10 (n / 10 / 10 / 10) (by omega)]
  have e1 : n / 10 / 10 / 10 = n / 1000 := by omega
  have e2 : n / 10 / 10 % 10 = n / 100 % 10 := by omega
  simp [pad, e1, e2]

theorem takeDigits2 (a b : Nat) (ha : a < 10) (hb : b < 10) (rest : Str) :
    takeDigits 2 (digitChar a :: digitChar b :: rest) = some (a * 10 + b, rest) := by
  have fa := digit_facts a ha
  have fb := digit_facts b hb
  simp [takeDigits, fa.1, fa.2, fb.1, fb.2]

theorem takeDigits4 (a b c d : Nat) (ha : a < 10) (hb : b < 10) (hc : c < 10) (hd : d < 10) (rest : Str) :
    takeDigits 4 (digitChar a :: digitChar b :: digitChar c :: digitChar d :: rest) =
      some (a * 1000 + b * 100 + c * 10 + d, rest) := by
  have fa := digit_facts a ha
  have fb := digit_facts b hb
  have fc := digit_facts c hc
  have fd := digit_facts d hd
  simp [takeDigits, fa.1, fa.2, fb.1, fb.2, fc.1, fc.2, fd.1, fd.2]
  omega

theorem takeNum12_two (a b : Nat) (ha : a < 10) (hb : b < 10) (rest : Str) :
    takeNum12 (digitChar a :: digitChar b :: rest) = some (a * 10 + b, rest) := by
  have fa := digit_facts a ha
  have fb := digit_facts b hb
  simp [takeNum12, fa.1, fa.2, fb.1, fb.2]

/-- **parse ∘ print = id on every 32-bit timestamp** -/
theorem parseTimestamp_timestampString (t : Nat) (ht : t < 4294967296) :
    parseTimestamp (timestampString t) = some t := by
  have hz : t / 86400 ≤ lastDay := by unfold lastDay; omega
  have hc := cal_facts (t / 86400) hz
  unfold timestampString
  cases hcd : civilFromDays (t / 86400) with
  | mk y md =>
    obtain ⟨m, d⟩ := md
    simp only [hcd] at hc ⊢
    obtain ⟨hdays, hm1, hm2, hd1, hd2, hy1, hy2⟩ := hc
    have hd31 : d ≤ 31 := by
      have : daysIn y m ≤ 31 := by unfold daysIn; split <;> (try split) <;> omega
      omega
    have hsod : t % 86400 < 86400 := Nat.mod_lt _ (by omega)
    rw [pad4_showNat y (by omega) (by omega), pad2_showNat m (by omega), pad2_showNat d (by omega),
      pad2_showNat (t % 86400 / 3600) (by omega), pad2_showNat (t % 86400 / 60 % 60) (by omega),
      pad2_showNat (t % 86400 % 60) (by omega)]
    unfold parseTimestamp parseCivil
    simp only [List.cons_append, List.nil_append, List.append_assoc, bind, Option.bind, pure]
    rw [takeDigits4 _ _ _ _ (by omega) (by omega) (by omega) (by omega)]
    simp only [expect, if_true]
    rw [takeDigits2 _ _ (by omega) (by omega)]
    simp only [expect, if_true]
    rw [takeDigits2 _ _ (by omega) (by omega)]
    simp only [expect, if_true]
    rw [takeNum12_two _ _ (by omega) (by omega)]
    simp only [expect, if_true]
    rw [takeDigits2 _ _ (by omega) (by omega)]
    simp only [expect, if_true]
    rw [takeDigits2 _ _ (by omega) (by omega)]
    simp only [skipFraction, expect, if_true, List.length_nil]
    -- the fields read back are the numbers printed
    have ey : y / 1000 * 1000 + y / 100 % 10 * 100 + y / 10 % 10 * 10 + y % 10 = y := by omega
    have em : m / 10 * 10 + m % 10 = m := by omega
    have ed : d / 10 * 10 + d % 10 = d := by omega
    have eh : t % 86400 / 3600 / 10 * 10 + t % 86400 / 3600 % 10 = t % 86400 / 3600 := by omega
    have emi : t % 86400 / 60 % 60 / 10 * 10 + t % 86400 / 60 % 60 % 10 = t % 86400 / 60 % 60 := by omega
    have es : t % 86400 % 60 / 10 * 10 + t % 86400 % 60 % 10 = t % 86400 % 60 := by omega
    simp only [ey, em, ed, eh, emi, es]
    have hrange : ¬ (m < 1 ∨ m > 12 ∨ d < 1 ∨ d > daysIn y m ∨ t % 86400 / 3600 ≥ 24 ∨ t % 86400 / 60 % 60 ≥ 60 ∨ t % 86400 % 60 ≥ 60) := by
      omega
    simp only [ne_eq, not_true_eq_false, if_false, hrange, hdays]
    have hsec : ((t / 86400 : Nat) : Int) * 86400 + ((t % 86400 / 3600 * 3600 + t % 86400 / 60 % 60 * 60 + t % 86400 % 60 : Nat) : Int) = (t : Int) := by
      omega
    simp only [hsec]
    have : ¬ ((t : Int) < 0 ∨ (t : Int) > 4294967295) := by omega
    simp [this]

end Wsp
