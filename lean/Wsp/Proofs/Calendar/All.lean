import Wsp.Proofs.Calendar.Defs
import Wsp.Proofs.Calendar.Chunk00
import Wsp.Proofs.Calendar.Chunk01
import Wsp.Proofs.Calendar.Chunk02
import Wsp.Proofs.Calendar.Chunk03
import Wsp.Proofs.Calendar.Chunk04
import Wsp.Proofs.Calendar.Chunk05
import Wsp.Proofs.Calendar.Chunk06
import Wsp.Proofs.Calendar.Chunk07
import Wsp.Proofs.Calendar.Chunk08
import Wsp.Proofs.Calendar.Chunk09
import Wsp.Proofs.Calendar.Chunk10
import Wsp.Proofs.Calendar.Chunk11
import Wsp.Proofs.Calendar.Chunk12
namespace Wsp

/-- every day of the uint32 range prints as a real date that parses back to it -/
theorem calOK_all (z : Nat) (hz : z < 53248) : calOK z = true := by
  if h0 : z < 4096 then
    exact allDepth_sound calOK 12 0 Calendar.chunk00 z (by omega) (by omega)
  else
  if h1 : z < 8192 then
    exact allDepth_sound calOK 12 4096 Calendar.chunk01 z (by omega) (by omega)
  else
  if h2 : z < 12288 then
    exact allDepth_sound calOK 12 8192 Calendar.chunk02 z (by omega) (by omega)
  else
  if h3 : z < 16384 then
    exact allDepth_sound calOK 12 12288 Calendar.chunk03 z (by omega) (by omega)
  else
  if h4 : z < 20480 then
    exact allDepth_sound calOK 12 16384 Calendar.chunk04 z (by omega) (by omega)
  else
  if h5 : z < 24576 then
    exact allDepth_sound calOK 12 20480 Calendar.chunk05 z (by omega) (by omega)
  else
  if h6 : z < 28672 then
    exact allDepth_sound calOK 12 24576 Calendar.chunk06 z (by omega) (by omega)
  else
  if h7 : z < 32768 then
    exact allDepth_sound calOK 12 28672 Calendar.chunk07 z (by omega) (by omega)
  else
  if h8 : z < 36864 then
    exact allDepth_sound calOK 12 32768 Calendar.chunk08 z (by omega) (by omega)
  else
  if h9 : z < 40960 then
    exact allDepth_sound calOK 12 36864 Calendar.chunk09 z (by omega) (by omega)
  else
  if h10 : z < 45056 then
    exact allDepth_sound calOK 12 40960 Calendar.chunk10 z (by omega) (by omega)
  else
  if h11 : z < 49152 then
    exact allDepth_sound calOK 12 45056 Calendar.chunk11 z (by omega) (by omega)
  else
  if h12 : z < 53248 then
    exact allDepth_sound calOK 12 49152 Calendar.chunk12 z (by omega) (by omega)
  else
    omega

end Wsp
