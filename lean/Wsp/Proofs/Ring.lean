import Wsp.Proofs.Layout
namespace Wsp
open Handle C14

/-! The ring: how the two-branch read of ⟦fetchRawPoints⟧ walks the slots modulo N, and
    what a fetch returns in terms of the slots (R2 of DESIGN §3.1). -/

/-- the decoded slot `i` of archive `a` in the handle's view -/
def slotAt (h : Handle) (a : Arch) (i : Nat) : Point :=
  ⟨de32 (h.view.drop (a.offset + 12 * i)), de64 ((h.view.drop (a.offset + 12 * i)).drop 4)⟩

theorem de32_take12 (l : Bytes) : de32 (l.take 12) = de32 l := de32_take l 12 (by omega)

theorem de64_take12 (l : Bytes) : de64 ((l.take 12).drop 4) = de64 (l.drop 4) := by
  unfold de64
  rw [List.drop_take, de32_take _ _ (by omega), List.drop_drop, List.drop_take, List.drop_drop,
    de32_take _ _ (by omega)]

theorem readPointAt_slot (h : Handle) (a : Arch) (i : Nat) (hb : a.offset + 12 * i + 12 ≤ h.view.length) :
    h.readPointAt (a.offset + 12 * i) = .ok (slotAt h a i) := by
  unfold readPointAt readAt
  have : ¬ (a.offset + 12 * i + 12 > h.view.length) := by omega
  simp only [this, if_false]
  unfold slotAt
  rw [de32_take12, de64_take12]

theorem readPoints_slots (h : Handle) (a : Arch) (is : List Nat)
    (hb : ∀ i ∈ is, a.offset + 12 * i + 12 ≤ h.view.length) :
    h.readPoints (is.map fun i => a.offset + 12 * i) = .ok (is.map (slotAt h a)) := by
  induction is with
  | nil => rfl
  | cons i is ih =>
    simp only [List.map_cons, readPoints, readPointAt_slot h a i (hb i (by simp)),
      ih (fun j hj => hb j (by simp [hj]))]

/-- `offsRange` between two slot offsets of one archive is the run of slots between them -/
theorem offsRange_slots (off j0 j1 : Nat) (h : j0 ≤ j1) :
    offsRange (off + 12 * j0) (off + 12 * j1) = (List.range (j1 - j0)).map fun i => off + 12 * (j0 + i) := by
  unfold offsRange
  have : (off + 12 * j1 - (off + 12 * j0) + 11) / 12 = j1 - j0 := by omega
  rw [this]
  apply List.map_congr_left
  intro i _
  omega

/-- consecutive ring positions starting at `j0` -/
def ringIdx (n j0 count : Nat) : List Nat := (List.range count).map fun i => (j0 + i) % n

theorem ringIdx_nowrap (n j0 count : Nat) (h : j0 + count ≤ n) :
    ringIdx n j0 count = (List.range count).map fun i => j0 + i := by
  unfold ringIdx
  apply List.map_congr_left
  intro i hi
  simp at hi
  exact Nat.mod_eq_of_lt (by omega)

theorem ringIdx_wrap (n j0 count : Nat) (hj : j0 < n) (h1 : n ≤ j0 + count) (h2 : count ≤ n) :
    ringIdx n j0 count = ((List.range (n - j0)).map fun i => j0 + i) ++ (List.range (j0 + count - n)) := by
  unfold ringIdx
  have hc : count = (n - j0) + (j0 + count - n) := by omega
  conv => lhs; rw [hc, List.range_add, List.map_append]
  congr 1
  · apply List.map_congr_left
    intro i hi; simp at hi
    exact Nat.mod_eq_of_lt (by omega)
  · rw [List.map_map]
    have : (List.range (j0 + count - n)) = (List.range (j0 + count - n)).map id := by simp
    conv => rhs; rw [this]
    apply List.map_congr_left
    intro i hi; simp at hi
    simp only [Function.comp, id]
    have : j0 + (n - j0 + i) = n + i := by omega
    rw [this, Nat.add_mod_left]
    exact Nat.mod_eq_of_lt (by omega)

/-- the offsets read by the two-branch loop are the `count` consecutive ring slots starting
    at the slot of `fromI` — for any window of at most `N` intervals -/
theorem rawOffsets_ring (a : Arch) (j0 count : Nat) (hn : 0 < a.n) (hj0 : j0 < a.n)
    (hc1 : 0 < count) (hc2 : count ≤ a.n) (hfit : a.offset + 12 * a.n ≤ 4294967295)
    (fromOff untilOff : Nat) (hf : fromOff = a.offset + 12 * j0)
    (hu : untilOff = a.offset + 12 * ((j0 + count) % a.n)) :
    (if fromOff < untilOff then offsRange fromOff untilOff
     else offsRange fromOff (u32 ((a.offset : Int) + (u32 ((a.n : Int) * 12) : Int))) ++ offsRange a.offset untilOff)
      = (ringIdx a.n j0 count).map fun i => a.offset + 12 * i := by
  have hend : u32 ((a.offset : Int) + (u32 ((a.n : Int) * 12) : Int)) = a.offset + 12 * a.n := by
    have e1 : (u32 ((a.n : Int) * 12) : Int) = (a.n : Int) * 12 := u32_id _ (by omega) (by omega)
    rw [e1]
    have := u32_id ((a.offset : Int) + (a.n : Int) * 12) (by omega) (by omega)
    omega
  subst hf hu
  rw [hend]
  by_cases hw : j0 + count < a.n
  · -- no wrap
    have hm : (j0 + count) % a.n = j0 + count := Nat.mod_eq_of_lt hw
    rw [hm]
    have : a.offset + 12 * j0 < a.offset + 12 * (j0 + count) := by omega
    simp only [this, if_true]
    rw [offsRange_slots a.offset j0 (j0 + count) (by omega), ringIdx_nowrap a.n j0 count (by omega)]
    rw [List.map_map]
    have : j0 + count - j0 = count := by omega
    rw [this]; rfl
  · -- wrap: (j0 + count) % n = j0 + count - n ≤ j0
    have hm : (j0 + count) % a.n = j0 + count - a.n := by
      rw [Nat.mod_eq_sub_mod (by omega)]
      exact Nat.mod_eq_of_lt (by omega)
    rw [hm]
    have : ¬ (a.offset + 12 * j0 < a.offset + 12 * (j0 + count - a.n)) := by omega
    simp only [this, if_false]
    rw [offsRange_slots a.offset j0 a.n (by omega)]
    have h0 : offsRange a.offset (a.offset + 12 * (j0 + count - a.n)) =
        (List.range (j0 + count - a.n)).map fun i => a.offset + 12 * i := by
      have := offsRange_slots a.offset 0 (j0 + count - a.n) (by omega)
      simpa using this
    rw [h0, ringIdx_wrap a.n j0 count hj0 (by omega) hc2, List.map_append, List.map_map]
    rfl

/-- the zone in which a window `[fromI, untilI)` of archive `a` is read relative to `base` -/
structure RingZone (a : Arch) (base fI uI : Nat) : Prop where
  hs : 0 < a.step
  hn : 0 < a.n
  hr : a.step * (a.n : Int) ≤ 2147483647
  hb : base < 2147483648
  hu : uI < 2147483648
  hlt : fI < uI
  hspan : (uI : Int) - fI ≤ a.step * (a.n : Int)
  hal1 : a.step ∣ ((fI : Int) - (base : Int))
  hal2 : a.step ∣ ((uI : Int) - (fI : Int))

/-- slot index of an interval relative to `base`, as a natural number -/
def slotIdx (a : Arch) (base iv : Nat) : Nat := (a.pointIndex base iv).toNat

/-- number of intervals in the window -/
def winCount (a : Arch) (fI uI : Nat) : Nat := (((uI : Int) - (fI : Int)) / a.step).toNat

theorem RingZone.count_range {a : Arch} {base fI uI : Nat} (z : RingZone a base fI uI) :
    0 < winCount a fI uI ∧ winCount a fI uI ≤ a.n ∧
    ((winCount a fI uI : Nat) : Int) = ((uI : Int) - fI) / a.step ∧
    ((uI : Int) - fI) = a.step * (winCount a fI uI : Int) := by
  obtain ⟨q, hq⟩ := z.hal2
  have hs := z.hs
  have hdiv : ((uI : Int) - fI) / a.step = q := by
    rw [hq]; exact Int.mul_ediv_cancel_left q (by omega)
  have hlt := z.hlt
  have hqpos : 0 < q := by
    by_cases h : 0 < q
    · exact h
    · exfalso
      have : a.step * q ≤ 0 := Int.mul_nonpos_of_nonneg_of_nonpos (by omega) (by omega)
      omega
  have hqle : q ≤ a.n := by
    have hsp := z.hspan
    rw [hq] at hsp
    exact Int.le_of_mul_le_mul_left hsp hs
  unfold winCount
  rw [hdiv]
  refine ⟨by omega, by omega, by omega, ?_⟩
  rw [hq]
  have : ((q.toNat : Nat) : Int) = q := by omega
  rw [this]

theorem RingZone.idx_from {a : Arch} {base fI uI : Nat} (z : RingZone a base fI uI) :
    a.pointIndex base fI = (((fI : Int) - (base : Int)) / a.step) % (a.n : Int) ∧
    slotIdx a base fI < a.n := by
  have hfl : fI < 2147483648 := by have := z.hlt; have := z.hu; omega
  have h1 : a.pointIndex base fI = (((fI : Int) - (base : Int)) / a.step) % (a.n : Int) := by
    unfold Arch.pointIndex
    rw [tsSub_ideal fI base hfl z.hb, Int.tdiv_eq_ediv_of_dvd z.hal1, floorMod_pos _ _ (by have := z.hn; omega)]
  obtain ⟨r0, r1⟩ := pointIndex_range a z.hn base fI
  refine ⟨h1, ?_⟩
  unfold slotIdx; omega

theorem RingZone.idx_until {a : Arch} {base fI uI : Nat} (z : RingZone a base fI uI) :
    slotIdx a base uI = (slotIdx a base fI + winCount a fI uI) % a.n := by
  have hn := z.hn
  have hfl : fI < 2147483648 := by have := z.hlt; have := z.hu; omega
  obtain ⟨hf, _⟩ := z.idx_from
  obtain ⟨_, _, hcnt, hmul⟩ := z.count_range
  have hal3 : a.step ∣ ((uI : Int) - (base : Int)) := by
    have : (uI : Int) - base = ((fI : Int) - base) + ((uI : Int) - fI) := by omega
    rw [this]; exact Int.dvd_add z.hal1 z.hal2
  have hu : a.pointIndex base uI = (((uI : Int) - (base : Int)) / a.step) % (a.n : Int) := by
    unfold Arch.pointIndex
    rw [tsSub_ideal uI base z.hu z.hb, Int.tdiv_eq_ediv_of_dvd hal3, floorMod_pos _ _ (by omega)]
  have hq : ((uI : Int) - base) / a.step = ((fI : Int) - base) / a.step + (winCount a fI uI : Int) := by
    have : (uI : Int) - base = ((fI : Int) - base) + a.step * (winCount a fI uI : Int) := by omega
    rw [this, Int.add_mul_ediv_left _ _ (by have := z.hs; omega)]
  obtain ⟨r0, r1⟩ := pointIndex_range a hn base fI
  obtain ⟨u0, u1⟩ := pointIndex_range a hn base uI
  unfold slotIdx
  have key : a.pointIndex base uI = (a.pointIndex base fI + (winCount a fI uI : Int)) % (a.n : Int) := by
    rw [hu, hq, hf, Int.emod_add_emod]
  have : ((a.pointIndex base uI).toNat : Int) =
      (((a.pointIndex base fI).toNat + winCount a fI uI : Nat) : Int) % (a.n : Int) := by
    have e1 : ((a.pointIndex base fI).toNat : Int) = a.pointIndex base fI := by omega
    have e2 : ((a.pointIndex base uI).toNat : Int) = a.pointIndex base uI := by omega
    rw [e2, key]
    push_cast
    rw [e1]
  exact_mod_cast this

/-- **R2**: inside the zone, ⟦fetchRawPoints⟧ returns the `count` consecutive ring slots
    starting at the slot of `fromI`. -/
theorem fetchRawPoints_ring (h : Handle) (a : Arch) (base fI uI : Nat) (z : RingZone a base fI uI)
    (hbase : h.baseInterval a = .ok base)
    (hsz : a.offset + 12 * a.n ≤ h.view.length) (hfit : a.offset + 12 * a.n ≤ 4294967295) :
    h.fetchRawPoints a fI uI =
      .ok ((ringIdx a.n (slotIdx a base fI) (winCount a fI uI)).map (slotAt h a)) := by
  obtain ⟨hc1, hc2, hcnt, _⟩ := z.count_range
  obtain ⟨_, hj0⟩ := z.idx_from
  have hfl : fI < 2147483648 := by have := z.hlt; have := z.hu; omega
  unfold fetchRawPoints
  simp only [hbase]
  have hcount : Int.tdiv (tsSub uI fI) a.step = (winCount a fI uI : Int) := by
    rw [tsSub_ideal uI fI z.hu hfl, Int.tdiv_eq_ediv_of_dvd z.hal2, hcnt]
  rw [hcount]
  have hneg : ¬ ((winCount a fI uI : Int) < 0) := by omega
  simp only [hneg, if_false, Int.toNat_natCast]
  -- the offsets
  obtain ⟨f0, f1⟩ := pointIndex_range a z.hn base fI
  obtain ⟨u0, u1⟩ := pointIndex_range a z.hn base uI
  have hoffs : rawOffsets a base fI uI =
      (ringIdx a.n (slotIdx a base fI) (winCount a fI uI)).map fun i => a.offset + 12 * i := by
    unfold rawOffsets
    exact rawOffsets_ring a (slotIdx a base fI) (winCount a fI uI) z.hn hj0 hc1 hc2 hfit _ _
      (pointOffsetAt_ideal a _ f0 f1 hfit)
      (by rw [pointOffsetAt_ideal a _ u0 u1 hfit, ← z.idx_until]; rfl)
  rw [hoffs]
  have hlen : ((ringIdx a.n (slotIdx a base fI) (winCount a fI uI)).map fun i => a.offset + 12 * i).length
      = winCount a fI uI := by simp [ringIdx]
  simp only [hlen, Nat.lt_irrefl, if_false, gt_iff_lt]
  have hb : ∀ i ∈ ringIdx a.n (slotIdx a base fI) (winCount a fI uI), a.offset + 12 * i + 12 ≤ h.view.length := by
    intro i hi
    simp [ringIdx] at hi
    obtain ⟨k, _, rfl⟩ := hi
    have := Nat.mod_lt (slotIdx a base fI + k) z.hn
    omega
  rw [readPoints_slots h a _ hb]
  simp

/-! ### clearOldPoints and the values of a fetch -/

theorem clearOldPoints_ring (s : Nat) (hs : 0 < s) (f : Nat → Point) :
    ∀ (n k cur : Nat), cur + s * n < 4294967296 →
    (clearOldPoints (s : Int) cur ((List.range' k n).map f)).map (·.v) =
      (List.range' k n).map fun i => if (f i).t = cur + s * (i - k) then (f i).v else nanBits := by
  intro n
  induction n with
  | zero => intro k cur _; rfl
  | succ n ih =>
    intro k cur hb
    have hnext : tsAdd cur (s : Int) = cur + s := by
      have := tsAdd_ideal cur (s : Int) (by omega) (by
        have : s * (n + 1) = s * n + s := by rw [Nat.mul_add, Nat.mul_one]
        omega)
      omega
    rw [List.range'_succ]
    simp only [List.map_cons, clearOldPoints]
    congr 1
    · by_cases ht : (f k).t = cur <;> simp [ht]
    · rw [hnext, ih (k + 1) (cur + s) (by
        have : s * (n + 1) = s * n + s := by rw [Nat.mul_add, Nat.mul_one]
        omega)]
      apply List.map_congr_left
      intro i hi
      have hik : k + 1 ≤ i := by
        rw [List.mem_range'_1] at hi; exact hi.1
      have : cur + s + s * (i - (k + 1)) = cur + s * (i - k) := by
        have : i - k = (i - (k + 1)) + 1 := by omega
        rw [this, Nat.mul_add, Nat.mul_one]; omega
      rw [this]

end Wsp
