import Wsp.Proofs.BytesLemmas
namespace Wsp

/-! Round trips of the codecs, with arbitrary trailing bytes. -/

theorem decTimestamp_enc (t : Nat) (h : t < 4294967296) (rest : Bytes) :
    decTimestamp (encTimestamp t ++ rest) = .ok (t, rest) := by
  simp [decTimestamp, encTimestamp, de32_be32_append t h]

theorem decDuration_enc (d : Int) (h1 : -2147483648 ≤ d) (h2 : d < 2147483648) (rest : Bytes) :
    decDuration (encDuration d ++ rest) = .ok (d, rest) := by
  simp [decDuration, encDuration, de32_be32_append _ (u32_lt d), i32_u32 d h1 h2]

theorem decValue_enc (v : Val) (rest : Bytes) :
    decValue (encValue v ++ rest) = .ok (v, rest) := by
  simp [decValue, encValue, de64_be64_append]

@[simp] theorem encPoint_length (p : Point) : (encPoint p).length = 12 := by
  simp [encPoint, encTimestamp, encValue]

theorem drop4_be32_append' (n : Nat) (rest : Bytes) : List.drop 4 (be32 n ++ rest) = rest :=
  drop4_be32_append n rest

theorem drop12_be32_be64 (n : Nat) (v : Val) (rest : Bytes) :
    List.drop 12 (be32 n ++ (be64 v ++ rest)) = rest := by
  simp [be32, be64]

theorem decPoint_enc (p : Point) (h : p.t < 4294967296) (rest : Bytes) :
    decPoint (encPoint p ++ rest) = .ok (p, rest) := by
  unfold decPoint
  have hl : ¬ (encPoint p ++ rest).length < 12 := by simp
  simp only [hl, if_false]
  simp only [encPoint, encTimestamp, encValue, List.append_assoc,
    de32_be32_append _ h, drop4_be32_append, de64_be64_append, drop12_be32_be64]

@[simp] theorem encValues_length (vs : List Val) : (encValues vs).length = 8 * vs.length := by
  induction vs with
  | nil => simp [encValues]
  | cons v vs ih => simp [encValues, encValue, ih]; omega

theorem decValues_enc (vs : List Val) (rest : Bytes) :
    decValues vs.length (encValues vs ++ rest) = .ok (vs, rest) := by
  induction vs with
  | nil => simp [decValues, encValues]
  | cons v vs ih =>
    simp [decValues, encValues, List.append_assoc, decValue_enc, ih]

@[simp] theorem encPointsBody_length (ps : List Point) : (encPointsBody ps).length = 12 * ps.length := by
  induction ps with
  | nil => simp [encPointsBody]
  | cons p ps ih => simp [encPointsBody, ih]; omega

theorem decPointsBody_enc (ps : List Point) (h : ∀ p ∈ ps, p.t < 4294967296) (rest : Bytes) :
    decPointsBody ps.length (encPointsBody ps ++ rest) = .ok (ps, rest) := by
  induction ps with
  | nil => simp [decPointsBody, encPointsBody]
  | cons p ps ih =>
    have hp := h p (by simp)
    have ih' := ih (fun q hq => h q (by simp [hq]))
    simp [decPointsBody, encPointsBody, List.append_assoc, decPoint_enc p hp, ih']

/-- well-formed series: what every fetch returns (see `C04`) -/
structure SeriesWF (s : Series) : Prop where
  f_lt : s.from_ < 4294967296
  u_lt : s.until_ < 4294967296
  le : s.from_ ≤ s.until_
  step_pos : 0 < s.step
  step_lt : s.step < 2147483648
  len : s.values.length = (Int.tdiv ((s.until_ : Int) - (s.from_ : Int)) s.step).toNat

theorem encSeries_length (s : Series) : (encSeries (some s)).length = 12 + 8 * s.values.length := by
  simp [encSeries, encTimestamp, encDuration]; omega

theorem drop8_be32_be32 (a b : Nat) (rest : Bytes) : List.drop 8 (be32 a ++ (be32 b ++ rest)) = rest := by
  simp [be32]

theorem drop12_be32x3 (a b c : Nat) (rest : Bytes) :
    List.drop 12 (be32 a ++ (be32 b ++ (be32 c ++ rest))) = rest := by
  simp [be32]

theorem drop16_be32x4 (a b c d : Nat) (rest : Bytes) :
    List.drop 16 (be32 a ++ (be32 b ++ (be32 c ++ (be32 d ++ rest)))) = rest := by
  simp [be32]

theorem decSeries_enc (s : Series) (wf : SeriesWF s) (rest : Bytes) :
    decSeries (encSeries (some s) ++ rest) = .ok (s, rest) := by
  obtain ⟨hf, hu, hle, hsp, hsl, hlen⟩ := wf
  have hl : ¬ (encSeries (some s) ++ rest).length < 12 := by
    rw [List.length_append, encSeries_length]; omega
  unfold decSeries
  simp only [hl, if_false]
  simp only [encSeries, encTimestamp, encDuration, List.append_assoc, de32_be32_append _ hf,
    drop4_be32_append, de32_be32_append _ hu, drop8_be32_be32, de32_be32_append _ (u32_lt s.step),
    drop12_be32x3, i32_u32 s.step (by omega) hsl]
  have h0 : ¬ (s.step = 0 ∧ s.from_ = s.until_) := by omega
  have h1 : ¬ s.step ≤ 0 := by omega
  have h2 : ¬ s.until_ < s.from_ := by omega
  simp only [h0, h1, h2, if_false, ← hlen]
  have h3 : ¬ (encValues s.values ++ rest).length < s.values.length * 8 := by
    simp; omega
  simp only [h3, if_false, decValues_enc]

theorem decSeries_absent (rest : Bytes) :
    decSeries (encSeries none ++ rest) = .ok (⟨0, 0, 0, []⟩, rest) := by
  have hl : ¬ (encSeries none ++ rest).length < 12 := by
    simp [encSeries, encTimestamp, encDuration]; omega
  unfold decSeries
  simp only [hl, if_false]
  have e0 : u32 0 = 0 := by decide
  simp only [encSeries, encTimestamp, encDuration, List.append_assoc, e0,
    de32_be32_append 0 (by omega), drop4_be32_append, drop8_be32_be32, drop12_be32x3]
  simp [i32]

theorem de32_take (l : Bytes) (k : Nat) (h : 4 ≤ k) : de32 (l.take k) = de32 l := by
  obtain ⟨k', rfl⟩ : ∃ k', k = k' + 4 := ⟨k - 4, by omega⟩
  match l with
  | [] => simp
  | [a] => simp [de32]
  | [a, b] => simp [de32]
  | [a, b, c] => simp [de32]
  | a :: b :: c :: d :: r => simp [de32, List.take]

end Wsp
