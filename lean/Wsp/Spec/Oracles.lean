/-
  Executable specifications evaluated on the implementation's own observations
  (the relational oracles of DESIGN §6.1: they need no model state).
-/
import Wsp.Model.Whisper
namespace Wsp.Spec

/-- C20: what a generated file must look like, checked on the series fetched from it over
    each archive's whole retention.  `none` = satisfied; `some clause` = violated. -/
def genCheckArchive (o : FOps) (fill : Bool) (bound : Nat) (k : Nat) (s : Series) : Option String :=
  if !fill then
    if s.values.all o.isNaN then none else some s!"archive {k}: a slot is not empty although fill is off"
  else
    let bad := s.values.any fun v => o.isNaN v || o.lt v (o.ofNat 0) || o.lt (o.ofNat bound) v
    if bad then some s!"archive {k}: a slot is empty, negative or larger than {bound}" else none

/-- the value at interval `t` of a series, if the series covers it -/
def valueAt (s : Series) (t : Nat) : Option Val :=
  if t < s.from_ ∨ s.step ≤ 0 then none else
  let d := t - s.from_
  if d % s.step.toNat ≠ 0 then none else s.values[d / s.step.toNat]?

/-- every coarser slot fully covered by retained finer slots equals their sum -/
def sumsConsistent (o : FOps) (k : Nat) (fine coarse : Series) : Option String :=
  if fine.step ≤ 0 ∨ coarse.step ≤ 0 then some "bad step" else
  let ratio := coarse.step.toNat / fine.step.toNat
  let bad := (List.range coarse.values.length).any fun i =>
    let T := coarse.from_ + i * coarse.step.toNat
    let parts := (List.range ratio).map fun j => valueAt fine (T + j * fine.step.toNat)
    if parts.all Option.isSome then
      let sum := parts.foldl (fun acc p => o.add acc (p.getD 0)) (o.ofNat 0)
      match coarse.values[i]? with
      | some v => !o.eq v sum
      | none => false
    else false
  if bad then some s!"archive {k + 1}: a slot fully covered by archive {k} is not the sum of its slots" else none

def genCheck (o : FOps) (lay : List (Int × Nat)) (max : Nat) (fill : Bool) (series : List Series) : Option String :=
  if series.length ≠ lay.length then some "one series per archive expected" else
  match lay with
  | [] => some "empty layout"
  | (s0, _) :: _ =>
    let per := (series.zipIdx.zip lay).findSome? fun ((s, k), (st, n)) =>
      if s.step ≠ st then some s!"archive {k}: step {s.step} instead of {st}"
      else if s.values.length ≠ n then some s!"archive {k}: {s.values.length} slots in the retention instead of {n}"
      else genCheckArchive o fill (max * st.toNat / s0.toNat) k s
    match per with
    | some e => some e
    | none =>
      if !fill then none else
      (List.range (series.length - 1)).findSome? fun k =>
        match series[k]?, series[k + 1]? with
        | some f, some c => sumsConsistent o k f c
        | _, _ => none

def parseSeries (s : String) : Option Series :=
  match s.splitOn "/" with
  | [f, u, st, vs] => do
    let f ← f.toNat?; let u ← u.toNat?; let st ← st.toInt?
    let vals ← (if vs = "-" then some [] else (vs.splitOn ",").mapM fun h =>
      (h.toList.foldlM (fun acc c =>
        let d := if '0' ≤ c ∧ c ≤ '9' then some (c.toNat - 48) else if 'a' ≤ c ∧ c ≤ 'f' then some (c.toNat - 87) else none
        d.map fun v => acc * 16 + v) 0).map UInt64.ofNat)
    return ⟨f, u, st, vals⟩
  | _ => none

def kvOf (toks : List String) (k : String) : Option String :=
  toks.findSome? fun t => if t.startsWith (k ++ "=") then some (t.drop (k.length + 1)).toString else none

def stepSpec (o : FOps) (toks : List String) : Option String :=
  match toks with
  | "genspec" :: rest => do
    let lay ← (← kvOf rest "lay").splitOn "," |>.mapM fun p =>
      match p.splitOn ":" with
      | [a, b] => do let x ← a.toInt?; let y ← b.toNat?; return (x, y)
      | _ => none
    let max ← (← kvOf rest "max").toNat?
    let fill := kvOf rest "fill" == some "1"
    let series ← ((← kvOf rest "series").splitOn ";").mapM parseSeries
    match genCheck o lay max fill series with
    | none => return "ok"
    | some e => return "violates " ++ e
  | _ => none

end Wsp.Spec
