/-
  Executable specifications evaluated on the implementation's own observations
  (the relational oracles of DESIGN §6.1: they need no model state).
-/
import Wsp.Model.Whisper
namespace Wsp.Spec

def stepSpec (_o : FOps) (_toks : List String) : Option String := none

end Wsp.Spec
