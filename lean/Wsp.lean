import Wsp.Model.Arith
import Wsp.Model.Bytes
import Wsp.Model.Value
import Wsp.Model.Codec
import Wsp.Model.Whisper
import Wsp.Model.Text
import Wsp.Model.Cmd
import Wsp.Spec.Oracles
