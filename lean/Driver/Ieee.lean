/-
  The IEEE-754 instance of `FOps` used by the driver (trusted: Lean's `Float`/`Float32`
  are the same binary64/binary32 formats as Go's float64/float32).  A NaN produced by
  arithmetic has canonical bits here; the harness compares NaNs as a class.
-/
import Wsp.Model.Value
namespace Wsp

def FOps.ieee : FOps where
  add a b := (Float.ofBits a + Float.ofBits b).toBits
  sub a b := (Float.ofBits a - Float.ofBits b).toBits
  divNat v n := (Float.ofBits v / Float.ofNat n).toBits
  lt a b := decide (Float.ofBits a < Float.ofBits b)
  eq a b := Float.ofBits a == Float.ofBits b
  isNaN v := (Float.ofBits v).isNaN
  ofNat n := (Float.ofNat n).toBits
  xffLess k t x := decide (Float32.ofNat k / Float32.ofNat t < Float32.ofBits x)
  xffValid x := decide ((0 : Float32) ≤ Float32.ofBits x) && decide (Float32.ofBits x ≤ (1 : Float32))

end Wsp
