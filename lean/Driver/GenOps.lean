/-
  driver side of the generator model: `genpts lay=S:N,... max=M until=U now=T draws=d,d,...`
  prints the points ⟦randomPointsList⟧ produces for that random stream.
-/
import Wsp.Model.Gen
namespace Wsp.GenDrv
open Wsp.Gen

def kvOf (toks : List String) (k : String) : Option String :=
  toks.findSome? fun t => if t.startsWith (k ++ "=") then some (t.drop (k.length + 1)).toString else none

def natList (s : String) : Option (List Nat) :=
  if s = "-" ∨ s = "" then some [] else (s.splitOn ",").mapM fun x => x.toNat?

def showPts (ps : List GP) : String :=
  if ps.isEmpty then "-" else ",".intercalate (ps.map fun p => s!"{p.t}:{p.v}")

def stepGen (toks : List String) : Option String :=
  match toks with
  | "genpts" :: rest => do
    let lay ← (← kvOf rest "lay").splitOn "," |>.mapM fun p =>
      match p.splitOn ":" with
      | [a, b] => do let x ← a.toNat?; let y ← b.toNat?; return (⟨x, y⟩ : GA)
      | _ => none
    let max ← (← kvOf rest "max").toNat?
    let until_ ← (← kvOf rest "until").toNat?
    let now ← (← kvOf rest "now").toNat?
    let ds ← natList (← kvOf rest "draws")
    match pointsList lay max until_ now ds with
    | none => return "panic"
    | some pl => return "ok " ++ ";".intercalate (pl.map showPts)
  | _ => none

end Wsp.GenDrv
