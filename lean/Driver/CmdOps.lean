/-
  Driver operations of the command layer: `use <file>` selects the file the library
  operations act on; `cmd ...` runs a command model over the tree.
-/
import Wsp.Model.Cmd
import Driver.Ieee
namespace Wsp.CmdDrv
open Wsp Wsp.Cmd

def ocStr : Outcome → String
  | .ok => "ok" | .diffFound => "difffound" | .panic => "panic"
  | .err .notExist => "err notexist"
  | .err _ => "err"

def hex16 (v : Val) : String :=
  let hd (n : Nat) : Char := if n < 10 then Char.ofNat (48 + n) else Char.ofNat (87 + n)
  String.ofList ((List.range 16).reverse.map fun i => hd (v.toNat / 16 ^ i % 16))

def recStr (r : Rec) : String :=
  match r.v2 with
  | none => s!"{r.arch}:{r.t}:{hex16 r.v}"
  | some (d, m) => s!"{r.arch}:{r.t}:{hex16 r.v}:{hex16 d}:{hex16 m}"

def recsStr (rs : List Rec) : String := if rs.isEmpty then "-" else ",".intercalate (rs.map recStr)

def hdrStr : Option Header → String
  | none => "-"
  | some h => s!"{h.agg}/{h.maxRet}/{h.xff.toNat}/" ++ ",".intercalate (h.archives.map fun a => s!"{a.offset}:{a.step}:{a.n}")

def parseLayC (s : String) : Option (List (Int × Nat)) :=
  if s = "-" then some [] else
  (s.splitOn ",").mapM fun part =>
    match part.splitOn ":" with
    | [a, b] => do let x ← a.toInt?; let y ← b.toNat?; return (x, y)
    | _ => none

def splitList (s : String) : List String := if s = "-" then [] else s.splitOn ","

def parsePairs (s : String) : Option (List (String × String)) :=
  (splitList s).mapM fun p => match p.splitOn ">" with | [a, b] => some (a, b) | _ => none

/-- items: `f1+f2>dst;f3>dst2` -/
def parseItems (s : String) : Option (List (List String × String)) :=
  (if s = "-" then [] else s.splitOn ";").mapM fun p =>
    match p.splitOn ">" with
    | [fs, d] => some ((if fs = "" then [] else fs.splitOn "+"), d)
    | _ => none

def kv (toks : List String) (k : String) : Option String :=
  toks.findSome? fun t => if t.startsWith (k ++ "=") then some (t.drop (k.length + 1)).toString else none

def window (toks : List String) : Option Window := do
  let a ← (← kv toks "archive").toInt?
  let f ← (← kv toks "from").toNat?
  let u ← (← kv toks "until").toNat?
  let n ← (← kv toks "now").toNat?
  return ⟨a, f, u, n⟩

def copyOpts (toks : List String) : Option CopyOpts := do
  let agg ← (← kv toks "agg").toNat?
  let xff ← (← kv toks "xff").toNat?
  let lay ← parseLayC (← kv toks "lay")
  let cn := (kv toks "copynan") == some "1"
  return ⟨agg, UInt32.ofNat xff, lay, cn⟩

def unhexBytes : List Char → Option Bytes
  | [] => some []
  | a :: b :: r => do
    let hv (c : Char) : Option Nat :=
      if '0' ≤ c ∧ c ≤ '9' then some (c.toNat - 48) else if 'a' ≤ c ∧ c ≤ 'f' then some (c.toNat - 87) else none
    let x ← hv a; let y ← hv b; let rest ← unhexBytes r
    return UInt8.ofNat (x * 16 + y) :: rest
  | _ => none

def manyStr (rs : List (List Rec)) : String := if rs.isEmpty then "-" else "|".intercalate (rs.map recsStr)

/-- returns the new tree and the observation -/
def stepCmd1 (o : FOps) (t : Tree) (toks : List String) : Option (Tree × String) :=
  match toks with
  | "cmd" :: "generate" :: rest => do
    -- ⟦GenerateCommand.execute⟧ : Create refuses an existing file; the content is random and
    -- is checked against the specification separately (`genspec`)
    let c ← copyOpts rest; let p ← kv rest "dest"
    match t.get p with
    | some _ => return (t, "err")
    | none =>
      match createHandle o c.agg c.xff c.lay with
      | .error _ => return (t, "err")
      | .ok (_, h) => return (t.set p h.view, "ok")
  | "snapshot" :: p :: rest => do
    let hex ← kv rest "hex"
    let b ← (if hex = "-" then some [] else unhexBytes hex.toList)
    return (t.set p b, "ok")
  | "cmd" :: "view" :: rest => do
    let w ← window rest; let p ← kv rest "src"
    let (oc, h, rs) := view o t p w
    let hs := if kv rest "header" == some "1" then hdrStr h else "-"
    return (t, s!"{ocStr oc} H={hs} R={recsStr rs}")
  | "cmd" :: "viewraw" :: rest => do
    let w ← window rest; let p ← kv rest "src"
    let (oc, h, rs) := viewRaw o t p w (kv rest "sort" == some "1")
    let hs := if kv rest "header" == some "1" then hdrStr h else "-"
    return (t, s!"{ocStr oc} H={hs} R={recsStr rs}")
  | "cmd" :: "diff" :: rest => do
    let w ← window rest; let ps ← parsePairs (← kv rest "pairs")
    match ps, kv rest "glob" with
    | [(s, d)], none =>
      let (oc, rs) := diffOne o t s d w
      return (t, s!"{ocStr oc} R={recsStr rs}")
    | _, _ =>
      -- a pattern that matches nothing is reported as not existing
      if ps.isEmpty then return (t, "err notexist R=-") else
      let (oc, rs) := diffMany o t w ps false
      return (t, s!"{ocStr oc} R={manyStr rs}")
  | "cmd" :: "copy" :: rest => do
    let w ← window rest; let ps ← parsePairs (← kv rest "pairs"); let c ← copyOpts rest
    match ps, kv rest "glob" with
    | [(s, d)], none =>
      let (t', oc, rs) := copyOne o t s d c w
      return (t', s!"{ocStr oc} R={recsStr rs}")
    | _, _ =>
      if ps.isEmpty then return (t, "err notexist R=-") else
      let (t', oc, rs) := copyMany o c w t ps
      return (t', s!"{ocStr oc} R={manyStr rs}")
  | "cmd" :: "sum" :: rest => do
    let w ← window rest; let items ← parseItems (← kv rest "items")
    -- one item per line of output; stop at the first error
    let rec go : List (List String × String) → Outcome × List String
      | [] => (.ok, [])
      | (fs, _) :: more =>
        match Cmd.sum o t fs w with
        | (.ok, h, rs) =>
          let (oc, out) := go more
          (oc, s!"H={if kv rest "header" == some "1" then hdrStr h else "-"} R={recsStr rs}" :: out)
        | (oc, _, _) => (oc, [])
    if items.isEmpty then return (t, "err notexist -") else
    let (oc, out) := go items
    return (t, s!"{ocStr oc} " ++ (if out.isEmpty then "-" else "|".intercalate out))
  | "cmd" :: "sumcopy" :: rest => do
    let w ← window rest; let items ← parseItems (← kv rest "items"); let c ← copyOpts rest
    if items.isEmpty then return (t, "err notexist R=-") else
    let (t', oc, rs) := sumCopyMany o c w t items
    return (t', s!"{ocStr oc} R={manyStr rs}")
  | "cmd" :: "sumdiff" :: rest => do
    let w ← window rest; let items ← parseItems (← kv rest "items")
    if items.isEmpty then return (t, "err notexist R=-") else
    let (oc, rs) := sumDiffMany o t w items false
    return (t, s!"{ocStr oc} R={manyStr rs}")
  | _ => none

/-- returns the new tree and the observation -/
def stepCmd (o : FOps) (t : Tree) (toks : List String) : Option (Tree × String) :=
  -- ⟦withTextOutWriter⟧ (repaired): a text-out that cannot be opened is an error, nothing runs
  if toks.head? == some "cmd" ∧ kv toks "textout" == some "bad" then some (t, "err") else
  -- a text-out that accepts the open and fails every write: the harness uses it only with
  -- reports far larger than the output buffer, so printing fails before the final Sync —
  -- an error, and the tree keeps its bytes
  if toks.head? == some "cmd" ∧ kv toks "textout" == some "full" then
    -- (with the reading commands the report may be small: then the failure surfaces when the
    -- writer is flushed at the end; an error of the command itself comes first)
    match stepCmd1 o t toks with
    | none => none
    | some (_, obs) => if obs.startsWith "err" then some (t, obs) else some (t, "err (no-output)")
  else
  match stepCmd1 o t toks with
  | none => none
  | some (t', obs) =>
    if kv toks "textout" == some "none" then
      -- nothing is printed: only the outcome is observable
      some (t', ((obs.splitOn " H=").head!.splitOn " R=").head! ++ " (no-output)")
    else some (t', obs)

end Wsp.CmdDrv
