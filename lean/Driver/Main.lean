/-
  Line-protocol driver (DESIGN Appendix B): one operation per line on stdin, one
  observation per line on stdout.  Core-only, compiled as `lean_exe drv`.
-/
import Driver.GenOps
import Wsp.Model.Recreate
import Wsp.Model.World
import Wsp.Model.Text
import Wsp.Model.Cmd
import Wsp.Spec.Oracles
import Driver.Ieee
import Driver.CmdOps
open Wsp

def o : FOps := FOps.ieee

/-! ### parsing / printing helpers -/

def hexDigit (n : Nat) : Char := if n < 10 then Char.ofNat (48 + n) else Char.ofNat (87 + n)

def hexOfNat (w : Nat) (n : Nat) : String :=
  String.ofList ((List.range w).reverse.map fun i => hexDigit (n / 16 ^ i % 16))

def hexVal (c : Char) : Option Nat :=
  if '0' ≤ c ∧ c ≤ '9' then some (c.toNat - 48)
  else if 'a' ≤ c ∧ c ≤ 'f' then some (c.toNat - 87)
  else if 'A' ≤ c ∧ c ≤ 'F' then some (c.toNat - 55) else none

def natOfHex (s : String) : Option Nat :=
  s.toList.foldlM (fun acc c => (hexVal c).map fun v => acc * 16 + v) 0

def bytesOfHex (s : String) : Option Bytes :=
  let rec go : List Char → Option Bytes
    | [] => some []
    | a :: b :: r => do
      let x ← hexVal a; let y ← hexVal b
      let rest ← go r
      return UInt8.ofNat (x * 16 + y) :: rest
    | _ => none
  if s = "-" then some [] else go s.toList

def hexOfBytes (b : Bytes) : String :=
  if b.isEmpty then "-" else
  String.ofList (b.foldr (fun x acc => hexDigit (x.toNat / 16) :: hexDigit (x.toNat % 16) :: acc) [])

def strOfHex (s : String) : Option Str := (bytesOfHex s).map fun b => b.map fun x => Char.ofNat x.toNat
def hexOfStr (s : Str) : String := hexOfBytes (s.map fun c => UInt8.ofNat c.toNat)

def valHex (v : Val) : String := hexOfNat 16 v.toNat

def parseVal (s : String) : Option Val := (natOfHex s).map UInt64.ofNat

def fnv (bs : Bytes) : UInt64 :=
  bs.foldl (fun h b => (h ^^^ b.toUInt64) * 0x100000001b3) 0xcbf29ce484222325

def isNaNBits (v : Val) : Bool :=
  (v >>> 52) &&& 0x7ff == 0x7ff && (v &&& 0xfffffffffffff) != 0

/-- canonical form of file bytes: header exact, then 12-byte slots with NaN values canonicalised -/
partial def canonSlots (b : Bytes) (acc : Array UInt8) : Array UInt8 :=
  if b.length < 12 then acc ++ b.toArray else
  let slot := b.take 12
  let v := de64 (slot.drop 4)
  let slot := if isNaNBits v then slot.take 4 ++ be64 0x7ff8000000000000 else slot
  canonSlots (b.drop 12) (acc ++ slot.toArray)

def canonHash (hdr : Nat) (b : Bytes) : String :=
  let body := canonSlots (b.drop hdr) #[]
  s!"{b.length} {hexOfNat 16 (fnv (b.take hdr ++ body.toList)).toNat}"

def kindStr : ErrKind → String
  | .invalid => "invalid" | .outOfRange => "outofrange" | .rangeError => "range"
  | .notCovered => "notcovered" | .io => "io" | .notExist => "notexist" | .exists_ => "exists"
  | .mismatch => "mismatch" | .unalike => "unalike" | .other => "other"

def faultStr : Fault → String
  | .panic _ => "panic"
  | .err k => s!"err {kindStr k}"
  | .wantLarger n => s!"want {n}"

def parseLay (s : String) : Option (List (Int × Nat)) :=
  if s = "-" then some [] else
  (s.splitOn ",").mapM fun part =>
    match part.splitOn ":" with
    | [a, b] => do let x ← a.toInt?; let y ← b.toNat?; return (x, y)
    | _ => none

def parsePts (s : String) : Option (List Point) :=
  if s = "-" then some [] else
  (s.splitOn ",").mapM fun part =>
    match part.splitOn ":" with
    | [a, b] => do let t ← a.toNat?; let v ← parseVal b; return ⟨t, v⟩
    | _ => none

def ptsStr (ps : List Point) : String :=
  if ps.isEmpty then "-" else ",".intercalate (ps.map fun p => s!"{p.t}:{valHex p.v}")

def valsStr (vs : List Val) : String :=
  if vs.isEmpty then "-" else ",".intercalate (vs.map valHex)

def parseVals (s : String) : Option (List Val) :=
  if s = "-" then some [] else (s.splitOn ",").mapM parseVal

def seriesStr : Option Series → String
  | none => "none"
  | some s => s!"ok {s.from_} {s.until_} {s.step} {valsStr s.values}"

def archsStr (as : List Arch) : String :=
  if as.isEmpty then "-" else ",".intercalate (as.map fun a => s!"{a.offset}:{a.step}:{a.n}")

def parseArchs (s : String) : Option (List Arch) :=
  if s = "-" then some [] else
  (s.splitOn ",").mapM fun part =>
    match part.splitOn ":" with
    | [a, b, c] => do let x ← a.toNat?; let y ← b.toInt?; let z ← c.toNat?; return ⟨x, y, z⟩
    | _ => none

def headerStr (h : Header) : String :=
  s!"{h.agg} {h.maxRet} {hexOfNat 8 h.xff.toNat} {h.count} {archsStr h.archives}"

/-! ### the interpreter -/

structure St where
  w : World := ⟨none, none⟩
  tree : Cmd.Tree := Cmd.Tree.empty
  cur : String := ""
  /-- hostile-file stream: after an update that failed (the real code may keep some of its
      writes in the buffer, the model keeps none) content observations print "tainted" on
      both sides until the handle is replaced -/
  taintMode : Bool := false
  tainted : Bool := false

/-- write the current file's disk image back into the tree -/
def St.flush (st : St) : St :=
  if st.cur = "" then st else
  match st.w.disk with
  | some d => { st with tree := st.tree.set st.cur d }
  | none => { st with tree := st.tree.remove st.cur }

def St.reload (st : St) : St :=
  if st.cur = "" then st else { st with w := ⟨st.tree.get st.cur, none⟩ }

def withHandle (st : St) (f : Handle → St × String) : St × String :=
  match st.w.h with
  | none => (st, "nohandle")
  | some h => f h

def setH (st : St) (h : Handle) : St := { st with w := { st.w with h := some h } }

def obsStr : OpObs → String
  | .ok => "ok" | .noHandle => "nohandle" | .fault f => faultStr f
  | .errExists => "err exists" | .errNotExist => "err notexist"

def doOp (st : St) (op : LibOp) : St × String :=
  let (w, ob) := st.w.step o op
  ({ st with w := w }, obsStr ob)

def stepLib0 (st : St) (toks : List String) : Option (St × String) :=
  match toks with
  | ["reset"] => some ({}, "ok")
  | ["resetfile"] => some ({ st with w := ⟨none, none⟩ }, "ok")
  -- a directory entry that names no file (a dangling symlink on the real side): the tree has none
  | ["dangle", _] => some (st, "ok")
  | ["use", name] =>
    let st := st.flush
    some ({ st with cur := name, w := ⟨st.tree.get name, none⟩ }, "ok")
  | ["fdisk", name, hdr] => do
    let hdr ← hdr.toNat?
    let st := st.flush
    match st.tree.get name with
    | none => return (st, "none")
    | some d => return (st, s!"ok {canonHash hdr d}")
  | ["create", lay, agg, xff] => do
    let lay ← parseLay lay; let agg ← agg.toNat?; let xff ← natOfHex xff
    return doOp st (.create lay agg (UInt32.ofNat xff))
  -- ⟦Create⟧ with an open flag that allows an existing file (no O_EXCL, no O_TRUNC): the file
  -- is cut or extended to the new size at once — what it held inside that size stays on the
  -- disk — and the header goes to the buffer only
  | ["createover", lay, agg, xff] => do
    let lay ← parseLay lay; let agg ← agg.toNat?; let xff ← natOfHex xff
    return doOp st (.createOver lay agg (UInt32.ofNat xff))
  | ["open"] => some (doOp st .open_)
  | ["setdisk", hex] => do
    let b ← bytesOfHex hex
    return doOp st (.setDisk b)
  | ["rmdisk"] => some (doOp st .rmDisk)
  | ["sync"] => some (doOp st .sync)
  | ["drop"] => some (doOp st .drop)
  | ["upd", k, t, v, now] => do
    let k ← k.toInt?; let t ← t.toNat?; let v ← parseVal v; let now ← now.toNat?
    return doOp st (.upd k t v now)
  | ["updmany", k, now, pts] => do
    let k ← k.toInt?; let now ← now.toNat?; let pts ← parsePts pts
    return doOp st (.updMany k now pts)
  | ["fetch", k, f, u, now] => do
    let k ← k.toInt?; let f ← f.toNat?; let u ← u.toNat?; let now ← now.toNat?
    return withHandle st fun h =>
      match h.fetchFromArchive k f u now with
      | .ok s => (st, seriesStr s)
      | .error e => (st, faultStr e)
  | ["raw", k] => do
    let k ← k.toInt?
    return withHandle st fun h =>
      match h.rawPoints k with
      | .ok ps => (st, s!"ok {ptsStr ps}")
      | .error e => (st, faultStr e)
  | ["gwfetch", f, u, now] => do
    -- the reference reader opens the file afresh: the disk image, best archive
    let f ← f.toNat?; let u ← u.toNat?; let now ← now.toNat?
    match st.w.disk with
    | none => return (st, "err")
    | some d =>
      match openBytes o d with
      | .error e => return (st, faultStr e)
      | .ok h =>
        match h.fetchFromArchive (-1) f u now with
        | .ok s => return (st, seriesStr s)
        | .error e => return (st, faultStr e)
  | ["gwmeta"] =>
    match st.w.disk with
    | none => some (st, "err")
    | some d =>
      match openBytes o d with
      | .error e => some (st, faultStr e)
      | .ok h =>
        let lay := ",".intercalate (h.hdr.archives.map fun a => s!"{a.step}:{a.n}")
        some (st, s!"ok {h.hdr.agg} {h.hdr.maxRet} {hexOfNat 8 h.hdr.xff.toNat} {lay}")
  | ["header"] => some <| withHandle st fun h => (st, s!"ok {headerStr h.hdr}")
  | ["disk", hdr] => do
    let hdr ← hdr.toNat?
    match st.w.disk with
    | none => return (st, "none")
    | some d => return (st, s!"ok {canonHash hdr d}")
  | ["view", hdr] => do
    let hdr ← hdr.toNat?
    return withHandle st fun h => (st, s!"ok {canonHash hdr h.view}")
  | ["diskhex"] =>
    match st.w.disk with
    | none => some (st, "none")
    | some d => some (st, s!"ok {hexOfBytes d}")
  | _ => none

def stepLib (st : St) (toks : List String) : Option (St × String) :=
  match toks with
  | ["taintmode"] => some ({ st with taintMode := true }, "ok")
  | _ =>
    match stepLib0 st toks with
    | none => none
    | some (st', out) =>
      match toks.head? with
      | some "reset" => some (st', out)
      | some "resetfile" | some "use" | some "create" | some "createover" | some "open" | some "setdisk" | some "rmdisk" | some "drop" =>
        some ({ st' with taintMode := st.taintMode, tainted := false }, out)
      | some "upd" | some "updmany" =>
        if st.taintMode && out != "ok" && out != "nohandle" && !out.startsWith "panic" then
          some ({ st' with tainted := true }, out)
        else some (st', out)
      | some "fetch" | some "raw" | some "view" =>
        if st.tainted && !out.startsWith "panic" then some (st', "tainted") else some (st', out)
      | _ => some (st', out)

def decOut {α} (r : R (α × Bytes)) (f : α → String) : String :=
  match r with
  | .ok (x, rest) => s!"ok {f x} rest={rest.length}"
  | .error e => faultStr e

def stepCodec (toks : List String) : Option String :=
  match toks with
  | ["dec", "ts", hex] => do let b ← bytesOfHex hex; return decOut (decTimestamp b) toString
  | ["dec", "dur", hex] => do let b ← bytesOfHex hex; return decOut (decDuration b) toString
  | ["dec", "val", hex] => do let b ← bytesOfHex hex; return decOut (decValue b) valHex
  | ["dec", "point", hex] => do let b ← bytesOfHex hex; return decOut (decPoint b) fun p => ptsStr [p]
  | ["dec", "points", hex] => do
    let b ← bytesOfHex hex
    return decOut (decPoints b) ptsStr ++ s!" alloc={decPointsAlloc b}"
  | ["dec", "series", hex] => do
    let b ← bytesOfHex hex
    return decOut (decSeries b) (fun s => s!"{s.from_} {s.until_} {s.step} {valsStr s.values}")
      ++ s!" alloc={decSeriesAlloc b}"
  | ["dec", "arch", hex] => do let b ← bytesOfHex hex; return decOut (decArch b) fun a => archsStr [a]
  | ["dec", "header", hex] => do
    let b ← bytesOfHex hex
    return decOut (decHeader o b) headerStr ++ s!" alloc={decHeaderAlloc o b}"
  | ["enc", "ts", n] => do let n ← n.toNat?; return hexOfBytes (encTimestamp n)
  | ["enc", "dur", n] => do let n ← n.toInt?; return hexOfBytes (encDuration n)
  | ["enc", "val", v] => do let v ← parseVal v; return hexOfBytes (encValue v)
  | ["enc", "point", p] => do
    match ← parsePts p with
    | [p] => return hexOfBytes (encPoint p)
    | _ => none
  | ["enc", "points", ps] => do let ps ← parsePts ps; return hexOfBytes (encPoints ps)
  | ["enc", "series", "nil"] => some (hexOfBytes (encSeries none))
  | ["enc", "series", f, u, st, vs] => do
    let f ← f.toNat?; let u ← u.toNat?; let st ← st.toInt?; let vs ← parseVals vs
    return hexOfBytes (encSeries (some ⟨f, u, st, vs⟩))
  | ["enc", "header", agg, mr, xff, count, archs] => do
    let agg ← agg.toNat?; let mr ← mr.toInt?; let xff ← natOfHex xff; let count ← count.toNat?
    let archs ← parseArchs archs
    return hexOfBytes (encHeader ⟨agg, mr, UInt32.ofNat xff, count, archs⟩)
  | ["newheader", lay, agg, xff] => do
    let lay ← parseLay lay; let agg ← agg.toNat?; let xff ← natOfHex xff
    match newHeader o agg (UInt32.ofNat xff) lay with
    | .ok h => return s!"ok {headerStr h}"
    | .error e => return faultStr e
  | ["newheaderhex", lay, agg, xff] => do
    let lay ← parseLay lay; let agg ← agg.toNat?; let xff ← natOfHex xff
    match newHeader o agg (UInt32.ofNat xff) lay with
    | .ok h => return s!"ok {hexOfBytes (encHeader h)}"
    | .error e => return faultStr e
  | ["openbytes", hex] => do
    let b ← bytesOfHex hex
    match openBytes o b with
    | .ok h => return s!"ok {headerStr h.hdr}"
    | .error e => return faultStr e
  | _ => none

def optStr {α} (x : Option α) (f : α → String) : String :=
  match x with
  | some v => s!"ok {f v}"
  | none => "err"

def stepText (toks : List String) : Option String :=
  match toks with
  | ["parsedur", hex] => do let s ← strOfHex hex; return optStr (parseDuration s) toString
  | ["printdur", n] => do let n ← n.toInt?; return hexOfStr (durationString n)
  | ["parsearch", hex] => do
    let s ← strOfHex hex
    return optStr (parseArchiveInfo s) fun (st, n) => s!"{st}:{n}"
  | ["parsearchs", hex] => do let s ← strOfHex hex; return optStr (parseArchiveInfoList s) archsStr
  | ["printarchs", as] => do let as ← parseArchs as; return hexOfStr (archsString as)
  | ["parsets", hex] => do let s ← strOfHex hex; return optStr (parseTimestamp s) toString
  | ["parsetsflag", hex] => do let s ← strOfHex hex; return optStr (parseTimestamp s) toString
  | ["printts", n] => do let n ← n.toNat?; return hexOfStr (timestampString n)
  | ["aggname", n] => do let n ← n.toNat?; return optStr (aggName n) id
  | ["aggparse", s] => some (optStr (aggParse s) toString)
  | ["aggflag", s] => some (optStr (aggFlagParse s) toString)
  | ["parsearchsflag", hex] => do
    let s ← strOfHex hex
    return optStr (parseArchiveInfoList s) fun as => hexOfStr (archsString as)
  | ["xffflagbits", x] => do
    let x ← natOfHex x
    return if o.xffValid (UInt32.ofNat x) then s!"ok {hexOfNat 8 x}" else "err"
  | _ => none

def step (st : St) (line : String) : St × String :=
  let toks := (line.trimAscii.toString.splitOn " ").filter (· ≠ "")
  match stepLib st toks with
  | some r => r
  | none =>
    match stepCodec toks with
    | some s => (st, s)
    | none =>
      match stepText toks with
      | some s => (st, s)
      | none =>
        match Spec.stepSpec o toks with
        | some s => (st, s)
        | none =>
          match GenDrv.stepGen toks with
          | some s => (st, s)
          | none =>
          let st := st.flush
          match CmdDrv.stepCmd o st.tree (if toks.head? == some "snapshot" then "snapshot" :: toks.tail else toks) with
          | some (tree, s) => (({ st with tree := tree } : St).reload, s)
          | none => (st, "bad-op")

partial def loop (hin hout : IO.FS.Stream) (st : St) : IO Unit := do
  let line ← hin.getLine
  if line.isEmpty then return ()
  let (st', out) := step st line
  hout.putStrLn out
  hout.flush
  loop hin hout st'

def main : IO Unit := do loop (← IO.getStdin) (← IO.getStdout) {}
