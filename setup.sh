#!/bin/sh
# Builds the framework from files on disk only (offline).
set -e
cd "$(dirname "$0")"
export GOFLAGS=-mod=mod GOPROXY=off GOSUMDB=off GOTOOLCHAIN=local
REPO="${VERIF_REPO:-/repo}"
mkdir -p harness/bin evidence
sed "s|@REPO@|$REPO|" harness/go.mod.tmpl > harness/go.mod
cp "$REPO/go.sum" harness/go.sum
(cd harness && go build -o bin/factgen ./cmd/factgen && go build -tags verif -o bin/wspcheck ./cmd/wspcheck)
harness/bin/factgen "$REPO" lean/Wsp/Generated/Facts.lean
(cd lean && lake build Wsp drv)
