#!/bin/sh
# tools/seed_sweep.sh [tier] — runs every kept seeded change (seeded/<name>/patch.diff) against the check of
# its property in a scratch worktree and prints one line per change: DETECTED (with or without a concrete
# replay) or MISSED.  Used after generator or model changes to see that nothing that was caught got lost.
TIER="${1:-quick}"
cd /verif
for d in seeded/*/; do
  name=$(basename "$d")
  pid=$(python3 -c "import json;print(json.load(open('$d/meta.json'))['property'])")
  W=$(mktemp -d /tmp/trial.XXXXXX)
  git -C /repo worktree add -q --detach "$W" HEAD || exit 2
  (cd "$W" && git apply "/verif/$d/patch.diff") || { echo "$name: patch does not apply"; git -C /repo worktree remove --force "$W"; continue; }
  out=$(VERIF_REPO="$W" ./check "$pid" "$TIER" 2>&1 | grep -E "^(OK|VIOLATION)" | head -1)
  case "$out" in
    VIOLATION*no-failing-input-found) echo "$name: DETECTED (no concrete input)";;
    VIOLATION*) echo "$name: DETECTED (concrete replay)";;
    *) echo "$name: MISSED  [$out]";;
  esac
  git -C /repo worktree remove --force "$W"
done
flock /verif/.build.lock sh -c 'sed "s|@REPO@|/repo|" harness/go.mod.tmpl > harness/go.mod'
