#!/bin/sh
# tools/seed_verify.sh <ID> [outdir]  — confirm a seeded change: builds, existing tests pass, demo fails with it and passes without.
set -u
ID="$1"; OUT="${2:-/tmp/seed/$ID-out}"
export GOFLAGS=-mod=mod GOPROXY=off GOSUMDB=off GOTOOLCHAIN=local
DEMO=$(python3 -c "import json;print(json.load(open('$OUT/meta.json'))['demo_file'])")
PLACE=$(python3 -c "import json;print(json.load(open('$OUT/meta.json'))['demo_place'])")
CMD=$(python3 -c "import json;print(json.load(open('$OUT/meta.json'))['demo_cmd'])")
W=$(mktemp -d /tmp/sv.XXXXXX)
git -C /repo worktree add -q --detach "$W" HEAD || exit 2
res=""
cp "$OUT/$DEMO" "$W/$PLACE/" 
(cd "$W" && sh -c "$CMD" >/tmp/sv_demo_clean.log 2>&1) && res="$res demo_passes_without=yes" || res="$res demo_passes_without=NO"
rm -f "$W/$PLACE/$DEMO"
(cd "$W" && git apply "$OUT/patch.diff") && res="$res applies=yes" || res="$res applies=NO"
(cd "$W" && go build ./... >/dev/null 2>&1) && res="$res builds=yes" || res="$res builds=NO"
(cd "$W" && go test -vet=off -count=1 ./... >/tmp/sv_tests.log 2>&1) && res="$res existing_tests_pass=yes" || res="$res existing_tests_pass=NO"
cp "$OUT/$DEMO" "$W/$PLACE/"
(cd "$W" && sh -c "$CMD" >/tmp/sv_demo_mut.log 2>&1) && res="$res demo_fails_with=NO" || res="$res demo_fails_with=yes"
git -C /repo worktree remove --force "$W"
echo "$ID:$res"
