#!/usr/bin/env python3
"""tools/appendix.py — rewrites Appendix D of DESIGN.md (theorems per property) from lean/obligations.json."""
import json, os, re
V = os.path.dirname(os.path.dirname(os.path.abspath(__file__)))
o = json.load(open(os.path.join(V, "lean", "obligations.json")))
props = {json.loads(l)["id"]: json.loads(l)["title"] for l in open(os.path.join(V, "properties.jsonl"))}
out = ["## Appendix D. Theorems per property (generated from `lean/obligations.json` by `tools/appendix.py`)", "",
       "Every name below is a theorem of the Lean library that `./check <ID>` builds, audits with",
       "`#print axioms` on every run and re-checks with `leanchecker` in the thorough tier.  What is",
       "*not* a theorem is listed under `partial` in the same file and in §0.", ""]
total = set()
for pid in sorted(o):
    ths = o[pid]["theorems"]
    total |= set(ths)
    out.append("* **%s** %s — %d theorems: %s" % (pid, props.get(pid, ""), len(ths), ", ".join("`%s`" % t.replace("Wsp.", "", 1) for t in ths)))
out += ["", "%d distinct theorems are registered as obligations; the library holds about twice as many lemmas." % len(total), ""]
p = os.path.join(V, "DESIGN.md")
s = open(p).read()
i = s.find("## Appendix D. Theorems per property")
if i >= 0:
    s = s[:i].rstrip() + "\n\n"
else:
    s = s.rstrip() + "\n\n---------------------------------------------------------------------------------\n\n"
open(p, "w").write(s + "\n".join(out))
print("appendix written:", len(total), "theorems")
