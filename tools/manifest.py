#!/usr/bin/env python3
"""Regenerates /verif/MANIFEST.json from the table below (run after adding a check)."""
import json, os
V = os.path.dirname(os.path.dirname(os.path.abspath(__file__)))
NOTE = ("Trusted: Lean 4.33 kernel; axioms propext / Classical.choice / Quot.sound only (audited per theorem on every run); "
        "factgen + Wsp/Props/FactsTie.lean; the wspcheck differ and generators; the theorems are about the model and "
        "model = code is established on the runs made (counts in the evidence).")
CHECKS = {
 "C01": ("For every ring geometry, base interval and wrap position (inside the 32-bit zone) Lean theorems show that a fetch returns, per interval, the value of "
         "that interval's one slot iff the slot is stamped with exactly it (else NaN), that a write replaces exactly the slot of its interval and nothing else "
         "in any archive, and that slots are shared exactly by intervals congruent mod N*S. Partial: the composition over whole histories is not one theorem. "
         "Tied to the code by a differential run over histories with raw-slot, file-byte and fetch comparison after every step.",
         "Lean 4 theorems (refinement of the two-branch wrap read to modular indexing; byte-level write frame) + correspondence check", "§5 C01"),
 "C02": ("The propagation step is characterised by Lean theorems for all inputs: which finer values count as known, when the coarser slot is stored "
         "(non-empty known list and fraction test), what is stored (the configured aggregate, six methods stated outright), where (the slot of t only), and "
         "that a skipped slot leaves the file untouched and stops the chain. Partial: composition over whole chains; full no-panic theorem.",
         "Lean 4 theorems (case analysis of the propagation step over the ring/slot refinement) + raw-slot correspondence after every write", "§5 C02"),
 "C03": ("Acceptance, routing and the batch partition are Lean theorems over lists for all batches: the batch update is proved equal to per-archive writes of "
         "exactly the right sub-lists of the stably sorted batch; stable sort uniqueness gives order independence; last point per slot wins.",
         "Lean 4 theorems (list induction: stable insertion sort, span of a sorted list, filter algebra) + correspondence check on shuffled batches", "§5 C03"),
 "C04": ("The fetch shape is computed by a function of (archive list, id, window, clock) only; failure, absence and the closed form of bounds/step/length "
         "are Lean theorems (closed form inside the zone of 32-bit arithmetic), and the executed fetch is proved to have the planned shape whether or not "
         "the archive was ever written. Tied to the code by differential fetches over boundary windows on empty and non-empty archives.",
         "Lean 4 theorems (case analysis + omega over faithful uint32/int32 arithmetic) + model/implementation correspondence check", "§5 C04"),
 "C05": ("The disk-vs-view state machine the driver runs: disk changes only at Sync, abandoning after any prefix leaves the last synced image, and every "
         "library write is proved to land inside an archive region so header and length are fixed; the source's flush/sync/write call sites are regenerated "
         "facts. Partial: OS durability is out of reach; filebuffer is modelled.",
         "Lean 4 theorems (induction over operation lists; write-frame induction through the whole write path) + file-bytes-after-every-step correspondence", "§5 C05"),
 "C06": ("The byte layout (big-endian fields, header order, contiguous archives, 12-byte slots, total length, classic slot position) is proved of the encoder/"
         "writer model; interoperation with go-whisper is validated three ways on the same bytes. Partial: no Lean model of the reference reader.",
         "Lean 4 layout theorems + three-way differential check with go-whisper", "§5 C06"),
 "C07": ("validate decides WellFormed (ideal integers) although it computes in uint32/int32: a Lean theorem for all archive lists; "
         "all four entry points are proved to accept only through that test, and the header codec round-trips every accepted header. "
         "The float comparison for xFilesFactor is a named law validated against the code on all boundary bit patterns.",
         "Lean 4 theorem (induction over the list, omega with products as atoms) + differential validation of all entry points", "§5 C07"),
 "C14": ("Round trip and framing of all eight wire types, and the WantLarger contract on every proper prefix, are Lean theorems about the codec "
         "model for all objects, lengths and trailing bytes; the model is tied to the code by a differential run on generated objects and all their prefixes.",
         "Lean 4 theorems (induction over lists, omega) + model/implementation correspondence check", "§5 C14"),
 "C15": ("Totality (no panic), sane WantLarger sizes and input-bounded allocation of every decoder and of Open are Lean theorems over all byte strings; "
         "the damaged-handle clause is partial: exercised by a differential hostile-file stream in a sandboxed child where any panic/crash/hang/large "
         "allocation of the real code is a violation.",
         "Lean 4 theorems (case analysis, induction) + differential fuzzing of decoders and Open for model validation", "§5 C15"),
 "C19": ("parse(print d) = d for all 2^31 non-negative durations, exactness of every accepted duration string (digits x unit, no wrap) and the "
         "listed rejections are Lean theorems about a model of leadingInt/ParseDuration/Duration.String with the int32 overflow tests as written; "
         "method names by a complete table. Timestamps and retention lists are partial: an executable calendar/list model compared with the code.",
         "Lean 4 theorems (strong induction on digit strings, omega) + exhaustive/boundary differential check of printers and parsers", "§5 C19"),
}

MORE = {
 "C08": ("Frame and bookkeeping of copy are Lean theorems about the command model (only the destination changes, missing destination created, mismatch / no difference write nothing, written points are source points, glob order). The headline clause - destination equals source after success - is partial: asserted on the real code on every run by a post-check (diff clean right after copy; repeating writes nothing) on top of the model/implementation correspondence.", "Lean 4 theorems about the command model + correspondence check with property-level post-conditions on the real code", "§5 C08"),
 "C09": ("Exactness, cleanliness, symmetry and the missing-file / mismatch / glob verdicts are Lean theorems about the diff model for all series; tied to the code by differential runs of the real command with parsed output.", "Lean 4 theorems (list induction over DiffPoints) + correspondence check", "§5 C09"),
 "C10": ("Slot-wise NaN-skipping fold, identity on one file, irrelevance of holes and NaN-iff-all-NaN are Lean theorems for every float instance; tied to the code by differential runs of sum over generated item trees.", "Lean 4 theorems (fold lemmas over FOps) + correspondence check", "§5 C10"),
 "C11": ("sum-copy and sum-diff are proved to be the copy and diff cores applied to the sum, so C08-C10 transfer; the headline clause shares C08's partial and is asserted by a post-check (sum-diff clean right after sum-copy).", "Lean 4 corollaries + correspondence check with post-conditions", "§5 C11"),
 "C12": ("The client decodes exactly what the server's local call produced: Lean theorems from the codec round trips (C14); the transport is outside the model and is exercised by real HTTP round trips comparing local and remote observations for every read and glob.", "Lean 4 theorems (response codec round trip) + local/remote differential runs through a real server", "§5 C12"),
 "C13": ("Partial: a protocol model of the lock proved for every event sequence (no lost update, readers see a session boundary, blocked opens change nothing); the kernel's flock and GC timing are exercised by stress legs and lock probes after failed opens.", "Lean 4 invariant by induction over event sequences + concurrency stress (goroutines and processes) and lock probes", "§5 C13"),
 "C16": ("Decision-logic theorems about the command models (unopenable text-out, missing source, bad selection, mismatch are never success); no-panic over the whole product is partial and asserted on the real code on every run (panic, leaked lock, silent success are violations even when the model agrees).", "Lean 4 theorems about command models + fault-product correspondence runs with property-level assertions", "§5 C16"),
 "C17": ("Partial: interleaving theorem over atomic page reads (every schedule returns sequential results); data-race freedom is delegated to the Go race detector on the concurrency legs plus a regenerated structural fact.", "Lean 4 interleaving invariant + race-detector runs (shared handle, sum, parallel HTTP)", "§5 C17"),
 "C18": ("Completeness, soundness and order of view's records, the view-raw range filter and the stable sort are Lean theorems about the text model (formats from the source); view-subset-raw is asserted on the real code; number/time formatting is exercised by parsing the real output back.", "Lean 4 theorems about the record model + correspondence check on parsed output", "§5 C18"),
 "C20": ("Refusal of existing files, header/length as requested for all random points, and emptiness without fill are Lean theorems; the value clauses are decided on every run by an executable Lean specification evaluated on the file the real command wrote.", "Lean 4 theorems (random points as a parameter) + executable specification on the generated file", "§5 C20"),
}
CHECKS.update(MORE)
PENDING = {}
def main():
    props = [json.loads(l) for l in open(os.path.join(V, "properties.jsonl"))]
    ids = [p["id"] for p in props]
    checks = []
    for pid in ids:
        if pid not in CHECKS:
            continue
        text, tech, ref = CHECKS[pid]
        checks.append({
            "property_id": pid, "quick_cmd": "./check %s quick" % pid, "thorough_cmd": "./check %s thorough" % pid,
            "evidence_file": "evidence/%s.json" % pid, "replay_cmd_template": "./check %s quick --replay {path}" % pid,
            "engine": "lean-model",
            "level_claimed": {"category": "proof", "text": text, "design_ref": "DESIGN.md " + ref},
            "level_note": NOTE, "technique": tech})
    na = [{"property_id": pid, "reason": PENDING.get(pid, "not claimed yet: the check for this property is still being built (see DESIGN.md §9 build order); nothing is asserted about it")}
          for pid in ids if pid not in CHECKS]
    m = {
        "version": 1, "setup_cmd": "./setup.sh",
        "hooks": {"guard": "verif", "enable": "go build -tags verif (one hook file, cmd/verif_hooks.go: RandomPointsListForVerif hands the unexported points generator of `generate` a random source chosen by the harness; everything else is driven through the public API)",
                  "baseline_off_cmd": "cd /repo && GOFLAGS=-mod=mod GOPROXY=off GOSUMDB=off go test -vet=off -count=1 -timeout 25m ./...",
                  "source_commits": ["a2dc45ec23423fc333cf86db2573aa1b2d2923e8"], "add_only": True},
        "engines": [
            {"name": "lean-model", "path": "lean", "serves_properties": sorted(CHECKS),
             "kind_free_text": "Lean 4 executable model (Wsp/Model), specifications and theorems (Wsp/Props), compiled model driver (Driver/Main.lean)"},
            {"name": "wspcheck", "path": "harness", "serves_properties": sorted(CHECKS),
             "kind_free_text": "Go correspondence harness: runs the real code and the Lean driver on the same operations and diffs canonical observations; factgen regenerates source facts"}],
        "checks": checks, "not_applicable": na,
        "notes": "Approach, trusted base, per-property theorems and known findings: DESIGN.md; known findings: KNOWN_FINDINGS.txt"}
    json.dump(m, open(os.path.join(V, "MANIFEST.json"), "w"), indent=1)
if __name__ == "__main__":
    main()
