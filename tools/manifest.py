#!/usr/bin/env python3
"""Regenerates /verif/MANIFEST.json from the table below (run after adding a check)."""
import json, os
V = os.path.dirname(os.path.dirname(os.path.abspath(__file__)))
NOTE = ("Trusted: Lean 4.33 kernel; axioms propext / Classical.choice / Quot.sound only (audited per theorem on every run); "
        "factgen + Wsp/Props/FactsTie.lean; the wspcheck differ and generators; the theorems are about the model and "
        "model = code is established on the runs made (counts in the evidence).")
CHECKS = {
 "C01": ("Lean theorems, inside the 32-bit clock zone: a fetch is the ring read (per interval the one slot, NaN unless stamped with exactly it); a write replaces exactly "
         "its slot and nothing else in any archive; over whole histories each interval reads the last write to it or NaN if another lap took the slot - for any archive "
         "under direct writes and, from Create through any mixture of single and batch updates with every propagation chain, for the finest archive; for every archive "
         "after any such history no stale lap, foreign slot or foreign archive is ever returned (invariant carried through every step). Partial: the value of coarser "
         "slots as one function of the whole history (its frame half is a theorem: over any history of accepted single updates a slot of any archive changes only through an update whose time lies inside the interval the slot is then stamped with, C02S.history_any_changes_only_inside); page layout of filebuffer not modelled. Tied to the code by differential histories with raw-slot, byte and fetch comparison after every step.",
         "Lean 4 theorems (ring refinement, write frame, history induction, global invariant) + correspondence check", "§5 C01"),
 "C02": ("Lean theorems for all inputs: the consolidation step (which finer values count, when the coarser slot is stored, what and where, untouched otherwise), the six "
         "aggregates stated outright, and the whole chain as a refinement - for a single update and for every batch the work-list loop equals the level-by-level chain "
         "in which the next level's list is exactly the next archive's intervals of the slots that were stored, and a level that stores nothing ends the chain; no update panics. "
         "Locality: a single update changes in each archive behind the written one at most the slot stamped with that level's interval of the written time, and nothing else anywhere (C02S.updatePoint_local_any); over any history of accepted single updates a slot changes only through an update whose time lies inside the interval it is then stamped with (C02S.history_any_changes_only_inside); the chain of a batch is local in the same sense (propagateChain_batch_local). "
         "The float32 xFilesFactor comparison is a named law validated on boundary bit patterns.",
         "Lean 4 theorems (case analysis of the step, refinement of the work-list loop) + raw-slot correspondence after every write", "§5 C02"),
 "C03": ("Acceptance, routing and the batch partition are Lean theorems over lists for all batches: the batch update equals per-archive writes of exactly the right sub-lists "
         "of the stably sorted batch; stable-sort uniqueness gives order independence; the point supplied last wins among equal timestamps. Closed form of the acceptance test inside the clock zone, and for every clock below 2^32 (before 1970 + maximum retention every update is refused: C03.single_accept_all_clocks). An accepted update never fails for another reason: on files satisfying the invariant every single and batch update with times in the zone returns ok, over every history from Create (C03S.accepted_history_succeeds).",
         "Lean 4 theorems (list induction: stable insertion sort, span of a sorted list, filter algebra) + correspondence check on shuffled batches", "§5 C03"),
 "C04": ("The fetch shape is a function of (archive list, id, window, clock) only; failure, absence and the closed form of bounds/step/length are Lean theorems "
         "(closed form inside the zone of 32-bit arithmetic; before 1970 + retention every window up to the clock yields no series, C04.early_clock_none; after 2038 the wrap-around is modelled faithfully and exercised), and the executed fetch has the planned shape whether or not the archive was ever written; two fetches of one archive agree at every interval common to their windows (windows_agree).",
         "Lean 4 theorems (case analysis + omega over faithful uint32/int32 arithmetic) + model/implementation correspondence check", "§5 C04"),
 "C05": ("The disk-vs-view state machine: disk changes only at Sync, abandoning after any prefix leaves the last synced image, every library write lands inside an archive "
         "region so header and length are fixed; after Sync another Open returns the very handle - for created, re-created and opened files (what Open accepts is the encoding of what it returns); "
         "flush/sync/write call sites are regenerated facts. Partial: OS durability is out of reach; filebuffer is modelled. A hand-off leg on the real code: an Open that waited for a writer reads what the writer synced and does not undo it.",
         "Lean 4 theorems (induction over operation lists; write frame through the whole write path; decode/encode inverse) + file-bytes-after-every-step correspondence", "§5 C05"),
 "C06": ("The byte layout (big-endian fields, header order, contiguous archives, 12-byte slots, total length - also for a file re-created in place over an older one) is proved "
         "of the writer model; a Lean model of the reference reader's fetch is proved to return what whispertool's fetch returns from the same bytes; interoperation with go-whisper is validated three ways on the same bytes.",
         "Lean 4 layout theorems + reference-reader model equivalence + three-way differential check with go-whisper", "§5 C06"),
 "C07": ("validate decides WellFormed (ideal integers) although it computes in uint32/int32: a Lean theorem for all archive lists; all four entry points accept only through "
         "that test, and the header codec round-trips every accepted header. The float comparison for xFilesFactor is a named law validated against the code on boundary bit patterns.",
         "Lean 4 theorem (induction over the list, omega with products as atoms) + differential validation of all entry points", "§5 C07"),
 "C14": ("Round trip and framing of all eight wire types, the WantLarger contract on every proper prefix, and the other direction for headers (what the decoder accepts is "
         "exactly the encoding of what it returns) are Lean theorems for all objects, lengths and trailing bytes; tied to the code by differential runs on generated objects, all their prefixes, used receivers, buffers that already hold bytes, and two-gigabyte prefixes of long series (untouched mappings).",
         "Lean 4 theorems (induction over lists, omega) + model/implementation correspondence check", "§5 C14"),
 "C15": ("Totality (no panic), sane WantLarger sizes and input-bounded allocation of every decoder and of Open are Lean theorems over all byte strings; on any handle Open returns "
         "no update, batch update or raw read panics, nor any fetch inside the clock zone, for every operation sequence with the file replaced by arbitrary bytes at any point. "
         "Outside the zone exercised by a hostile-file stream in a sandboxed child where any panic/crash/hang/large allocation is a violation.",
         "Lean 4 theorems (case analysis, induction over operation sequences) + differential fuzzing of decoders and Open", "§5 C15"),
 "C19": ("parse(print d) = d for all durations, exactness of every accepted duration string (no wrap), the listed rejections, every 32-bit timestamp round-tripping through the "
         "calendar model (kernel evaluation in chunks) and parse(print) of retention lists are Lean theorems about models of leadingInt/ParseDuration/String/ParseArchiveInfoList with the overflow tests as written; "
         "method names by a complete table. Partial: that the strict timestamp parser accepts exactly what time.Parse accepts is validated, not proved.",
         "Lean 4 theorems (strong induction on digit strings, omega, decide +kernel over complete tables) + exhaustive/boundary differential check", "§5 C19"),
}

MORE = {
 "C08": ("Lean theorems about the command model: only the destination changes, a missing destination is created, mismatch / no difference write nothing, written points are source points; "
         "per archive and for the whole run every interval of the window reads a value Equal to the source's afterwards (one archive selected too); and command to command - copy with NaN values included and all "
         "archives, then diff of the same pair over the same window at the same clock, ends ok with no record, whether the destination existed or the copy created it. Hypotheses: window inside the clock zone, destination satisfying the invariant of files whispertool writes. "
         "Also asserted on the real code on every run by post-checks.",
         "Lean 4 theorems (ring-level copy theorem composed with the invariant, reopening and Diff) + correspondence check with post-conditions on the real code", "§5 C08"),
 "C09": ("Exactness, cleanliness, symmetry and the missing-file / mismatch / glob verdicts (one differing file anywhere makes the run report a difference) are Lean theorems about the diff model for all series; "
         "tied to the code by differential runs of the real command with parsed output.", "Lean 4 theorems (list induction over DiffPoints) + correspondence check", "§5 C09"),
 "C10": ("Slot-wise NaN-skipping fold, identity on one file, irrelevance of holes, NaN-iff-all-NaN, the header being the first file's and a layout mismatch being an error are Lean theorems for every float instance; "
         "tied to the code by differential runs of sum over generated item trees, and one item of several hundred files summed against what was written.", "Lean 4 theorems (fold lemmas over FOps) + correspondence check", "§5 C10"),
 "C11": ("sum-copy and sum-diff are the copy and diff cores applied to the sum, so C08-C10 transfer: sum-copy then sum-diff is clean command-core to command (all archives), one differing item anywhere makes a "
         "multi-item sum-diff report the difference. Also asserted by post-checks on the real code.", "Lean 4 corollaries + correspondence check with post-conditions", "§5 C11"),
 "C12": ("The client decodes exactly what the server's local call produced (codec round trips, C14), composed with the commands: view, view-raw and sum through the server print exactly what the local command prints "
         "(any file Open accepts, window inside the clock zone). The transport (HTTP, URL escaping) is outside the model and is exercised by real round trips comparing local and remote observations for every read and glob, including an archive of several hundred thousand points and sibling directories whose listing order differs from plain string order.",
         "Lean 4 theorems (response codec round trip composed with the command model) + local/remote differential runs through a real server", "§5 C12"),
 "C13": ("Partial: a protocol model of the lock proved for every event sequence (no lost update, readers see a session boundary, blocked opens change nothing, failed opens release); the kernel's flock and GC timing "
         "are exercised by stress legs and lock probes after every kind of failed Open/Create.", "Lean 4 invariant by induction over event sequences + concurrency stress (goroutines and processes) and lock probes", "§5 C13"),
 "C16": ("Decision-logic theorems about the command models (unopenable text-out, missing source, bad selection, mismatch are never success) and no command ends in a panic - every command, whatever bytes the files hold, "
         "also in glob mode over any list of files or items. The text-out writer, flag parsing and HTTP are not modelled; the whole product subcommand x selection x window x fault is asserted on the real code on every run.",
         "Lean 4 theorems about command models (totality by composition) + fault-product correspondence runs with property-level assertions", "§5 C16"),
 "C17": ("Partial: interleaving theorem over atomic page reads (every schedule returns sequential results); data-race freedom is delegated to the Go race detector on the concurrency legs "
         "(shared-handle fetches incl. archives of thousands of slots, sums incl. one item of 140+ files, parallel requests, refused requests that must leave nothing locked - deadlines on every command and request) plus a regenerated structural fact.", "Lean 4 interleaving invariant + race-detector runs", "§5 C17"),
 "C18": ("Completeness, soundness and order of view's records, the view-raw range filter and the stable sort are Lean theorems about the record model (formats from the source); view within view-raw is a theorem "
         "command to command (all archives or one, sorted or not, window inside the clock zone); number/time formatting is exercised by parsing the real output back; one archive of more than a hundred thousand slots is dumped and compared with what was written.",
         "Lean 4 theorems about the record model composed with the ring theorems + correspondence check on parsed output", "§5 C18"),
 "C20": ("Refusal of existing files, header/length as requested, emptiness without fill, and - on a Lean model of the points generator with the random stream as a parameter - the value clauses: per archive one point per step, "
         "every value at most max*S_k/S_0, every coarser point at or after the first finer point the sum of the finer points of its slot. The generator model is tied to cmd/generate.go by replaying random streams "
         "through the verif hook; the real command's output is also judged by an executable specification; that the command reads the wall clock once is a regenerated fact (FactsTie.clock_readers) and the library clock is skewed while it runs.",
         "Lean 4 theorems (random stream as a parameter) + replayed-stream correspondence through a build-tag hook + executable specification on the generated file", "§5 C20"),
}
CHECKS.update(MORE)
PENDING = {}
def main():
    props = [json.loads(l) for l in open(os.path.join(V, "properties.jsonl"))]
    ids = [p["id"] for p in props]
    checks = []
    for pid in ids:
        if pid not in CHECKS:
            continue
        text, tech, ref = CHECKS[pid]
        checks.append({
            "property_id": pid, "quick_cmd": "./check %s quick" % pid, "thorough_cmd": "./check %s thorough" % pid,
            "evidence_file": "evidence/%s.json" % pid, "replay_cmd_template": "./check %s quick --replay {path}" % pid,
            "engine": "lean-model",
            "level_claimed": {"category": "proof", "text": text, "design_ref": "DESIGN.md " + ref},
            "level_note": NOTE, "technique": tech})
    na = [{"property_id": pid, "reason": PENDING.get(pid, "not claimed yet: the check for this property is still being built (see DESIGN.md §9 build order); nothing is asserted about it")}
          for pid in ids if pid not in CHECKS]
    m = {
        "version": 1, "setup_cmd": "./setup.sh",
        "hooks": {"guard": "verif", "enable": "go build -tags verif (one hook file, cmd/verif_hooks.go: RandomPointsListForVerif hands the unexported points generator of `generate` a random source chosen by the harness; everything else is driven through the public API)",
                  "baseline_off_cmd": "cd /repo && GOFLAGS=-mod=mod GOPROXY=off GOSUMDB=off go test -vet=off -count=1 -timeout 25m ./...",
                  "source_commits": ["a2dc45ec23423fc333cf86db2573aa1b2d2923e8"], "add_only": True},
        "engines": [
            {"name": "lean-model", "path": "lean", "serves_properties": sorted(CHECKS),
             "kind_free_text": "Lean 4 executable model (Wsp/Model), specifications and theorems (Wsp/Props), compiled model driver (Driver/Main.lean)"},
            {"name": "wspcheck", "path": "harness", "serves_properties": sorted(CHECKS),
             "kind_free_text": "Go correspondence harness: runs the real code and the Lean driver on the same operations and diffs canonical observations; factgen regenerates source facts"}],
        "checks": checks, "not_applicable": na,
        "notes": "Approach, trusted base, per-property theorems and known findings: DESIGN.md; known findings: KNOWN_FINDINGS.txt"}
    json.dump(m, open(os.path.join(V, "MANIFEST.json"), "w"), indent=1)
if __name__ == "__main__":
    main()
