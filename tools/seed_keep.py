#!/usr/bin/env python3
"""tools/seed_keep.py <ID> <name> <outdir> "<what I ran and saw>"  — store a confirmed seeded change under /verif/seeded/<name>/"""
import json, os, shutil, sys
pid, name, out, ran = sys.argv[1:5]
d = os.path.join("/verif/seeded", name)
os.makedirs(d, exist_ok=True)
meta = json.load(open(os.path.join(out, "meta.json")))
shutil.copy(os.path.join(out, "patch.diff"), os.path.join(d, "patch.diff"))
shutil.copy(os.path.join(out, meta["demo_file"]), os.path.join(d, meta["demo_file"]))
meta["property"] = pid
meta["confirmed_by_me"] = ran
json.dump(meta, open(os.path.join(d, "meta.json"), "w"), indent=1)
print("kept", d)
