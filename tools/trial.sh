#!/bin/sh
# tools/trial.sh <patch-file|revert:COMMIT> <ID>...   — runs checks against a scratch worktree with a change applied.
# The worktree lives outside /repo and /verif and is removed afterwards.
set -u
CH="$1"; shift
W=$(mktemp -d /tmp/trial.XXXXXX)
git -C /repo worktree add -q --detach "$W" HEAD || exit 2
case "$CH" in
  revert:*) (cd "$W" && git revert --no-commit "${CH#revert:}" >/dev/null 2>&1) || { echo "revert failed"; git -C /repo worktree remove --force "$W"; exit 2; } ;;
  *) (cd "$W" && git apply "$CH") || { echo "apply failed"; git -C /repo worktree remove --force "$W"; exit 2; } ;;
esac
(cd "$W" && GOFLAGS=-mod=mod GOPROXY=off GOSUMDB=off GOTOOLCHAIN=local go build ./... ) || echo "DOES NOT BUILD"
for id in "$@"; do
  echo "== $id"
  (cd /verif && VERIF_REPO="$W" ./check "$id" quick 2>&1 | tail -4)
done
git -C /repo worktree remove --force "$W"
# leave /verif pointing at /repo again
(cd /verif && flock /verif/.build.lock sh -c 'sed "s|@REPO@|/repo|" harness/go.mod.tmpl > harness/go.mod')
