package main

import (
	"bufio"
	"errors"
	"fmt"
	"io/ioutil"
	"math"
	"net"
	"net/http"
	"os"
	"os/exec"
	"path/filepath"
	"strconv"
	"strings"
	"syscall"
	"time"

	wt "github.com/hnakamur/whispertool"
	wcmd "github.com/hnakamur/whispertool/cmd"
)

// ImplCmd executes library operations on named files of a fixture tree and runs the real
// CLI commands (cmd.*Command.Execute) over it, parsing their text output back into records.
type ImplCmd struct {
	lib    *ImplLib
	root   string
	server *exec.Cmd
	port   int
	genNow int64
	// commands that went through Parse (impl_flags.go)
	flagRoutes int
	// the directory the server serves (root/src)
}

func NewImplCmd() *ImplCmd {
	lib := NewImplLib()
	return &ImplCmd{lib: lib, root: lib.dir}
}

func (m *ImplCmd) Cleanup() {
	m.stopServer()
	m.lib.Cleanup()
}

func (m *ImplCmd) stopServer() {
	if m.server != nil {
		m.server.Process.Kill()
		m.server.Wait()
		m.server = nil
	}
}

func freePort() int {
	l, err := net.Listen("tcp", "127.0.0.1:0")
	if err != nil {
		return 0
	}
	defer l.Close()
	return l.Addr().(*net.TCPAddr).Port
}

// ensureServer starts `whispertool server` (a child process of the harness, because the
// command registers its handlers on the default mux) over root/src.
func (m *ImplCmd) ensureServer() error {
	if m.server != nil {
		return nil
	}
	self, _ := os.Executable()
	m.port = freePort()
	os.MkdirAll(filepath.Join(m.root, "src"), 0755)
	c := exec.Command(self, "-child", "server", filepath.Join(m.root, "src"), strconv.Itoa(m.port))
	c.Stdout, c.Stderr = nil, nil
	if err := c.Start(); err != nil {
		return err
	}
	m.server = c
	for i := 0; i < 200; i++ {
		conn, err := net.DialTimeout("tcp", fmt.Sprintf("127.0.0.1:%d", m.port), 100*time.Millisecond)
		if err == nil {
			conn.Close()
			return nil
		}
		time.Sleep(10 * time.Millisecond)
	}
	return errors.New("server did not start")
}

func runServerChild(args []string) {
	c := &wcmd.ServerCommand{Addr: "127.0.0.1:" + args[1], BaseDir: args[0]}
	c.Execute()
}

func kvGet(tk []string, k string) (string, bool) {
	for _, t := range tk {
		if strings.HasPrefix(t, k+"=") {
			return t[len(k)+1:], true
		}
	}
	return "", false
}

func kvInt(tk []string, k string) int {
	s, _ := kvGet(tk, k)
	n, _ := strconv.ParseInt(s, 10, 64)
	return int(n)
}

func classOf(err error) string {
	if err == nil {
		return "ok"
	}
	if errors.Is(err, wcmd.ErrDiffFound) {
		return "difffound"
	}
	if os.IsNotExist(err) || errors.Is(err, os.ErrNotExist) {
		return "err notexist"
	}
	return "err"
}

type parsedOut struct {
	groups  [][]string // records per "now:" group (one group when there is no such line)
	headers []string   // canonical header per group
	nows    []int64
	notes   []string
}

func fieldsOf(line string) map[string]string {
	m := map[string]string{}
	for _, f := range strings.Split(line, "\t") {
		if i := strings.IndexByte(f, ':'); i >= 0 {
			m[f[:i]] = f[i+1:]
		}
	}
	return m
}

func tsOf(s string) string {
	t, err := wt.ParseTimestamp(s)
	if err != nil {
		return "?" + s
	}
	return strconv.FormatUint(uint64(uint32(t)), 10)
}

func valOf(s string) string {
	f, err := strconv.ParseFloat(s, 64)
	if err != nil {
		return "?" + s
	}
	return fmt.Sprintf("%016x", math.Float64bits(f))
}

// parseOutput turns the text output of a command into canonical records.
func parseOutput(text string) parsedOut {
	var p parsedOut
	cur := -1
	newGroup := func() {
		p.groups = append(p.groups, nil)
		p.headers = append(p.headers, "")
		cur = len(p.groups) - 1
	}
	var hdrMeta string
	var hdrArchs []string
	flushHdr := func() {
		if hdrMeta != "" && cur >= 0 {
			p.headers[cur] = hdrMeta + strings.Join(hdrArchs, ",")
		}
		hdrMeta, hdrArchs = "", nil
	}
	sc := bufio.NewScanner(strings.NewReader(text))
	sc.Buffer(make([]byte, 1<<20), 1<<26)
	for sc.Scan() {
		line := sc.Text()
		f := fieldsOf(line)
		switch {
		case strings.HasPrefix(line, "time:"):
			continue
		case strings.HasPrefix(line, "now:"):
			flushHdr()
			newGroup()
			if t, err := wt.ParseTimestamp(f["now"]); err == nil {
				p.nows = append(p.nows, int64(t))
			}
		case strings.HasPrefix(line, "err:"):
			p.notes = append(p.notes, line)
		case strings.HasPrefix(line, "aggMethod:"):
			if cur < 0 {
				newGroup()
			}
			mr, _ := wt.ParseDuration(f["maxRetention"])
			x, _ := strconv.ParseFloat(f["xFileFactor"], 32)
			hdrMeta = fmt.Sprintf("%s/%d/%d/", f["aggMethodNum"], int32(mr), math.Float32bits(float32(x)))
			hdrArchs = nil
		case strings.HasPrefix(line, "archiveInfo:"):
			st, _ := wt.ParseDuration(f["durationPerPoint"])
			hdrArchs = append(hdrArchs, fmt.Sprintf("%s:%d:%s", f["offset"], int32(st), f["numberOfPoints"]))
		case strings.HasPrefix(line, "archive:"):
			flushHdr()
			if cur < 0 {
				newGroup()
			}
			if _, isDiff := f["srcVal"]; isDiff {
				p.groups[cur] = append(p.groups[cur], fmt.Sprintf("%s:%s:%s:%s:%s", f["archive"], tsOf(f["t"]), valOf(f["srcVal"]), valOf(f["destVal"]), valOf(f["destMinusSrc"])))
			} else {
				p.groups[cur] = append(p.groups[cur], fmt.Sprintf("%s:%s:%s", f["archive"], tsOf(f["t"]), valOf(f["val"])))
			}
		default:
			p.notes = append(p.notes, "unparsed:"+line)
		}
	}
	flushHdr()
	return p
}

func recsJoin(r []string) string {
	if len(r) == 0 {
		return "-"
	}
	return strings.Join(r, ",")
}

func hdrOrDash(s string, show bool) string {
	if !show || s == "" {
		return "-"
	}
	return s
}

// execCmd runs one CLI command in-process and returns the canonical observation,
// suffixed with " @now=<clock the command used>".
func (m *ImplCmd) execCmd(tk []string) (obs string) {
	defer func() {
		if r := recover(); r != nil {
			obs = "panic"
		}
	}()
	if m.lib.db != nil {
		m.lib.db.Close()
		m.lib.db = nil
	}
	name := tk[1]
	srcBase := filepath.Join(m.root, "src")
	if v, _ := kvGet(tk, "remote"); v == "1" {
		if err := m.ensureServer(); err != nil {
			return "harness-error " + err.Error()
		}
		srcBase = fmt.Sprintf("http://127.0.0.1:%d", m.port)
	}
	destBase := filepath.Join(m.root, "dst")
	if v, _ := kvGet(tk, "swap"); v == "1" {
		srcBase, destBase = filepath.Join(m.root, "dst"), filepath.Join(m.root, "src")
	}
	if v, _ := kvGet(tk, "destremote"); v == "1" {
		// diff / sum-diff may read the destination remotely too: the server serves root/src only,
		// so this is used with destinations placed under src
		destBase = srcBase
	}
	// the same directory can be named in several ways; a base directory given with a trailing
	// or a doubled separator is the same base (op-line key base=1..3; the model ignores it)
	styleBase := func(b string) string {
		if strings.HasPrefix(b, "http") {
			return b
		}
		switch v, _ := kvGet(tk, "base"); v {
		case "1":
			return b + "/"
		case "2":
			return filepath.Dir(b) + "//" + filepath.Base(b)
		case "3":
			return filepath.Dir(b) + "/./" + filepath.Base(b) + "/"
		}
		return b
	}
	srcBase, destBase = styleBase(srcBase), styleBase(destBase)
	outPath := filepath.Join(m.root, "textout.txt")
	os.Remove(outPath)
	textOut := outPath
	if v, ok := kvGet(tk, "textout"); ok {
		switch v {
		case "none":
			textOut = ""
		case "bad":
			textOut = filepath.Join(m.root, "no-such-dir", "out.txt")
		case "full":
			// opens, then every write beyond the buffer fails (ENOSPC)
			textOut = "/dev/full"
		}
	}
	archive := kvInt(tk, "archive")
	from := wt.Timestamp(kvInt(tk, "from"))
	until := wt.Timestamp(kvInt(tk, "until"))
	showHeader := false
	if v, _ := kvGet(tk, "header"); v == "1" {
		showHeader = true
	}
	rel := func(p string) string {
		// model paths are "src/..." or "dst/..."
		if i := strings.IndexByte(p, '/'); i >= 0 {
			return p[i+1:]
		}
		return p
	}
	copyOpts := func() (wt.AggregationMethod, float32, wt.ArchiveInfoList) {
		lay, _ := kvGet(tk, "lay")
		l, _ := parseLay(lay)
		x := uint32(kvInt(tk, "xff"))
		return wt.AggregationMethod(kvInt(tk, "agg")), math.Float32frombits(x), l
	}
	pairs, _ := kvGet(tk, "pairs")
	firstPair := func() (string, string) {
		p := strings.Split(strings.Split(pairs, ",")[0], ">")
		return rel(p[0]), rel(p[1])
	}
	glob, isGlob := kvGet(tk, "glob")
	itemPat, _ := kvGet(tk, "itempat")
	srcPat, _ := kvGet(tk, "srcpat")
	destRel, _ := kvGet(tk, "dest")

	var cmd wcmd.Command
	switch name {
	case "view":
		src, _ := kvGet(tk, "src")
		cmd = &wcmd.ViewCommand{SrcBase: srcBase, SrcRelPath: rel(src), From: from, Until: until, ArchiveID: archive, ShowHeader: showHeader, TextOut: textOut}
	case "viewraw":
		src, _ := kvGet(tk, "src")
		sortF, _ := kvGet(tk, "sort")
		cmd = &wcmd.ViewRawCommand{SrcBase: srcBase, SrcRelPath: rel(src), From: from, Until: until, ArchiveID: archive, ShowHeader: showHeader, SortsByTime: sortF == "1", TextOut: textOut}
	case "diff":
		c := &wcmd.DiffCommand{SrcBase: srcBase, DestBase: destBase, From: from, Until: until, ArchiveID: archive, TextOut: textOut}
		if isGlob {
			c.SrcRelPath = glob
		} else {
			s, d := firstPair()
			c.SrcRelPath, c.DestRelPath = s, d
		}
		cmd = c
	case "copy":
		agg, xff, lay := copyOpts()
		cn, _ := kvGet(tk, "copynan")
		c := &wcmd.CopyCommand{SrcBase: srcBase, DestBase: destBase, AggregationMethod: agg, XFilesFactor: xff, ArchiveInfoList: lay,
			From: from, Until: until, ArchiveID: archive, TextOut: textOut, CopyNaN: cn == "1"}
		if isGlob {
			c.SrcRelPath = glob
		} else {
			s, d := firstPair()
			c.SrcRelPath, c.DestRelPath = s, d
		}
		cmd = c
	case "sum":
		cmd = &wcmd.SumCommand{SrcBase: srcBase, ItemPattern: itemPat, SrcPattern: srcPat, From: from, Until: until, ArchiveID: archive, TextOut: textOut, ShowHeader: showHeader}
	case "sumcopy":
		agg, xff, lay := copyOpts()
		cmd = &wcmd.SumCopyCommand{SrcBase: srcBase, DestBase: destBase, ItemPattern: itemPat, SrcPattern: srcPat, DestRelPath: destRel,
			AggregationMethod: agg, XFilesFactor: xff, ArchiveInfoList: lay, From: from, Until: until, ArchiveID: archive, TextOut: textOut}
	case "sumdiff":
		cmd = &wcmd.SumDiffCommand{SrcBase: srcBase, ItemPattern: itemPat, SrcPattern: srcPat, DestBase: destBase, DestRelPath: destRel,
			From: from, Until: until, ArchiveID: archive, TextOut: textOut}
	default:
		return "bad-op"
	}

	if viaFlagsWanted(strings.Join(tk, " ")) {
		if parsed, ok := viaFlags(cmd); ok {
			cmd = parsed
			m.flagRoutes++
		}
	}
	readOnly := name == "view" || name == "viewraw" || name == "diff" || name == "sum" || name == "sumdiff"
	var err error
	var t0, t1 int64
	for attempt := 0; attempt < 5; attempt++ {
		os.Remove(outPath)
		// the clock must not tick while the command runs: start just after a tick
		for time.Now().Nanosecond() > 700e6 {
			time.Sleep(20 * time.Millisecond)
		}
		t0 = time.Now().Unix()
		err = withSkewedLibraryClock(cmd.Execute)
		t1 = time.Now().Unix()
		if t0 == t1 || !readOnly {
			break
		}
	}
	text := ""
	if b, e := ioutil.ReadFile(outPath); e == nil {
		text = string(b)
	}
	p := parseOutput(text)
	now := t0
	if len(p.nows) > 0 {
		now = p.nows[0]
		for _, n := range p.nows {
			if n != now {
				return "skip clock-ticked"
			}
		}
	} else if t0 != t1 {
		return "skip clock-ticked"
	}
	for _, n := range p.notes {
		if strings.HasPrefix(n, "unparsed:") {
			return "harness-error " + n
		}
	}
	cls := classOf(err)
	var body string
	switch name {
	case "view", "viewraw":
		h, r := "-", "-"
		if len(p.groups) > 0 {
			h, r = hdrOrDash(p.headers[0], showHeader), recsJoin(p.groups[0])
		}
		body = fmt.Sprintf("H=%s R=%s", h, r)
	case "sum":
		var parts []string
		for i := range p.groups {
			// a group is complete only when the item was summed (records or header present, or success)
			parts = append(parts, fmt.Sprintf("H=%s R=%s", hdrOrDash(p.headers[i], showHeader), recsJoin(p.groups[i])))
		}
		if cls != "ok" && len(parts) > 0 {
			parts = parts[:len(parts)-1] // the failing item printed only its "now:" line
		}
		body = "-"
		if len(parts) > 0 {
			body = strings.Join(parts, "|")
		}
	default:
		single := !isGlob && (name == "diff" || name == "copy")
		if single {
			r := "-"
			if len(p.groups) > 0 {
				r = recsJoin(p.groups[0])
			}
			body = "R=" + r
		} else {
			var parts []string
			for i := range p.groups {
				parts = append(parts, recsJoin(p.groups[i]))
			}
			body = "R=-"
			if len(parts) > 0 {
				body = "R=" + strings.Join(parts, "|")
			}
		}
	}
	if textOut == "" || textOut == "/dev/full" {
		// no text output was requested (or none can be read back): only the outcome is observable
		body = "(no-output)"
	}
	return fmt.Sprintf("%s %s%s @now=%d", cls, body, m.lockProbe(), now)
}

// lockProbe: after a command has returned, no whisper file of the tree may still be locked
func (m *ImplCmd) lockProbe() string {
	leak := ""
	filepath.Walk(m.root, func(p string, info os.FileInfo, err error) error {
		if err != nil || info.IsDir() || !(strings.HasSuffix(p, ".wsp") || strings.HasSuffix(p, ".dat")) {
			return nil
		}
		f, err := os.Open(p)
		if err != nil {
			return nil
		}
		defer f.Close()
		for try := 0; try < 5; try++ {
			err := syscall.Flock(int(f.Fd()), syscall.LOCK_EX|syscall.LOCK_NB)
			if err == syscall.EINTR {
				continue
			}
			if err == syscall.EWOULDBLOCK {
				rel, _ := filepath.Rel(m.root, p)
				leak = " !lockleak=" + rel
			}
			break
		}
		return nil
	})
	return leak
}

func (m *ImplCmd) Exec(line string) string {
	tk := strings.Fields(line)
	if len(tk) == 0 {
		return "bad-op"
	}
	// a space inside a file or directory name travels as "~s~" in the line protocol (the model
	// treats names as opaque strings)
	for i := range tk {
		tk[i] = strings.ReplaceAll(tk[i], "~s~", " ")
	}
	switch tk[0] {
	case "use":
		if m.lib.db != nil {
			m.lib.db.Close()
			m.lib.db = nil
		}
		m.lib.path = filepath.Join(m.root, tk[1])
		os.MkdirAll(filepath.Dir(m.lib.path), 0755)
		return "ok"
	case "reset":
		if m.lib.db != nil {
			m.lib.db.Close()
			m.lib.db = nil
		}
		os.RemoveAll(filepath.Join(m.root, "src"))
		os.RemoveAll(filepath.Join(m.root, "dst"))
		os.RemoveAll(filepath.Join(m.root, "gen"))
		m.lib.path = filepath.Join(m.root, "f.wsp")
		os.Remove(m.lib.path)
		return "ok"
	case "resetfile":
		return m.lib.Exec("reset")
	case "dangle":
		// a name that globbing lists but that cannot be opened: a symlink to nowhere
		p := filepath.Join(m.root, tk[1])
		os.MkdirAll(filepath.Dir(p), 0755)
		os.Remove(p)
		if err := os.Symlink(filepath.Join(m.root, "no-such-target.wsp"), p); err != nil {
			return "harness-error " + err.Error()
		}
		return "ok"
	case "fdisk":
		hdr, _ := strconv.Atoi(tk[2])
		b, err := ioutil.ReadFile(filepath.Join(m.root, tk[1]))
		if err != nil {
			return "none"
		}
		return "ok " + canonHash(hdr, b)
	case "cmd":
		if len(tk) > 1 && tk[1] == "generate" {
			return m.execGenerate(tk)
		}
		return m.execCmd(tk)
	case "genspec":
		return m.genSpec(tk)
	case "genpts":
		return genPts(tk)
	case "snapshot":
		b, err := ioutil.ReadFile(filepath.Join(m.root, tk[1]))
		if err != nil {
			return "none"
		}
		return "ok @append=hex=" + hexOrDash(b)
	}
	return m.lib.Exec(line)
}

// quiet http client noise
var _ = http.StatusOK

// execGenerate runs `whispertool generate`; the clock it used is remembered for genspec.
func (m *ImplCmd) execGenerate(tk []string) (obs string) {
	defer func() {
		if r := recover(); r != nil {
			obs = "panic"
		}
	}()
	if m.lib.db != nil {
		m.lib.db.Close()
		m.lib.db = nil
	}
	dest, _ := kvGet(tk, "dest")
	lay, _ := kvGet(tk, "lay")
	l, _ := parseLay(lay)
	path := filepath.Join(m.root, dest)
	os.MkdirAll(filepath.Dir(path), 0755)
	fill, _ := kvGet(tk, "fill")
	textOut := ""
	if v, _ := kvGet(tk, "textout"); v == "bad" {
		textOut = filepath.Join(m.root, "no-such-dir", "out.txt")
	}
	c := &wcmd.GenerateCommand{Dest: path, Perm: 0644, AggregationMethod: wt.AggregationMethod(kvInt(tk, "agg")),
		XFilesFactor: math.Float32frombits(uint32(kvInt(tk, "xff"))), ArchiveInfoList: l, RandMax: kvInt(tk, "max"),
		Fill: fill == "1", TextOut: textOut}
	for time.Now().Nanosecond() > 600e6 {
		time.Sleep(20 * time.Millisecond)
	}
	t0 := time.Now().Unix()
	err := withSkewedLibraryClock(c.Execute)
	t1 := time.Now().Unix()
	if t0 != t1 {
		os.Remove(path)
		return "skip clock-ticked"
	}
	m.genNow = t0
	return classOf(err) + m.lockProbe()
}

// genSpec fetches every archive of the generated file over its whole retention at the
// generation clock and hands the series to the specification (evaluated by the Lean driver).
func (m *ImplCmd) genSpec(tk []string) (obs string) {
	defer func() {
		if r := recover(); r != nil {
			obs = "panic"
		}
	}()
	dest, _ := kvGet(tk, "dest")
	db, err := wt.Open(filepath.Join(m.root, dest))
	if err != nil {
		return "none"
	}
	defer db.Close()
	var parts []string
	now := wt.Timestamp(m.genNow)
	for i := range db.ArchiveInfoList() {
		a := &db.ArchiveInfoList()[i]
		ts, err := db.FetchFromArchive(i, now.Add(-a.MaxRetention()), now, now)
		if err != nil || ts == nil {
			return "harness-error fetch"
		}
		parts = append(parts, fmt.Sprintf("%d/%d/%d/%s", uint32(ts.FromTime()), uint32(ts.UntilTime()), int32(ts.Step()), valsStr(ts.Values())))
	}
	return "ok @append=series=" + strings.Join(parts, ";")
}

// withSkewedLibraryClock runs a command with the library's own clock (whispertool.Now, read
// only when a call passes no instant) set to the second day of 1970.  Every command reads the
// wall clock once and hands that instant to every library call it makes: nothing it does may
// depend on a second reading.  In real use two readings differ only when a second boundary
// falls between them; with the library clock decades away a command that lets the library
// read the clock for itself gives itself away on every run.
func withSkewedLibraryClock(run func() error) error {
	saved := wt.Now
	wt.Now = func() time.Time { return time.Unix(86400, 0) }
	defer func() { wt.Now = saved }()
	return run()
}
