package main

// Rng is a splitmix64 generator: every random choice of a run derives from VERIF_SEED.
type Rng struct{ s uint64 }

func NewRng(seed uint64) *Rng { return &Rng{s: seed*0x9e3779b97f4a7c15 + 0x1234567} }

func (r *Rng) U64() uint64 {
	r.s += 0x9e3779b97f4a7c15
	z := r.s
	z = (z ^ (z >> 30)) * 0xbf58476d1ce4e5b9
	z = (z ^ (z >> 27)) * 0x94d049bb133111eb
	return z ^ (z >> 31)
}

func (r *Rng) Intn(n int) int {
	if n <= 0 {
		return 0
	}
	return int(r.U64() % uint64(n))
}

func (r *Rng) Bool() bool { return r.U64()&1 == 1 }

// Chance returns true with probability num/den.
func (r *Rng) Chance(num, den int) bool { return r.Intn(den) < num }

func (r *Rng) PickInt(xs []int) int { return xs[r.Intn(len(xs))] }

func (r *Rng) Fork() *Rng { return NewRng(r.U64()) }

// Perm returns a pseudo-random permutation of 0..n-1
func (r *Rng) Perm(n int) []int {
	p := make([]int, n)
	for i := range p {
		p[i] = i
	}
	for i := n - 1; i > 0; i-- {
		j := r.Intn(i + 1)
		p[i], p[j] = p[j], p[i]
	}
	return p
}
