package main

import (
	"fmt"
	"math"
	"strconv"
	"strings"
)

// Op is one protocol line; S marks a spec-determined observable for the property
// being checked (a divergence there is a violation at that input), otherwise it is a
// model-fidelity observable.
type Op struct {
	Line string
	S    bool
}

type Layout struct {
	Steps []int
	Ns    []int
}

func (l Layout) K() int        { return len(l.Steps) }
func (l Layout) Ret(i int) int { return l.Steps[i] * l.Ns[i] }
func (l Layout) MaxRet() int   { return l.Ret(l.K() - 1) }
func (l Layout) HdrSize() int  { return 16 + 12*l.K() }
func (l Layout) String() string {
	var parts []string
	for i := range l.Steps {
		parts = append(parts, fmt.Sprintf("%d:%d", l.Steps[i], l.Ns[i]))
	}
	return strings.Join(parts, ",")
}
func (l Layout) FileSize() int {
	sz := l.HdrSize()
	for _, n := range l.Ns {
		sz += 12 * n
	}
	return sz
}

// genLayout draws a layout that is valid by construction (DESIGN §4.2): 1-4 archives,
// steps as products of small factors, point counts from a set that makes rings of 1-2
// slots, "ratio = N", "coarser ring barely longer" and multi-page archives all occur.
func genLayout(r *Rng, big bool) Layout {
	k := 1 + r.Intn(4)
	steps := make([]int, k)
	ratios := make([]int, k)
	steps[0] = r.PickInt([]int{1, 1, 2, 3, 5, 10, 60})
	for i := 1; i < k; i++ {
		ratios[i-1] = r.PickInt([]int{2, 2, 3, 4, 5, 6, 10})
		if r.Chance(1, 8) {
			// larger ratios: thresholds like xFilesFactor·ratio stop being exact in float32
			ratios[i-1] = r.PickInt([]int{12, 13, 15, 19, 20, 21, 23, 25, 26, 27, 30, 60})
		}
		steps[i] = steps[i-1] * ratios[i-1]
	}
	ns := make([]int, k)
	prevRet := 0
	for i := 0; i < k; i++ {
		ratio := 1
		if i < k-1 {
			ratio = ratios[i]
		}
		minN := ratio
		if m := prevRet/steps[i] + 1; m > minN {
			minN = m
		}
		cands := []int{minN, minN, minN + 1, minN + 2, minN * 2, minN + 7}
		if i == 0 {
			cands = append(cands, 1, 2, 3, 7)
		}
		if big {
			cands = append(cands, 341, 342, 700)
			if i == 0 {
				cands = append(cands, 1500)
			}
		}
		n := r.PickInt(cands)
		if n < minN {
			n = minN
		}
		ns[i] = n
		prevRet = steps[i] * n
	}
	return Layout{steps, ns}
}

var interestingVals = []float64{0, 1, -1, 2, 3, 5, 7, 10, 100, -100, 0.5, -0.25, 1e10, -1e10,
	math.Copysign(0, -1), 1.0000000000000002, 123456.789}

func genVal(r *Rng, exotic bool) string {
	if exotic && r.Chance(1, 25) {
		switch r.Intn(4) {
		case 0:
			return "7ff0000000000000" // +Inf
		case 1:
			return "fff0000000000000" // -Inf
		case 2:
			return "7ff8000000000001" // NaN (math.NaN())
		default:
			return "7ff8000000abcdef" // NaN with payload
		}
	}
	if r.Chance(3, 4) {
		return fmt.Sprintf("%016x", math.Float64bits(interestingVals[r.Intn(len(interestingVals))]))
	}
	return fmt.Sprintf("%016x", math.Float64bits(float64(r.Intn(2000)-1000)/8))
}

// genAge draws an age (now - t) around the boundaries the properties name.
func genAge(r *Rng, l Layout) int {
	j := r.Intn(l.K())
	ret := l.Ret(j)
	s := l.Steps[j]
	switch r.Intn(12) {
	case 0:
		return 0
	case 1:
		return 1
	case 2:
		return s - 1
	case 3:
		return s
	case 4:
		return ret - 1
	case 5:
		return ret
	case 6:
		return ret + 1
	case 7:
		return -1 - r.Intn(3) // future
	case 8:
		return l.MaxRet() + r.Intn(5) - 2
	default:
		return r.Intn(ret + 1)
	}
}

type LibGen struct {
	r      *Rng
	lay    Layout
	now    int
	agg    int
	xff    uint32
	exotic bool
	prop   string
	// always Sync right after Create (a never-synced file has an all-zero header on disk)
	alwaysSync bool
}

var xffChoices = []float32{0, 0, 0.5, 1, 0.2, 0.25, 0.3333333, 0.34, 0.1, 0.99, 1e-9, 0.6, 0.3, 0.7, 0.4, 0.9}

func newLibGen(r *Rng, prop string, big bool) *LibGen {
	g := &LibGen{r: r, prop: prop}
	g.lay = genLayout(r, big)
	g.now = 1600000000 + r.Intn(100000000)
	switch r.Intn(10) {
	case 0:
		// after 2038: timestamps with the top bit set (a Timestamp is a uint32; differences of
		// two timestamps are int32 and the code must not depend on their sign beyond a retention)
		g.now = 2147483648 + 1000000 + r.Intn(2000000000)
	case 1:
		// a history that crosses 2^31
		g.now = 2147483648 - g.lay.MaxRet()/2 + r.Intn(g.lay.MaxRet()+1)
	}
	if r.Chance(1, 4) {
		// align the clock to the coarsest step now and then
		s := g.lay.Steps[g.lay.K()-1]
		g.now -= g.now % s
	}
	g.agg = 1 + r.Intn(6)
	g.xff = math.Float32bits(xffChoices[r.Intn(len(xffChoices))])
	if r.Chance(1, 6) {
		// k/n and its float32 neighbours (n: a small number, or one of the layout's step ratios)
		n := 2 + r.Intn(9)
		if g.lay.K() >= 2 && r.Bool() {
			j := r.Intn(g.lay.K() - 1)
			n = g.lay.Steps[j+1] / g.lay.Steps[j]
		}
		k := 1 + r.Intn(n)
		f := float32(k) / float32(n)
		g.xff = math.Float32bits(f)
		switch r.Intn(3) {
		case 0:
			g.xff--
		case 1:
			if f < 1 {
				g.xff++
			}
		}
	}
	g.exotic = r.Chance(1, 3)
	return g
}

func (g *LibGen) createLine() string {
	return fmt.Sprintf("create %s %d %08x", g.lay, g.agg, g.xff)
}

func (g *LibGen) genPoint() string {
	age := genAge(g.r, g.lay)
	t := g.now - age
	if t < 1 {
		t = 1
	}
	return fmt.Sprintf("%d:%s", t, genVal(g.r, g.exotic))
}

func (g *LibGen) genBatch() string {
	n := 1 + g.r.Intn(12)
	if g.r.Chance(1, 10) {
		n = 30 + g.r.Intn(40)
	}
	var pts []string
	for i := 0; i < n; i++ {
		if i > 0 && g.r.Chance(1, 6) {
			// duplicate an earlier time with another value (same slot, same or different t)
			prev := pts[g.r.Intn(len(pts))]
			tt := prev[:strings.IndexByte(prev, ':')]
			v := genVal(g.r, g.exotic)
			if g.r.Chance(1, 4) {
				// the later copy of a repeated time carries no value: it still wins
				v = "7ff8000000000001"
			}
			pts = append(pts, tt+":"+v)
			continue
		}
		if g.r.Chance(1, 4) {
			// a time on the grid of one of the archives (repetitions of it are merged by
			// the batch alignment before anything is written)
			p := g.genPoint()
			i := strings.IndexByte(p, ':')
			t, _ := strconv.Atoi(p[:i])
			st := g.lay.Steps[g.r.Intn(g.lay.K())]
			if t-t%st >= 1 {
				t -= t % st
			}
			pts = append(pts, fmt.Sprintf("%d%s", t, p[i:]))
			continue
		}
		pts = append(pts, g.genPoint())
	}
	return strings.Join(pts, ",")
}

// genRecreateCase (C05, C06): a file created, synced and abandoned, then created again in place
// with an open flag that allows an existing file (no O_EXCL, no O_TRUNC) and another layout —
// shorter or longer, with at least as many archives, so that the old header lies inside the
// new one and the new archives start out clean.  The file has its new length at once; after
// Sync the header is the new one; updates and reads then behave as on any fresh file.
func genRecreateCase(r *Rng, prop string) []Op {
	g := newLibGen(r, prop, false)
	old := g.lay
	ops := []Op{{"reset", false}, {g.createLine(), true}, {"sync", true}, {"drop", false}}
	nl := genLayout(r, false)
	for nl.K() < old.K() || nl.FileSize() > 60000 {
		nl = genLayout(r, false)
	}
	g.lay = nl
	hs := nl.HdrSize()
	ops = append(ops, Op{fmt.Sprintf("createover %s %d %08x", nl, g.agg, g.xff), true},
		Op{fmt.Sprintf("disk %d", hs), true}, Op{"header", true}, Op{"sync", true},
		Op{fmt.Sprintf("disk %d", hs), true}, Op{"drop", false}, Op{"open", true}, Op{"header", true})
	rest := g.History(3 + r.Intn(4))
	// the history starts with its own reset and create: keep what follows them
	for i, o := range rest {
		if strings.HasPrefix(o.Line, "create ") {
			rest = rest[i+1:]
			break
		}
	}
	return append(ops, rest...)
}

// genHugeBatch (C05): more than 4096 slots of one archive written by one call, the handle
// abandoned before any Sync — the disk must not have changed — then the same with a Sync
func genHugeBatch(r *Rng, prop string) []Op {
	lay := Layout{[]int{1, 10}, []int{4400 + r.Intn(300), 500}}
	if r.Bool() {
		lay = Layout{[]int{1}, []int{4200 + r.Intn(400)}}
	}
	now := 1600000000 + r.Intn(100000000)
	agg, xff := 1+r.Intn(6), math.Float32bits(0.5)
	var pts []string
	for j := 0; j < 4096+r.Intn(100); j++ {
		pts = append(pts, fmt.Sprintf("%d:%s", now-j, genVal(r, false)))
	}
	batch := fmt.Sprintf("updmany 0 %d %s", now, strings.Join(pts, ","))
	hs := lay.HdrSize()
	return []Op{{"reset", false}, {fmt.Sprintf("create %s %d %08x", lay, agg, xff), true}, {"sync", true},
		{batch, true}, {fmt.Sprintf("disk %d", hs), true}, {"drop", false}, {"open", true},
		{fmt.Sprintf("disk %d", hs), true}, {fmt.Sprintf("fetch 0 %d %d %d", now-50, now, now), true},
		{batch, true}, {"sync", true}, {fmt.Sprintf("disk %d", hs), true}}
}

// XffBoundary (C02): two archives with step ratio n, xFilesFactor = float32(k)/float32(n) or
// a float32 neighbour (or a short decimal), and exactly k−1, k, k+1 known finer values
// inside coarse intervals: is the coarser slot stored or left alone?
func genXffBoundary(r *Rng, prop string) []Op {
	n := r.PickInt([]int{2, 3, 4, 5, 6, 7, 9, 10, 12, 13, 15, 19, 20, 21, 23, 25, 26, 27, 30, 60})
	s0 := r.PickInt([]int{1, 1, 2, 5})
	cnt1 := 4 + r.Intn(4)
	lay := Layout{[]int{s0, s0 * n}, []int{n * (2 + r.Intn(2)), cnt1}}
	if lay.Ns[0]*s0 >= lay.Ns[1]*s0*n {
		lay.Ns[1] = lay.Ns[0]/n + 2
	}
	k := 1 + r.Intn(n)
	xf := float32(k) / float32(n)
	xff := math.Float32bits(xf)
	switch r.Intn(5) {
	case 0:
		xff--
	case 1:
		if xf < 1 {
			xff++
		}
	case 2:
		xff = math.Float32bits([]float32{0.1, 0.2, 0.3, 0.4, 0.6, 0.7, 0.8, 0.9}[r.Intn(8)])
	}
	agg := 1 + r.Intn(6)
	now := 1600000000 + r.Intn(100000000)
	now -= now % (s0 * n)
	now += s0*n - 1 // the last finer step of a coarse interval: the whole interval is in reach
	sRaw := prop == "C02" || prop == "C03"
	ops := []Op{{"reset", false}, {fmt.Sprintf("create %s %d %08x", lay, agg, xff), true}}
	base := now - (now % (s0 * n))
	for _, known := range []int{k - 1, k, k + 1} {
		if known < 1 || known > n {
			continue
		}
		// a fresh coarse interval each time: one interval back per round
		var pts []string
		perm := r.Perm(n)
		for j := 0; j < known; j++ {
			pts = append(pts, fmt.Sprintf("%d:%s", base+perm[j]*s0, genVal(r, false)))
		}
		ops = append(ops, Op{fmt.Sprintf("updmany -1 %d %s", now, strings.Join(pts, ",")), prop == "C02"})
		ops = append(ops, Op{"raw 1", sRaw}, Op{fmt.Sprintf("fetch 1 %d %d %d", base-1, base+s0*n, now), true})
		base -= s0 * n
		if base <= now-lay.Ns[0]*s0 {
			break
		}
	}
	return ops
}

func (g *LibGen) validID() int {
	if g.r.Chance(2, 3) {
		return -1
	}
	return g.r.Intn(g.lay.K())
}

func (g *LibGen) fetchID() int {
	switch g.r.Intn(10) {
	case 0:
		return -1
	case 1:
		return g.lay.K() // out of range
	case 2:
		return -2
	default:
		return g.r.Intn(g.lay.K())
	}
}

func (g *LibGen) window(k int) (int, int) {
	l := g.lay
	if k < 0 || k >= l.K() {
		k = g.r.Intn(l.K())
	}
	s, n := l.Steps[k], l.Ns[k]
	ret := s * n
	switch g.r.Intn(11) {
	case 10: // the smallest timestamp there is as `until`: an empty window, or from > until
		return []int{0, 0, 100, g.now - 1}[g.r.Intn(4)], 0
	case 0: // whole retention
		return g.now - ret, g.now
	case 1: // from=0
		return 0, g.now - g.r.Intn(ret+1)
	case 2: // degenerate / sub-step
		t := g.now - g.r.Intn(ret+1)
		return t, t + g.r.Intn(s)
	case 3: // from > until
		return g.now - 1, g.now - 2 - g.r.Intn(5)
	case 4: // in the future
		return g.now + 1 + g.r.Intn(5), g.now + 10
	case 5: // straddling now
		return g.now - g.r.Intn(ret+1), g.now + g.r.Intn(3*s+1)
	case 6: // straddling / beyond the retention edge
		return g.now - ret - g.r.Intn(3*s+2), g.now - ret + g.r.Intn(3*s+2) - s
	case 7: // exactly N intervals, aligned
		u := g.now - g.now%s
		return u - ret, u
	default:
		a := g.r.Intn(ret + s)
		b := g.r.Intn(a + 1)
		return g.now - a, g.now - b
	}
}

func (g *LibGen) observe(ops []Op, sFetch, sRaw, sDisk bool, nFetch int) []Op {
	for k := 0; k < g.lay.K(); k++ {
		ops = append(ops, Op{fmt.Sprintf("raw %d", k), sRaw})
	}
	ops = append(ops, Op{fmt.Sprintf("disk %d", g.lay.HdrSize()), sDisk})
	for i := 0; i < nFetch; i++ {
		k := g.fetchID()
		f, u := g.window(k)
		if f < 0 {
			f = 0
		}
		if u < 0 {
			u = 0
		}
		ops = append(ops, Op{fmt.Sprintf("fetch %d %d %d %d", k, f, u, g.now), sFetch})
	}
	if (g.prop == "C04" || g.prop == "C01") && g.r.Chance(1, 3) {
		// a reader whose clock is behind the writers' by a few retentions (another host, a
		// request that names its own instant): the window is one of that clock
		save := g.now
		k := g.r.Intn(g.lay.K())
		back := (1+g.r.Intn(3))*g.lay.Ret(k) + g.r.Intn(g.lay.Ret(k)+1)
		if g.now-back > g.lay.MaxRet()+10 {
			g.now -= back
			f, u := g.window(k)
			if f < 0 {
				f = 0
			}
			if u < 0 {
				u = 0
			}
			ops = append(ops, Op{fmt.Sprintf("fetch %d %d %d %d", k, f, u, g.now), sFetch})
		}
		g.now = save
	}
	return ops
}

// History draws one library history with the observations the property needs.
func (g *LibGen) History(nSteps int) []Op {
	p := g.prop
	sFetch := p == "C01" || p == "C04" || p == "C05" || p == "C06"
	sRaw := p == "C02" || p == "C03"
	sDisk := p == "C05" || p == "C06"
	sUpd := p == "C03" || p == "C02"
	nFetch := 3
	if p == "C04" {
		nFetch = 8
	}
	var ops []Op
	ops = append(ops, Op{"reset", false}, Op{g.createLine(), true})
	if g.r.Chance(4, 5) || g.alwaysSync {
		// (a file never synced has a zero header on disk and cannot be reopened)
		ops = append(ops, Op{"sync", sDisk})
	}
	ops = append(ops, Op{"header", p == "C06" || p == "C07"})
	ops = g.observe(ops, sFetch, sRaw, sDisk, nFetch)
	for i := 0; i < nSteps; i++ {
		switch c := g.r.Intn(20); {
		case c < 6:
			age := genAge(g.r, g.lay)
			t := g.now - age
			if t < 1 {
				t = 1
			}
			ops = append(ops, Op{fmt.Sprintf("upd -1 %d %s %d", t, genVal(g.r, g.exotic), g.now), sUpd})
		case c < 8:
			// single update to a named archive, in range for it
			k := g.r.Intn(g.lay.K())
			age := g.r.Intn(g.lay.Ret(k))
			ops = append(ops, Op{fmt.Sprintf("upd %d %d %s %d", k, g.now-age, genVal(g.r, g.exotic), g.now), sUpd})
		case c < 14:
			if g.lay.Ns[0] >= 1200 && g.r.Chance(1, 3) {
				// one very large batch into one archive (more than a thousand slots in one call),
				// then the disk before any Sync and a reopen
				var pts []string
				st := g.lay.Steps[0]
				base := g.now - g.now%st
				for j := 0; j < 1100+g.r.Intn(80); j++ {
					pts = append(pts, fmt.Sprintf("%d:%s", base-j*st, genVal(g.r, false)))
				}
				ops = append(ops, Op{fmt.Sprintf("updmany 0 %d %s", g.now, strings.Join(pts, ",")), sUpd})
				ops = append(ops, Op{fmt.Sprintf("disk %d", g.lay.HdrSize()), true})
				break
			}
			if g.lay.K() >= 2 && g.r.Chance(1, 6) {
				// the same batch handed to two archives one after the other, the coarser first
				b := g.genBatch()
				k2 := g.r.Intn(g.lay.K() - 1)
				k1 := k2 + 1 + g.r.Intn(g.lay.K()-1-k2)
				ops = append(ops, Op{fmt.Sprintf("updmany %d %d %s", k1, g.now, b), sUpd}, Op{fmt.Sprintf("updmany %d %d %s", k2, g.now, b), sUpd})
				break
			}
			ops = append(ops, Op{fmt.Sprintf("updmany %d %d %s", g.validID(), g.now, g.genBatch()), sUpd})
		case c < 16:
			// clock advance
			switch g.r.Intn(4) {
			case 0:
				g.now += 1
			case 1:
				g.now += g.lay.Steps[g.r.Intn(g.lay.K())]
			case 2:
				g.now += g.lay.Ret(g.r.Intn(g.lay.K())) + g.r.Intn(3)
			default:
				g.now += g.r.Intn(g.lay.MaxRet() + 1)
			}
			continue
		case c < 17:
			ops = append(ops, Op{"sync", sDisk})
		case c < 18:
			ops = append(ops, Op{"sync", sDisk}, Op{"open", true})
		case c < 19:
			if g.r.Chance(1, 3) {
				// Create on a path that exists is refused and leaves the file alone
				ops = append(ops, Op{"sync", sDisk}, Op{"drop", false}, Op{g.createLine(), true},
					Op{fmt.Sprintf("disk %d", g.lay.HdrSize()), true}, Op{"open", true})
				break
			}
			// abandon the handle without sync, then reopen: the last synced state is back
			ops = append(ops, Op{"drop", false}, Op{"open", true})
		default:
			ops = append(ops, Op{"sync", sDisk})
		}
		ops = g.observe(ops, sFetch, sRaw, sDisk, nFetch)
	}
	return ops
}

// genSpanBatch (C02): a coarser ring barely longer than the finer one, and sparse batches
// holding only the oldest point the finest archive still takes and the newest — their coarser
// intervals lie a whole coarser retention apart, i.e. in the same ring slot, with nothing
// between them in the work-list.  Both intervals must be recomputed, at every phase of the
// clock within a coarser step.
func genSpanBatch(r *Rng, prop string) []Op {
	s0 := r.PickInt([]int{1, 1, 2, 5})
	ratio := r.PickInt([]int{2, 3, 4, 5})
	s1 := s0 * ratio
	n1 := 2 + r.Intn(4)
	// ret1 - ret0 < s1: the finer archive reaches back into the oldest coarser interval
	ret1 := s1 * n1
	n0 := (ret1 - 1) / s0
	if n0 < ratio {
		n0 = ratio
		n1 = n0*s0/s1 + 1
		ret1 = s1 * n1
	}
	lay := Layout{[]int{s0, s1}, []int{n0, n1}}
	if r.Chance(1, 3) {
		// a third level on top, barely longer again
		s2 := s1 * r.PickInt([]int{2, 3})
		n2 := ret1/s2 + 1
		if n1 < s2/s1 {
			n1 = s2 / s1
			lay.Ns[1] = n1
			ret1 = s1 * n1
			n2 = ret1/s2 + 1
		}
		lay = Layout{[]int{s0, s1, s2}, []int{lay.Ns[0], n1, n2}}
	}
	agg := 1 + r.Intn(6)
	xff := math.Float32bits([]float32{0, 0, 0.1, 0.5}[r.Intn(4)])
	now := 1600000000 + r.Intn(100000000)
	now -= now % (s1 * 6)
	sRaw := prop == "C02" || prop == "C03"
	ops := []Op{{"reset", false}, {fmt.Sprintf("create %s %d %08x", lay, agg, xff), true}}
	ret0 := lay.Ret(0)
	for phase := 0; phase < s1 && phase < 10; phase++ {
		n := now + phase
		old := n - ret0 + 1
		pts := []string{fmt.Sprintf("%d:%s", old, genVal(r, false)), fmt.Sprintf("%d:%s", n, genVal(r, false))}
		if r.Chance(1, 3) {
			pts = append(pts, fmt.Sprintf("%d:%s", old+s0, genVal(r, false)))
		}
		ops = append(ops, Op{fmt.Sprintf("updmany -1 %d %s", n, strings.Join(pts, ",")), prop == "C02"})
		for k := 1; k < lay.K(); k++ {
			ops = append(ops, Op{fmt.Sprintf("raw %d", k), sRaw})
		}
		ops = append(ops, Op{fmt.Sprintf("fetch 1 %d %d %d", n-ret1+1, n, n), true})
		if r.Chance(1, 3) {
			now += lay.MaxRet() + r.Intn(s1)
		}
	}
	return ops
}

// genMixedLevels (C02): three archives and coarser slots that do not equal the aggregate of
// what lies under them (written directly, by name), then batches to the finest archive that
// mix, level-1 slot by level-1 slot, enough points for the slot to be stored, too few, and
// none — over two or three neighbouring level-2 intervals.  Every level is compared slot for
// slot after each batch: recomputation goes on to the next level only for slots that were
// stored, each of them, and for no other.
func genMixedLevels(r *Rng, prop string) []Op {
	s0 := r.PickInt([]int{1, 1, 2})
	r1 := r.PickInt([]int{2, 3, 4, 4})
	r2 := r.PickInt([]int{2, 3, 4})
	s1, s2 := s0*r1, s0*r1*r2
	n0 := r1 * r2 * 3
	n1 := n0/r1 + r2
	n2 := n1/r2 + 2 + r.Intn(3)
	lay := Layout{[]int{s0, s1, s2}, []int{n0, n1, n2}}
	need := 1 + r.Intn(r1) // points a level-1 slot needs
	// one level-2 interval kept quiet: under it every batch brings too few points for any
	// level-1 slot, while the other interval has slots that are stored in the same batch
	quiet := []int{1, 1, 1, 0, -1, -1}[r.Intn(6)]
	if quiet >= 0 && need < 2 {
		need = 2
	}
	xf := float32(need) / float32(r1)
	if r.Chance(1, 4) {
		xf = []float32{0.5, 0.25, 0.34, 0.75}[r.Intn(4)]
	}
	xff := math.Float32bits(xf)
	agg := 1 + r.Intn(6)
	now := 1600000000 + r.Intn(100000000)
	now -= now % s2
	now += s2 - 1 - r.Intn(s0+1)
	B := now - now%s2 - s2 // two whole level-2 intervals [B, B+2*s2) within reach of archive 0
	ops := []Op{{"reset", false}, {fmt.Sprintf("create %s %d %08x", lay, agg, xff), true}}
	raws := func() {
		for k := 0; k < 3; k++ {
			ops = append(ops, Op{fmt.Sprintf("raw %d", k), true})
		}
	}
	// coarser archives written by name
	if r.Chance(3, 4) {
		var pts []string
		for t := B; t < B+2*s2; t += s1 {
			if r.Chance(1, 2) || (quiet >= 0 && (t-B)/s2 == quiet && r.Chance(3, 4)) {
				pts = append(pts, fmt.Sprintf("%d:%s", t+r.Intn(s1), genVal(r, false)))
			}
		}
		if len(pts) > 0 {
			ops = append(ops, Op{fmt.Sprintf("updmany 1 %d %s", now, strings.Join(pts, ",")), true})
		}
	}
	if r.Chance(3, 4) {
		var pts []string
		for t := B; t < B+2*s2; t += s2 {
			if r.Chance(2, 3) {
				pts = append(pts, fmt.Sprintf("%d:%s", t+r.Intn(s2), genVal(r, false)))
			}
		}
		if len(pts) > 0 {
			ops = append(ops, Op{fmt.Sprintf("updmany 2 %d %s", now, strings.Join(pts, ",")), true})
		}
	}
	raws()
	for round := 0; round < 2+r.Intn(2); round++ {
		var pts []string
		for t := B; t < B+2*s2 && t <= now; t += s1 {
			k := 0
			switch r.Intn(4) {
			case 0: // none
			case 1: // one point: too few unless one is enough
				k = 1
			case 2: // just enough
				k = need
			default:
				k = 1 + r.Intn(r1)
			}
			if quiet >= 0 {
				if (t-B)/s2 == quiet {
					k = r.Intn(need) // none, or too few
					if k == 0 && r.Bool() {
						k = need - 1
					}
				} else if r.Bool() {
					k = need + r.Intn(r1-need+1)
				}
			}
			perm := r.Perm(r1)
			for j := 0; j < k; j++ {
				if tt := t + perm[j]*s0; tt <= now {
					pts = append(pts, fmt.Sprintf("%d:%s", tt, genVal(r, false)))
				}
			}
		}
		if len(pts) == 0 {
			continue
		}
		if r.Chance(1, 3) {
			// not in time order
			for i := len(pts) - 1; i > 0; i-- {
				j := r.Intn(i + 1)
				pts[i], pts[j] = pts[j], pts[i]
			}
		}
		id := []int{0, -1}[r.Intn(2)]
		ops = append(ops, Op{fmt.Sprintf("updmany %d %d %s", id, now, strings.Join(pts, ",")), true})
		raws()
		ops = append(ops, Op{fmt.Sprintf("fetch 2 %d %d %d", B-1, now, now), true}, Op{fmt.Sprintf("fetch 1 %d %d %d", B-1, now, now), true})
	}
	return ops
}
