package main

import (
	"strconv"
	"strings"
)

func libSuite(prop string) Suite {
	return Suite{
		Name:   "lib",
		MkExec: func() Executor { return NewImplLib() },
		Canon:  canonObs,
		Gen: func(r *Rng, i int, tier string) []Op {
			if prop == "C02" && i%6 == 5 {
				return genXffBoundary(r, prop)
			}
			if prop == "C02" && i%12 == 3 {
				return genSpanBatch(r, prop)
			}
			if prop == "C02" && i%6 == 1 {
				return genMixedLevels(r, prop)
			}
			if prop == "C05" && ((tier != "thorough" && i%50 == 49) || (tier == "thorough" && i%200 == 199)) {
				return genHugeBatch(r, prop)
			}
			if (prop == "C05" || prop == "C06") && i%20 == 7 {
				return genRecreateCase(r, prop)
			}
			g := newLibGen(r, prop, i%5 == 4)
			steps := 6 + r.Intn(10)
			if tier == "thorough" {
				steps = 8 + r.Intn(24)
			}
			return g.History(steps)
		},
		Cases: func(tier string) int {
			if tier == "thorough" {
				return 8000
			}
			return 600
		},
	}
}

func codecSuite() Suite {
	impl := ImplCodec{}
	return Suite{
		Name:   "codec",
		MkExec: func() Executor { return ImplCodec{} },
		Canon:  canonCodec,
		Gen:    func(r *Rng, i int, tier string) []Op { return genCodecOps(r, impl) },
		Cases: func(tier string) int {
			if tier == "thorough" {
				return 60000
			}
			return 4000
		},
	}
}

// hostile input: the property is "no panic, no hang, no disproportionate allocation";
// any other difference from the model is a model-fidelity matter.
func hostileClassify(op Op, impl, model string) bool {
	for _, bad := range []string{"panic", "crash", "timeout", "alloc!"} {
		if strings.HasPrefix(impl, bad) {
			return true
		}
	}
	// "... or a well-formed object": a fetch that answers with a series says how many values
	// it has by its bounds and step; another number of values is neither an error nor a
	// well-formed answer (whoever adds such series up indexes past the end)
	if strings.HasPrefix(op.Line, "fetch ") && illFormedSeries(impl) {
		return true
	}
	return false
}

// illFormedSeries: "ok <from> <until> <step> <v,v,...>" with (until-from)/step != number of values
func illFormedSeries(obs string) bool {
	f := strings.Fields(stripAlloc(obs))
	if len(f) != 5 || f[0] != "ok" {
		return false
	}
	from, e1 := strconv.ParseInt(f[1], 10, 64)
	until, e2 := strconv.ParseInt(f[2], 10, 64)
	step, e3 := strconv.ParseInt(f[3], 10, 64)
	if e1 != nil || e2 != nil || e3 != nil || step <= 0 || until < from {
		return false
	}
	n := 0
	if f[4] != "-" {
		n = len(strings.Split(f[4], ","))
	}
	return int64(n) != (until-from)/step
}

func hostileCodecSuite() Suite {
	return Suite{
		Name:     "hostile-codec",
		MkExec:   func() Executor { return NewChildExec("codec") },
		Canon:    canonCodec,
		Classify: hostileClassify,
		Gen:      func(r *Rng, i int, tier string) []Op { return genHostileCodec(r) },
		Cases: func(tier string) int {
			if tier == "thorough" {
				return 100000
			}
			return 6000
		},
	}
}

func hostileFileSuite() Suite {
	return Suite{
		Name:     "hostile-file",
		MkExec:   func() Executor { return NewChildExec("lib") },
		Canon:    canonObs,
		Classify: hostileClassify,
		Gen:      func(r *Rng, i int, tier string) []Op { return genHostileFile(r) },
		Cases: func(tier string) int {
			if tier == "thorough" {
				return 50000
			}
			return 3000
		},
	}
}

// MixedExec routes library ops to ImplLib and everything else to ImplCodec.
type MixedExec struct {
	lib *ImplLib
}

func NewMixedExec() *MixedExec { return &MixedExec{lib: NewImplLib()} }
func (m *MixedExec) Cleanup()  { m.lib.Cleanup() }
func (m *MixedExec) Exec(line string) string {
	if o := m.lib.Exec(line); o != "bad-op" {
		return o
	}
	return ImplCodec{}.Exec(line)
}

func canonMixed(s string) string { return canonObs(stripAlloc(s)) }

func validateSuite() Suite {
	return Suite{
		Name:   "validate",
		MkExec: func() Executor { return NewMixedExec() },
		Canon:  canonMixed,
		Gen:    func(r *Rng, i int, tier string) []Op { return genValidateOps(r) },
		Cases: func(tier string) int {
			if tier == "thorough" {
				return 80000
			}
			return 5000
		},
	}
}

func textSuite() Suite {
	return Suite{
		Name:   "text",
		MkExec: func() Executor { return ImplCodec{} },
		Canon:  canonCodec,
		Gen:    genTextOps,
		Cases: func(tier string) int {
			if tier == "thorough" {
				return 15000
			}
			return 1500
		},
	}
}

// interop: go-whisper reads what whispertool wrote and the other way round
func interopSuite() Suite {
	return Suite{
		Name:   "interop",
		MkExec: func() Executor { return NewImplLib() },
		Canon:  canonObs,
		Gen: func(r *Rng, i int, tier string) []Op {
			if i%2 == 0 {
				if ops := genGwCase(r); ops != nil {
					return ops
				}
			}
			g := newLibGen(r, "C06", i%5 == 4)
			g.alwaysSync = true
			ops := g.History(4 + r.Intn(8))
			ops = append(ops, Op{"sync", true}, Op{"gwmeta", true})
			ops = append(ops, gwFetchOps(r, g.lay, g.now, 8)...)
			return ops
		},
		Cases: func(tier string) int {
			if tier == "thorough" {
				return 3000
			}
			return 200
		},
	}
}

func cmdSuite(name string, gen func(r *Rng, i int, tier string) []Op, quick, thorough int, post PostCheck) Suite {
	return Suite{
		Name: name,
		Post: post,
		// in a child process: a panic in a goroutine the command started cannot be recovered
		// in-process and would take the whole harness down
		MkExec: func() Executor { return NewChildExec("cmd") },
		Canon:  canonCmd,
		Gen:    gen,
		Cases: func(tier string) int {
			if tier == "thorough" {
				return thorough
			}
			return quick
		},
	}
}

func suitesFor(prop string) []Suite {
	switch prop {
	case "C08":
		return []Suite{cmdSuite("copy", func(r *Rng, i int, tier string) []Op {
			if i%6 == 4 {
				return genStagedCase(r, "C08")
			}
			if i%12 == 9 {
				return genChainCase(r, "C08")
			}
			if i%4 == 3 {
				return genCopyGlobCase(r)
			}
			return genCopyCase(r)
		}, 700, 10000, postCopy)}
	case "C09":
		return []Suite{cmdSuite("diff", func(r *Rng, i int, tier string) []Op {
			if i%8 == 5 {
				return genDiffGlobOrderCase(r)
			}
			if i%4 == 3 {
				return genCopyGlobCase(r)
			}
			return genDiffCase(r)
		}, 700, 10000, postDiff)}
	case "C10":
		return []Suite{cmdSuite("sum", func(r *Rng, i int, tier string) []Op { return genSumCase(r, "C10") }, 600, 8000, postAny),
			{Name: "sum-many", Custom: sumManySuite}}
	case "C11":
		return []Suite{cmdSuite("sumcopy", func(r *Rng, i int, tier string) []Op {
			if i%6 == 4 {
				return genStagedCase(r, "C11")
			}
			if i%12 == 7 {
				return genChainCase(r, "C11")
			}
			return genSumCase(r, "C11")
		}, 600, 8000, postSumCopy)}
	case "C12":
		return []Suite{cmdSuite("remote", func(r *Rng, i int, tier string) []Op { return genRemoteCase(r) }, 300, 5000, postRemote),
			{Name: "remote-big", Custom: bigRemoteSuite}}
	case "C18":
		return []Suite{cmdSuite("view", func(r *Rng, i int, tier string) []Op { return genViewCase(r) }, 600, 10000, postView),
			{Name: "view-big", Custom: bigViewSuite}}
	case "C13":
		return []Suite{{Name: "lock", Custom: lockSuite}}
	case "C17":
		return []Suite{{Name: "race", Custom: raceSuite}}
	case "C20":
		return []Suite{cmdSuite("generate", func(r *Rng, i int, tier string) []Op {
			if i%3 != 0 {
				// the value clauses: the points generator on a replayed random stream
				return genGenPtsCase(r)
			}
			return genGenerateCase(r)
		}, 450, 12000, postAny)}
	case "C16":
		return []Suite{cmdSuite("loud", func(r *Rng, i int, tier string) []Op {
			if i%25 == 24 {
				return genFullTextOutCase(r, []string{"C05", "C11"}[r.Intn(2)])
			}
			return genLoudCase(r)
		}, 1000, 15000, postAny)}
	case "C06":
		return []Suite{libSuite(prop), interopSuite()}
	case "C19":
		return []Suite{textSuite()}
	case "C07":
		return []Suite{validateSuite()}
	case "C15":
		return []Suite{hostileCodecSuite(), hostileFileSuite()}
	case "C14":
		return []Suite{codecSuite(), {Name: "codec-huge", Custom: hugePrefixSuite}}
	case "C05":
		// the CLI clause: a write that fails before its final Sync leaves the destination alone
		return []Suite{libSuite(prop), cmdSuite("cli-fail", func(r *Rng, i int, tier string) []Op { return genCliFailCase(r) }, 40, 1500, postAny),
			{Name: "handoff", Custom: handoffSuite}}
	case "C01", "C02", "C03", "C04":
		return []Suite{libSuite(prop)}
	}
	return nil
}

func runChildOther(role string, args []string) bool {
	switch role {
	case "server":
		runServerChild(args)
		return true
	case "lockworker":
		runLockWorker(args)
		return true
	}
	return false
}
