package main

import (
	"fmt"
	"math"
	"strings"
)

// genChainCase (C08, C11): three archives; the sources were written with xFilesFactor 1 by a
// dense run that fills a few whole slots of the middle archive and only part of a slot of
// the coarsest one — the sources' coarsest archive reads NaN there.  The destination is
// created by the command with xFilesFactor 0: writing its finest archive propagates the
// same aggregates into the middle archive (nothing left to write there) and a value into
// the coarsest, where the source has none.  A destination equal to the source afterwards
// needs the coarsest archive compared again although nothing was written to the middle one.
func genChainCase(r *Rng, prop string) []Op {
	g := newCmdGen(r, prop)
	s0 := []int{1, 2, 5, 10}[r.Intn(4)]
	r1 := 2 + r.Intn(3)
	r2 := 3 + r.Intn(3)
	s1, s2 := s0*r1, s0*r1*r2
	n0 := 3*r1 + r.Intn(4)
	n1 := n0/r1 + r2 + 1 + r.Intn(3)
	n2 := n1/r2 + 2 + r.Intn(3)
	g.lay = Layout{Steps: []int{s0, s1, s2}, Ns: []int{n0, n1, n2}}
	g.agg = 1 + r.Intn(6)
	srcXff := math.Float32bits(1)
	dstXff := uint32(0)
	ops := []Op{{"reset", false}}
	// whole middle-archive slots, the newest of them the one before the current
	j := 1
	if r2 > 3 && r.Bool() {
		j = 2
	}
	a := g.now - g.now%s1 - j*s1
	write := func(path string) {
		var pts []string
		for t := a; t < a+j*s1; t += s0 {
			pts = append(pts, fmt.Sprintf("%d:%s", t, genVal(r, false)))
		}
		ops = append(ops, Op{"use " + path, false}, Op{fmt.Sprintf("create %s %d %08x", g.lay, g.agg, srcXff), false},
			Op{fmt.Sprintf("updmany -1 %d %s", g.now, strings.Join(pts, ",")), false}, Op{"sync", false}, Op{"drop", false})
	}
	opts := fmt.Sprintf("agg=%d xff=%d lay=%s", g.agg, dstXff, g.lay)
	if prop == "C08" {
		write("src/a.wsp")
		ops = append(ops, Op{fmt.Sprintf("cmd copy pairs=src/a.wsp>dst/a.wsp %s copynan=1 archive=-1 from=0 until=0", opts), true})
		ops = g.fdisks(ops, true, "dst/a.wsp")
		ops = append(ops, Op{"cmd diff pairs=src/a.wsp>dst/a.wsp archive=-1 from=0 until=0", true})
		return ops
	}
	n := 1 + r.Intn(3)
	var files []string
	for i := 0; i < n; i++ {
		p := fmt.Sprintf("src/i1/f%d.wsp", i)
		write(p)
		files = append(files, p)
	}
	common := fmt.Sprintf("items=%s>dst/i1/sum.wsp itempat=i1 srcpat=*.wsp", strings.Join(files, "+"))
	ops = append(ops, Op{fmt.Sprintf("cmd sumcopy %s dest=sum.wsp %s archive=-1 from=0 until=0", common, opts), true})
	ops = g.fdisks(ops, true, "dst/i1/sum.wsp")
	ops = append(ops, Op{fmt.Sprintf("cmd sumdiff %s dest=sum.wsp archive=-1 from=0 until=0", common), true})
	return ops
}
