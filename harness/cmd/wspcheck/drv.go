package main

import (
	"bufio"
	"fmt"
	"io"
	"os"
	"os/exec"
	"strings"
)

// Drv is the compiled Lean driver (the model), spoken to over a line protocol.
type Drv struct {
	cmd *exec.Cmd
	in  io.WriteCloser
	out *bufio.Reader
	n   int
}

func StartDrv(path string) (*Drv, error) {
	cmd := exec.Command(path)
	in, err := cmd.StdinPipe()
	if err != nil {
		return nil, err
	}
	out, err := cmd.StdoutPipe()
	if err != nil {
		return nil, err
	}
	cmd.Stderr = os.Stderr
	if err := cmd.Start(); err != nil {
		return nil, err
	}
	return &Drv{cmd: cmd, in: in, out: bufio.NewReaderSize(out, 1<<20)}, nil
}

func (d *Drv) Ask(line string) string {
	d.n++
	if _, err := io.WriteString(d.in, line+"\n"); err != nil {
		return "drv-dead " + err.Error()
	}
	s, err := d.out.ReadString('\n')
	if err != nil {
		return "drv-dead " + err.Error()
	}
	return strings.TrimRight(s, "\n")
}

func (d *Drv) Close() {
	d.in.Close()
	d.cmd.Wait()
}

var drvPath string

func mustDrv() *Drv {
	d, err := StartDrv(drvPath)
	if err != nil {
		fmt.Fprintf(os.Stderr, "cannot start driver %s: %v\n", drvPath, err)
		os.Exit(2)
	}
	return d
}
