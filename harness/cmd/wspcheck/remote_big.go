package main

import (
	"bytes"
	"fmt"
	"io/ioutil"
	"net/http"
	"os"
	"os/exec"
	"path/filepath"
	"strconv"
	"strings"
	"syscall"
	"time"

	wt "github.com/hnakamur/whispertool"
	wcmd "github.com/hnakamur/whispertool/cmd"
)

// bigRemoteSuite (C12): "for all layouts and windows" includes a long retention read whole.
// One archive of several hundred thousand points (a year of minutes is 525 600) makes
// responses of several megabytes; view, view-raw and sum over it print the same text whether
// the base is the directory or the server serving it.  Implementation against implementation
// at the same clock second: no model run is involved (the theorem C12.*_remote_eq_local says
// the same of the model for every size).
func bigRemoteSuite(c *Ctx) []Finding {
	var findings []Finding
	bad := func(sig, note string) {
		findings = append(findings, Finding{Stratum: "S", Suite: "remote-big", Signature: sig, Note: note, Impl: note, Model: "C12: " + sig})
	}
	count := func(kind, obs string) { c.Count(kind, Op{kind, true}, "remote-big", obs) }
	dir, _ := ioutil.TempDir("", "wspcheck-big-")
	defer os.RemoveAll(dir)
	root := filepath.Join(dir, "tree")
	item := filepath.Join(root, "it")
	os.MkdirAll(item, 0755)
	r := NewRng(c.Seed)
	n := 560000 + r.Intn(60000)
	if c.Tier == "thorough" {
		n = 900000 + r.Intn(200000)
	}
	now := int(time.Now().Unix())
	lay, _ := parseLay(fmt.Sprintf("60:%d", n))
	for f := 0; f < 2; f++ {
		db, err := wt.Create(filepath.Join(item, fmt.Sprintf("b%d.wsp", f)), lay, wt.Sum, 0)
		if err != nil {
			bad("create", err.Error())
			return findings
		}
		var pts []wt.Point
		for j := 0; j < 400; j++ {
			pts = append(pts, wt.Point{Time: wt.Timestamp(now - r.Intn(60*n-120) - 60), Value: wt.Value(float64(r.Intn(100000)) / 8)})
		}
		db.UpdatePointsForArchive(pts, 0, wt.Timestamp(now))
		db.Sync()
		db.Close()
	}
	self, _ := os.Executable()
	port := freePort()
	srv := exec.Command(self, "-child", "server", root, strconv.Itoa(port))
	var stderr bytes.Buffer
	srv.Stderr = &stderr
	if err := srv.Start(); err != nil {
		bad("server-start", err.Error())
		return findings
	}
	defer func() {
		srv.Process.Signal(syscall.SIGTERM)
		done := make(chan struct{})
		go func() { srv.Wait(); close(done) }()
		select {
		case <-done:
		case <-time.After(3 * time.Second):
			srv.Process.Kill()
			<-done
		}
	}()
	base := fmt.Sprintf("http://127.0.0.1:%d", port)
	for i := 0; i < 300; i++ {
		if resp, err := http.Get(base + "/items?pattern=it"); err == nil {
			resp.Body.Close()
			break
		}
		time.Sleep(10 * time.Millisecond)
	}
	type runner func(srcBase, out string) error
	runs := []struct {
		name string
		run  runner
	}{
		{"view", func(b, out string) error {
			return (&wcmd.ViewCommand{SrcBase: b, SrcRelPath: "it/b0.wsp", ArchiveID: -1, ShowHeader: true, TextOut: out}).Execute()
		}},
		{"view-raw", func(b, out string) error {
			return (&wcmd.ViewRawCommand{SrcBase: b, SrcRelPath: "it/b0.wsp", ArchiveID: -1, ShowHeader: true, SortsByTime: true, TextOut: out}).Execute()
		}},
		{"sum", func(b, out string) error {
			return (&wcmd.SumCommand{SrcBase: b, ItemPattern: "it", SrcPattern: "*.wsp", ArchiveID: -1, ShowHeader: true, TextOut: out}).Execute()
		}},
	}
	split := func(path string) (nowLine string, rest []byte) {
		b, _ := ioutil.ReadFile(path)
		var keep [][]byte
		for _, l := range bytes.Split(b, []byte("\n")) {
			if bytes.HasPrefix(l, []byte("now:")) {
				nowLine = string(l)
				continue
			}
			keep = append(keep, l)
		}
		return nowLine, bytes.Join(keep, []byte("\n"))
	}
	for _, rn := range runs {
		lo, ro := filepath.Join(dir, "local.txt"), filepath.Join(dir, "remote.txt")
		comparable := false
		var el, er error
		var bl, br []byte
		for try := 0; try < 5 && !comparable; try++ {
			os.Remove(lo)
			os.Remove(ro)
			// view and view-raw print no "now:" line: the two runs are comparable when no step
			// boundary of the archive (60 s) fell between the start of the first and the end of
			// the second — the window of a read moves only then
			m0 := time.Now().Unix() / 60
			el = rn.run(root, lo)
			er = rn.run(base, ro)
			m1 := time.Now().Unix() / 60
			var nl, nr string
			nl, bl = split(lo)
			nr, br = split(ro)
			comparable = (nl == nr && m0 == m1) || el != nil || er != nil
		}
		count("big-"+rn.name, fmt.Sprintf("ok comparable=%v bytes=%dk", comparable, len(bl)/1024))
		switch {
		case (el == nil) != (er == nil):
			bad("big-"+rn.name+"-outcome-differs", fmt.Sprintf("%s of an archive of %d points: local %v, through the server %v", rn.name, n, errStr(el), errStr(er)))
		case el == nil && comparable && !bytes.Equal(bl, br):
			bad("big-"+rn.name+"-output-differs", fmt.Sprintf("%s of an archive of %d points prints different text locally (%d bytes) and through the server (%d bytes)", rn.name, n, len(bl), len(br)))
		}
	}
	if strings.Contains(stderr.String(), "panic") {
		bad("big-server-panic", clip(stderr.String()))
	}
	return findings
}

func errStr(e error) string {
	if e == nil {
		return "ok"
	}
	return "error: " + e.Error()
}
