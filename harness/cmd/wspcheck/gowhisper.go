package main

import (
	"fmt"
	"io/ioutil"
	"math"
	"os"
	"path/filepath"
	"strconv"
	"strings"
	"sync"
	"time"

	gw "github.com/go-graphite/go-whisper"
)

// go-whisper reads its clock from a package variable: serialise every use of it.
var gwMu sync.Mutex

func gwSeriesObs(ts *gw.TimeSeries) string {
	if ts == nil {
		return "none"
	}
	vs := ts.Values()
	parts := make([]string, len(vs))
	for i, v := range vs {
		parts[i] = fmt.Sprintf("%016x", math.Float64bits(v))
	}
	s := "-"
	if len(parts) > 0 {
		s = strings.Join(parts, ",")
	}
	return fmt.Sprintf("ok %d %d %d %s", ts.FromTime(), ts.UntilTime(), ts.Step(), s)
}

// gwFetch: the reference implementation reads the file at `path` at clock `now`.
func gwFetch(path string, from, until, now int) (obs string) {
	gwMu.Lock()
	defer gwMu.Unlock()
	defer func() {
		if r := recover(); r != nil {
			obs = "panic"
		}
	}()
	old := gw.Now
	gw.Now = func() time.Time { return time.Unix(int64(now), 0) }
	defer func() { gw.Now = old }()
	w, err := gw.Open(path)
	if err != nil {
		return "err"
	}
	defer w.Close()
	ts, err := w.Fetch(from, until)
	if err != nil {
		return "err"
	}
	return gwSeriesObs(ts)
}

func gwMeta(path string) (obs string) {
	gwMu.Lock()
	defer gwMu.Unlock()
	defer func() {
		if r := recover(); r != nil {
			obs = "panic"
		}
	}()
	w, err := gw.Open(path)
	if err != nil {
		return "err"
	}
	defer w.Close()
	var parts []string
	for _, r := range w.Retentions() {
		parts = append(parts, fmt.Sprintf("%d:%d", r.SecondsPerPoint(), r.NumberOfPoints()))
	}
	return fmt.Sprintf("ok %d %d %08x %s", int(w.AggregationMethod()), w.MaxRetention(), math.Float32bits(w.XFilesFactor()), strings.Join(parts, ","))
}

// gwWriteFile creates a file with the reference implementation, writes the batches at
// the given clocks and returns the file's bytes.
func gwWriteFile(l Layout, agg int, xff uint32, batches []gwBatch) ([]byte, error) {
	gwMu.Lock()
	defer gwMu.Unlock()
	dir, err := ioutil.TempDir("", "wspcheck-gw-")
	if err != nil {
		return nil, err
	}
	defer os.RemoveAll(dir)
	path := filepath.Join(dir, "g.wsp")
	var rets gw.Retentions
	for i := range l.Steps {
		r := gw.NewRetention(l.Steps[i], l.Ns[i])
		rets = append(rets, &r)
	}
	w, err := gw.Create(path, rets, gw.AggregationMethod(agg), math.Float32frombits(xff))
	if err != nil {
		return nil, err
	}
	old := gw.Now
	defer func() { gw.Now = old }()
	for _, b := range batches {
		now := b.now
		gw.Now = func() time.Time { return time.Unix(int64(now), 0) }
		pts := make([]*gw.TimeSeriesPoint, len(b.pts))
		for i, p := range b.pts {
			pts[i] = &gw.TimeSeriesPoint{Time: p.t, Value: p.v}
		}
		if err := w.UpdateMany(pts); err != nil {
			w.Close()
			return nil, err
		}
	}
	w.Close()
	return ioutil.ReadFile(path)
}

type gwPoint struct {
	t int
	v float64
}
type gwBatch struct {
	now int
	pts []gwPoint
}

// genGwCase: a file written by go-whisper, read by whispertool, the model and go-whisper.
func genGwCase(r *Rng) []Op {
	l := genLayout(r, r.Chance(1, 6))
	agg := 1 + r.Intn(6)
	xff := math.Float32bits(xffChoices[r.Intn(len(xffChoices))])
	now := 1600000000 + r.Intn(100000000)
	var batches []gwBatch
	for b := 0; b < 1+r.Intn(4); b++ {
		var pts []gwPoint
		for i := 0; i < 1+r.Intn(15); i++ {
			age := genAge(r, l)
			if age < 0 {
				age = 0
			}
			pts = append(pts, gwPoint{now - age, float64(r.Intn(200) - 50)})
		}
		batches = append(batches, gwBatch{now, pts})
		now += r.Intn(l.MaxRet()/2 + 2)
	}
	file, err := gwWriteFile(l, agg, xff, batches)
	if err != nil {
		return nil
	}
	ops := []Op{{"reset", false}, {"setdisk " + hx(file), false}, {"open", true}, {"header", true}, {"gwmeta", true}}
	g := &LibGen{r: r, lay: l, now: now, prop: "C06"}
	for k := 0; k < l.K(); k++ {
		ops = append(ops, Op{fmt.Sprintf("raw %d", k), true})
	}
	for i := 0; i < 6; i++ {
		k := g.fetchID()
		f, u := g.window(k)
		if f < 0 {
			f = 0
		}
		if u < 0 {
			u = 0
		}
		ops = append(ops, Op{fmt.Sprintf("fetch %d %d %d %d", k, f, u, now), true})
	}
	ops = append(ops, gwFetchOps(r, l, now, 6)...)
	return ops
}

// gwFetchOps: non-degenerate windows for the reference reader.
func gwFetchOps(r *Rng, l Layout, now int, n int) []Op {
	var ops []Op
	sl := l.Steps[l.K()-1]
	for i := 0; i < n; i++ {
		// from inside the file's retention, until at least one coarsest step later: the
		// window stays non-degenerate in every archive after clamping
		span := l.MaxRet() - sl
		a := sl
		if span > 0 {
			a = sl + r.Intn(span+1)
		}
		f := now - a
		u := f + sl + r.Intn(a+1)
		if f < 1 {
			f = 1
		}
		ops = append(ops, Op{fmt.Sprintf("gwfetch %d %d %d", f, u, now), true})
	}
	return ops
}

func (m *ImplLib) execGw(tk []string) string {
	switch tk[0] {
	case "gwfetch":
		f, _ := strconv.Atoi(tk[1])
		u, _ := strconv.Atoi(tk[2])
		now, _ := strconv.Atoi(tk[3])
		return gwFetch(m.path, f, u, now)
	case "gwmeta":
		return gwMeta(m.path)
	}
	return "bad-op"
}
