package main

import (
	"encoding/hex"
	"flag"
	"fmt"
	"io/ioutil"
	"math"
	"strconv"
	"strings"

	wt "github.com/hnakamur/whispertool"
	wcmd "github.com/hnakamur/whispertool/cmd"
)

func hexStr(s string) string {
	if s == "" {
		return "-"
	}
	return hex.EncodeToString([]byte(s))
}

func archsObs(l wt.ArchiveInfoList) string {
	var parts []string
	for i := range l {
		parts = append(parts, archStrFromBytes(l[i].AppendTo(nil)))
	}
	if len(parts) == 0 {
		return "-"
	}
	return strings.Join(parts, ",")
}

// flagSet registers the flags of a command on a quiet FlagSet, so that a flag's
// Value.Set can be exercised exactly as the CLI does.
func flagSet() *flag.FlagSet {
	fs := flag.NewFlagSet("x", flag.ContinueOnError)
	fs.SetOutput(ioutil.Discard)
	c := &wcmd.GenerateCommand{}
	c.Parse(fs, []string{"-agg-method", "sum", "-retentions", "1s:2s", "-dest", "x"})
	return fs
}

func copyFlagSet() *flag.FlagSet {
	fs := flag.NewFlagSet("x", flag.ContinueOnError)
	fs.SetOutput(ioutil.Discard)
	c := &wcmd.CopyCommand{}
	c.Parse(fs, []string{"-agg-method", "sum", "-retentions", "1s:2s", "-src-base", "a", "-src", "b", "-dest-base", "c"})
	return fs
}

func textExec(tk []string) string {
	arg := func() (string, bool) {
		b, ok := unhex(tk[1])
		return string(b), ok
	}
	switch tk[0] {
	case "parsedur":
		s, ok := arg()
		if !ok {
			return "bad-op"
		}
		d, err := wt.ParseDuration(s)
		if err != nil {
			return "err"
		}
		return fmt.Sprintf("ok %d", int32(d))
	case "printdur":
		n, _ := strconv.ParseInt(tk[1], 10, 32)
		return hexStr(wt.Duration(n).String())
	case "parsearch":
		s, ok := arg()
		if !ok {
			return "bad-op"
		}
		a, err := wt.ParseArchiveInfo(s)
		if err != nil {
			return "err"
		}
		return fmt.Sprintf("ok %d:%d", int32(a.SecondsPerPoint()), a.NumberOfPoints())
	case "parsearchs":
		s, ok := arg()
		if !ok {
			return "bad-op"
		}
		l, err := wt.ParseArchiveInfoList(s)
		if err != nil {
			return "err"
		}
		return "ok " + archsObs(l)
	case "parsearchsflag":
		s, ok := arg()
		if !ok {
			return "bad-op"
		}
		fs := flagSet()
		if err := fs.Lookup("retentions").Value.Set(s); err != nil {
			return "err"
		}
		return "ok " + hexStr(fs.Lookup("retentions").Value.String())
	case "printarchs":
		var l wt.ArchiveInfoList
		if tk[1] != "-" {
			for _, part := range strings.Split(tk[1], ",") {
				f := strings.Split(part, ":")
				st, _ := strconv.ParseInt(f[1], 10, 32)
				n, _ := strconv.ParseUint(f[2], 10, 32)
				l = append(l, wt.NewArchiveInfo(wt.Duration(st), uint32(n)))
			}
		}
		return hexStr(l.String())
	case "parsets":
		s, ok := arg()
		if !ok {
			return "bad-op"
		}
		t, err := wt.ParseTimestamp(s)
		if err != nil {
			return "err"
		}
		return fmt.Sprintf("ok %d", uint32(t))
	case "parsetsflag":
		s, ok := arg()
		if !ok {
			return "bad-op"
		}
		fs := copyFlagSet()
		if err := fs.Lookup("from").Value.Set(s); err != nil {
			return "err"
		}
		t, err := wt.ParseTimestamp(fs.Lookup("from").Value.String())
		if err != nil {
			return "err"
		}
		return fmt.Sprintf("ok %d", uint32(t))
	case "printts":
		n, _ := strconv.ParseUint(tk[1], 10, 32)
		return hexStr(wt.Timestamp(n).String())
	case "aggname":
		n, _ := strconv.Atoi(tk[1])
		m := wt.AggregationMethod(n)
		if !m.IsAAggregationMethod() {
			return "err"
		}
		return "ok " + m.String()
	case "aggparse":
		m, err := wt.AggregationMethodString(tk[1])
		if err != nil {
			return "err"
		}
		return fmt.Sprintf("ok %d", int(m))
	case "aggflag":
		fs := flagSet()
		if err := fs.Lookup("agg-method").Value.Set(tk[1]); err != nil {
			return "err"
		}
		m, err := wt.AggregationMethodString(fs.Lookup("agg-method").Value.String())
		if err != nil {
			return "err"
		}
		return fmt.Sprintf("ok %d", int(m))
	case "xffflagbits":
		// the -x-files-factor flag given the shortest decimal of a float32
		xb, err := strconv.ParseUint(tk[1], 16, 32)
		if err != nil {
			return "bad-op"
		}
		str := strconv.FormatFloat(float64(math.Float32frombits(uint32(xb))), 'g', -1, 32)
		fs := flagSet()
		if err := fs.Lookup("x-files-factor").Value.Set(str); err != nil {
			return "err"
		}
		f, err := strconv.ParseFloat(fs.Lookup("x-files-factor").Value.String(), 32)
		if err != nil {
			return "err"
		}
		return fmt.Sprintf("ok %08x", math.Float32bits(float32(f)))
	case "xffflag":
		// the -x-files-factor flag: accepted iff Set succeeds; prints the float32 bits
		s, ok := arg()
		if !ok {
			return "bad-op"
		}
		fs := flagSet()
		if err := fs.Lookup("x-files-factor").Value.Set(s); err != nil {
			return "err"
		}
		f, err := strconv.ParseFloat(fs.Lookup("x-files-factor").Value.String(), 32)
		if err != nil {
			return "err"
		}
		return fmt.Sprintf("ok %08x", math.Float32bits(float32(f)))
	}
	return "bad-op"
}
