package main

import (
	"fmt"
	"strconv"
	"strings"

	wt "github.com/hnakamur/whispertool"
	wcmd "github.com/hnakamur/whispertool/cmd"
)

// drawSource is a math/rand Source that replays a given list of draws: the k-th call of
// Int63 returns draws[k] << 32, so that rnd.Intn(n) — Int31n over the top 31 bits, by mask
// for powers of two and by remainder after a rejection test that small values never fail —
// returns draws[k] % n.  Exhausted, it returns 0.
type drawSource struct {
	draws []int64
	pos   int
}

func (s *drawSource) Seed(int64) {}
func (s *drawSource) Int63() int64 {
	if s.pos >= len(s.draws) {
		return 0
	}
	d := s.draws[s.pos]
	s.pos++
	return d << 32
}

// genPts: `genpts lay=S:N,... max=M until=U now=T draws=d,d,...` runs the points generator
// of `generate` (through the verif hook) on that random stream and prints the points per
// archive.
func genPts(tk []string) (obs string) {
	defer func() {
		if r := recover(); r != nil {
			obs = "panic"
		}
	}()
	lay, _ := kvGet(tk, "lay")
	l, err := parseLay(lay)
	if err != nil {
		return "harness-error " + err.Error()
	}
	max := kvInt(tk, "max")
	until := kvInt(tk, "until")
	now := kvInt(tk, "now")
	src := &drawSource{}
	if ds, _ := kvGet(tk, "draws"); ds != "-" && ds != "" {
		for _, x := range strings.Split(ds, ",") {
			v, err := strconv.ParseInt(x, 10, 64)
			if err != nil {
				return "harness-error " + err.Error()
			}
			src.draws = append(src.draws, v)
		}
	}
	pl := wcmd.RandomPointsListForVerif(l, src, max, wt.Timestamp(until), wt.Timestamp(now))
	var parts []string
	for _, pts := range pl {
		if len(pts) == 0 {
			parts = append(parts, "-")
			continue
		}
		var ps []string
		for _, p := range pts {
			v := float64(p.Value)
			if v != float64(int64(v)) || v < 0 {
				ps = append(ps, fmt.Sprintf("%d:%v", uint32(p.Time), v))
			} else {
				ps = append(ps, fmt.Sprintf("%d:%d", uint32(p.Time), int64(v)))
			}
		}
		parts = append(parts, strings.Join(ps, ","))
	}
	return "ok " + strings.Join(parts, ";")
}
